(* ArchCodec.v — conversion between the typed values of ArchModel.v and the untyped document
   syntax the correspondence drivers exchange (prior targets in, final values out).
   Driver glue only: extracted, used by ml/arch_driver.ml, never mentioned in a theorem.
   Convention of the printers: DArr 1 _ marks an unordered collection (rendered elements are
   sorted), DArr 0 _ an ordered one; DMap entries are always sorted by the printers. *)
From BS Require Import Base ArchSpec ArchModel.

Fixpoint mapM {X Y} (f : X -> option Y) (l : list X) : option (list Y) :=
  match l with
  | [] => Some []
  | x :: l' => match f x, mapM f l' with Some y, Some r => Some (y :: r) | _, _ => None end
  end.

Definition key_of_doc (kt : keyty) (d : doc) : option (tkey kt) :=
  match kt return option (tkey kt) with
  | KInt => match d with DInt z => Some z | _ => None end
  | KStr => match d with DStr s => Some s | _ => None end
  end.
Definition key_of_dkey (kt : keyty) (k : dkey) : option (tkey kt) :=
  match kt return option (tkey kt) with
  | KInt => match k with DKInt z => Some z | _ => None end
  | KStr => match k with DKStr s => Some s | _ => None end
  end.
Definition doc_of_key (kt : keyty) : tkey kt -> doc :=
  match kt with KInt => DInt | KStr => DStr end.
Definition dkey_of_key (kt : keyty) : tkey kt -> dkey :=
  match kt with KInt => DKInt | KStr => DKStr end.

Definition bool_of_doc (d : doc) : option bool := match d with DBool b => Some b | _ => None end.

Fixpoint of_doc (t : ty) {struct t} : doc -> option (tval t) :=
  match t return doc -> option (tval t) with
  | TInt => fun d => match d with DInt z => Some z | _ => None end
  | TBool => bool_of_doc
  | TStr => fun d => match d with DStr s => Some s | _ => None end
  | TSeq _ t' => fun d => match d with DArr _ l => mapM (of_doc t') l | _ => None end
  | TVBool => fun d => match d with DArr _ l => mapM bool_of_doc l | _ => None end
  | TArr n t' => fun d =>
      match d with
      | DArr _ l => if Nat.eqb (length l) n then mapM (of_doc t') l else None
      | _ => None
      end
  | TBitset n => fun d =>
      match d with
      | DArr _ l => if Nat.eqb (length l) n then mapM bool_of_doc l else None
      | _ => None
      end
  | TSet _ kt => fun d => match d with DArr _ l => mapM (key_of_doc kt) l | _ => None end
  | TMap kt t' => fun d =>
      match d with
      | DMap l => mapM (fun kv => match key_of_dkey kt (fst kv), of_doc t' (snd kv) with
                                  | Some k, Some v => Some (k, v) | _, _ => None end) l
      | _ => None
      end
  | TMMap kt t' => fun d =>
      match d with
      | DMap l => mapM (fun kv => match key_of_dkey kt (fst kv), of_doc t' (snd kv) with
                                  | Some k, Some v => Some (k, v) | _, _ => None end) l
      | _ => None
      end
  | TPtr _ t' => fun d =>
      match d with
      | DNull => Some None
      | _ => match of_doc t' d with Some v => Some (Some v) | None => None end
      end
  | TPair ta tb => fun d =>
      match d with
      | DArr _ [x; y] => match of_doc ta x, of_doc tb y with Some u, Some v => Some (u, v) | _, _ => None end
      | _ => None
      end
  end.

Fixpoint to_doc (t : ty) {struct t} : tval t -> doc :=
  match t return tval t -> doc with
  | TInt => DInt
  | TBool => DBool
  | TStr => DStr
  | TSeq _ t' => fun v => DArr 0 (map (to_doc t') v)
  | TVBool => fun v => DArr 0 (map DBool v)
  | TArr _ t' => fun v => DArr 0 (map (to_doc t') v)
  | TBitset _ => fun v => DArr 0 (map DBool v)
  | TSet _ kt => fun v => DArr 1 (map (doc_of_key kt) v)
  | TMap kt t' => fun v => DMap (map (fun kv => (dkey_of_key kt (fst kv), to_doc t' (snd kv))) v)
  | TMMap kt t' => fun v => DMap (map (fun kv => (dkey_of_key kt (fst kv), to_doc t' (snd kv))) v)
  | TPtr _ t' => fun v => match v with None => DNull | Some x => to_doc t' x end
  | TPair ta tb => fun v => DArr 0 [to_doc ta (fst v); to_doc tb (snd v)]
  end.

(* the whole popload case: parse the prior, load, render the answer *)
Inductive answer := ABadCase | AExc (e : exc) | AOk (d : doc).

Definition run_popload (a : arch) (pl : pols) (t : ty) (mode : option mapmode) (prior d : doc) : answer :=
  match of_doc t prior with
  | None => ABadCase
  | Some p =>
    match mode with
    | None =>
        match load a pl t p d with
        | Ok (v, _) => AOk (to_doc t v)
        | Exc e => AExc e
        end
    | Some m =>
        match t return tval t -> answer with
        | TMap kt t' => fun p' =>
            match load_map_mode a pl m kt t' p' d with
            | Ok (v, _) => AOk (to_doc (TMap kt t') v)
            | Exc e => AExc e
            end
        | _ => fun _ => ABadCase
        end p
    end
  end.

(* ---- classes ---- *)
Definition leaf_to_doc (l : leafty) : leafval l -> doc :=
  match l with
  | LInt => DInt
  | LStr => DStr
  | LVecInt => fun v => DArr 0 (map DInt v)
  | LAttrInt => DInt
  | LAttrStr => DStr
  end.

Fixpoint f_to_doc (t : fty) {struct t} : fval t -> doc :=
  match t return fval t -> doc with
  | FLeaf l => leaf_to_doc l
  | FObj fs => fun v => DArr 0 (fs_to_docs fs v)
  | FVecObj fs => fun v => DArr 0 (map (fun x => DArr 0 (fs_to_docs fs x)) v)
  | FMapObj fs => fun v => DMap (map (fun kx => (DKStr (fst kx), DArr 0 (fs_to_docs fs (snd kx)))) v)
  end
with fs_to_docs (fs : fields) {struct fs} : fsval fs -> list doc :=
  match fs return fsval fs -> list doc with
  | FNil => fun _ => []
  | FCons _ t _ rest => fun v => f_to_doc t (fst v) :: fs_to_docs rest (snd v)
  end.

(* validate case: OK value | VAL map [state of the object when the exception came from the end of
   the load] | other exception *)
Inductive vanswer := VOk (d : doc) | VVal (m : vmap) (state : option doc) | VExc (e : exc).

Definition run_validate (a : arch) (pl : pols) (max : N) (t : fty) (d : doc) : vanswer :=
  match load_root a pl max t d with
  | Ok v => VOk (f_to_doc t v)
  | Exc (EValidation m) =>
      VVal m (if N.eqb max 0
              then match load_plain a pl t d with Ok v => Some (f_to_doc t v) | Exc _ => None end
              else None)
  | Exc e => VExc e
  end.

(* ------------------------------------------------------------------------------------------ *)
(* the fixed catalogues of the drivers (same order as harness/drv_arch.cpp)                     *)
(* ------------------------------------------------------------------------------------------ *)
From Coq Require Import String.

Definition type_catalogue : list ty :=
  [ TSeq SVector TInt;                                (*  0 std::vector<int> *)
    TSeq SDeque TInt;                                 (*  1 std::deque<int> *)
    TSeq SList TInt;                                  (*  2 std::list<int> *)
    TSeq SFwdList TInt;                               (*  3 std::forward_list<int> *)
    TSeq SValarray TInt;                              (*  4 std::valarray<int> *)
    TSeq SQueue TInt;                                 (*  5 std::queue<int> *)
    TSeq SStack TInt;                                 (*  6 std::stack<int> *)
    TSeq SPriorityQueue TInt;                         (*  7 std::priority_queue<int> *)
    TVBool;                                           (*  8 std::vector<bool> *)
    TArr 3 TInt;                                      (*  9 std::array<int,3> *)
    TBitset 4;                                        (* 10 std::bitset<4> *)
    TSet false KInt;                                  (* 11 std::set<int> *)
    TSet true KInt;                                   (* 12 std::multiset<int> *)
    TSet false KStr;                                  (* 13 std::unordered_set<std::string> *)
    TSet true KStr;                                   (* 14 std::unordered_multiset<std::string> *)
    TMap KInt TInt;                                   (* 15 std::map<int,int> *)
    TMap KInt TInt;                                   (* 16 std::unordered_map<int,int> *)
    TMap KStr TInt;                                   (* 17 std::map<std::string,int> *)
    TMMap KInt TInt;                                  (* 18 std::multimap<int,int> *)
    TMMap KStr TInt;                                  (* 19 std::unordered_multimap<std::string,int> *)
    TPtr POptional TInt;                              (* 20 std::optional<int> *)
    TPtr PUnique TInt;                                (* 21 std::unique_ptr<int> *)
    TPtr PShared TInt;                                (* 22 std::shared_ptr<int> *)
    TSeq SVector TStr;                                (* 23 std::vector<std::string> *)
    TSeq SVector (TSeq SVector TInt);                 (* 24 std::vector<std::vector<int>> *)
    TSeq SVector (TPtr POptional TInt);               (* 25 std::vector<std::optional<int>> *)
    TSeq SVector (TMap KStr TInt);                    (* 26 std::vector<std::map<std::string,int>> *)
    TMap KStr (TSeq SVector TInt);                    (* 27 std::map<std::string,std::vector<int>> *)
    TPtr POptional (TSeq SVector TInt);               (* 28 std::optional<std::vector<int>> *)
    TSeq SVector (TPair TInt TInt);                   (* 29 std::vector<std::pair<int,int>> *)
    TSeq SList (TPair TInt TInt);                     (* 30 std::list<std::pair<int,int>> *)
    TSeq SDeque (TPair TInt TInt);                    (* 31 std::deque<std::pair<int,int>> *)
    TSeq SFwdList (TPair TInt TInt);                  (* 32 std::forward_list<std::pair<int,int>> *)
    TArr 2 (TSeq SVector TInt);                       (* 33 std::array<std::vector<int>,2> *)
    TSeq SVector (TArr 2 TInt);                       (* 34 std::vector<std::array<int,2>> *)
    TPair TInt (TSeq SVector TInt);                   (* 35 std::pair<int,std::vector<int>> *)
    TMap KInt (TMap KInt TInt);                       (* 36 std::map<int,std::map<int,int>> *)
    TSeq SVector (TPtr PUnique (TSeq SVector TInt));  (* 37 std::vector<std::unique_ptr<std::vector<int>>> *)
    TArr 3 TInt;                                      (* 38 int[3] *)
    TSeq SDeque (TSeq SList TStr);                    (* 39 std::deque<std::list<std::string>> *)
    TStr;                                             (* 40 std::string *)
    TInt;                                             (* 41 int *)
    TSeq SVector TVBool;                              (* 42 std::vector<std::vector<bool>> *)
    TSeq SList (TSet false KStr)                      (* 43 std::list<std::set<std::string>> *)
  ].

Definition is_odd (z : Z) : bool := negb (Z.eqb (Z.modulo z 2) 0).
Definition custom_even : vld :=
  VCustom (fun w ld => if (ld && is_odd (v_int w))%bool then Some (LIT "must be even") else None).
Definition custom_nospace : vld :=
  VCustom (fun w ld => if (negb ld || negb (existsb (N.eqb 32) (v_text w)))%bool then None
                       else Some (LIT "The field must not contain spaces")).

Notation "'fl' k" := (FCons (LIT k)) (at level 0, k at level 0, only parsing).
Notation "'msg' s" := (Some (LIT s)) (at level 0, s at level 0, only parsing).

Definition fields_flat : fields :=
  fl "x" (FLeaf LInt) [VRequired None; VRange 1 5 None]
 (fl "s" (FLeaf LStr) [VRequired None; VMinSize 2 None; VMaxSize 4 None]
 (fl "y" (FLeaf LInt) [VRequired None] FNil)).

Definition fields_multi : fields :=
  fl "a" (FLeaf LInt) [VRange 1 5 None; VRange 3 9 (msg "custom r2"); custom_even]
 (fl "b" (FLeaf LStr) [VMinSize 5 None; VMaxSize 2 None; VRequired (msg "b required")]
 (fl "c" (FLeaf LInt) [VRequired None; VRange (-3) 3 None]
 (fl "d" (FLeaf LStr) [VMaxSize 0 None] FNil))).

Definition fields_text : fields :=
  fl "e" (FLeaf LStr) [VRequired None; VEmail None]
 (fl "p" (FLeaf LStr) [VPhone 7 15 true None]
 (fl "q" (FLeaf LStr) [VPhone 3 3 false (msg "bad q")]
 (fl "r" (FLeaf LStr) [VPhone 2 4 false None; VEmail (msg "custom email")]
 (fl "nick" (FLeaf LStr) [custom_nospace] FNil)))).

Definition fields_nested : fields :=
  fl "id" (FLeaf LInt) [VRequired None]
 (fl "inner" (FObj fields_flat) [VRequired None]
 (fl "tail" (FLeaf LInt) [VRange 0 10 None] FNil)).

Definition fields_inarray : fields :=
  fl "items" (FVecObj fields_flat) [VMinSize 1 None; VMaxSize 3 None]
 (fl "n" (FLeaf LInt) [VRequired None] FNil).

Definition fields_inmap : fields :=
  fl "m" (FMapObj fields_flat) [VMaxSize 2 None; VRequired None]
 (fl "z" (FLeaf LInt) [VRequired None] FNil).

Definition fields_dup : fields :=
  fl "x" (FLeaf LInt) [VRange 1 5 None]
 (fl "x" (FLeaf LInt) [VRequired None; VRange 2 9 (msg "second")]
 (fl "v" (FLeaf LVecInt) [VMinSize 2 None; VMaxSize 3 None; VRequired None] FNil)).

Notation "'many_field' k m" := (FCons (LIT k) (FLeaf LInt) [VRequired (Some (LIT m)); VRange 0 9 None; custom_even]) (at level 0, k at level 0, m at level 0, only parsing).
Definition fields_many : fields :=
  many_field "f1" "f1 missing" (many_field "f2" "f2 missing" (many_field "f3" "f3 missing"
  (many_field "f4" "f4 missing" (many_field "f5" "f5 missing" FNil)))).

Definition fields_deep : fields :=
  fl "list" (FVecObj fields_nested) [VMinSize 1 None]
 (fl "k" (FLeaf LInt) [VRequired None] FNil).

(* XML only: members serialized with AttributeValue; the attribute x and the child element x share the path .../x *)
Definition fields_attr : fields :=
  fl "id" (FLeaf LAttrInt) [VRequired None; VRange 1 5 None]
 (fl "name" (FLeaf LAttrStr) [VMinSize 2 None; VMaxSize 4 None]
 (fl "x" (FLeaf LInt) [VRequired None]
 (fl "x" (FLeaf LAttrInt) [VRange 0 9 (msg "attr x")] FNil))).

Definition fields_attrlist : fields :=
  fl "list" (FVecObj fields_attr) [VMinSize 1 None]
 (fl "k" (FLeaf LAttrInt) [VRequired None] FNil).

Definition class_catalogue : list fty :=
  [ FObj fields_flat;        (* 0 *)
    FObj fields_multi;       (* 1 *)
    FObj fields_text;        (* 2 *)
    FObj fields_nested;      (* 3 *)
    FObj fields_inarray;     (* 4 *)
    FObj fields_inmap;       (* 5 *)
    FObj fields_dup;         (* 6 *)
    FObj fields_many;        (* 7 *)
    FVecObj fields_flat;     (* 8  root = std::vector<Flat> *)
    FObj fields_deep;        (* 9 *)
    FObj fields_attr;        (* 10 XML only: attributes *)
    FObj fields_attrlist ].  (* 11 XML only: attributes inside array items *)
