(* ArchLemmas.v — proofs about the generic container algorithms of ArchModel.v part 1a
   (any element type, any element loader, any state). *)
From BS Require Import Base ArchSpec ArchModel.
From Coq Require Import ZifyBool ZifyN ZifyNat.
Ltac Zify.zify_post_hook ::= Z.div_mod_to_equations.

Lemma str_eqb_refl s : str_eqb s s = true.
Proof. induction s; cbn; [reflexivity | rewrite N.eqb_refl; exact IHs]. Qed.

Lemma str_eqb_spec a b : str_eqb a b = true <-> a = b.
Proof.
  split.
  - revert b. induction a as [|x a IH]; destruct b as [|y b]; cbn; intros H; try discriminate; [reflexivity|].
    apply andb_true_iff in H. destruct H as [H1 H2]. apply N.eqb_eq in H1. subst. f_equal. apply IH; assumption.
  - intros ->. apply str_eqb_refl.
Qed.

Lemma str_eqb_sym a b : str_eqb a b = str_eqb b a.
Proof.
  destruct (str_eqb a b) eqn:E.
  - apply str_eqb_spec in E. subst. symmetry. apply str_eqb_refl.
  - destruct (str_eqb b a) eqn:E2; [|reflexivity]. apply str_eqb_spec in E2. subst. rewrite str_eqb_refl in E. discriminate.
Qed.

Lemma Forall_firstn {X} (P : X -> Prop) n l : Forall P l -> Forall P (firstn n l).
Proof. revert n. induction l; intros [|n] H; cbn; auto. inversion H; subst. constructor; auto. Qed.

Lemma Forall_skipn {X} (P : X -> Prop) n l : Forall P l -> Forall P (skipn n l).
Proof. revert n. induction l; intros [|n] H; cbn; auto. inversion H; subst. auto. Qed.

Lemma Forall_repeat {X} (P : X -> Prop) x n : P x -> Forall P (repeat x n).
Proof. intros H. induction n; cbn; constructor; auto. Qed.

Lemma skipn_nil_all {X} n (l : list X) : (length l <= n)%nat -> skipn n l = [].
Proof. revert n. induction l; intros [|n] H; cbn in *; try reflexivity; try lia. apply IHl. lia. Qed.

Lemma resize_exact {A} (dflt : A) n l : n = length l -> resize dflt n l = l.
Proof. intros ->. unfold resize. rewrite firstn_all, Nat.sub_diag. cbn. apply app_nil_r. Qed.

Lemma resize_prefix {A} (dflt : A) (vs tl : list A) : resize dflt (length vs) (vs ++ tl) = vs.
Proof.
  unfold resize. rewrite firstn_app, firstn_all, Nat.sub_diag. cbn. rewrite app_nil_r.
  replace (length vs - length (vs ++ tl))%nat with O by (rewrite app_length; lia). cbn. apply app_nil_r.
Qed.

Section SeqLemmas.
  Context {A D S : Type}.
  Variable el : A -> D -> S -> outcome (A * bool * S).
  Variable dflt : A.

  Lemma fresh_elems_app l1 : forall l2 s,
    fresh_elems el dflt (l1 ++ l2) s =
      ('(v1, s1) <- fresh_elems el dflt l1 s ;; '(v2, s2) <- fresh_elems el dflt l2 s1 ;; Ok (v1 ++ v2, s2)).
  Proof.
    induction l1 as [|d l1 IH]; intros l2 s; cbn.
    - destruct (fresh_elems el dflt l2 s) as [[v2 s2]|e]; reflexivity.
    - destruct (el dflt d s) as [[[v ld] s1]|e]; cbn; [|reflexivity].
      rewrite IH. destruct (fresh_elems el dflt l1 s1) as [[v1 s1']|e]; cbn; [|reflexivity].
      destruct (fresh_elems el dflt l2 s1') as [[v2 s2]|e]; reflexivity.
  Qed.

  Lemma fresh_elems_length data : forall s vs s', fresh_elems el dflt data s = Ok (vs, s') -> length vs = length data.
  Proof.
    induction data as [|d data IH]; intros s vs s' H; cbn in H.
    - inversion H. reflexivity.
    - destruct (el dflt d s) as [[[v ld] s1]|e]; cbn in H; [|discriminate].
      destruct (fresh_elems el dflt data s1) as [[r s2]|e] eqn:E; cbn in H; [|discriminate].
      inversion H; subst. cbn. f_equal. eapply IH. exact E.
  Qed.

  Lemma load_appended_spec data : forall s,
    load_appended el dflt data s = ('(vs, s') <- fresh_elems el dflt data s ;; Ok (vs, length data, s')).
  Proof.
    induction data as [|d data IH]; intros s; cbn; [reflexivity|].
    destruct (el dflt d s) as [[[v ld] s1]|e]; cbn; [|reflexivity].
    rewrite IH. destruct (fresh_elems el dflt data s1) as [[r s2]|e]; reflexivity.
  Qed.

  Lemma reset_false_eq c d s : reset_unloaded el dflt false c d s = el c d s.
  Proof. unfold reset_unloaded. destruct (el c d s) as [[[v ld] s1]|e]; reflexivity. Qed.

  (* the two loops of SerializeContainer, given what the first-loop body (with its reset) satisfies *)
  Section Independent.
    Variable asg : bool.
    Variable Q : A -> Prop.
    Variable P : D -> Prop.
    Hypothesis Hr : prior_independent (reset_unloaded el dflt asg) dflt Q P.
    Hypothesis Hfresh : forall d s, P d -> reset_unloaded el dflt asg dflt d s = el dflt d s.
    Hypothesis Qd : Q dflt.

    Lemma fresh_elems_reset data : forall s, Forall P data ->
      fresh_elems (reset_unloaded el dflt asg) dflt data s = fresh_elems el dflt data s.
    Proof.
      induction data as [|d data IH]; intros s HP; [reflexivity|].
      inversion HP; subst. cbn [fresh_elems]. rewrite Hfresh by assumption.
      destruct (el dflt d s) as [[[v ld] s1]|e]; cbn [bind]; [|reflexivity].
      rewrite IH by assumption. reflexivity.
    Qed.

    Lemma load_existing_spec cont : forall data s, Forall Q cont -> Forall P data ->
      load_existing el dflt asg cont data s =
        ('(vs, s') <- fresh_elems el dflt (firstn (length cont) data) s ;;
         Ok (vs ++ skipn (length data) cont, skipn (length cont) data, Nat.min (length cont) (length data), s')).
    Proof.
      induction cont as [|c cont IH]; intros data s HQ HP.
      - cbn. destruct data; reflexivity.
      - destruct data as [|d data]; [reflexivity|].
        inversion HQ; subst. inversion HP; subst. cbn [load_existing length firstn fresh_elems].
        rewrite (Hr c d s) by assumption. rewrite Hfresh by assumption.
        destruct (el dflt d s) as [[[v ld] s1]|e]; cbn [bind]; [|reflexivity].
        rewrite IH by assumption.
        destruct (fresh_elems el dflt (firstn (length cont) data) s1) as [[r s2]|e]; reflexivity.
    Qed.

    Lemma load_loops_spec cont0 data s : Forall Q cont0 -> Forall P data ->
      load_loops el dflt asg cont0 data s = fresh_elems el dflt data s.
    Proof.
      intros HQ HP. unfold load_loops.
      rewrite load_existing_spec by assumption.
      replace (fresh_elems el dflt data s)
        with (fresh_elems el dflt (firstn (length cont0) data ++ skipn (length cont0) data) s)
        by (rewrite firstn_skipn; reflexivity).
      rewrite fresh_elems_app.
      destruct (fresh_elems el dflt (firstn (length cont0) data) s) as [[vs s1]|e] eqn:E1; cbn [bind]; [|reflexivity].
      rewrite load_appended_spec.
      destruct (fresh_elems el dflt (skipn (length cont0) data) s1) as [[app s2]|e] eqn:E2; cbn [bind]; [|reflexivity].
      apply fresh_elems_length in E1. apply fresh_elems_length in E2.
      rewrite firstn_length in E1. rewrite skipn_length in E2.
      f_equal. f_equal. rewrite skipn_length.
      destruct (Nat.le_gt_cases (length cont0) (length data)) as [Hle|Hgt].
      - rewrite (skipn_nil_all (length data) cont0) by exact Hle. rewrite app_nil_r.
        apply resize_exact. rewrite app_length. lia.
      - assert (app = []) by (destruct app; [reflexivity | cbn in E2; lia]). subst app.
        rewrite !app_nil_r.
        replace (Nat.min (length cont0) (length data) + (length data - length cont0))%nat with (length vs) by lia.
        apply resize_prefix.
    Qed.

    Lemma Forall_resize n l : Forall Q l -> Forall Q (resize dflt n l).
    Proof.
      intros H. unfold resize. apply Forall_app. split.
      - apply Forall_firstn. exact H.
      - apply Forall_repeat. exact Qd.
    Qed.

    Lemma load_seq_spec prior est data s : Forall Q prior -> Forall P data ->
      load_seq el dflt asg prior est data s = fresh_elems el dflt data s.
    Proof.
      intros HQ HP. unfold load_seq. apply load_loops_spec; [|exact HP].
      destruct (Nat.eqb est 0); [exact HQ | apply Forall_resize; exact HQ].
    Qed.

    Lemma load_fwd_spec prior est data s : Forall Q prior -> Forall P data ->
      load_fwd el dflt asg prior est data s = fresh_elems el dflt data s.
    Proof.
      intros HQ HP. unfold load_fwd. apply load_loops_spec; [|exact HP].
      destruct (Nat.eqb est 0).
      - destruct prior; [apply Forall_resize; constructor | exact HQ].
      - apply Forall_resize; exact HQ.
    Qed.

    Lemma load_valarray_spec prior est data s : Forall P data ->
      load_valarray el dflt asg prior est data s = fresh_elems el dflt data s.
    Proof. intros HP. unfold load_valarray. apply load_seq_spec; [constructor | exact HP]. Qed.
  End Independent.

  (* element type not assignable (old behaviour): the loader itself must ignore the prior value *)
  Lemma reset_false_independent Q P : prior_independent el dflt Q P ->
    prior_independent (reset_unloaded el dflt false) dflt Q P /\
    (forall d s, P d -> reset_unloaded el dflt false dflt d s = el dflt d s).
  Proof.
    intros Hi. split.
    - intros p d s Hq Hp. rewrite !reset_false_eq. apply Hi; assumption.
    - intros d s _. apply reset_false_eq.
  Qed.

  (* element type assignable: enough that the loader's exceptions, "loaded" result, state, and value
     when loaded ignore the prior value *)
  Lemma reset_true_independent Q P :
    prior_independent_when_loaded el dflt Q P -> unloaded_keeps_fresh el dflt P ->
    prior_independent (reset_unloaded el dflt true) dflt Q P /\
    (forall d s, P d -> reset_unloaded el dflt true dflt d s = el dflt d s).
  Proof.
    intros Hw Hk. split.
    - intros p d s Hq Hp. specialize (Hw p d s Hq Hp). unfold reset_unloaded, agree_when_loaded in *.
      destruct (el p d s) as [[[v1 [|]] s1]|e1]; destruct (el dflt d s) as [[[v2 [|]] s2]|e2];
        cbn in Hw; cbn [bind andb negb]; try contradiction;
        try (destruct Hw; subst; reflexivity); try (subst; reflexivity).
    - intros d s Hp. unfold reset_unloaded.
      destruct (el dflt d s) as [[[v l] s1]|e] eqn:E; cbn [bind]; [|reflexivity].
      destruct l; cbn [andb negb]; [reflexivity|].
      rewrite (Hk d s v s1 Hp E). reflexivity.
  Qed.

  Section StrongIndependent.
    Variable Q : A -> Prop.
    Variable P : D -> Prop.
    Hypothesis Hind : prior_independent el dflt Q P.

    Lemma load_fixed_indep cont1 : forall cont2 data s,
      Forall Q cont1 -> Forall Q cont2 -> length cont1 = length cont2 -> Forall P data ->
      load_fixed el cont1 data s = load_fixed el cont2 data s.
    Proof.
      induction cont1 as [|c1 cont1 IH]; intros cont2 data s H1 H2 HL HP.
      - destruct cont2; [reflexivity | discriminate].
      - destruct cont2 as [|c2 cont2]; [discriminate|].
        destruct data as [|d data]; [reflexivity|].
        inversion H1; subst. inversion H2; subst. inversion HP; subst. cbn in HL.
        cbn [load_fixed].
        rewrite (Hind c1 d s), (Hind c2 d s) by assumption.
        destruct (el dflt d s) as [[[v ld] s1]|e]; cbn [bind]; [|reflexivity].
        rewrite (IH cont2 data s1) by (try assumption; lia). reflexivity.
    Qed.

    Lemma load_ptr_indep (p : A) d s : Q p -> P d ->
      load_ptr el dflt (Some p) d s = load_ptr el dflt None d s.
    Proof. intros Hq Hp. unfold load_ptr. rewrite (Hind p d s) by assumption. reflexivity. Qed.
  End StrongIndependent.

  (* sets and multimaps clear the target first: the prior content is never looked at *)
  Lemma load_set_prior ins prior data s : load_set el dflt ins prior data s = load_set el dflt ins [] data s.
  Proof. reflexivity. Qed.
  Lemma load_mmap_prior prior data s : load_mmap el dflt prior data s = load_mmap el dflt [] data s.
  Proof. reflexivity. Qed.
End SeqLemmas.

(* ---------------- vector<bool>: the element loader is never given the prior element ---------------- *)
Section VBoolLemmas.
  Context {D S : Type}.
  Variable elb : bool -> D -> S -> outcome (bool * bool * S).

  (* the values the local variable "value" takes: each element document loaded over the previous
     element's value (false before the first) *)
  Fixpoint vb_run (data : list D) (value : bool) (s : S) : outcome (list bool * bool * S) :=
    match data with
    | [] => Ok ([], value, s)
    | d :: data' =>
        '(v, _, s1) <- elb value d s ;;
        '(r, vl, s2) <- vb_run data' v s1 ;;
        Ok (v :: r, vl, s2)
    end.

  Lemma vb_run_app l1 : forall l2 value s,
    vb_run (l1 ++ l2) value s =
      ('(r1, v1, s1) <- vb_run l1 value s ;; '(r2, v2, s2) <- vb_run l2 v1 s1 ;; Ok (r1 ++ r2, v2, s2)).
  Proof.
    induction l1 as [|d l1 IH]; intros l2 value s; cbn.
    - destruct (vb_run l2 value s) as [[[r2 v2] s2]|e]; reflexivity.
    - destruct (elb value d s) as [[[v ld] s1]|e]; cbn; [|reflexivity].
      rewrite IH. destruct (vb_run l1 v s1) as [[[r1 v1] s1']|e]; cbn; [|reflexivity].
      destruct (vb_run l2 v1 s1') as [[[r2 v2] s2]|e]; reflexivity.
  Qed.

  Lemma vb_run_length data : forall value s r vl s', vb_run data value s = Ok (r, vl, s') -> length r = length data.
  Proof.
    induction data as [|d data IH]; intros value s r vl s' H; cbn in H.
    - inversion H. reflexivity.
    - destruct (elb value d s) as [[[v ld] s1]|e]; cbn in H; [|discriminate].
      destruct (vb_run data v s1) as [[[r0 vl0] s2]|e] eqn:E; cbn in H; [|discriminate].
      inversion H; subst. cbn. f_equal. eapply IH. exact E.
  Qed.

  Lemma vb_existing_spec cont : forall data value s,
    vb_existing elb cont data value s =
      ('(r, vl, s') <- vb_run (firstn (length cont) data) value s ;;
       Ok (r ++ skipn (length data) cont, skipn (length cont) data, Nat.min (length cont) (length data), vl, s')).
  Proof.
    induction cont as [|c cont IH]; intros data value s.
    - cbn. destruct data; reflexivity.
    - destruct data as [|d data]; [reflexivity|].
      cbn [vb_existing length firstn vb_run].
      destruct (elb value d s) as [[[v ld] s1]|e]; cbn [bind]; [|reflexivity].
      rewrite IH. destruct (vb_run (firstn (length cont) data) v s1) as [[[r vl] s2]|e]; reflexivity.
  Qed.

  Lemma vb_appended_spec data : forall value s,
    vb_appended elb data value s = ('(r, _, s') <- vb_run data value s ;; Ok (r, length data, s')).
  Proof.
    induction data as [|d data IH]; intros value s; cbn; [reflexivity|].
    destruct (elb value d s) as [[[v ld] s1]|e]; cbn; [|reflexivity].
    rewrite IH. destruct (vb_run data v s1) as [[[r vl] s2]|e]; reflexivity.
  Qed.

  Lemma load_vbool_spec prior est data s :
    load_vbool elb prior est data s = ('(r, _, s') <- vb_run data false s ;; Ok (r, s')).
  Proof.
    unfold load_vbool.
    set (cont0 := if Nat.eqb est 0 then prior else resize false est prior).
    rewrite vb_existing_spec.
    replace (vb_run data false s)
      with (vb_run (firstn (length cont0) data ++ skipn (length cont0) data) false s)
      by (rewrite firstn_skipn; reflexivity).
    rewrite vb_run_app.
    destruct (vb_run (firstn (length cont0) data) false s) as [[[r1 v1] s1]|e] eqn:E1; cbn [bind]; [|reflexivity].
    rewrite vb_appended_spec.
    destruct (vb_run (skipn (length cont0) data) v1 s1) as [[[r2 v2] s2]|e] eqn:E2; cbn [bind]; [|reflexivity].
    apply vb_run_length in E1. apply vb_run_length in E2.
    rewrite firstn_length in E1. rewrite skipn_length in E2.
    f_equal. f_equal. rewrite skipn_length.
    destruct (Nat.le_gt_cases (length cont0) (length data)) as [Hle|Hgt].
    - rewrite (skipn_nil_all (length data) cont0) by exact Hle. rewrite app_nil_r.
      apply resize_exact. rewrite app_length. lia.
    - assert (r2 = []) by (destruct r2; [reflexivity | cbn in E2; lia]). subst r2.
      rewrite !app_nil_r.
      replace (Nat.min (length cont0) (length data) + (length data - length cont0))%nat with (length r1) by lia.
      apply resize_prefix.
  Qed.
End VBoolLemmas.

(* ---------------- maps ---------------- *)
Section MapLemmas.
  Context {K V DK S : Type}.
  Variable keq : K -> K -> bool.
  Hypothesis keq_spec : forall a b, keq a b = true <-> a = b.
  Variable kconv : DK -> outcome (option K).
  Variable vload : DK -> V -> S -> outcome (V * bool * S).
  Variable vdflt : V.

  Notation mfind := (mfind keq).
  Notation mset := (mset keq).
  Notation map_step := (map_step keq kconv vload vdflt).
  Notation map_visit := (map_visit keq kconv vload vdflt).

  Lemma keq_refl k : keq k k = true.
  Proof. apply keq_spec. reflexivity. Qed.
  Lemma keq_false a b : a <> b -> keq a b = false.
  Proof. intros H. destruct (keq a b) eqn:E; [|reflexivity]. apply keq_spec in E. contradiction. Qed.

  Lemma keys_mset k v (m : list (K * V)) : keys (mset k v m) = keys m.
  Proof.
    induction m as [|[k' v'] m IH]; cbn; [reflexivity|].
    destruct (keq k k'); cbn; [reflexivity | f_equal; exact IH].
  Qed.

  Lemma mfind_mset_same k v (m : list (K * V)) : mfind k m <> None -> mfind k (mset k v m) = Some v.
  Proof.
    induction m as [|[k' v'] m IH]; cbn; intros H; [contradiction|].
    destruct (keq k k') eqn:E; cbn; rewrite E; [reflexivity | apply IH; exact H].
  Qed.

  Lemma mfind_mset_other k k0 v (m : list (K * V)) : k <> k0 -> mfind k (mset k0 v m) = mfind k m.
  Proof.
    intros Hne. induction m as [|[k' v'] m IH]; cbn; [reflexivity|].
    destruct (keq k0 k') eqn:E; cbn.
    - apply keq_spec in E. subst k'. rewrite (keq_false k k0 Hne). reflexivity.
    - destruct (keq k k'); [reflexivity | exact IH].
  Qed.

  Lemma mfind_app_same k v (m : list (K * V)) : mfind k m = None -> mfind k (m ++ [(k, v)]) = Some v.
  Proof.
    induction m as [|[k' v'] m IH]; cbn; intros H.
    - rewrite keq_refl. reflexivity.
    - destruct (keq k k'); [discriminate | apply IH; exact H].
  Qed.

  Lemma mfind_app_other k k0 v (m : list (K * V)) : k <> k0 -> mfind k (m ++ [(k0, v)]) = mfind k m.
  Proof.
    intros Hne. induction m as [|[k' v'] m IH]; cbn.
    - rewrite (keq_false k k0 Hne). reflexivity.
    - destruct (keq k k'); [reflexivity | exact IH].
  Qed.

  Lemma mfind_In k (m : list (K * V)) : mfind k m <> None <-> In k (keys m).
  Proof.
    induction m as [|[k' v'] m IH]; cbn.
    - split; [intros H; contradiction | intros []].
    - destruct (keq k k') eqn:E.
      + apply keq_spec in E. subst. split; [intros _; left; reflexivity | intros _; discriminate].
      + rewrite IH. split; [intros H; right; exact H | intros [H|H]; [subst; rewrite keq_refl in E; discriminate | exact H]].
  Qed.

  Lemma map_visit_app mode l1 : forall l2 m s,
    map_visit mode (l1 ++ l2) m s = ('(m1, s1) <- map_visit mode l1 m s ;; map_visit mode l2 m1 s1).
  Proof.
    induction l1 as [|ak l1 IH]; intros l2 m s; cbn; [reflexivity|].
    destruct (map_step mode m ak s) as [[m1 s1]|e]; cbn; [apply IH | reflexivity].
  Qed.

  (* ---- one step ---- *)
  Lemma step_only_keys m ak s m' s' : map_step OnlyExistKeys m ak s = Ok (m', s') -> keys m' = keys m.
  Proof.
    unfold ArchModel.map_step. destruct (kconv ak) as [[k|]|e]; cbn; intros H; try discriminate.
    - destruct (mfind k m) as [v0|]; [|inversion H; reflexivity].
      destruct (vload ak v0 s) as [[[v ld] s1]|e]; cbn in H; [|discriminate].
      inversion H; subst. apply keys_mset.
    - inversion H; reflexivity.
  Qed.

  Lemma step_other mode m ak s m' s' k : map_step mode m ak s = Ok (m', s') ->
    kconv ak <> Ok (Some k) -> mfind k m' = mfind k m.
  Proof.
    unfold ArchModel.map_step. destruct (kconv ak) as [[k0|]|e] eqn:Ek; cbn; intros H Hne; try discriminate.
    - assert (k <> k0) by (intros ->; apply Hne; reflexivity).
      destruct mode.
      + destruct (vload ak _ s) as [[[v ld] s1]|e]; cbn in H; [|discriminate]. inversion H; subst.
        rewrite mfind_mset_other by assumption.
        destruct (mfind k0 m); [reflexivity | apply mfind_app_other; assumption].
      + destruct (mfind k0 m) as [v0|]; [|inversion H; reflexivity].
        destruct (vload ak v0 s) as [[[v ld] s1]|e]; cbn in H; [|discriminate]. inversion H; subst.
        apply mfind_mset_other; assumption.
      + destruct (vload ak _ s) as [[[v ld] s1]|e]; cbn in H; [|discriminate]. inversion H; subst.
        rewrite mfind_mset_other by assumption.
        destruct (mfind k0 m); [reflexivity | apply mfind_app_other; assumption].
    - inversion H; reflexivity.
  Qed.

  Lemma visit_other mode aks : forall m s m' s' k, map_visit mode aks m s = Ok (m', s') ->
    (forall ak, In ak aks -> kconv ak <> Ok (Some k)) -> mfind k m' = mfind k m.
  Proof.
    induction aks as [|ak aks IH]; intros m s m' s' k H Hno; cbn in H.
    - inversion H; reflexivity.
    - destruct (map_step mode m ak s) as [[m1 s1]|e] eqn:E; cbn in H; [|discriminate].
      rewrite (IH m1 s1 m' s' k H) by (intros a Ha; apply Hno; right; exact Ha).
      eapply step_other; [exact E | apply Hno; left; reflexivity].
  Qed.

  Lemma visit_only_keys aks : forall m s m' s', map_visit OnlyExistKeys aks m s = Ok (m', s') -> keys m' = keys m.
  Proof.
    induction aks as [|ak aks IH]; intros m s m' s' H; cbn in H.
    - inversion H; reflexivity.
    - destruct (map_step OnlyExistKeys m ak s) as [[m1 s1]|e] eqn:E; cbn in H; [|discriminate].
      rewrite (IH m1 s1 m' s' H). eapply step_only_keys. exact E.
  Qed.

  (* a key of the target that exactly one document key converts to is loaded exactly once, over its
     previous value *)
  Lemma visit_only_touched l1 ak l2 m s m' s' k v0 :
    map_visit OnlyExistKeys (l1 ++ ak :: l2) m s = Ok (m', s') ->
    kconv ak = Ok (Some k) ->
    (forall a, In a (l1 ++ l2) -> kconv a <> Ok (Some k)) ->
    mfind k m = Some v0 ->
    exists s0 v ld s1, vload ak v0 s0 = Ok (v, ld, s1) /\ mfind k m' = Some v.
  Proof.
    intros H Hk Hno Hf. rewrite map_visit_app in H.
    destruct (map_visit OnlyExistKeys l1 m s) as [[m1 s1]|e] eqn:E1; cbn [bind] in H; [|discriminate].
    assert (F1 : mfind k m1 = Some v0).
    { rewrite <- Hf. eapply visit_other; [exact E1|]. intros a Ha. apply Hno. apply in_or_app. left. exact Ha. }
    cbn [ArchModel.map_visit] in H.
    destruct (map_step OnlyExistKeys m1 ak s1) as [[m2 s2]|e] eqn:E2; cbn [bind] in H; [|discriminate].
    unfold ArchModel.map_step in E2. rewrite Hk in E2. cbn in E2. rewrite F1 in E2.
    destruct (vload ak v0 s1) as [[[v ld] s3]|e] eqn:Ev; cbn in E2; [|discriminate].
    inversion E2; subst m2 s2.
    exists s1, v, ld, s3. split; [exact Ev|].
    rewrite (visit_other _ _ _ _ _ _ k H) by (intros a Ha; apply Hno; apply in_or_app; right; exact Ha).
    apply mfind_mset_same. rewrite F1. discriminate.
  Qed.

  (* ---- UpdateKeys ---- *)
  Lemma step_update_keys m ak s m' s' : map_step UpdateKeys m ak s = Ok (m', s') ->
    forall k, In k (keys m') <-> In k (keys m) \/ kconv ak = Ok (Some k).
  Proof.
    unfold ArchModel.map_step. destruct (kconv ak) as [[k0|]|e] eqn:Ek; cbn; intros H k; try discriminate.
    - destruct (vload ak _ s) as [[[v ld] s1]|e]; cbn in H; [|discriminate]. inversion H; subst.
      rewrite keys_mset.
      destruct (mfind k0 m) as [v0|] eqn:Ef.
      + split; [intros Hi; left; exact Hi | intros [Hi|Hi]; [exact Hi|]].
        inversion Hi; subst. apply mfind_In. rewrite Ef. discriminate.
      + unfold keys. rewrite map_app, in_app_iff. cbn.
        split; [intros [Hi|[Hi|[]]]; [left; exact Hi | right; subst; reflexivity]
               | intros [Hi|Hi]; [left; exact Hi | right; left; inversion Hi; reflexivity]].
    - inversion H; subst. split; [intros Hi; left; exact Hi | intros [Hi|Hi]; [exact Hi | discriminate]].
  Qed.

  Lemma visit_update_keys aks : forall m s m' s', map_visit UpdateKeys aks m s = Ok (m', s') ->
    forall k, In k (keys m') <-> In k (keys m) \/ exists ak, In ak aks /\ kconv ak = Ok (Some k).
  Proof.
    induction aks as [|ak aks IH]; intros m s m' s' H k; cbn in H.
    - inversion H; subst. split; [intros Hi; left; exact Hi | intros [Hi|[a [[] _]]]; exact Hi].
    - destruct (map_step UpdateKeys m ak s) as [[m1 s1]|e] eqn:E; cbn in H; [|discriminate].
      rewrite (IH m1 s1 m' s' H k). rewrite (step_update_keys _ _ _ _ _ E k).
      split.
      + intros [[Hi|Hi]|[a [Ha Hc]]]; [left; exact Hi | right; exists ak; split; [left; reflexivity | exact Hi]
                                      | right; exists a; split; [right; exact Ha | exact Hc]].
      + intros [Hi|[a [[Ha|Ha] Hc]]]; [left; left; exact Hi | subst; left; right; exact Hc | right; exists a; split; assumption].
  Qed.

  Lemma visit_update_touched l1 ak l2 m s m' s' k :
    map_visit UpdateKeys (l1 ++ ak :: l2) m s = Ok (m', s') ->
    kconv ak = Ok (Some k) ->
    (forall a, In a (l1 ++ l2) -> kconv a <> Ok (Some k)) ->
    exists s0 v ld s1,
      vload ak (match mfind k m with Some v0 => v0 | None => vdflt end) s0 = Ok (v, ld, s1) /\ mfind k m' = Some v.
  Proof.
    intros H Hk Hno. rewrite map_visit_app in H.
    destruct (map_visit UpdateKeys l1 m s) as [[m1 s1]|e] eqn:E1; cbn [bind] in H; [|discriminate].
    assert (F1 : mfind k m1 = mfind k m).
    { eapply visit_other; [exact E1|]. intros a Ha. apply Hno. apply in_or_app. left. exact Ha. }
    cbn [ArchModel.map_visit] in H.
    destruct (map_step UpdateKeys m1 ak s1) as [[m2 s2]|e] eqn:E2; cbn [bind] in H; [|discriminate].
    unfold ArchModel.map_step in E2. rewrite Hk in E2. cbn in E2. rewrite F1 in E2.
    destruct (vload ak _ s1) as [[[v ld] s3]|e] eqn:Ev; cbn in E2; [|discriminate].
    inversion E2; subst m2 s2.
    exists s1, v, ld, s3. split; [exact Ev|].
    rewrite (visit_other _ _ _ _ _ _ k H) by (intros a Ha; apply Hno; apply in_or_app; right; exact Ha).
    apply mfind_mset_same.
    destruct (mfind k m) as [v0|] eqn:Ef.
    - rewrite F1. discriminate.
    - rewrite mfind_app_same by exact F1. discriminate.
  Qed.
End MapLemmas.

(* ---------------- decimal printing: the fuel of dec_N is never exhausted ---------------- *)
Lemma dec_fuel_suffices f : forall n acc g, (n < 10 ^ N.of_nat (S f))%N ->
  dec_pos_fuel (S f + g) n acc = dec_pos_fuel (S f) n acc.
Proof.
  induction f as [|f IH]; intros n acc g Hn.
  - change (10 ^ N.of_nat 1)%N with 10%N in Hn. cbn [Nat.add dec_pos_fuel].
    destruct (N.ltb_spec n 10); [reflexivity | lia].
  - change (S (S f) + g)%nat with (S (S f + g)). cbn [dec_pos_fuel].
    destruct (N.ltb_spec n 10); [reflexivity|].
    apply IH. apply N.div_lt_upper_bound; [discriminate|].
    replace (N.of_nat (S (S f))) with (N.succ (N.of_nat (S f))) in Hn by lia.
    rewrite N.pow_succ_r' in Hn. exact Hn.
Qed.

Lemma dec_N_fuel_suffices n g :
  dec_pos_fuel (S (N.to_nat (N.log2 n)) + g) n [] = dec_N n.
Proof.
  unfold dec_N. apply dec_fuel_suffices.
  destruct n as [|p]; [cbn; lia|].
  pose proof (N.log2_spec (N.pos p) ltac:(lia)) as [_ Hlt].
  eapply N.lt_le_trans; [exact Hlt|].
  replace (N.of_nat (S (N.to_nat (N.log2 (N.pos p))))) with (N.succ (N.log2 (N.pos p))) by lia.
  apply N.pow_le_mono_l. lia.
Qed.
