(* ArchModel.v — executable mirror of the archive-independent loading layer of BitSerializer:

   part 1 (C18)  serialization_detail/generic_container.h  SerializeContainer
                 types/std/vector.h (vector<bool>), forward_list.h, valarray.h, queue.h, stack.h, bitset.h
                 serialization_detail/serialization_base_types.h  SerializeFixedSizeArray
                 serialization_detail/generic_set.h  SerializeSetImpl
                 serialization_detail/generic_map.h  SerializeMapImpl (three MapLoadMode's), SerializeMultiMapImpl
                 types/std/optional.h, memory.h (create - load - reset), pair.h
   part 2 (C17)  serialization_detail/validators.h, key_value_proxy.h (VisitArgs), serialization_context.h
                 (AddValidationError / OnFinishSerialization), bit_serializer.h (LoadObject)

   The archive is abstracted as the scopes see it: an array scope delivers a list of element
   documents [data] and reports an estimated size [est]; an object scope delivers its keys (VisitKeys)
   and loads a value by key; every Serialize(scope, x) consumes exactly one element document.
   Loading is written in state-passing style over an arbitrary state S (the validation context of
   part 2; unit in part 1).  Exceptions are explicit outcomes.  No proofs in this file. *)
From BS Require Import Base ArchSpec.

Inductive policy := PSkip | PThrow.
Record pols := mkPols { p_mismatch : policy; p_overflow : policy }.

(* HandleMismatchedTypesPolicy / the overflow arm of ConvertByPolicy: value not loaded, or throw *)
Definition on_mismatch {X} (pl : pols) (keep : X) : outcome X :=
  match p_mismatch pl with PThrow => Exc EMismatch | PSkip => Ok keep end.
Definition on_overflow {X} (pl : pols) (keep : X) : outcome X :=
  match p_overflow pl with PThrow => Exc EOverflow | PSkip => Ok keep end.

(* ------------------------------------------------------------------------------------------ *)
(* Part 1a: the container algorithms, generic in element type A, element document D, state S  *)
(* ------------------------------------------------------------------------------------------ *)

Section Containers.
  Context {A D S : Type}.
  (* Serialize(arrayScope, x): new value of x, "loaded" result, new state *)
  Variable el : A -> D -> S -> outcome (A * bool * S).
  Variable dflt : A.                       (* value-initialised element *)

  (* std::vector/deque/list::resize(n) *)
  Definition resize (n : nat) (l : list A) : list A := firstn n l ++ repeat dflt (n - length l).

  (* the body of the first loop since 772314c:
       if (!Serialize(scope, *it)) { if constexpr (std::is_move_assignable_v<value_type>) *it = value_type(); }
     [assignable] is that compile-time property of the element type *)
  Definition reset_unloaded (assignable : bool) (c : A) (d : D) (s : S) : outcome (A * bool * S) :=
    '(v, ld, s1) <- el c d s ;;
    Ok (if (assignable && negb ld)%bool then dflt else v, ld, s1).

  (* for (it = begin; it != end && !IsEnd(); ++it, ++loadedItems) <body>;
     returns the whole container (overwritten prefix ++ untouched tail), the unread data, loadedItems *)
  Fixpoint load_existing (assignable : bool) (cont : list A) (data : list D) (s : S) : outcome (list A * list D * nat * S) :=
    match cont, data with
    | c :: cont', d :: data' =>
        '(v, _, s1) <- reset_unloaded assignable c d s ;;
        '(r, rest, n, s2) <- load_existing assignable cont' data' s1 ;;
        Ok (v :: r, rest, Datatypes.S n, s2)
    | _, _ => Ok (cont, data, O, s)
    end.

  (* for (; !IsEnd(); ++loadedItems) Serialize(scope, cont.emplace_back()); *)
  Fixpoint load_appended (data : list D) (s : S) : outcome (list A * nat * S) :=
    match data with
    | [] => Ok ([], O, s)
    | d :: data' =>
        '(v, _, s1) <- el dflt d s ;;
        '(r, n, s2) <- load_appended data' s1 ;;
        Ok (v :: r, Datatypes.S n, s2)
    end.

  Definition load_loops (assignable : bool) (cont0 : list A) (data : list D) (s : S) : outcome (list A * S) :=
    '(cont1, rest, n1, s1) <- load_existing assignable cont0 data s ;;
    '(app, n2, s2) <- load_appended rest s1 ;;
    Ok (resize (n1 + n2) (cont1 ++ app), s2).         (* cont.resize(loadedItems) *)

  (* Detail::SerializeContainer (vector, deque, list; queue/stack/priority_queue through GetBaseContainer) *)
  Definition load_seq (assignable : bool) (prior : list A) (est : nat) (data : list D) (s : S) : outcome (list A * S) :=
    let cont0 := if Nat.eqb est 0 then prior else resize est prior in
    load_loops assignable cont0 data s.

  (* SerializeArray(std::forward_list): resize(estimate), or seed one element when empty; the
     emplace_after(LastIt) of the second loop always appends behind the last element because the
     container is non-empty when that loop runs *)
  Definition load_fwd (assignable : bool) (prior : list A) (est : nat) (data : list D) (s : S) : outcome (list A * S) :=
    let cont0 := if Nat.eqb est 0
                 then match prior with [] => resize 1 prior | _ => prior end
                 else resize est prior in
    load_loops assignable cont0 data s.

  (* SerializeArray(std::valarray): loads a temporary std::vector, then copies *)
  Definition load_valarray (assignable : bool) (prior : list A) (est : nat) (data : list D) (s : S) : outcome (list A * S) :=
    load_seq assignable [] est data s.

  (* Detail::SerializeFixedSizeArray: the size check comes after the loop *)
  Fixpoint load_fixed (cont : list A) (data : list D) (s : S) : outcome (list A * S) :=
    match cont, data with
    | [], [] => Ok ([], s)
    | c :: cont', d :: data' =>
        '(v, _, s1) <- el c d s ;;
        '(r, s2) <- load_fixed cont' data' s1 ;;
        Ok (v :: r, s2)
    | _, _ => Exc EOutOfRange
    end.

  (* Detail::SerializeSetImpl: cont.clear(); while (!IsEnd()) { TValue value{}; Serialize(scope, value);
     hint = cont.insert(hint, std::move(value)); }   (the result of Serialize is not looked at) *)
  Variable set_insert : A -> list A -> list A.
  Fixpoint load_set_loop (data : list D) (cont : list A) (s : S) : outcome (list A * S) :=
    match data with
    | [] => Ok (cont, s)
    | d :: data' =>
        '(v, _, s1) <- el dflt d s ;;
        load_set_loop data' (set_insert v cont) s1
    end.
  Definition load_set (prior : list A) (data : list D) (s : S) : outcome (list A * S) :=
    load_set_loop data [] s.

  (* Detail::SerializeMultiMapImpl: clear; value_type pair; if (Serialize(scope, pair)) emplace_hint *)
  Fixpoint load_mmap_loop (data : list D) (cont : list A) (s : S) : outcome (list A * S) :=
    match data with
    | [] => Ok (cont, s)
    | d :: data' =>
        '(v, ld, s1) <- el dflt d s ;;
        load_mmap_loop data' (if ld then cont ++ [v] else cont) s1
    end.
  Definition load_mmap (prior : list A) (data : list D) (s : S) : outcome (list A * S) :=
    load_mmap_loop data [] s.

  (* std::optional / unique_ptr / shared_ptr: create when empty, load, reset when not loaded *)
  Definition load_ptr (prior : option A) (d : D) (s : S) : outcome (option A * bool * S) :=
    let v0 := match prior with Some v => v | None => dflt end in
    '(v, ld, s1) <- el v0 d s ;;
    if ld then Ok (Some v, true, s1) else Ok (None, false, s1).
End Containers.

Section BoolContainers.
  Context {D S : Type}.
  (* Serialize(archive, value) on a bool *)
  Variable elb : bool -> D -> S -> outcome (bool * bool * S).

  (* SerializeArray(std::vector<bool>): one local "bool value = false" is loaded into and copied out *)
  Fixpoint vb_existing (cont : list bool) (data : list D) (value : bool) (s : S)
      : outcome (list bool * list D * nat * bool * S) :=
    match cont, data with
    | _ :: cont', d :: data' =>
        '(v, _, s1) <- elb value d s ;;
        '(r, rest, n, vl, s2) <- vb_existing cont' data' v s1 ;;
        Ok (v :: r, rest, Datatypes.S n, vl, s2)
    | _, _ => Ok (cont, data, O, value, s)
    end.
  Fixpoint vb_appended (data : list D) (value : bool) (s : S) : outcome (list bool * nat * S) :=
    match data with
    | [] => Ok ([], O, s)
    | d :: data' =>
        '(v, _, s1) <- elb value d s ;;
        '(r, n, s2) <- vb_appended data' v s1 ;;
        Ok (v :: r, Datatypes.S n, s2)
    end.
  Definition load_vbool (prior : list bool) (est : nat) (data : list D) (s : S) : outcome (list bool * S) :=
    let cont0 := if Nat.eqb est 0 then prior else resize false est prior in
    '(cont1, rest, n1, vl, s1) <- vb_existing cont0 data false s ;;
    '(app, n2, s2) <- vb_appended rest vl s1 ;;
    Ok (resize false (n1 + n2) (cont1 ++ app), s2).

  (* SerializeArray(std::bitset<Size>): for (i < Size) { Serialize(archive, value); cont.set(i, value); }
     [next] is the array scope's "next item": reading past the end throws OutOfRange *)
  Fixpoint load_bitset (size : nat) (data : list D) (value : bool) (s : S) : outcome (list bool * S) :=
    match size with
    | O => Ok ([], s)
    | Datatypes.S size' =>
        match data with
        | [] => Exc EOutOfRange
        | d :: data' =>
            '(v, _, s1) <- elb value d s ;;
            '(r, s2) <- load_bitset size' data' v s1 ;;
            Ok (v :: r, s2)
        end
    end.
End BoolContainers.

(* Detail::SerializeMapImpl *)
Inductive mapmode := Clean | OnlyExistKeys | UpdateKeys.

Section Maps.
  Context {K V DK S : Type}.
  Variable keq : K -> K -> bool.
  (* ConvertByPolicy(archiveKey, key, ...): Some key, None when skipped by policy, or throw *)
  Variable kconv : DK -> outcome (option K).
  (* Serialize(scope, archiveKey, value) *)
  Variable vload : DK -> V -> S -> outcome (V * bool * S).
  Variable vdflt : V.

  Fixpoint mfind (k : K) (m : list (K * V)) : option V :=
    match m with
    | [] => None
    | (k', v) :: m' => if keq k k' then Some v else mfind k m'
    end.
  Fixpoint mset (k : K) (v : V) (m : list (K * V)) : list (K * V) :=
    match m with
    | [] => []
    | (k', v') :: m' => if keq k k' then (k', v) :: m' else (k', v') :: mset k v m'
    end.
  Definition keys (m : list (K * V)) : list K := map fst m.

  (* the body of the VisitKeys callback *)
  Definition map_step (mode : mapmode) (m : list (K * V)) (ak : DK) (s : S) : outcome (list (K * V) * S) :=
    ok <- kconv ak ;;
    match ok with
    | None => Ok (m, s)
    | Some k =>
      match mode with
      | OnlyExistKeys =>                                    (* hint = cont.find(key) *)
          match mfind k m with
          | None => Ok (m, s)
          | Some v0 => '(v, _, s1) <- vload ak v0 s ;; Ok (mset k v m, s1)
          end
      | _ =>                                                (* try_emplace(hint, key) / cont[key] *)
          let m1 := match mfind k m with None => m ++ [(k, vdflt)] | Some _ => m end in
          let v0 := match mfind k m with None => vdflt | Some v0 => v0 end in
          '(v, _, s1) <- vload ak v0 s ;; Ok (mset k v m1, s1)
      end
    end.

  Fixpoint map_visit (mode : mapmode) (aks : list DK) (m : list (K * V)) (s : S) : outcome (list (K * V) * S) :=
    match aks with
    | [] => Ok (m, s)
    | ak :: aks' => '(m1, s1) <- map_step mode m ak s ;; map_visit mode aks' m1 s1
    end.

  Definition load_map (mode : mapmode) (prior : list (K * V)) (aks : list DK) (s : S) : outcome (list (K * V) * S) :=
    let m0 := match mode with Clean => [] | _ => prior end in      (* cont.clear() *)
    map_visit mode aks m0 s.
End Maps.

(* ------------------------------------------------------------------------------------------ *)
(* Part 1b: documents, type descriptors, and the loader for every type of the universe         *)
(* ------------------------------------------------------------------------------------------ *)

Inductive dkey := DKInt (z : Z) | DKStr (s : str).

(* what an archive holds; [est] is what the array scope's GetEstimatedSize() reports *)
Inductive doc :=
| DNull | DBool (b : bool) | DInt (z : Z) | DStr (s : str)
| DArr (est : nat) (l : list doc)
| DMap (l : list (dkey * doc)).

(* the archive-dependent choices of the scopes modelled here:
   - null where an array / object is expected: excluded from MismatchedTypesPolicy ("not loaded") by MsgPack's
     ReadArraySize / ReadMapSize and, since fix a88d81b, by RapidJSON's OpenArrayScope / OpenObjectScope
     (before: mismatch); the CSV archive has no such case (flag kept for the record);
   - a null where a string is expected: RapidJSON LoadValue(string_view) (since fix cde2a3b) and MsgPack
     ReadValue(string_view) skip it (not loaded), CSV delivers the empty cell as an empty string (loaded);
   - the element index GetPath() of an array scope shows while its first element is being loaded
     (RapidJSON / MsgPack have already advanced: 1; CSV row index: 0) *)
Inductive nullstr := NullStrMismatch | NullStrSkip | NullStrEmpty.

(* text_mode = Some names: the archive is a tree of named elements whose leaves are untyped text (XML through
   pugixml, pugixml_archive.h).  What that changes for the scopes modelled here:
   - scalars are text: a number / boolean is converted from the element's text with the policies
     (LoadValueFromText), a string target takes any text; an element without text - child-less, or with element
     children only - is "not loaded" for every scalar target ("Empty node is treated as Null");
   - OpenArrayScope / OpenObjectScope accept every element that is child-less or has element children: a
     child-less element opens as an EMPTY scope (since fixes 036fd0b / eb82056), an object's members are an
     array scope's items (document order) and an array's items are an object scope's members, keyed by their
     element names; an element with text is a mismatch;
   - GetEstimatedSize() of an array scope is its number of children;
   - GetPath() is pugi::xml_node::path(): the names of the ancestor-or-self elements, WITHOUT indices; the
     object scope of the root value is the document's first element, so every path starts with its name.
   [names] is the naming convention of the document encoder for elements that are not object members (the
   library's own writer uses the same three names for array items): scalar / null, array, object. *)
Record textnames := mkTextNames { tn_value : str; tn_array : str; tn_object : str }.
Record arch := mkArch { null_scope_is_mismatch : bool; null_str : nullstr; first_index : nat;
                        text_mode : option textnames }.

Definition dkey_eqb (a b : dkey) : bool :=
  match a, b with
  | DKInt x, DKInt y => Z.eqb x y
  | DKStr x, DKStr y => str_eqb x y
  | _, _ => false
  end.
(* the value stored under a key of an object scope (first member with that key) *)
Fixpoint member (k : dkey) (l : list (dkey * doc)) : option doc :=
  match l with
  | [] => None
  | (k', d) :: l' => if dkey_eqb k k' then Some d else member k l'
  end.

(* decimal text of numbers (Convert::ToString), used for keys, paths and messages *)
Definition digit_char (d : N) : N := 48 + d.
Fixpoint dec_pos_fuel (fuel : nat) (n : N) (acc : str) : str :=
  match fuel with
  | O => acc
  | Datatypes.S f =>
      let acc' := digit_char (N.modulo n 10) :: acc in
      if N.ltb n 10 then acc' else dec_pos_fuel f (N.div n 10) acc'
  end.
Definition dec_N (n : N) : str := dec_pos_fuel (Datatypes.S (N.to_nat (N.log2 n))) n [].
Definition dec_Z (z : Z) : str :=
  match z with
  | Z0 => [48%N]
  | Zpos p => dec_N (Npos p)
  | Zneg p => 45%N :: dec_N (Npos p)
  end.
(* canonical decimal text only: optional '-', then digits, nothing else (what std::from_chars does
   with other strings is the num family's subject) *)
Fixpoint parse_digits (l : str) (acc : Z) : option Z :=
  match l with
  | [] => Some acc
  | c :: l' => if (N.leb 48 c && N.leb c 57)%bool then parse_digits l' (acc * 10 + Z.of_N (c - 48)) else None
  end.
Definition parse_dec (l : str) : option Z :=
  match l with
  | [] => None
  | c :: l' =>
    if N.eqb c 45 then match l' with [] => None | _ => option_map Z.opp (parse_digits l' 0) end
    else parse_digits l 0
  end.

Definition in_int32 (z : Z) : bool := (Z.leb (-2147483648) z && Z.leb z 2147483647)%bool.

(* ---- text archives: how a typed target sees an element ---- *)
Definition text_true : str := [116; 114; 117; 101]%N.           (* "true" *)
Definition text_false : str := [102; 97; 108; 115; 101]%N.      (* "false" *)
Definition bool_text (b : bool) : str := if b then text_true else text_false.

(* the name the encoder gives an element that is not an object member *)
Definition item_name (tn : textnames) (d : doc) : str :=
  match d with DArr _ _ => tn_array tn | DMap _ => tn_object tn | _ => tn_value tn end.

(* an arithmetic target: the text is converted (canonical decimal text only, see parse_dec); no text = null *)
Definition text_as_int (d : doc) : doc :=
  match d with
  | DNull => DNull
  | DInt z => DInt z
  | DBool b => DStr (bool_text b)                       (* "true" is not a number: mismatch *)
  | DStr [] => DNull
  | DStr s => match parse_dec s with Some z => DInt z | None => DStr s end
  | DArr _ _ | DMap _ => DNull                          (* element children, no text *)
  end.
(* Convert::To<bool>(text): "true" / "false", "0" / "1"; other digits are out of range (overflow policy), anything
   else - a sign included - is not a boolean (mismatch policy) *)
Definition text_as_bool (d : doc) : doc :=
  match d with
  | DNull => DNull
  | DBool b => DBool b
  | DInt z => if Z.ltb z 0 then DStr (dec_Z z) else DInt z
  | DStr [] => DNull
  | DStr s => if str_eqb s text_true then DBool true else if str_eqb s text_false then DBool false
              else match parse_dec s with
                   | Some z => if Z.ltb z 0 then DStr s else DInt z
                   | None => DStr s
                   end
  | DArr _ _ | DMap _ => DNull
  end.
Definition text_as_str (d : doc) : doc :=
  match d with
  | DNull => DNull
  | DBool b => DStr (bool_text b)
  | DInt z => DStr (dec_Z z)
  | DStr [] => DNull
  | DStr s => DStr s
  | DArr _ _ | DMap _ => DNull
  end.
(* an ATTRIBUTE of an element (XML: PugiXmlAttributeScope) is written in documents as a member whose key starts with
   '@'.  Attributes are not children: they are no items of an array scope, no keys of VisitKeys, and do not count for
   GetEstimatedSize().  Their value is always text: a number is converted from attr.value() with the same policies as
   element text (since /repo eaa6abb) - the EMPTY text included, which is not a number (mismatch), whereas an empty
   element is "not loaded"; a string takes attr.as_string(), the empty string included (loaded). *)
Definition at_sign : N := 64%N.
Definition is_attr_key (k : dkey) : bool :=
  match k with DKStr (c :: _) => N.eqb c at_sign | _ => false end.
Definition attr_key (key : str) : dkey := DKStr (at_sign :: key).
Definition text_attr_as_int (d : doc) : doc :=
  match d with
  | DInt z => DInt z
  | DBool b => DStr (bool_text b)
  | DStr s => match parse_dec s with Some z => DInt z | None => DStr s end     (* "" : not a number *)
  | DNull | DArr _ _ | DMap _ => DStr []                                       (* written as a="" *)
  end.
Definition text_attr_as_str (d : doc) : doc :=
  match d with
  | DInt z => DStr (dec_Z z)
  | DBool b => DStr (bool_text b)
  | DStr s => DStr s
  | DNull | DArr _ _ | DMap _ => DStr []
  end.

Definition as_int (a : arch) (d : doc) : doc := match text_mode a with Some _ => text_as_int d | None => d end.
Definition as_bool (a : arch) (d : doc) : doc := match text_mode a with Some _ => text_as_bool d | None => d end.
Definition as_str (a : arch) (d : doc) : doc := match text_mode a with Some _ => text_as_str d | None => d end.
(* the members of an object document that are child elements (in the archives without attributes: all of them) *)
Definition elem_members (a : arch) (l : list (dkey * doc)) : list (dkey * doc) :=
  match text_mode a with
  | Some _ => List.filter (fun kv => negb (is_attr_key (fst kv))) l
  | None => l
  end.

(* Serialize on fundamental types and std::string (LoadValue of the scopes + ConvertByPolicy) *)
Definition load_int (pl : pols) (p : Z) (d : doc) : outcome (Z * bool) :=
  match d with
  | DNull => Ok (p, false)
  | DInt z => if in_int32 z then Ok (z, true) else on_overflow pl (p, false)
  | DBool b => Ok ((if b then 1 else 0)%Z, true)
  | _ => on_mismatch pl (p, false)
  end.
Definition load_bool (pl : pols) (p : bool) (d : doc) : outcome (bool * bool) :=
  match d with
  | DNull => Ok (p, false)
  | DBool b => Ok (b, true)
  | DInt z => if Z.eqb z 0 then Ok (false, true) else if Z.eqb z 1 then Ok (true, true) else on_overflow pl (p, false)
  | _ => on_mismatch pl (p, false)
  end.
Definition load_str (a : arch) (pl : pols) (p : str) (d : doc) : outcome (str * bool) :=
  match d with
  | DNull => match null_str a with
             | NullStrMismatch => on_mismatch pl (p, false)
             | NullStrSkip => Ok (p, false)
             | NullStrEmpty => Ok ([], true)
             end
  | DStr s => Ok (s, true)
  | _ => on_mismatch pl (p, false)
  end.

(* OpenArrayScope / OpenObjectScope on a document: Some payload, None when not opened, or throw *)
Definition open_array (a : arch) (pl : pols) (d : doc) : outcome (option (nat * list doc)) :=
  match text_mode a with
  | Some _ =>
      match d with
      | DNull | DStr [] => Ok (Some (O, []))
      | DArr _ l => Ok (Some (List.length l, l))
      | DMap l => Ok (Some (List.length (elem_members a l), List.map snd (elem_members a l)))
      | _ => on_mismatch pl None
      end
  | None =>
      match d with
      | DArr est l => Ok (Some (est, l))
      | DNull => if null_scope_is_mismatch a then on_mismatch pl None else Ok None
      | _ => on_mismatch pl None
      end
  end.
Definition open_object (a : arch) (pl : pols) (d : doc) : outcome (option (list (dkey * doc))) :=
  match text_mode a with
  | Some tn =>
      match d with
      | DNull | DStr [] => Ok (Some [])
      | DMap l => Ok (Some l)
      | DArr _ l => Ok (Some (List.map (fun x => (DKStr (item_name tn x), x)) l))
      | _ => on_mismatch pl None
      end
  | None =>
      match d with
      | DMap l => Ok (Some l)
      | DNull => if null_scope_is_mismatch a then on_mismatch pl None else Ok None
      | _ => on_mismatch pl None
      end
  end.

Inductive keyty := KInt | KStr.
Inductive seqkind := SVector | SDeque | SList | SFwdList | SValarray | SQueue | SStack | SPriorityQueue.
Inductive ptrkind := POptional | PUnique | PShared.

Inductive ty :=
| TInt | TBool | TStr
| TSeq (k : seqkind) (t : ty)
| TVBool
| TArr (n : nat) (t : ty)
| TBitset (n : nat)
| TSet (multi : bool) (kt : keyty)
| TMap (kt : keyty) (t : ty)
| TMMap (kt : keyty) (t : ty)
| TPtr (k : ptrkind) (t : ty)
| TPair (a b : ty).

Definition tkey (kt : keyty) : Type := match kt with KInt => Z | KStr => str end.
Definition tkey_eqb (kt : keyty) : tkey kt -> tkey kt -> bool :=
  match kt with KInt => Z.eqb | KStr => str_eqb end.
Definition tkey_default (kt : keyty) : tkey kt := match kt with KInt => 0%Z | KStr => [] end.

Fixpoint tval (t : ty) : Type :=
  match t with
  | TInt => Z | TBool => bool | TStr => str
  | TSeq _ t' => list (tval t')
  | TVBool => list bool
  | TArr _ t' => list (tval t')
  | TBitset _ => list bool
  | TSet _ kt => list (tkey kt)
  | TMap kt t' => list (tkey kt * tval t')
  | TMMap kt t' => list (tkey kt * tval t')
  | TPtr _ t' => option (tval t')
  | TPair a b => (tval a * tval b)%type
  end.

(* the default-constructed (value-initialised) target *)
Fixpoint tdefault (t : ty) : tval t :=
  match t with
  | TInt => 0%Z | TBool => false | TStr => []
  | TSeq _ _ => []
  | TVBool => []
  | TArr n t' => repeat (tdefault t') n
  | TBitset n => repeat false n
  | TSet _ _ => []
  | TMap _ _ => []
  | TMMap _ _ => []
  | TPtr _ _ => None
  | TPair a b => (tdefault a, tdefault b)
  end.

(* ConvertByPolicy(archiveKey, key, ...) of SerializeMapImpl *)
Definition conv_key (pl : pols) (kt : keyty) (dk : dkey) : outcome (option (tkey kt)) :=
  match kt return outcome (option (tkey kt)) with
  | KInt =>
      match dk with
      | DKInt z => if in_int32 z then Ok (Some z) else on_overflow pl None
      | DKStr s => match parse_dec s with
                   | Some z => if in_int32 z then Ok (Some z) else on_overflow pl None
                   | None => on_mismatch pl None
                   end
      end
  | KStr =>
      match dk with
      | DKInt z => Ok (Some (dec_Z z))
      | DKStr s => Ok (Some s)
      end
  end.

(* loading a key-typed value (set elements, the "key" member of a multimap's pair) *)
Definition load_key (a : arch) (pl : pols) (kt : keyty) : tkey kt -> doc -> outcome (tkey kt * bool) :=
  match kt with
  | KInt => fun p d => load_int pl p (as_int a d)
  | KStr => fun p d => load_str a pl p (as_str a d)
  end.

(* std::set::insert / std::multiset::insert (the model keeps insertion order; observers sort) *)
Definition set_ins (kt : keyty) (multi : bool) (v : tkey kt) (cont : list (tkey kt)) : list (tkey kt) :=
  if multi then cont ++ [v]
  else if existsb (tkey_eqb kt v) cont then cont else cont ++ [v].

Definition key_name : str := [107; 101; 121]%N.                 (* "key" *)
Definition value_name : str := [118; 97; 108; 117; 101]%N.      (* "value" *)

(* adapters between the stateless loaders of this part and the state-passing container algorithms *)
Definition lift {X} (o : outcome (X * bool)) : outcome (X * bool * unit) :=
  '(v, ld) <- o ;; Ok (v, ld, tt).
Definition unstate {X} (o : outcome (X * unit)) : outcome X := '(v, _) <- o ;; Ok v.

(* dispatch of the sequence kinds to their SerializeArray overload; every element type of the
   universe below is move-assignable *)
Definition seq_load {A D S} (k : seqkind) (el : A -> D -> S -> outcome (A * bool * S)) (dflt : A) :=
  match k with
  | SFwdList => load_fwd el dflt true
  | SValarray => load_valarray el dflt true
  | _ => load_seq el dflt true
  end.

(* Serialize(archive, value) for every type of the universe.  Returns the new target and the
   "loaded" result.  [p] is the prior content of the target. *)
Fixpoint load (a : arch) (pl : pols) (t : ty) {struct t} : tval t -> doc -> outcome (tval t * bool) :=
  match t return tval t -> doc -> outcome (tval t * bool) with
  | TInt => fun p d => load_int pl p (as_int a d)
  | TBool => fun p d => load_bool pl p (as_bool a d)
  | TStr => fun p d => load_str a pl p (as_str a d)
  | TSeq k t' => fun p d =>
      sc <- open_array a pl d ;;
      match sc with
      | None => Ok (p, false)
      | Some (est, ds) =>
          r <- unstate (seq_load k (fun x di (_ : unit) => lift (load a pl t' x di)) (tdefault t') p est ds tt) ;;
          Ok (r, true)
      end
  | TVBool => fun p d =>
      sc <- open_array a pl d ;;
      match sc with
      | None => Ok (p, false)
      | Some (est, ds) =>
          r <- unstate (load_vbool (fun x di (_ : unit) => lift (load_bool pl x (as_bool a di))) p est ds tt) ;;
          Ok (r, true)
      end
  | TArr _ t' => fun p d =>
      sc <- open_array a pl d ;;
      match sc with
      | None => Ok (p, false)
      | Some (_, ds) =>
          r <- unstate (load_fixed (fun x di (_ : unit) => lift (load a pl t' x di)) p ds tt) ;;
          Ok (r, true)
      end
  | TBitset n => fun p d =>
      sc <- open_array a pl d ;;
      match sc with
      | None => Ok (p, false)
      | Some (_, ds) =>
          r <- unstate (load_bitset (fun x di (_ : unit) => lift (load_bool pl x (as_bool a di))) n ds false tt) ;;
          Ok (r, true)
      end
  | TSet multi kt => fun p d =>
      sc <- open_array a pl d ;;
      match sc with
      | None => Ok (p, false)
      | Some (_, ds) =>
          r <- unstate (load_set (fun x di (_ : unit) => lift (load_key a pl kt x di)) (tkey_default kt)
                                 (set_ins kt multi) p ds tt) ;;
          Ok (r, true)
      end
  | TMap kt t' => fun p d =>
      sc <- open_object a pl d ;;
      match sc with
      | None => Ok (p, false)
      | Some members =>
          r <- unstate (load_map (tkey_eqb kt) (conv_key pl kt)
                   (fun ak v (_ : unit) => match member ak members with
                                           | None => Ok (v, false, tt)
                                           | Some dv => lift (load a pl t' v dv)
                                           end)
                   (tdefault t') Clean p (map fst (elem_members a members)) tt) ;;
          Ok (r, true)
      end
  | TMMap kt t' => fun p d =>
      sc <- open_array a pl d ;;
      match sc with
      | None => Ok (p, false)
      | Some (_, ds) =>
          r <- unstate (load_mmap
                   (fun (x : tkey kt * tval t') di (_ : unit) =>
                      so <- open_object a pl di ;;
                      match so with
                      | None => Ok (x, false, tt)
                      | Some members =>
                          '(k1, _) <- match member (DKStr key_name) members with
                                      | None => Ok (fst x, false)
                                      | Some dv => load_key a pl kt (fst x) dv
                                      end ;;
                          '(v1, _) <- match member (DKStr value_name) members with
                                      | None => Ok (snd x, false)
                                      | Some dv => load a pl t' (snd x) dv
                                      end ;;
                          Ok ((k1, v1), true, tt)
                      end)
                   (tkey_default kt, tdefault t') p ds tt) ;;
          Ok (r, true)
      end
  | TPtr _ t' => fun p d =>
      '(r, ld, _) <- load_ptr (fun x di (_ : unit) => lift (load a pl t' x di)) (tdefault t') p d tt ;;
      Ok (r, ld)
  | TPair ta tb => fun p d =>
      so <- open_object a pl d ;;
      match so with
      | None => Ok (p, false)
      | Some members =>
          '(k1, _) <- match member (DKStr key_name) members with
                      | None => Ok (fst p, false)
                      | Some dv => load a pl ta (fst p) dv
                      end ;;
          '(v1, _) <- match member (DKStr value_name) members with
                      | None => Ok (snd p, false)
                      | Some dv => load a pl tb (snd p) dv
                      end ;;
          Ok ((k1, v1), true)
      end
  end.

(* SerializeObject(scope, map, mapLoadMode) called by user code with an explicit mode *)
Definition load_map_mode (a : arch) (pl : pols) (mode : mapmode) (kt : keyty) (t' : ty)
    (p : list (tkey kt * tval t')) (d : doc) : outcome (list (tkey kt * tval t') * bool) :=
  sc <- open_object a pl d ;;
  match sc with
  | None => Ok (p, false)
  | Some members =>
      r <- unstate (load_map (tkey_eqb kt) (conv_key pl kt)
               (fun ak v (_ : unit) => match member ak members with
                                       | None => Ok (v, false, tt)
                                       | Some dv => lift (load a pl t' v dv)
                                       end)
               (tdefault t') mode p (map fst (elem_members a members)) tt) ;;
      Ok (r, true)
  end.

(* XML through pugixml: a tree of named elements with text leaves; the three names are the ones the library's
   writer (and the document encoder of the drivers) gives array items.  null_scope_is_mismatch / first_index are
   not looked at in text mode (a child-less element opens as an empty scope; paths carry names, not indices) *)
Definition xml_names : textnames :=
  mkTextNames [118; 97; 108; 117; 101]%N [97; 114; 114; 97; 121]%N [111; 98; 106; 101; 99; 116]%N.
Definition xml_arch : arch := mkArch false NullStrSkip 1 (Some xml_names).

(* ------------------------------------------------------------------------------------------ *)
(* Part 2 (C17): validators, VisitArgs, the validation context, classes with validated fields  *)
(* ------------------------------------------------------------------------------------------ *)
From Coq Require Import String Ascii.

(* string literals of the C++ source as byte lists *)
Definition lit (s : string) : str := List.map N_of_ascii (list_ascii_of_string s).
(* LIT "..." elaborates to the byte list itself, so that no definition below mentions [string]
   (the extracted model must not define an OCaml type called string) *)
Notation "'LIT' s" := (ltac:(let x := eval vm_compute in (lit s) in exact x)) (at level 0, s at level 0, only parsing).

(* what a validator functor can look at: the field as a number, its size(), its text *)
Record view := mkView { v_int : Z; v_size : N; v_text : str }.

(* ---- validators.h: Email (the for loop; None = isValid became false) ---- *)
Definition email_allowed_local (ch : N) : bool :=
  (N.eqb ch 33 || (N.leb 35 ch && N.leb ch 39) || (N.leb 42 ch && N.leb ch 43) || N.eqb ch 45
   || (N.leb 47 ch && N.leb ch 57) || N.eqb ch 61 || N.eqb ch 63 || (N.leb 65 ch && N.leb ch 90)
   || (N.leb 94 ch && N.leb ch 126))%bool.

Fixpoint email_loop (l : str) (n i : Z) (isLocal : bool) (label startDom lastDot : Z) : option (bool * Z) :=
  match l with
  | [] => Some (isLocal, startDom)
  | ch :: l' =>
    let label1 := (label + 1)%Z in
    if N.eqb ch 46 then
      if (Z.eqb (lastDot + 1) i || Z.eqb (n - 1) i)%bool then None
      else email_loop l' n (i + 1)%Z isLocal 0%Z startDom i
    else if isLocal then
      if N.eqb ch 64 then
        if (Z.ltb 64 i || Z.eqb (lastDot + 1) i)%bool then None
        else email_loop l' n (i + 1)%Z false 0%Z (i + 1)%Z lastDot
      else if email_allowed_local ch then email_loop l' n (i + 1)%Z true label1 startDom lastDot
      else None
    else
      let nextIsDot := match l' with c2 :: _ => N.eqb c2 46 | [] => false end in
      let ok :=
        if N.eqb ch 45 then negb (Z.eqb label1 1 || Z.eqb (i + 1) n || nextIsDot)
        else if (N.leb 48 ch && N.leb ch 57)%bool then negb (Z.eqb label1 1)
        else negb (N.ltb ch 65 || N.ltb 122 ch || (N.ltb 90 ch && N.ltb ch 97)) in
      if (ok && negb (Z.ltb 63 label1))%bool then email_loop l' n (i + 1)%Z false label1 startDom lastDot
      else None
  end.
Definition email_valid (s : str) : bool :=
  let n := Z.of_nat (List.length s) in
  match email_loop s n 0%Z true 0%Z 0%Z (-1)%Z with
  | None => false
  | Some (isLocal, startDom) => negb (isLocal || Z.eqb startDom n || Z.ltb 255 (n - startDom))
  end.

(* ---- validators.h: PhoneNumber ---- *)
Inductive phone_err := PDash | PNested | PClosing | PChars.
Fixpoint phone_loop (l : str) (hasPlus inPar lastDigit : bool) (digits : N)
    : bool * bool * N * option phone_err :=
  match l with
  | [] => (hasPlus, inPar, digits, None)
  | ch :: l' =>
    if (N.eqb digits 0 && N.eqb ch 43)%bool then phone_loop l' true inPar lastDigit digits
    else if (N.leb 48 ch && N.leb ch 57)%bool then phone_loop l' hasPlus inPar true (digits + 1)%N
    else if negb (N.eqb ch 32) then
      if N.eqb ch 45 then
        if (negb lastDigit || match l' with [] => true | _ => false end)%bool then (hasPlus, inPar, digits, Some PDash)
        else phone_loop l' hasPlus inPar false digits
      else if N.eqb ch 40 then
        if inPar then (hasPlus, true, digits, Some PNested) else phone_loop l' hasPlus true false digits
      else if N.eqb ch 41 then
        if (inPar && lastDigit)%bool then phone_loop l' hasPlus false false digits
        else (hasPlus, inPar, digits, Some PClosing)
      else (hasPlus, inPar, digits, Some PChars)
    else phone_loop l' hasPlus inPar lastDigit digits
  end.

Definition phone_check (minN maxN : N) (plus : bool) (msg : option str) (s : str) : option str :=
  let '(hasPlus, inPar, digits, err) := phone_loop s false false false 0%N in
  let e1 := match err with
            | Some PDash => Some (LIT "Invalid phone number (dashes should be used to separate numbers)")
            | Some PNested => Some (LIT "Invalid phone number (contains nested parentheses)")
            | Some PClosing => Some (LIT "Invalid phone number (invalid closing parenthesis)")
            | Some PChars => Some (LIT "Invalid phone number (contains invalid characters)")
            | None => None
            end in
  let e2 := if (negb hasPlus && plus)%bool then Some (LIT "Invalid phone number (missing initial `+`)") else e1 in
  let e3 := if inPar then Some (LIT "Invalid phone number (missing closing parenthesis)") else e2 in
  match e3 with
  | Some e => Some (match msg with Some m => m | None => e end)
  | None =>
    if (N.ltb digits minN || N.ltb maxN digits)%bool then
      Some (match msg with
            | Some m => m
            | None => if N.eqb minN maxN
                      then (LIT "Invalid phone number (must contain " ++ dec_N minN ++ LIT " digits)")%list
                      else (LIT "Invalid phone number (the number of digits must be from " ++ dec_N minN
                            ++ LIT " to " ++ dec_N maxN ++ LIT ")")%list
            end)
    else None
  end.

(* ---- the validator functors; VCustom is any user lambda ---- *)
Inductive vld :=
| VRequired (msg : option str)
| VRange (lo hi : Z) (msg : option str)
| VMinSize (n : N) (msg : option str)
| VMaxSize (n : N) (msg : option str)
| VEmail (msg : option str)
| VPhone (minN maxN : N) (plus : bool) (msg : option str)
| VCustom (f : view -> bool -> option str).

Definition or_default (msg : option str) (d : str) : str := match msg with Some m => m | None => d end.

(* operator()(value, isLoaded) *)
Definition apply_vld (v : vld) (w : view) (loaded : bool) : option str :=
  match v with
  | VRequired msg => if loaded then None else Some (or_default msg (LIT "This field is required"))
  | VRange lo hi msg =>
      if negb loaded then None
      else if (Z.ltb (v_int w) lo || Z.ltb hi (v_int w))%bool
           then Some (or_default msg (LIT "Value must be between " ++ dec_Z lo ++ LIT " and " ++ dec_Z hi)%list)
           else None
  | VMinSize n msg =>
      if negb loaded then None
      else if N.leb n (v_size w) then None
           else Some (or_default msg (LIT "The minimum size of this field should be " ++ dec_N n)%list)
  | VMaxSize n msg =>
      if negb loaded then None
      else if N.leb (v_size w) n then None
           else Some (or_default msg (LIT "The maximum size of this field should be not greater than " ++ dec_N n)%list)
  | VEmail msg =>
      if negb loaded then None
      else if email_valid (v_text w) then None else Some (or_default msg (LIT "Invalid email address"))
  | VPhone minN maxN plus msg =>
      if negb loaded then None else phone_check minN maxN plus msg (v_text w)
  | VCustom f => f w loaded
  end.

(* ---- serialization_context.h ---- *)
(* mErrorsMap; the model keeps the paths in order of first insertion (std::map orders them by
   path, observers sort) *)
Definition vmap := list (str * list str).

Fixpoint vm_add (m : vmap) (path msg : str) : vmap :=
  match m with
  | [] => [(path, [msg])]                                      (* try_emplace(path, {msg}) *)
  | (p, ms) :: m' =>
      if str_eqb p path then (p, ms ++ [msg]) :: m'            (* it->second.push_back(msg) *)
      else (p, ms) :: vm_add m' path msg
  end.

(* AddValidationError: insert, then throw when the number of paths has reached the limit *)
Definition add_validation_error (max : N) (m : vmap) (path msg : str) : outcome vmap :=
  let m1 := vm_add m path msg in
  if (N.ltb 0 max && N.eqb max (N.of_nat (List.length m1)))%bool then Exc (EValidation m1)
  else Ok m1.

(* OnFinishSerialization *)
Definition on_finish (m : vmap) : outcome unit :=
  match m with [] => Ok tt | _ => Exc (EValidation m) end.

(* ---- classes: fields (key, type, validators) in declaration order ---- *)
(* LAttrInt / LAttrStr: a member serialized with AttributeValue (XML only) *)
Inductive leafty := LInt | LStr | LVecInt | LAttrInt | LAttrStr.

Inductive fty :=
| FLeaf (l : leafty)
| FObj (fs : fields)                  (* a class with a Serialize method *)
| FVecObj (fs : fields)               (* std::vector<class> *)
| FMapObj (fs : fields)               (* std::map<std::string, class> *)
with fields :=
| FNil
| FCons (key : str) (t : fty) (vs : list vld) (rest : fields).

Definition leafval (l : leafty) : Type :=
  match l with LInt | LAttrInt => Z | LStr | LAttrStr => str | LVecInt => list Z end.

Fixpoint fval (t : fty) : Type :=
  match t with
  | FLeaf l => leafval l
  | FObj fs => fsval fs
  | FVecObj fs => list (fsval fs)
  | FMapObj fs => list (str * fsval fs)
  end
with fsval (fs : fields) : Type :=
  match fs with
  | FNil => unit
  | FCons _ t _ rest => (fval t * fsval rest)%type
  end.

Definition leafdefault (l : leafty) : leafval l :=
  match l with LInt | LAttrInt => 0%Z | LStr | LAttrStr => [] | LVecInt => [] end.
Fixpoint fdefault (t : fty) : fval t :=
  match t with
  | FLeaf l => leafdefault l
  | FObj fs => fsdefault fs
  | FVecObj _ => []
  | FMapObj _ => []
  end
with fsdefault (fs : fields) : fsval fs :=
  match fs with
  | FNil => tt
  | FCons _ t _ rest => (fdefault t, fsdefault rest)
  end.

Definition view_of (t : fty) : fval t -> view :=
  match t return fval t -> view with
  | FLeaf LInt => fun v => mkView v 0 []
  | FLeaf LStr => fun v => mkView 0 (N.of_nat (List.length v)) v
  | FLeaf LVecInt => fun v => mkView 0 (N.of_nat (List.length v)) []
  | FLeaf LAttrInt => fun v => mkView v 0 []
  | FLeaf LAttrStr => fun v => mkView 0 (N.of_nat (List.length v)) v
  | FObj _ => fun _ => mkView 0 0 []
  | FVecObj _ => fun v => mkView 0 (N.of_nat (List.length v)) []
  | FMapObj _ => fun v => mkView 0 (N.of_nat (List.length v)) []
  end.

Definition load_leaf (a : arch) (pl : pols) (l : leafty) : leafval l -> doc -> outcome (leafval l * bool) :=
  match l with
  | LInt => fun p d => load_int pl p (as_int a d)
  | LStr => fun p d => load_str a pl p (as_str a d)
  | LVecInt => load a pl (TSeq SVector TInt)
  | LAttrInt => fun p d => load_int pl p (text_attr_as_int d)
  | LAttrStr => fun p d => load_str a pl p (text_attr_as_str d)
  end.

(* the member of the object document that a field is loaded from: the child element [key], or - for a field
   serialized with AttributeValue - the attribute [key] of the element.  The path of the field is the same in both
   cases: GetPath() of the attribute scope is the path of its element, so an attribute and a child element of the same
   name share their path *)
Definition field_key (t : fty) (key : str) : dkey :=
  match t with FLeaf LAttrInt | FLeaf LAttrStr => attr_key key | _ => DKStr key end.

Definition slash : str := [47%N].
Definition key_text (k : dkey) : str := match k with DKInt z => dec_Z z | DKStr s => s end.

(* element documents of an array scope with the index GetPath() shows while the element is being
   loaded (the scope has already advanced: first element = 1) *)
Fixpoint number_from (i : nat) (l : list doc) : list (nat * doc) :=
  match l with [] => [] | d :: l' => (i, d) :: number_from (Datatypes.S i) l' end.

(* the path component GetPath() adds for the i-th element document d of an array scope: its index, or - in a
   text archive - the name of the element (items of one array share their path) *)
Definition item_seg (a : arch) (i : nat) (d : doc) : str :=
  match text_mode a with Some tn => item_name tn d | None => dec_N (N.of_nat i) end.
(* GetPath() of the scope that the root value opens *)
Definition root_path (a : arch) (d : doc) : str :=
  match text_mode a with Some tn => (slash ++ item_name tn d)%list | None => [] end.

Section ClassLoader.
  Variable a : arch.
  Variable pl : pols.
  Context {C : Type}.
  (* SerializationContext::AddValidationError *)
  Variable sink : C -> str -> str -> outcome C.

  (* KeyValue::VisitArgs with the lambda of KeyValueProxy::SplitAndSerialize *)
  Fixpoint visit_args (vs : list vld) (w : view) (loaded : bool) (path : str) (c : C) : outcome C :=
    match vs with
    | [] => Ok c
    | v :: vs' =>
        match apply_vld v w loaded with
        | None => visit_args vs' w loaded path c
        | Some msg => c1 <- sink c path msg ;; visit_args vs' w loaded path c1
        end
    end.

  (* [path] is GetPath() of the scope a value of type t opens *)
  Fixpoint load_fty (t : fty) (path : str) {struct t} : fval t -> doc -> C -> outcome (fval t * bool * C) :=
    match t return fval t -> doc -> C -> outcome (fval t * bool * C) with
    | FLeaf l => fun v d c => '(v1, ld) <- load_leaf a pl l v d ;; Ok (v1, ld, c)
    | FObj fs => fun v d c =>
        so <- open_object a pl d ;;
        match so with
        | None => Ok (v, false, c)
        | Some ms => '(v1, c1) <- load_fields fs path v ms c ;; Ok (v1, true, c1)
        end
    | FVecObj fs => fun v d c =>
        sc <- open_array a pl d ;;
        match sc with
        | None => Ok (v, false, c)
        | Some (est, ds) =>
            '(r, c1) <- load_seq
                 (fun (x : fsval fs) (id : nat * doc) (c' : C) =>
                    so <- open_object a pl (snd id) ;;
                    match so with
                    | None => Ok (x, false, c')
                    | Some ms =>
                        '(x1, c2) <- load_fields fs (path ++ slash ++ item_seg a (fst id) (snd id))%list x ms c' ;;
                        Ok (x1, true, c2)
                    end)
                 (fsdefault fs) true v est (number_from (first_index a) ds) c ;;
            Ok (r, true, c1)
        end
    | FMapObj fs => fun v d c =>
        so <- open_object a pl d ;;
        match so with
        | None => Ok (v, false, c)
        | Some members =>
            '(r, c1) <- load_map str_eqb (conv_key pl KStr)
                 (fun (ak : dkey) (x : fsval fs) (c' : C) =>
                    match member ak members with
                    | None => Ok (x, false, c')
                    | Some dv =>
                        so2 <- open_object a pl dv ;;
                        match so2 with
                        | None => Ok (x, false, c')
                        | Some ms =>
                            '(x1, c2) <- load_fields fs (path ++ slash ++ key_text ak)%list x ms c' ;;
                            Ok (x1, true, c2)
                        end
                    end)
                 (fsdefault fs) Clean v (List.map fst (elem_members a members)) c ;;
            Ok (r, true, c1)
        end
    end
  (* value.Serialize(objectScope): archive << KeyValue(key, member, validators...) per field *)
  with load_fields (fs : fields) (path : str) {struct fs} : fsval fs -> list (dkey * doc) -> C -> outcome (fsval fs * C) :=
    match fs return fsval fs -> list (dkey * doc) -> C -> outcome (fsval fs * C) with
    | FNil => fun _ _ c => Ok (tt, c)
    | FCons key t vs rest => fun v ms c =>
        let fpath := (path ++ slash ++ key)%list in
        '(v1, ld, c1) <- match member (field_key t key) ms with
                         | None => Ok (fst v, false, c)
                         | Some d => load_fty t fpath (fst v) d c
                         end ;;
        c2 <- visit_args vs (view_of t v1) ld fpath c1 ;;
        '(r, c3) <- load_fields rest path (snd v) ms c2 ;;
        Ok ((v1, r), c3)
    end.
End ClassLoader.

(* BitSerializer::LoadObject<Archive>(object, input, options) into a default-constructed object *)
Definition load_root (a : arch) (pl : pols) (max : N) (t : fty) (d : doc) : outcome (fval t) :=
  '(v, _, m) <- load_fty a pl (add_validation_error max) t (root_path a d) (fdefault t) d [] ;;
  _ <- on_finish m ;;
  Ok v.

(* the same load with validation switched off, and with the AddValidationError calls only recorded *)
Definition load_plain (a : arch) (pl : pols) (t : fty) (d : doc) : outcome (fval t) :=
  '(v, _, _) <- load_fty a pl (fun (c : unit) _ _ => Ok c) t (root_path a d) (fdefault t) d tt ;; Ok v.
Definition load_recording (a : arch) (pl : pols) (t : fty) (d : doc) : outcome (fval t * list (str * str)) :=
  '(v, _, l) <- load_fty a pl (fun (c : list (str * str)) p m => Ok (c ++ [(p, m)])) t (root_path a d) (fdefault t) d [] ;;
  Ok (v, l).
