(* ArchProofs.v — C18 for every type of the universe of ArchModel.v part 1b (induction on the type
   descriptor), and C17 (the validation context, the loader of validated classes). *)
From BS Require Import Base ArchSpec ArchModel ArchLemmas.
From Coq Require Import ZifyBool ZifyN ZifyNat.
Ltac Zify.zify_post_hook ::= Z.div_mod_to_equations.

(* ------------------------------------------------------------------------------------------ *)
(* C18 over the type universe                                                                   *)
(* ------------------------------------------------------------------------------------------ *)

(* a value of the universe that a C++ object of the described type can hold (std::array<T,N> and
   T[N] have exactly N elements) *)
Fixpoint wt (t : ty) : tval t -> bool :=
  match t return tval t -> bool with
  | TSeq _ t' => forallb (wt t')
  | TArr n t' => fun p => Nat.eqb (length p) n && forallb (wt t') p
  | TMap _ t' => forallb (fun kv => wt t' (snd kv))
  | TMMap _ t' => forallb (fun kv => wt t' (snd kv))
  | TPtr _ t' => fun p => match p with Some v => wt t' v | None => true end
  | TPair ta tb => fun p => wt ta (fst p) && wt tb (snd p)
  | _ => fun _ => true
  end.

Lemma forallb_repeat {X} (f : X -> bool) x n : f x = true -> forallb f (repeat x n) = true.
Proof. intros H. induction n; cbn; [reflexivity | rewrite H; exact IHn]. Qed.

Lemma wt_default t : wt t (tdefault t) = true.
Proof.
  induction t; cbn; try reflexivity.
  - rewrite repeat_length, Nat.eqb_refl. cbn. apply forallb_repeat. exact IHt.
  - rewrite IHt1, IHt2. reflexivity.
Qed.

Lemma forallb_Forall {X} (f : X -> bool) l : forallb f l = true -> Forall (fun x => f x = true) l.
Proof. intros H. apply Forall_forall. apply forallb_forall. exact H. Qed.

(* the document comes back "not loaded" and without an exception *)
Definition unloaded {X} (o : outcome (X * bool)) : bool :=
  match o with Ok (_, false) => true | _ => false end.
Definition array_unopened (a : arch) (pl : pols) (d : doc) : bool :=
  match open_array a pl d with Ok None => true | _ => false end.
Definition object_unopened (a : arch) (pl : pols) (d : doc) : bool :=
  match open_object a pl d with Ok None => true | _ => false end.

(* d is never loaded by a target of type t, whatever the target holds *)
Fixpoint never_loads (a : arch) (pl : pols) (t : ty) (d : doc) : bool :=
  match t with
  | TInt => unloaded (load_int pl 0%Z (as_int a d))
  | TBool => unloaded (load_bool pl false (as_bool a d))
  | TStr => unloaded (load_str a pl [] (as_str a d))
  | TMap _ _ | TPair _ _ => object_unopened a pl d
  | TPtr _ t' => never_loads a pl t' d
  | _ => array_unopened a pl d
  end.

(* every position of d at which a stale value could survive is loaded (or raises an exception):
   the elements of fixed arrays, the members of pairs, the value itself.  Containers that are
   cleared or rebuilt first (sets, maps in Clean mode, multimaps, valarray, vector<bool>, bitset) only
   need their scope to open; an optional / smart pointer, and (since 772314c) an element of a
   sequence container, may also hold a document that is never loaded, because it is reset then. *)
Fixpoint all_load (a : arch) (pl : pols) (t : ty) (d : doc) : bool :=
  match t with
  | TInt => negb (unloaded (load_int pl 0%Z (as_int a d)))
  | TBool => negb (unloaded (load_bool pl false (as_bool a d)))
  | TStr => negb (unloaded (load_str a pl [] (as_str a d)))
  | TSeq k t' =>
      match open_array a pl d with
      | Ok (Some (_, ds)) =>
          match k with
          | SValarray => true
          | _ => forallb (fun di => all_load a pl t' di || never_loads a pl t' di) ds
          end
      | Ok None => false
      | Exc _ => true
      end
  | TArr _ t' =>
      match open_array a pl d with
      | Ok (Some (_, ds)) => forallb (all_load a pl t') ds
      | Ok None => false
      | Exc _ => true
      end
  | TVBool | TBitset _ | TSet _ _ | TMMap _ _ => negb (array_unopened a pl d)
  | TMap _ _ => negb (object_unopened a pl d)
  | TPtr _ t' => all_load a pl t' d || never_loads a pl t' d
  | TPair ta tb =>
      match open_object a pl d with
      | Ok (Some ms) =>
          match member (DKStr key_name) ms with Some dv => all_load a pl ta dv | None => false end
          && match member (DKStr value_name) ms with Some dv => all_load a pl tb dv | None => false end
      | Ok None => false
      | Exc _ => true
      end
  end.

(* the defect class of C18: some position of d is not loaded (F36 and its relatives) *)
Definition has_unloaded (a : arch) (pl : pols) (t : ty) (d : doc) : bool := negb (all_load a pl t d).

Lemma load_int_indep pl d : unloaded (load_int pl 0%Z d) = false -> forall p, load_int pl p d = load_int pl 0%Z d.
Proof.
  intros H p. destruct d; cbn in *; try reflexivity; try discriminate.
  - destruct (in_int32 z); [reflexivity|]. unfold on_overflow in *. destruct (p_overflow pl); [discriminate | reflexivity].
  - unfold on_mismatch in *. destruct (p_mismatch pl); [discriminate | reflexivity].
  - unfold on_mismatch in *. destruct (p_mismatch pl); [discriminate | reflexivity].
  - unfold on_mismatch in *. destruct (p_mismatch pl); [discriminate | reflexivity].
Qed.

Lemma load_bool_indep pl d : unloaded (load_bool pl false d) = false -> forall p, load_bool pl p d = load_bool pl false d.
Proof.
  intros H p. destruct d; cbn in *; try reflexivity; try discriminate.
  - destruct (Z.eqb z 0); [reflexivity|]. destruct (Z.eqb z 1); [reflexivity|].
    unfold on_overflow in *. destruct (p_overflow pl); [discriminate | reflexivity].
  - unfold on_mismatch in *. destruct (p_mismatch pl); [discriminate | reflexivity].
  - unfold on_mismatch in *. destruct (p_mismatch pl); [discriminate | reflexivity].
  - unfold on_mismatch in *. destruct (p_mismatch pl); [discriminate | reflexivity].
Qed.

Lemma load_str_indep a pl d : unloaded (load_str a pl [] d) = false -> forall p, load_str a pl p d = load_str a pl [] d.
Proof.
  intros H p. destruct d; cbn in *; try reflexivity; try discriminate.
  - destruct (null_str a); try reflexivity; try discriminate.
    unfold on_mismatch in *. destruct (p_mismatch pl); [discriminate | reflexivity].
  - unfold on_mismatch in *. destruct (p_mismatch pl); [discriminate | reflexivity].
  - unfold on_mismatch in *. destruct (p_mismatch pl); [discriminate | reflexivity].
  - unfold on_mismatch in *. destruct (p_mismatch pl); [discriminate | reflexivity].
  - unfold on_mismatch in *. destruct (p_mismatch pl); [discriminate | reflexivity].
Qed.

Lemma load_int_never pl d : unloaded (load_int pl 0%Z d) = true -> forall p, load_int pl p d = Ok (p, false).
Proof.
  intros H p. destruct d; cbn in *; try reflexivity; try discriminate.
  - destruct (in_int32 z); [discriminate|]. unfold on_overflow in *. destruct (p_overflow pl); [reflexivity | discriminate].
  - unfold on_mismatch in *. destruct (p_mismatch pl); [reflexivity | discriminate].
  - unfold on_mismatch in *. destruct (p_mismatch pl); [reflexivity | discriminate].
  - unfold on_mismatch in *. destruct (p_mismatch pl); [reflexivity | discriminate].
Qed.

Lemma load_bool_never pl d : unloaded (load_bool pl false d) = true -> forall p, load_bool pl p d = Ok (p, false).
Proof.
  intros H p. destruct d; cbn in *; try reflexivity; try discriminate.
  - destruct (Z.eqb z 0); [discriminate|]. destruct (Z.eqb z 1); [discriminate|].
    unfold on_overflow in *. destruct (p_overflow pl); [reflexivity | discriminate].
  - unfold on_mismatch in *. destruct (p_mismatch pl); [reflexivity | discriminate].
  - unfold on_mismatch in *. destruct (p_mismatch pl); [reflexivity | discriminate].
  - unfold on_mismatch in *. destruct (p_mismatch pl); [reflexivity | discriminate].
Qed.

Lemma load_str_never a pl d : unloaded (load_str a pl [] d) = true -> forall p, load_str a pl p d = Ok (p, false).
Proof.
  intros H p. destruct d; cbn in *; try reflexivity; try discriminate.
  - destruct (null_str a); try reflexivity; try discriminate.
    unfold on_mismatch in *. destruct (p_mismatch pl); [reflexivity | discriminate].
  - unfold on_mismatch in *. destruct (p_mismatch pl); [reflexivity | discriminate].
  - unfold on_mismatch in *. destruct (p_mismatch pl); [reflexivity | discriminate].
  - unfold on_mismatch in *. destruct (p_mismatch pl); [reflexivity | discriminate].
  - unfold on_mismatch in *. destruct (p_mismatch pl); [reflexivity | discriminate].
Qed.

Lemma never_loads_spec a pl t : forall d, never_loads a pl t d = true ->
  forall p, exists p', load a pl t p d = Ok (p', false).
Proof.
  induction t; intros d H p; cbn [never_loads] in H; cbn [load].
  - exists p. apply load_int_never. exact H.
  - exists p. apply load_bool_never. exact H.
  - exists p. apply load_str_never. exact H.
  - unfold array_unopened in H. destruct (open_array a pl d) as [[[est ds]|]|e]; try discriminate. exists p. reflexivity.
  - unfold array_unopened in H. destruct (open_array a pl d) as [[[est ds]|]|e]; try discriminate. exists p. reflexivity.
  - unfold array_unopened in H. destruct (open_array a pl d) as [[[est ds]|]|e]; try discriminate. exists p. reflexivity.
  - unfold array_unopened in H. destruct (open_array a pl d) as [[[est ds]|]|e]; try discriminate. exists p. reflexivity.
  - unfold array_unopened in H. destruct (open_array a pl d) as [[[est ds]|]|e]; try discriminate. exists p. reflexivity.
  - unfold object_unopened in H. destruct (open_object a pl d) as [[ms|]|e]; try discriminate. exists p. reflexivity.
  - unfold array_unopened in H. destruct (open_array a pl d) as [[[est ds]|]|e]; try discriminate. exists p. reflexivity.
  - exists None. unfold load_ptr, lift. cbv zeta.
    destruct p as [v|].
    + destruct (IHt d H v) as [p' E]. rewrite E. reflexivity.
    + destruct (IHt d H (tdefault t)) as [p' E]. rewrite E. reflexivity.
  - unfold object_unopened in H. destruct (open_object a pl d) as [[ms|]|e]; try discriminate. exists p. reflexivity.
Qed.

Lemma load_int_unloaded_default pl d v : load_int pl 0%Z d = Ok (v, false) -> v = 0%Z.
Proof.
  intros H. destruct d; cbn in H; try (inversion H; reflexivity).
  - destruct (in_int32 z); [discriminate|]. unfold on_overflow in H. destruct (p_overflow pl); inversion H; reflexivity.
  - unfold on_mismatch in H. destruct (p_mismatch pl); inversion H; reflexivity.
  - unfold on_mismatch in H. destruct (p_mismatch pl); inversion H; reflexivity.
  - unfold on_mismatch in H. destruct (p_mismatch pl); inversion H; reflexivity.
Qed.
Lemma load_bool_unloaded_default pl d v : load_bool pl false d = Ok (v, false) -> v = false.
Proof.
  intros H. destruct d; cbn in H; try (inversion H; reflexivity).
  - destruct (Z.eqb z 0); [discriminate|]. destruct (Z.eqb z 1); [discriminate|].
    unfold on_overflow in H. destruct (p_overflow pl); inversion H; reflexivity.
  - unfold on_mismatch in H. destruct (p_mismatch pl); inversion H; reflexivity.
  - unfold on_mismatch in H. destruct (p_mismatch pl); inversion H; reflexivity.
  - unfold on_mismatch in H. destruct (p_mismatch pl); inversion H; reflexivity.
Qed.
Lemma load_str_unloaded_default a pl d v : load_str a pl [] d = Ok (v, false) -> v = [].
Proof.
  intros H. destruct d; cbn in H; try (inversion H; reflexivity).
  - destruct (null_str a); try (inversion H; reflexivity).
    unfold on_mismatch in H. destruct (p_mismatch pl); inversion H; reflexivity.
  - unfold on_mismatch in H. destruct (p_mismatch pl); inversion H; reflexivity.
  - unfold on_mismatch in H. destruct (p_mismatch pl); inversion H; reflexivity.
  - unfold on_mismatch in H. destruct (p_mismatch pl); inversion H; reflexivity.
  - unfold on_mismatch in H. destruct (p_mismatch pl); inversion H; reflexivity.
Qed.

Lemma load_unloaded_default a pl t : forall d v, load a pl t (tdefault t) d = Ok (v, false) -> v = tdefault t.
Proof.
  destruct t; intros d v H; cbn [load tdefault] in H.
  - exact (load_int_unloaded_default pl _ v H).
  - exact (load_bool_unloaded_default pl _ v H).
  - exact (load_str_unloaded_default a pl _ v H).
  - destruct (open_array a pl d) as [[[est ds]|]|e]; cbn [bind] in H; try discriminate; [|inversion H; reflexivity].
    destruct (unstate _); cbn [bind] in H; discriminate.
  - destruct (open_array a pl d) as [[[est ds]|]|e]; cbn [bind] in H; try discriminate; [|inversion H; reflexivity].
    destruct (unstate _); cbn [bind] in H; discriminate.
  - destruct (open_array a pl d) as [[[est ds]|]|e]; cbn [bind] in H; try discriminate; [|inversion H; reflexivity].
    destruct (unstate _); cbn [bind] in H; discriminate.
  - destruct (open_array a pl d) as [[[est ds]|]|e]; cbn [bind] in H; try discriminate; [|inversion H; reflexivity].
    destruct (unstate _); cbn [bind] in H; discriminate.
  - destruct (open_array a pl d) as [[[est ds]|]|e]; cbn [bind] in H; try discriminate; [|inversion H; reflexivity].
    destruct (unstate _); cbn [bind] in H; discriminate.
  - destruct (open_object a pl d) as [[ms|]|e]; cbn [bind] in H; try discriminate; [|inversion H; reflexivity].
    destruct (unstate _); cbn [bind] in H; discriminate.
  - destruct (open_array a pl d) as [[[est ds]|]|e]; cbn [bind] in H; try discriminate; [|inversion H; reflexivity].
    destruct (unstate _); cbn [bind] in H; discriminate.
  - unfold load_ptr, lift in H. cbv zeta in H.
    destruct (load a pl t (tdefault t) d) as [[v0 [|]]|e]; cbn [bind] in H; try discriminate. inversion H; reflexivity.
  - destruct (open_object a pl d) as [[ms|]|e]; cbn [bind] in H; try discriminate; [|inversion H; reflexivity].
    destruct (match member (DKStr key_name) ms with Some dv => _ | None => _ end) as [[k1 l1]|e]; cbn [bind] in H; [|discriminate].
    destruct (match member (DKStr value_name) ms with Some dv => _ | None => _ end) as [[v1 l2]|e]; cbn [bind] in H; discriminate.
Qed.

(* the element loader the containers of the universe are instantiated with *)
Definition uel (a : arch) (pl : pols) (t : ty) : tval t -> doc -> unit -> outcome (tval t * bool * unit) :=
  fun x di _ => lift (load a pl t x di).

Lemma uel_independent a pl t :
  (forall p d, wt t p = true -> all_load a pl t d = true -> load a pl t p d = load a pl t (tdefault t) d) ->
  prior_independent (uel a pl t) (tdefault t) (fun x => wt t x = true) (fun di => all_load a pl t di = true).
Proof. intros IH p d s Hq Hp. unfold uel. rewrite (IH p d Hq Hp). reflexivity. Qed.

Lemma agree_when_loaded_refl {A S} (o : outcome (A * bool * S)) : agree_when_loaded o o.
Proof. destruct o as [[[v [|]] s]|e]; cbn; auto. Qed.

(* an element of a sequence container: loaded independently of the prior value, or never loaded *)
Lemma uel_independent_when_loaded a pl t :
  (forall p d, wt t p = true -> all_load a pl t d = true -> load a pl t p d = load a pl t (tdefault t) d) ->
  prior_independent_when_loaded (uel a pl t) (tdefault t) (fun x => wt t x = true)
    (fun di => all_load a pl t di || never_loads a pl t di = true) /\
  unloaded_keeps_fresh (uel a pl t) (tdefault t) (fun di => all_load a pl t di || never_loads a pl t di = true).
Proof.
  intros IH. split.
  - intros p d s Hq Hp. unfold uel. apply orb_true_iff in Hp. destruct Hp as [Hp|Hp].
    + rewrite (IH p d Hq Hp). apply agree_when_loaded_refl.
    + destruct (never_loads_spec a pl t d Hp p) as [p1 E1].
      destruct (never_loads_spec a pl t d Hp (tdefault t)) as [p2 E2].
      rewrite E1, E2. cbn. reflexivity.
  - intros d s v s' _ H. unfold uel, lift in H.
    destruct (load a pl t (tdefault t) d) as [[v0 l0]|e] eqn:E; cbn [bind] in H; [|discriminate].
    inversion H; subst. eapply load_unloaded_default. exact E.
Qed.

Theorem load_all_types_outside a pl : forall t p d,
  wt t p = true -> all_load a pl t d = true -> load a pl t p d = load a pl t (tdefault t) d.
Proof.
  induction t as [ | | |k t' IH| |n t' IH|n|multi kt|kt t' IH|kt t' IH|k t' IH|ta IHa tb IHb];
    intros p d Hwt Hall; cbn [load all_load wt tdefault] in *.
  - apply load_int_indep. destruct (unloaded (load_int pl 0%Z (as_int a d))); [discriminate | reflexivity].
  - apply load_bool_indep. destruct (unloaded (load_bool pl false (as_bool a d))); [discriminate | reflexivity].
  - apply load_str_indep. destruct (unloaded (load_str a pl [] (as_str a d))); [discriminate | reflexivity].
  - (* TSeq *)
    destruct (open_array a pl d) as [[[est ds]|]|e]; cbn [bind]; try reflexivity; try discriminate.
    fold (uel a pl t').
    assert (E : seq_load k (uel a pl t') (tdefault t') p est ds tt = seq_load k (uel a pl t') (tdefault t') [] est ds tt).
    { destruct (uel_independent_when_loaded a pl t' IH) as [Hw Hk].
      destruct (reset_true_independent (uel a pl t') (tdefault t') _ _ Hw Hk) as [Hr Hf].
      pose proof (wt_default t') as Hd.
      apply forallb_Forall in Hwt.
      destruct k; cbn [seq_load]; try reflexivity;
        apply forallb_Forall in Hall;
        try (rewrite (load_seq_spec _ _ true _ _ Hr Hf Hd p est ds tt Hwt Hall),
                     (load_seq_spec _ _ true _ _ Hr Hf Hd [] est ds tt (Forall_nil _) Hall); reflexivity).
      rewrite (load_fwd_spec _ _ true _ _ Hr Hf Hd p est ds tt Hwt Hall),
              (load_fwd_spec _ _ true _ _ Hr Hf Hd [] est ds tt (Forall_nil _) Hall). reflexivity. }
    rewrite E. reflexivity.
  - (* TVBool *)
    unfold array_unopened in Hall.
    destruct (open_array a pl d) as [[[est ds]|]|e]; cbn [bind]; try reflexivity; try discriminate.
    rewrite !load_vbool_spec. reflexivity.
  - (* TArr *)
    destruct (open_array a pl d) as [[[est ds]|]|e]; cbn [bind]; try reflexivity; try discriminate.
    fold (uel a pl t').
    apply andb_true_iff in Hwt. destruct Hwt as [Hlen Hwt]. apply Nat.eqb_eq in Hlen.
    assert (E : load_fixed (uel a pl t') p ds tt = load_fixed (uel a pl t') (repeat (tdefault t') n) ds tt).
    { apply (load_fixed_indep _ _ _ _ (uel_independent a pl t' IH)).
      - apply forallb_Forall. exact Hwt.
      - apply Forall_repeat. apply wt_default.
      - rewrite repeat_length. exact Hlen.
      - apply forallb_Forall. exact Hall. }
    rewrite E. reflexivity.
  - (* TBitset *)
    unfold array_unopened in Hall.
    destruct (open_array a pl d) as [[[est ds]|]|e]; cbn [bind]; try reflexivity; discriminate.
  - (* TSet *)
    unfold array_unopened in Hall.
    destruct (open_array a pl d) as [[[est ds]|]|e]; cbn [bind]; try reflexivity; discriminate.
  - (* TMap *)
    unfold object_unopened in Hall.
    destruct (open_object a pl d) as [[ms|]|e]; cbn [bind]; try reflexivity; discriminate.
  - (* TMMap *)
    unfold array_unopened in Hall.
    destruct (open_array a pl d) as [[[est ds]|]|e]; cbn [bind]; try reflexivity; discriminate.
  - (* TPtr *)
    destruct p as [v|]; [|reflexivity].
    unfold load_ptr, lift. cbv zeta.
    apply orb_true_iff in Hall. destruct Hall as [Hall|Hnever].
    + rewrite (IH v d Hwt Hall). reflexivity.
    + destruct (never_loads_spec a pl t' d Hnever v) as [p1 E1].
      destruct (never_loads_spec a pl t' d Hnever (tdefault t')) as [p2 E2].
      rewrite E1, E2. reflexivity.
  - (* TPair *)
    destruct (open_object a pl d) as [[ms|]|e]; cbn [bind]; try reflexivity; try discriminate.
    apply andb_true_iff in Hwt. destruct Hwt as [Hwa Hwb].
    apply andb_true_iff in Hall. destruct Hall as [Ha Hb].
    destruct (member (DKStr key_name) ms) as [dk|]; [|discriminate].
    destruct (member (DKStr value_name) ms) as [dv|]; [|discriminate].
    cbn [fst snd]. rewrite (IHa (fst p) dk Hwa Ha), (IHb (snd p) dv Hwb Hb). reflexivity.
Qed.

(* the full-strength statement of C18 over the universe, and its refutation by F36 *)
Definition json_arch : arch := mkArch false NullStrSkip 1 None.   (* since fix a88d81b / cde2a3b: null is 'not loaded' *)
Definition msgpack_arch : arch := mkArch false NullStrSkip 1 None.
Definition csv_arch : arch := mkArch true NullStrEmpty 0 None.
Definition default_pols : pols := mkPols PThrow PThrow.

Definition C18_all_types_statement : Prop :=
  forall a pl t p d, wt t p = true -> load a pl t p d = load a pl t (tdefault t) d.

(* what is left of F36 after 772314c: SerializeFixedSizeArray (and members of pairs, and a root
   document that is not loaded) still keep the previous content *)
Lemma stale_witness :
  load json_arch default_pols (TArr 3 TInt) [7; 8; 9]%Z (DArr 3 [DNull; DInt 2; DNull]) = Ok ([7; 2; 9]%Z, true) /\
  load json_arch default_pols (TArr 3 TInt) [0; 0; 0]%Z (DArr 3 [DNull; DInt 2; DNull]) = Ok ([0; 2; 0]%Z, true).
Proof. split; vm_compute; reflexivity. Qed.

Lemma all_types_refuted : ~ C18_all_types_statement.
Proof.
  intros H.
  specialize (H json_arch default_pols (TArr 3 TInt) [7; 8; 9]%Z (DArr 3 [DNull; DInt 2; DNull]) eq_refl).
  destruct stale_witness as [E1 E2]. change (tdefault (TArr 3 TInt)) with [0; 0; 0]%Z in H. rewrite E1, E2 in H. discriminate.
Qed.

(* the repaired case: a sequence element that is not loaded no longer keeps the stale value *)
Lemma F36_repaired :
  load json_arch default_pols (TSeq SVector TInt) [7; 8]%Z (DArr 2 [DNull; DInt 2]) = Ok ([0; 2]%Z, true) /\
  has_unloaded json_arch default_pols (TSeq SVector TInt) (DArr 2 [DNull; DInt 2]) = false.
Proof. split; vm_compute; reflexivity. Qed.

Lemma all_types_outside a pl t p d :
  wt t p = true -> has_unloaded a pl t d = false -> load a pl t p d = load a pl t (tdefault t) d.
Proof.
  intros Hwt H. apply load_all_types_outside; [exact Hwt|].
  unfold has_unloaded in H. destruct (all_load a pl t d); [reflexivity | discriminate].
Qed.

(* SerializeObject(scope, map, mode) with the default mode is independent of the prior content *)
Lemma load_map_mode_clean a pl kt t' p d :
  load_map_mode a pl Clean kt t' p d = load a pl (TMap kt t') p d.
Proof. reflexivity. Qed.

(* the nested closure: a sequence container is itself a prior-independent element loader (on array
   documents whose elements are all in P) as soon as its element loader is prior-independent when
   loaded (assignable element type), or plainly prior-independent (otherwise) *)
Definition seq_as_element {A D S} (el : A -> D -> S -> outcome (A * bool * S)) (dflt : A) (assignable : bool)
    : list A -> nat * list D -> S -> outcome (list A * bool * S) :=
  fun p dv s => '(r, s') <- load_seq el dflt assignable p (fst dv) (snd dv) s ;; Ok (r, true, s').

Lemma seq_as_element_independent {A D S} (el : A -> D -> S -> outcome (A * bool * S)) dflt Q P :
  prior_independent_when_loaded el dflt Q P -> unloaded_keeps_fresh el dflt P -> Q dflt ->
  prior_independent (seq_as_element el dflt true) [] (Forall Q) (fun dv => Forall P (snd dv)).
Proof.
  intros Hw Hk Hd p dv s Hq Hp. unfold seq_as_element.
  destruct (reset_true_independent el dflt Q P Hw Hk) as [Hr Hf].
  rewrite (load_seq_spec el dflt true Q P Hr Hf Hd p (fst dv) (snd dv) s Hq Hp).
  rewrite (load_seq_spec el dflt true Q P Hr Hf Hd [] (fst dv) (snd dv) s (Forall_nil _) Hp). reflexivity.
Qed.

Lemma seq_as_element_independent_nonassignable {A D S} (el : A -> D -> S -> outcome (A * bool * S)) dflt Q P :
  prior_independent el dflt Q P -> Q dflt ->
  prior_independent (seq_as_element el dflt false) [] (Forall Q) (fun dv => Forall P (snd dv)).
Proof.
  intros Hi Hd p dv s Hq Hp. unfold seq_as_element.
  destruct (reset_false_independent el dflt Q P Hi) as [Hr Hf].
  rewrite (load_seq_spec el dflt false Q P Hr Hf Hd p (fst dv) (snd dv) s Hq Hp).
  rewrite (load_seq_spec el dflt false Q P Hr Hf Hd [] (fst dv) (snd dv) s (Forall_nil _) Hp). reflexivity.
Qed.

Definition ptr_as_element {A D S} (el : A -> D -> S -> outcome (A * bool * S)) (dflt : A) := load_ptr el dflt.

Lemma ptr_as_element_independent {A D S} (el : A -> D -> S -> outcome (A * bool * S)) dflt (Q : A -> Prop) P :
  prior_independent el dflt Q P ->
  prior_independent (ptr_as_element el dflt) None (fun o => match o with Some v => Q v | None => True end) P.
Proof.
  intros Hi p d s Hq Hp. destruct p as [v|]; [|reflexivity].
  apply (load_ptr_indep el dflt Q P Hi); assumption.
Qed.

(* ---------------- the statements of Properties_C18.v ---------------- *)
Lemma seq_populated_eq_fresh {A D S} (el : A -> D -> S -> outcome (A * bool * S)) dflt (Q : A -> Prop) (P : D -> Prop) :
  prior_independent_when_loaded el dflt Q P -> unloaded_keeps_fresh el dflt P -> Q dflt ->
  forall prior est data s, Forall Q prior -> Forall P data ->
    load_seq el dflt true prior est data s = load_seq el dflt true [] 0 data s /\
    load_seq el dflt true prior est data s = fresh_elems el dflt data s.
Proof.
  intros Hw Hk Hd prior est data s Hq Hp.
  destruct (reset_true_independent el dflt Q P Hw Hk) as [Hr Hf].
  rewrite (load_seq_spec el dflt true Q P Hr Hf Hd prior est data s Hq Hp).
  rewrite (load_seq_spec el dflt true Q P Hr Hf Hd [] 0 data s (Forall_nil _) Hp). split; reflexivity.
Qed.

Lemma seq_populated_eq_fresh_nonassignable {A D S} (el : A -> D -> S -> outcome (A * bool * S)) dflt (Q : A -> Prop) (P : D -> Prop) :
  prior_independent el dflt Q P -> Q dflt ->
  forall prior est data s, Forall Q prior -> Forall P data ->
    load_seq el dflt false prior est data s = load_seq el dflt false [] 0 data s /\
    load_seq el dflt false prior est data s = fresh_elems el dflt data s.
Proof.
  intros Hi Hd prior est data s Hq Hp.
  destruct (reset_false_independent el dflt Q P Hi) as [Hr Hf].
  rewrite (load_seq_spec el dflt false Q P Hr Hf Hd prior est data s Hq Hp).
  rewrite (load_seq_spec el dflt false Q P Hr Hf Hd [] 0 data s (Forall_nil _) Hp). split; reflexivity.
Qed.

Lemma seq_populated_eq_fresh_plain {A D S} (el : A -> D -> S -> outcome (A * bool * S)) dflt asg :
  (forall p d s, el p d s = el dflt d s) ->
  (forall d s v s', el dflt d s = Ok (v, false, s') -> v = dflt) ->
  forall prior est data s, load_seq el dflt asg prior est data s = load_seq el dflt asg [] 0 data s.
Proof.
  intros Hi Hk prior est data s.
  assert (HQ : forall l : list A, Forall (fun _ => True) l) by (intros l; apply Forall_forall; intros; exact I).
  assert (HP : forall l : list D, Forall (fun _ => True) l) by (intros l; apply Forall_forall; intros; exact I).
  destruct asg.
  - apply (seq_populated_eq_fresh el dflt (fun _ => True) (fun _ => True)); try exact I; try apply HQ; try apply HP.
    + intros p d s0 _ _. rewrite Hi. apply agree_when_loaded_refl.
    + intros d s0 v s' _. apply Hk.
  - apply (seq_populated_eq_fresh_nonassignable el dflt (fun _ => True) (fun _ => True)); try exact I; try apply HQ; try apply HP.
    intros p d s0 _ _. apply Hi.
Qed.

Lemma fwd_populated_eq_fresh {A D S} (el : A -> D -> S -> outcome (A * bool * S)) dflt (Q : A -> Prop) (P : D -> Prop) :
  prior_independent_when_loaded el dflt Q P -> unloaded_keeps_fresh el dflt P -> Q dflt ->
  forall prior est data s, Forall Q prior -> Forall P data ->
    load_fwd el dflt true prior est data s = load_fwd el dflt true [] 0 data s /\
    load_fwd el dflt true prior est data s = fresh_elems el dflt data s.
Proof.
  intros Hw Hk Hd prior est data s Hq Hp.
  destruct (reset_true_independent el dflt Q P Hw Hk) as [Hr Hf].
  rewrite (load_fwd_spec el dflt true Q P Hr Hf Hd prior est data s Hq Hp).
  rewrite (load_fwd_spec el dflt true Q P Hr Hf Hd [] 0 data s (Forall_nil _) Hp). split; reflexivity.
Qed.

Lemma fixed_populated_eq_fresh {A D S} (el : A -> D -> S -> outcome (A * bool * S)) dflt (Q : A -> Prop) (P : D -> Prop) :
  prior_independent el dflt Q P -> Q dflt ->
  forall prior data s, Forall Q prior -> Forall P data ->
    load_fixed el prior data s = load_fixed el (repeat dflt (length prior)) data s.
Proof.
  intros Hi Hd prior data s Hq Hp. apply (load_fixed_indep el dflt Q P Hi); try assumption.
  - apply Forall_repeat. exact Hd.
  - rewrite repeat_length. reflexivity.
Qed.

Lemma vbool_populated_eq_fresh {D S} (elb : bool -> D -> S -> outcome (bool * bool * S)) prior est data s :
  load_vbool elb prior est data s = load_vbool elb [] 0 data s.
Proof. rewrite !load_vbool_spec. reflexivity. Qed.

Lemma cleared_first {A D S K V DK} (el : A -> D -> S -> outcome (A * bool * S)) dflt asg ins
    (keq : K -> K -> bool) kconv (vload : DK -> V -> S -> outcome (V * bool * S)) vdflt :
  (forall prior est data s, load_valarray el dflt asg prior est data s = load_valarray el dflt asg [] est data s) /\
  (forall prior data s, load_set el dflt ins prior data s = load_set el dflt ins [] data s) /\
  (forall prior data s, load_mmap el dflt prior data s = load_mmap el dflt [] data s) /\
  (forall prior aks s, load_map keq kconv vload vdflt Clean prior aks s = load_map keq kconv vload vdflt Clean [] aks s).
Proof. repeat split. Qed.

Lemma only_existing_thm {K V DK S} (keq : K -> K -> bool) (keq_spec : forall a b, keq a b = true <-> a = b)
    kconv (vload : DK -> V -> S -> outcome (V * bool * S)) vdflt prior aks s m' s' :
  load_map keq kconv vload vdflt OnlyExistKeys prior aks s = Ok (m', s') ->
  never_adds_a_key prior m' /\
  (forall k, (forall ak, In ak aks -> kconv ak <> Ok (Some k)) -> mfind keq k m' = mfind keq k prior) /\
  (forall k l1 ak l2 v0, aks = l1 ++ ak :: l2 -> kconv ak = Ok (Some k) ->
     (forall a0, In a0 (l1 ++ l2) -> kconv a0 <> Ok (Some k)) -> mfind keq k prior = Some v0 ->
     exists s0 v ld s1, vload ak v0 s0 = Ok (v, ld, s1) /\ mfind keq k m' = Some v).
Proof.
  unfold load_map. intros H. repeat split.
  - apply (visit_only_keys keq kconv vload vdflt aks prior s m' s' H).
  - intros k Hno. apply (visit_other keq keq_spec kconv vload vdflt OnlyExistKeys aks prior s m' s' k H Hno).
  - intros k l1 ak l2 v0 -> Hk Hno Hf.
    apply (visit_only_touched keq keq_spec kconv vload vdflt l1 ak l2 prior s m' s' k v0 H Hk Hno Hf).
Qed.

Lemma update_keys_thm {K V DK S} (keq : K -> K -> bool) (keq_spec : forall a b, keq a b = true <-> a = b)
    kconv (vload : DK -> V -> S -> outcome (V * bool * S)) vdflt prior aks s m' s' :
  load_map keq kconv vload vdflt UpdateKeys prior aks s = Ok (m', s') ->
  never_removes_a_key prior m' /\
  (forall k, In k (key_set m') <-> In k (key_set prior) \/ exists ak, In ak aks /\ kconv ak = Ok (Some k)) /\
  (forall k, (forall ak, In ak aks -> kconv ak <> Ok (Some k)) -> mfind keq k m' = mfind keq k prior) /\
  (forall k l1 ak l2, aks = l1 ++ ak :: l2 -> kconv ak = Ok (Some k) ->
     (forall a0, In a0 (l1 ++ l2) -> kconv a0 <> Ok (Some k)) ->
     exists s0 v ld s1,
       vload ak (match mfind keq k prior with Some v0 => v0 | None => vdflt end) s0 = Ok (v, ld, s1) /\
       mfind keq k m' = Some v).
Proof.
  unfold load_map. intros H.
  pose proof (visit_update_keys keq keq_spec kconv vload vdflt aks prior s m' s' H) as Hk.
  repeat split.
  - intros k Hi. apply Hk. left. exact Hi.
  - apply Hk.
  - apply Hk.
  - intros k Hno. apply (visit_other keq keq_spec kconv vload vdflt UpdateKeys aks prior s m' s' k H Hno).
  - intros k l1 ak l2 -> Hc Hno.
    apply (visit_update_touched keq keq_spec kconv vload vdflt l1 ak l2 prior s m' s' k H Hc Hno).
Qed.

(* examples of Properties_C18.v *)
Lemma ex_nested :
  let t := TSeq SVector (TSeq SList (TPtr POptional TInt)) in
  let p : tval t := [[Some 7; None]; [Some 8]; []]%Z in
  let d := DArr 7 [DArr 0 [DInt 1; DNull; DInt 3]] in
  wt t p = true /\ has_unloaded msgpack_arch default_pols t d = false /\
  load msgpack_arch default_pols t p d = Ok ([[Some 1; None; Some 3]]%Z, true).
Proof. vm_compute. repeat split. Qed.

Lemma ex_map_modes :
  let doc := DMap [(DKStr [50]%N, DInt 5); (DKStr [49]%N, DInt 9)] in
  load_map_mode json_arch default_pols OnlyExistKeys KInt TInt [(1, 2)]%Z doc = Ok ([(1, 9)]%Z, true) /\
  load_map_mode json_arch default_pols UpdateKeys KInt TInt [(1, 2); (7, 7)]%Z doc = Ok ([(1, 9); (7, 7); (2, 5)]%Z, true) /\
  load_map_mode json_arch default_pols Clean KInt TInt [(1, 2); (7, 7)]%Z doc = Ok ([(2, 5); (1, 9)]%Z, true).
Proof. vm_compute. repeat split. Qed.

(* a key that occurs twice in an object document: every request for it is answered by the FIRST member of that name *)
Lemma dkey_eqb_refl k : dkey_eqb k k = true.
Proof. destruct k; cbn; [apply Z.eqb_refl | apply str_eqb_refl]. Qed.

Lemma member_first k d : forall l1 l2, (forall k' d', In (k', d') l1 -> dkey_eqb k k' = false) ->
  member k (l1 ++ (k, d) :: l2) = Some d.
Proof.
  induction l1 as [|[k1 d1] l1 IH]; intros l2 H; cbn [app member].
  - rewrite dkey_eqb_refl. reflexivity.
  - rewrite (H k1 d1 (or_introl eq_refl)). apply IH. intros k' d' Hi. apply (H k' d'). right. exact Hi.
Qed.
