(* ArchSpec.v — what C17 and C18 demand, written from the documentation (README "Validation of
   deserialized values", "Error handling", the summaries of MapLoadMode) without reference to how
   the C++ computes it.  Also the few basic types shared with the model (byte strings, outcomes). *)
From BS Require Import Base.

Definition str := list N.

Fixpoint str_eqb (a b : str) : bool :=
  match a, b with
  | [], [] => true
  | x :: a', y :: b' => N.eqb x y && str_eqb a' b'
  | _, _ => false
  end.

(* SerializationErrorCode values that can leave LoadObject (EValidation carries the map of
   ValidationException) *)
Inductive exc :=
| EParsing | EOutOfRange | EOverflow | EMismatch
| EValidation (m : list (str * list str)).

Inductive outcome (X : Type) := Ok (x : X) | Exc (e : exc).
Arguments Ok {X} x.
Arguments Exc {X} e.

Definition bind {X Y : Type} (o : outcome X) (f : X -> outcome Y) : outcome Y :=
  match o with Ok x => f x | Exc e => Exc e end.

Notation "x <- o ;; k" := (bind o (fun x => k)) (at level 61, o at next level, right associativity).
Notation "' p <- o ;; k" := (bind o (fun p => k)) (at level 61, p pattern, o at next level, right associativity).

(* ------------------------------------------------------------------------------------------ *)
(* C18: loading into a populated target = loading into a fresh one                              *)
(* ------------------------------------------------------------------------------------------ *)

Section SeqSpec.
  Context {A D S : Type}.
  Variable el : A -> D -> S -> outcome (A * bool * S).     (* loading one element: new value, loaded?, state *)
  Variable dflt : A.                                       (* a fresh (value-initialised) element *)

  (* the content a sequence must have after loading [data]: one element per element document, each
     the result of loading that document into a fresh element, in order; the first failure aborts *)
  Fixpoint fresh_elems (data : list D) (s : S) : outcome (list A * S) :=
    match data with
    | [] => Ok ([], s)
    | d :: data' =>
        '(v, _, s1) <- el dflt d s ;;
        '(r, s2) <- fresh_elems data' s1 ;;
        Ok (v :: r, s2)
    end.

  (* the element loader does not look at the previous content of its target (for targets in Q and
     documents in P) *)
  Definition prior_independent (Q : A -> Prop) (P : D -> Prop) : Prop :=
    forall p d s, Q p -> P d -> el p d s = el dflt d s.

  (* the weaker form that suffices where an element that is not loaded is reset: exceptions, the
     "loaded" result and the state do not depend on the previous content, and neither does the value
     WHEN it is loaded (when it is not, the loader typically returns the previous content unchanged) *)
  Definition agree_when_loaded (o1 o2 : outcome (A * bool * S)) : Prop :=
    match o1, o2 with
    | Ok (v1, true, s1), Ok (v2, true, s2) => v1 = v2 /\ s1 = s2
    | Ok (_, false, s1), Ok (_, false, s2) => s1 = s2
    | Exc e1, Exc e2 => e1 = e2
    | _, _ => False
    end.
  Definition prior_independent_when_loaded (Q : A -> Prop) (P : D -> Prop) : Prop :=
    forall p d s, Q p -> P d -> agree_when_loaded (el p d s) (el dflt d s).
  (* a loader that reports "not loaded" has left a fresh element as it was *)
  Definition unloaded_keeps_fresh (P : D -> Prop) : Prop :=
    forall d s v s', P d -> el dflt d s = Ok (v, false, s') -> v = dflt.
End SeqSpec.

Section MapSpec.
  Context {K V : Type}.
  Definition key_set (m : list (K * V)) : list K := map fst m.
  (* "Load only objects which already exist in the map" *)
  Definition never_adds_a_key (prior after : list (K * V)) : Prop := key_set after = key_set prior.
  (* "Load to existing or new objects" *)
  Definition never_removes_a_key (prior after : list (K * V)) : Prop :=
    forall k, In k (key_set prior) -> In k (key_set after).
End MapSpec.

(* ------------------------------------------------------------------------------------------ *)
(* C17: validation                                                                              *)
(* ------------------------------------------------------------------------------------------ *)

(* documented semantics of the built-in validators: when does a rule FAIL on (value, loaded) *)
Definition fails_required (loaded : bool) : Prop := loaded = false.
Definition fails_range (lo hi v : Z) (loaded : bool) : Prop := loaded = true /\ (v < lo \/ hi < v)%Z.
Definition fails_minsize (n size : N) (loaded : bool) : Prop := loaded = true /\ (size < n)%N.
Definition fails_maxsize (n size : N) (loaded : bool) : Prop := loaded = true /\ (n < size)%N.

(* One entry per failing rule, in the order the rules are evaluated by a full load: (path of the
   field, message of the rule).  The report that the ValidationException must carry: *)
Definition failure := (str * str)%type.

(* the messages of path p, in order *)
Definition msgs_at (fs : list failure) (p : str) : list str :=
  map snd (filter (fun f => str_eqb (fst f) p) fs).

(* the failing paths, each once, in order of first failure *)
Fixpoint failing_paths_acc (fs : list failure) (seen : list str) : list str :=
  match fs with
  | [] => []
  | (p, _) :: fs' => if existsb (str_eqb p) seen then failing_paths_acc fs' seen
                     else p :: failing_paths_acc fs' (p :: seen)
  end.
Definition failing_paths (fs : list failure) : list str := failing_paths_acc fs [].

(* m lists exactly the paths ps, each with exactly its failing messages *)
Definition reports (fs : list failure) (ps : list str) (m : list (str * list str)) : Prop :=
  map fst m = ps /\ forall p ms, In (p, ms) m -> ms = msgs_at fs p.

(* unlimited: all failing paths *)
Definition full_report (fs : list failure) (m : list (str * list str)) : Prop := reports fs (failing_paths fs) m.
(* maxValidationErrors = k: the first k failing paths ("Number of errors for each particular field
   is unlimited in any case") *)
Definition capped_report (k : nat) (fs : list failure) (m : list (str * list str)) : Prop :=
  reports fs (firstn k (failing_paths fs)) m.
