(* ArchValidation.v — proofs for C17: the validation context (AddValidationError, the cap, the final
   throw), VisitArgs, and the loader of validated classes (the AddValidationError calls a load makes
   do not depend on what the context does with them). *)
From BS Require Import Base ArchSpec ArchModel ArchLemmas.
From Coq Require Import ZifyBool ZifyN ZifyNat.
Ltac Zify.zify_post_hook ::= Z.div_mod_to_equations.

(* ---------------- membership through str_eqb ---------------- *)
Lemma mem_In p l : existsb (str_eqb p) l = true <-> In p l.
Proof.
  rewrite existsb_exists. split.
  - intros [x [Hi He]]. apply str_eqb_spec in He. subst. exact Hi.
  - intros Hi. exists p. split; [exact Hi | apply str_eqb_refl].
Qed.

Lemma mem_false_In p l : existsb (str_eqb p) l = false <-> ~ In p l.
Proof.
  split.
  - intros H Hi. apply mem_In in Hi. congruence.
  - intros H. destruct (existsb (str_eqb p) l) eqn:E; [|reflexivity]. apply mem_In in E. contradiction.
Qed.

(* ---------------- the spec side: msgs_at, failing_paths ---------------- *)
Lemma msgs_at_app l1 l2 p : msgs_at (l1 ++ l2) p = msgs_at l1 p ++ msgs_at l2 p.
Proof. unfold msgs_at. rewrite filter_app, map_app. reflexivity. Qed.

Lemma msgs_at_none l p : (forall f, In f l -> str_eqb (fst f) p = false) -> msgs_at l p = [].
Proof.
  induction l as [|f l IH]; intros H; [reflexivity|].
  unfold msgs_at. cbn. rewrite (H f (or_introl eq_refl)). apply IH. intros g Hg. apply H. right. exact Hg.
Qed.

Lemma mem_failing_paths_acc p fs : forall seen,
  existsb (str_eqb p) (failing_paths_acc fs seen)
  = existsb (str_eqb p) (map fst fs) && negb (existsb (str_eqb p) seen).
Proof.
  induction fs as [|[q msg] fs IH]; intros seen; cbn [failing_paths_acc map fst existsb]; [reflexivity|].
  destruct (existsb (str_eqb q) seen) eqn:Eq.
  - rewrite IH. destruct (str_eqb p q) eqn:Epq; cbn [orb]; [|reflexivity].
    apply str_eqb_spec in Epq. subst q. rewrite Eq. cbn. rewrite andb_false_r. reflexivity.
  - cbn [existsb]. rewrite IH. cbn [existsb]. destruct (str_eqb p q) eqn:Epq; cbn [orb negb andb].
    + apply str_eqb_spec in Epq. subst q. rewrite Eq. reflexivity.
    + reflexivity.
Qed.

Lemma mem_failing_paths p fs : existsb (str_eqb p) (failing_paths fs) = existsb (str_eqb p) (map fst fs).
Proof. unfold failing_paths. rewrite mem_failing_paths_acc. cbn. apply andb_true_r. Qed.

Lemma failing_paths_acc_snoc fs : forall seen p msg,
  failing_paths_acc (fs ++ [(p, msg)]) seen
  = failing_paths_acc fs seen
    ++ (if existsb (str_eqb p) seen || existsb (str_eqb p) (map fst fs) then [] else [p]).
Proof.
  induction fs as [|[q m0] fs IH]; intros seen p msg; cbn [app failing_paths_acc map fst existsb].
  - rewrite orb_false_r. destruct (existsb (str_eqb p) seen); reflexivity.
  - destruct (existsb (str_eqb q) seen) eqn:Eq.
    + rewrite IH. f_equal. destruct (str_eqb p q) eqn:Epq; cbn [orb]; [|reflexivity].
      apply str_eqb_spec in Epq. subst q. rewrite Eq. reflexivity.
    + cbn [app]. rewrite IH. cbn [existsb]. f_equal. f_equal.
      destruct (str_eqb p q); cbn [orb]; [rewrite orb_true_r; reflexivity | reflexivity].
Qed.

Lemma failing_paths_snoc fs p msg :
  failing_paths (fs ++ [(p, msg)])
  = failing_paths fs ++ (if existsb (str_eqb p) (map fst fs) then [] else [p]).
Proof. unfold failing_paths. rewrite failing_paths_acc_snoc. reflexivity. Qed.

Lemma failing_paths_snoc_length fs f :
  (length (failing_paths fs) <= length (failing_paths (fs ++ [f])) <= S (length (failing_paths fs)))%nat.
Proof.
  destruct f as [p msg]. rewrite failing_paths_snoc, app_length.
  destruct (existsb (str_eqb p) (map fst fs)); cbn; lia.
Qed.

Lemma failing_paths_prefix l1 l2 : exists tl, failing_paths (l1 ++ l2) = failing_paths l1 ++ tl.
Proof.
  induction l2 as [|f l2 IH] using rev_ind.
  - exists []. rewrite !app_nil_r. reflexivity.
  - destruct IH as [tl E]. destruct f as [p msg]. rewrite app_assoc, failing_paths_snoc, E.
    eexists. rewrite <- app_assoc. reflexivity.
Qed.

Lemma NoDup_failing_paths_acc fs : forall seen, NoDup (failing_paths_acc fs seen).
Proof.
  induction fs as [|[q msg] fs IH]; intros seen; cbn [failing_paths_acc]; [constructor|].
  destruct (existsb (str_eqb q) seen); [apply IH|].
  constructor; [|apply IH].
  intros Hi. apply mem_In in Hi. rewrite mem_failing_paths_acc in Hi. cbn in Hi.
  rewrite str_eqb_refl in Hi. cbn in Hi. rewrite andb_false_r in Hi. discriminate.
Qed.

Lemma NoDup_failing_paths fs : NoDup (failing_paths fs).
Proof. apply NoDup_failing_paths_acc. Qed.

(* ---------------- mErrorsMap ---------------- *)
Fixpoint vm_find (p : str) (m : vmap) : option (list str) :=
  match m with
  | [] => None
  | (q, ms) :: m' => if str_eqb q p then Some ms else vm_find p m'
  end.

Lemma vm_find_add_same m : forall p msg,
  vm_find p (vm_add m p msg) = Some (match vm_find p m with Some ms => ms ++ [msg] | None => [msg] end).
Proof.
  induction m as [|[q ms] m IH]; intros p msg; cbn.
  - rewrite str_eqb_refl. reflexivity.
  - destruct (str_eqb q p) eqn:E; cbn; rewrite E; [reflexivity | apply IH].
Qed.

Lemma vm_find_add_other m : forall p q msg, q <> p -> vm_find q (vm_add m p msg) = vm_find q m.
Proof.
  induction m as [|[r ms] m IH]; intros p q msg Hne; cbn.
  - destruct (str_eqb p q) eqn:E; [|reflexivity]. apply str_eqb_spec in E. subst. contradiction.
  - destruct (str_eqb r p) eqn:E; cbn.
    + apply str_eqb_spec in E. subst r. destruct (str_eqb p q) eqn:E2; [|reflexivity].
      apply str_eqb_spec in E2. subst. contradiction.
    + destruct (str_eqb r q); [reflexivity | apply IH; exact Hne].
Qed.

Lemma vm_keys_add m : forall p msg,
  map fst (vm_add m p msg) = if existsb (str_eqb p) (map fst m) then map fst m else map fst m ++ [p].
Proof.
  induction m as [|[q ms] m IH]; intros p msg; cbn; [reflexivity|].
  rewrite (str_eqb_sym p q). destruct (str_eqb q p); cbn; [reflexivity|].
  rewrite IH. destruct (existsb (str_eqb p) (map fst m)); reflexivity.
Qed.

Lemma In_vm_find m : forall p ms, NoDup (map fst m) -> In (p, ms) m -> vm_find p m = Some ms.
Proof.
  induction m as [|[q ms0] m IH]; intros p ms Hnd Hi; [destruct Hi|].
  cbn in *. inversion Hnd; subst. destruct Hi as [Hi|Hi].
  - inversion Hi; subst. rewrite str_eqb_refl. reflexivity.
  - destruct (str_eqb q p) eqn:E.
    + apply str_eqb_spec in E. subst q. exfalso. apply H1. apply (in_map fst) in Hi. exact Hi.
    + apply IH; assumption.
Qed.

(* what the map holds after the given AddValidationError calls *)
Definition group_from (m : vmap) (fs : list failure) : vmap :=
  fold_left (fun m f => vm_add m (fst f) (snd f)) fs m.
Definition group (fs : list failure) : vmap := group_from [] fs.

Lemma group_snoc fs f : group (fs ++ [f]) = vm_add (group fs) (fst f) (snd f).
Proof. unfold group, group_from. rewrite fold_left_app. reflexivity. Qed.

Lemma group_spec fs :
  map fst (group fs) = failing_paths fs /\
  forall q, vm_find q (group fs) = match msgs_at fs q with [] => None | ms => Some ms end.
Proof.
  induction fs as [|[p msg] fs [IHk IHf]] using rev_ind.
  - split; [reflexivity | intros q; reflexivity].
  - rewrite group_snoc. cbn [fst snd]. split.
    + rewrite vm_keys_add, IHk, mem_failing_paths, failing_paths_snoc.
      destruct (existsb (str_eqb p) (map fst fs)); [rewrite app_nil_r|]; reflexivity.
    + intros q. rewrite msgs_at_app. unfold msgs_at at 2. cbn [filter fst].
      destruct (str_eqb p q) eqn:E.
      * apply str_eqb_spec in E. subst q. rewrite vm_find_add_same, IHf. cbn [map snd].
        destruct (msgs_at fs p) as [|m0 ms]; cbn; reflexivity.
      * rewrite vm_find_add_other by (intros ->; rewrite str_eqb_refl in E; discriminate).
        cbn [map]. rewrite app_nil_r. apply IHf.
Qed.

Lemma group_reports fs : reports fs (failing_paths fs) (group fs).
Proof.
  destruct (group_spec fs) as [Hk Hf]. split; [exact Hk|].
  intros p ms Hi.
  assert (Hnd : NoDup (map fst (group fs))) by (rewrite Hk; apply NoDup_failing_paths).
  pose proof (In_vm_find _ _ _ Hnd Hi) as E. rewrite Hf in E.
  destruct (msgs_at fs p); [discriminate | inversion E; reflexivity].
Qed.

Lemma group_nil_iff fs : group fs = [] <-> fs = [].
Proof.
  split; [|intros ->; reflexivity].
  intros H. destruct fs as [|f fs] using rev_ind; [reflexivity|].
  rewrite group_snoc in H. destruct (group fs) as [|[q ms] m]; cbn in H; [discriminate|].
  destruct (str_eqb q (fst f)); discriminate.
Qed.

(* ---------------- replaying the calls through a context ---------------- *)
Fixpoint replay {C} (sink : C -> str -> str -> outcome C) (c : C) (fs : list failure) : outcome C :=
  match fs with
  | [] => Ok c
  | f :: fs' => c1 <- sink c (fst f) (snd f) ;; replay sink c1 fs'
  end.

Lemma replay_app {C} (sink : C -> str -> str -> outcome C) l1 : forall l2 c,
  replay sink c (l1 ++ l2) = (c1 <- replay sink c l1 ;; replay sink c1 l2).
Proof.
  induction l1 as [|f l1 IH]; intros l2 c; cbn; [reflexivity|].
  destruct (sink c (fst f) (snd f)); cbn; [apply IH | reflexivity].
Qed.

(* maxValidationErrors = 0: nothing is thrown while loading *)
Lemma replay_unlimited fs : forall m, replay (add_validation_error 0) m fs = Ok (group_from m fs).
Proof.
  induction fs as [|f fs IH]; intros m; cbn; [reflexivity|].
  unfold add_validation_error at 1. cbn. apply IH.
Qed.

(* the shortest prefix of the failures (continuing pre) in which k distinct paths fail *)
Fixpoint cut_from (k : nat) (pre fs : list failure) : option (list failure) :=
  match fs with
  | [] => None
  | f :: fs' =>
      let pre' := pre ++ [f] in
      if Nat.eqb (length (failing_paths pre')) k then Some pre' else cut_from k pre' fs'
  end.
Definition cut (k : nat) (fs : list failure) : option (list failure) := cut_from k [] fs.

Lemma replay_capped k : (0 < k)%nat -> forall fs pre, (length (failing_paths pre) < k)%nat ->
  replay (add_validation_error (N.of_nat k)) (group pre) fs =
    match cut_from k pre fs with
    | Some c => Exc (EValidation (group c))
    | None => Ok (group (pre ++ fs))
    end.
Proof.
  intros Hk. induction fs as [|f fs IH]; intros pre Hlt; cbn [replay cut_from].
  - rewrite app_nil_r. reflexivity.
  - unfold add_validation_error. rewrite <- group_snoc.
    replace (length (group (pre ++ [f]))) with (length (failing_paths (pre ++ [f])))
      by (rewrite <- (proj1 (group_spec (pre ++ [f]))); apply map_length).
    assert (E : (N.ltb 0 (N.of_nat k) && N.eqb (N.of_nat k) (N.of_nat (length (failing_paths (pre ++ [f])))))%bool
                = Nat.eqb (length (failing_paths (pre ++ [f]))) k).
    { destruct (Nat.eqb_spec (length (failing_paths (pre ++ [f]))) k) as [Heq|Hne].
      - rewrite Heq, N.eqb_refl. destruct (N.ltb_spec 0 (N.of_nat k)); [reflexivity | lia].
      - destruct (N.eqb_spec (N.of_nat k) (N.of_nat (length (failing_paths (pre ++ [f]))))) as [H|H];
          [lia | apply andb_false_r]. }
    rewrite E. destruct (Nat.eqb_spec (length (failing_paths (pre ++ [f]))) k) as [Heq|Hne]; cbn [bind]; [reflexivity|].
    rewrite IH.
    + rewrite <- app_assoc. reflexivity.
    + pose proof (failing_paths_snoc_length pre f). lia.
Qed.

Lemma cut_from_spec k fs : forall pre c, cut_from k pre fs = Some c ->
  exists l1 l2, fs = l1 ++ l2 /\ c = pre ++ l1 /\ length (failing_paths c) = k.
Proof.
  induction fs as [|f fs IH]; intros pre c H; cbn in H; [discriminate|].
  destruct (Nat.eqb_spec (length (failing_paths (pre ++ [f]))) k) as [Heq|Hne].
  - inversion H; subst c. exists [f], fs. repeat split; assumption.
  - destruct (IH _ _ H) as [l1 [l2 [E1 [E2 E3]]]]. exists (f :: l1), l2.
    subst. rewrite <- app_assoc in *. repeat split; assumption.
Qed.

Lemma cut_from_none k fs : forall pre, cut_from k pre fs = None -> (length (failing_paths pre) < k)%nat ->
  (length (failing_paths (pre ++ fs)) < k)%nat.
Proof.
  induction fs as [|f fs IH]; intros pre H Hlt; cbn in H.
  - rewrite app_nil_r. exact Hlt.
  - destruct (Nat.eqb_spec (length (failing_paths (pre ++ [f]))) k) as [Heq|Hne]; [discriminate|].
    replace (pre ++ f :: fs) with ((pre ++ [f]) ++ fs) by (rewrite <- app_assoc; reflexivity).
    apply IH; [exact H|]. pose proof (failing_paths_snoc_length pre f). lia.
Qed.

(* ---------------- VisitArgs ---------------- *)
Definition rec_sink : list failure -> str -> str -> outcome (list failure) := fun l p m => Ok (l ++ [(p, m)]).

(* the failing rules of one field visit: (path, message) per failing validator, declaration order *)
Definition rule_failures (path : str) (results : list (option str)) : list failure :=
  flat_map (fun r => match r with Some m => [(path, m)] | None => [] end) results.

Lemma visit_args_sink {C} (sink : C -> str -> str -> outcome C) vs w ld path : forall c,
  visit_args sink vs w ld path c = replay sink c (rule_failures path (map (fun v => apply_vld v w ld) vs)).
Proof.
  induction vs as [|v vs IH]; intros c; cbn; [reflexivity|].
  destruct (apply_vld v w ld) as [m|]; cbn; [|apply IH].
  destruct (sink c path m); cbn; [apply IH | reflexivity].
Qed.

Lemma replay_rec fs : forall l, replay rec_sink l fs = Ok (l ++ fs).
Proof.
  induction fs as [|[p m] fs IH]; intros l; cbn; [rewrite app_nil_r; reflexivity|].
  rewrite IH, <- app_assoc. reflexivity.
Qed.

Ltac split_pairs := repeat match goal with x : (_ * _)%type |- _ => destruct x end.
Ltac ext_steps :=
  repeat match goal with
         | |- ?a = ?a => reflexivity
         | |- context [bind ?o _] =>
             lazymatch o with bind _ _ => fail | _ => destruct o; split_pairs; cbn end
         end; try reflexivity.
Ltac ext_tac := intros ?; cbn; ext_steps.
(* the same with reduction restricted to the monad (no unfolding of the mutual loader) *)
Ltac ext_steps_r :=
  repeat match goal with
         | |- ?a = ?a => reflexivity
         | |- context [bind ?o _] =>
             lazymatch o with bind _ _ => fail | _ => destruct o; split_pairs; cbn [bind fst snd] end
         end; try reflexivity.

(* ---------------- a loader run with the recording context and with any other context ---------------- *)
Section Sim.
  Context {C : Type}.
  Variable sink : C -> str -> str -> outcome C.

  Definition sim {X} (frec : list failure -> outcome (X * list failure)) (fsink : C -> outcome (X * C)) : Prop :=
    forall l0 x l1, frec l0 = Ok (x, l1) ->
      exists adds, l1 = l0 ++ adds /\ forall c, fsink c = (c' <- replay sink c adds ;; Ok (x, c')).

  Lemma sim_ret {X} (x : X) : sim (fun l => Ok (x, l)) (fun c => Ok (x, c)).
  Proof. intros l0 x' l1 H. inversion H; subst. exists []. split; [rewrite app_nil_r; reflexivity | reflexivity]. Qed.

  Lemma sim_bind {X Y} f1 g1 (f2 : X -> list failure -> outcome (Y * list failure)) g2 :
    sim f1 g1 -> (forall x, sim (f2 x) (g2 x)) ->
    sim (fun l => '(x, l1) <- f1 l ;; f2 x l1) (fun c => '(x, c1) <- g1 c ;; g2 x c1).
  Proof.
    intros H1 H2 l0 y l2 H.
    destruct (f1 l0) as [[x l1]|e] eqn:E1; cbn in H; [|discriminate].
    destruct (H1 _ _ _ E1) as [a1 [-> G1]].
    destruct (H2 x _ _ _ H) as [a2 [-> G2]].
    exists (a1 ++ a2). split; [rewrite app_assoc; reflexivity|].
    intros c. rewrite G1, replay_app.
    destruct (replay sink c a1) as [c1|e]; cbn; [apply G2 | reflexivity].
  Qed.

  Lemma sim_ext {X} (f f' : list failure -> outcome (X * list failure)) g g' :
    (forall l, f l = f' l) -> (forall c, g c = g' c) -> sim f g -> sim f' g'.
  Proof. intros Hf Hg H l0 x l1 E. rewrite <- Hf in E. destruct (H _ _ _ E) as [a [E1 G]]. exists a. split; [exact E1|]. intros c. rewrite <- Hg. apply G. Qed.

  (* lifting through the container algorithms *)
  Section SimSeq.
    Context {A D : Type}.
    Variable el1 : A -> D -> list failure -> outcome (A * bool * list failure).
    Variable el2 : A -> D -> C -> outcome (A * bool * C).
    Hypothesis Hel : forall x d, sim (el1 x d) (el2 x d).
    Variable dflt : A.

    Lemma sim_reset asg x d : sim (reset_unloaded el1 dflt asg x d) (reset_unloaded el2 dflt asg x d).
    Proof.
      unfold reset_unloaded.
      eapply sim_ext; [| |apply (sim_bind (el1 x d) (el2 x d)
           (fun vl l => Ok (if (asg && negb (snd vl))%bool then dflt else fst vl, snd vl, l))
           (fun vl c => Ok (if (asg && negb (snd vl))%bool then dflt else fst vl, snd vl, c)))].
      - ext_tac.
      - ext_tac.
      - apply Hel.
      - intros vl. apply sim_ret.
    Qed.

    Lemma sim_load_existing asg cont : forall data, sim (load_existing el1 dflt asg cont data) (load_existing el2 dflt asg cont data).
    Proof.
      induction cont as [|x cont IH]; intros data.
      - destruct data; apply sim_ret.
      - destruct data as [|d data]; [apply sim_ret|].
        cbn [load_existing].
        eapply sim_ext; [| |apply (sim_bind (reset_unloaded el1 dflt asg x d) (reset_unloaded el2 dflt asg x d)
             (fun vl l => '(r, l2) <- load_existing el1 dflt asg cont data l ;; let '(r0, rest, n) := r in Ok (fst vl :: r0, rest, Datatypes.S n, l2))
             (fun vl c => '(r, c2) <- load_existing el2 dflt asg cont data c ;; let '(r0, rest, n) := r in Ok (fst vl :: r0, rest, Datatypes.S n, c2)))].
        + intros l. cbn [bind fst]. ext_steps_r.
        + intros c. cbn [bind fst]. ext_steps_r.
        + apply sim_reset.
        + intros vl. eapply sim_ext; [| |apply (sim_bind (load_existing el1 dflt asg cont data) (load_existing el2 dflt asg cont data)
             (fun r l => let '(r0, rest, n) := r in Ok (fst vl :: r0, rest, Datatypes.S n, l))
             (fun r c => let '(r0, rest, n) := r in Ok (fst vl :: r0, rest, Datatypes.S n, c)))].
          * intros l. cbn [bind fst]. ext_steps_r.
          * intros c. cbn [bind fst]. ext_steps_r.
          * apply IH.
          * intros [[r0 rest] n]. apply sim_ret.
    Qed.

    Lemma sim_load_appended data : sim (load_appended el1 dflt data) (load_appended el2 dflt data).
    Proof.
      induction data as [|d data IH]; [apply sim_ret|].
      cbn [load_appended].
      eapply sim_ext; [| |apply (sim_bind (el1 dflt d) (el2 dflt d)
           (fun vl l => '(r, l2) <- load_appended el1 dflt data l ;; Ok (fst vl :: fst r, Datatypes.S (snd r), l2))
           (fun vl c => '(r, c2) <- load_appended el2 dflt data c ;; Ok (fst vl :: fst r, Datatypes.S (snd r), c2)))].
      - ext_tac.
      - ext_tac.
      - apply Hel.
      - intros vl. eapply sim_ext; [| |apply (sim_bind (load_appended el1 dflt data) (load_appended el2 dflt data)
             (fun r l => Ok (fst vl :: fst r, Datatypes.S (snd r), l))
             (fun r c => Ok (fst vl :: fst r, Datatypes.S (snd r), c)))].
        + ext_tac.
        + ext_tac.
        + apply IH.
        + intros r. apply sim_ret.
    Qed.

    Lemma sim_load_loops asg cont0 data : sim (load_loops el1 dflt asg cont0 data) (load_loops el2 dflt asg cont0 data).
    Proof.
      unfold load_loops.
      eapply sim_ext; [| |apply (sim_bind (load_existing el1 dflt asg cont0 data) (load_existing el2 dflt asg cont0 data)
           (fun r l => '(ap, l2) <- load_appended el1 dflt (snd (fst r)) l ;;
                       Ok (resize dflt (snd r + snd ap) (fst (fst r) ++ fst ap), l2))
           (fun r c => '(ap, c2) <- load_appended el2 dflt (snd (fst r)) c ;;
                       Ok (resize dflt (snd r + snd ap) (fst (fst r) ++ fst ap), c2)))].
      - ext_tac.
      - ext_tac.
      - apply sim_load_existing.
      - intros r. eapply sim_ext; [| |apply (sim_bind (load_appended el1 dflt (snd (fst r))) (load_appended el2 dflt (snd (fst r)))
             (fun ap l => Ok (resize dflt (snd r + snd ap) (fst (fst r) ++ fst ap), l))
             (fun ap c => Ok (resize dflt (snd r + snd ap) (fst (fst r) ++ fst ap), c)))].
        + ext_tac.
        + ext_tac.
        + apply sim_load_appended.
        + intros ap. apply sim_ret.
    Qed.

    Lemma sim_load_seq asg prior est data : sim (load_seq el1 dflt asg prior est data) (load_seq el2 dflt asg prior est data).
    Proof. unfold load_seq. apply sim_load_loops. Qed.
  End SimSeq.

  Section SimMap.
    Context {K V DK : Type}.
    Variable keq : K -> K -> bool.
    Variable kconv : DK -> outcome (option K).
    Variable vl1 : DK -> V -> list failure -> outcome (V * bool * list failure).
    Variable vl2 : DK -> V -> C -> outcome (V * bool * C).
    Hypothesis Hvl : forall ak v, sim (vl1 ak v) (vl2 ak v).
    Variable vdflt : V.

    Lemma sim_map_step mode m ak : sim (map_step keq kconv vl1 vdflt mode m ak) (map_step keq kconv vl2 vdflt mode m ak).
    Proof.
      unfold map_step. destruct (kconv ak) as [[k|]|e]; cbn [bind].
      - destruct mode.
        + set (m1 := match mfind keq k m with None => m ++ [(k, vdflt)] | Some _ => m end).
          set (v0 := match mfind keq k m with None => vdflt | Some v0 => v0 end).
          eapply sim_ext; [| |apply (sim_bind (vl1 ak v0) (vl2 ak v0)
               (fun r l => Ok (mset keq k (fst r) m1, l)) (fun r c => Ok (mset keq k (fst r) m1, c)))].
          * ext_tac.
          * ext_tac.
          * apply Hvl.
          * intros r. apply sim_ret.
        + destruct (mfind keq k m) as [v0|]; [|apply sim_ret].
          eapply sim_ext; [| |apply (sim_bind (vl1 ak v0) (vl2 ak v0)
               (fun r l => Ok (mset keq k (fst r) m, l)) (fun r c => Ok (mset keq k (fst r) m, c)))].
          * ext_tac.
          * ext_tac.
          * apply Hvl.
          * intros r. apply sim_ret.
        + set (m1 := match mfind keq k m with None => m ++ [(k, vdflt)] | Some _ => m end).
          set (v0 := match mfind keq k m with None => vdflt | Some v0 => v0 end).
          eapply sim_ext; [| |apply (sim_bind (vl1 ak v0) (vl2 ak v0)
               (fun r l => Ok (mset keq k (fst r) m1, l)) (fun r c => Ok (mset keq k (fst r) m1, c)))].
          * ext_tac.
          * ext_tac.
          * apply Hvl.
          * intros r. apply sim_ret.
      - apply sim_ret.
      - intros l0 x l1 H. discriminate.
    Qed.

    Lemma sim_map_visit mode aks : forall m, sim (map_visit keq kconv vl1 vdflt mode aks m) (map_visit keq kconv vl2 vdflt mode aks m).
    Proof.
      induction aks as [|ak aks IH]; intros m; [apply sim_ret|].
      cbn [map_visit].
      eapply sim_ext; [| |apply (sim_bind (map_step keq kconv vl1 vdflt mode m ak) (map_step keq kconv vl2 vdflt mode m ak)
           (fun m1 l => map_visit keq kconv vl1 vdflt mode aks m1 l) (fun m1 c => map_visit keq kconv vl2 vdflt mode aks m1 c))].
      - ext_tac.
      - ext_tac.
      - apply sim_map_step.
      - intros m1. apply IH.
    Qed.

    Lemma sim_load_map mode prior aks : sim (load_map keq kconv vl1 vdflt mode prior aks) (load_map keq kconv vl2 vdflt mode prior aks).
    Proof. unfold load_map. apply sim_map_visit. Qed.
  End SimMap.
End Sim.

(* ---------------- the loader of validated classes ---------------- *)
Scheme fty_mut := Induction for fty Sort Prop
  with fields_mut := Induction for fields Sort Prop.
Combined Scheme fty_fields_mutind from fty_mut, fields_mut.

Lemma sim_exc {C X} (sink : C -> str -> str -> outcome C) e (g : C -> outcome (X * C)) :
  sim sink (fun _ => Exc e) g.
Proof. intros l0 x l1 H. discriminate. Qed.

Lemma sim_visit_args {C} (sink : C -> str -> str -> outcome C) vs w ld path :
  sim sink (fun l => l2 <- visit_args rec_sink vs w ld path l ;; Ok (tt, l2))
           (fun c => c2 <- visit_args sink vs w ld path c ;; Ok (tt, c2)).
Proof.
  intros l0 x l1 H. rewrite visit_args_sink, replay_rec in H. cbn in H. inversion H; subst.
  eexists. split; [reflexivity|]. intros c. rewrite visit_args_sink. reflexivity.
Qed.

Section LoaderSim.
  Variable a : arch.
  Variable pl : pols.
  Context {C : Type}.
  Variable sink : C -> str -> str -> outcome C.

  (* OpenObjectScope on a document, then the fields *)
  Lemma sim_object_at fs
    (IH : forall path v ms, sim sink (load_fields a pl rec_sink fs path v ms) (load_fields a pl sink fs path v ms))
    path (x : fsval fs) d :
    sim sink
      (fun l => so <- open_object a pl d ;;
                match so with
                | None => Ok (x, false, l)
                | Some ms => '(x1, l2) <- load_fields a pl rec_sink fs path x ms l ;; Ok (x1, true, l2)
                end)
      (fun c => so <- open_object a pl d ;;
                match so with
                | None => Ok (x, false, c)
                | Some ms => '(x1, c2) <- load_fields a pl sink fs path x ms c ;; Ok (x1, true, c2)
                end).
  Proof.
    destruct (open_object a pl d) as [[ms|]|e]; cbn [bind].
    - eapply sim_ext; [| |apply (sim_bind sink (load_fields a pl rec_sink fs path x ms) (load_fields a pl sink fs path x ms)
           (fun x1 l => Ok (x1, true, l)) (fun x1 c => Ok (x1, true, c)))].
      + ext_tac.
      + ext_tac.
      + apply IH.
      + intros x1. apply (sim_ret sink (x1, true)).
    - apply (sim_ret sink (x, false)).
    - apply sim_exc.
  Qed.

  Lemma load_fields_cons_eq {C'} (sk : C' -> str -> str -> outcome C') key t vs rest path
      (v : fsval (FCons key t vs rest)) ms c :
    load_fields a pl sk (FCons key t vs rest) path v ms c =
    ('(v1, ld, c1) <- match member (field_key t key) ms with
                     | None => Ok (fst v, false, c)
                     | Some d => load_fty a pl sk t (path ++ slash ++ key)%list (fst v) d c
                     end ;;
     c2 <- visit_args sk vs (view_of t v1) ld (path ++ slash ++ key)%list c1 ;;
     '(r, c3) <- load_fields a pl sk rest path (snd v) ms c2 ;;
     Ok ((v1, r), c3)).
  Proof. reflexivity. Qed.

  Lemma loader_sim :
    (forall t path v d, sim sink (load_fty a pl rec_sink t path v d) (load_fty a pl sink t path v d)) /\
    (forall fs path v ms, sim sink (load_fields a pl rec_sink fs path v ms) (load_fields a pl sink fs path v ms)).
  Proof.
    apply fty_fields_mutind.
    - (* FLeaf *)
      intros l path v d. cbn [load_fty].
      destruct (load_leaf a pl l v d) as [[v1 ld]|e]; cbn [bind].
      + apply (sim_ret sink (v1, ld)).
      + apply sim_exc.
    - (* FObj *)
      intros fs IH path v d. cbn [load_fty]. apply (sim_object_at fs IH).
    - (* FVecObj *)
      intros fs IH path v d. cbn [load_fty].
      destruct (open_array a pl d) as [[[est ds]|]|e]; cbn [bind].
      + match goal with
        | |- sim _ (fun c => bind (load_seq ?e1 ?df ?ag ?p ?es ?dd c) _) (fun c0 => bind (load_seq ?e2 _ _ _ _ _ c0) _) =>
            eapply sim_ext; [| |apply (sim_bind sink (load_seq e1 df ag p es dd) (load_seq e2 df ag p es dd)
               (fun r l => Ok (r, true, l)) (fun r c => Ok (r, true, c)))]
        end.
        * ext_tac.
        * ext_tac.
        * apply sim_load_seq. intros x id. apply (sim_object_at fs IH).
        * intros r. apply (sim_ret sink (r, true)).
      + apply (sim_ret sink (v, false)).
      + apply sim_exc.
    - (* FMapObj *)
      intros fs IH path v d. cbn [load_fty].
      destruct (open_object a pl d) as [[members|]|e]; cbn [bind].
      + match goal with
        | |- sim _ (fun c => bind (load_map ?ke ?kc ?v1 ?vd ?mo ?p ?ak c) _) (fun c0 => bind (load_map _ _ ?v2 _ _ _ _ c0) _) =>
            eapply sim_ext; [| |apply (sim_bind sink (load_map ke kc v1 vd mo p ak) (load_map ke kc v2 vd mo p ak)
               (fun r l => Ok (r, true, l)) (fun r c => Ok (r, true, c)))]
        end.
        * ext_tac.
        * ext_tac.
        * apply sim_load_map. intros ak x.
          destruct (member ak members) as [dv|]; [apply (sim_object_at fs IH) | apply (sim_ret sink (x, false))].
        * intros r. apply (sim_ret sink (r, true)).
      + apply (sim_ret sink (v, false)).
      + apply sim_exc.
    - (* FNil *)
      intros path v ms. cbn [load_fields]. apply (sim_ret sink tt).
    - (* FCons *)
      intros key t IHt vs rest IHr path [vh vt] ms.
      eapply sim_ext; [intros l; symmetry; apply (load_fields_cons_eq rec_sink) | intros c; symmetry; apply (load_fields_cons_eq sink) |].
      cbn [fst snd].
      set (F1 := match member (field_key t key) ms with
                 | None => fun l : list failure => Ok (vh, false, l)
                 | Some d => load_fty a pl rec_sink t (path ++ slash ++ key)%list vh d
                 end).
      set (G1 := match member (field_key t key) ms with
                 | None => fun c : C => Ok (vh, false, c)
                 | Some d => load_fty a pl sink t (path ++ slash ++ key)%list vh d
                 end).
      assert (S1 : sim sink F1 G1).
      { subst F1 G1. destruct (member (field_key t key) ms) as [d|]; [apply IHt | apply (sim_ret sink (vh, false))]. }
      eapply sim_ext; [| |apply (sim_bind sink F1 G1
           (fun vl l => '(_, l2) <- (l2 <- visit_args rec_sink vs (view_of t (fst vl)) (snd vl) (path ++ slash ++ key)%list l ;; Ok (tt, l2)) ;;
                        '(r, l3) <- load_fields a pl rec_sink rest path vt ms l2 ;; Ok ((fst vl, r), l3))
           (fun vl c => '(_, c2) <- (c2 <- visit_args sink vs (view_of t (fst vl)) (snd vl) (path ++ slash ++ key)%list c ;; Ok (tt, c2)) ;;
                        '(r, c3) <- load_fields a pl sink rest path vt ms c2 ;; Ok ((fst vl, r), c3)))].
      + intros l. subst F1. destruct (member (field_key t key) ms) as [d|]; cbn [bind fst snd]; ext_steps_r.
      + intros c. subst G1. destruct (member (field_key t key) ms) as [d|]; cbn [bind fst snd]; ext_steps_r.
      + exact S1.
      + intros vl.
        apply (sim_bind sink _ _
                 (fun (_ : unit) l2 => '(r, l3) <- load_fields a pl rec_sink rest path vt ms l2 ;; Ok ((fst vl, r), l3))
                 (fun (_ : unit) c2 => '(r, c3) <- load_fields a pl sink rest path vt ms c2 ;; Ok ((fst vl, r), c3))).
        * apply sim_visit_args.
        * intros _. apply (sim_bind sink _ _ (fun r l3 => Ok ((fst vl, r), l3)) (fun r c3 => Ok ((fst vl, r), c3))).
          -- apply IHr.
          -- intros r. apply (sim_ret sink (fst vl, r)).
  Qed.
End LoaderSim.

(* ---------------- LoadObject ---------------- *)
Lemma replay_null fs : forall c : unit, replay (fun (c : unit) (_ _ : str) => Ok c) c fs = Ok c.
Proof. induction fs as [|f fs IH]; intros c; cbn; [reflexivity | apply IH]. Qed.

(* what a load with any context does, given the failures of the recording load *)
Lemma load_fty_by_replay {C} (sink : C -> str -> str -> outcome C) a pl t d v ld fs :
  load_fty a pl rec_sink t (root_path a d) (fdefault t) d [] = Ok (v, ld, fs) ->
  forall c, load_fty a pl sink t (root_path a d) (fdefault t) d c = (c' <- replay sink c fs ;; Ok (v, ld, c')).
Proof.
  intros H. destruct (proj1 (loader_sim a pl sink) t (root_path a d) (fdefault t) d [] (v, ld) fs H) as [adds [E G]].
  cbn in E. subst adds. exact G.
Qed.

Lemma load_recording_inv a pl t d v fs :
  load_recording a pl t d = Ok (v, fs) ->
  exists ld, load_fty a pl rec_sink t (root_path a d) (fdefault t) d [] = Ok (v, ld, fs).
Proof.
  change (load_recording a pl t d)
    with ('(v0, _, l) <- load_fty a pl rec_sink t (root_path a d) (fdefault t) d [] ;; Ok (v0, l)).
  destruct (load_fty a pl rec_sink t (root_path a d) (fdefault t) d []) as [[[v0 ld] l]|e]; cbn; intros H; [|discriminate].
  inversion H; subst. exists ld. reflexivity.
Qed.

Theorem load_root_by_replay a pl max t d v fs :
  load_recording a pl t d = Ok (v, fs) ->
  load_root a pl max t d = (m <- replay (add_validation_error max) [] fs ;; _ <- on_finish m ;; Ok v).
Proof.
  intros H. destruct (load_recording_inv _ _ _ _ _ _ H) as [ld E].
  unfold load_root. rewrite (load_fty_by_replay (add_validation_error max) a pl t d v ld fs E).
  destruct (replay (add_validation_error max) [] fs) as [m|e]; reflexivity.
Qed.

Theorem load_plain_by_recording a pl t d v fs :
  load_recording a pl t d = Ok (v, fs) -> load_plain a pl t d = Ok v.
Proof.
  intros H. destruct (load_recording_inv _ _ _ _ _ _ H) as [ld E].
  unfold load_plain. rewrite (load_fty_by_replay (fun (c : unit) _ _ => Ok c) a pl t d v ld fs E).
  rewrite replay_null. reflexivity.
Qed.

(* maxValidationErrors = 0 *)
Theorem load_root_unlimited a pl t d v fs :
  load_recording a pl t d = Ok (v, fs) ->
  load_root a pl 0 t d = match fs with [] => Ok v | _ => Exc (EValidation (group fs)) end.
Proof.
  intros H. rewrite (load_root_by_replay _ _ _ _ _ _ _ H), replay_unlimited. fold (group fs). cbn [bind].
  destruct fs as [|f fs]; [reflexivity|].
  destruct (group (f :: fs)) as [|e m] eqn:E; [apply group_nil_iff in E; discriminate | reflexivity].
Qed.

(* maxValidationErrors = k > 0 *)
Theorem load_root_capped a pl k t d v fs : (0 < k)%nat ->
  load_recording a pl t d = Ok (v, fs) ->
  load_root a pl (N.of_nat k) t d =
    match cut k fs with
    | Some c => Exc (EValidation (group c))
    | None => match fs with [] => Ok v | _ => Exc (EValidation (group fs)) end
    end.
Proof.
  intros Hk H. rewrite (load_root_by_replay _ _ _ _ _ _ _ H).
  change (@nil (str * list str)) with (group []).
  rewrite (replay_capped k Hk fs []) by (cbn; lia).
  unfold cut. destruct (cut_from k [] fs) as [c|]; [reflexivity|].
  cbn [app bind]. destruct fs as [|f fs]; [reflexivity|].
  destruct (group (f :: fs)) as [|e m] eqn:E; [apply group_nil_iff in E; discriminate | reflexivity].
Qed.

Lemma cut_some_nonempty k fs c : (0 < k)%nat -> cut k fs = Some c -> c <> [].
Proof.
  intros Hk H Hc. destruct (cut_from_spec _ _ _ _ H) as [l1 [l2 [_ [_ E]]]]. subst c. cbn in E. lia.
Qed.

(* the load throws ValidationException iff some validator fails, for every maxValidationErrors *)
Theorem load_root_iff a pl max t d v fs :
  load_recording a pl t d = Ok (v, fs) ->
  (fs = [] -> load_root a pl max t d = Ok v) /\
  (fs <> [] -> exists m, load_root a pl max t d = Exc (EValidation m) /\ m <> []).
Proof.
  intros H. destruct (N.eq_dec max 0) as [->|Hm].
  - rewrite (load_root_unlimited _ _ _ _ _ _ H). split.
    + intros ->. reflexivity.
    + intros Hne. destruct fs as [|f fs]; [contradiction|]. eexists. split; [reflexivity|].
      intros E. apply group_nil_iff in E. discriminate.
  - replace max with (N.of_nat (N.to_nat max)) by apply N2Nat.id.
    rewrite (load_root_capped a pl (N.to_nat max) t d v fs) by (try lia; exact H). split.
    + intros ->. reflexivity.
    + intros Hne. destruct (cut (N.to_nat max) fs) as [c|] eqn:Ec.
      * eexists. split; [reflexivity|]. intros E. apply group_nil_iff in E.
        apply (cut_some_nonempty (N.to_nat max) fs c); [lia | exact Ec | exact E].
      * destruct fs as [|f fs]; [contradiction|]. eexists. split; [reflexivity|].
        intros E. apply group_nil_iff in E. discriminate.
Qed.

(* ---------------- the capped report ---------------- *)
Lemma cut_prefix k fs c : cut k fs = Some c -> exists rest, fs = c ++ rest /\ length (failing_paths c) = k.
Proof.
  intros H. destruct (cut_from_spec _ _ _ _ H) as [l1 [l2 [E1 [E2 E3]]]]. cbn in E2. subst c fs. exists l2. split; [reflexivity | exact E3].
Qed.

Lemma cut_none k fs : (0 < k)%nat -> cut k fs = None -> (length (failing_paths fs) < k)%nat.
Proof. intros Hk H. apply (cut_from_none k fs [] H). cbn. exact Hk. Qed.

Lemma cut_exists k fs : (0 < k <= length (failing_paths fs))%nat -> exists c, cut k fs = Some c.
Proof.
  intros [Hk Hle]. destruct (cut k fs) as [c|] eqn:E; [exists c; reflexivity|].
  apply cut_none in E; [lia | exact Hk].
Qed.

Lemma firstn_app_exact_len {X} (l tl : list X) : firstn (length l) (l ++ tl) = l.
Proof. apply firstn_app_exact. Qed.

(* what the ValidationException of an early throw holds: the first k failing paths, each with the
   messages produced up to the throw *)
Theorem capped_actual k fs c : cut k fs = Some c ->
  reports c (firstn k (failing_paths fs)) (group c).
Proof.
  intros H. destruct (cut_prefix _ _ _ H) as [rest [E Hl]]. subst fs.
  destruct (failing_paths_prefix c rest) as [tl Et]. rewrite Et, <- Hl, firstn_app_exact_len.
  apply group_reports.
Qed.

(* the defect class of F32: a path among the reported ones has a further failing rule after the throw *)
Definition truncated (k : nat) (fs : list failure) : bool :=
  match cut k fs with
  | Some c => existsb (fun f => existsb (str_eqb (fst f)) (failing_paths c)) (skipn (length c) fs)
  | None => false
  end.

(* the F32 class of a load, as asked by the judge of the correspondence (props/C17.py): None = the load does not get as far
   as a validation report (another error) or there is no cap *)
Definition validate_class (a : arch) (pl : pols) (max : N) (t : fty) (d : doc) : option bool :=
  if N.eqb max 0 then None
  else match load_recording a pl t d with
       | Ok (_, fs) => Some (truncated (N.to_nat max) fs)
       | Exc _ => None
       end.

Theorem capped_outside k fs c : cut k fs = Some c -> truncated k fs = false -> capped_report k fs (group c).
Proof.
  intros H Ht. pose proof (capped_actual k fs c H) as [Hk Hm].
  split; [exact Hk|]. intros p ms Hi. rewrite (Hm p ms Hi).
  destruct (cut_prefix _ _ _ H) as [rest [E Hl]]. subst fs.
  rewrite msgs_at_app. rewrite (msgs_at_none rest p); [rewrite app_nil_r; reflexivity|].
  intros f Hf. unfold truncated in Ht. rewrite H, skipn_app_exact in Ht.
  destruct (str_eqb (fst f) p) eqn:Efp; [|reflexivity].
  apply str_eqb_spec in Efp. exfalso.
  assert (Hin : In p (failing_paths c)).
  { destruct (failing_paths_prefix c rest) as [tl Et]. rewrite Et, <- Hl, firstn_app_exact_len in Hk.
    rewrite <- Hk. apply (in_map fst) in Hi. exact Hi. }
  assert (Hex : existsb (fun f0 => existsb (str_eqb (fst f0)) (failing_paths c)) rest = true).
  { apply existsb_exists. exists f. split; [exact Hf|]. rewrite Efp. apply mem_In. exact Hin. }
  rewrite Hex in Ht. discriminate.
Qed.

(* the full-strength statement about the cap, and its refutation by F32 *)
Definition C17_capped_statement : Prop :=
  forall k fs, (0 < k <= length (failing_paths fs))%nat ->
    exists m, replay (add_validation_error (N.of_nat k)) [] fs = Exc (EValidation m) /\ capped_report k fs m.

Lemma capped_refuted : ~ C17_capped_statement.
Proof.
  intros H.
  destruct (H 1%nat [([47; 97]%N, [49]%N); ([47; 97]%N, [50]%N)]) as [m [E R]]; [cbn; lia|].
  vm_compute in E. inversion E; subst m. destruct R as [_ R].
  specialize (R [47; 97]%N [[49]%N] (or_introl eq_refl)). vm_compute in R. discriminate.
Qed.

Lemma capped_statement_outside k fs : (0 < k <= length (failing_paths fs))%nat -> truncated k fs = false ->
  exists m, replay (add_validation_error (N.of_nat k)) [] fs = Exc (EValidation m) /\ capped_report k fs m.
Proof.
  intros Hk Ht. destruct (cut_exists k fs Hk) as [c Ec].
  exists (group c). split; [|apply capped_outside; assumption].
  change (@nil (str * list str)) with (group []).
  rewrite (replay_capped k (proj1 Hk) fs []) by (cbn; lia). fold (cut k fs). rewrite Ec. reflexivity.
Qed.

(* ---------------- the failures a class records, field by field ---------------- *)
Theorem recorded_field a pl key t vs rest path (v : fsval (FCons key t vs rest)) ms l0 :
  load_fields a pl rec_sink (FCons key t vs rest) path v ms l0 =
  ('(v1, ld, l1) <- match member (field_key t key) ms with
                   | None => Ok (fst v, false, l0)
                   | Some d => load_fty a pl rec_sink t (path ++ slash ++ key)%list (fst v) d l0
                   end ;;
   '(r, l3) <- load_fields a pl rec_sink rest path (snd v) ms
                 (l1 ++ rule_failures (path ++ slash ++ key)%list (map (fun vd => apply_vld vd (view_of t v1) ld) vs)) ;;
   Ok ((v1, r), l3)).
Proof.
  rewrite (load_fields_cons_eq a pl rec_sink).
  destruct (match member (field_key t key) ms with
            | None => Ok (fst v, false, l0)
            | Some d => load_fty a pl rec_sink t (path ++ slash ++ key)%list (fst v) d l0
            end) as [[[v1 ld] l1]|e]; cbn [bind]; [|reflexivity].
  rewrite visit_args_sink, replay_rec. reflexivity.
Qed.

(* ---------------- the built-in validators ---------------- *)
Lemma required_spec msg w ld : apply_vld (VRequired msg) w ld <> None <-> fails_required ld.
Proof. unfold fails_required. cbn. destruct ld; split; intros H; try discriminate; try contradiction; reflexivity. Qed.

Lemma range_spec lo hi msg w ld : apply_vld (VRange lo hi msg) w ld <> None <-> fails_range lo hi (v_int w) ld.
Proof.
  unfold fails_range. cbn. destruct ld; cbn.
  - destruct (Z.ltb_spec (v_int w) lo); cbn.
    + split; [intros _; split; [reflexivity | left; assumption] | intros _; discriminate].
    + destruct (Z.ltb_spec hi (v_int w)); cbn.
      * split; [intros _; split; [reflexivity | right; assumption] | intros _; discriminate].
      * split; [intros H1; contradiction | intros [_ [H1|H1]]; lia].
  - split; [intros H; contradiction | intros [H _]; discriminate].
Qed.

Lemma minsize_spec n msg w ld : apply_vld (VMinSize n msg) w ld <> None <-> fails_minsize n (v_size w) ld.
Proof.
  unfold fails_minsize. cbn. destruct ld; cbn.
  - destruct (N.leb_spec n (v_size w)).
    + split; [intros H1; contradiction | intros [_ H1]; lia].
    + split; [intros _; split; [reflexivity | assumption] | intros _; discriminate].
  - split; [intros H; contradiction | intros [H _]; discriminate].
Qed.

Lemma maxsize_spec n msg w ld : apply_vld (VMaxSize n msg) w ld <> None <-> fails_maxsize n (v_size w) ld.
Proof.
  unfold fails_maxsize. cbn. destruct ld; cbn.
  - destruct (N.leb_spec (v_size w) n).
    + split; [intros H1; contradiction | intros [_ H1]; lia].
    + split; [intros _; split; [reflexivity | assumption] | intros _; discriminate].
  - split; [intros H; contradiction | intros [H _]; discriminate].
Qed.

(* a custom message replaces the default one and nothing else *)
Lemma custom_message_spec v w ld m :
  match v with
  | VRequired _ => apply_vld (VRequired (Some m)) w ld = None \/ apply_vld (VRequired (Some m)) w ld = Some m
  | VRange lo hi _ => apply_vld (VRange lo hi (Some m)) w ld = None \/ apply_vld (VRange lo hi (Some m)) w ld = Some m
  | VMinSize n _ => apply_vld (VMinSize n (Some m)) w ld = None \/ apply_vld (VMinSize n (Some m)) w ld = Some m
  | VMaxSize n _ => apply_vld (VMaxSize n (Some m)) w ld = None \/ apply_vld (VMaxSize n (Some m)) w ld = Some m
  | _ => True
  end.
Proof.
  destruct v; cbn; try exact I.
  - destruct ld; [left | right]; reflexivity.
  - destruct ld; cbn; [|left; reflexivity]. destruct (Z.ltb (v_int w) lo || Z.ltb hi (v_int w))%bool; [right | left]; reflexivity.
  - destruct ld; cbn; [|left; reflexivity]. destruct (N.leb n (v_size w)); [left | right]; reflexivity.
  - destruct ld; cbn; [|left; reflexivity]. destruct (N.leb (v_size w) n); [left | right]; reflexivity.
Qed.

Lemma load_root_ok_value a pl max t d v fs v' :
  load_recording a pl t d = Ok (v, fs) -> load_root a pl max t d = Ok v' -> v' = v /\ fs = [].
Proof.
  intros H E. destruct (load_root_iff a pl max t d v fs H) as [H1 H2].
  destruct fs as [|f fs].
  - rewrite (H1 eq_refl) in E. inversion E. split; reflexivity.
  - destruct (H2 ltac:(discriminate)) as [m [Em _]]. rewrite Em in E. discriminate.
Qed.

Lemma visit_args_recorded vs w ld path l :
  visit_args rec_sink vs w ld path l = Ok (l ++ rule_failures path (map (fun v => apply_vld v w ld) vs)).
Proof. rewrite visit_args_sink. apply replay_rec. Qed.

(* ---------------- the statements of Properties_C17.v ---------------- *)
Lemma exact_thm a pl t d v fs :
  load_recording a pl t d = Ok (v, fs) ->
  load_root a pl 0 t d = match fs with [] => Ok v | _ => Exc (EValidation (group fs)) end /\
  full_report fs (group fs).
Proof. intros H. split; [exact (load_root_unlimited a pl t d v fs H) | exact (group_reports fs)]. Qed.

Lemma capped_actual_thm a pl k t d v fs : (0 < k)%nat ->
  load_recording a pl t d = Ok (v, fs) ->
  load_root a pl (N.of_nat k) t d =
    match cut k fs with
    | Some c => Exc (EValidation (group c))
    | None => match fs with [] => Ok v | _ => Exc (EValidation (group fs)) end
    end /\
  (forall c, cut k fs = Some c ->
     (exists rest, fs = c ++ rest /\ length (failing_paths c) = k) /\
     reports c (firstn k (failing_paths fs)) (group c)) /\
  (cut k fs = None -> (length (failing_paths fs) < k)%nat).
Proof.
  intros Hk H. split; [exact (load_root_capped a pl k t d v fs Hk H)|]. split.
  - intros c Hc. split; [exact (cut_prefix k fs c Hc) | exact (capped_actual k fs c Hc)].
  - exact (cut_none k fs Hk).
Qed.

Lemma passing_thm a pl t d v fs :
  load_recording a pl t d = Ok (v, fs) ->
  load_plain a pl t d = Ok v /\
  (forall max v', load_root a pl max t d = Ok v' -> v' = v /\ fs = []).
Proof.
  intros H. split; [exact (load_plain_by_recording a pl t d v fs H)|].
  intros max v'. exact (load_root_ok_value a pl max t d v fs v' H).
Qed.

Lemma passing_partial_thm a pl t d v fs m :
  load_recording a pl t d = Ok (v, fs) -> load_root a pl 0 t d = Exc (EValidation m) ->
  load_plain a pl t d = Ok v /\ fs <> [] /\ m = group fs.
Proof.
  intros H E. split; [exact (load_plain_by_recording a pl t d v fs H)|].
  rewrite (load_root_unlimited a pl t d v fs H) in E. destruct fs; [discriminate|].
  split; [discriminate | inversion E; reflexivity].
Qed.

Lemma builtins_thm msg lo hi n w ld :
  (apply_vld (VRequired msg) w ld <> None <-> fails_required ld) /\
  (apply_vld (VRange lo hi msg) w ld <> None <-> fails_range lo hi (v_int w) ld) /\
  (apply_vld (VMinSize n msg) w ld <> None <-> fails_minsize n (v_size w) ld) /\
  (apply_vld (VMaxSize n msg) w ld <> None <-> fails_maxsize n (v_size w) ld).
Proof.
  split; [apply required_spec|]. split; [apply range_spec|]. split; [apply minsize_spec | apply maxsize_spec].
Qed.

Lemma bounds_thm lo hi n sz :
  (lo <= hi)%Z ->
  apply_vld (VRange lo hi None) (mkView lo sz []) true = None /\
  apply_vld (VRange lo hi None) (mkView hi sz []) true = None /\
  apply_vld (VRange lo hi None) (mkView (lo - 1) sz []) true <> None /\
  apply_vld (VRange lo hi None) (mkView (hi + 1) sz []) true <> None /\
  apply_vld (VMinSize n None) (mkView 0 n []) true = None /\
  apply_vld (VMinSize (n + 1) None) (mkView 0 n []) true <> None /\
  apply_vld (VMaxSize n None) (mkView 0 n []) true = None /\
  apply_vld (VMaxSize n None) (mkView 0 (n + 1) []) true <> None /\
  (forall v w, match v with VRequired _ | VCustom _ => True | _ => apply_vld v w false = None end).
Proof.
  intros Hle. cbn [apply_vld v_int v_size negb].
  replace (Z.ltb lo lo) with false by lia. replace (Z.ltb hi lo) with false by lia.
  replace (Z.ltb hi hi) with false by lia. replace (Z.ltb (lo - 1) lo) with true by lia.
  replace (Z.ltb hi (hi + 1)) with true by lia. replace (Z.ltb (hi + 1) lo) with false by lia.
  replace (N.leb n n) with true by lia. replace (N.leb (n + 1) n) with false by lia.
  cbn [orb]. repeat split; try discriminate. intros v w. destruct v; try exact I; reflexivity.
Qed.

(* a small class for the examples: { a : int [Range 1 5 "1", Range 3 9 "2"]; b : int [Required "3"] } *)
Definition ex_class : fty :=
  FObj (FCons [97]%N (FLeaf LInt) [VRange 1 5 (Some [49]%N); VRange 3 9 (Some [50]%N)]
       (FCons [98]%N (FLeaf LInt) [VRequired (Some [51]%N)] FNil)).
Definition ex_doc : doc := DMap [(DKStr [97]%N, DInt 0)].
Definition ex_arch : arch := mkArch true NullStrMismatch 1 None.
Definition ex_pols : pols := mkPols PThrow PThrow.
Definition ex_failures : list failure := [([47; 97]%N, [49]%N); ([47; 97]%N, [50]%N); ([47; 98]%N, [51]%N)].

Lemma ex_recording : load_recording ex_arch ex_pols ex_class ex_doc = Ok ((0%Z, (0%Z, tt)), ex_failures).
Proof. vm_compute. reflexivity. Qed.

Lemma ex_unlimited :
  load_root ex_arch ex_pols 0 ex_class ex_doc
  = Exc (EValidation [([47; 97]%N, [[49]%N; [50]%N]); ([47; 98]%N, [[51]%N])]).
Proof. vm_compute. reflexivity. Qed.

Lemma ex_F32 :
  load_root ex_arch ex_pols 1 ex_class ex_doc = Exc (EValidation [([47; 97]%N, [[49]%N])]) /\
  load_root ex_arch ex_pols 2 ex_class ex_doc = Exc (EValidation [([47; 97]%N, [[49]%N; [50]%N]); ([47; 98]%N, [[51]%N])]) /\
  truncated 1 ex_failures = true /\ truncated 2 ex_failures = false.
Proof. vm_compute. repeat split. Qed.
