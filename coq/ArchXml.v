(* ArchXml.v — the XML archive (pugixml) as a fourth instance of the archive-layer model: xml_arch (ArchModel.v).
   The general theorems of C17 / C18 are stated for every [arch] and therefore hold for xml_arch as they are; this
   file proves what is DIFFERENT for XML: paths carry element names instead of indices (items of one array share
   their path, their messages are merged under it, which item failed cannot be read off the report), a child-less
   element opens as an empty scope (it is not "null / not loaded"), and scalars are untyped text. *)
From BS Require Import Base ArchSpec ArchModel ArchLemmas ArchProofs ArchValidation ArchCodec.

(* ---- paths ---- *)
Lemma xml_item_seg : forall i d, item_seg xml_arch i d = item_name xml_names d.
Proof. reflexivity. Qed.

Lemma xml_items_share_path : forall i j d1 d2,
  item_name xml_names d1 = item_name xml_names d2 -> item_seg xml_arch i d1 = item_seg xml_arch j d2.
Proof. intros. rewrite !xml_item_seg. assumption. Qed.

Lemma indexed_item_seg : forall a i d, text_mode a = None -> item_seg a i d = dec_N (N.of_nat i).
Proof. intros a i d H. unfold item_seg. rewrite H. reflexivity. Qed.

Lemma xml_root_path : forall d, root_path xml_arch d = (slash ++ item_name xml_names d)%list.
Proof. reflexivity. Qed.
Lemma indexed_root_path : forall a d, text_mode a = None -> root_path a d = [].
Proof. intros a d H. unfold root_path. rewrite H. reflexivity. Qed.

(* two documents for std::vector<Flat> (class 8): the Range rule of x fails in the FIRST item of one and in the
   SECOND item of the other *)
Definition flat_doc (x : Z) : doc :=
  DMap [(DKStr [120]%N, DInt x); (DKStr [115]%N, DStr [97; 98]%N); (DKStr [121]%N, DInt 1)].
Definition first_bad : doc := DArr 2 [flat_doc 9; flat_doc 3].
Definition second_bad : doc := DArr 2 [flat_doc 3; flat_doc 9].
Definition range_msg : str :=
  [86; 97; 108; 117; 101; 32; 109; 117; 115; 116; 32; 98; 101; 32; 98; 101; 116; 119; 101; 101; 110; 32; 49; 32; 97; 110; 100; 32; 53]%N.

(* JSON tells them apart (/1/x, /2/x); through XML both loads throw the same exception: /array/object/x *)
Lemma xml_item_identity_lost :
  first_bad <> second_bad /\
  load_root json_arch default_pols 0 (FVecObj fields_flat) first_bad = Exc (EValidation [([47; 49; 47; 120]%N, [range_msg])]) /\
  load_root json_arch default_pols 0 (FVecObj fields_flat) second_bad = Exc (EValidation [([47; 50; 47; 120]%N, [range_msg])]) /\
  load_root xml_arch default_pols 0 (FVecObj fields_flat) first_bad
    = Exc (EValidation [([47; 97; 114; 114; 97; 121; 47; 111; 98; 106; 101; 99; 116; 47; 120]%N, [range_msg])]) /\
  load_root xml_arch default_pols 0 (FVecObj fields_flat) second_bad
    = load_root xml_arch default_pols 0 (FVecObj fields_flat) first_bad.
Proof. split; [discriminate|]. repeat split; vm_compute; reflexivity. Qed.

(* ... and when both items fail, their messages are merged under the one path, in document order *)
Lemma xml_messages_merged :
  load_root xml_arch default_pols 0 (FVecObj fields_flat) (DArr 2 [flat_doc 9; flat_doc 0])
    = Exc (EValidation [([47; 97; 114; 114; 97; 121; 47; 111; 98; 106; 101; 99; 116; 47; 120]%N, [range_msg; range_msg])]) /\
  load_root json_arch default_pols 0 (FVecObj fields_flat) (DArr 2 [flat_doc 9; flat_doc 0])
    = Exc (EValidation [([47; 49; 47; 120]%N, [range_msg]); ([47; 50; 47; 120]%N, [range_msg])]).
Proof. split; vm_compute; reflexivity. Qed.

(* consequence for the cap: maxValidationErrors counts PATHS, so through XML the two failing items are one error *)
Lemma xml_cap_counts_paths :
  (exists m, load_root xml_arch default_pols 2 (FVecObj fields_flat) (DArr 2 [flat_doc 9; flat_doc 0; flat_doc 7]) = Exc (EValidation m)
             /\ List.length m = 1%nat) /\
  (exists m, load_root json_arch default_pols 2 (FVecObj fields_flat) (DArr 3 [flat_doc 9; flat_doc 0; flat_doc 7]) = Exc (EValidation m)
             /\ List.length m = 2%nat).
Proof. split; eexists; split; vm_compute; reflexivity. Qed.

(* ---- C18: a child-less element is an EMPTY container, not "not loaded" ---- *)
Lemma xml_childless_empties_sequence : forall pl k t' p,
  load xml_arch pl (TSeq k t') p DNull = Ok ([], true).
Proof.
  intros pl k t' p. cbn [load]. unfold open_array. cbn [text_mode xml_arch bind].
  destruct k; cbn [seq_load]; unfold load_seq, load_fwd, load_valarray, load_seq, load_loops, unstate;
    cbn [Nat.eqb]; try (destruct p; cbn; reflexivity).
Qed.

Lemma xml_childless_empties_map : forall pl kt t' p,
  load xml_arch pl (TMap kt t') p DNull = Ok ([], true).
Proof. intros. reflexivity. Qed.

(* the other archives leave the target as it was (the F36c class); for XML that class does not contain the
   child-less element *)
Lemma json_null_keeps_sequence : forall pl k t' p, load json_arch pl (TSeq k t') p DNull = Ok (p, false).
Proof. intros. reflexivity. Qed.

Lemma xml_childless_not_in_defect_class : forall pl k t',
  has_unloaded xml_arch pl (TSeq k t') DNull = false /\ has_unloaded json_arch pl (TSeq k t') DNull = true.
Proof. intros pl k t'. split; destruct k; reflexivity. Qed.

(* ---- scalars are text ---- *)
Lemma xml_number_into_string : forall pl p z, load xml_arch pl TStr p (DInt z) = Ok (dec_Z z, true).
Proof. intros. reflexivity. Qed.
Lemma json_number_into_string : forall pl p z, load json_arch pl TStr p (DInt z) = on_mismatch pl (p, false).
Proof. intros. reflexivity. Qed.
Lemma xml_bool_into_int : forall pl p b, load xml_arch pl TInt p (DBool b) = on_mismatch pl (p, false).
Proof. intros pl p b. destruct b; reflexivity. Qed.
Lemma xml_empty_string_not_loaded : forall pl p, load xml_arch pl TStr p (DStr []) = Ok (p, false).
Proof. intros. reflexivity. Qed.
Lemma xml_scope_into_scalar_not_loaded : forall pl (p : Z) (q : str) est l ms,
  load xml_arch pl TInt p (DArr est l) = Ok (p, false) /\ load xml_arch pl TStr q (DMap ms) = Ok (q, false).
Proof. intros. split; reflexivity. Qed.
(* an object's members are an array's items and the other way round (named by the encoder's convention) *)
Lemma xml_object_as_array : forall pl,
  load xml_arch pl (TSeq SVector TInt) [7; 8; 9]%Z (DMap [(DKStr [97]%N, DInt 1); (DKStr [98]%N, DInt 2)]) = Ok ([1; 2]%Z, true) /\
  load xml_arch pl (TMap KStr TInt) [] (DArr 2 [DInt 5; DArr 0 []]) = Ok ([(xml_names.(tn_value), 5%Z); (xml_names.(tn_array), 0%Z)], true).
Proof. intros. split; reflexivity. Qed.

(* what remains of F36 holds for XML exactly as for the others: an element of a fixed-size array that is not
   loaded keeps the stale value *)
Lemma xml_stale_witness :
  load xml_arch default_pols (TArr 3 TInt) [7; 8; 9]%Z (DArr 3 [DNull; DInt 2; DNull]) = Ok ([7; 2; 9]%Z, true) /\
  load xml_arch default_pols (TArr 3 TInt) [0; 0; 0]%Z (DArr 3 [DNull; DInt 2; DNull]) = Ok ([0; 2; 0]%Z, true) /\
  has_unloaded xml_arch default_pols (TArr 3 TInt) (DArr 3 [DNull; DInt 2; DNull]) = true.
Proof. repeat split; vm_compute; reflexivity. Qed.

(* ---- attributes (AttributeValue members; documents: members keyed '@name') ---- *)
Lemma attribute_lookup : forall key,
  field_key (FLeaf LAttrInt) key = attr_key key /\ field_key (FLeaf LAttrStr) key = attr_key key /\
  field_key (FLeaf LInt) key = DKStr key /\ field_key (FLeaf LStr) key = DKStr key.
Proof. intros. repeat split. Qed.

(* attributes are not children of their element: no items, no keys, not counted *)
Lemma attributes_are_not_children : forall k d l, is_attr_key k = true ->
  elem_members xml_arch ((k, d) :: l) = elem_members xml_arch l.
Proof. intros k d l H. unfold elem_members. cbn [text_mode xml_arch List.filter fst]. rewrite H. reflexivity. Qed.

Lemma xml_array_scope_of_object : forall pl l,
  open_array xml_arch pl (DMap l)
  = Ok (Some (List.length (elem_members xml_arch l), List.map snd (elem_members xml_arch l))).
Proof. reflexivity. Qed.

(* the value of an attribute is always text: the empty text is not a number (mismatch policy) but it is a string;
   an empty ELEMENT is "not loaded" for both *)
Lemma attribute_empty_text : forall pl (p : Z) (q : str),
  load_leaf xml_arch pl LAttrInt p (DStr []) = on_mismatch pl (p, false) /\
  load_leaf xml_arch pl LInt p (DStr []) = Ok (p, false) /\
  load_leaf xml_arch pl LAttrStr q (DStr []) = Ok ([], true) /\
  load_leaf xml_arch pl LStr q (DStr []) = Ok (q, false).
Proof. intros. repeat split. Qed.

Lemma attribute_number_policies : forall pl (p : Z) z,
  load_leaf xml_arch pl LAttrInt p (DInt z) = (if in_int32 z then Ok (z, true) else on_overflow pl (p, false)) /\
  load_leaf xml_arch pl LAttrInt p (DBool true) = on_mismatch pl (p, false).
Proof. intros. split; reflexivity. Qed.

(* class Attr (ArchCodec.fields_attr): id and name and x are attributes, x is also a child element.  The attribute x
   and the element x share the path /object/x: with the element missing and the attribute out of range both messages
   are reported under it, in declaration order *)
Definition attr_doc : doc :=
  DMap [(attr_key [105; 100]%N, DInt 3); (attr_key [110; 97; 109; 101]%N, DStr [97; 98]%N); (attr_key [120]%N, DInt 12)].
Lemma attribute_shares_path_with_element :
  load_root xml_arch default_pols 0 (FObj fields_attr) attr_doc
  = Exc (EValidation [([47; 111; 98; 106; 101; 99; 116; 47; 120]%N,
                       [[84; 104; 105; 115; 32; 102; 105; 101; 108; 100; 32; 105; 115; 32; 114; 101; 113; 117; 105; 114; 101; 100]%N;
                        [97; 116; 116; 114; 32; 120]%N])]).
Proof. vm_compute. reflexivity. Qed.
