(* Base.v — shared numeric/bit infrastructure: arithmetic reading of the C++ bit operations,
   range sweeps evaluated by the kernel, small list facts.  No axioms. *)
From Coq Require Export List NArith ZArith Lia Bool.
From Coq Require Import ZifyBool ZifyN ZifyNat.
Export ListNotations.
Local Open Scope N_scope.

Ltac Zify.zify_post_hook ::= Z.div_mod_to_equations.

(* the on-disk lia/nia cache makes every call re-read a multi-megabyte file and is unsafe under
   concurrent coqc runs in one directory *)
#[export] Unset Lia Cache.
#[export] Unset Nia Cache.

(* ---------- bit operations as arithmetic ---------- *)

Lemma shiftr_div (a : N) (n : N) : N.shiftr a n = a / 2 ^ n.
Proof. apply N.shiftr_div_pow2. Qed.

Lemma shiftl_mul (a : N) (n : N) : N.shiftl a n = a * 2 ^ n.
Proof. apply N.shiftl_mul_pow2. Qed.

Lemma land_mask (a n : N) : N.land a (N.ones n) = a mod 2 ^ n.
Proof. apply N.land_ones. Qed.

Lemma land_disjoint_shift (a b n : N) : b < 2 ^ n -> N.land (a * 2 ^ n) b = 0.
Proof.
  intros Hb. apply N.bits_inj. intros i. rewrite N.land_spec, N.bits_0.
  destruct (N.ltb_spec i n) as [Hi|Hi].
  - rewrite N.mul_pow2_bits_low by exact Hi. reflexivity.
  - replace b with (b mod 2 ^ n) by (apply N.mod_small; exact Hb).
    rewrite N.mod_pow2_bits_high by exact Hi. apply andb_false_r.
Qed.

Lemma lor_add (a b n : N) : b < 2 ^ n -> N.lor (a * 2 ^ n) b = a * 2 ^ n + b.
Proof.
  intros Hb. pose proof (land_disjoint_shift a b n Hb) as H.
  rewrite <- (N.lxor_lor _ _ H). symmetry. apply N.add_nocarry_lxor. exact H.
Qed.

Lemma lxor_add (a b n : N) : b < 2 ^ n -> N.lxor (a * 2 ^ n) b = a * 2 ^ n + b.
Proof.
  intros Hb. symmetry. apply N.add_nocarry_lxor. apply land_disjoint_shift. exact Hb.
Qed.

Lemma land_lt_pow2 b d n : b < 2 ^ n -> N.land b d < 2 ^ n.
Proof.
  intros Hb. rewrite <- (N.mod_small b (2 ^ n) Hb). rewrite <- land_mask.
  rewrite <- N.land_assoc, (N.land_comm (N.ones n) d), N.land_assoc, land_mask.
  apply N.mod_upper_bound. apply N.pow_nonzero. discriminate.
Qed.

Lemma land_split a b c d n : b < 2 ^ n -> d < 2 ^ n ->
  N.land (a * 2 ^ n + b) (c * 2 ^ n + d) = N.land a c * 2 ^ n + N.land b d.
Proof.
  intros Hb Hd.
  rewrite <- (lor_add a b n Hb), <- (lor_add c d n Hd).
  rewrite N.land_lor_distr_l, !N.land_lor_distr_r.
  rewrite (land_disjoint_shift a d n Hd).
  rewrite (N.land_comm b (c * 2 ^ n)), (land_disjoint_shift c b n Hb).
  rewrite N.lor_0_r, N.lor_0_l.
  rewrite <- !shiftl_mul, <- N.shiftl_land, shiftl_mul.
  apply lor_add. apply land_lt_pow2. exact Hb.
Qed.

(* ---------- byte decomposition of 16/32-bit values ---------- *)

Lemma decomp16 u : u = u mod 256 + 256 * (u / 256).
Proof. rewrite (N.div_mod u 256) at 1 by discriminate. lia. Qed.

Lemma recomp16 b0 b1 : b0 < 256 -> b1 < 256 ->
  (b0 * 256 + b1) mod 256 = b1 /\ (b0 * 256 + b1) / 256 = b0.
Proof. intros H0 H1. split; lia. Qed.

Lemma decomp32 u : u = u mod 256 + 256 * ((u / 256) mod 256) + 65536 * ((u / 65536) mod 256) + 16777216 * (u / 16777216).
Proof.
  rewrite (N.div_mod u 256) at 1 by discriminate.
  rewrite (N.div_mod (u / 256) 256) at 1 by discriminate.
  rewrite (N.div_mod (u / 256 / 256) 256) at 1 by discriminate.
  rewrite !N.div_div by discriminate. change (256 * 256) with 65536. change (65536 * 256) with 16777216. lia.
Qed.

Lemma recomp32 b0 b1 b2 b3 : b0 < 256 -> b1 < 256 -> b2 < 256 -> b3 < 256 ->
  let r := b0 * 16777216 + b1 * 65536 + b2 * 256 + b3 in
  r mod 256 = b3 /\ (r / 256) mod 256 = b2 /\ (r / 65536) mod 256 = b1 /\ r / 16777216 = b0.
Proof. intros H0 H1 H2 H3 r. subst r. repeat split; lia. Qed.

(* ---------- kernel-evaluated sweeps over [start, start + 2^k) ---------- *)

Fixpoint all_from (k : nat) (start : N) (f : N -> bool) : bool :=
  match k with
  | O => f start
  | S k' => all_from k' start f && all_from k' (start + 2 ^ N.of_nat k') f
  end.

Lemma all_from_spec k : forall start f, all_from k start f = true ->
  forall x, start <= x < start + 2 ^ N.of_nat k -> f x = true.
Proof.
  induction k as [|k IH]; intros start f H x Hx.
  - cbn in Hx. replace x with start by lia. exact H.
  - cbn [all_from] in H. apply andb_true_iff in H. destruct H as [H1 H2].
    assert (E : 2 ^ N.of_nat (S k) = 2 * 2 ^ N.of_nat k).
    { rewrite Nat2N.inj_succ, N.pow_succ_r'. reflexivity. }
    rewrite E in Hx.
    destruct (N.ltb_spec x (start + 2 ^ N.of_nat k)) as [Hlt|Hge].
    + apply (IH start f H1). lia.
    + apply (IH _ f H2). lia.
Qed.

Definition all_below (k : nat) (f : N -> bool) : bool := all_from k 0 f.

Lemma all_below_spec k f : all_below k f = true -> forall x, x < 2 ^ N.of_nat k -> f x = true.
Proof. intros H x Hx. apply (all_from_spec k 0 f H). lia. Qed.

(* ---------- lists ---------- *)

Lemma firstn_app_exact {A} (l r : list A) : firstn (length l) (l ++ r) = l.
Proof. induction l; cbn; [destruct r; reflexivity | f_equal; assumption]. Qed.

Lemma skipn_app_exact {A} (l r : list A) : skipn (length l) (l ++ r) = r.
Proof. induction l; cbn; [reflexivity | assumption]. Qed.

Definition is_prefix {A} (p l : list A) : Prop := exists r, l = p ++ r.
