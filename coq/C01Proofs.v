(* C01Proofs.v — C01 (save then load reproduces the value): compositions of the writer and reader theorems of the
   families.  Each statement is "what the loader model returns on what the writer model emitted". *)
From BS Require Import Base CsvSpec CsvSpecProofs CsvSpecComplete CsvModel CsvWriterProofs CsvReaderProofs CsvStreamProofs CsvProofs.
From BS Require Import UtfSpec UtfModel StreamIStream StreamSpec StreamModel StreamLossless StreamEswProofs.
Local Open Scope N_scope.

(* ---- CSV, memory: for every table (any byte-string fields, every allowed separator) and every requested key list ---- *)
Theorem csv_save_load sep hdr rows keys :
  allowed sep -> rows <> [] -> hdr <> [] -> NoDup hdr -> uniform hdr rows ->
  exists text, csv_write sep hdr rows = CsvModel.Ok text /\ csv_load sep keys text = CsvModel.Ok (select hdr keys rows).
Proof.
  intros Ha Hr Hh Hn Hu.
  destruct (writer_rfc sep hdr rows Ha Hr Hh Hu) as [text [Hw Hp]].
  destruct (parse_render sep text (hdr :: rows) Hp) as [chs [final Hren]].
  exists text. split; [exact Hw|].
  exact (reader_rfc sep chs final hdr rows text keys Ha Hn Hu Hren).
Qed.

(* ---- CSV, stream with a UTF-8 BOM, every chunk size of the stream reader ---- *)
Theorem csv_save_load_stream_bom K sep hdr rows keys :
  (3 <= K)%nat -> allowed sep -> rows <> [] -> hdr <> [] -> NoDup hdr -> uniform hdr rows ->
  exists doc, csv_write_stream true sep hdr rows = CsvModel.Ok doc /\ csv_load_stream K sep keys doc = CsvModel.Ok (select hdr keys rows).
Proof.
  intros HK Ha Hr Hh Hn Hu.
  destruct (writer_rfc sep hdr rows Ha Hr Hh Hu) as [text [Hw Hp]].
  destruct (writer_stream_same true sep hdr rows Ha Hr Hu) as [text' [Hw' Hs]].
  rewrite Hw in Hw'. injection Hw' as <-.
  destruct (parse_render sep text (hdr :: rows) Hp) as [chs [final Hren]].
  exists (utf8_bom ++ text). split; [exact Hs|].
  apply (reader_rfc_stream K sep chs final hdr rows (utf8_bom ++ text) keys); try assumption; [lia|].
  rewrite (stream_payload_bom K text HK). exact Hren.
Qed.

Theorem csv_save_load_stream_plain K sep hdr rows keys :
  (0 < K)%nat -> allowed sep -> rows <> [] -> hdr <> [] -> NoDup hdr -> uniform hdr rows ->
  exists doc, csv_write_stream false sep hdr rows = CsvModel.Ok doc /\
    (starts_with_bom (firstn K doc) = false -> csv_load_stream K sep keys doc = CsvModel.Ok (select hdr keys rows)).
Proof.
  intros HK Ha Hr Hh Hn Hu.
  destruct (writer_rfc sep hdr rows Ha Hr Hh Hu) as [text [Hw Hp]].
  destruct (writer_stream_same false sep hdr rows Ha Hr Hu) as [text' [Hw' Hs]].
  rewrite Hw in Hw'. injection Hw' as <-.
  destruct (parse_render sep text (hdr :: rows) Hp) as [chs [final Hren]].
  exists text. split; [exact Hs|]. intros Hb.
  apply (reader_rfc_stream K sep chs final hdr rows text keys); try assumption.
  rewrite (stream_payload_plain K text Hb). exact Hren.
Qed.

(* ---- encoded text streams: what CEncodedStreamWriter wrote (any source width, any target encoding, with or without
   BOM), read back by CEncodedStreamReader with any chunk size and target width, is the text ---- *)
Theorem stream_write_read K tgt pol polw mark e b w text sk fuel :
  (K mod 4 = 0)%nat -> (32 <= K)%nat -> Forall scalar text -> detectable b text -> stream_defect e b text = false ->
  let written := snd (esw_run e b polw [(w, encs w text)]) in
  (length written < fuel)%nat ->
  exists k, esr_run K tgt pol mark fuel (stream_of written sk) =
              RunDone (repeat ChSuccess k ++ [ChEndFile]) (encs tgt text) e.
Proof.
  intros H4 H32 Hs Hd Hn written Hf.
  assert (Hw : written = with_bom b e text).
  { unfold written. pose proof (esw_exact e b polw [(w, text)]) as Hx. cbn [map fst snd] in Hx.
    rewrite Hx by (constructor; [exact Hs | constructor]).
    cbn [snd flat_map]. rewrite app_nil_r. reflexivity. }
  rewrite Hw in *.
  exact (esr_lossless K H4 H32 tgt pol mark e b text Hs Hd Hn sk fuel Hf).
Qed.
