(* ChronoArith.v — lemmas and tactics for the typed machine arithmetic of ChronoModel.v:
   static_cast on values that fit, checked signed arithmetic, evaluation of the closed type-level
   computations (ratio_divide, common_type) once precision and representation are fixed. *)
From BS Require Import Base ChronoSpec ChronoModel.
From Coq Require Import ZifyBool ZifyN ZifyNat.
Local Open Scope Z_scope.
Ltac Zify.zify_post_hook ::= Z.to_euclidean_division_equations.

(* ---------- ranges ---------- *)

Lemma fits_iff t z : fits t z = true <-> tmin t <= z <= tmax t.
Proof. unfold fits. lia. Qed.

Lemma cast_fits t z : fits t z = true -> cast t z = z.
Proof. intros H. unfold cast. rewrite H. reflexivity. Qed.

Lemma wrap_range t z : fits t (wrap t z) = true.
Proof. destruct t; unfold fits, wrap, tmin, tmax, half, modulus; cbn [is_signed]; lia. Qed.

Lemma cast_range t z : fits t (cast t z) = true.
Proof. unfold cast. destruct (fits t z) eqn:E; [exact E | apply wrap_range]. Qed.

Lemma wrap_mod t z : (wrap t z) mod modulus t = z mod modulus t.
Proof. destruct t; unfold wrap, half, modulus; cbn [is_signed]; lia. Qed.

Lemma cast_mod t z : (cast t z) mod modulus t = z mod modulus t.
Proof. unfold cast. destruct (fits t z); [reflexivity | apply wrap_mod]. Qed.

Lemma cast_idem t z : cast t (cast t z) = cast t z.
Proof. apply cast_fits, cast_range. Qed.

Lemma arith_signed t z : is_signed t = true -> fits t z = true -> arith t z = Ok z.
Proof. intros Hs Hf. unfold arith. rewrite Hs, Hf. reflexivity. Qed.

Lemma arith_signed_ub t z : is_signed t = true -> fits t z = false -> arith t z = UB UBOverflow.
Proof. intros Hs Hf. unfold arith. rewrite Hs, Hf. reflexivity. Qed.

Lemma arith_unsigned t z : is_signed t = false -> arith t z = Ok (cast t z).
Proof. intros Hs. unfold arith. rewrite Hs. reflexivity. Qed.

Lemma arith_fits t z : fits t z = true -> arith t z = Ok z.
Proof.
  intros Hf. unfold arith. destruct (is_signed t); [rewrite Hf; reflexivity | rewrite cast_fits by exact Hf; reflexivity].
Qed.

Lemma bind_ok {A B} (a : A) (f : A -> outcome B) : bind (Ok a) f = f a.
Proof. reflexivity. Qed.

(* explicit ranges *)
Lemma fits_I64 z : fits I64 z = true <-> -9223372036854775808 <= z <= 9223372036854775807.
Proof. unfold fits, tmin, tmax, half; cbn [is_signed]. lia. Qed.
Lemma fits_I32 z : fits I32 z = true <-> -2147483648 <= z <= 2147483647.
Proof. unfold fits, tmin, tmax, half; cbn [is_signed]. lia. Qed.
Lemma fits_I8 z : fits I8 z = true <-> -128 <= z <= 127.
Proof. unfold fits, tmin, tmax, half; cbn [is_signed]. lia. Qed.
Lemma fits_U64 z : fits U64 z = true <-> 0 <= z <= 18446744073709551615.
Proof. unfold fits, tmin, tmax, half, modulus; cbn [is_signed]. lia. Qed.
Lemma fits_U32 z : fits U32 z = true <-> 0 <= z <= 4294967295.
Proof. unfold fits, tmin, tmax, half, modulus; cbn [is_signed]. lia. Qed.

(* ---------- ratio_divide for commensurable periods (no gcd left to the reader) ---------- *)

Lemma ratio_div_coarser from to k :
  0 < d_num from * d_den to -> d_den from * d_num to = d_num from * d_den to * k -> ratio_div from to = (1, k).
Proof.
  intros Hp Hk. unfold ratio_div. rewrite Hk.
  rewrite Z.gcd_mul_diag_l by lia.
  rewrite Z.div_same by lia. rewrite Z.mul_comm, Z.div_mul by lia. reflexivity.
Qed.

Lemma ratio_div_finer from to k :
  0 < d_den from * d_num to -> d_num from * d_den to = d_den from * d_num to * k -> ratio_div from to = (k, 1).
Proof.
  intros Hp Hk. unfold ratio_div. rewrite Hk.
  rewrite Z.gcd_comm, Z.gcd_mul_diag_l by lia.
  rewrite Z.div_same by lia. rewrite Z.mul_comm, Z.div_mul by lia. reflexivity.
Qed.

(* ---------- tactics ---------- *)

(* fits side conditions: turn into linear arithmetic *)
Ltac fits_tac :=
  repeat match goal with
         | |- fits _ _ = true => apply fits_iff
         end;
  unfold tmin, tmax, half, modulus; cbn [is_signed]; lia.

Ltac is_znum k := lazymatch k with Z0 => idtac | Zpos _ => idtac | Zneg _ => idtac end.

(* evaluate the type-level computations on closed arguments *)
Ltac eval_types :=
  repeat match goal with
         | |- context [ratio_div ?a ?b] => let v := eval vm_compute in (ratio_div a b) in change (ratio_div a b) with v
         | |- context [dcommon ?a ?b] => let v := eval vm_compute in (dcommon a b) in change (dcommon a b) with v
         | |- context [common3 ?a ?b ?c] => let v := eval vm_compute in (common3 a b c) in change (common3 a b c) with v
         | |- context [common_rep ?a ?b] => let v := eval vm_compute in (common_rep a b) in change (common_rep a b) with v
         | |- context [uac ?a ?b] => let v := eval vm_compute in (uac a b) in change (uac a b) with v
         | |- context [promote ?a] => let v := eval vm_compute in (promote a) in change (promote a) with v
         | |- context [dty_eqb ?a ?b] => let v := eval vm_compute in (dty_eqb a b) in change (dty_eqb a b) with v
         end.

(* static_cast of a literal *)
Ltac eval_casts :=
  repeat match goal with
         | |- context [cast ?t ?k] => is_znum k; let v := eval vm_compute in (cast t k) in change (cast t k) with v
         | |- context [tmax ?t] => let v := eval vm_compute in (tmax t) in change (tmax t) with v
         | |- context [tmin ?t] => let v := eval vm_compute in (tmin t) in change (tmin t) with v
         end.
