(* ChronoCalendar.v — the calendar half of C14: Hinnant's civil_from_days / days_from_civil, exactly as
   written in convert_chrono.h (truncating division), against the leap-rule calendar of ChronoSpec.v,
   over all of Z.
   Device: (1) the era is the floor quotient by 146097 resp. 400, so both functions commute with a
   translation by whole eras; (2) the leap rule has period 400; (3) kernel sweeps over the 146,097
   days of one era (including the step into the next era) and over the 148,800 (y mod 400, m, d)
   triples. *)
From BS Require Import Base ChronoSpec ChronoModel ChronoSweep.
From Coq Require Import ZifyBool ZifyN ZifyNat.
Local Open Scope Z_scope.
Ltac Zify.zify_post_hook ::= Z.to_euclidean_division_equations.

Lemma date_eqb_eq a b : date_eqb a b = true -> a = b.
Proof.
  destruct a as [[y m] d], b as [[y' m'] d']. cbn. intros H.
  apply andb_true_iff in H. destruct H as [H H3]. apply andb_true_iff in H. destruct H as [H1 H2].
  apply Z.eqb_eq in H1, H2, H3. subst. reflexivity.
Qed.

Lemma valid_dateb_spec dt : valid_dateb dt = true <-> valid_date dt.
Proof. destruct dt as [[y m] d]. unfold valid_dateb, valid_date. lia. Qed.

(* ---------- the leap rule has period 400 ---------- *)

Lemma leap_period y e : leap (y + 400 * e) = leap y.
Proof.
  unfold leap.
  replace ((y + 400 * e) mod 4) with (y mod 4) by lia.
  replace ((y + 400 * e) mod 100) with (y mod 100) by lia.
  replace ((y + 400 * e) mod 400) with (y mod 400) by lia.
  reflexivity.
Qed.

Lemma dim_period y e m : dim (y + 400 * e) m = dim y m.
Proof. unfold dim. rewrite leap_period. reflexivity. Qed.

Lemma dim_bounds y m : 28 <= dim y m <= 31.
Proof. unfold dim. repeat match goal with |- context [if ?c then _ else _] => destruct c end; lia. Qed.

Lemma next_day_shift k dt : next_day (shift (400 * k) dt) = shift (400 * k) (next_day dt).
Proof.
  destruct dt as [[y m] d]. cbn [shift next_day]. rewrite dim_period.
  destruct (d <? dim y m); [reflexivity|]. destruct (m <? 12); cbn [shift]; f_equal; f_equal; lia.
Qed.

Lemma valid_date_shift k dt : valid_date (shift (400 * k) dt) <-> valid_date dt.
Proof. destruct dt as [[y m] d]. cbn [shift valid_date]. rewrite dim_period. tauto. Qed.

(* ---------- civil_from_z : era is the floor quotient ---------- *)

Lemma era_quot z : Z.quot (if 0 <=? z then z else z - 146096) 146097 = z / 146097.
Proof. destruct (0 <=? z) eqn:E; lia. Qed.

Lemma civil_from_z_core z : civil_from_z z = civil_core (z / 146097) (z mod 146097).
Proof.
  unfold civil_from_z. rewrite era_quot.
  replace (z - z / 146097 * 146097) with (z mod 146097) by lia.
  reflexivity.
Qed.

Lemma civil_core_shift era doe : civil_core era doe = shift (400 * era) (civil_core 0 doe).
Proof.
  unfold civil_core. cbv zeta.
  set (yoe := Z.quot _ 365).
  set (m := if _ <? 10 then _ else _).
  cbn [shift]. f_equal. f_equal. lia.
Qed.

Lemma civil_from_days_translate z e :
  civil_from_days (z + 146097 * e) = shift (400 * e) (civil_from_days z).
Proof.
  unfold civil_from_days. rewrite !civil_from_z_core.
  replace ((z + 146097 * e + 719468) / 146097) with ((z + 719468) / 146097 + e) by lia.
  replace ((z + 146097 * e + 719468) mod 146097) with ((z + 719468) mod 146097) by lia.
  rewrite (civil_core_shift (_ + e)), (civil_core_shift ((z + 719468) / 146097)).
  destruct (civil_core 0 _) as [[y m] d]. cbn [shift]. f_equal. f_equal. lia.
Qed.

(* ---------- days_from_civil : era is the floor quotient ---------- *)

Lemma era_of_y_div y : era_of_y y = y / 400.
Proof. unfold era_of_y. destruct (0 <=? y) eqn:E; lia. Qed.

Lemma days_from_civil_translate y m d e :
  days_from_civil (y + 400 * e) m d = days_from_civil y m d + 146097 * e.
Proof.
  unfold days_from_civil. cbv zeta. rewrite !era_of_y_div.
  set (b := if m <=? 2 then 1 else 0).
  replace ((y + 400 * e - b) / 400) with ((y - b) / 400 + e) by lia.
  unfold doe_of. cbv zeta.
  replace (y + 400 * e - b - ((y - b) / 400 + e) * 400) with (y - b - (y - b) / 400 * 400) by lia.
  lia.
Qed.

(* ---------- the closed form of the specification has the same translation law ---------- *)

Lemma days_before_month_period y e m : days_before_month (y + 400 * e) m = days_before_month y m.
Proof.
  unfold days_before_month. f_equal. apply map_ext. intros k. apply dim_period.
Qed.

Lemma days_of_civil_translate y m d e :
  days_of_civil (y + 400 * e, m, d) = days_of_civil (y, m, d) + 146097 * e.
Proof.
  unfold days_of_civil. rewrite days_before_month_period.
  unfold days_before_year, leaps_through.
  assert (H4 : (y + 400 * e - 1) / 4 = (y - 1) / 4 + 100 * e) by lia.
  assert (H100 : (y + 400 * e - 1) / 100 = (y - 1) / 100 + 4 * e) by lia.
  assert (H400 : (y + 400 * e - 1) / 400 = (y - 1) / 400 + e) by lia.
  rewrite H4, H100, H400. lia.
Qed.

(* ---------- sweep 1: every day of one era ---------- *)

Lemma era_facts z : 0 <= z < 146097 ->
  valid_date (civil_core 0 z) /\
  (let '(y, m, d) := civil_core 0 z in days_from_civil y m d + 719468 = z) /\
  (z < 146096 -> civil_core 0 (z + 1) = next_day (civil_core 0 z)) /\
  (z = 146096 -> shift 400 (civil_core 0 0) = next_day (civil_core 0 z)).
Proof.
  intros Hz.
  pose proof (all_below_spec 18 era_check era_sweep (Z.to_N z)) as H.
  assert (Hlt : (Z.to_N z < 2 ^ N.of_nat 18)%N) by (change (2 ^ N.of_nat 18)%N with 262144%N; lia).
  specialize (H Hlt). unfold era_check in H. rewrite Z2N.id in H by lia.
  destruct (z <? 146097) eqn:E; [|lia].
  apply andb_true_iff in H. destruct H as [H H3]. apply andb_true_iff in H. destruct H as [H1 H2].
  split; [apply valid_dateb_spec; exact H1|]. split.
  - destruct (civil_core 0 z) as [[y m] d]. apply Z.eqb_eq. exact H2.
  - split; intros Hc.
    + destruct (z <? 146096) eqn:E2; [|lia]. apply date_eqb_eq. exact H3.
    + destruct (z <? 146096) eqn:E2; [lia|]. apply date_eqb_eq. exact H3.
Qed.

(* ---------- sweep 2: every (y mod 400, m, d) ---------- *)

Lemma triple_facts y m d : 0 <= y < 400 -> valid_date (y, m, d) ->
  civil_from_days (days_from_civil y m d) = (y, m, d) /\ days_from_civil y m d = days_of_civil (y, m, d).
Proof.
  intros Hy Hv.
  assert (Hd := dim_bounds y m). destruct Hv as [Hm Hdd].
  set (k := y * 372 + (m - 1) * 31 + (d - 1)).
  pose proof (all_below_spec 18 triple_check triple_sweep (Z.to_N k)) as H.
  assert (Hlt : (Z.to_N k < 2 ^ N.of_nat 18)%N) by (change (2 ^ N.of_nat 18)%N with 262144%N; unfold k; lia).
  specialize (H Hlt). unfold triple_check in H. rewrite Z2N.id in H by (unfold k; lia).
  assert (E1 : k / 372 = y) by (unfold k; lia).
  assert (E2 : (k mod 372) / 31 + 1 = m) by (unfold k; lia).
  assert (E3 : k mod 31 + 1 = d) by (unfold k; lia).
  cbv zeta in H. rewrite E1, E2, E3 in H.
  assert (Hvb : valid_dateb (y, m, d) = true) by (apply valid_dateb_spec; split; assumption).
  rewrite Hvb in H. replace (y <? 400) with true in H by lia. cbn [andb] in H.
  apply andb_true_iff in H. destruct H as [H1 H2].
  split; [apply date_eqb_eq; exact H1 | apply Z.eqb_eq; exact H2].
Qed.

(* ---------- lifted to all of Z ---------- *)

Lemma civil_from_days_core z :
  civil_from_days z = shift (400 * ((z + 719468) / 146097)) (civil_core 0 ((z + 719468) mod 146097)).
Proof. unfold civil_from_days. rewrite civil_from_z_core. apply civil_core_shift. Qed.

Theorem civil_epoch : civil_from_days 0 = (1970, 1, 1).
Proof. vm_compute. reflexivity. Qed.

Theorem civil_valid z : valid_date (civil_from_days z).
Proof.
  rewrite civil_from_days_core. apply valid_date_shift.
  apply era_facts. lia.
Qed.

Theorem civil_succ z : civil_from_days (z + 1) = next_day (civil_from_days z).
Proof.
  rewrite !civil_from_days_core.
  set (w := z + 719468). replace (z + 1 + 719468) with (w + 1) by (unfold w; lia).
  set (q := w / 146097). set (r := w mod 146097).
  assert (Hr : 0 <= r < 146097) by (unfold r; lia).
  destruct (era_facts r Hr) as (_ & _ & Hs & Hw).
  rewrite next_day_shift.
  destruct (Z.ltb_spec r 146096) as [Hlt|Hge].
  - replace ((w + 1) / 146097) with q by (unfold q, r in *; lia).
    replace ((w + 1) mod 146097) with (r + 1) by (unfold q, r in *; lia).
    rewrite (Hs Hlt). reflexivity.
  - assert (Er : r = 146096) by lia.
    replace ((w + 1) / 146097) with (q + 1) by (unfold q, r in *; lia).
    replace ((w + 1) mod 146097) with 0 by (unfold q, r in *; lia).
    rewrite <- (Hw Er).
    destruct (civil_core 0 0) as [[y m] d]. cbn [shift]. f_equal. f_equal. lia.
Qed.

Theorem days_of_civil_from_days z : let '(y, m, d) := civil_from_days z in days_from_civil y m d = z.
Proof.
  rewrite civil_from_days_core.
  set (w := z + 719468). set (q := w / 146097). set (r := w mod 146097).
  assert (Hr : 0 <= r < 146097) by (unfold r; lia).
  destruct (era_facts r Hr) as (_ & Hi & _).
  destruct (civil_core 0 r) as [[y m] d]. cbn [shift].
  replace (y + 400 * q) with (y + 400 * q) by reflexivity.
  rewrite days_from_civil_translate. unfold q, r, w in *. lia.
Qed.

Lemma valid_date_reduce y m d :
  valid_date (y, m, d) -> valid_date (y mod 400, m, d) /\ (y, m, d) = shift (400 * (y / 400)) (y mod 400, m, d).
Proof.
  intros Hv. split.
  - unfold valid_date in *. replace y with (y mod 400 + 400 * (y / 400)) in Hv by lia.
    rewrite dim_period in Hv. exact Hv.
  - cbn [shift]. f_equal. f_equal. lia.
Qed.

Theorem civil_of_days_from_civil y m d : valid_date (y, m, d) -> civil_from_days (days_from_civil y m d) = (y, m, d).
Proof.
  intros Hv. destruct (valid_date_reduce y m d Hv) as [Hv0 Hs].
  assert (Hy0 : 0 <= y mod 400 < 400) by lia.
  destruct (triple_facts _ m d Hy0 Hv0) as [H1 _].
  replace y with (y mod 400 + 400 * (y / 400)) at 1 by lia.
  rewrite days_from_civil_translate, civil_from_days_translate, H1. symmetry. exact Hs.
Qed.

(* the closed form of the specification is Hinnant's day count on every valid date *)
Theorem days_from_civil_spec y m d : valid_date (y, m, d) -> days_from_civil y m d = days_of_civil (y, m, d).
Proof.
  intros Hv. destruct (valid_date_reduce y m d Hv) as [Hv0 _].
  assert (Hy0 : 0 <= y mod 400 < 400) by lia.
  destruct (triple_facts _ m d Hy0 Hv0) as [_ H2].
  replace y with (y mod 400 + 400 * (y / 400)) by lia.
  rewrite days_from_civil_translate, days_of_civil_translate, H2. reflexivity.
Qed.

(* ---------- consequences for the specification ---------- *)

Theorem civil_is_calendar : is_calendar civil_from_days.
Proof. split; [exact civil_epoch|]. split; [exact civil_valid | exact civil_succ]. Qed.

Lemma next_day_inj a b : valid_date a -> valid_date b -> next_day a = next_day b -> a = b.
Proof.
  destruct a as [[y m] d], b as [[y' m'] d']. unfold valid_date, next_day. intros Ha Hb.
  pose proof (dim_bounds y m) as B1. pose proof (dim_bounds y' m') as B2.
  assert (K : forall a1 a2 a3 b1 b2 b3 : Z, (a1, a2, a3) = (b1, b2, b3) -> a1 = b1 /\ a2 = b2 /\ a3 = b3).
  { intros * E. inversion E. auto. }
  destruct (d <? dim y m) eqn:E1, (d' <? dim y' m') eqn:E2;
    try destruct (m <? 12) eqn:E3; try destruct (m' <? 12) eqn:E4; intros Heq; apply K in Heq;
    destruct Heq as (Q1 & Q2 & Q3); try lia;
    (assert (y = y') by lia; assert (m = m') by lia; subst y' m'; f_equal; lia).
Qed.

(* there is exactly one day numbering of the calendar *)
Theorem calendar_unique f g : is_calendar f -> is_calendar g -> forall z, f z = g z.
Proof.
  intros (F0 & Fv & Fs) (G0 & Gv & Gs).
  assert (Hpos : forall n : nat, f (Z.of_nat n) = g (Z.of_nat n)).
  { induction n as [|n IH]; [cbn; congruence|].
    rewrite Nat2Z.inj_succ. unfold Z.succ. rewrite Fs, Gs, IH. reflexivity. }
  assert (Hneg : forall n : nat, f (- Z.of_nat n) = g (- Z.of_nat n)).
  { induction n as [|n IH]; [cbn; congruence|].
    apply next_day_inj; [apply Fv | apply Gv |].
    rewrite <- Fs, <- Gs. replace (- Z.of_nat (S n) + 1) with (- Z.of_nat n) by lia. exact IH. }
  intros z. destruct (Z.le_gt_cases 0 z).
  - rewrite <- (Z2Nat.id z) by assumption. apply Hpos.
  - replace z with (- Z.of_nat (Z.to_nat (- z))) by lia. apply Hneg.
Qed.

(* days_of_civil inverts every calendar numbering *)
Theorem days_of_civil_inverse f : is_calendar f -> forall z, days_of_civil (f z) = z.
Proof.
  intros Hf z. rewrite (calendar_unique f civil_from_days Hf civil_is_calendar z).
  pose proof (days_of_civil_from_days z) as H. pose proof (civil_valid z) as Hv.
  destruct (civil_from_days z) as [[y m] d]. rewrite <- days_from_civil_spec by exact Hv. exact H.
Qed.

Lemma days_of_civil_inj a b : valid_date a -> valid_date b -> days_of_civil a = days_of_civil b -> a = b.
Proof.
  destruct a as [[y m] d], b as [[y' m'] d']. intros Ha Hb H.
  rewrite <- !days_from_civil_spec in H by assumption.
  rewrite <- (civil_of_days_from_civil y m d Ha), <- (civil_of_days_from_civil y' m' d' Hb), H. reflexivity.
Qed.
