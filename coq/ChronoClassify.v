(* ChronoClassify.v — C15, time points: on every text of the documented grammar
   ([+-]Y..Y-MM-DDThh:mm:ss[(.|,)f{1,9}]Z, ChronoSpec.tf_render / tf_wf) To(string) -> time_point returns
   exactly the classification of the specification: the count of the denoted instant (fraction rounded half
   to even) when it is representable, out_of_range otherwise. *)
From BS Require Import Base ChronoSpec ChronoModel ChronoArith ChronoDecimal ChronoSweep ChronoCalendar ChronoYear
  ChronoSafe ChronoSafeAdd ChronoText ChronoTp ChronoTpParse ChronoTpRt.
From Coq Require Import ZifyBool ZifyN ZifyNat.
Local Open Scope Z_scope.
Ltac Zify.zify_post_hook ::= Z.to_euclidean_division_equations.

(* ---------- ParseIsoUtc on a text of the grammar ---------- *)

Definition sign_chars (s : ysign) : list N := match s with YNone => [] | YPlus => [c_plus] | YMinus => [c_minus] end.

Lemma parse_year_grammar sg yd rest : all_digits yd = true -> yd <> [] ->
  let yv := match sg with YMinus => - dec_value yd | _ => dec_value yd end in
  parse_part I64 (sign_chars sg ++ yd ++ c_minus :: rest) None None (Some c_minus) true =
  if fits I64 yv then Ok (yv, rest) else Err OutOfRange.
Proof.
  intros Hd Hne yv. unfold parse_part.
  assert (Hnd : no_digit_head (c_minus :: rest)) by reflexivity.
  destruct sg; cbn [sign_chars app].
  - destruct (hd_digit yd (c_minus :: rest) Hd Hne) as (c & t & E & Hc). rewrite E, Hc. cbn [orb].
    replace (c =? c_plus)%N with false by (unfold is_digit, c_plus in *; lia). cbn [andb]. rewrite <- E.
    rewrite from_chars_numeral by assumption. unfold yv.
    destruct (fits I64 (dec_value yd)); [rewrite N.eqb_refl|]; reflexivity.
  - rewrite orb_true_r. rewrite N.eqb_refl. cbn [andb].
    rewrite from_chars_numeral by assumption. unfold yv.
    destruct (fits I64 (dec_value yd)); [rewrite N.eqb_refl|]; reflexivity.
  - rewrite orb_true_r. replace (c_minus =? c_plus)%N with false by reflexivity. cbn [andb].
    rewrite from_chars_minus; [| reflexivity | exact Hd | exact Hne | exact Hnd]. unfold yv.
    destruct (fits I64 (- dec_value yd)); [rewrite N.eqb_refl|]; reflexivity.
Qed.

Lemma two_digits_value ds : all_digits ds = true -> length ds = 2%nat -> 0 <= dec_value ds <= 99 /\ ds <> [].
Proof.
  intros Hd Hl. pose proof (dec_value_bound ds Hd) as H. rewrite Hl in H. change (p10 2) with 100 in H.
  split; [lia|]. destruct ds; [discriminate | discriminate].
Qed.

Definition tf_utc (f : tp_fields) : utc_parts :=
  mkUtc (tf_yearv f) (dec_value (tf_mo f)) (dec_value (tf_d f)) (dec_value (tf_h f)) (dec_value (tf_mi f)) (dec_value (tf_s f))
        (match tf_frac f with None => None | Some (_, ds) => Some (dec_value ds * 10 ^ (9 - Z.of_nat (length ds))) end).

Theorem parse_grammar f : tf_wf f ->
  parse_iso_utc (tf_render f) = if fits I64 (tf_yearv f) then Ok (tf_utc f) else Err OutOfRange.
Proof.
  intros [Hlex Hval].
  destruct Hlex as (Hyd & Hyl & Hmod & Hmol & Hdd & Hdl & Hhd & Hhl & Hmid & Hmil & Hsd & Hsl & Hfr).
  destruct Hval as ([Hmo Hd] & Hh & Hmi & Hs & Hns). cbn [tf_datetime dt_y dt_mo dt_d dt_h dt_mi dt_s] in *.
  assert (Hyne : tf_year f <> []).
  { destruct (tf_sign f), (tf_year f); cbn in Hyl; try lia; discriminate. }
  destruct (two_digits_value _ Hmod Hmol) as [Vmo Nmo]. destruct (two_digits_value _ Hdd Hdl) as [Vd Nd].
  destruct (two_digits_value _ Hhd Hhl) as [Vh Nh]. destruct (two_digits_value _ Hmid Hmil) as [Vmi Nmi].
  destruct (two_digits_value _ Hsd Hsl) as [Vs Ns].
  pose proof (dim_le_table (tf_yearv f) (dec_value (tf_mo f)) Hmo) as Htab.
  unfold parse_iso_utc, tf_render.
  change (match tf_sign f with YNone => [] | YPlus => [c_plus] | YMinus => [c_minus] end) with (sign_chars (tf_sign f)).
  rewrite <- ?app_assoc. cbn [app].
  rewrite (parse_year_grammar (tf_sign f) (tf_year f)) by assumption. cbv zeta. fold (tf_yearv f).
  destruct (fits I64 (tf_yearv f)) eqn:Efy; [|reflexivity].
  rewrite bind_ok.
  rewrite (parse_part_field (tf_mo f)); [| assumption | assumption | reflexivity | apply fits_I32; lia | lia].
  rewrite bind_ok.
  rewrite (parse_part_field (tf_d f)); [| assumption | assumption | reflexivity | apply fits_I32; lia | lia].
  rewrite bind_ok.
  rewrite leap_rem.
  assert (Hleap : (dec_value (tf_mo f) =? 2) && (dec_value (tf_d f) =? 29) && negb (leap (tf_yearv f)) = false).
  { destruct (Z.eqb_spec (dec_value (tf_mo f)) 2) as [E2|E2]; [|reflexivity].
    destruct (Z.eqb_spec (dec_value (tf_d f)) 29) as [E29|E29]; [|reflexivity].
    rewrite E2, E29 in Hd. unfold dim in Hd. cbn [Z.eqb Pos.eqb] in Hd. destruct (leap (tf_yearv f)); [reflexivity | lia]. }
  rewrite Hleap, bind_ok.
  rewrite (parse_part_field (tf_h f)); [| assumption | assumption | reflexivity | apply fits_I32; lia | lia].
  rewrite bind_ok.
  rewrite (parse_part_field (tf_mi f)); [| assumption | assumption | reflexivity | apply fits_I32; lia | lia].
  rewrite bind_ok.
  unfold tf_utc.
  destruct (tf_frac f) as [[sep ds]|].
  - destruct Hfr as (Hsep & Hfd & Hfl).
    rewrite (parse_part_last (tf_s f)); [| assumption | assumption | | apply fits_I32; lia | lia].
    2:{ cbn [app]. destruct Hsep as [-> | ->]; reflexivity. }
    rewrite bind_ok. cbn [app].
    replace ((sep =? c_dot)%N || (sep =? c_comma)%N) with true by (destruct Hsep as [-> | ->]; reflexivity).
    rewrite (fraction_exact ds [c_Z]); [| exact Hfd | reflexivity | exact Hfl].
    rewrite bind_ok. reflexivity.
  - rewrite (parse_part_last (tf_s f)); [| assumption | assumption | reflexivity | apply fits_I32; lia | lia].
    rewrite bind_ok. reflexivity.
Qed.

(* ---------- the calendar step for every 64-bit year ---------- *)

Lemma date_steps_low {A} y m d (K : Z -> outcome A) : y < -9223372036854775408 -> date_steps y m d K = Err OutOfRange.
Proof. intros Hy. unfold date_steps. change (tmin I64 + 400) with (-9223372036854775408). replace (y <? -9223372036854775408) with true by lia. reflexivity. Qed.

Lemma date_steps_full {A} y m d (K : Z -> outcome A) :
  -9223372036854775408 <= y <= 9223372036854775807 -> 1 <= m <= 12 -> 1 <= d <= 31 ->
  date_steps y m d K =
  if (days_from_civil y m d <? -9223372036854775808) || (9223372036854775807 <? days_from_civil y m d)
  then Err OutOfRange else K (days_from_civil y m d).
Proof.
  intros Hy Hm Hd.
  set (b := if m <=? 2 then 1 else 0). assert (Hb : 0 <= b <= 1) by (unfold b; destruct (m <=? 2); lia).
  set (y' := y - b). assert (Hy' : -9223372036854775409 <= y' <= 9223372036854775807) by (unfold y'; lia).
  assert (Hera : era_of_y y' = y' / 400) by apply era_of_y_div.
  assert (HDe : days_from_civil y m d = era_of_y y' * 146097 + (doe_of y' (era_of_y y') m d - 719468)) by reflexivity.
  set (era := era_of_y y') in *.
  set (yoe := y' - era * 400). assert (Hyoe : 0 <= yoe <= 399) by (unfold yoe; lia).
  set (mm := if 2 <? m then m - 3 else m + 9). assert (Hmm : 0 <= mm <= 11) by (unfold mm; destruct (2 <? m) eqn:E; lia).
  set (doe := yoe * 365 + yoe / 4 - yoe / 100 + ((153 * mm + 2) / 5 + d - 1)).
  assert (Hdoe : 0 <= doe <= 150000) by (unfold doe; lia).
  assert (Edoe : doe_of y' era m d = doe).
  { unfold doe_of. cbv zeta. fold yoe. fold mm. rewrite !Z.quot_div_nonneg by lia. unfold doe. lia. }
  rewrite Edoe in HDe. rewrite HDe.
  unfold date_steps. cbv zeta.
  change (tmin I64 + 400) with (-9223372036854775408). replace (y <? -9223372036854775408) with false by lia.
  fold b. rewrite arith_fits by fits_side. rewrite bind_ok. fold y'.
  rewrite (cast_fits U32 m) by fits_side. rewrite (cast_fits U32 d) by fits_side.
  assert (Eera : (yy <- (if 0 <=? y' then Ok y' else arith I64 (y' - 399)) ;; cdiv I64 yy 400) = Ok era).
  { unfold era, era_of_y, cdiv. change (400 =? 0) with false. cbv iota.
    destruct (0 <=? y') eqn:E; [|rewrite arith_fits by fits_side]; rewrite bind_ok, arith_fits by fits_side; reflexivity. }
  transitivity (era0 <- Ok era ;;
    e4 <- arith I64 (era0 * 400) ;;
    ye <- arith I64 (y' - e4) ;;
    let yoe := cast U32 ye in
    let mm := if 2 <? m then cast U32 (m - 3) else cast U32 (m + 9) in
    let doy := cast U32 (cast U32 (cast U32 (cast U32 (153 * mm) + 2) / 5 + d) - 1) in
    let doe := cast U32 (cast U32 (cast U32 (yoe * 365) + yoe / 4) - yoe / 100 + doy) in
    days_tail era0 doe K).
  { rewrite <- Eera. destruct (0 <=? y'); [reflexivity|]. destruct (arith I64 (y' - 399)); reflexivity. }
  rewrite bind_ok. cbv zeta.
  rewrite arith_fits by fits_side. rewrite bind_ok.
  rewrite arith_fits by fits_side. rewrite bind_ok. fold yoe.
  rewrite (cast_fits U32 yoe) by fits_side.
  assert (Emm : (if 2 <? m then cast U32 (m - 3) else cast U32 (m + 9)) = mm).
  { unfold mm. destruct (2 <? m) eqn:E; apply cast_fits; fits_side. }
  rewrite Emm.
  repeat match goal with |- context [cast U32 ?x] => rewrite (cast_fits U32 x) by fits_side end.
  fold doe.
  apply days_tail_spec; [unfold era; lia | lia].
Qed.

(* the earlier form of the statement (a flag for "beyond the upper end") *)
Lemma date_steps_spec {A} y m d (K : Z -> outcome A) :
  -9223372036854775408 <= y <= 9223372036854775807 -> 1 <= m <= 12 -> 1 <= d <= 31 ->
  exists G : bool, (G = true -> 9223372036854775807 < days_from_civil y m d) /\
    (G = false -> days_from_civil y m d <= 9223372036854775807) /\
    date_steps y m d K =
    if (days_from_civil y m d <? -9223372036854775808) || G then Err OutOfRange else K (days_from_civil y m d).
Proof.
  intros Hy Hm Hd. exists (9223372036854775807 <? days_from_civil y m d).
  split; [intros H; lia|]. split; [intros H; lia|]. apply date_steps_full; assumption.
Qed.

(* ---------- SafeAddDuration of seconds / days / a rounded fraction, completely ---------- *)

Definition cadd (R : ity) (x y : Z) : outcome Z := if fits R (x + y) then Ok (x + y) else Err OutOfRange.

(* c units of n seconds (n = 1 or 86400) into the time point: exact number of ticks that fits, or out_of_range *)
Definition add_units (P : prec) (R : ity) (tp n c : Z) : outcome Z :=
  if (c * (n * pden P)) mod pnum P =? 0 then
    (if fits I64 (c * (n * pden P) / pnum P) then cadd R tp (c * (n * pden P) / pnum P) else Err OutOfRange)
  else Err OutOfRange.

Lemma add_units_spec P R tp n c : c14_rep P R -> (n = 1 \/ n = 86400) ->
  fits R tp = true -> fits I64 c = true ->
  safe_add_tp (pty P R) tp (mkD I64 n 1) c = add_units P R tp n c.
Proof.
  intros HR Hn Htp Hc. unfold add_units, cadd.
  destruct (prec_facts P) as (Hpn & Hpd & _ & Hbn & Hbd & _).
  assert (HD : rep4 (d_rep (pty P R)) /\ wf_dty (pty P R)).
  { unfold pty, wf_dty, rep4. cbn [d_rep d_num d_den]. destruct HR as [-> | ->]; auto. }
  destruct HD as [HDr HDw].
  rewrite safe_add_tp_spec; try assumption; [| left; reflexivity].
  destruct (Z.eqb_spec c 0) as [E0|E0].
  { subst c. rewrite Z.mul_0_l, Z.mod_0_l, Z.div_0_l by lia. cbn [Z.eqb]. rewrite Z.add_0_r, Htp. reflexivity. }
  rewrite (op_dty_signed P R (mkD I64 n 1) HR ltac:(left; reflexivity)).
  set (x := c * (n * pden P)).
  pose proof (Z.div_mod x (pnum P) ltac:(lia)) as Hdm. pose proof (Z.mod_pos_bound x (pnum P) Hpn) as Hmb.
  destruct (Z.eqb_spec (x mod pnum P) 0) as [Em|Em].
  - destruct (fits I64 (x / pnum P)) eqn:Ef.
    + rewrite (cast_into_prec P n c (x / pnum P) Hn Hc Ef ltac:(unfold x in *; lia)).
      cbn [as_out_of_range bind pty d_rep]. reflexivity.
    + assert (Er : safe_cast (mkD I64 n 1) (mkD I64 (pnum P) (pden P)) c = Err OutOfRange).
      { apply safe_cast_reject; cbn [d_rep d_num d_den].
        - right. right. left. reflexivity.
        - right. right. left. reflexivity.
        - split; cbn; destruct Hn; lia.
        - split; cbn; assumption.
        - destruct Hn; subst n; lia.
        - lia.
        - exact Hc.
        - apply simple_ratio_prec; exact Hn.
        - intros v Hv Hx. unfold exact_cast in Hx. cbn [d_num d_den] in Hx.
          assert (v = x / pnum P) by (unfold x in *; nia). subst v. congruence. }
      rewrite Er. reflexivity.
  - assert (Er : safe_cast (mkD I64 n 1) (mkD I64 (pnum P) (pden P)) c = Err OutOfRange).
    { apply safe_cast_reject; cbn [d_rep d_num d_den].
      - right. right. left. reflexivity.
      - right. right. left. reflexivity.
      - split; cbn; destruct Hn; lia.
      - split; cbn; assumption.
      - destruct Hn; subst n; lia.
      - lia.
      - exact Hc.
      - apply simple_ratio_prec; exact Hn.
      - intros v Hv Hx. unfold exact_cast in Hx. cbn [d_num d_den] in Hx. apply Em.
        replace x with (v * pnum P) by (unfold x; lia). apply Z.mod_mul. lia. }
    rewrite Er. reflexivity.
Qed.

Lemma add_frac_spec P R tp r : c14_rep P R -> fits R tp = true -> fits R r = true ->
  safe_add_tp (pty P R) tp (pty P R) r = cadd R tp r.
Proof.
  intros HR Htp Hr. unfold cadd.
  destruct (fits R (tp + r)) eqn:Ef; [apply add_frac; assumption|].
  destruct (prec_facts P) as (Hpn & Hpd & _).
  assert (HD : rep4 (d_rep (pty P R)) /\ wf_dty (pty P R)).
  { unfold pty, wf_dty, rep4. cbn [d_rep d_num d_den]. destruct HR as [-> | ->]; auto. }
  destruct HD as [HDr HDw].
  rewrite safe_add_tp_spec; try assumption; [| right; reflexivity].
  destruct (Z.eqb_spec r 0) as [E0|E0]; [subst r; rewrite Z.add_0_r in Ef; congruence|].
  destruct (safe_cast (pty P R) (op_dty (pty P R) (pty P R)) r) as [a| | |] eqn:Ea.
  - (* the cast of r is r *)
    assert (a = r).
    { destruct HR as [-> | ->].
      - change (op_dty (pty P I64) (pty P I64)) with (pty P I64) in Ea. rewrite safe_cast_same in Ea. congruence.
      - assert (Ecast : safe_cast (pty P I32) (op_dty (pty P I32) (pty P I32)) r = Ok r).
        { apply safe_cast_complete; cbn [op_dty op_rep pty d_rep d_num d_den].
          + right. left. reflexivity.
          + right. right. left. reflexivity.
          + split; cbn; lia.
          + split; cbn; lia.
          + destruct (prec_facts P) as (_ & _ & _ & ? & ? & _). nia.
          + destruct (prec_facts P) as (_ & _ & _ & ? & ? & _). nia.
          + exact Hr.
          + unfold simple_ratio. rewrite (ratio_div_self (mkD I32 (pnum P) (pden P))); [left; reflexivity | split; cbn; lia | reflexivity | reflexivity].
          + apply fits_I32 in Hr. apply fits_I64. lia.
          + unfold exact_cast, op_dty, pty. cbn [d_num d_den]. ring. }
        congruence. }
    subst a. cbn [as_out_of_range bind pty d_rep]. rewrite Ef. reflexivity.
  - reflexivity.
  - exfalso. destruct HR as [-> | ->].
    + change (op_dty (pty P I64) (pty P I64)) with (pty P I64) in Ea. rewrite safe_cast_same in Ea. discriminate.
    + pose proof (safe_cast_correct (pty P I32) (op_dty (pty P I32) (pty P I32)) r) as H.
      unfold cast_spec in H. rewrite Ea in H. apply H; cbn [op_dty op_rep pty d_rep d_num d_den].
      * right. left. reflexivity.
      * right. right. left. reflexivity.
      * split; cbn; lia.
      * split; cbn; lia.
      * destruct (prec_facts P) as (_ & _ & _ & ? & ? & _). nia.
      * destruct (prec_facts P) as (_ & _ & _ & ? & ? & _). nia.
      * exact Hr.
      * unfold simple_ratio. rewrite (ratio_div_self (mkD I32 (pnum P) (pden P))); [left; reflexivity | split; cbn; lia | reflexivity | reflexivity].
  - exfalso. destruct HR as [-> | ->].
    + change (op_dty (pty P I64) (pty P I64)) with (pty P I64) in Ea. rewrite safe_cast_same in Ea. discriminate.
    + pose proof (safe_cast_correct (pty P I32) (op_dty (pty P I32) (pty P I32)) r) as H.
      unfold cast_spec in H. rewrite Ea in H. apply H; cbn [op_dty op_rep pty d_rep d_num d_den].
      * right. left. reflexivity.
      * right. right. left. reflexivity.
      * split; cbn; lia.
      * split; cbn; lia.
      * destruct (prec_facts P) as (_ & _ & _ & ? & ? & _). nia.
      * destruct (prec_facts P) as (_ & _ & _ & ? & ? & _). nia.
      * exact Hr.
      * unfold simple_ratio. rewrite (ratio_div_self (mkD I32 (pnum P) (pden P))); [left; reflexivity | split; cbn; lia | reflexivity | reflexivity].
Qed.
