(* ChronoClassify2.v — the three SafeAddDuration steps of To(string) -> time_point as one exact-or-out_of_range
   computation, and its agreement with the specification's count_of. *)
From BS Require Import Base ChronoSpec ChronoModel ChronoArith ChronoDecimal ChronoSweep ChronoCalendar ChronoYear
  ChronoSafe ChronoSafeAdd ChronoText ChronoTp ChronoTpParse ChronoTpRt ChronoClassify.
From Coq Require Import ZifyBool ZifyN ZifyNat.
Local Open Scope Z_scope.
Ltac Zify.zify_post_hook ::= Z.to_euclidean_division_equations.

Definition tp_chain (P : prec) (R : ity) (D sec r : Z) : outcome Z :=
  if 0 <=? D then
    v1 <- add_units P R 0 1 sec ;; v2 <- cadd R v1 r ;; add_units P R v2 86400 D
  else
    v1 <- add_units P R 0 86400 (D + 1) ;; v2 <- cadd R v1 r ;; add_units P R v2 1 (sec - 86400).

(* the specification's value: whole seconds exactly, plus the rounded fraction *)
Definition tp_value (P : prec) (R : ity) (D sec r : Z) : outcome Z :=
  if ((D * 86400 + sec) * pden P) mod pnum P =? 0 then
    (if fits R ((D * 86400 + sec) * pden P / pnum P + r) then Ok ((D * 86400 + sec) * pden P / pnum P + r) else Err OutOfRange)
  else Err OutOfRange.

Ltac split_ifs :=
  repeat match goal with
         | |- context [if ?b then _ else _] => destruct b eqn:?
         end.

Lemma tp_chain_value P R D sec r : c14_rep P R ->
  -9223372036854775808 <= D <= 9223372036854775807 -> 0 <= sec < 86400 ->
  0 <= r <= pden P -> (1 < pnum P -> r = 0) ->
  tp_chain P R D sec r = tp_value P R D sec r.
Proof.
  intros HR HD Hsec Hr Hr0.
  unfold tp_chain, tp_value, add_units, cadd.
  destruct P; cbn [pnum pden] in *; rewrite ?Z.mul_1_r, ?Z.div_1_r, ?Z.mod_1_r; cbn [Z.eqb];
    try (assert (r = 0) by (apply Hr0; lia); subst r);
    destruct HR as [-> | ->]; unfold fits, tmin, tmax, half, modulus; cbn [is_signed];
    split_ifs; repeat (progress (cbn [bind]; split_ifs)); try reflexivity; try (f_equal; lia); try (exfalso; lia).
Qed.

Lemma cadd_fits R x y v : cadd R x y = Ok v -> fits R v = true.
Proof. unfold cadd. destruct (fits R (x + y)) eqn:E; intros H; inversion H; subst; exact E. Qed.

Lemma add_units_fits P R tp n c v : add_units P R tp n c = Ok v -> fits R v = true.
Proof.
  unfold add_units. destruct (_ =? 0); [|discriminate]. destruct (fits I64 _); [|discriminate]. apply cadd_fits.
Qed.

Definition utc_fns (u : utc_parts) : Z := match u_frac u with Some ns => ns | None => 0 end.

Lemma rhe_bounds P fns : 0 <= fns <= 999999999 ->
  0 <= round_half_even fns (tick_ns P) <= pden P /\ (1 < pnum P -> round_half_even fns (tick_ns P) = 0).
Proof.
  intros H. unfold round_half_even. cbv zeta.
  destruct P; cbn [tick_ns pnum pden]; rewrite ?Z.div_1_r, ?Z.mod_1_r; split_ifs; lia.
Qed.

