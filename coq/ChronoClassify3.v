(* ChronoClassify3.v — T_C15_tp_classify on the documented grammar: To(string) -> time_point returns the
   count the text denotes (fraction rounded half to even) when it is representable, out_of_range otherwise. *)
From BS Require Import Base ChronoSpec ChronoModel ChronoArith ChronoDecimal ChronoSweep ChronoCalendar ChronoYear
  ChronoSafe ChronoSafeAdd ChronoText ChronoTp ChronoTpParse ChronoTpRt ChronoClassify ChronoClassify2.
From Coq Require Import ZifyBool ZifyN ZifyNat.
Local Open Scope Z_scope.
Ltac Zify.zify_post_hook ::= Z.to_euclidean_division_equations.

(* To(string) -> time_point after ParseIsoUtc, on fields in range *)
Lemma tp_of_parts_chain P R u : c14_rep P R ->
  -9223372036854775408 <= u_year u <= 9223372036854775807 -> 1 <= u_mo u <= 12 -> 1 <= u_day u <= 31 ->
  0 <= u_hour u <= 23 -> 0 <= u_min u <= 59 -> 0 <= u_sec u <= 59 -> 0 <= utc_fns u <= 999999999 ->
  let D := days_from_civil (u_year u) (u_mo u) (u_day u) in
  let sec := u_hour u * 3600 + u_min u * 60 + u_sec u in
  exists G : bool, (G = true -> 9223372036854775807 < D) /\ (G = false -> D <= 9223372036854775807) /\
    tp_of_parts P R u =
    if (D <? -9223372036854775808) || G then Err OutOfRange
    else tp_chain P R D sec (round_half_even (utc_fns u) (tick_ns P)).
Proof.
  intros HR Hy Hm Hd Hh Hmi Hs Hns D sec.
  rewrite tp_of_parts_unfold.
  match goal with |- context [date_steps _ _ _ ?K] => destruct (date_steps_spec (u_year u) (u_mo u) (u_day u) K Hy Hm Hd) as (G & HG & HG' & E) end.
  exists G. split; [exact HG|]. split; [exact HG'|]. rewrite E. fold D.
  destruct ((D <? -9223372036854775808) || G) eqn:Eg; [reflexivity|].
  apply orb_false_iff in Eg. destruct Eg as [Eg1 Eg2]. specialize (HG' Eg2). fold D in HG'.
  assert (HDr : -9223372036854775808 <= D <= 9223372036854775807) by lia.
  clear E HG HG' Eg1 Eg2 G. cbv zeta.
  rewrite (arith_fits I64 (u_hour u * 3600)) by fits_side. rewrite bind_ok.
  rewrite (arith_fits I64 (u_min u * 60)) by fits_side. rewrite bind_ok.
  rewrite arith_fits by fits_side. rewrite bind_ok.
  rewrite arith_fits by fits_side. rewrite bind_ok. fold sec.
  assert (Hsec : 0 <= sec < 86400) by (unfold sec; lia).
  destruct (rhe_bounds P (utc_fns u) Hns) as [Hrb Hr0].
  set (r := round_half_even (utc_fns u) (tick_ns P)) in *.
  assert (Hfr : fits R r = true).
  { apply fits_iff. destruct (prec_facts P) as (_ & _ & _ & _ & Hbd & _).
    destruct HR as [-> | ->]; unfold tmin, tmax, half; cbn [is_signed]; lia. }
  assert (Hf0 : fits R 0 = true) by (destruct HR as [-> | ->]; reflexivity).
  (* the fraction step *)
  assert (Sfrac : forall tp, fits R tp = true ->
     (match u_frac u with
      | Some ns => r0 <- dround NsT (pty P R) ns ;; safe_add_tp (pty P R) tp (pty P R) r0
      | None => Ok tp
      end) = cadd R tp r).
  { intros tp Htp. unfold utc_fns in *. destruct (u_frac u) as [ns|].
    - rewrite dround_ns by (try exact HR; lia). rewrite bind_ok. fold r. apply add_frac_spec; assumption.
    - unfold cadd. assert (r = 0) by (unfold r, round_half_even; cbv zeta; rewrite Z.div_0_l, Z.mod_0_l by (destruct P; cbn; lia);
        destruct P; cbn [tick_ns]; reflexivity).
      rewrite H, Z.add_0_r, Htp. reflexivity. }
  unfold tp_chain. change SecT with (mkD I64 1 1).
  destruct (0 <=? D) eqn:ED.
  - rewrite (add_units_spec P R 0 1 sec HR (or_introl eq_refl) Hf0 ltac:(apply fits_I64; lia)).
    destruct (add_units P R 0 1 sec) as [v1| | |] eqn:E1; cbn [bind]; try reflexivity.
    rewrite Sfrac by (apply (add_units_fits _ _ _ _ _ _ E1)).
    destruct (cadd R v1 r) as [v2| | |] eqn:E2; cbn [bind]; try reflexivity.
    rewrite (add_units_spec P R v2 86400 D HR (or_intror eq_refl) (cadd_fits _ _ _ _ E2) ltac:(apply fits_I64; lia)).
    reflexivity.
  - rewrite arith_fits by fits_side. rewrite bind_ok.
    rewrite (add_units_spec P R 0 86400 (D + 1) HR (or_intror eq_refl) Hf0 ltac:(apply fits_I64; lia)).
    destruct (add_units P R 0 86400 (D + 1)) as [v1| | |] eqn:E1; cbn [bind]; try reflexivity.
    rewrite Sfrac by (apply (add_units_fits _ _ _ _ _ _ E1)).
    destruct (cadd R v1 r) as [v2| | |] eqn:E2; cbn [bind]; try reflexivity.
    rewrite arith_fits by fits_side. rewrite bind_ok.
    rewrite (add_units_spec P R v2 1 (sec - 86400) HR (or_introl eq_refl) (cadd_fits _ _ _ _ E2) ltac:(apply fits_I64; lia)).
    reflexivity.
Qed.

(* ---------- the specification's classification ---------- *)

Definition tf_secs (f : tp_fields) : Z :=
  let x := tf_datetime f in
  days_of_civil (dt_y x, dt_mo x, dt_d x) * 86400 + dt_h x * 3600 + dt_mi x * 60 + dt_s x.

(* what the property demands for a text of the grammar: the count of the denoted instant (only the fraction of
   a second rounded, half to even) if it exists and is representable, out_of_range otherwise *)
Definition tp_expected (P : prec) (R : ity) (f : tp_fields) : outcome Z :=
  match count_of P (tf_secs f) (tf_frac_ns f) with
  | Some t => if fits R t then Ok t else Err OutOfRange
  | None => Err OutOfRange
  end.

Definition is_days (P : prec) : bool := match P with Pd => true | _ => false end.
Definition is_i64 (R : ity) : bool := match R with I64 => true | _ => false end.

Lemma value_count P R D sec fns : 
  tp_value P R D sec (round_half_even fns (tick_ns P)) =
  match count_of P (D * 86400 + sec) fns with
  | Some t => if fits R t then Ok t else Err OutOfRange
  | None => Err OutOfRange
  end.
Proof.
  unfold tp_value, count_of.
  destruct P; cbn [tick_ns pnum pden]; rewrite ?Z.mul_1_r, ?Z.div_1_r, ?Z.mod_1_r; cbn [Z.leb Z.compare Pos.compare Pos.compare_cont Z.eqb Z.div Z.div_eucl];
    try reflexivity.
  all: set (x := D * 86400 + sec); set (rr := round_half_even fns _).
  - replace (x * 1000000000 / 1000000000) with x by (symmetry; apply Z.div_mul; lia).
    replace (x * 1000000000 mod 1000000000) with 0 by (symmetry; apply Z.mod_mul; lia). reflexivity.
  - replace (x * 1000000000 mod 60000000000 =? 0) with (x mod 60 =? 0) by lia.
    destruct (x mod 60 =? 0) eqn:E; [|reflexivity]. replace (x * 1000000000 / 60000000000) with (x / 60) by lia. reflexivity.
  - replace (x * 1000000000 mod 3600000000000 =? 0) with (x mod 3600 =? 0) by lia.
    destruct (x mod 3600 =? 0) eqn:E; [|reflexivity]. replace (x * 1000000000 / 3600000000000) with (x / 3600) by lia. reflexivity.
  - replace (x * 1000000000 mod 86400000000000 =? 0) with (x mod 86400 =? 0) by lia.
    destruct (x mod 86400 =? 0) eqn:E; [|reflexivity]. replace (x * 1000000000 / 86400000000000) with (x / 86400) by lia. reflexivity.
Qed.

(* day numbers outside int64, or in the last 719468 days for any type but time_point<days,int64>: not representable *)
Lemma value_oor P R D sec r : c14_rep P R -> 0 <= sec < 86400 -> 0 <= r <= pden P -> (1 < pnum P -> r = 0) ->
  (D < -9223372036854775808 \/ 9223372036854775807 < D \/
   (9223372036854775807 - 719468 < D /\ is_days P && is_i64 R = false)) ->
  tp_value P R D sec r = Err OutOfRange.
Proof.
  intros HR Hsec Hr Hr0 HD. unfold tp_value.
  destruct P; cbn [pnum pden is_days] in *; rewrite ?Z.mul_1_r, ?Z.div_1_r, ?Z.mod_1_r; cbn [Z.eqb];
    try (assert (r = 0) by (apply Hr0; lia); subst r);
    destruct HR as [-> | ->]; cbn [is_i64 andb] in HD; unfold fits, tmin, tmax, half, modulus; cbn [is_signed];
    split_ifs; try reflexivity; exfalso; lia.
Qed.

Lemma tp_of_parts_low P R u : u_year u < -9223372036854775408 -> tp_of_parts P R u = Err OutOfRange.
Proof. intros H. rewrite tp_of_parts_unfold. apply date_steps_low. exact H. Qed.

Theorem tp_classify_grammar P R f : c14_rep P R -> tf_wf f ->
  tp_parse P R (tf_render f) = tp_expected P R f.
Proof.
  intros HR Hwf. pose proof Hwf as [Hlex Hval].
  destruct Hval as (Hdate & Hh & Hmi & Hs & Hns).
  unfold tp_parse. rewrite (parse_grammar f Hwf).
  unfold tp_expected, tf_secs in *. cbv zeta in *.
  cbn [tf_datetime dt_y dt_mo dt_d dt_h dt_mi dt_s dt_ns] in *.
  set (y := tf_yearv f) in *. set (mo := dec_value (tf_mo f)) in *. set (d := dec_value (tf_d f)) in *.
  set (h := dec_value (tf_h f)) in *. set (mi := dec_value (tf_mi f)) in *. set (s := dec_value (tf_s f)) in *.
  set (fns := tf_frac_ns f) in *.
  set (D := days_of_civil (y, mo, d)) in *.
  set (sec := h * 3600 + mi * 60 + s).
  replace (D * 86400 + h * 3600 + mi * 60 + s) with (D * 86400 + sec) by (unfold sec; ring).
  rewrite <- (value_count P R D sec fns).
  assert (Hsec : 0 <= sec < 86400) by (unfold sec; lia).
  destruct (rhe_bounds P fns Hns) as [Hrb Hr0].
  pose proof (year_linear y mo d Hdate) as Hlin. cbv zeta in Hlin. fold D in Hlin.
  assert (EDm : days_from_civil y mo d = D) by (apply days_from_civil_spec; exact Hdate).
  destruct Hdate as [Hmo Hd]. pose proof (dim_bounds y mo) as Hdim.
  destruct (fits I64 y) eqn:Efy.
  - apply fits_I64 in Efy. rewrite bind_ok.
    destruct (Z.ltb_spec y (-9223372036854775408)) as [Hlow|Hlow].
    + rewrite tp_of_parts_low by (cbn [tf_utc u_year]; exact Hlow).
      symmetry. apply value_oor; try assumption. left. lia.
    + assert (Efns : utc_fns (tf_utc f) = fns).
      { unfold utc_fns, tf_utc, fns, tf_frac_ns. cbn [u_frac]. destruct (tf_frac f) as [[sep ds]|]; reflexivity. }
      destruct (tp_of_parts_chain P R (tf_utc f) HR) as (G & HG & HG' & E);
        [cbn [tf_utc u_year]; fold y; lia | cbn [tf_utc u_mo]; fold mo; lia | cbn [tf_utc u_day]; fold d; lia
        | cbn [tf_utc u_hour]; fold h; lia | cbn [tf_utc u_min]; fold mi; lia | cbn [tf_utc u_sec]; fold s; lia
        | rewrite Efns; exact Hns |].
      cbv zeta in HG, HG', E. cbn [tf_utc u_year u_mo u_day u_hour u_min u_sec] in HG, HG', E. fold y mo d h mi s in HG, HG', E.
      rewrite EDm in HG, HG', E. fold sec in E. rewrite Efns in E. rewrite E.
      destruct (Z.ltb_spec D (-9223372036854775808)) as [Hdl|Hdl]; cbn [orb].
      * symmetry. apply value_oor; try assumption. left. exact Hdl.
      * destruct G eqn:EG.
        -- specialize (HG eq_refl). symmetry. apply value_oor; try assumption. right. left. exact HG.
        -- specialize (HG' eq_refl). apply tp_chain_value; try assumption. lia.
  - symmetry. apply value_oor; try assumption.
    apply Bool.not_true_iff_false in Efy. rewrite fits_I64 in Efy. lia.
Qed.
