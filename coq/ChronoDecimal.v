(* ChronoDecimal.v — decimal notation: the numeral function [dec] of the specification against its
   defining valuation [dec_value] (Horner), zero padding, uniqueness of fixed-width numerals, and the
   model's digit scanner (std::from_chars) on numerals. *)
From BS Require Import Base ChronoSpec ChronoModel.
From Coq Require Import ZifyBool ZifyN ZifyNat.
Local Open Scope Z_scope.
Ltac Zify.zify_post_hook ::= Z.to_euclidean_division_equations.

Definition p10 (n : nat) : Z := 10 ^ Z.of_nat n.

Lemma p10_0 : p10 0 = 1. Proof. reflexivity. Qed.
Lemma p10_S n : p10 (S n) = 10 * p10 n.
Proof. unfold p10. rewrite Nat2Z.inj_succ, Z.pow_succ_r by lia. reflexivity. Qed.
Lemma p10_pos n : 0 < p10 n.
Proof. unfold p10. apply Z.pow_pos_nonneg; lia. Qed.
Lemma p10_add a b : p10 (a + b) = p10 a * p10 b.
Proof. unfold p10. rewrite Nat2Z.inj_add, Z.pow_add_r by lia. reflexivity. Qed.
Lemma p10_mono a b : (a <= b)%nat -> p10 a <= p10 b.
Proof. intros H. unfold p10. apply Z.pow_le_mono_r; lia. Qed.

(* ---------- digits ---------- *)

Lemma is_digit_val c : is_digit c = true -> 0 <= digit_val c <= 9.
Proof. unfold is_digit, digit_val. lia. Qed.

Lemma digit_char_ok d : 0 <= d <= 9 -> is_digit (digit_char d) = true /\ digit_val (digit_char d) = d.
Proof. unfold is_digit, digit_val, digit_char, ch0. lia. Qed.

Lemma digit_val_inj a b : is_digit a = true -> is_digit b = true -> digit_val a = digit_val b -> a = b.
Proof. unfold is_digit, digit_val. lia. Qed.

Lemma ch0_digit : is_digit ch0 = true /\ digit_val ch0 = 0.
Proof. split; reflexivity. Qed.

(* ---------- the valuation ---------- *)

Lemma fold_value l : forall a, fold_left (fun acc c => acc * 10 + digit_val c) l a = a * p10 (length l) + dec_value l.
Proof.
  unfold dec_value. induction l as [|c l IH]; intros a.
  - cbn [fold_left length]. rewrite p10_0. lia.
  - cbn [fold_left length]. rewrite IH, (IH (0 * 10 + digit_val c)), p10_S. lia.
Qed.

Lemma dec_value_nil : dec_value [] = 0. Proof. reflexivity. Qed.

Lemma dec_value_cons c l : dec_value (c :: l) = digit_val c * p10 (length l) + dec_value l.
Proof. unfold dec_value at 1. cbn [fold_left]. rewrite fold_value. lia. Qed.

Lemma dec_value_app a b : dec_value (a ++ b) = dec_value a * p10 (length b) + dec_value b.
Proof.
  unfold dec_value at 1. rewrite fold_left_app. fold (dec_value a). apply fold_value.
Qed.

Lemma all_digits_cons c l : all_digits (c :: l) = is_digit c && all_digits l.
Proof. reflexivity. Qed.
Lemma all_digits_nil : all_digits [] = true.
Proof. reflexivity. Qed.

Lemma all_digits_app a b : all_digits (a ++ b) = all_digits a && all_digits b.
Proof. unfold all_digits. apply forallb_app. Qed.

Lemma dec_value_bound l : all_digits l = true -> 0 <= dec_value l < p10 (length l).
Proof.
  induction l as [|c l IH]; intros H.
  - cbn [length]. rewrite p10_0, dec_value_nil. lia.
  - rewrite all_digits_cons in H. apply andb_true_iff in H. destruct H as [Hc Hl].
    rewrite dec_value_cons. cbn [length]. rewrite p10_S.
    pose proof (is_digit_val c Hc). specialize (IH Hl). pose proof (p10_pos (length l)). nia.
Qed.

(* fixed-width numerals are unique *)
Lemma numeral_unique a : forall b, all_digits a = true -> all_digits b = true -> length a = length b ->
  dec_value a = dec_value b -> a = b.
Proof.
  induction a as [|x a IH]; intros [|y b] Ha Hb Hl Hv; try discriminate; [reflexivity|].
  rewrite all_digits_cons in Ha, Hb. apply andb_true_iff in Ha, Hb. destruct Ha as [Hx Ha], Hb as [Hy Hb].
  cbn in Hl. injection Hl as Hl.
  rewrite !dec_value_cons, Hl in Hv.
  pose proof (dec_value_bound a Ha) as Ba. pose proof (dec_value_bound b Hb) as Bb. rewrite Hl in Ba.
  pose proof (is_digit_val x Hx). pose proof (is_digit_val y Hy). pose proof (p10_pos (length b)).
  assert (digit_val x = digit_val y) by nia.
  assert (dec_value a = dec_value b) by nia.
  f_equal; [apply digit_val_inj; assumption | apply IH; assumption].
Qed.

(* ---------- the numeral function ---------- *)

Lemma dec_aux_spec steps : forall n acc, 0 <= n < p10 steps -> (1 <= steps)%nat ->
  exists ds, dec_aux steps n acc = ds ++ acc /\ all_digits ds = true /\ dec_value ds = n /\
             (1 <= length ds <= steps)%nat /\ n < p10 (length ds) /\ (length ds = 1%nat \/ p10 (length ds - 1) <= n).
Proof.
  induction steps as [|k IH]; intros n acc Hn Hs; [lia|].
  cbn [dec_aux]. pose proof (Z_div_mod n 10 ltac:(lia)) as Hdm.
  destruct (Z.div_eucl n 10) as [q r]. destruct Hdm as [Hnq Hr].
  destruct (digit_char_ok r ltac:(lia)) as [Hd Hv].
  destruct (Z.eqb_spec q 0) as [Hq0|Hq0].
  - exists [digit_char r]. split; [reflexivity|]. split; [rewrite all_digits_cons, Hd; reflexivity|].
    split; [rewrite dec_value_cons, dec_value_nil, Hv; cbn [length]; rewrite p10_0; lia|].
    cbn [length]. split; [lia|]. split; [change (p10 1) with 10; lia | left; reflexivity].
  - rewrite p10_S in Hn.
    assert (Hq : 0 <= q < p10 k) by lia.
    assert (Hk : (1 <= k)%nat).
    { destruct k; [rewrite p10_0 in Hq; lia | lia]. }
    destruct (IH q (digit_char r :: acc) Hq Hk) as (ds & E & Hds & Hval & Hlen & Hup & Hlo).
    exists (ds ++ [digit_char r]). rewrite E, <- app_assoc. split; [reflexivity|].
    split; [rewrite all_digits_app, Hds, all_digits_cons, Hd; reflexivity|].
    split; [rewrite dec_value_app, Hval, dec_value_cons, dec_value_nil, Hv; cbn [length]; rewrite p10_0; change (p10 1) with 10; lia|].
    rewrite app_length. cbn [length].
    split; [lia|].
    replace (length ds + 1)%nat with (S (length ds)) by lia. rewrite p10_S.
    split; [lia|]. right.
    replace (S (length ds) - 1)%nat with (length ds) by lia.
    destruct Hlo as [L1|L2].
    + rewrite L1. change (p10 1) with 10. lia.
    + replace (length ds) with (S (length ds - 1)) by lia. rewrite p10_S. lia.
Qed.

Lemma dec_spec n : 0 <= n < p10 20 ->
  all_digits (dec n) = true /\ dec_value (dec n) = n /\ (1 <= length (dec n) <= 20)%nat /\
  n < p10 (length (dec n)) /\ (length (dec n) = 1%nat \/ p10 (length (dec n) - 1) <= n).
Proof.
  intros Hn. destruct (dec_aux_spec 20 n [] Hn ltac:(lia)) as (ds & E & H).
  unfold dec. rewrite E, app_nil_r. exact H.
Qed.

(* length of the numeral from bounds on the number *)
Lemma dec_length_le n k : 0 <= n < p10 k -> (1 <= k <= 20)%nat -> (length (dec n) <= k)%nat.
Proof.
  intros Hn Hk.
  assert (Hn20 : 0 <= n < p10 20) by (pose proof (p10_mono k 20 ltac:(lia)); lia).
  destruct (dec_spec n Hn20) as (_ & _ & Hl & _ & [L1|L2]); [lia|].
  destruct (Nat.le_gt_cases (length (dec n)) k) as [|Hgt]; [assumption|].
  pose proof (p10_mono k (length (dec n) - 1) ltac:(lia)). lia.
Qed.

Lemma dec_length_ge n k : p10 k <= n < p10 20 -> (k < length (dec n))%nat.
Proof.
  intros Hn. pose proof (p10_pos k).
  destruct (dec_spec n ltac:(lia)) as (_ & _ & Hl & Hup & _).
  destruct (Nat.le_gt_cases (length (dec n)) k) as [Hle|]; [|assumption].
  pose proof (p10_mono _ _ Hle). lia.
Qed.

(* ---------- zero padding ---------- *)

Lemma all_digits_repeat0 k : all_digits (repeat ch0 k) = true.
Proof. induction k; cbn [repeat]; [reflexivity | rewrite all_digits_cons, IHk; reflexivity]. Qed.

Lemma dec_value_repeat0 k : dec_value (repeat ch0 k) = 0.
Proof.
  induction k as [|k IH]; [reflexivity|]. cbn [repeat]. rewrite dec_value_cons, IH.
  destruct ch0_digit as [_ E]. rewrite E. lia.
Qed.

Lemma pad0_digits w l : all_digits l = true -> all_digits (pad0 w l) = true.
Proof. intros H. unfold pad0. rewrite all_digits_app, all_digits_repeat0, H. reflexivity. Qed.

Lemma pad0_value w l : dec_value (pad0 w l) = dec_value l.
Proof. unfold pad0. rewrite dec_value_app, dec_value_repeat0. lia. Qed.

Lemma pad0_length w l : length (pad0 w l) = Nat.max w (length l).
Proof. unfold pad0. rewrite app_length, repeat_length. lia. Qed.

Lemma pad0_noop w l : (w <= length l)%nat -> pad0 w l = l.
Proof. intros H. unfold pad0. replace (w - length l)%nat with 0%nat by lia. reflexivity. Qed.

(* the w-digit numeral of n < 10^w *)
Lemma padded_numeral w n : 0 <= n < p10 w -> (1 <= w <= 20)%nat ->
  all_digits (pad0 w (dec n)) = true /\ dec_value (pad0 w (dec n)) = n /\ length (pad0 w (dec n)) = w.
Proof.
  intros Hn Hw.
  assert (Hn20 : 0 <= n < p10 20) by (pose proof (p10_mono w 20 ltac:(lia)); lia).
  destruct (dec_spec n Hn20) as (Hd & Hv & _).
  split; [apply pad0_digits; exact Hd|]. split; [rewrite pad0_value; exact Hv|].
  rewrite pad0_length. pose proof (dec_length_le n w Hn Hw). lia.
Qed.

(* ---------- the digit scanner of std::from_chars ---------- *)

Definition no_digit_head (l : list N) : Prop := match l with [] => True | c :: _ => is_digit c = false end.

Lemma fc_digits_numeral ds : forall rest acc n, all_digits ds = true -> no_digit_head rest ->
  fc_digits (ds ++ rest) acc n = (acc * p10 (length ds) + dec_value ds, (n + length ds)%nat, rest).
Proof.
  induction ds as [|c ds IH]; intros rest acc n Hd Hr.
  - cbn [app length]. rewrite p10_0, dec_value_nil, Nat.add_0_r, Z.mul_1_r, Z.add_0_r.
    destruct rest as [|c r]; [reflexivity|]. cbn in Hr. cbn [fc_digits]. rewrite Hr. reflexivity.
  - rewrite all_digits_cons in Hd. apply andb_true_iff in Hd. destruct Hd as [Hc Hd].
    cbn [app fc_digits]. rewrite Hc, IH by assumption.
    rewrite dec_value_cons. cbn [length]. rewrite p10_S. f_equal. f_equal; lia.
Qed.

(* from_chars on a nonempty digit string followed by a non-digit *)
Lemma from_chars_numeral t ds rest : all_digits ds = true -> ds <> [] -> no_digit_head rest ->
  from_chars t (ds ++ rest) = if fits t (dec_value ds) then FcOk (dec_value ds) rest else FcRange.
Proof.
  intros Hd Hne Hr. unfold from_chars.
  destruct ds as [|c ds]; [congruence|].
  assert (Hc : is_digit c = true) by (rewrite all_digits_cons in Hd; apply andb_true_iff in Hd; tauto).
  cbn [app].
  assert (Hnm : (c =? c_minus)%N = false) by (unfold is_digit, c_minus in *; lia).
  rewrite Hnm, andb_false_r.
  change (c :: ds ++ rest) with ((c :: ds) ++ rest).
  rewrite fc_digits_numeral by assumption. cbn [length Nat.add]. rewrite Z.mul_0_l, Z.add_0_l. reflexivity.
Qed.

(* a leading '-' for a signed target *)
Lemma from_chars_minus t ds rest : is_signed t = true -> all_digits ds = true -> ds <> [] -> no_digit_head rest ->
  from_chars t (c_minus :: ds ++ rest) = if fits t (- dec_value ds) then FcOk (- dec_value ds) rest else FcRange.
Proof.
  intros Hs Hd Hne Hr. unfold from_chars. rewrite Hs. cbn [andb]. rewrite N.eqb_refl.
  rewrite fc_digits_numeral by assumption.
  destruct ds as [|c ds]; [congruence|]. cbn [length Nat.add]. rewrite Z.mul_0_l, Z.add_0_l. reflexivity.
Qed.

Lemma dec_nonempty n : 0 <= n < p10 20 -> dec n <> [].
Proof. intros H. destruct (dec_spec n H) as (_ & _ & Hl & _). destruct (dec n); [cbn in Hl; lia | discriminate]. Qed.

Lemma pad0_nonempty w l : l <> [] -> pad0 w l <> [].
Proof. intros H. unfold pad0. destruct (repeat ch0 (w - length l)); [exact H | discriminate]. Qed.
