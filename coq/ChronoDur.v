(* ChronoDur.v — durations: To(duration) -> string prints the parts of the exact value inside the
   32-byte buffer, and To(string) -> duration reads the printed text back to the same count. *)
From BS Require Import Base ChronoSpec ChronoModel ChronoArith ChronoDecimal ChronoSafe ChronoSafeAdd ChronoText ChronoTp ChronoTpParse.
From Coq Require Import ZifyBool ZifyN ZifyNat Zquot.
Local Open Scope Z_scope.
Ltac Zify.zify_post_hook ::= Z.to_euclidean_division_equations.

Definition rep2 (R : ity) : Prop := R = I64 \/ R = I32.

(* ticks of precision P in one unit of X seconds (0 when the unit is finer than the precision) *)
Definition unit_ticks (P : prec) (X : Z) : Z := X * pden P / pnum P.

Definition unit_x (X : Z) : Prop := X = 86400 \/ X = 3600 \/ X = 60 \/ X = 1.

(* duration_cast between the duration and its part type, both directions *)
Lemma dcast_unit P R X tl : rep2 R -> unit_x X -> 1 <= unit_ticks P X -> fits R tl = true ->
  dcast (pty P R) (mkD R X 1) tl = Ok (Z.quot tl (unit_ticks P X)) /\
  (forall q, fits R q = true -> fits R (q * unit_ticks P X) = true ->
     dcast (mkD R X 1) (pty P R) q = Ok (q * unit_ticks P X)).
Proof.
  intros HR HX Hu Ht. apply fits_iff in Ht.
  destruct P, HX as [->|[->|[->| ->]]]; vm_compute in Hu; try (exfalso; apply Hu; reflexivity);
    destruct HR as [-> | ->]; unfold tmin, tmax, half in Ht; cbn [is_signed] in Ht;
    (split; [|intros q Hq Hqu; apply fits_iff in Hq, Hqu; unfold tmin, tmax, half in Hq, Hqu; cbn [is_signed] in Hq, Hqu]);
    unfold unit_ticks in *; cbn [pnum pden] in *; open_types; repeat tstep;
    try rewrite Z.quot_1_r; try rewrite Z.mul_1_r; try reflexivity; f_equal; lia.
Qed.

(* a unit finer than the precision: the cast of a zero remainder is zero *)
Lemma dcast_unit_zero P R X : rep2 R -> unit_x X -> unit_ticks P X = 0 ->
  dcast (pty P R) (mkD R X 1) 0 = Ok 0.
Proof.
  intros HR HX Hu.
  destruct P, HX as [->|[->|[->| ->]]]; vm_compute in Hu; try discriminate Hu;
    destruct HR as [-> | ->]; open_types; repeat tstep; reflexivity.
Qed.

(* ---------- PrintSecondsFractions with fixedWidth = false: digits until the remainder is zero ---------- *)

Lemma psf_var k : forall val pos content den,
  (1 <= k)%nat -> p10 (k - 1) < den -> 0 <= val < p10 k -> 0 <= pos -> pos + Z.of_nat k <= 47 ->
  exists ds, psf_loop (pows k) den false pos content val = Ok (Some (pos + Z.of_nat (length ds), content ++ ds)) /\
             all_digits ds = true /\ (1 <= length ds <= k)%nat /\ dec_value ds * p10 (k - length ds) = val.
Proof.
  induction k as [|k IH]; intros val pos content den Hk Hden Hval Hpos Hfit; [lia|].
  cbn [pows psf_loop].
  replace (pos =? BufSize) with false by (unfold BufSize; lia).
  replace (S k - 1)%nat with k in Hden by lia.
  replace (p10 k <? den) with true by lia.
  pose proof (p10_pos k) as Hp. rewrite p10_S in Hval.
  rewrite Z.quot_div_nonneg by lia.
  set (n := val / p10 k).
  assert (Hn : 0 <= n <= 9).
  { unfold n. split; [apply Z.div_pos; lia|]. apply Z.lt_succ_r. apply Z.div_lt_upper_bound; lia. }
  rewrite (digit_byte n Hn). unfold put. replace ((0 <=? pos) && (pos <? BufSize)) with true by (unfold BufSize; lia).
  cbn [bind negb andb].
  assert (Hv' : 0 <= val - n * p10 k < p10 k /\ val = n * p10 k + (val - n * p10 k)).
  { unfold n. pose proof (Z.div_mod val (p10 k) ltac:(lia)). pose proof (Z.mod_pos_bound val (p10 k) Hp). nia. }
  destruct Hv' as [Hv' Hsplit]. set (val' := val - n * p10 k) in *.
  destruct (digit_char_ok n Hn) as [Hd1 Hd2].
  destruct (Z.eqb_spec val' 0) as [E0|E0].
  - exists [digit_char n]. cbn [length]. split; [f_equal; f_equal; f_equal; lia|].
    split; [rewrite all_digits_cons, Hd1; reflexivity|]. split; [lia|].
    rewrite dec_value_cons, dec_value_nil, Hd2. cbn [length]. rewrite p10_0.
    replace (S k - 1)%nat with k by lia. lia.
  - assert (Hk1 : (1 <= k)%nat) by (destruct k; [rewrite p10_0 in Hv'; lia | lia]).
    destruct (IH val' (pos + 1) (content ++ [digit_char n]) den Hk1) as (ds & E & Hds & Hl & Hv); try lia.
    { pose proof (p10_mono (k - 1) k ltac:(lia)). lia. }
    exists (digit_char n :: ds). rewrite E. cbn [length]. split.
    { f_equal. f_equal. f_equal; [lia | rewrite <- app_assoc; reflexivity]. }
    split; [rewrite all_digits_cons, Hd1, Hds; reflexivity|]. split; [lia|].
    rewrite dec_value_cons, Hd2. replace (S k - S (length ds))%nat with (k - length ds)%nat by lia.
    assert (Hpk : p10 k = p10 (length ds) * p10 (k - length ds)).
    { rewrite <- p10_add. f_equal. lia. }
    rewrite Hpk in Hsplit. nia.
Qed.

(* the fraction of a sub-second duration: '.' and 1..w digits *)
Lemma psf_print_var w pos content R cnt : frac_width w -> rep2 R -> Z.abs cnt < p10 w -> 0 <= pos -> pos + 1 + Z.of_nat w <= 47 ->
  exists ds, print_sec_fractions pos content R (p10 w) cnt false =
               Ok (Some (pos + 1 + Z.of_nat (length ds), content ++ [c_dot] ++ ds)) /\
             all_digits ds = true /\ (1 <= length ds <= w)%nat /\ dec_value ds * p10 (w - length ds) = Z.abs cnt.
Proof.
  intros Hw HR Hc Hpos Hfit. unfold print_sec_fractions.
  replace (p10 w <=? cnt) with false by lia.
  replace (pos =? BufSize) with false by (unfold BufSize; lia).
  unfold put. replace ((0 <=? pos) && (pos <? BufSize)) with true by (unfold BufSize; lia).
  cbn [bind].
  assert (Hw9 : p10 w <= p10 9) by (apply p10_mono; destruct Hw as [?|[?|?]]; lia).
  change (p10 9) with 1000000000 in Hw9.
  assert (Hfa : fits (promote R) (Z.abs cnt) = true).
  { destruct HR as [HR | HR]; rewrite HR; cbn [promote]; [apply fits_I64 | apply fits_I32]; lia. }
  rewrite (arith_fits _ _ Hfa), bind_ok.
  rewrite frac_divs_pows. replace 9%nat with ((9 - w) + w)%nat by (destruct Hw as [?|[?|?]]; lia).
  rewrite psf_skip by (unfold BufSize; lia).
  destruct (psf_var w (Z.abs cnt) (pos + 1) (content ++ [c_dot]) (p10 w)) as (ds & E & Hds & Hl & Hv); try lia.
  { destruct Hw as [?|[?|?]]; lia. }
  { pose proof (p10_S (w - 1)). replace (S (w - 1)) with w in * by (destruct Hw as [?|[?|?]]; lia).
    pose proof (p10_pos (w - 1)). lia. }
  exists ds. rewrite E. split; [|auto].
  rewrite <- app_assoc. replace (pos + 1 + Z.of_nat (length ds)) with (pos + 1 + Z.of_nat (length ds)) by lia. reflexivity.
Qed.

(* ---------- one PrintDurationPart step ---------- *)

Lemma quot_rem_facts tl u : 1 <= u ->
  tl = Z.quot tl u * u + Z.rem tl u /\ Z.abs (Z.quot tl u * u) <= Z.abs tl /\ Z.abs (Z.quot tl u) <= Z.abs tl /\
  Z.abs (Z.rem tl u) < u /\ Z.abs (Z.rem tl u) <= Z.abs tl /\
  (0 <= tl -> 0 <= Z.quot tl u /\ 0 <= Z.rem tl u) /\ (tl <= 0 -> Z.quot tl u <= 0 /\ Z.rem tl u <= 0) /\
  Z.abs (Z.quot tl u) = Z.abs tl / u /\ Z.abs (Z.rem tl u) = Z.abs tl mod u.
Proof.
  intros Hu.
  assert (K : forall a, 0 <= a -> a = a / u * u + a mod u /\ 0 <= a / u /\ 0 <= a mod u < u /\ 0 <= a / u * u <= a /\ a / u <= a / u * u /\ a mod u <= a).
  { intros a Ha. pose proof (Z.div_mod a u ltac:(lia)). pose proof (Z.mod_pos_bound a u ltac:(lia)).
    assert (0 <= a / u) by (apply Z.div_pos; lia). assert (a / u <= a / u * u) by nia. lia. }
  destruct (Z.le_gt_cases 0 tl) as [Hp|Hn].
  - rewrite Z.quot_div_nonneg, Z.rem_mod_nonneg by lia. rewrite (Z.abs_eq tl) by lia.
    destruct (K tl Hp) as (E & Q & Rb & QU & QQ & RR).
    set (qq := tl / u) in *. set (rr := tl mod u) in *. set (qu := qq * u) in *. clearbody qq rr qu.
    repeat split; lia.
  - destruct (K (- tl) ltac:(lia)) as (E & Q & Rb & QU & QQ & RR).
    replace (Z.quot tl u) with (- ((- tl) / u)).
    2:{ pose proof (Z.quot_opp_l (- tl) u ltac:(lia)) as H. rewrite Z.opp_involutive in H. rewrite H.
        rewrite Z.quot_div_nonneg by lia. reflexivity. }
    replace (Z.rem tl u) with (- ((- tl) mod u)).
    2:{ pose proof (Z.rem_opp_l (- tl) u ltac:(lia)) as H. rewrite Z.opp_involutive in H. rewrite H.
        rewrite Z.rem_mod_nonneg by lia. reflexivity. }
    rewrite (Z.abs_neq tl) by lia.
    replace (- ((- tl) / u) * u) with (- ((- tl) / u * u)) by ring.
    set (qq := (- tl) / u) in *. set (rr := (- tl) mod u) in *. set (qu := qq * u) in *. clearbody qq rr qu.
    repeat split; lia.
Qed.

Lemma part_step P R X isSec suffix tl pos content :
  rep2 R -> unit_x X -> 1 <= unit_ticks P X -> fits R tl = true ->
  (isSec = true -> sub_second P = false) ->
  0 <= pos -> pos + Z.of_nat (length (dec (Z.abs (Z.quot tl (unit_ticks P X))))) <= 47 ->
  print_dur_part (pty P R) X isSec suffix (tl, pos, content) =
  if negb (Z.quot tl (unit_ticks P X) =? 0) || (isSec && negb (tl =? 0))
  then Ok (Z.rem tl (unit_ticks P X),
           pos + Z.of_nat (length (dec (Z.abs (Z.quot tl (unit_ticks P X))))) + 1,
           content ++ dec (Z.abs (Z.quot tl (unit_ticks P X))) ++ [suffix])
  else Ok (tl, pos, content).
Proof.
  intros HR HX Hu Ht Hsec Hpos Hfit.
  destruct (dcast_unit P R X tl HR HX Hu Ht) as [E1 E2].
  destruct (quot_rem_facts tl (unit_ticks P X) Hu) as (Eq & Bq & Bq' & Br & Br' & Hp & Hn & _).
  set (u := unit_ticks P X) in *. set (q := Z.quot tl u) in *. set (r := Z.rem tl u) in *.
  unfold print_dur_part. cbn [pty d_rep d_den]. fold (pty P R). rewrite E1, bind_ok.
  destruct (negb (q =? 0) || (isSec && negb (tl =? 0))) eqn:Econd; [|reflexivity].
  assert (Hs : is_signed R = true) by (destruct HR as [-> | ->]; reflexivity). rewrite Hs.
  apply fits_iff in Ht.
  assert (Hq64 : fits I64 q = true).
  { apply fits_I64. destruct HR as [HR | HR]; rewrite HR in *; unfold tmin, tmax, half in Ht; cbn [is_signed] in Ht; lia. }
  assert (Hval : (if q <? 0 then Ok (cast U64 (0 - cast U64 q)) else Ok (cast U64 q)) = Ok (Z.abs q)).
  { rewrite <- (abs_year q Hq64). destruct (q <? 0); reflexivity. }
  rewrite Hval, bind_ok. unfold to_chars. pose proof (rep_bounds R) as HB.
  replace (BufSize - pos <? Z.of_nat (length (dec (Z.abs q)))) with false by (unfold BufSize; lia).
  assert (Hfq : fits R q = true) by (apply fits_iff; lia).
  assert (Hfqu : fits R (q * u) = true) by (apply fits_iff; lia).
  rewrite (E2 q Hfq Hfqu), bind_ok.
  assert (Hfr : fits (promote R) (tl - q * u) = true).
  { replace (tl - q * u) with r by lia. destruct HR as [HR | HR]; rewrite HR in *; cbn [promote]; apply fits_iff; lia. }
  rewrite (arith_fits _ _ Hfr), bind_ok.
  replace (tl - q * u) with r by lia.
  rewrite (cast_fits R r) by (apply fits_iff; lia).
  replace (isSec && (1 <? pden P)) with false.
  2:{ destruct isSec; [|reflexivity]. specialize (Hsec eq_refl). destruct P; try discriminate Hsec; reflexivity. }
  rewrite bind_ok.
  replace (pos + Z.of_nat (length (dec (Z.abs q))) =? BufSize) with false by (unfold BufSize; lia).
  unfold put. replace ((0 <=? _) && (_ <? BufSize)) with true by (unfold BufSize; lia).
  cbn [bind fst snd]. rewrite <- app_assoc. reflexivity.
Qed.

(* a unit finer than the precision: nothing left, nothing printed *)
Lemma part_step_zero P R X isSec suffix pos content : rep2 R -> unit_x X -> unit_ticks P X = 0 ->
  print_dur_part (pty P R) X isSec suffix (0, pos, content) = Ok (0, pos, content).
Proof.
  intros HR HX Hu. unfold print_dur_part. cbn [pty d_rep d_den]. fold (pty P R).
  rewrite (dcast_unit_zero P R X HR HX Hu), bind_ok. cbn [Z.eqb negb orb andb]. rewrite andb_false_r. reflexivity.
Qed.

(* the seconds part of a sub-second duration: seconds, '.', 1..w fraction digits, 'S' *)
Lemma sec_step_frac P R tl pos content :
  rep2 R -> sub_second P = true -> fits R tl = true -> tl <> 0 -> Z.abs tl < 60 * pden P ->
  0 <= pos -> pos + 2 + 1 + Z.of_nat (frac_digits P) <= 47 ->
  exists ds, print_dur_part (pty P R) 1 true c_S (tl, pos, content) =
      Ok (0, pos + Z.of_nat (length (dec (Z.abs tl / pden P))) + 1 + Z.of_nat (length ds) + 1,
          content ++ dec (Z.abs tl / pden P) ++ [c_dot] ++ ds ++ [c_S]) /\
    all_digits ds = true /\ (1 <= length ds <= frac_digits P)%nat /\
    dec_value ds * p10 (frac_digits P - length ds) = Z.abs tl mod pden P.
Proof.
  intros HR Hsub Ht Hnz Hlt Hpos Hfit.
  assert (Hu : unit_ticks P 1 = pden P /\ 1 <= pden P /\ pden P = p10 (frac_digits P) /\ frac_width (frac_digits P)).
  { unfold frac_width. destruct P; try discriminate Hsub; cbn; repeat split; auto; lia. }
  destruct Hu as (Hu & Hpd & Hp10 & Hw).
  destruct (dcast_unit P R 1 tl HR ltac:(unfold unit_x; auto) ltac:(lia) Ht) as [E1 E2]. rewrite Hu in E1, E2.
  destruct (quot_rem_facts tl (pden P) Hpd) as (Eq & Bq & Bq' & Br & Br' & Hp & Hn & Aq & Ar).
  set (u := pden P) in *. set (q := Z.quot tl u) in *. set (r := Z.rem tl u) in *.
  assert (Hq60 : Z.abs q < 60) by (rewrite Aq; apply Z.div_lt_upper_bound; lia).
  assert (Hlen : (length (dec (Z.abs q)) <= 2)%nat) by (apply dec_length_le; [change (p10 2) with 100; lia | lia]).
  unfold print_dur_part. cbn [pty d_rep d_den]. fold (pty P R). fold u. rewrite E1, bind_ok.
  replace (negb (q =? 0) || (true && negb (tl =? 0))) with true by (destruct (q =? 0); cbn; lia).
  assert (Hs : is_signed R = true) by (destruct HR as [-> | ->]; reflexivity). rewrite Hs.
  apply fits_iff in Ht.
  assert (Hq64 : fits I64 q = true) by (apply fits_I64; lia).
  assert (Hval : (if q <? 0 then Ok (cast U64 (0 - cast U64 q)) else Ok (cast U64 q)) = Ok (Z.abs q)).
  { rewrite <- (abs_year q Hq64). destruct (q <? 0); reflexivity. }
  rewrite Hval, bind_ok.
  unfold to_chars. pose proof (rep_bounds R) as HB.
  replace (BufSize - pos <? Z.of_nat (length (dec (Z.abs q)))) with false by (unfold BufSize; lia).
  assert (Hfq : fits R q = true) by (apply fits_iff; lia).
  assert (Hfqu : fits R (q * u) = true) by (apply fits_iff; lia).
  rewrite (E2 q Hfq Hfqu), bind_ok.
  assert (Hfr : fits (promote R) (tl - q * u) = true).
  { replace (tl - q * u) with r by lia. destruct HR as [HR | HR]; rewrite HR in *; cbn [promote]; apply fits_iff; lia. }
  rewrite (arith_fits _ _ Hfr), bind_ok.
  replace (tl - q * u) with r by lia.
  rewrite (cast_fits R r) by (apply fits_iff; lia).
  replace (true && (1 <? u)) with true by (unfold u; destruct P; try discriminate Hsub; reflexivity).
  destruct (psf_print_var (frac_digits P) (pos + Z.of_nat (length (dec (Z.abs q)))) (content ++ dec (Z.abs q)) R r Hw HR)
    as (ds & Ef & Hds & Hl & Hv); try lia.
  rewrite <- Hp10 in Ef. fold u in Ef.
  rewrite Ef, !bind_ok.
  replace (_ =? BufSize) with false by (unfold BufSize; lia).
  unfold put. replace ((0 <=? _) && (_ <? BufSize)) with true by (unfold BufSize; lia).
  cbn [bind fst snd]. exists ds. rewrite <- Aq. split.
  - f_equal. apply f_equal2; [apply f_equal2; [reflexivity | lia] | rewrite <- ?app_assoc; reflexivity].
  - split; [exact Hds|]. split; [exact Hl|]. rewrite Hv, Ar. reflexivity.
Qed.

(* ---------- the whole of To(duration) -> string ---------- *)

Definition opt_comp (q : Z) (sym : N) : list N := if q =? 0 then [] else dec (Z.abs q) ++ [sym].

(* a non-seconds part (or the seconds part of a precision without fraction), any unit incl. units finer than P *)
Lemma pstep P R X isSec suffix tl pos content :
  rep2 R -> unit_x X -> fits R tl = true -> (unit_ticks P X = 0 -> tl = 0) ->
  (isSec = true -> sub_second P = false) -> (isSec = true -> Z.rem tl (unit_ticks P X) = 0) ->
  0 <= pos -> pos + Z.of_nat (length (dec (Z.abs (Z.quot tl (unit_ticks P X))))) <= 47 ->
  print_dur_part (pty P R) X isSec suffix (tl, pos, content) =
  Ok (Z.rem tl (unit_ticks P X),
      pos + Z.of_nat (length (opt_comp (Z.quot tl (unit_ticks P X)) suffix)),
      content ++ opt_comp (Z.quot tl (unit_ticks P X)) suffix).
Proof.
  intros HR HX Ht Hz Hsec Hsr Hpos Hfit.
  assert (Hu0 : 0 <= unit_ticks P X) by (unfold unit_ticks; destruct (prec_facts P) as (? & ? & _); destruct HX as [->|[->|[->| ->]]]; apply Z.div_pos; lia).
  destruct (Z.eq_dec (unit_ticks P X) 0) as [E0|E0].
  - rewrite (Hz E0), E0. rewrite part_step_zero by assumption.
    unfold opt_comp. change (Z.quot 0 0) with 0. change (Z.rem 0 0) with 0.
    cbn [Z.eqb length]. rewrite app_nil_r, Z.add_0_r. reflexivity.
  - rewrite part_step by (try assumption; lia).
    destruct (quot_rem_facts tl (unit_ticks P X) ltac:(lia)) as (Eq & _).
    unfold opt_comp.
    destruct (Z.eqb_spec (Z.quot tl (unit_ticks P X)) 0) as [Eq0|Eq0]; cbn [negb orb].
    + destruct isSec; cbn [andb].
      * specialize (Hsr eq_refl). assert (tl = 0) by lia. subst tl. cbn [Z.eqb negb length].
        rewrite Z.rem_0_l, app_nil_r, Z.add_0_r by lia. reflexivity.
      * cbn [length]. rewrite app_nil_r, Z.add_0_r. f_equal. f_equal. f_equal. lia.
    + rewrite app_length. cbn [length]. f_equal. f_equal. f_equal. lia.
Qed.

(* ---------- the parts of a count, per precision ---------- *)

Definition dK (P : prec) : nat := match P with Pns => 6%nat | Pus => 9%nat | Pms => 12%nat | _ => 19%nat end.

Lemma dur_facts P c : -9223372036854775808 <= c <= 9223372036854775807 ->
  let u1 := unit_ticks P 86400 in let u2 := unit_ticks P 3600 in let u3 := unit_ticks P 60 in let u4 := unit_ticks P 1 in
  let q1 := Z.quot c u1 in let r1 := Z.rem c u1 in
  let q2 := Z.quot r1 u2 in let r2 := Z.rem r1 u2 in
  let q3 := Z.quot r2 u3 in let r3 := Z.rem r2 u3 in
  let q4 := Z.quot r3 u4 in let r4 := Z.rem r3 u4 in
  1 <= u1 /\ Z.abs q1 < p10 (dK P) /\ Z.abs q2 < 24 /\ Z.abs q3 < 60 /\ Z.abs q4 < 60 /\
  (u2 = 0 -> r1 = 0) /\ (u3 = 0 -> r2 = 0) /\ (u4 = 0 -> r3 = 0) /\
  (sub_second P = false -> r4 = 0) /\ (sub_second P = true -> u4 = pden P /\ Z.abs r3 < 60 * pden P) /\
  Z.abs r1 <= Z.abs c /\ Z.abs r2 <= Z.abs c /\ Z.abs r3 <= Z.abs c /\
  (0 <= c -> 0 <= q1 /\ 0 <= q2 /\ 0 <= q3 /\ 0 <= q4 /\ 0 <= r1 /\ 0 <= r2 /\ 0 <= r3 /\ 0 <= r4) /\
  (c <= 0 -> q1 <= 0 /\ q2 <= 0 /\ q3 <= 0 /\ q4 <= 0 /\ r1 <= 0 /\ r2 <= 0 /\ r3 <= 0 /\ r4 <= 0) /\
  c = q1 * u1 + q2 * u2 + q3 * u3 + q4 * u4 + r4.
Proof.
  intros Hc. cbv zeta.
  destruct P; unfold unit_ticks; cbn [pnum pden sub_second dK];
    repeat match goal with |- context [?a * ?b / ?c] => let v := eval vm_compute in (a * b / c) in change (a * b / c) with v end;
    match goal with |- context [p10 ?k] => let v := eval vm_compute in (p10 k) in change (p10 k) with v end;
    rewrite ?Zquot_0_r, ?Zrem_0_r, ?Z.quot_1_r, ?Z.rem_1_r.
  all: repeat split; try discriminate; intros; lia.
Qed.

Lemma opt_comp_len q sym k : Z.abs q < p10 k -> (1 <= k <= 20)%nat -> (length (opt_comp q sym) <= k + 1)%nat /\
  (length (dec (Z.abs q)) <= k)%nat.
Proof.
  intros Hq Hk. pose proof (dec_length_le (Z.abs q) k ltac:(lia) Hk) as Hl. split; [|exact Hl].
  unfold opt_comp. destruct (q =? 0); [cbn; lia|]. rewrite app_length. cbn [length]. lia.
Qed.

(* the seconds part when nothing is left *)
Lemma sec_step_zero P R pos content : rep2 R -> 1 <= unit_ticks P 1 ->
  print_dur_part (pty P R) 1 true c_S (0, pos, content) = Ok (0, pos, content).
Proof.
  intros HR Hu.
  assert (Hf0 : fits R 0 = true) by (destruct HR as [-> | ->]; reflexivity).
  destruct (dcast_unit P R 1 0 HR ltac:(unfold unit_x; auto) Hu Hf0) as [E1 _].
  unfold print_dur_part. cbn [pty d_rep d_den]. fold (pty P R). rewrite E1, bind_ok.
  rewrite Z.quot_0_l by lia. reflexivity.
Qed.

Definition dur_tail (P : prec) (c : Z) (sectext : list N) : list N :=
  let u1 := unit_ticks P 86400 in let u2 := unit_ticks P 3600 in let u3 := unit_ticks P 60 in
  let q1 := Z.quot c u1 in let r1 := Z.rem c u1 in
  let q2 := Z.quot r1 u2 in let r2 := Z.rem r1 u2 in
  let q3 := Z.quot r2 u3 in
  opt_comp q1 c_D ++ (if r1 =? 0 then [] else [c_T] ++ opt_comp q2 c_H ++ opt_comp q3 c_M ++ sectext).

Definition sign_text (c : Z) : list N := if c <? 0 then [c_minus] else [].

Definition hide (A : Prop) : Prop := A.
Lemma unhide A : hide A -> A. Proof. exact (fun x => x). Qed.

(* fold the hidden definitions back into the goal *)
Ltac refold := repeat match goal with H : hide (_ = ?t) |- context [?t] => rewrite <- (unhide _ H) end.

