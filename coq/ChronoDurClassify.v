(* ChronoDurClassify.v — C15, durations: on every text of the documented grammar
   ([+-]P[nW][nD][T[nH][nM][n[(.|,)f]S]], ChronoSpec.df_render / df_wf) To(string) -> duration returns the count of
   the denoted duration (fraction rounded half to even) when it is representable, out_of_range otherwise. *)
From BS Require Import Base ChronoSpec ChronoModel ChronoArith ChronoDecimal ChronoSafe ChronoSafeAdd ChronoText ChronoTp
  ChronoTpParse ChronoTpRt ChronoTs ChronoDur ChronoDurPrint ChronoDurParse ChronoClassify ChronoClassify2 ChronoReject.
From Coq Require Import ZifyBool ZifyN ZifyNat.
Local Open Scope Z_scope.
Ltac Zify.zify_post_hook ::= Z.to_euclidean_division_equations.

Definition unit5 (X : Z) : Prop := X = 604800 \/ X = 86400 \/ X = 3600 \/ X = 60 \/ X = 1.

Definition letter_of (sym : N) (isDate : bool) (X : Z) : Prop :=
  (isDate = true /\ sym = c_W /\ X = 604800) \/ unit_of sym isDate X.

Lemma letter_facts sym isDate X : letter_of sym isDate X -> unit5 X /\ is_digit sym = false /\
  (sym =? c_dot)%N = false /\ (sym =? c_comma)%N = false /\ is_space sym = false.
Proof.
  unfold letter_of, unit_of, unit5.
  intros [(_ & -> & ->)|[(_ & -> & ->)|[(_ & -> & ->)|[(_ & -> & ->)|(_ & -> & ->)]]]]; repeat split; auto 10.
Qed.

Lemma transform_letter P R srcR val sym isDate X : letter_of sym isDate X ->
  transform_to_duration (pty P R) srcR val sym isDate = safe_cast (mkD srcR X 1) (pty P R) val.
Proof.
  unfold letter_of, unit_of, transform_to_duration.
  intros [(-> & -> & ->)|[(-> & -> & ->)|[(-> & -> & ->)|[(-> & -> & ->)|(-> & -> & ->)]]]]; reflexivity.
Qed.

(* the ticks of sv units of X seconds: exact and representable, or out_of_range *)
Definition comp_val (P : prec) (R : ity) (sv X : Z) : outcome Z :=
  if (sv * (X * pden P)) mod pnum P =? 0 then
    (if fits R (sv * (X * pden P) / pnum P) then Ok (sv * (X * pden P) / pnum P) else Err OutOfRange)
  else Err OutOfRange.

Lemma simple_ratio_unit5 P X r1 r2 : unit5 X -> simple_ratio (mkD r1 X 1) (mkD r2 (pnum P) (pden P)).
Proof.
  intros HX. unfold simple_ratio. destruct P, HX as [->|[->|[->|[->| ->]]]]; vm_compute; auto.
Qed.

Lemma cast_unit_spec P R srcR X val : rep4 R -> (srcR = I64 \/ srcR = U64) -> unit5 X -> fits srcR val = true ->
  safe_cast (mkD srcR X 1) (pty P R) val = comp_val P R val X.
Proof.
  intros HR Hsrc HX Hv. unfold comp_val.
  destruct (prec_facts P) as (Hpn & Hpd & _ & Hbn & Hbd & _).
  assert (HXb : 1 <= X <= 604800) by (destruct HX as [->|[->|[->|[->| ->]]]]; lia).
  set (x := val * (X * pden P)).
  pose proof (Z.div_mod x (pnum P) ltac:(lia)) as Hdm. pose proof (Z.mod_pos_bound x (pnum P) Hpn) as Hmb.
  assert (H1 : rep4 srcR) by (destruct Hsrc as [-> | ->]; unfold rep4; auto).
  pose proof HR as H2.
  assert (H3 : wf_dty (mkD srcR X 1)) by (split; cbn; lia).
  assert (H4 : wf_dty (pty P R)) by (split; cbn; lia).
  assert (H5 : d_num (mkD srcR X 1) * d_den (pty P R) <= 4611686018427387904) by (cbn [pty d_num d_den]; nia).
  assert (H6 : d_den (mkD srcR X 1) * d_num (pty P R) <= 4611686018427387904) by (cbn [pty d_num d_den]; lia).
  assert (H7 : simple_ratio (mkD srcR X 1) (pty P R)) by (apply simple_ratio_unit5; exact HX).
  destruct (Z.eqb_spec (x mod pnum P) 0) as [Em|Em].
  - destruct (fits R (x / pnum P)) eqn:Ef.
    + apply safe_cast_complete; try assumption.
      unfold exact_cast. cbn [pty d_num d_den]. unfold x in *. lia.
    + apply safe_cast_reject; try assumption.
      intros v Hfv Hx. unfold exact_cast in Hx. cbn [pty d_num d_den] in Hx.
      assert (v = x / pnum P) by (unfold x in *; nia). subst v. cbn [pty d_rep] in Hfv. congruence.
  - apply safe_cast_reject; try assumption.
    intros v Hfv Hx. unfold exact_cast in Hx. cbn [pty d_num d_den] in Hx. apply Em.
    replace x with (v * pnum P) by (unfold x; lia). apply Z.mod_mul. lia.
Qed.

Lemma sad_cadd4 P R dur t : rep4 R -> fits R dur = true -> fits R t = true ->
  safe_add_dur (pty P R) dur (pty P R) t = cadd R dur t.
Proof.
  intros HR Hd Ht. destruct (prec_facts P) as (Hpn & Hpd & _). unfold cadd.
  rewrite safe_add_dur_spec; try assumption.
  - destruct (Z.eqb_spec t 0) as [->|E]; [rewrite Z.add_0_r, Hd; reflexivity|].
    rewrite safe_cast_same. reflexivity.
  - unfold pty, wf_dty. cbn; lia.
Qed.

Lemma sad_cadd P R dur t : rep2 R -> fits R dur = true -> fits R t = true ->
  safe_add_dur (pty P R) dur (pty P R) t = cadd R dur t.
Proof. intros HR. apply sad_cadd4. destruct HR as [-> | ->]; unfold rep4; auto. Qed.

Lemma comp_val_fits P R sv X t : comp_val P R sv X = Ok t -> fits R t = true.
Proof.
  unfold comp_val. destruct (_ =? 0); [|discriminate]. destruct (fits R _) eqn:E; [|discriminate].
  intros H. inversion H. subst. exact E.
Qed.

(* the magnitude a component may have: uint64, and 2^63 for a negative duration *)
Definition mag_ok (neg : bool) (v : Z) : bool := if neg then v <=? 9223372036854775808 else v <=? 18446744073709551615.

Definition signed (neg : bool) (v : Z) : Z := if neg then - v else v.

(* one component without fraction *)
Lemma pnp_plain_spec P R ds sym X rest isDate neg dur :
  rep4 R -> letter_of sym isDate X -> all_digits ds = true -> ds <> [] -> mag_ok neg (dec_value ds) = true ->
  fits R dur = true ->
  parse_next_part (pty P R) (ds ++ sym :: rest) isDate neg dur =
  (t <- comp_val P R (signed neg (dec_value ds)) X ;; d' <- cadd R dur t ;; Ok (rest, d')).
Proof.
  intros HR Hsym Hdig Hne Hmag Hd.
  destruct (letter_facts sym isDate X Hsym) as (HX & Hnd & Hdot & Hcomma & _).
  pose proof (dec_value_bound ds Hdig) as Hvb.
  unfold parse_next_part.
  destruct (hd_digit ds (sym :: rest) Hdig Hne) as (c0 & t0 & E0 & Hc0). rewrite E0, Hc0, <- E0.
  rewrite from_chars_numeral; [| exact Hdig | exact Hne | exact Hnd].
  replace (fits U64 (dec_value ds)) with true by (symmetry; apply fits_U64; unfold mag_ok in Hmag; destruct neg; lia).
  rewrite Hdot, Hcomma. cbn [orb]. rewrite bind_ok.
  set (v := dec_value ds) in *.
  assert (Hstep : forall srcR val, (srcR = I64 \/ srcR = U64) -> fits srcR val = true ->
     (t <- transform_to_duration (pty P R) srcR val sym isDate ;; d2 <- safe_add_dur (pty P R) dur (pty P R) t ;; Ok (rest, d2)) =
     (t <- comp_val P R val X ;; d' <- cadd R dur t ;; Ok (rest, d'))).
  { intros srcR val Hs Hf. rewrite (transform_letter P R srcR val sym isDate X Hsym).
    rewrite (cast_unit_spec P R srcR X val HR Hs HX Hf).
    destruct (comp_val P R val X) as [t| | |] eqn:Et; cbn [bind]; try reflexivity.
    rewrite (sad_cadd4 P R dur t HR Hd (comp_val_fits _ _ _ _ _ Et)). reflexivity. }
  unfold mag_ok, signed in *. destruct neg.
  - replace (v <=? 9223372036854775808) with true by lia.
    assert (Env : (if v =? 9223372036854775808 then Ok (tmin I64) else arith I64 (- cast I64 v)) = Ok (- v)).
    { destruct (Z.eqb_spec v 9223372036854775808) as [E|E].
      - f_equal. change (tmin I64) with (-9223372036854775808). lia.
      - rewrite (cast_fits I64 v) by (apply fits_I64; lia). rewrite arith_fits by (apply fits_I64; lia). reflexivity. }
    rewrite Env, bind_ok. apply Hstep; [left; reflexivity | apply fits_I64; lia].
  - apply Hstep; [right; reflexivity | apply fits_U64; lia].
Qed.

(* a fraction as the parser accepts it: non-empty, the value fits uint32, at most nine digits unless all zero *)
Definition flen_ok (fs : list N) : Prop := fs <> [] /\ lfrac_ok fs.

Lemma flen_of_len fs : all_digits fs = true -> (1 <= length fs <= 9)%nat -> flen_ok fs.
Proof.
  intros Hd Hl. pose proof (dec_value_bound fs Hd) as Hb.
  assert (p10 (length fs) <= p10 9) by (apply p10_mono; lia). change (p10 9) with 1000000000 in *.
  split; [destruct fs; [cbn [length] in Hl; lia | discriminate]|].
  split; [apply fits_U32; lia | right; lia].
Qed.

Lemma fns_range fs : all_digits fs = true -> flen_ok fs -> 0 <= dec_value fs * 10 ^ (9 - Z.of_nat (length fs)) <= 999999999.
Proof.
  intros Hd (Hne & _ & [H0|Hl]); [rewrite H0; lia|].
  pose proof (dec_value_bound fs Hd) as Hb.
  replace (10 ^ (9 - Z.of_nat (length fs))) with (p10 (9 - length fs)) by (unfold p10; f_equal; lia).
  assert (p10 (length fs) * p10 (9 - length fs) = 1000000000).
  { rewrite <- p10_add. replace (length fs + (9 - length fs))%nat with 9%nat by lia. reflexivity. }
  pose proof (p10_pos (9 - length fs)). nia.
Qed.

Lemma psf_gen fs rest : all_digits fs = true -> no_digit_head rest -> flen_ok fs ->
  parse_second_fractions (fs ++ rest) = Some (dec_value fs * 10 ^ (9 - Z.of_nat (length fs)), rest).
Proof.
  intros Hd Hn (Hne & Hf & Hl).
  destruct (Nat.le_gt_cases (length fs) 9) as [Hle|Hgt].
  - apply fraction_exact; try assumption. destruct fs; [congruence | cbn [length] in *; lia].
  - destruct Hl as [H0|Hl]; [|lia]. unfold parse_second_fractions.
    rewrite from_chars_numeral by assumption. rewrite Hf, H0. reflexivity.
Qed.

Lemma rhe_bounds_signed P neg fns : 0 <= fns <= 999999999 ->
  let r := round_half_even (signed neg fns) (tick_ns P) in
  - pden P <= r <= pden P /\ (neg = true -> r <= 0) /\ (neg = false -> 0 <= r) /\ (1 < pnum P -> r = 0).
Proof.
  intros H. unfold round_half_even, signed. cbv zeta.
  destruct neg, P; cbn [tick_ns pnum pden]; rewrite ?Z.div_1_r, ?Z.mod_1_r; split_ifs; repeat split; intros; try discriminate; lia.
Qed.

(* the representations of the duration theorems: int64 / int32, and uint64 for texts without a minus sign (a minus sign
   into an unsigned target is refused before anything is read) *)
Definition repd (R : ity) (neg : bool) : Prop := rep2 R \/ (R = U64 /\ neg = false).

Lemma repd_rep4 R neg : repd R neg -> rep4 R.
Proof. intros [[-> | ->]|[-> _]]; unfold rep4; auto. Qed.

Lemma repd_zero R neg : repd R neg -> fits R 0 = true.
Proof. intros [[-> | ->]|[-> _]]; reflexivity. Qed.

Lemma repd_round P R neg fns : repd R neg -> 0 <= fns <= 999999999 ->
  dround NsT (pty P R) (signed neg fns) = Ok (round_half_even (signed neg fns) (tick_ns P)) /\
  fits R (round_half_even (signed neg fns) (tick_ns P)) = true.
Proof.
  intros HR Hfns. destruct (rhe_bounds_signed P neg fns Hfns) as (Hrb & Hneg & Hpos & _).
  destruct (prec_facts P) as (_ & _ & _ & _ & Hbd & _).
  split.
  - apply dround_rep3.
    + destruct HR as [[-> | ->]|[-> _]]; unfold rep3; auto.
    + unfold signed. destruct neg; lia.
    + intros E. destruct HR as [[H | H]|[_ ->]]; [rewrite E in H; discriminate | rewrite E in H; discriminate|]. unfold signed. lia.
  - apply fits_iff. destruct HR as [[-> | ->]|[-> Hn]]; unfold tmin, tmax, half, modulus; cbn [is_signed]; lia.
Qed.

(* the seconds component with a fraction *)
Lemma pnp_frac_spec P R ds sep fs rest neg dur :
  repd R neg -> all_digits ds = true -> ds <> [] -> mag_ok neg (dec_value ds) = true ->
  (sep = c_dot \/ sep = c_comma) -> all_digits fs = true -> flen_ok fs ->
  fits R dur = true ->
  parse_next_part (pty P R) (ds ++ sep :: fs ++ c_S :: rest) false neg dur =
  (d1 <- cadd R dur (round_half_even (signed neg (dec_value fs * 10 ^ (9 - Z.of_nat (length fs)))) (tick_ns P)) ;;
   t <- comp_val P R (signed neg (dec_value ds)) 1 ;; d' <- cadd R d1 t ;; Ok (rest, d')).
Proof.
  intros HR Hdig Hne Hmag Hsep Hfd Hfl Hd.
  pose proof (dec_value_bound ds Hdig) as Hvb.
  pose proof (dec_value_bound fs Hfd) as Hfb.
  set (fns := dec_value fs * 10 ^ (9 - Z.of_nat (length fs))).
  assert (Hfns : 0 <= fns <= 999999999).
  { unfold fns. apply fns_range; assumption. }
  unfold parse_next_part.
  assert (Hnd : no_digit_head (sep :: fs ++ c_S :: rest)) by (cbn; destruct Hsep as [-> | ->]; reflexivity).
  destruct (hd_digit ds (sep :: fs ++ c_S :: rest) Hdig Hne) as (c0 & t0 & E0 & Hc0). rewrite E0, Hc0, <- E0.
  rewrite from_chars_numeral; [| exact Hdig | exact Hne | exact Hnd].
  replace (fits U64 (dec_value ds)) with true by (symmetry; apply fits_U64; unfold mag_ok in Hmag; destruct neg; lia).
  replace ((sep =? c_dot)%N || (sep =? c_comma)%N) with true by (destruct Hsep as [-> | ->]; reflexivity).
  rewrite (psf_gen fs (c_S :: rest)); [| exact Hfd | reflexivity | exact Hfl].
  replace ((c_S =? c_S)%N) with true by reflexivity. rewrite bind_ok. cbn [fst snd]. fold fns.
  assert (Esns : (if neg then arith I64 (- fns) else Ok fns) = Ok (signed neg fns)).
  { unfold signed. destruct neg; [rewrite arith_fits by (apply fits_I64; lia)|]; reflexivity. }
  rewrite Esns, bind_ok.
  destruct (repd_round P R neg fns HR Hfns) as (Edr & Hfr).
  rewrite Edr, bind_ok.
  set (r := round_half_even (signed neg fns) (tick_ns P)) in *.
  rewrite (sad_cadd4 P R dur r (repd_rep4 R neg HR) Hd Hfr).
  destruct (cadd R dur r) as [d1| | |] eqn:E1; cbn [bind]; try reflexivity.
  cbv beta iota. cbn [fst snd].
  pose proof (cadd_fits _ _ _ _ E1) as Hd1.
  assert (Hsym : letter_of c_S false 1) by (right; unfold unit_of; right; right; right; auto).
  pose proof (pnp_plain_spec P R ds c_S 1 rest false neg d1 (repd_rep4 R neg HR) Hsym Hdig Hne Hmag Hd1) as Hp.
  unfold parse_next_part in Hp.
  destruct (hd_digit ds (c_S :: rest) Hdig Hne) as (c1 & t1 & E1' & Hc1). rewrite E1', Hc1, <- E1' in Hp.
  rewrite from_chars_numeral in Hp; [| exact Hdig | exact Hne | reflexivity].
  replace (fits U64 (dec_value ds)) with true in Hp by (symmetry; apply fits_U64; unfold mag_ok in Hmag; destruct neg; lia).
  replace ((c_S =? c_dot)%N || (c_S =? c_comma)%N) with false in Hp by reflexivity.
  rewrite bind_ok in Hp. cbv beta iota in Hp. exact Hp.
Qed.

(* ------------------------------------------------------------------ components beyond the magnitude limit *)

Lemma pnp_plain_oor P R ds sym X rest isDate neg dur :
  letter_of sym isDate X -> all_digits ds = true -> ds <> [] -> mag_ok neg (dec_value ds) = false ->
  parse_next_part (pty P R) (ds ++ sym :: rest) isDate neg dur = Err OutOfRange.
Proof.
  intros Hsym Hdig Hne Hmag.
  destruct (letter_facts sym isDate X Hsym) as (HX & Hnd & Hdot & Hcomma & _).
  unfold parse_next_part.
  destruct (hd_digit ds (sym :: rest) Hdig Hne) as (c0 & t0 & E0 & Hc0). rewrite E0, Hc0, <- E0.
  rewrite from_chars_numeral; [| exact Hdig | exact Hne | exact Hnd].
  destruct (fits U64 (dec_value ds)) eqn:Ef; [|reflexivity].
  rewrite Hdot, Hcomma. cbn [orb]. rewrite bind_ok.
  apply fits_U64 in Ef. unfold mag_ok in Hmag. destruct neg; [|lia].
  rewrite Hmag. reflexivity.
Qed.

Lemma pnp_frac_oor P R ds sep fs rest neg dur :
  repd R neg -> all_digits ds = true -> ds <> [] -> mag_ok neg (dec_value ds) = false ->
  (sep = c_dot \/ sep = c_comma) -> all_digits fs = true -> flen_ok fs ->
  fits R dur = true ->
  parse_next_part (pty P R) (ds ++ sep :: fs ++ c_S :: rest) false neg dur = Err OutOfRange.
Proof.
  intros HR Hdig Hne Hmag Hsep Hfd Hfl Hd.
  pose proof (dec_value_bound fs Hfd) as Hfb.
  set (fns := dec_value fs * 10 ^ (9 - Z.of_nat (length fs))).
  assert (Hfns : 0 <= fns <= 999999999).
  { unfold fns. apply fns_range; assumption. }
  unfold parse_next_part.
  assert (Hnd : no_digit_head (sep :: fs ++ c_S :: rest)) by (cbn; destruct Hsep as [-> | ->]; reflexivity).
  destruct (hd_digit ds (sep :: fs ++ c_S :: rest) Hdig Hne) as (c0 & t0 & E0 & Hc0). rewrite E0, Hc0, <- E0.
  rewrite from_chars_numeral; [| exact Hdig | exact Hne | exact Hnd].
  destruct (fits U64 (dec_value ds)) eqn:Ef; [|reflexivity].
  replace ((sep =? c_dot)%N || (sep =? c_comma)%N) with true by (destruct Hsep as [-> | ->]; reflexivity).
  rewrite (psf_gen fs (c_S :: rest)); [| exact Hfd | reflexivity | exact Hfl].
  replace ((c_S =? c_S)%N) with true by reflexivity. rewrite bind_ok. cbn [fst snd]. fold fns.
  apply fits_U64 in Ef. unfold mag_ok in Hmag.
  destruct (repd_round P R neg fns HR Hfns) as (Edr & Hfr). pose proof (repd_rep4 R neg HR) as HR4.
  destruct neg; [|lia]. unfold signed in Edr, Hfr.
  rewrite arith_fits by (apply fits_I64; lia). rewrite bind_ok.
  rewrite Edr, bind_ok.
  set (r := round_half_even (- fns) (tick_ns P)) in *.
  rewrite (sad_cadd4 P R dur r HR4 Hd Hfr).
  unfold cadd. destruct (fits R (dur + r)); cbn [bind]; [|reflexivity].
  cbv beta iota. rewrite Hmag. reflexivity.
Qed.

(* ------------------------------------------------------------------ components as items *)

Inductive item := Plain (ds : list N) (sym : N) (X : Z) | Frac (ds : list N) (sep : N) (fs : list N).

Definition item_text (it : item) : list N :=
  match it with Plain ds sym _ => ds ++ [sym] | Frac ds sep fs => ds ++ sep :: fs ++ [c_S] end.

Definition item_ok (isDate : bool) (it : item) : Prop :=
  match it with
  | Plain ds sym X => letter_of sym isDate X /\ all_digits ds = true /\ ds <> []
  | Frac ds sep fs => isDate = false /\ all_digits ds = true /\ ds <> [] /\ (sep = c_dot \/ sep = c_comma) /\
                      all_digits fs = true /\ flen_ok fs
  end.

Definition item_v (it : item) : Z := match it with Plain ds _ _ => dec_value ds | Frac ds _ _ => dec_value ds end.
Definition item_x (it : item) : Z := match it with Plain _ _ X => X | Frac _ _ _ => 1 end.
Definition item_fns (it : item) : Z :=
  match it with Plain _ _ _ => 0 | Frac _ _ fs => dec_value fs * 10 ^ (9 - Z.of_nat (length fs)) end.

(* what one component does to the duration accumulated so far *)
Definition item_step (P : prec) (R : ity) (neg : bool) (it : item) (dur : Z) : outcome Z :=
  if mag_ok neg (item_v it) then
    d1 <- cadd R dur (round_half_even (signed neg (item_fns it)) (tick_ns P)) ;;
    t <- comp_val P R (signed neg (item_v it)) (item_x it) ;; cadd R d1 t
  else Err OutOfRange.

Lemma rhe_zero P neg : round_half_even (signed neg 0) (tick_ns P) = 0.
Proof. unfold signed, round_half_even. destruct neg, P; reflexivity. Qed.

Lemma item_facts isDate it : item_ok isDate it ->
  0 <= item_v it /\ unit5 (item_x it) /\ 0 <= item_fns it <= 999999999.
Proof.
  destruct it as [ds sym X | ds sep fs]; cbn [item_ok item_v item_x item_fns].
  - intros (Hs & Hd & _). pose proof (dec_value_bound ds Hd). destruct (letter_facts _ _ _ Hs) as (HX & _).
    repeat split; try lia. exact HX.
  - intros (_ & Hd & _ & _ & Hfd & Hfl). pose proof (dec_value_bound ds Hd). pose proof (fns_range fs Hfd Hfl).
    repeat split; try lia. unfold unit5. auto 10.
Qed.

Lemma pnp_item_d P R it rest isDate neg dur : repd R neg -> item_ok isDate it -> fits R dur = true ->
  parse_next_part (pty P R) (item_text it ++ rest) isDate neg dur = (d' <- item_step P R neg it dur ;; Ok (rest, d')).
Proof.
  intros HR Hok Hd. unfold item_step.
  destruct it as [ds sym X | ds sep fs]; cbn [item_ok item_v item_x item_fns item_text] in *.
  - destruct Hok as (Hs & Hdig & Hne). rewrite <- app_assoc. cbn [app].
    destruct (mag_ok neg (dec_value ds)) eqn:Hm.
    + rewrite (pnp_plain_spec P R ds sym X rest isDate neg dur (repd_rep4 R neg HR) Hs Hdig Hne Hm Hd).
      rewrite rhe_zero. replace (cadd R dur 0) with (Ok dur) by (unfold cadd; rewrite Z.add_0_r, Hd; reflexivity). rewrite bind_ok.
      destruct (comp_val P R _ X); cbn [bind]; try reflexivity.
    + apply (pnp_plain_oor P R ds sym X); assumption.
  - destruct Hok as (-> & Hdig & Hne & Hsep & Hfd & Hfl).
    replace ((ds ++ sep :: fs ++ [c_S]) ++ rest) with (ds ++ sep :: fs ++ c_S :: rest)
      by (rewrite <- app_assoc; cbn [app]; rewrite <- app_assoc; reflexivity).
    destruct (mag_ok neg (dec_value ds)) eqn:Hm.
    + rewrite (pnp_frac_spec P R ds sep fs rest neg dur HR Hdig Hne Hm Hsep Hfd Hfl Hd).
      destruct (cadd R dur _); cbn [bind]; try reflexivity.
      destruct (comp_val P R _ 1); cbn [bind]; try reflexivity.
    + apply (pnp_frac_oor P R ds sep fs); assumption.
Qed.

Lemma pnp_item P R it rest isDate neg dur : rep2 R -> item_ok isDate it -> fits R dur = true ->
  parse_next_part (pty P R) (item_text it ++ rest) isDate neg dur = (d' <- item_step P R neg it dur ;; Ok (rest, d')).
Proof. intros HR. apply pnp_item_d. left. exact HR. Qed.

(* ------------------------------------------------------------------ one component: value and failure *)

Definition sgn_ok (neg : bool) (x : Z) : Prop := (neg = true -> x <= 0) /\ (neg = false -> 0 <= x).

Lemma sgn_signed neg v : 0 <= v -> sgn_ok neg (signed neg v).
Proof. unfold sgn_ok, signed. destruct neg; split; intros; try discriminate; lia. Qed.

Lemma sgn_add neg a b : sgn_ok neg a -> sgn_ok neg b -> sgn_ok neg (a + b).
Proof. unfold sgn_ok. destruct neg; intros (H1 & H2) (H3 & H4); split; intros; try discriminate; lia. Qed.

Lemma sgn_zero neg : sgn_ok neg 0.
Proof. unfold sgn_ok. split; intros; lia. Qed.

Lemma sign_transfer neg a b c d : a * b = c * d -> 0 < b -> 0 < d -> sgn_ok neg c -> sgn_ok neg a.
Proof. unfold sgn_ok. intros E Hb Hd (H1 & H2). split; intros H; [specialize (H1 H) | specialize (H2 H)]; clear - E Hb Hd H1 H2; nia. Qed.

Lemma fits_between R a b c : fits R a = true -> fits R c = true -> (a <= b <= c \/ c <= b <= a) -> fits R b = true.
Proof. rewrite !fits_iff. lia. Qed.

Lemma fits_zero R : rep2 R -> fits R 0 = true.
Proof. intros [-> | ->]; reflexivity. Qed.

Lemma sgn_between R neg a x y : sgn_ok neg x -> sgn_ok neg y -> fits R a = true -> fits R (a + x + y) = true ->
  fits R (a + x) = true.
Proof.
  intros (H1 & H2) (H3 & H4) Ha Hc. apply (fits_between R a (a + x) (a + x + y) Ha Hc).
  destruct neg; [specialize (H1 eq_refl); specialize (H3 eq_refl) | specialize (H2 eq_refl); specialize (H4 eq_refl)]; lia.
Qed.

Lemma comp_val_ok P R sv X t : comp_val P R sv X = Ok t -> t * pnum P = sv * (X * pden P) /\ fits R t = true.
Proof.
  unfold comp_val. destruct (prec_facts P) as (Hpn & _).
  destruct (Z.eqb_spec ((sv * (X * pden P)) mod pnum P) 0) as [E|E]; [|discriminate].
  destruct (fits R _) eqn:Ef; [|discriminate]. intros H. inversion H. subst t. split; [|exact Ef].
  rewrite Z.mul_comm. symmetry. apply Z_div_exact_full_2; [lia | exact E].
Qed.

Lemma comp_val_complete P R sv X t : t * pnum P = sv * (X * pden P) -> fits R t = true -> comp_val P R sv X = Ok t.
Proof.
  intros E Hf. unfold comp_val. destruct (prec_facts P) as (Hpn & _). rewrite <- E.
  rewrite Z.mod_mul by lia. rewrite Z.div_mul by lia. cbn [Z.eqb]. rewrite Hf. reflexivity.
Qed.

Definition okoor {A} (o : outcome A) : Prop := (exists a, o = Ok a) \/ o = Err OutOfRange.

Lemma comp_val_okoor P R sv X : okoor (comp_val P R sv X).
Proof. unfold comp_val, okoor. destruct (_ =? 0); [destruct (fits R _)|]; eauto. Qed.

Lemma cadd_okoor R x y : okoor (cadd R x y).
Proof. unfold cadd, okoor. destruct (fits R _); eauto. Qed.

Definition item_r (P : prec) (neg : bool) (it : item) : Z := round_half_even (signed neg (item_fns it)) (tick_ns P).

(* the exact number of ticks of the component, when there is one *)
Definition item_exact (P : prec) (it : item) : bool := (item_v it * (item_x it * pden P)) mod pnum P =? 0.
Definition item_t (P : prec) (neg : bool) (it : item) : Z := signed neg (item_v it) * (item_x it * pden P) / pnum P.

Lemma item_step_okoor P R neg it dur : okoor (item_step P R neg it dur).
Proof.
  unfold item_step. destruct (mag_ok neg _); [|right; reflexivity].
  destruct (cadd_okoor R dur (round_half_even (signed neg (item_fns it)) (tick_ns P))) as [(d1 & ->)| ->]; [|right; reflexivity].
  rewrite bind_ok.
  destruct (comp_val_okoor P R (signed neg (item_v it)) (item_x it)) as [(t & ->)| ->]; [|right; reflexivity].
  rewrite bind_ok. apply cadd_okoor.
Qed.

Lemma item_step_sound P R neg it dur d isDate : item_ok isDate it -> item_step P R neg it dur = Ok d ->
  fits R d = true /\ exists t, d = dur + item_r P neg it + t /\ t * pnum P = signed neg (item_v it) * (item_x it * pden P) /\
  sgn_ok neg (item_r P neg it + t).
Proof.
  intros Hok. unfold item_step. destruct (mag_ok neg _); [|discriminate].
  fold (item_r P neg it).
  unfold cadd at 1. destruct (fits R (dur + item_r P neg it)); [|discriminate]. rewrite bind_ok.
  destruct (comp_val P R _ _) as [t| | |] eqn:Ec; try discriminate. rewrite bind_ok.
  intros Hc. unfold cadd in Hc. destruct (fits R (dur + item_r P neg it + t)) eqn:Hf; [|discriminate]. inversion Hc. subst d.
  split; [exact Hf|]. exists t. destruct (comp_val_ok _ _ _ _ _ Ec) as (Et & _). split; [reflexivity|]. split; [exact Et|].
  destruct (item_facts isDate it Hok) as (Hv & HX & Hfns). destruct (prec_facts P) as (Hpn & Hpd & _).
  apply sgn_add.
  - destruct (rhe_bounds_signed P neg (item_fns it) Hfns) as (_ & H1 & H2 & _). split; assumption.
  - apply (sign_transfer neg t (pnum P) (signed neg (item_v it)) (item_x it * pden P) Et Hpn).
    + unfold unit5 in HX. clear - HX Hpd. nia.
    + apply sgn_signed. exact Hv.
Qed.

Lemma signed_mod neg v K n : 0 < n -> (v * K) mod n = 0 -> (signed neg v * K) mod n = 0.
Proof.
  intros Hn H. unfold signed. destruct neg; [|exact H].
  replace (- v * K) with (- (v * K)) by ring. apply Z.mod_opp_l_z; [lia | exact H].
Qed.

Lemma item_t_spec P neg it isDate : item_ok isDate it -> item_exact P it = true ->
  item_t P neg it * pnum P = signed neg (item_v it) * (item_x it * pden P) /\ sgn_ok neg (item_t P neg it).
Proof.
  intros Hok He. unfold item_exact in He. apply Z.eqb_eq in He. destruct (prec_facts P) as (Hpn & Hpd & _).
  destruct (item_facts isDate it Hok) as (Hv & HX & _).
  assert (Et : item_t P neg it * pnum P = signed neg (item_v it) * (item_x it * pden P)).
  { unfold item_t. rewrite Z.mul_comm. symmetry. apply Z_div_exact_full_2; [lia|]. apply signed_mod; assumption. }
  split; [exact Et|].
  apply (sign_transfer neg _ (pnum P) (signed neg (item_v it)) (item_x it * pden P) Et Hpn).
  - unfold unit5 in HX. clear - HX Hpd. nia.
  - apply sgn_signed. exact Hv.
Qed.

Lemma item_r_sgn P neg it isDate : item_ok isDate it -> sgn_ok neg (item_r P neg it).
Proof.
  intros Hok. destruct (item_facts isDate it Hok) as (_ & _ & Hfns).
  destruct (rhe_bounds_signed P neg (item_fns it) Hfns) as (_ & H1 & H2 & _). split; assumption.
Qed.

Lemma item_step_complete P R neg it dur isDate : fits R 0 = true -> item_ok isDate it ->
  mag_ok neg (item_v it) = true -> item_exact P it = true -> sgn_ok neg dur -> fits R dur = true ->
  fits R (dur + item_r P neg it + item_t P neg it) = true ->
  item_step P R neg it dur = Ok (dur + item_r P neg it + item_t P neg it).
Proof.
  intros HR Hok Hm He Hsd Hd Hf. unfold item_step. rewrite Hm. fold (item_r P neg it).
  destruct (item_t_spec P neg it isDate Hok He) as (Et & Hst). pose proof (item_r_sgn P neg it isDate Hok) as Hsr.
  assert (H1 : fits R (dur + item_r P neg it) = true) by (apply (sgn_between R neg dur _ (item_t P neg it)); assumption).
  unfold cadd at 1. rewrite H1, bind_ok.
  assert (H2 : fits R (item_t P neg it) = true).
  { pose proof HR as H0.
    apply (fits_between R 0 _ (dur + item_r P neg it + item_t P neg it) H0 Hf).
    clear - Hsd Hsr Hst. unfold sgn_ok in *. destruct neg; [right | left]; intuition lia. }
  rewrite (comp_val_complete P R _ _ (item_t P neg it) Et H2), bind_ok.
  unfold cadd. rewrite Hf. reflexivity.
Qed.

(* ------------------------------------------------------------------ a sequence of components *)

Fixpoint fold_items (P : prec) (R : ity) (neg : bool) (its : list item) (dur : Z) : outcome Z :=
  match its with
  | [] => Ok dur
  | it :: r => d <- item_step P R neg it dur ;; fold_items P R neg r d
  end.

Fixpoint items_secs (its : list item) : Z :=
  match its with [] => 0 | it :: r => item_v it * item_x it + items_secs r end.
Fixpoint items_r (P : prec) (neg : bool) (its : list item) : Z :=
  match its with [] => 0 | it :: r => item_r P neg it + items_r P neg r end.
Fixpoint items_total (P : prec) (neg : bool) (its : list item) : Z :=
  match its with [] => 0 | it :: r => item_r P neg it + item_t P neg it + items_total P neg r end.
Definition item_fine (P : prec) (neg : bool) (it : item) : bool := mag_ok neg (item_v it) && item_exact P it.

Definition sg (neg : bool) : Z := if neg then -1 else 1.
Lemma signed_sg neg v : signed neg v = sg neg * v.
Proof. unfold signed, sg. destruct neg; lia. Qed.

Lemma fold_app P R neg a b dur :
  fold_items P R neg (a ++ b) dur = (d <- fold_items P R neg a dur ;; fold_items P R neg b d).
Proof.
  revert dur. induction a as [|it a IH]; intros dur; cbn [app fold_items]; [reflexivity|].
  destruct (item_step P R neg it dur); cbn [bind]; auto.
Qed.

Lemma fold_okoor P R neg its dur : okoor (fold_items P R neg its dur).
Proof.
  revert dur. induction its as [|it r IH]; intros dur; cbn [fold_items]; [left; eauto|].
  destruct (item_step_okoor P R neg it dur) as [(d & ->)| ->]; [rewrite bind_ok; apply IH | right; reflexivity].
Qed.

Definition item_any (it : item) : Prop := exists b, item_ok b it.

Lemma any_of isDate its : Forall (item_ok isDate) its -> Forall item_any its.
Proof. apply Forall_impl. intros it H. exists isDate. exact H. Qed.

Lemma fold_sound P R neg its : Forall item_any its -> forall dur d, fits R dur = true ->
  fold_items P R neg its dur = Ok d ->
  fits R d = true /\ (d - dur - items_r P neg its) * pnum P = sg neg * items_secs its * pden P.
Proof.
  induction 1 as [|it r Hit Hr IH]; intros dur d Hd; cbn [fold_items items_r items_secs].
  - intros H. inversion H. subst. split; [exact Hd | lia].
  - destruct Hit as (isDate & Hit).
    destruct (item_step P R neg it dur) as [d1| | |] eqn:E1; try discriminate. rewrite bind_ok. intros Hf.
    destruct (item_step_sound P R neg it dur d1 isDate Hit E1) as (Hd1 & t & -> & Et & _).
    destruct (IH _ _ Hd1 Hf) as (Hfd & Eq). split; [exact Hfd|].
    rewrite signed_sg in Et. clear - Et Eq. lia.
Qed.

Lemma items_total_sgn P neg its : Forall item_any its -> forallb (item_fine P neg) its = true ->
  sgn_ok neg (items_total P neg its).
Proof.
  induction 1 as [|it r Hit Hr IH]; cbn [forallb items_total]; intros Hf; [apply sgn_zero|].
  destruct Hit as (isDate & Hit).
  apply andb_true_iff in Hf. destruct Hf as (H1 & H2). unfold item_fine in H1. apply andb_true_iff in H1. destruct H1 as (_ & He).
  apply sgn_add; [apply sgn_add|].
  - apply (item_r_sgn P neg it isDate Hit).
  - apply (item_t_spec P neg it isDate Hit He).
  - apply IH. exact H2.
Qed.

Lemma items_total_exact P neg its : Forall item_any its -> forallb (item_fine P neg) its = true ->
  (items_total P neg its - items_r P neg its) * pnum P = sg neg * items_secs its * pden P.
Proof.
  induction 1 as [|it r Hit Hr IH]; cbn [forallb items_total items_r items_secs]; intros Hf; [lia|].
  destruct Hit as (isDate & Hit).
  apply andb_true_iff in Hf. destruct Hf as (H1 & H2). unfold item_fine in H1. apply andb_true_iff in H1. destruct H1 as (_ & He).
  destruct (item_t_spec P neg it isDate Hit He) as (Et & _). specialize (IH H2). rewrite signed_sg in Et.
  clear - Et IH. lia.
Qed.

Lemma fold_complete P R neg its : fits R 0 = true -> Forall item_any its -> forallb (item_fine P neg) its = true ->
  forall dur, sgn_ok neg dur -> fits R dur = true -> fits R (dur + items_total P neg its) = true ->
  fold_items P R neg its dur = Ok (dur + items_total P neg its).
Proof.
  intros HR. induction 1 as [|it r Hit Hr IH]; cbn [forallb items_total fold_items]; intros Hf dur Hs Hd Hfin.
  - rewrite Z.add_0_r. reflexivity.
  - destruct Hit as (isDate & Hit).
    apply andb_true_iff in Hf. destruct Hf as (H1 & H2). unfold item_fine in H1. apply andb_true_iff in H1. destruct H1 as (Hm & He).
    pose proof (items_total_sgn P neg r Hr H2) as Hsr.
    pose proof (item_r_sgn P neg it isDate Hit) as Hs1.
    destruct (item_t_spec P neg it isDate Hit He) as (_ & Hs2).
    pose proof (sgn_add _ _ _ Hs1 Hs2) as Hs12.
    assert (Hmid : fits R (dur + item_r P neg it + item_t P neg it) = true).
    { rewrite <- Z.add_assoc. apply (sgn_between R neg dur _ (items_total P neg r)); try assumption.
      rewrite <- Hfin. f_equal. ring. }
    rewrite (item_step_complete P R neg it dur isDate HR Hit Hm He Hs Hd Hmid), bind_ok.
    rewrite IH; try assumption.
    + f_equal. ring.
    + rewrite <- Z.add_assoc. apply sgn_add; assumption.
    + rewrite <- Hfin. f_equal. ring.
Qed.

(* ------------------------------------------------------------------ the loop over a sequence of components *)

Fixpoint texts (its : list item) : list N := match its with [] => [] | it :: r => item_text it ++ texts r end.

Lemma item_text_head isDate it rest : item_ok isDate it -> exists c t, item_text it ++ rest = c :: t /\ is_digit c = true.
Proof.
  destruct it as [ds sym X | ds sep fs]; cbn [item_ok item_text].
  - intros (_ & Hd & Hne). rewrite <- app_assoc. apply hd_digit; assumption.
  - intros (_ & Hd & Hne & _). rewrite <- app_assoc. apply hd_digit; assumption.
Qed.

Lemma loop_digit f D l isDate neg dur c t : l = c :: t -> is_digit c = true ->
  dur_loop (S f) D l isDate neg dur =
  (r <- parse_next_part D l isDate neg dur ;;
   match fst r with [] => Ok (snd r) | c :: _ => if is_space c then Ok (snd r) else dur_loop f D (fst r) isDate neg (snd r) end).
Proof.
  intros -> Hc. cbn [dur_loop].
  replace ((c =? c_T)%N) with false by (unfold is_digit, c_T in *; lia). rewrite andb_false_r.
  destruct (parse_next_part D (c :: t) isDate neg dur) as [[rest d]| | |]; reflexivity.
Qed.

Definition cont (k : nat) (D : dty) (tl : list N) (isDate neg : bool) (d : Z) : outcome Z :=
  match tl with [] => Ok d | c :: _ => if is_space c then Ok d else dur_loop k D tl isDate neg d end.

Lemma loop_items P R neg isDate tl its : repd R neg -> Forall (item_ok isDate) its -> its <> [] ->
  forall fuel dur, (length its <= fuel)%nat -> fits R dur = true ->
  dur_loop fuel (pty P R) (texts its ++ tl) isDate neg dur =
  (d <- fold_items P R neg its dur ;; cont (fuel - length its) (pty P R) tl isDate neg d).
Proof.
  intros HR. induction 1 as [|it r Hit Hr IH]; intros Hne fuel dur Hfu Hd; [congruence|].
  cbn [texts fold_items length] in *. destruct fuel as [|f]; [lia|].
  rewrite <- app_assoc.
  destruct (item_text_head isDate it (texts r ++ tl) Hit) as (c & t & E & Hc).
  rewrite (loop_digit f _ _ isDate neg dur c t E Hc).
  rewrite (pnp_item_d P R it (texts r ++ tl) isDate neg dur HR Hit Hd).
  destruct (item_step P R neg it dur) as [d1| | |] eqn:E1; cbn [bind]; try reflexivity.
  cbn [fst snd].
  assert (Hd1 : fits R d1 = true) by (destruct (item_step_sound P R neg it dur d1 isDate Hit E1) as (H & _); exact H).
  destruct r as [|it2 r2].
  - cbn [texts app fold_items length]. replace (S f - 1)%nat with f by lia. reflexivity.
  - assert (Hne2 : it2 :: r2 <> []) by congruence.
    inversion Hr as [|? ? Hit2 Hr2]. subst.
    destruct (item_text_head isDate it2 (texts r2 ++ tl) Hit2) as (c2 & t2 & E2 & Hc2).
    cbn [texts]. rewrite <- app_assoc. rewrite E2.
    replace (is_space c2) with false by (unfold is_digit, is_space in *; lia).
    rewrite <- E2, app_assoc. change (item_text it2 ++ texts r2) with (texts (it2 :: r2)).
    rewrite (IH Hne2 f d1); [reflexivity | cbn [length] in *; lia | exact Hd1].
Qed.

(* ------------------------------------------------------------------ the components of a text of the grammar *)

Definition oitem (o : option (list N)) (sym : N) (X : Z) : list item :=
  match o with None => [] | Some ds => [Plain ds sym X] end.
Definition date_items (f : dur_fields) : list item := oitem (df_w f) c_W 604800 ++ oitem (df_dd f) c_D 86400.
Definition sec_items (f : dur_fields) : list item :=
  match df_ss f with
  | None => []
  | Some (ds, None) => [Plain ds c_S 1]
  | Some (ds, Some (sep, fs)) => [Frac ds sep fs]
  end.
Definition time_items (f : dur_fields) : list item := oitem (df_hh f) c_H 3600 ++ oitem (df_mm f) c_M 60 ++ sec_items f.
Definition df_items (f : dur_fields) : list item := date_items f ++ time_items f.

Lemma texts_app a b : texts (a ++ b) = texts a ++ texts b.
Proof. induction a as [|it a IH]; cbn [texts app]; [reflexivity|]. rewrite IH, app_assoc. reflexivity. Qed.

Lemma texts_oitem o sym X : texts (oitem o sym X) = opt_part o sym.
Proof. destruct o; cbn [oitem texts item_text opt_part]; [rewrite app_nil_r|]; reflexivity. Qed.

Lemma time_present_items f : df_time_present f = match time_items f with [] => false | _ => true end.
Proof.
  unfold df_time_present, time_items, sec_items.
  destruct (df_hh f), (df_mm f), (df_ss f) as [[ds [[sep fs]|]]|]; reflexivity.
Qed.

Lemma render_items f : df_render f =
  (if df_neg f then [c_minus] else if df_plus f then [c_plus] else []) ++ c_P ::
  texts (date_items f) ++ match time_items f with [] => [] | _ => c_T :: texts (time_items f) end.
Proof.
  unfold df_render. f_equal. cbn [app]. f_equal.
  unfold date_items. rewrite texts_app, !texts_oitem, <- app_assoc. f_equal. f_equal.
  rewrite time_present_items.
  destruct (time_items f) eqn:E; [reflexivity|]. rewrite <- E. cbn [app]. f_equal.
  unfold time_items. rewrite !texts_app, !texts_oitem. f_equal. f_equal.
  unfold sec_items. destruct (df_ss f) as [[ds [[sep fs]|]]|]; cbn [texts item_text app]; rewrite ?app_nil_r; reflexivity.
Qed.

Lemma oitem_ok o sym X isDate : opt_digits_ok o -> letter_of sym isDate X -> Forall (item_ok isDate) (oitem o sym X).
Proof.
  destruct o as [ds|]; cbn [opt_digits_ok oitem]; [|constructor].
  intros (H1 & H2) H. constructor; [|constructor]. cbn [item_ok]. auto.
Qed.

Lemma items_ok f : df_wf f -> Forall (item_ok true) (date_items f) /\ Forall (item_ok false) (time_items f).
Proof.
  intros (_ & Hw & Hd & Hh & Hm & Hs & _). split.
  - unfold date_items. apply Forall_app. split; apply oitem_ok; try assumption.
    + left. auto.
    + right. left. auto.
  - unfold time_items. apply Forall_app. split; [|apply Forall_app; split].
    + apply oitem_ok; [assumption|]. right. right. left. auto.
    + apply oitem_ok; [assumption|]. right. right. right. left. auto.
    + unfold sec_items. destruct (df_ss f) as [[ds [[sep fs]|]]|]; [| |constructor].
      * destruct Hs as (H1 & H2 & H3 & H4 & H5). pose proof (flen_of_len fs H4 H5). constructor; [|constructor]. cbn [item_ok]. auto 10.
      * destruct Hs as (H1 & H2 & _). constructor; [|constructor]. cbn [item_ok]. repeat split; auto.
        right. right. right. right. auto.
Qed.

Lemma items_secs_app a b : items_secs (a ++ b) = items_secs a + items_secs b.
Proof. induction a as [|it a IH]; cbn [items_secs app]; [reflexivity|]. rewrite IH. ring. Qed.
Lemma items_r_app P neg a b : items_r P neg (a ++ b) = items_r P neg a + items_r P neg b.
Proof. induction a as [|it a IH]; cbn [items_r app]; [reflexivity|]. rewrite IH. ring. Qed.

Lemma items_secs_oitem o sym X : items_secs (oitem o sym X) = optv o * X.
Proof. destruct o; cbn [oitem items_secs item_v item_x optv]; lia. Qed.
Lemma items_r_oitem P neg o sym X : items_r P neg (oitem o sym X) = 0.
Proof. destruct o; cbn [oitem items_r]; [|reflexivity]. unfold item_r. cbn [item_fns]. rewrite rhe_zero. reflexivity. Qed.

Lemma df_items_secs f : items_secs (df_items f) = df_secs f.
Proof.
  unfold df_items, date_items, time_items, df_secs. rewrite !items_secs_app, !items_secs_oitem.
  unfold sec_items. destruct (df_ss f) as [[ds [[sep fs]|]]|]; cbn [items_secs item_v item_x]; lia.
Qed.

Lemma df_items_r P neg f : items_r P neg (df_items f) = round_half_even (signed neg (df_fns f)) (tick_ns P).
Proof.
  unfold df_items, date_items, time_items, df_fns. rewrite !items_r_app, !items_r_oitem.
  unfold sec_items. destruct (df_ss f) as [[ds [[sep fs]|]]|]; cbn [items_r]; unfold item_r; cbn [item_fns]; rewrite ?rhe_zero; lia.
Qed.

(* ------------------------------------------------------------------ the parser on a text of the grammar *)

Lemma texts_length its isDate : Forall (item_ok isDate) its -> (length its <= length (texts its))%nat.
Proof.
  induction 1 as [|it r Hit Hr IH]; cbn [texts length]; [lia|].
  destruct (item_text_head isDate it [] Hit) as (c & t & E & _). rewrite app_nil_r in E.
  rewrite app_length, E. cbn [length]. lia.
Qed.

Lemma dur_parse_items P R f : repd R (df_neg f) -> df_wf f ->
  dur_parse P R (df_render f) = fold_items P R (df_neg f) (df_items f) 0.
Proof.
  intros HR Hwf. destruct (items_ok f Hwf) as (Hdi & Hti).
  pose proof (texts_length _ _ Hdi) as Hld. pose proof (texts_length _ _ Hti) as Hlt.
  destruct Hwf as (Hsign & _ & _ & _ & _ & _ & Hany).
  assert (Hne : date_items f <> [] \/ time_items f <> []).
  { rewrite time_present_items in Hany. unfold date_items.
    destruct (df_w f); [left; discriminate|]. destruct (df_dd f); [left; discriminate|].
    destruct (time_items f); [|right; discriminate]. destruct Hany as [H|[H|H]]; congruence. }
  set (body := texts (date_items f) ++ match time_items f with [] => [] | _ => c_T :: texts (time_items f) end).
  assert (Hbody : (2 <= length body)%nat).
  { unfold body. rewrite app_length.
    destruct Hne as [Hn|Hn].
    - destruct (date_items f) as [|it r] eqn:E; [congruence|]. inversion Hdi as [|? ? Hit Hr]. subst.
      cbn [texts] in *. destruct it as [ds sym X|ds sep fs]; cbn [item_ok item_text] in *.
      + destruct Hit as (_ & _ & Hn0). destruct ds; [congruence|]. rewrite !app_length. cbn [length]. lia.
      + destruct Hit as (_ & _ & Hn0 & _). destruct ds; [congruence|]. rewrite !app_length. cbn [length]. lia.
    - destruct (time_items f) as [|it r] eqn:E; [congruence|]. rewrite <- E in *. cbn [length].
      destruct (time_items f); [congruence|]. cbn [length] in Hlt. lia. }
  assert (Hloop : forall fuel, (length body <= fuel)%nat ->
     dur_loop fuel (pty P R) body true (df_neg f) 0 = fold_items P R (df_neg f) (df_items f) 0).
  { intros fuel Hfu. unfold body in *. rewrite app_length in Hfu. unfold df_items. rewrite fold_app.
    pose proof (repd_zero R _ HR) as H0.
    destruct (time_items f) as [|ti tr] eqn:Et.
    - destruct Hne as [Hn|Hn]; [|congruence].
      rewrite (loop_items P R (df_neg f) true [] (date_items f) HR Hdi Hn fuel 0) by (cbn [length] in *; lia || exact H0).
      destruct (fold_items P R (df_neg f) (date_items f) 0); reflexivity.
    - rewrite <- Et in *. assert (Hnt : time_items f <> []) by (rewrite Et; discriminate).
      cbn [length] in Hfu.
      destruct (date_items f) as [|di dr] eqn:Ed.
      + cbn [texts app fold_items]. rewrite bind_ok.
        destruct fuel as [|fu]; [lia|]. rewrite loop_T.
        rewrite <- (app_nil_r (texts (time_items f))).
        rewrite (loop_items P R (df_neg f) false [] (time_items f) HR Hti Hnt (S fu) 0) by (cbn [length] in *; lia || exact H0).
        destruct (fold_items P R (df_neg f) (time_items f) 0); reflexivity.
      + rewrite <- Ed in *. assert (Hnd : date_items f <> []) by (rewrite Ed; discriminate).
        rewrite (loop_items P R (df_neg f) true (c_T :: texts (time_items f)) (date_items f) HR Hdi Hnd fuel 0) by (lia || exact H0).
        destruct (fold_items P R (df_neg f) (date_items f) 0) as [d1| | |] eqn:E1; cbn [bind]; try reflexivity.
        assert (Hd1 : fits R d1 = true) by (destruct (fold_sound P R (df_neg f) _ (any_of _ _ Hdi) 0 d1 H0 E1) as (H & _); exact H).
        unfold cont. replace (is_space c_T) with false by reflexivity.
        destruct (fuel - length (date_items f))%nat as [|fu] eqn:Ef; [lia|]. rewrite loop_T.
        rewrite <- (app_nil_r (texts (time_items f))).
        rewrite (loop_items P R (df_neg f) false [] (time_items f) HR Hti Hnt (S fu) d1) by (lia || exact Hd1).
        destruct (fold_items P R (df_neg f) (time_items f) d1); reflexivity. }
  rewrite render_items. fold body. unfold dur_parse, dur_parse_fuel.
  destruct (df_neg f) eqn:En; [|destruct (df_plus f) eqn:Ep].
  - cbn [app length]. replace (3 <=? S (S (length body)))%nat with true by (symmetry; apply Nat.leb_le; lia).
    replace ((c_minus =? c_minus)%N) with true by reflexivity. cbn [orb].
    replace ((c_P =? c_P)%N) with true by reflexivity.
    assert (Hsg : is_signed R = true) by (destruct HR as [[-> | ->]|[_ H]]; [reflexivity | reflexivity | discriminate H]).
    rewrite Hsg. cbn [negb andb].
    apply Hloop. lia.
  - cbn [app length]. replace (3 <=? S (S (length body)))%nat with true by (symmetry; apply Nat.leb_le; lia).
    replace ((c_plus =? c_minus)%N) with false by reflexivity. replace ((c_plus =? c_plus)%N) with true by reflexivity. cbn [orb].
    replace ((c_P =? c_P)%N) with true by reflexivity. cbn [andb].
    apply Hloop. lia.
  - cbn [app length]. replace (3 <=? S (length body))%nat with true by (symmetry; apply Nat.leb_le; lia).
    replace ((c_P =? c_minus)%N) with false by reflexivity. replace ((c_P =? c_plus)%N) with false by reflexivity. cbn [orb].
    replace ((c_P =? c_P)%N) with true by reflexivity. cbn [andb].
    apply Hloop. lia.
Qed.

(* ------------------------------------------------------------------ the denoted count *)

Definition dur_expected (P : prec) (R : ity) (f : dur_fields) : outcome Z :=
  match count_of P (sg (df_neg f) * df_secs f) (sg (df_neg f) * df_fns f) with
  | Some t => if fits R t then Ok t else Err OutOfRange
  | None => Err OutOfRange
  end.

Lemma count_of_some P S F c :
  count_of P S F = Some c <-> c * pnum P = S * pden P + round_half_even F (tick_ns P) * pnum P.
Proof.
  unfold count_of. destruct P; cbn [tick_ns pnum pden]; set (r := round_half_even F _); clearbody r;
    match goal with |- context [?a <=? ?b] => let v := eval vm_compute in (a <=? b) in change (a <=? b) with v end; cbv iota.
  1-3: match goal with |- context [?a / ?b] => let v := eval vm_compute in (a / b) in change (a / b) with v end;
       split; intros H; [inversion H; lia | f_equal; lia].
  all: match goal with |- context [?a =? 0] => destruct (Z.eqb_spec a 0) as [E|E] end;
       (split; intros H; [inversion H; lia | first [f_equal; lia | exfalso; lia]]).
Qed.

Lemma df_items_any f : df_wf f -> Forall item_any (df_items f).
Proof.
  intros Hwf. destruct (items_ok f Hwf) as (H1 & H2). unfold df_items. apply Forall_app.
  split; [apply (any_of true) | apply (any_of false)]; assumption.
Qed.

(* whatever the parser returns is the denoted count *)
Lemma fold_denoted P R f d : fits R 0 = true -> df_wf f -> fold_items P R (df_neg f) (df_items f) 0 = Ok d ->
  fits R d = true /\ count_of P (sg (df_neg f) * df_secs f) (sg (df_neg f) * df_fns f) = Some d.
Proof.
  intros HR Hwf Hf.
  destruct (fold_sound P R (df_neg f) _ (df_items_any f Hwf) 0 d HR Hf) as (Hd & Eq).
  split; [exact Hd|]. apply count_of_some.
  rewrite df_items_secs, df_items_r, signed_sg in Eq. clear - Eq. lia.
Qed.

Theorem dur_parse_sound_d P R f d : repd R (df_neg f) -> df_wf f ->
  dur_parse P R (df_render f) = Ok d -> dur_expected P R f = Ok d.
Proof.
  intros HR Hwf. rewrite (dur_parse_items P R f HR Hwf). intros Hf.
  destruct (fold_denoted P R f d (repd_zero R _ HR) Hwf Hf) as (Hd & Ec). unfold dur_expected. rewrite Ec, Hd. reflexivity.
Qed.

(* value, or out_of_range: nothing else *)
Theorem dur_classify_weak_d P R f : repd R (df_neg f) -> df_wf f ->
  dur_parse P R (df_render f) = dur_expected P R f \/ dur_parse P R (df_render f) = Err OutOfRange.
Proof.
  intros HR Hwf.
  destruct (fold_okoor P R (df_neg f) (df_items f) 0) as [(d & Hd)|Hd]; rewrite <- (dur_parse_items P R f HR Hwf) in Hd.
  - left. rewrite Hd. symmetry. apply dur_parse_sound_d; assumption.
  - right. exact Hd.
Qed.

(* the class in which a representable value may be refused: a component that is not a whole number of ticks of
   the target by itself, or whose digits exceed uint64 (2^63 after a minus sign) *)
Definition dur_split (P : prec) (f : dur_fields) : bool := negb (forallb (item_fine P (df_neg f)) (df_items f)).

Theorem dur_classify_grammar_d P R f : repd R (df_neg f) -> df_wf f -> dur_split P f = false ->
  dur_parse P R (df_render f) = dur_expected P R f.
Proof.
  intros HR Hwf Hcls. unfold dur_split in Hcls. apply negb_false_iff in Hcls.
  pose proof (df_items_any f Hwf) as Hany.
  destruct (dur_expected P R f) as [c| | |] eqn:Ee.
  - unfold dur_expected in Ee. destruct (count_of P _ _) as [c'|] eqn:Ec; [|discriminate].
    destruct (fits R c') eqn:Efc; [|discriminate]. inversion Ee. subst c'.
    apply count_of_some in Ec.
    pose proof (items_total_exact P (df_neg f) _ Hany Hcls) as Et.
    rewrite df_items_secs, df_items_r, signed_sg in Et.
    destruct (prec_facts P) as (Hpn & _).
    assert (E : items_total P (df_neg f) (df_items f) = c).
    { apply (Z.mul_reg_r _ _ (pnum P)); [lia|]. clear - Et Ec. lia. }
    rewrite (dur_parse_items P R f HR Hwf).
    rewrite (fold_complete P R (df_neg f) _ (repd_zero R _ HR) Hany Hcls 0 (sgn_zero _) (repd_zero R _ HR)); rewrite Z.add_0_l, E; [reflexivity | exact Efc].
  - destruct (dur_classify_weak_d P R f HR Hwf) as [H|H]; [rewrite H, Ee; reflexivity|].
    unfold dur_expected in Ee. destruct (count_of P _ _); [destruct (fits R z)|]; inversion Ee; subst; exact H.
  - unfold dur_expected in Ee. destruct (count_of P _ _); [destruct (fits R z)|]; discriminate.
  - unfold dur_expected in Ee. destruct (count_of P _ _); [destruct (fits R z)|]; discriminate.
Qed.

(* the int64 / int32 statements *)
Theorem dur_parse_sound P R f d : rep2 R -> df_wf f ->
  dur_parse P R (df_render f) = Ok d -> dur_expected P R f = Ok d.
Proof. intros HR. apply dur_parse_sound_d. left. exact HR. Qed.

Theorem dur_classify_weak P R f : rep2 R -> df_wf f ->
  dur_parse P R (df_render f) = dur_expected P R f \/ dur_parse P R (df_render f) = Err OutOfRange.
Proof. intros HR. apply dur_classify_weak_d. left. exact HR. Qed.

Theorem dur_classify_grammar P R f : rep2 R -> df_wf f -> dur_split P f = false ->
  dur_parse P R (df_render f) = dur_expected P R f.
Proof. intros HR. apply dur_classify_grammar_d. left. exact HR. Qed.

(* a minus sign into an unsigned target: refused at once (even "-PT0S", whose value zero is representable) *)
Lemma dur_parse_neg_unsigned P R f : is_signed R = false -> df_wf f -> df_neg f = true ->
  dur_parse P R (df_render f) = Err OutOfRange.
Proof.
  intros Hs Hwf Hn. destruct (items_ok f Hwf) as (Hdi & Hti).
  pose proof (texts_length _ _ Hdi) as Hld. pose proof (texts_length _ _ Hti) as Hlt.
  rewrite render_items, Hn. unfold dur_parse, dur_parse_fuel.
  set (body := texts (date_items f) ++ match time_items f with [] => [] | _ => c_T :: texts (time_items f) end).
  assert (Hbody : (1 <= length body)%nat).
  { unfold body. rewrite app_length. destruct Hwf as (_ & _ & _ & _ & _ & _ & Hany).
    rewrite time_present_items in Hany.
    destruct (time_items f) as [|ti tr]; cbn [length]; [|lia].
    assert (date_items f <> []).
    { unfold date_items. destruct (df_w f); [discriminate|]. destruct (df_dd f); [discriminate|].
      destruct Hany as [H|[H|H]]; congruence. }
    destruct (date_items f); [congruence | cbn [length] in Hld; lia]. }
  cbn [app length]. replace (3 <=? S (S (length body)))%nat with true by (symmetry; apply Nat.leb_le; lia).
  replace ((c_minus =? c_minus)%N) with true by reflexivity. cbn [orb].
  replace ((c_P =? c_P)%N) with true by reflexivity. rewrite Hs. reflexivity.
Qed.

(* for seconds and finer targets every component is a whole number of ticks: the class is the magnitude limit only *)
Lemma item_exact_fine P it : pnum P = 1 -> item_exact P it = true.
Proof. intros H. unfold item_exact. rewrite H, Z.mod_1_r. reflexivity. Qed.

Lemma dur_split_fine P f : pnum P = 1 -> forallb (fun it => mag_ok (df_neg f) (item_v it)) (df_items f) = true -> dur_split P f = false.
Proof.
  intros HP H. unfold dur_split. apply negb_false_iff. rewrite forallb_forall in *. intros it Hin.
  unfold item_fine. rewrite (H it Hin), (item_exact_fine P it HP). reflexivity.
Qed.

(* K49: "PT30M1800S" is one hour; read into hours it is refused *)
Definition fields_K49 : dur_fields :=
  mkDF false false None None None (Some [51; 48]%N) (Some ([49; 56; 48; 48]%N, None)).

Lemma w_K49 : df_wf fields_K49 /\ dur_split Ph fields_K49 = true /\ dur_expected Ph I64 fields_K49 = Ok 1 /\
  dur_parse Ph I64 (df_render fields_K49) = Err OutOfRange.
Proof.
  split; [|vm_compute; auto].
  unfold df_wf, fields_K49. cbn. repeat split; try discriminate; auto.
Qed.

(* ------------------------------------------------------------------ texts of the grammar contain no white space *)

Lemma digits_nospace ds c : all_digits ds = true -> In c ds -> is_space c = false.
Proof.
  unfold all_digits. rewrite forallb_forall. intros H Hin. specialize (H c Hin).
  unfold is_digit, is_space in *. lia.
Qed.

Lemma item_nospace b it c : item_ok b it -> In c (item_text it) -> is_space c = false.
Proof.
  destruct it as [ds sym X | ds sep fs]; cbn [item_ok item_text].
  - intros (Hs & Hd & _) Hin. apply in_app_or in Hin. destruct Hin as [Hin|[<-|[]]].
    + apply (digits_nospace ds); assumption.
    + apply (letter_facts sym b X Hs).
  - intros (_ & Hd & _ & Hsep & Hfd & _) Hin. apply in_app_or in Hin. destruct Hin as [Hin|[<-|Hin]].
    + apply (digits_nospace ds); assumption.
    + destruct Hsep as [-> | ->]; reflexivity.
    + apply in_app_or in Hin. destruct Hin as [Hin|[<-|[]]]; [apply (digits_nospace fs); assumption | reflexivity].
Qed.

Lemma texts_nospace b its c : Forall (item_ok b) its -> In c (texts its) -> is_space c = false.
Proof.
  induction 1 as [|it r Hit Hr IH]; cbn [texts]; [intros []|].
  intros Hin. apply in_app_or in Hin. destruct Hin as [Hin|Hin]; [apply (item_nospace b it c Hit Hin) | apply IH; exact Hin].
Qed.

Lemma render_nospace f c : df_wf f -> In c (df_render f) -> is_space c = false.
Proof.
  intros Hwf. destruct (items_ok f Hwf) as (Hdi & Hti). rewrite render_items. intros Hin.
  apply in_app_or in Hin. destruct Hin as [Hin|[<-|Hin]].
  - destruct (df_neg f); [|destruct (df_plus f)]; cbn [In] in Hin; intuition (subst; reflexivity).
  - reflexivity.
  - apply in_app_or in Hin. destruct Hin as [Hin|Hin]; [apply (texts_nospace true _ c Hdi Hin)|].
    destruct (time_items f) eqn:E; [destruct Hin|]. rewrite <- E in *.
    destruct Hin as [<-|Hin]; [reflexivity | apply (texts_nospace false _ c Hti Hin)].
Qed.

Lemma space_not_grammar s : In 32%N s -> ~ dur_grammar s.
Proof. intros Hin (f & Hwf & ->). pose proof (render_nospace f 32%N Hwf Hin) as H. discriminate H. Qed.
