(* ChronoDurDenote.v — C14, durations: the text To(duration) -> string prints is df_render f for a field record f of the
   specification's ISO-8601 duration grammar (df_wf f), and f denotes exactly the printed count:
   df_value_ns f = count * tick_ns. *)
From BS Require Import Base ChronoSpec ChronoModel ChronoArith ChronoDecimal ChronoSafe ChronoSafeAdd ChronoText ChronoTp
  ChronoTpParse ChronoTpRt ChronoDur ChronoDurPrint ChronoDurParse ChronoDurRt ChronoClassify ChronoClassify2 ChronoReject
  ChronoDurClassify.
From Coq Require Import ZifyBool ZifyN ZifyNat.
Local Open Scope Z_scope.

Definition ocomp (q : Z) : option (list N) := if q =? 0 then None else Some (dec (Z.abs q)).

Lemma opt_part_ocomp q sym : opt_part (ocomp q) sym = opt_comp q sym.
Proof. unfold ocomp, opt_comp, opt_part. destruct (q =? 0); reflexivity. Qed.

Lemma ocomp_ok q : Z.abs q < p10 20 -> opt_digits_ok (ocomp q).
Proof.
  intros Hq. unfold ocomp, opt_digits_ok. destruct (q =? 0); [exact I|].
  split; [apply dec_nonempty; lia | apply dec_spec; lia].
Qed.

Lemma optv_ocomp q : Z.abs q < p10 20 -> optv (ocomp q) = Z.abs q.
Proof.
  intros Hq. unfold ocomp, optv. destruct (Z.eqb_spec q 0) as [->|_]; [reflexivity|]. apply dec_spec. lia.
Qed.

Definition sec_text (ss : option (list N * option (N * list N))) : list N :=
  match ss with
  | None => []
  | Some (ds, None) => ds ++ [c_S]
  | Some (ds, Some (sep, fs)) => ds ++ [sep] ++ fs ++ [c_S]
  end.
Definition sec_wf (ss : option (list N * option (N * list N))) : Prop :=
  match ss with
  | None => True
  | Some (ds, fr) => ds <> [] /\ all_digits ds = true /\
      match fr with None => True
      | Some (sep, fs) => (sep = c_dot \/ sep = c_comma) /\ all_digits fs = true /\ (1 <= length fs <= 9)%nat end
  end.
Definition sec_secs (ss : option (list N * option (N * list N))) : Z :=
  match ss with None => 0 | Some (ds, _) => dec_value ds end.
Definition sec_fns (ss : option (list N * option (N * list N))) : Z :=
  match ss with Some (_, Some (_, fs)) => dec_value fs * 10 ^ (9 - Z.of_nat (length fs)) | _ => 0 end.

(* the record of a non-zero count: days, then (only if something is left) hours, minutes and seconds *)
Definition dur_record (c q1 r1 q2 q3 : Z) (ss : option (list N * option (N * list N))) : dur_fields :=
  mkDF (c <? 0) false None (ocomp q1)
       (if r1 =? 0 then None else ocomp q2) (if r1 =? 0 then None else ocomp q3) (if r1 =? 0 then None else ss).

Lemma record_render P c ss :
  let u1 := unit_ticks P 86400 in let u2 := unit_ticks P 3600 in let u3 := unit_ticks P 60 in
  let q1 := Z.quot c u1 in let r1 := Z.rem c u1 in
  let q2 := Z.quot r1 u2 in let r2 := Z.rem r1 u2 in
  let q3 := Z.quot r2 u3 in
  (r1 <> 0 -> q2 = 0 -> q3 = 0 -> ss <> None) ->
  df_render (dur_record c q1 r1 q2 q3 ss) = sign_text c ++ [c_P] ++ dur_tail P c (sec_text ss).
Proof.
  cbv zeta. intros Hpres. unfold df_render, dur_record, dur_tail, sign_text, df_time_present.
  cbn [df_neg df_plus df_w df_dd df_hh df_mm df_ss].
  set (q1 := Z.quot c (unit_ticks P 86400)) in *. set (r1 := Z.rem c (unit_ticks P 86400)) in *.
  set (q2 := Z.quot r1 (unit_ticks P 3600)) in *. set (q3 := Z.quot (Z.rem r1 (unit_ticks P 3600)) (unit_ticks P 60)) in *.
  replace (if c <? 0 then [c_minus] else if false then [c_plus] else []) with (if c <? 0 then [c_minus] else @nil N)
    by (destruct (c <? 0); reflexivity).
  f_equal. f_equal. change (opt_part None c_W) with (@nil N). rewrite app_nil_l. rewrite opt_part_ocomp. f_equal.
  destruct (Z.eqb_spec r1 0) as [E|E]; [reflexivity|].
  assert (Hp : match ocomp q2, ocomp q3, ss with None, None, None => false | _, _, _ => true end = true).
  { unfold ocomp. destruct (Z.eqb_spec q2 0) as [E2|E2]; [|reflexivity]. destruct (Z.eqb_spec q3 0) as [E3|E3]; [|reflexivity].
    destruct ss; [reflexivity|]. exfalso. exact (Hpres E E2 E3 eq_refl). }
  rewrite Hp, !opt_part_ocomp. reflexivity.
Qed.

Lemma record_wf c q1 r1 q2 q3 ss :
  Z.abs q1 < p10 20 -> Z.abs q2 < p10 20 -> Z.abs q3 < p10 20 -> sec_wf ss ->
  (q1 <> 0 \/ r1 <> 0) -> (r1 <> 0 -> q2 = 0 -> q3 = 0 -> ss <> None) ->
  df_wf (dur_record c q1 r1 q2 q3 ss).
Proof.
  intros H1 H2 H3 Hss Hany Hpres. unfold df_wf, dur_record, df_time_present.
  cbn [df_neg df_plus df_w df_dd df_hh df_mm df_ss].
  split; [reflexivity|]. split; [exact I|]. split; [apply ocomp_ok; exact H1|].
  split; [destruct (r1 =? 0); [exact I | apply ocomp_ok; exact H2]|].
  split; [destruct (r1 =? 0); [exact I | apply ocomp_ok; exact H3]|].
  split.
  - destruct (r1 =? 0); [exact I|]. unfold sec_wf in Hss. destruct ss as [[ds fr]|]; [|exact I].
    destruct Hss as (Ha & Hb & Hc). repeat split; auto.
  - destruct (Z.eqb_spec r1 0) as [E|E].
    + right. left. unfold ocomp. destruct (Z.eqb_spec q1 0); [|discriminate]. destruct Hany; contradiction.
    + right. right. unfold ocomp. destruct (Z.eqb_spec q2 0) as [E2|E2]; [|reflexivity].
      destruct (Z.eqb_spec q3 0) as [E3|E3]; [|reflexivity].
      destruct ss; [reflexivity|]. exfalso. exact (Hpres E E2 E3 eq_refl).
Qed.

Lemma record_value c q1 r1 q2 q3 ss :
  Z.abs q1 < p10 20 -> Z.abs q2 < p10 20 -> Z.abs q3 < p10 20 ->
  df_secs (dur_record c q1 r1 q2 q3 ss) =
    Z.abs q1 * 86400 + (if r1 =? 0 then 0 else Z.abs q2 * 3600 + Z.abs q3 * 60 + sec_secs ss) /\
  df_fns (dur_record c q1 r1 q2 q3 ss) = (if r1 =? 0 then 0 else sec_fns ss).
Proof.
  intros H1 H2 H3. unfold df_secs, df_fns, dur_record. cbn [df_w df_dd df_hh df_mm df_ss].
  rewrite (optv_ocomp q1 H1). change (optv None) with 0.
  destruct (r1 =? 0).
  - change (optv None) with 0. split; [lia | reflexivity].
  - rewrite (optv_ocomp q2 H2), (optv_ocomp q3 H3). unfold sec_secs, sec_fns.
    split; [destruct ss as [[ds fr]|]; lia | destruct ss as [[ds [[sep fs]|]]|]; reflexivity].
Qed.

(* a fraction of at most w digits is a whole number of ticks of 10^(9-w) ns *)
Lemma frac_ticks fs w : (length fs <= w <= 9)%nat ->
  dec_value fs * 10 ^ (9 - Z.of_nat (length fs)) = dec_value fs * p10 (w - length fs) * p10 (9 - w).
Proof.
  intros H. rewrite <- Z.mul_assoc, <- p10_add. unfold p10. do 2 f_equal. lia.
Qed.

Lemma tick_p10 P : sub_second P = true -> tick_ns P = p10 (9 - frac_digits P) /\ (frac_digits P <= 9)%nat.
Proof. destruct P; intros H; try discriminate; split; try reflexivity; cbn; lia. Qed.

(* the denotation follows from what the parser returns on the text: count_of is exact when the fraction is a whole
   number of ticks *)
Lemma denote_from_parse P R f c k : rep2 R -> df_wf f -> dur_parse P R (df_render f) = Ok c ->
  df_fns f = k * tick_ns P -> df_value_ns f = c * tick_ns P.
Proof.
  intros HR Hwf Hp Hk.
  pose proof (dur_parse_sound P R f c HR Hwf Hp) as He. unfold dur_expected in He.
  destruct (count_of P _ _) as [t|] eqn:Ec; [|discriminate]. destruct (fits R t); [|discriminate].
  inversion He. subst t. apply count_of_some in Ec.
  assert (Et : 0 < tick_ns P) by (destruct P; reflexivity).
  rewrite Hk in Ec. replace (sg (df_neg f) * (k * tick_ns P)) with (sg (df_neg f) * k * tick_ns P) in Ec by ring.
  rewrite rhe_exact in Ec by exact Et.
  unfold df_value_ns. rewrite Hk. fold (sg (df_neg f)).
  destruct (prec_facts P) as (Hpn & Hpd & _ & _ & _ & _ & Htk).
  set (s := sg (df_neg f)) in *. set (S := df_secs f) in *. set (T := tick_ns P) in *.
  apply (Z.mul_reg_r _ _ (pnum P)); [lia|].
  transitivity (s * S * (T * pden P) + s * k * T * pnum P); [rewrite Htk; ring|].
  transitivity (c * pnum P * T); [rewrite Ec; ring | ring].
Qed.

Theorem dur_print_denotes P R c : rep2 R -> fits R c = true ->
  exists f, df_wf f /\ dur_print P R c = Ok (df_render f) /\ df_value_ns f = c * tick_ns P.
Proof.
  intros HR Hc.
  destruct (Z.eq_dec c 0) as [->|Hnz].
  { exists (mkDF false false None None None None (Some ([ch0], None))).
    split; [|split].
    - unfold df_wf. cbn. repeat split; auto; discriminate.
    - exact (proj1 (dur_zero P R HR)).
    - reflexivity. }
  destruct (dur_print_ok P R c HR Hc Hnz) as (sectext & Eprint & Hsec0 & Hsec1). cbv zeta in Hsec0, Hsec1.
  destruct (dur_roundtrip P R c HR Hc) as (text & Ep2 & Eparse).
  assert (Hc64 : -9223372036854775808 <= c <= 9223372036854775807).
  { apply fits_iff in Hc. destruct HR as [HR' | HR']; rewrite HR' in Hc; unfold tmin, tmax, half in Hc; cbn [is_signed] in Hc; lia. }
  pose proof (dur_facts P c Hc64) as F. cbv zeta in F.
  pose proof (record_render P c) as Hrender. cbv zeta in Hrender.
  set (u1 := unit_ticks P 86400) in *. set (u2 := unit_ticks P 3600) in *. set (u3 := unit_ticks P 60) in *. set (u4 := unit_ticks P 1) in *.
  pose proof (Z.quot_rem' c u1) as I1.
  set (q1 := Z.quot c u1) in *. set (r1 := Z.rem c u1) in *.
  pose proof (Z.quot_rem' r1 u2) as I2.
  set (q2 := Z.quot r1 u2) in *. set (r2 := Z.rem r1 u2) in *.
  pose proof (Z.quot_rem' r2 u3) as I3.
  set (q3 := Z.quot r2 u3) in *. set (r3 := Z.rem r2 u3) in *.
  pose proof (Z.quot_rem' r3 u4) as I4.
  set (q4 := Z.quot r3 u4) in *. set (r4 := Z.rem r3 u4) in *.
  clearbody r4 q4 r3 q3 r2 q2 r1 q1.
  destruct F as (Hu1 & B1 & B2 & B3 & B4 & Z2 & Z3 & Z4 & Hns & Hss & _).
  assert (Hb1 : Z.abs q1 < p10 20).
  { assert (p10 (dK P) <= p10 20) by (apply p10_mono; destruct P; cbn; lia). lia. }
  assert (Hb2 : Z.abs q2 < p10 20) by (change (p10 20) with 100000000000000000000; lia).
  assert (Hb3 : Z.abs q3 < p10 20) by (change (p10 20) with 100000000000000000000; lia).
  assert (Hb4 : 0 <= Z.abs q4 < p10 20) by (change (p10 20) with 100000000000000000000; lia).
  (* the seconds component as a spec value *)
  assert (Hsec : exists ss k, sectext = sec_text ss /\ sec_wf ss /\ (ss = None -> r3 = 0) /\ sec_fns ss = k * tick_ns P).
  { destruct (sub_second P) eqn:Esub.
    - destruct (Hsec1 eq_refl) as [(E3 & ->)|(E3 & ds & -> & Hd & Hl & Hv)].
      + exists None, 0. repeat split; auto.
      + exists (Some (dec (Z.abs q4), Some (c_dot, ds))), (dec_value ds * p10 (frac_digits P - length ds)).
        destruct (tick_p10 P Esub) as (Et & Hw).
        split; [reflexivity|]. split; [|split; [discriminate|]].
        * cbn [sec_wf]. split; [apply dec_nonempty; exact Hb4|]. split; [apply dec_spec; exact Hb4|].
          split; [left; reflexivity|]. split; [exact Hd | lia].
        * cbn [sec_fns]. rewrite Et. apply frac_ticks. lia.
    - specialize (Hsec0 eq_refl). specialize (Hns eq_refl). subst sectext.
      destruct (Z.eqb_spec q4 0) as [E4|E4].
      + exists None, 0. unfold opt_comp. rewrite E4. repeat split; auto. intros _. clear - I4 E4 Hns. subst q4 r4. lia.
      + exists (Some (dec (Z.abs q4), None)), 0. unfold opt_comp. replace (q4 =? 0) with false by lia.
        split; [reflexivity|]. split; [|split; [discriminate | reflexivity]].
        cbn [sec_wf]. split; [apply dec_nonempty; exact Hb4|]. split; [apply dec_spec; exact Hb4 | exact I]. }
  destruct Hsec as (ss & k & -> & Hswf & Hsnone & Hk).
  assert (Hpres : r1 <> 0 -> q2 = 0 -> q3 = 0 -> ss <> None).
  { intros Hr1 E2 E3 En. specialize (Hsnone En). clear - I2 I3 E2 E3 Hsnone Hr1. subst q2 q3 r3. lia. }
  assert (Hany : q1 <> 0 \/ r1 <> 0).
  { destruct (Z.eq_dec q1 0) as [E|E]; [right | left; exact E]. clear - I1 E Hnz. subst q1. lia. }
  exists (dur_record c q1 r1 q2 q3 ss).
  pose proof (record_wf c q1 r1 q2 q3 ss Hb1 Hb2 Hb3 Hswf Hany Hpres) as Hwf.
  specialize (Hrender ss Hpres).
  split; [exact Hwf|]. split; [rewrite Hrender; exact Eprint|].
  assert (Etext : text = df_render (dur_record c q1 r1 q2 q3 ss)).
  { rewrite Hrender. rewrite Eprint in Ep2. inversion Ep2. reflexivity. }
  rewrite Etext in Eparse.
  destruct (record_value c q1 r1 q2 q3 ss Hb1 Hb2 Hb3) as (_ & Efns).
  apply (denote_from_parse P R _ c (if r1 =? 0 then 0 else k) HR Hwf Eparse).
  rewrite Efns. destruct (r1 =? 0); [lia | exact Hk].
Qed.

(* in the words of the specification: the printed text is in the documented grammar and denotes the duration *)
Corollary dur_print_grammar P R c : rep2 R -> fits R c = true ->
  exists text, dur_print P R c = Ok text /\ dur_grammar text /\ dur_denotes text (c * tick_ns P).
Proof.
  intros HR Hc. destruct (dur_print_denotes P R c HR Hc) as (f & Hwf & Ep & Ev).
  exists (df_render f). split; [exact Ep|]. split; exists f; auto.
Qed.
