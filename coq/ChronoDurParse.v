(* ChronoDurParse.v — To(string) -> duration on the text To(duration) -> string produces: one component
   (digits, optional fraction, unit letter) at a time. *)
From BS Require Import Base ChronoSpec ChronoModel ChronoArith ChronoDecimal ChronoSafe ChronoSafeAdd ChronoText ChronoTp
  ChronoTpParse ChronoDur ChronoDurPrint.
From Coq Require Import ZifyBool ZifyN ZifyNat Zquot.
Local Open Scope Z_scope.
Ltac Zify.zify_post_hook ::= Z.to_euclidean_division_equations.

(* unit letter of a section and its length in seconds *)
Definition unit_of (sym : N) (isDate : bool) (X : Z) : Prop :=
  (isDate = true /\ sym = c_D /\ X = 86400) \/ (isDate = false /\ sym = c_H /\ X = 3600) \/
  (isDate = false /\ sym = c_M /\ X = 60) \/ (isDate = false /\ sym = c_S /\ X = 1).

Lemma unit_of_x sym isDate X : unit_of sym isDate X -> unit_x X /\ is_digit sym = false /\
  (sym =? c_dot)%N = false /\ (sym =? c_comma)%N = false /\ is_space sym = false.
Proof.
  unfold unit_of, unit_x. intros [(_ & -> & ->)|[(_ & -> & ->)|[(_ & -> & ->)|(_ & -> & ->)]]]; repeat split; auto.
Qed.

Lemma unit_exact P X : unit_x X -> 1 <= unit_ticks P X -> unit_ticks P X * pnum P = X * pden P.
Proof.
  intros HX Hu. destruct P, HX as [->|[->|[->| ->]]]; vm_compute in Hu |- *; try reflexivity; exfalso; apply Hu; reflexivity.
Qed.

Lemma simple_ratio_unit P X r1 r2 : unit_x X -> 1 <= unit_ticks P X ->
  simple_ratio (mkD r1 X 1) (mkD r2 (pnum P) (pden P)).
Proof.
  intros HX Hu. unfold simple_ratio.
  destruct P, HX as [->|[->|[->| ->]]]; vm_compute in Hu; try (exfalso; apply Hu; reflexivity); vm_compute; auto.
Qed.

(* a whole number of units into the target duration *)
Lemma cast_unit P R srcR X val : rep2 R -> (srcR = I64 \/ srcR = U64) -> unit_x X -> 1 <= unit_ticks P X ->
  fits srcR val = true -> fits R (val * unit_ticks P X) = true ->
  safe_cast (mkD srcR X 1) (pty P R) val = Ok (val * unit_ticks P X).
Proof.
  intros HR Hsrc HX Hu Hv Hf. destruct (prec_facts P) as (Hpn & Hpd & _ & Hbn & Hbd & _).
  pose proof (unit_exact P X HX Hu) as Hex.
  unfold pty. apply safe_cast_complete; cbn [d_rep d_num d_den].
  - destruct Hsrc as [-> | ->]; unfold rep4; auto.
  - destruct HR as [-> | ->]; unfold rep4; auto.
  - split; cbn; destruct HX as [->|[->|[->| ->]]]; lia.
  - split; cbn; lia.
  - destruct HX as [->|[->|[->| ->]]]; lia.
  - lia.
  - exact Hv.
  - apply simple_ratio_unit; assumption.
  - exact Hf.
  - unfold exact_cast. cbn [d_num d_den]. rewrite Z.mul_1_l. rewrite <- Z.mul_assoc, Hex. ring.
Qed.

Lemma transform_unit P R srcR val sym isDate X : unit_of sym isDate X ->
  transform_to_duration (pty P R) srcR val sym isDate = safe_cast (mkD srcR X 1) (pty P R) val.
Proof.
  unfold unit_of, transform_to_duration.
  intros [(-> & -> & ->)|[(-> & -> & ->)|[(-> & -> & ->)|(-> & -> & ->)]]]; reflexivity.
Qed.

(* SafeAddDuration of a value that is already in the target type *)
Lemma sad_same P R dur t : rep2 R -> fits R dur = true -> fits R t = true -> fits R (dur + t) = true ->
  safe_add_dur (pty P R) dur (pty P R) t = Ok (dur + t).
Proof.
  intros HR Hd Ht Hs. destruct (prec_facts P) as (Hpn & Hpd & _).
  rewrite safe_add_dur_spec; try assumption.
  - destruct (Z.eqb_spec t 0) as [->|E]; [rewrite Z.add_0_r; reflexivity|].
    rewrite safe_cast_same. cbn [bind pty d_rep]. rewrite Hs. reflexivity.
  - unfold pty, rep4. cbn [d_rep]. destruct HR as [-> | ->]; auto.
  - unfold pty, wf_dty. cbn; lia.
Qed.

Lemma dec_head v rest : 0 <= v < p10 20 -> exists c t, dec v ++ rest = c :: t /\ is_digit c = true.
Proof.
  intros Hv. destruct (dec_spec v Hv) as (Hd & _). apply hd_digit; [exact Hd | apply dec_nonempty; exact Hv].
Qed.

(* one component without fraction: digits of |q|, unit letter *)
Lemma pnp_plain P R q sym X rest isDate neg dur :
  rep2 R -> unit_of sym isDate X -> 1 <= unit_ticks P X ->
  -9223372036854775808 <= q <= 9223372036854775807 -> (neg = true -> q <= 0) -> (neg = false -> 0 <= q) ->
  fits R dur = true -> fits R (q * unit_ticks P X) = true -> fits R (dur + q * unit_ticks P X) = true ->
  parse_next_part (pty P R) (dec (Z.abs q) ++ sym :: rest) isDate neg dur = Ok (rest, dur + q * unit_ticks P X).
Proof.
  intros HR Hsym Hu Hq Hneg Hpos Hd Hf Hs.
  destruct (unit_of_x sym isDate X Hsym) as (HX & Hnd & Hdot & Hcomma & _).
  assert (Hv20 : 0 <= Z.abs q < p10 20) by (change (p10 20) with 100000000000000000000; lia).
  destruct (dec_spec (Z.abs q) Hv20) as (Hdig & Hval & _).
  unfold parse_next_part.
  destruct (dec_head (Z.abs q) (sym :: rest) Hv20) as (c0 & t0 & E0 & Hc0). rewrite E0, Hc0, <- E0.
  rewrite from_chars_numeral; [| exact Hdig | apply dec_nonempty; exact Hv20 | exact Hnd].
  rewrite Hval. replace (fits U64 (Z.abs q)) with true by (symmetry; apply fits_U64; lia).
  rewrite Hdot, Hcomma. cbn [orb]. rewrite bind_ok.
  destruct neg.
  - specialize (Hneg eq_refl).
    replace (Z.abs q <=? 9223372036854775808) with true by lia.
    assert (Env : (if Z.abs q =? 9223372036854775808 then Ok (tmin I64) else arith I64 (- cast I64 (Z.abs q))) = Ok q).
    { destruct (Z.eqb_spec (Z.abs q) 9223372036854775808) as [E|E].
      - f_equal. change (tmin I64) with (-9223372036854775808). lia.
      - rewrite (cast_fits I64 (Z.abs q)) by (apply fits_I64; lia).
        rewrite arith_fits by (apply fits_I64; lia). f_equal. lia. }
    rewrite Env, bind_ok.
    rewrite (transform_unit P R I64 q sym isDate X Hsym).
    rewrite (cast_unit P R I64 X q HR ltac:(left; reflexivity) HX Hu ltac:(apply fits_I64; lia) Hf). rewrite bind_ok.
    rewrite (sad_same P R dur _ HR Hd Hf Hs). reflexivity.
  - specialize (Hpos eq_refl). rewrite Z.abs_eq in * by lia.
    rewrite (transform_unit P R U64 q sym isDate X Hsym).
    rewrite (cast_unit P R U64 X q HR ltac:(right; reflexivity) HX Hu ltac:(apply fits_U64; lia) Hf). rewrite bind_ok.
    rewrite (sad_same P R dur _ HR Hd Hf Hs). reflexivity.
Qed.

(* the seconds component of a sub-second precision: digits, '.', 1..w fraction digits, 'S' *)
Lemma pnp_frac P R q r ds rest neg dur :
  rep2 R -> sub_second P = true ->
  Z.abs q < 60 -> Z.abs r < pden P -> (neg = true -> q <= 0 /\ r <= 0) -> (neg = false -> 0 <= q /\ 0 <= r) ->
  all_digits ds = true -> (1 <= length ds <= frac_digits P)%nat ->
  dec_value ds * p10 (frac_digits P - length ds) = Z.abs r ->
  fits R dur = true -> fits R r = true -> fits R (dur + r) = true ->
  fits R (q * pden P) = true -> fits R (dur + r + q * pden P) = true ->
  parse_next_part (pty P R) (dec (Z.abs q) ++ [c_dot] ++ ds ++ c_S :: rest) false neg dur =
  Ok (rest, dur + r + q * pden P).
Proof.
  intros HR Hsub Hq Hr Hneg Hpos Hds Hl Hv Hd Hfr Hs1 Hfq Hs2.
  assert (Hu : unit_ticks P 1 = pden P /\ 1 <= pden P /\ pden P = p10 (frac_digits P) /\ (frac_digits P <= 9)%nat /\
               tick_ns P = p10 (9 - frac_digits P) /\ 0 < tick_ns P /\ pden P * tick_ns P = 1000000000).
  { destruct P; try discriminate Hsub; cbn; repeat split; auto; lia. }
  destruct Hu as (Hu & Hpd1 & Hp10 & Hw9 & Htick & Htk0 & Hpt).
  assert (Hv20 : 0 <= Z.abs q < p10 20) by (change (p10 20) with 100000000000000000000; lia).
  destruct (dec_spec (Z.abs q) Hv20) as (Hdig & Hval & _).
  unfold parse_next_part. cbn [app].
  destruct (dec_head (Z.abs q) (c_dot :: ds ++ c_S :: rest) Hv20) as (c0 & t0 & E0 & Hc0). rewrite E0, Hc0, <- E0.
  rewrite from_chars_numeral; [| exact Hdig | apply dec_nonempty; exact Hv20 | reflexivity].
  rewrite Hval. replace (fits U64 (Z.abs q)) with true by (symmetry; apply fits_U64; lia).
  replace ((c_dot =? c_dot)%N) with true by reflexivity. cbn [orb].
  rewrite (fraction_exact ds (c_S :: rest)); [| exact Hds | reflexivity | lia].
  replace ((c_S =? c_S)%N) with true by reflexivity. rewrite bind_ok. cbn [fst snd].
  (* the fraction in nanoseconds *)
  assert (Hns : dec_value ds * 10 ^ (9 - Z.of_nat (length ds)) = Z.abs r * tick_ns P).
  { rewrite <- Hv, Htick.
    replace (10 ^ (9 - Z.of_nat (length ds))) with (p10 (9 - length ds)) by (unfold p10; f_equal; lia).
    replace (9 - length ds)%nat with ((frac_digits P - length ds) + (9 - frac_digits P))%nat by lia.
    rewrite p10_add. ring. }
  rewrite Hns.
  assert (Hnsb : 0 <= Z.abs r * tick_ns P <= 999999999) by nia.
  set (sns := if neg then - (Z.abs r * tick_ns P) else Z.abs r * tick_ns P).
  assert (Esns : (if neg then arith I64 (- (Z.abs r * tick_ns P)) else Ok (Z.abs r * tick_ns P)) = Ok sns).
  { unfold sns. destruct neg; [rewrite arith_fits by (apply fits_I64; lia)|]; reflexivity. }
  rewrite Esns, bind_ok.
  assert (Esr : sns = r * tick_ns P).
  { unfold sns. destruct neg; [destruct (Hneg eq_refl) | destruct (Hpos eq_refl)]; lia. }
  rewrite dround_ns by (try exact HR; unfold sns; destruct neg; lia).
  rewrite Esr, rhe_exact by lia. rewrite bind_ok.
  rewrite (sad_same P R dur r HR Hd Hfr Hs1). rewrite bind_ok. cbn [fst snd]. cbv beta iota.
  assert (Hsym : unit_of c_S false 1) by (unfold unit_of; right; right; right; auto).
  destruct neg.
  - destruct (Hneg eq_refl) as [Hq0 Hr0].
    replace (Z.abs q <=? 9223372036854775808) with true by lia.
    replace (Z.abs q =? 9223372036854775808) with false by lia.
    rewrite (cast_fits I64 (Z.abs q)) by (apply fits_I64; lia).
    rewrite arith_fits by (apply fits_I64; lia). rewrite bind_ok.
    replace (- Z.abs q) with q by lia. rewrite ?bind_ok.
    rewrite (transform_unit P R I64 q c_S false 1 Hsym).
    rewrite (cast_unit P R I64 1 q HR ltac:(left; reflexivity) ltac:(unfold unit_x; auto) ltac:(lia) ltac:(apply fits_I64; lia)); rewrite Hu; [|exact Hfq].
    rewrite bind_ok. rewrite (sad_same P R (dur + r) _ HR Hs1 Hfq Hs2). reflexivity.
  - destruct (Hpos eq_refl) as [Hq0 Hr0]. replace (Z.abs q) with q by lia. rewrite ?bind_ok.
    rewrite (transform_unit P R U64 q c_S false 1 Hsym).
    rewrite (cast_unit P R U64 1 q HR ltac:(right; reflexivity) ltac:(unfold unit_x; auto) ltac:(lia) ltac:(apply fits_U64; lia)); rewrite Hu; [|exact Hfq].
    rewrite bind_ok. rewrite (sad_same P R (dur + r) _ HR Hs1 Hfq Hs2). reflexivity.
Qed.

(* ---------- the loop over the components ---------- *)

Lemma loop_T f D tt neg dur : dur_loop (S f) D (c_T :: tt) true neg dur = dur_loop (S f) D tt false neg dur.
Proof. cbn [dur_loop andb]. replace ((c_T =? c_T)%N) with true by reflexivity. destruct tt; reflexivity. Qed.

Lemma loop_step f D l isDate neg dur rest d' :
  (isDate = false \/ exists c t, l = c :: t /\ is_digit c = true) ->
  parse_next_part D l isDate neg dur = Ok (rest, d') ->
  dur_loop (S f) D l isDate neg dur =
  match rest with [] => Ok d' | c :: _ => if is_space c then Ok d' else dur_loop f D rest isDate neg d' end.
Proof.
  intros Hh Hp. cbn [dur_loop].
  assert (E : (match l with
               | c :: t => if isDate && (c =? c_T)%N then (false, t) else (isDate, l)
               | [] => (isDate, l)
               end) = (isDate, l)).
  { destruct Hh as [-> | (c & t & -> & Hc)]; [destruct l; reflexivity|].
    replace ((c =? c_T)%N) with false by (unfold is_digit, c_T in *; lia). rewrite andb_false_r. reflexivity. }
  rewrite E, Hp, bind_ok. reflexivity.
Qed.

Definition head_ok (l : list N) : Prop := l = [] \/ exists c t, l = c :: t /\ is_space c = false.

Lemma head_ok_digit c t : is_digit c = true -> head_ok (c :: t).
Proof. intros H. right. exists c, t. split; [reflexivity|]. unfold is_digit, is_space in *. lia. Qed.

Lemma head_ok_dec v rest : 0 <= v < p10 20 -> head_ok (dec v ++ rest).
Proof. intros Hv. destruct (dec_head v rest Hv) as (c & t & E & Hc). rewrite E. apply head_ok_digit. exact Hc. Qed.

(* a component followed by more text (or by the end) *)
Lemma loop_comp f P R q sym X rest isDate neg dur :
  rep2 R -> unit_of sym isDate X -> 1 <= unit_ticks P X ->
  -9223372036854775808 <= q <= 9223372036854775807 -> (neg = true -> q <= 0) -> (neg = false -> 0 <= q) ->
  fits R dur = true -> fits R (q * unit_ticks P X) = true -> fits R (dur + q * unit_ticks P X) = true ->
  head_ok rest ->
  dur_loop (S f) (pty P R) (dec (Z.abs q) ++ sym :: rest) isDate neg dur =
  match rest with [] => Ok (dur + q * unit_ticks P X) | _ :: _ => dur_loop f (pty P R) rest isDate neg (dur + q * unit_ticks P X) end.
Proof.
  intros HR Hsym Hu Hq Hn Hp Hd Hf Hs Hrest.
  assert (Hv20 : 0 <= Z.abs q < p10 20) by (change (p10 20) with 100000000000000000000; lia).
  rewrite (loop_step f (pty P R) _ isDate neg dur rest (dur + q * unit_ticks P X)).
  - destruct Hrest as [-> | (c & t & -> & Hc)]; [reflexivity | rewrite Hc; reflexivity].
  - right. destruct (dec_head (Z.abs q) (sym :: rest) Hv20) as (c & t & E & Hc). exists c, t. auto.
  - apply (pnp_plain P R q sym X); assumption.
Qed.

(* an optional component *)
Lemma loop_opt f P R q sym X rest isDate neg dur :
  rep2 R -> unit_of sym isDate X -> (q <> 0 -> 1 <= unit_ticks P X) ->
  -9223372036854775808 <= q <= 9223372036854775807 -> (neg = true -> q <= 0) -> (neg = false -> 0 <= q) ->
  fits R dur = true -> fits R (q * unit_ticks P X) = true -> fits R (dur + q * unit_ticks P X) = true ->
  head_ok rest ->
  dur_loop (S f) (pty P R) (opt_comp q sym ++ rest) isDate neg dur =
  if q =? 0 then dur_loop (S f) (pty P R) rest isDate neg dur
  else match rest with [] => Ok (dur + q * unit_ticks P X) | _ :: _ => dur_loop f (pty P R) rest isDate neg (dur + q * unit_ticks P X) end.
Proof.
  intros HR Hsym Hu Hq Hn Hp Hd Hf Hs Hrest. unfold opt_comp.
  destruct (Z.eqb_spec q 0) as [E|E]; [reflexivity|].
  rewrite <- app_assoc. cbn [app]. apply (loop_comp f P R q sym X); try assumption. exact (Hu E).
Qed.
