(* ChronoDurPrint.v — To(duration) -> string as a whole. *)
From BS Require Import Base ChronoSpec ChronoModel ChronoArith ChronoDecimal ChronoSafe ChronoSafeAdd ChronoText ChronoTp ChronoTpParse ChronoDur.
From Coq Require Import ZifyBool ZifyN ZifyNat Zquot.
Local Open Scope Z_scope.
Ltac Zify.zify_post_hook ::= Z.to_euclidean_division_equations.

Theorem dur_print_ok P R c : rep2 R -> fits R c = true -> c <> 0 ->
  let u1 := unit_ticks P 86400 in let u2 := unit_ticks P 3600 in let u3 := unit_ticks P 60 in let u4 := unit_ticks P 1 in
  let r1 := Z.rem c u1 in let r2 := Z.rem r1 u2 in let r3 := Z.rem r2 u3 in
  let q4 := Z.quot r3 u4 in let r4 := Z.rem r3 u4 in
  exists sectext, dur_print P R c = Ok (sign_text c ++ [c_P] ++ dur_tail P c sectext) /\
    (sub_second P = false -> sectext = opt_comp q4 c_S) /\
    (sub_second P = true ->
       (r3 = 0 /\ sectext = []) \/
       (r3 <> 0 /\ exists ds, sectext = dec (Z.abs q4) ++ [c_dot] ++ ds ++ [c_S] /\ all_digits ds = true /\
           (1 <= length ds <= frac_digits P)%nat /\ dec_value ds * p10 (frac_digits P - length ds) = Z.abs r4)).
Proof.
  intros HR Hc Hnz. cbv zeta.
  assert (Hc64 : -9223372036854775808 <= c <= 9223372036854775807).
  { apply fits_iff in Hc. destruct HR as [HR | HR]; rewrite HR in Hc; unfold tmin, tmax, half in Hc; cbn [is_signed] in Hc; lia. }
  pose proof (dur_facts P c Hc64) as F. cbv zeta in F.
  set (u1 := unit_ticks P 86400) in *. set (u2 := unit_ticks P 3600) in *. set (u3 := unit_ticks P 60) in *. set (u4 := unit_ticks P 1) in *.
  set (q1 := Z.quot c u1) in *. set (r1 := Z.rem c u1) in *. set (q2 := Z.quot r1 u2) in *. set (r2 := Z.rem r1 u2) in *.
  set (q3 := Z.quot r2 u3) in *. set (r3 := Z.rem r2 u3) in *. set (q4 := Z.quot r3 u4) in *. set (r4 := Z.rem r3 u4) in *.
  assert (Eu1 : hide (u1 = unit_ticks P 86400)) by (constructor; reflexivity). assert (Eu2 : hide (u2 = unit_ticks P 3600)) by (constructor; reflexivity).
  assert (Eu3 : hide (u3 = unit_ticks P 60)) by (constructor; reflexivity). assert (Eu4 : hide (u4 = unit_ticks P 1)) by (constructor; reflexivity).
  assert (Eq1 : hide (q1 = Z.quot c u1)) by (constructor; reflexivity). assert (Er1 : hide (r1 = Z.rem c u1)) by (constructor; reflexivity).
  assert (Eq2 : hide (q2 = Z.quot r1 u2)) by (constructor; reflexivity). assert (Er2 : hide (r2 = Z.rem r1 u2)) by (constructor; reflexivity).
  assert (Eq3 : hide (q3 = Z.quot r2 u3)) by (constructor; reflexivity). assert (Er3 : hide (r3 = Z.rem r2 u3)) by (constructor; reflexivity).
  assert (Eq4 : hide (q4 = Z.quot r3 u4)) by (constructor; reflexivity). assert (Er4 : hide (r4 = Z.rem r3 u4)) by (constructor; reflexivity).
  clearbody r4 q4 r3 q3 r2 q2 r1 q1 u4 u3 u2 u1.
  destruct F as (Hu1 & B1 & B2 & B3 & B4 & Z2 & Z3 & Z4 & Hns & Hss & A1 & A2 & A3 & Hpos & Hneg & Hsum).
  pose proof (rep_bounds R) as HB. pose proof Hc as Hcf. apply fits_iff in Hc.
  assert (Hf1 : fits R r1 = true) by (apply fits_iff; clear - A1 Hpos Hneg Hc HB; lia).
  assert (Hf2 : fits R r2 = true) by (apply fits_iff; clear - A2 Hpos Hneg Hc HB; lia).
  assert (Hf3 : fits R r3 = true) by (apply fits_iff; clear - A3 Hpos Hneg Hc HB; lia).
  assert (HdK : (1 <= dK P <= 19)%nat) by (destruct P; cbn; lia).
  destruct (opt_comp_len q1 c_D (dK P) B1 ltac:(clear - HdK; lia)) as [L1 L1'].
  destruct (opt_comp_len q2 c_H 2 ltac:(change (p10 2) with 100; clear - B2; lia) ltac:(lia)) as [L2 L2'].
  destruct (opt_comp_len q3 c_M 2 ltac:(change (p10 2) with 100; clear - B3; lia) ltac:(lia)) as [L3 L3'].
  destruct (opt_comp_len q4 c_S 2 ltac:(change (p10 2) with 100; clear - B4; lia) ltac:(lia)) as [L4 L4'].
  assert (Hcnz : (c =? 0) = false) by (clear - Hnz; lia).
  clear Hsum Hpos Hneg A1 A2 A3 B1 B2 B3 B4 Hc Hc64 HB.
  unfold dur_print. rewrite Hcnz.
  (* sign and 'P' *)
  set (st0 := if c <? 0 then put 0 [] c_minus else Ok (0, [])).
  assert (E0 : st0 = Ok (Z.of_nat (length (sign_text c)), sign_text c)).
  { unfold st0, sign_text. destruct (c <? 0); reflexivity. }
  rewrite E0, bind_ok. cbn [fst snd].
  assert (Ls : (length (sign_text c) <= 1)%nat) by (unfold sign_text; destruct (c <? 0); cbn; lia).
  unfold put at 1. replace ((0 <=? _) && (_ <? BufSize)) with true by (unfold BufSize; clear - Ls; lia).
  rewrite bind_ok. cbn [fst snd].
  (* days *)
  rewrite (pstep P R 86400 false c_D c); try assumption; try discriminate;
    [| unfold unit_x; auto | refold; clear - Hu1; lia | clear - Ls; lia | refold; clear - Ls L1' HdK; lia].
  refold. rewrite bind_ok.
  set (pos1 := Z.of_nat (length (sign_text c)) + 1 + Z.of_nat (length (opt_comp q1 c_D))).
  set (content1 := (sign_text c ++ [c_P]) ++ opt_comp q1 c_D).
  assert (Hp1 : 0 <= pos1 <= Z.of_nat (dK P) + 3) by (unfold pos1; clear - Ls L1; lia).
  unfold dur_tail. cbv zeta. refold.
  destruct (Z.eqb_spec r1 0) as [Ez1|Ez1]; cbn [negb].
  - (* nothing but days *)
    exists (if sub_second P then [] else opt_comp q4 c_S).
    split; [unfold content1; rewrite <- !app_assoc, app_nil_r; reflexivity|].
    assert (Hr3 : r3 = 0).
    { apply unhide in Er2, Er3. rewrite Ez1 in Er2. rewrite Zrem_0_l in Er2. rewrite Er2 in Er3. rewrite Zrem_0_l in Er3. exact Er3. }
    split; intros Hs; rewrite Hs; [reflexivity | left; split; [exact Hr3 | reflexivity]].
  - unfold put at 1. replace ((0 <=? pos1) && (pos1 <? BufSize)) with true by (unfold BufSize; clear - Hp1 HdK; lia).
    rewrite bind_ok. cbn [fst snd].
    (* hours *)
    rewrite (pstep P R 3600 false c_H r1); try assumption; try discriminate;
      [| unfold unit_x; auto | refold; exact Z2 | clear - Hp1; lia | refold; clear - Hp1 L2' HdK; lia].
    refold. rewrite bind_ok.
    (* minutes *)
    rewrite (pstep P R 60 false c_M r2); try assumption; try discriminate;
      [| unfold unit_x; auto | refold; exact Z3 | clear - Hp1 L2; lia | refold; clear - Hp1 L2 L3' HdK; lia].
    refold.
    set (pos3 := pos1 + 1 + Z.of_nat (length (opt_comp q2 c_H)) + Z.of_nat (length (opt_comp q3 c_M))).
    set (content3 := ((content1 ++ [c_T]) ++ opt_comp q2 c_H) ++ opt_comp q3 c_M).
    assert (Hp3 : 0 <= pos3 <= Z.of_nat (dK P) + 10) by (unfold pos3; clear - Hp1 L2 L3; lia).
    rewrite bind_ok.
    destruct (sub_second P) eqn:Hsub.
    + destruct (Hss eq_refl) as [Hu4 Hr3b].
      assert (Hu4' : 1 <= u4) by (rewrite Hu4; destruct P; try discriminate Hsub; vm_compute; discriminate).
      destruct (Z.eq_dec r3 0) as [Ez3|Ez3].
      * rewrite Ez3. rewrite sec_step_zero by (try assumption; refold; exact Hu4'). rewrite bind_ok. cbn [snd].
        exists []. split; [unfold content3, content1; rewrite <- !app_assoc, app_nil_r; reflexivity|].
        split; [discriminate | intros _; left; split; [reflexivity | reflexivity]].
      * assert (Hw : Z.of_nat (dK P) + 10 + 3 + Z.of_nat (frac_digits P) <= 47) by (destruct P; try discriminate Hsub; vm_compute; discriminate).
        destruct (sec_step_frac P R r3 pos3 content3 HR Hsub Hf3 Ez3 Hr3b ltac:(clear - Hp3; lia) ltac:(clear - Hp3 Hw; lia))
          as (ds & Ef & Hds & Hl & Hv).
        rewrite Ef, bind_ok. cbn [snd].
        destruct (quot_rem_facts r3 u4 Hu4') as (_ & _ & _ & _ & _ & _ & _ & Aq & Ar).
        rewrite <- (unhide _ Eq4) in Aq. rewrite <- (unhide _ Er4) in Ar.
        rewrite <- Hu4, <- Aq. rewrite <- Hu4, <- Ar in Hv.
        exists (dec (Z.abs q4) ++ [c_dot] ++ ds ++ [c_S]).
        split; [unfold content3, content1; rewrite <- !app_assoc; reflexivity|].
        split; [discriminate | intros _; right; split; [exact Ez3|]]. exists ds. auto.
    + rewrite (pstep P R 1 true c_S r3); try assumption; try discriminate;
        [| unfold unit_x; auto | refold; exact Z4 | intros _; exact Hsub | refold; intros _; apply Hns; reflexivity
         | clear - Hp3; lia | refold; clear - Hp3 L4' HdK; lia].
      refold. rewrite bind_ok. cbn [snd].
      exists (opt_comp q4 c_S). split; [unfold content3, content1; rewrite <- !app_assoc; reflexivity|].
      split; [reflexivity | discriminate].
Qed.
