(* ChronoDurReject.v — C15, To(string) -> duration on EVERY text: invalid_argument, out_of_range, or a count that fits
   the representation — never undefined behaviour, never out of fuel; and a count is returned only for texts of the
   lenient component shape dur_loose (the class of K42 together with the grammar), described without the parser. *)
From BS Require Import Base ChronoSpec ChronoModel ChronoArith ChronoDecimal ChronoSafe ChronoSafeAdd ChronoText ChronoTp
  ChronoTpParse ChronoTpRt ChronoDur ChronoDurPrint ChronoDurParse ChronoClassify ChronoClassify2 ChronoReject ChronoDurClassify.
From Coq Require Import ZifyBool ZifyN ZifyNat.
Local Open Scope Z_scope.

(* ------------------------------------------------------------------ the lenient shape *)

(* components of one section, one after the other; after a component the text ends, or white space follows (the rest
   is ignored), or the next component follows; 'T' switches from the date section to the time section *)
Inductive dseq : bool -> list N -> Prop :=
| dseq_T l : dseq false l -> dseq true (c_T :: l)
| dseq_end isDate it tl : item_ok isDate it -> (tl = [] \/ exists c t, tl = c :: t /\ is_space c = true) ->
    dseq isDate (item_text it ++ tl)
| dseq_more isDate it tl : item_ok isDate it -> dseq isDate tl -> dseq isDate (item_text it ++ tl).

Definition dur_loose (s : list N) : Prop :=
  exists sg body, s = sg ++ c_P :: body /\ (sg = [] \/ sg = [c_plus] \/ sg = [c_minus]) /\ dseq true body.

(* ------------------------------------------------------------------ unit letters *)

Lemma letter_dec sym isDate :
  (exists X, letter_of sym isDate X) \/ (forall D srcR v, transform_to_duration D srcR v sym isDate = Err InvalidArgument).
Proof.
  unfold letter_of, unit_of. destruct isDate.
  - destruct (N.eqb_spec sym c_W) as [->|H1]; [left; exists 604800; left; auto|].
    destruct (N.eqb_spec sym c_D) as [->|H2]; [left; exists 86400; right; left; auto|].
    right. intros. unfold transform_to_duration.
    rewrite (proj2 (N.eqb_neq _ _) H1), (proj2 (N.eqb_neq _ _) H2). reflexivity.
  - destruct (N.eqb_spec sym c_H) as [->|H1]; [left; exists 3600; right; right; left; auto|].
    destruct (N.eqb_spec sym c_M) as [->|H2]; [left; exists 60; right; right; right; left; auto|].
    destruct (N.eqb_spec sym c_S) as [->|H3]; [left; exists 1; right; right; right; right; auto|].
    right. intros. unfold transform_to_duration.
    rewrite (proj2 (N.eqb_neq _ _) H1), (proj2 (N.eqb_neq _ _) H2), (proj2 (N.eqb_neq _ _) H3). reflexivity.
Qed.

(* the end of parseNextPart when the unit letter is not one of the section: invalid_argument, unless the magnitude
   check of a negative duration reports out_of_range first *)
Lemma finish_bad (D : dty) (isDate neg : bool) (value : Z) (sym' : N) (rest' : list N) (dur' : Z) :
  (forall D srcR v, transform_to_duration D srcR v sym' isDate = Err InvalidArgument) -> 0 <= value ->
  let r := (if neg then
              if value <=? 9223372036854775808 then
                nv <- (if value =? 9223372036854775808 then Ok (tmin I64) else arith I64 (- cast I64 value)) ;;
                t <- transform_to_duration D I64 nv sym' isDate ;;
                d2 <- safe_add_dur D dur' D t ;; Ok (rest', d2)
              else Err OutOfRange
            else
              t <- transform_to_duration D U64 value sym' isDate ;;
              d2 <- safe_add_dur D dur' D t ;; Ok (rest', d2)) in
  r = Err InvalidArgument \/ r = Err OutOfRange.
Proof.
  intros Ht Hv. cbv zeta. destruct neg.
  - destruct (Z.leb_spec value 9223372036854775808) as [Hle|Hgt]; [|right; reflexivity].
    left. destruct (Z.eqb_spec value 9223372036854775808) as [E|E].
    + rewrite bind_ok, Ht. reflexivity.
    + rewrite (cast_fits I64 value) by (apply fits_I64; lia). rewrite arith_fits by (apply fits_I64; lia).
      rewrite bind_ok, Ht. reflexivity.
  - left. rewrite Ht. reflexivity.
Qed.

(* sign, rounding and addition of a fraction *)
Lemma frac_mid {A} (P : prec) (R : ity) (neg : bool) (dur fns : Z) (K : Z -> outcome A) : rep2 R -> fits R dur = true -> 0 <= fns <= 999999999 ->
  (sns <- (if neg then arith I64 (- fns) else Ok fns) ;;
   rr <- dround NsT (pty P R) sns ;;
   dur' <- safe_add_dur (pty P R) dur (pty P R) rr ;; K dur') =
  (d1 <- cadd R dur (round_half_even (signed neg fns) (tick_ns P)) ;; K d1).
Proof.
  intros HR Hd Hfns.
  assert (Esns : (if neg then arith I64 (- fns) else Ok fns) = Ok (signed neg fns)).
  { unfold signed. destruct neg; [rewrite arith_fits by (apply fits_I64; lia)|]; reflexivity. }
  rewrite Esns, bind_ok.
  destruct (rhe_bounds_signed P neg fns Hfns) as (Hrb & _).
  rewrite dround_ns by (try exact HR; unfold signed; destruct neg; lia).
  rewrite bind_ok.
  set (r := round_half_even (signed neg fns) (tick_ns P)) in *.
  assert (Hfr : fits R r = true).
  { apply fits_iff. destruct (prec_facts P) as (_ & _ & _ & _ & Hbd & _).
    destruct HR as [-> | ->]; unfold tmin, tmax, half; cbn [is_signed]; lia. }
  rewrite (sad_cadd P R dur r HR Hd Hfr). reflexivity.
Qed.

Lemma sep_not_letter sep isDate D srcR v : sep = c_dot \/ sep = c_comma ->
  transform_to_duration D srcR v sep isDate = Err InvalidArgument.
Proof. intros [-> | ->]; destruct isDate; reflexivity. Qed.

Lemma flen_dec fs : all_digits fs = true -> fs <> [] -> flen_ok fs \/ (forall rest, no_digit_head rest -> parse_second_fractions (fs ++ rest) = None).
Proof.
  intros Hd Hne. unfold flen_ok, lfrac_ok.
  destruct (fits U32 (dec_value fs)) eqn:Ef.
  - destruct (Z.eqb_spec (dec_value fs) 0) as [E0|E0]; [left; auto|].
    destruct (Nat.le_gt_cases (length fs) 9) as [Hl|Hl]; [left; auto|].
    right. intros rest Hn. unfold parse_second_fractions. rewrite from_chars_numeral by assumption. rewrite Ef.
    replace (dec_value fs =? 0) with false by lia.
    replace (Z.of_nat (length (fs ++ rest) - length rest)) with (Z.of_nat (length fs)) by (rewrite app_length; lia).
    replace (Z.of_nat (length fs) <? 10) with false by lia. reflexivity.
  - right. intros rest Hn. unfold parse_second_fractions. rewrite from_chars_numeral by assumption. rewrite Ef. reflexivity.
Qed.

(* ------------------------------------------------------------------ one call of parseNextPart on any text *)

Definition pnp_good (P : prec) (R : ity) (l : list N) (isDate neg : bool) (dur : Z) : Prop :=
  exists it rest d', item_ok isDate it /\ l = item_text it ++ rest /\
    parse_next_part (pty P R) l isDate neg dur = Ok (rest, d') /\ fits R d' = true.

Lemma pnp_item_tri P R it rest isDate neg dur : rep2 R -> item_ok isDate it -> fits R dur = true ->
  parse_next_part (pty P R) (item_text it ++ rest) isDate neg dur = Err OutOfRange \/
  pnp_good P R (item_text it ++ rest) isDate neg dur.
Proof.
  intros HR Hok Hd. rewrite (pnp_item P R it rest isDate neg dur HR Hok Hd).
  destruct (item_step_okoor P R neg it dur) as [(d' & E)|E].
  - right. exists it, rest, d'. rewrite (pnp_item P R it rest isDate neg dur HR Hok Hd), E, bind_ok.
    repeat split; auto. apply (item_step_sound P R neg it dur d' isDate Hok E).
  - left. rewrite E. reflexivity.
Qed.

Theorem pnp_tri P R l isDate neg dur : rep2 R -> fits R dur = true ->
  parse_next_part (pty P R) l isDate neg dur = Err InvalidArgument \/
  parse_next_part (pty P R) l isDate neg dur = Err OutOfRange \/
  pnp_good P R l isDate neg dur.
Proof.
  intros HR Hdur.
  destruct (span_exists l) as (ds & tl & -> & Hd & Hn).
  destruct ds as [|c0 ds0].
  { left. cbn [app]. unfold parse_next_part. destruct tl as [|c t]; [reflexivity|]. cbn [no_digit_head] in Hn. rewrite Hn. reflexivity. }
  set (ds := c0 :: ds0) in *. assert (Hne : ds <> []) by discriminate.
  pose proof (dec_value_bound ds Hd) as Hvb.
  assert (Hhead : forall tl', exists c t, ds ++ tl' = c :: t /\ is_digit c = true) by (intros; apply hd_digit; assumption).
  destruct (fits U64 (dec_value ds)) eqn:Ef.
  2:{ right. left. unfold parse_next_part. destruct (Hhead tl) as (c & t & E & Hc). rewrite E, Hc, <- E.
      rewrite from_chars_numeral by assumption. rewrite Ef. reflexivity. }
  destruct tl as [|sym rest1].
  { left. unfold parse_next_part. destruct (Hhead []) as (c & t & E & Hc). rewrite E, Hc, <- E.
    rewrite from_chars_numeral by assumption. rewrite Ef. reflexivity. }
  destruct ((sym =? c_dot)%N || (sym =? c_comma)%N) eqn:Es.
  - (* a fraction follows *)
    assert (Hsep : sym = c_dot \/ sym = c_comma).
    { apply orb_true_iff in Es. destruct Es as [H|H]; apply N.eqb_eq in H; auto. }
    destruct (span_exists rest1) as (fs & rest2 & -> & Hfd & Hfn).
    assert (Hpre : parse_next_part (pty P R) (ds ++ sym :: fs ++ rest2) isDate neg dur =
      (r <- match parse_second_fractions (fs ++ rest2) with
            | None => Err InvalidArgument
            | Some (ns, rest2) =>
              x <- (match rest2 with
                    | [] => Ok (sym, rest2)
                    | s2 :: rest3 => if (s2 =? c_S)%N then Ok (s2, rest3) else Err InvalidArgument
                    end) ;;
              sns <- (if neg then arith I64 (- ns) else Ok ns) ;;
              rr <- dround NsT (pty P R) sns ;;
              dur' <- safe_add_dur (pty P R) dur (pty P R) rr ;;
              Ok (fst x, snd x, dur')
            end ;;
       let '(sym', rest', dur') := r in
       if neg then
         if dec_value ds <=? 9223372036854775808 then
           nv <- (if dec_value ds =? 9223372036854775808 then Ok (tmin I64) else arith I64 (- cast I64 (dec_value ds))) ;;
           t <- transform_to_duration (pty P R) I64 nv sym' isDate ;;
           d2 <- safe_add_dur (pty P R) dur' (pty P R) t ;; Ok (rest', d2)
         else Err OutOfRange
       else
         t <- transform_to_duration (pty P R) U64 (dec_value ds) sym' isDate ;;
         d2 <- safe_add_dur (pty P R) dur' (pty P R) t ;; Ok (rest', d2))).
    { unfold parse_next_part. destruct (Hhead (sym :: fs ++ rest2)) as (c & t & E & Hc). rewrite E, Hc, <- E.
      rewrite from_chars_numeral by assumption. rewrite Ef, Es. reflexivity. }
    destruct fs as [|f0 fs0].
    { left. rewrite Hpre. cbn [app]. unfold parse_second_fractions, from_chars. cbn [is_signed andb].
      replace (match rest2 with [] => (false, rest2) | c1 :: _ => (false, rest2) end) with (false, rest2) by (destruct rest2; reflexivity).
      rewrite (fc_digits_none rest2 Hfn). reflexivity. }
    set (fs := f0 :: fs0) in *. assert (Hfne : fs <> []) by discriminate.
    destruct (flen_dec fs Hfd Hfne) as [Hfl|Hbad].
    2:{ left. rewrite Hpre, (Hbad rest2 Hfn). reflexivity. }
    pose proof (fns_range fs Hfd Hfl) as Hfns.
    destruct rest2 as [|s2 rest3].
    + (* the text ends after the fraction: the separator is taken for the unit letter *)
      rewrite Hpre, (psf_gen fs [] Hfd Hfn Hfl). rewrite bind_ok. cbn [fst snd].
      rewrite (frac_mid P R neg dur _ _ HR Hdur Hfns).
      destruct (cadd_okoor R dur (round_half_even (signed neg (dec_value fs * 10 ^ (9 - Z.of_nat (length fs)))) (tick_ns P))) as [(d1 & ->)| ->];
        [|right; left; reflexivity].
      rewrite !bind_ok. cbv beta iota.
      destruct (finish_bad (pty P R) isDate neg (dec_value ds) sym [] d1 (fun D srcR v => sep_not_letter sym isDate D srcR v Hsep) ltac:(lia)) as [H|H];
        cbv zeta in H; rewrite H; auto.
    + destruct (N.eqb_spec s2 c_S) as [->|Hs2].
      * destruct isDate.
        -- (* seconds with a fraction in the date section *)
           rewrite Hpre, (psf_gen fs (c_S :: rest3) Hfd Hfn Hfl). rewrite N.eqb_refl, bind_ok. cbn [fst snd].
           rewrite (frac_mid P R neg dur _ _ HR Hdur Hfns).
           destruct (cadd_okoor R dur (round_half_even (signed neg (dec_value fs * 10 ^ (9 - Z.of_nat (length fs)))) (tick_ns P))) as [(d1 & ->)| ->];
             [|right; left; reflexivity].
           rewrite !bind_ok. cbv beta iota.
           destruct (finish_bad (pty P R) true neg (dec_value ds) c_S rest3 d1 (fun D srcR v => eq_refl) ltac:(lia)) as [H|H];
             cbv zeta in H; rewrite H; auto.
        -- (* a well-formed seconds component *)
           right.
           assert (Hok : item_ok false (Frac ds sym fs)) by (cbn [item_ok]; auto 10).
           replace (ds ++ sym :: fs ++ c_S :: rest3) with (item_text (Frac ds sym fs) ++ rest3)
             by (cbn [item_text]; rewrite <- app_assoc; cbn [app]; rewrite <- app_assoc; reflexivity).
           apply pnp_item_tri; assumption.
      * left. rewrite Hpre, (psf_gen fs (s2 :: rest3) Hfd Hfn Hfl).
        replace ((s2 =? c_S)%N) with false by (symmetry; apply N.eqb_neq; exact Hs2). reflexivity.
  - (* the unit letter follows *)
    destruct (letter_dec sym isDate) as [(X & HX)|Hbad].
    + right.
      assert (Hok : item_ok isDate (Plain ds sym X)) by (cbn [item_ok]; auto).
      replace (ds ++ sym :: rest1) with (item_text (Plain ds sym X) ++ rest1)
        by (cbn [item_text]; rewrite <- app_assoc; reflexivity).
      apply pnp_item_tri; assumption.
    + unfold parse_next_part. destruct (Hhead (sym :: rest1)) as (c & t & E & Hc). rewrite E, Hc, <- E.
      rewrite from_chars_numeral by assumption. rewrite Ef, Es, bind_ok.
      destruct (finish_bad (pty P R) isDate neg (dec_value ds) sym rest1 dur Hbad ltac:(lia)) as [H|H];
        cbv zeta in H; rewrite H; auto.
Qed.

(* ------------------------------------------------------------------ the loop on any text *)

Definition dur_safe (R : ity) (shape : Prop) (o : outcome Z) : Prop :=
  o = Err InvalidArgument \/ o = Err OutOfRange \/ exists v, o = Ok v /\ fits R v = true /\ shape.

Lemma item_text_length isDate it : item_ok isDate it -> (1 <= length (item_text it))%nat.
Proof.
  intros H. destruct (item_text_head isDate it [] H) as (c & t & E & _). rewrite app_nil_r in E. rewrite E. cbn [length]. lia.
Qed.

Lemma loop_total P R neg : rep2 R -> forall fuel l isDate dur, (length l < fuel)%nat -> fits R dur = true ->
  dur_safe R (dseq isDate l) (dur_loop fuel (pty P R) l isDate neg dur).
Proof.
  intros HR. induction fuel as [|f IH]; intros l isDate dur Hfu Hd; [lia|].
  cbn [dur_loop].
  set (sw := match l with
             | c :: t => if isDate && (c =? c_T)%N then (false, t) else (isDate, l)
             | [] => (isDate, l)
             end).
  assert (Hsw : (length (snd sw) <= length l)%nat /\
                (dseq (fst sw) (snd sw) -> dseq isDate l)).
  { unfold sw. destruct l as [|c t]; [split; auto|].
    destruct isDate; cbn [andb]; [|split; auto].
    destruct (N.eqb_spec c c_T) as [->|Hc]; cbn [fst snd length]; [|split; auto].
    split; [lia|]. apply dseq_T. }
  destruct sw as [isDate' l']. cbn [fst snd] in Hsw. destruct Hsw as (Hlen & Hshape).
  destruct (pnp_tri P R l' isDate' neg dur HR Hd) as [E|[E|(it & rest & d' & Hok & El & E & Hfd)]]; rewrite E.
  - left. reflexivity.
  - right. left. reflexivity.
  - rewrite bind_ok. cbv beta iota.
    pose proof (item_text_length isDate' it Hok) as Hil.
    destruct rest as [|c r].
    + right. right. exists d'. repeat split; auto. apply Hshape. rewrite El. apply dseq_end; auto.
    + destruct (is_space c) eqn:Esp.
      * right. right. exists d'. repeat split; auto. apply Hshape. rewrite El. apply dseq_end; auto.
        right. exists c, r. auto.
      * assert (Hlr : (length (c :: r) < f)%nat) by (rewrite El, app_length in Hlen; lia).
        destruct (IH (c :: r) isDate' d' Hlr Hfd) as [H|[H|(v & H & Hv & Hs)]]; rewrite H.
        -- left. reflexivity.
        -- right. left. reflexivity.
        -- right. right. exists v. repeat split; auto. apply Hshape. rewrite El. apply dseq_more; auto.
Qed.

(* ------------------------------------------------------------------ the whole conversion on any text *)

Theorem dur_total P R s : rep2 R -> dur_safe R (dur_loose s) (dur_parse P R s).
Proof.
  intros HR. unfold dur_parse, dur_parse_fuel.
  destruct (3 <=? length s)%nat; [|left; reflexivity].
  destruct s as [|c0 tl]; [left; reflexivity|].
  assert (Hsg : is_signed R = true) by (destruct HR as [-> | ->]; reflexivity).
  set (neg := (c0 =? c_minus)%N).
  set (l1 := if neg || (c0 =? c_plus)%N then tl else c0 :: tl).
  assert (Hl1 : exists sg, c0 :: tl = sg ++ l1 /\ (sg = [] \/ sg = [c_plus] \/ sg = [c_minus]) /\ (length l1 <= length (c0 :: tl))%nat).
  { unfold l1, neg. destruct (N.eqb_spec c0 c_minus) as [->|H1]; cbn [orb].
    - exists [c_minus]. cbn [app length]. auto.
    - destruct (N.eqb_spec c0 c_plus) as [->|H2].
      + exists [c_plus]. cbn [app length]. auto.
      + exists []. cbn [app]. auto. }
  destruct Hl1 as (sg & Es & Hsgs & Hlen).
  destruct l1 as [|c1 l2]; [left; reflexivity|].
  destruct (N.eqb_spec c1 c_P) as [->|Hc1]; [|left; reflexivity].
  rewrite Hsg. cbn [negb]. rewrite andb_false_r.
  assert (Hfu : (length l2 < S (length (c0 :: tl)))%nat) by (cbn [length] in *; lia).
  destruct (loop_total P R neg HR (S (length (c0 :: tl))) l2 true 0 Hfu (fits_zero R HR)) as [H|[H|(v & H & Hv & Hs)]]; rewrite H.
  - left. reflexivity.
  - right. left. reflexivity.
  - right. right. exists v. repeat split; auto. exists sg, l2. auto.
Qed.

(* a count comes only from a text of the lenient shape; everything else is an exception *)
Corollary dur_value_shape P R s v : rep2 R -> dur_parse P R s = Ok v -> dur_loose s /\ fits R v = true.
Proof.
  intros HR H. destruct (dur_total P R s HR) as [E|[E|(v' & E & Hv & Hs)]]; rewrite E in H; try discriminate.
  inversion H. subst. auto.
Qed.

Corollary dur_outside_shape P R s : rep2 R -> ~ dur_loose s ->
  dur_parse P R s = Err InvalidArgument \/ dur_parse P R s = Err OutOfRange.
Proof.
  intros HR Hn. destruct (dur_total P R s HR) as [E|[E|(v' & E & Hv & Hs)]]; auto. contradiction.
Qed.

(* ------------------------------------------------------------------ the documented grammar lies inside the shape *)

Lemma dseq_texts isDate its tl : Forall (item_ok isDate) its -> its <> [] ->
  (tl = [] \/ dseq isDate tl) -> dseq isDate (texts its ++ tl).
Proof.
  induction 1 as [|it r Hit Hr IH]; intros Hne Htl; [congruence|].
  cbn [texts]. rewrite <- app_assoc. destruct r as [|it2 r2].
  - cbn [texts app]. destruct Htl as [-> | Htl]; [apply dseq_end; auto | apply dseq_more; auto].
  - apply dseq_more; [exact Hit|]. apply IH; [discriminate | exact Htl].
Qed.

Theorem grammar_loose s : dur_grammar s -> dur_loose s.
Proof.
  intros (f & Hwf & ->). destruct (items_ok f Hwf) as (Hdi & Hti). rewrite render_items.
  exists (if df_neg f then [c_minus] else if df_plus f then [c_plus] else []).
  eexists. split; [reflexivity|]. split; [destruct (df_neg f); [|destruct (df_plus f)]; auto|].
  destruct Hwf as (_ & _ & _ & _ & _ & _ & Hany).
  destruct (time_items f) as [|ti tr] eqn:Et.
  - rewrite time_present_items, Et in Hany.
    assert (Hn : date_items f <> []).
    { unfold date_items. destruct (df_w f); [discriminate|]. destruct (df_dd f); [discriminate|].
      destruct Hany as [H|[H|H]]; congruence. }
    apply dseq_texts; auto.
  - rewrite <- Et in *. assert (Hnt : time_items f <> []) by (rewrite Et; discriminate).
    assert (Ht : dseq true (c_T :: texts (time_items f))).
    { apply dseq_T. rewrite <- (app_nil_r (texts (time_items f))). apply dseq_texts; auto. }
    destruct (date_items f) as [|di dr] eqn:Ed; [exact Ht|]. rewrite <- Ed in *.
    apply dseq_texts; [exact Hdi | rewrite Ed; discriminate | right; exact Ht].
Qed.

(* K42 is inside the shape (and outside the grammar) *)
Lemma K42_loose : dur_loose [80;84;49;83;49;72;32;106;117;110;107]%N.
Proof.
  apply (dur_value_shape Ps I64 _ 3601); [left; reflexivity | vm_compute; reflexivity].
Qed.

(* ------------------------------------------------------------------ a family of malformed texts: years and months,
   a unit letter of the other section, fraction outside the seconds part or malformed, missing 'P' / empty / nothing
   after 'P' or 'T', empty field, sign inside, doubled sign, lower case, digits without unit, doubled or misplaced 'T',
   separators.  (Leading well-formed components are zero, so that no conversion can report out_of_range first.)
   invalid_argument for every precision and every representation. *)
Definition dur_malformed : list (list N) := [
  (* P1Y *) [80;49;89]%N;
  (* P1M *) [80;49;77]%N;
  (* P1Y2M3D *) [80;49;89;50;77;51;68]%N;
  (* P2M1D *) [80;50;77;49;68]%N;
  (* PT1D *) [80;84;49;68]%N;
  (* PT1W *) [80;84;49;87]%N;
  (* P1H *) [80;49;72]%N;
  (* P1S *) [80;49;83]%N;
  (* P0DT1D *) [80;48;68;84;49;68]%N;
  (* PT1Y *) [80;84;49;89]%N;
  (* P1.5D *) [80;49;46;53;68]%N;
  (* P1.5W *) [80;49;46;53;87]%N;
  (* PT1.5H *) [80;84;49;46;53;72]%N;
  (* PT1.5M *) [80;84;49;46;53;77]%N;
  (* P1,5D *) [80;49;44;53;68]%N;
  (* PT1.S *) [80;84;49;46;83]%N;
  (* PT.5S *) [80;84;46;53;83]%N;
  (* PT1.5 *) [80;84;49;46;53]%N;
  (* PT1,5 *) [80;84;49;44;53]%N;
  (* PT1.5X *) [80;84;49;46;53;88]%N;
  (* PT1.1234567890S *) [80;84;49;46;49;50;51;52;53;54;55;56;57;48;83]%N;
  (* PT1.5.5S *) [80;84;49;46;53;46;53;83]%N;
  (* PT1..5S *) [80;84;49;46;46;53;83]%N;
  (* PT1;5S *) [80;84;49;59;53;83]%N;
  (*  *) [];
  (* P *) [80]%N;
  (* PT *) [80;84]%N;
  (* 1D *) [49;68]%N;
  (* T1H *) [84;49;72]%N;
  (* D *) [68]%N;
  (* +P *) [43;80]%N;
  (* -P *) [45;80]%N;
  (* P1 *) [80;49]%N;
  (* PT1 *) [80;84;49]%N;
  (* +PT *) [43;80;84]%N;
  (* PD *) [80;68]%N;
  (* PTS *) [80;84;83]%N;
  (* PTH *) [80;84;72]%N;
  (* P-1D *) [80;45;49;68]%N;
  (* P+1D *) [80;43;49;68]%N;
  (* PT-1S *) [80;84;45;49;83]%N;
  (* --P1D *) [45;45;80;49;68]%N;
  (* +-P1D *) [43;45;80;49;68]%N;
  (* -+P1D *) [45;43;80;49;68]%N;
  (* p1d *) [112;49;100]%N;
  (* P1d *) [80;49;100]%N;
  (* PT1s *) [80;84;49;115]%N;
  (* Pt1S *) [80;116;49;83]%N;
  (* P0DT *) [80;48;68;84]%N;
  (* P0D2 *) [80;48;68;50]%N;
  (* PT0H2 *) [80;84;48;72;50]%N;
  (* PTT1S *) [80;84;84;49;83]%N;
  (* P0DTT1S *) [80;48;68;84;84;49;83]%N;
  (* PT0ST1S *) [80;84;48;83;84;49;83]%N;
  (* P0D-2H *) [80;48;68;45;50;72]%N;
  (* P0D; *) [80;48;68;59]%N;
  (* PT0H:2M *) [80;84;48;72;58;50;77]%N;
  (* P 1D *) [80;32;49;68]%N;
  (*  P1D *) [32;80;49;68]%N;
  (* PT 1S *) [80;84;32;49;83]%N;
  (* P0D. *) [80;48;68;46]%N
].

Theorem dur_malformed_rejected : forall P R, Forall (fun s => dur_parse P R s = Err InvalidArgument) dur_malformed.
Proof.
  intros P R. unfold dur_malformed.
  destruct P, R; repeat (constructor; [vm_compute; reflexivity|]); constructor.
Qed.
