(* ChronoDurRt.v — T_C14_duration: To(duration) -> string followed by To(string) -> duration is the
   identity, for int64 and int32 representations of every precision. *)
From BS Require Import Base ChronoSpec ChronoModel ChronoArith ChronoDecimal ChronoSafe ChronoSafeAdd ChronoText ChronoTp
  ChronoTpParse ChronoDur ChronoDurPrint ChronoDurParse.
From Coq Require Import ZifyBool ZifyN ZifyNat Zquot.
Local Open Scope Z_scope.
Ltac Zify.zify_post_hook ::= Z.to_euclidean_division_equations.

Lemma dur_zero P R : rep2 R -> dur_print P R 0 = Ok [c_P; c_T; ch0; c_S] /\ dur_parse P R [c_P; c_T; ch0; c_S] = Ok 0.
Proof. intros [-> | ->]; destruct P; split; vm_compute; reflexivity. Qed.

Lemma unit_ticks_nonneg P X : unit_x X -> 0 <= unit_ticks P X.
Proof.
  intros HX. unfold unit_ticks. destruct (prec_facts P) as (? & ? & _).
  destruct HX as [->|[->|[->| ->]]]; apply Z.div_pos; lia.
Qed.

Lemma opt_comp_head q sym rest : Z.abs q < p10 20 -> head_ok rest -> head_ok (opt_comp q sym ++ rest).
Proof.
  intros Hq Hr. unfold opt_comp. destruct (q =? 0); [exact Hr|].
  rewrite <- app_assoc. apply head_ok_dec. lia.
Qed.

Theorem dur_roundtrip P R c : rep2 R -> fits R c = true ->
  exists text, dur_print P R c = Ok text /\ dur_parse P R text = Ok c.
Proof.
  intros HR Hc.
  destruct (Z.eq_dec c 0) as [->|Hnz].
  { destruct (dur_zero P R HR) as [E1 E2]. eexists. split; [exact E1 | exact E2]. }
  destruct (dur_print_ok P R c HR Hc Hnz) as (sectext & Eprint & Hsec0 & Hsec1). cbv zeta in Hsec0, Hsec1.
  eexists. split; [exact Eprint|].
  assert (Hc64 : -9223372036854775808 <= c <= 9223372036854775807).
  { apply fits_iff in Hc. destruct HR as [HR | HR]; rewrite HR in Hc; unfold tmin, tmax, half in Hc; cbn [is_signed] in Hc; lia. }
  pose proof (dur_facts P c Hc64) as F. cbv zeta in F.
  pose proof (unit_ticks_nonneg P 86400 ltac:(unfold unit_x; auto)) as U1.
  pose proof (unit_ticks_nonneg P 3600 ltac:(unfold unit_x; auto)) as U2.
  pose proof (unit_ticks_nonneg P 60 ltac:(unfold unit_x; auto)) as U3.
  pose proof (unit_ticks_nonneg P 1 ltac:(unfold unit_x; auto)) as U4.
  unfold dur_tail in *. cbv zeta in *.
  set (u1 := unit_ticks P 86400) in *. set (u2 := unit_ticks P 3600) in *. set (u3 := unit_ticks P 60) in *. set (u4 := unit_ticks P 1) in *.
  pose proof (Z.quot_rem' c u1) as I1.
  set (q1 := Z.quot c u1) in *. set (r1 := Z.rem c u1) in *.
  pose proof (Z.quot_rem' r1 u2) as I2.
  set (q2 := Z.quot r1 u2) in *. set (r2 := Z.rem r1 u2) in *.
  pose proof (Z.quot_rem' r2 u3) as I3.
  set (q3 := Z.quot r2 u3) in *. set (r3 := Z.rem r2 u3) in *.
  pose proof (Z.quot_rem' r3 u4) as I4.
  set (q4 := Z.quot r3 u4) in *. set (r4 := Z.rem r3 u4) in *.
  assert (Q2 : u2 = 0 -> q2 = 0) by (intros E; unfold q2; rewrite E; apply Zquot_0_r).
  assert (Q3 : u3 = 0 -> q3 = 0) by (intros E; unfold q3; rewrite E; apply Zquot_0_r).
  assert (Q4 : u4 = 0 -> q4 = 0) by (intros E; unfold q4; rewrite E; apply Zquot_0_r).
  assert (Rb4 : u4 <> 0 -> Z.abs r4 < Z.abs u4) by (intros E; unfold r4; apply Z.rem_bound_abs; exact E).
  assert (Eu1 : hide (u1 = unit_ticks P 86400)) by (constructor; reflexivity). assert (Eu2 : hide (u2 = unit_ticks P 3600)) by (constructor; reflexivity).
  assert (Eu3 : hide (u3 = unit_ticks P 60)) by (constructor; reflexivity). assert (Eu4 : hide (u4 = unit_ticks P 1)) by (constructor; reflexivity).
  clearbody r4 q4 r3 q3 r2 q2 r1 q1. clearbody u4 u3 u2 u1.
  destruct F as (Hu1 & B1 & B2 & B3 & B4 & Z2 & Z3 & Z4 & Hns & Hss & A1 & A2 & A3 & Hpos & Hneg & Hsum).
  (* the products as atoms *)
  assert (S1 : (0 <= q1 -> 0 <= u1 * q1) /\ (q1 <= 0 -> u1 * q1 <= 0)) by (clear - U1; nia).
  assert (S2 : (0 <= q2 -> 0 <= u2 * q2) /\ (q2 <= 0 -> u2 * q2 <= 0)) by (clear - U2; nia).
  assert (S3 : (0 <= q3 -> 0 <= u3 * q3) /\ (q3 <= 0 -> u3 * q3 <= 0)) by (clear - U3; nia).
  assert (S4 : (0 <= q4 -> 0 <= u4 * q4) /\ (q4 <= 0 -> u4 * q4 <= 0)) by (clear - U4; nia).
  assert (N1 : q1 <> 0 -> 1 <= u1) by (clear - Hu1; lia).
  assert (N2 : q2 <> 0 -> 1 <= u2).
  { intros Hq. destruct (Z.eq_dec u2 0) as [E|E]; [|clear - U2 E; lia]. exfalso. exact (Hq (Q2 E)). }
  assert (N3 : q3 <> 0 -> 1 <= u3).
  { intros Hq. destruct (Z.eq_dec u3 0) as [E|E]; [|clear - U3 E; lia]. exfalso. exact (Hq (Q3 E)). }
  assert (N4 : q4 <> 0 -> 1 <= u4).
  { intros Hq. destruct (Z.eq_dec u4 0) as [E|E]; [|clear - U4 E; lia]. exfalso. exact (Hq (Q4 E)). }
  assert (K1 : -9223372036854775808 <= q1 <= 9223372036854775807 /\ Z.abs q2 < 24 /\ Z.abs q3 < 60 /\ Z.abs q4 < 60).
  { assert (T1 : (0 <= q1 -> q1 <= u1 * q1) /\ (q1 <= 0 -> u1 * q1 <= q1)) by (clear - Hu1; nia).
    clear - B2 B3 B4 I1 Hc64 S1 T1 Hpos Hneg. repeat split; try lia. }
  destruct K1 as (K1 & K2 & K3 & K4).
  set (P1 := u1 * q1) in *. set (P2 := u2 * q2) in *. set (P3 := u3 * q3) in *. set (P4 := u4 * q4) in *.
  assert (EP1 : hide (P1 = u1 * q1)) by (constructor; reflexivity). assert (EP2 : hide (P2 = u2 * q2)) by (constructor; reflexivity).
  assert (EP3 : hide (P3 = u3 * q3)) by (constructor; reflexivity). assert (EP4 : hide (P4 = u4 * q4)) by (constructor; reflexivity).
  clearbody P1 P2 P3 P4.
  set (neg := c <? 0).
  assert (Hsg : (neg = true -> c < 0 /\ q1 <= 0 /\ q2 <= 0 /\ q3 <= 0 /\ q4 <= 0 /\ r4 <= 0 /\ P1 <= 0 /\ P2 <= 0 /\ P3 <= 0 /\ P4 <= 0) /\
                (neg = false -> 0 < c /\ 0 <= q1 /\ 0 <= q2 /\ 0 <= q3 /\ 0 <= q4 /\ 0 <= r4 /\ 0 <= P1 /\ 0 <= P2 /\ 0 <= P3 /\ 0 <= P4)).
  { unfold neg. clear - Hpos Hneg Hnz S1 S2 S3 S4. destruct (Z.ltb_spec c 0); split; intros; try discriminate; lia. }
  pose proof (rep_bounds R) as HB. apply fits_iff in Hc.
  assert (HfR : forall x, (neg = true -> c <= x <= 0) -> (neg = false -> 0 <= x <= c) -> fits R x = true).
  { intros x H1 H2. apply fits_iff. clear - H1 H2 Hc HB. destruct neg; [specialize (H1 eq_refl) | specialize (H2 eq_refl)]; lia. }
  assert (Hsums : c = P1 + P2 + P3 + P4 + r4 /\ r1 = P2 + P3 + P4 + r4 /\ r2 = P3 + P4 + r4 /\ r3 = P4 + r4).
  { clear - I1 I2 I3 I4. lia. }
  destruct Hsums as (Sc & Sr1 & Sr2 & Sr3).
  (* the seconds chunk *)
  set (sv := P4 + r4).
  assert (Hsv : (sectext = [] /\ sv = 0) \/
                (head_ok sectext /\ sectext <> [] /\ forall f dur, fits R dur = true -> fits R (dur + sv) = true ->
                   (neg = true -> c <= dur <= 0 /\ c <= dur + sv) -> (neg = false -> 0 <= dur <= c /\ dur + sv <= c) ->
                   dur_loop (S f) (pty P R) sectext false neg dur = Ok (dur + sv))).
  { destruct (sub_second P) eqn:Hsub.
    - destruct (Hss eq_refl) as [Hu4 Hr3b].
      destruct (Hsec1 eq_refl) as [[Hr30 ->]|(Hr3n & ds & -> & Hds & Hl & Hv)].
      + left. split; [reflexivity|]. unfold sv. clear - Hr30 Sr3. lia.
      + right. assert (Hv20 : 0 <= Z.abs q4 < p10 20) by (change (p10 20) with 100000000000000000000; clear - K4; lia).
        split; [apply head_ok_dec; exact Hv20|].
        split; [destruct (dec_head (Z.abs q4) ([c_dot] ++ ds ++ [c_S]) Hv20) as (c0 & t0 & E & _); rewrite E; discriminate|].
        intros f dur Hd Hs Hn Hp.
        assert (Hr4b : Z.abs r4 < pden P).
        { rewrite <- Hu4. assert (1 <= u4) by (rewrite Hu4; destruct P; try discriminate Hsub; vm_compute; discriminate).
          specialize (Rb4 ltac:(lia)). clear - Rb4 H. lia. }
        assert (Hr4b' : Z.abs r4 < u4) by (rewrite Hu4; exact Hr4b).
        assert (EP4' : P4 = q4 * pden P) by (rewrite <- Hu4; apply unhide in EP4; rewrite EP4; ring).
        rewrite (loop_step f (pty P R) _ false neg dur [] (dur + r4 + q4 * pden P)).
        * f_equal. unfold sv. rewrite EP4'. ring.
        * left. reflexivity.
        * change (dec (Z.abs q4) ++ [c_dot] ++ ds ++ [c_S]) with (dec (Z.abs q4) ++ [c_dot] ++ ds ++ c_S :: []).
          destruct Hsg as [Hsn Hsp].
          apply pnp_frac; try assumption.
          -- intros E. destruct (Hsn E) as (_ & _ & _ & _ & ? & ? & _). split; assumption.
          -- intros E. destruct (Hsp E) as (_ & _ & _ & _ & ? & ? & _). split; assumption.
          -- apply HfR; intros E; [pose proof (Hsn E) as G | pose proof (Hsp E) as G]; clear - Sc G; lia.
          -- apply HfR; intros E; [pose proof (Hsn E) as G; pose proof (Hn E) as G' | pose proof (Hsp E) as G; pose proof (Hp E) as G']; unfold sv in *; clear - Sc G G'; lia.
          -- rewrite <- EP4'. apply HfR; intros E; [pose proof (Hsn E) as G | pose proof (Hsp E) as G]; clear - Sc G; lia.
          -- rewrite <- EP4'. replace (dur + r4 + P4) with (dur + sv) by (unfold sv; ring). exact Hs.
    - specialize (Hsec0 eq_refl). specialize (Hns eq_refl). subst sectext.
      destruct (Z.eq_dec q4 0) as [E4|E4].
      + left. unfold opt_comp. rewrite E4. split; [reflexivity|]. unfold sv. apply unhide in EP4. rewrite EP4, E4, Hns. ring.
      + right. assert (Hv20 : Z.abs q4 < p10 20) by (change (p10 20) with 100000000000000000000; clear - K4; lia).
        split; [rewrite <- (app_nil_r (opt_comp q4 c_S)); apply opt_comp_head; [exact Hv20 | left; reflexivity]|].
        split; [unfold opt_comp; replace (q4 =? 0) with false by (clear - E4; lia); destruct (dec (Z.abs q4)); discriminate|].
        intros f dur Hd Hs Hn Hp. unfold opt_comp. replace (q4 =? 0) with false by (clear - E4; lia).
        destruct Hsg as [Hsn Hsp].
        assert (EP4' : P4 = q4 * unit_ticks P 1) by (apply unhide in EP4, Eu4; rewrite EP4, Eu4; ring).
        rewrite (loop_comp f P R q4 c_S 1 [] false neg dur); try assumption.
        * f_equal. unfold sv. rewrite Hns, EP4'. ring.
        * unfold unit_of. right. right. right. auto.
        * apply unhide in Eu4. rewrite <- Eu4. exact (N4 E4).
        * clear - K4; lia.
        * intros E. apply (Hsn E).
        * intros E. apply (Hsp E).
        * rewrite <- EP4'. apply HfR; intros E; [pose proof (Hsn E) as G | pose proof (Hsp E) as G]; clear - Sc G; lia.
        * rewrite <- EP4'. replace (dur + P4) with (dur + sv) by (unfold sv; rewrite Hns; ring). exact Hs.
        * left. reflexivity. }
  (* the products in the form the loop lemmas state them *)
  apply unhide in Eu1, Eu2, Eu3, Eu4. apply unhide in EP1, EP2, EP3, EP4.
  assert (E1' : q1 * unit_ticks P 86400 = P1) by (rewrite EP1, Eu1; ring).
  assert (E2' : q2 * unit_ticks P 3600 = P2) by (rewrite EP2, Eu2; ring).
  assert (E3' : q3 * unit_ticks P 60 = P3) by (rewrite EP3, Eu3; ring).
  assert (P10 : q1 = 0 -> P1 = 0) by (intros E; rewrite EP1, E; ring).
  assert (P20 : q2 = 0 -> P2 = 0) by (intros E; rewrite EP2, E; ring).
  assert (P30 : q3 = 0 -> P3 = 0) by (intros E; rewrite EP3, E; ring).
  assert (N1' : q1 <> 0 -> 1 <= unit_ticks P 86400) by (rewrite <- Eu1; exact N1).
  assert (N2' : q2 <> 0 -> 1 <= unit_ticks P 3600) by (rewrite <- Eu2; exact N2).
  assert (N3' : q3 <> 0 -> 1 <= unit_ticks P 60) by (rewrite <- Eu3; exact N3).
  clear EP1 EP2 EP3 EP4 I1 I2 I3 I4 S1 S2 S3 S4 Z2 Z3 Z4 Hss Hns Hsec0 Hsec1 Q2 Q3 Q4 Rb4 B1 B2 B3 B4 A1 A2 A3 Hpos Hneg Hsum.
  destruct Hsg as [Hsn Hsp].
  assert (Hq2r : -9223372036854775808 <= q2 <= 9223372036854775807) by (clear - K2; lia).
  assert (Hq3r : -9223372036854775808 <= q3 <= 9223372036854775807) by (clear - K3; lia).
  assert (Hhs : head_ok sectext) by (destruct Hsv as [[-> _]|[H _]]; [left; reflexivity | exact H]).
  assert (Hq320 : Z.abs q3 < p10 20) by (change (p10 20) with 100000000000000000000; clear - K3; lia).
  assert (Hq220 : Z.abs q2 < p10 20) by (change (p10 20) with 100000000000000000000; clear - K2; lia).
  (* fits of the partial sums *)
  assert (F0 : fits R 0 = true) by (apply HfR; intros E; [pose proof (Hsn E) as G | pose proof (Hsp E) as G]; clear - G; lia).
  assert (F1 : fits R P1 = true) by (apply HfR; intros E; [pose proof (Hsn E) as G | pose proof (Hsp E) as G]; clear - Sc G; lia).
  assert (F2 : fits R P2 = true) by (apply HfR; intros E; [pose proof (Hsn E) as G | pose proof (Hsp E) as G]; clear - Sc G; lia).
  assert (F3 : fits R P3 = true) by (apply HfR; intros E; [pose proof (Hsn E) as G | pose proof (Hsp E) as G]; clear - Sc G; lia).
  assert (F12 : fits R (P1 + P2) = true) by (apply HfR; intros E; [pose proof (Hsn E) as G | pose proof (Hsp E) as G]; clear - Sc G; lia).
  assert (F123 : fits R (P1 + P2 + P3) = true) by (apply HfR; intros E; [pose proof (Hsn E) as G | pose proof (Hsp E) as G]; clear - Sc G; lia).
  assert (Fc : fits R c = true) by (apply fits_iff; exact Hc).
  (* the seconds chunk after a partial sum d with d + sv = c *)
  assert (Hsec : forall f d, sectext <> [] -> fits R d = true -> d + sv = c ->
            (neg = true -> c <= d <= 0) -> (neg = false -> 0 <= d <= c) ->
            dur_loop (S f) (pty P R) sectext false neg d = Ok c).
  { intros f d Hne Hfd Hdc Hdn Hdp. destruct Hsv as [[E _]|(_ & _ & Hl)]; [contradiction|].
    rewrite Hl; [f_equal; exact Hdc | exact Hfd | rewrite Hdc; exact Fc | |].
    - intros E. specialize (Hdn E). clear - Hdn Hdc. lia.
    - intros E. specialize (Hdp E). clear - Hdp Hdc. lia. }
  assert (Hsv0 : sectext = [] -> sv = 0) by (intros E; destruct Hsv as [[_ H]|(_ & H & _)]; [exact H | contradiction]).
  (* minutes and seconds *)
  assert (HM : forall f, opt_comp q3 c_M ++ sectext <> [] ->
            dur_loop (S (S f)) (pty P R) (opt_comp q3 c_M ++ sectext) false neg (P1 + P2) = Ok c).
  { intros f Hne.
    rewrite (loop_opt (S f) P R q3 c_M 60); try assumption;
      [| unfold unit_of; right; right; left; auto | intros E; apply (Hsn E) | intros E; apply (Hsp E)
       | rewrite E3'; exact F3 | rewrite E3'; exact F123].
    rewrite E3'.
    destruct (Z.eqb_spec q3 0) as [E3|E3].
    - assert (Hs : sectext <> []) by (intros E; apply Hne; unfold opt_comp; rewrite E3, E; reflexivity).
      apply Hsec; [exact Hs | exact F12 | unfold sv; specialize (P30 E3); clear - Sc P30; lia | |];
        intros E; [pose proof (Hsn E) as G | pose proof (Hsp E) as G]; clear - Sc G; lia.
    - destruct sectext as [|s0 st] eqn:Es.
      + f_equal. specialize (Hsv0 eq_refl). unfold sv in Hsv0. clear - Sc Hsv0. lia.
      + apply Hsec; [discriminate | exact F123 | unfold sv; clear - Sc; lia | |];
          intros E; [pose proof (Hsn E) as G | pose proof (Hsp E) as G]; clear - Sc G; lia. }
  (* hours *)
  assert (HT : forall f, r1 <> 0 ->
            dur_loop (S (S (S f))) (pty P R) (opt_comp q2 c_H ++ opt_comp q3 c_M ++ sectext) false neg P1 = Ok c).
  { intros f Hr1.
    assert (Hrest : q2 = 0 -> opt_comp q3 c_M ++ sectext <> []).
    { intros E2 E. apply app_eq_nil in E. destruct E as [Eo Es].
      assert (q3 = 0) by (unfold opt_comp in Eo; destruct (Z.eqb_spec q3 0); [assumption | destruct (dec (Z.abs q3)); discriminate]).
      specialize (Hsv0 Es). specialize (P20 E2). specialize (P30 H). unfold sv in Hsv0. clear - Sr1 Hr1 Hsv0 P20 P30. lia. }
    rewrite (loop_opt (S (S f)) P R q2 c_H 3600); try assumption;
      [| unfold unit_of; right; left; auto | intros E; apply (Hsn E) | intros E; apply (Hsp E)
       | rewrite E2'; exact F2 | rewrite E2'; exact F12 | apply opt_comp_head; assumption].
    rewrite E2'.
    destruct (Z.eqb_spec q2 0) as [E2|E2].
    - rewrite <- (Z.add_0_r P1), <- (P20 E2). apply HM. exact (Hrest E2).
    - pose proof (HM f) as HMf. destruct (opt_comp q3 c_M ++ sectext) as [|x xs] eqn:Er2.
      + f_equal. apply app_eq_nil in Er2. destruct Er2 as [Eo Es].
        assert (q3 = 0) by (unfold opt_comp in Eo; destruct (Z.eqb_spec q3 0); [assumption | destruct (dec (Z.abs q3)); discriminate]).
        specialize (Hsv0 Es). specialize (P30 H). unfold sv in Hsv0. clear - Sc Hsv0 P30. lia.
      + apply HMf. discriminate. }
  (* days, and the switch to the time section *)
  assert (HD : forall f, dur_loop (S (S (S (S f)))) (pty P R)
                 (opt_comp q1 c_D ++ (if r1 =? 0 then [] else [c_T] ++ opt_comp q2 c_H ++ opt_comp q3 c_M ++ sectext)) true neg 0 = Ok c).
  { intros f.
    assert (Hh1 : head_ok (if r1 =? 0 then [] else [c_T] ++ opt_comp q2 c_H ++ opt_comp q3 c_M ++ sectext)).
    { destruct (r1 =? 0); [left; reflexivity | right]. eexists. eexists. split; [reflexivity | reflexivity]. }
    rewrite (loop_opt (S (S (S f))) P R q1 c_D 86400); try assumption;
      [| unfold unit_of; left; auto | intros E; apply (Hsn E) | intros E; apply (Hsp E)
       | rewrite E1'; exact F1 | rewrite E1', Z.add_0_l; exact F1].
    rewrite E1', Z.add_0_l.
    destruct (Z.eqb_spec q1 0) as [E1|E1].
    - assert (Hr1 : r1 <> 0) by (specialize (P10 E1); clear - Sc Sr1 P10 Hnz; lia).
      replace (r1 =? 0) with false by (clear - Hr1; lia). cbn [app].
      rewrite loop_T. rewrite <- (P10 E1). apply HT. exact Hr1.
    - destruct (Z.eqb_spec r1 0) as [Er1|Er1].
      + f_equal. clear - Sc Sr1 Er1. lia.
      + cbn [app]. rewrite loop_T. apply HT. exact Er1. }
  (* the prefix: sign, 'P' *)
  set (tail := opt_comp q1 c_D ++ (if r1 =? 0 then [] else [c_T] ++ opt_comp q2 c_H ++ opt_comp q3 c_M ++ sectext)) in *.
  assert (Hoc : forall q sym, opt_comp q sym = [] -> q = 0).
  { intros q sym Eo. unfold opt_comp in Eo. destruct (Z.eqb_spec q 0); [assumption | destruct (dec (Z.abs q)); discriminate]. }
  assert (Hoc2 : forall q sym, q <> 0 -> Z.abs q < p10 20 -> (2 <= length (opt_comp q sym))%nat).
  { intros q sym Hq Hb. unfold opt_comp. replace (q =? 0) with false by (clear - Hq; lia).
    rewrite app_length. cbn [length]. destruct (dec_spec (Z.abs q) ltac:(clear - Hb; lia)) as (_ & _ & Hl & _). lia. }
  assert (Hlen : (2 <= length tail)%nat).
  { unfold tail. rewrite app_length.
    destruct (Z.eq_dec q1 0) as [E1|E1].
    - assert (Hr1 : r1 <> 0) by (specialize (P10 E1); clear - Sc Sr1 P10 Hnz; lia).
      replace (r1 =? 0) with false by (clear - Hr1; lia). cbn [app length].
      assert (Hne : opt_comp q2 c_H ++ opt_comp q3 c_M ++ sectext <> []).
      { intros E. apply app_eq_nil in E. destruct E as [Ea E]. apply app_eq_nil in E. destruct E as [Eb Es].
        pose proof (P20 (Hoc _ _ Ea)). pose proof (P30 (Hoc _ _ Eb)). specialize (Hsv0 Es). unfold sv in Hsv0.
        clear - Sr1 Hr1 H H0 Hsv0. lia. }
      destruct (opt_comp q2 c_H ++ opt_comp q3 c_M ++ sectext); [contradiction | cbn [length]; lia].
    - assert (Hb : Z.abs q1 < p10 20) by (change (p10 20) with 100000000000000000000; clear - K1; lia).
      pose proof (Hoc2 q1 c_D E1 Hb). lia. }
  assert (Hsr : is_signed R = true) by (destruct HR as [-> | ->]; reflexivity).
  unfold dur_parse, dur_parse_fuel, sign_text. fold neg.
  destruct neg eqn:En.
  - cbn [app length]. 
    replace (3 <=? S (S (length tail)))%nat with true by (symmetry; apply Nat.leb_le; lia).
    replace ((c_minus =? c_minus)%N) with true by reflexivity. cbn [orb].
    replace ((c_P =? c_P)%N) with true by reflexivity. rewrite Hsr. cbn [negb andb].
    destruct (length tail) as [|[|n]] eqn:El; [lia | lia |]. apply HD.
  - cbn [app length].
    replace (3 <=? S (length tail))%nat with true by (symmetry; apply Nat.leb_le; lia).
    replace ((c_P =? c_minus)%N) with false by reflexivity. replace ((c_P =? c_plus)%N) with false by reflexivity. cbn [orb].
    replace ((c_P =? c_P)%N) with true by reflexivity. cbn [andb].
    destruct (length tail) as [|[|n]] eqn:El; [lia | lia |]. apply HD.
Qed.
