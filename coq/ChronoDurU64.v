(* ChronoDurU64.v — C14, durations with a uint64 representation (the library prints them for seconds and coarser
   periods only): printed text, its denotation, and the round trip. *)
From BS Require Import Base ChronoSpec ChronoModel ChronoArith ChronoDecimal ChronoSafe ChronoSafeAdd ChronoText ChronoTp
  ChronoTpParse ChronoTpRt ChronoTs ChronoDur ChronoDurPrint ChronoDurParse ChronoDurRt ChronoClassify ChronoClassify2 ChronoReject
  ChronoDurClassify ChronoDurDenote.
From Coq Require Import ZifyBool ZifyN ZifyNat Zquot.
Local Open Scope Z_scope.
Ltac Zify.zify_post_hook ::= Z.to_euclidean_division_equations.

(* ------------------------------------------------------------------ one PrintDurationPart step, uint64 *)

Lemma dcast_unit_u P X tl : sub_second P = false -> unit_x X -> 1 <= unit_ticks P X -> fits U64 tl = true ->
  dcast (pty P U64) (mkD U64 X 1) tl = Ok (Z.quot tl (unit_ticks P X)) /\
  (forall q, fits U64 q = true -> fits U64 (q * unit_ticks P X) = true ->
     dcast (mkD U64 X 1) (pty P U64) q = Ok (q * unit_ticks P X)).
Proof.
  intros Hsub HX Hu Ht. apply fits_U64 in Ht.
  destruct P; try discriminate Hsub; destruct HX as [->|[->|[->| ->]]]; vm_compute in Hu; try (exfalso; apply Hu; reflexivity);
    (split; [|intros q Hq Hqu; apply fits_U64 in Hq, Hqu]);
    unfold unit_ticks in *; cbn [pnum pden] in *; open_types; repeat tstep;
    try rewrite Z.quot_1_r; try rewrite Z.mul_1_r; try reflexivity; f_equal; lia.
Qed.

Lemma dcast_unit_zero_u P X : sub_second P = false -> unit_x X -> unit_ticks P X = 0 ->
  dcast (pty P U64) (mkD U64 X 1) 0 = Ok 0.
Proof.
  intros Hsub HX Hu.
  destruct P; try discriminate Hsub; destruct HX as [->|[->|[->| ->]]]; vm_compute in Hu; try discriminate Hu;
    open_types; repeat tstep; reflexivity.
Qed.

Lemma part_step_u P X isSec suffix tl pos content :
  sub_second P = false -> unit_x X -> 1 <= unit_ticks P X -> fits U64 tl = true ->
  0 <= pos -> pos + Z.of_nat (length (dec (Z.quot tl (unit_ticks P X)))) <= 47 ->
  print_dur_part (pty P U64) X isSec suffix (tl, pos, content) =
  if negb (Z.quot tl (unit_ticks P X) =? 0) || (isSec && negb (tl =? 0))
  then Ok (Z.rem tl (unit_ticks P X),
           pos + Z.of_nat (length (dec (Z.quot tl (unit_ticks P X)))) + 1,
           content ++ dec (Z.quot tl (unit_ticks P X)) ++ [suffix])
  else Ok (tl, pos, content).
Proof.
  intros Hsub HX Hu Ht Hpos Hfit.
  destruct (dcast_unit_u P X tl Hsub HX Hu Ht) as [E1 E2].
  destruct (quot_rem_facts tl (unit_ticks P X) Hu) as (Eq & Bq & Bq' & Br & Br' & Hp & _).
  apply fits_U64 in Ht. destruct (Hp ltac:(lia)) as (Hq0 & Hr0).
  set (u := unit_ticks P X) in *. set (q := Z.quot tl u) in *. set (r := Z.rem tl u) in *.
  unfold print_dur_part. cbn [pty d_rep d_den]. fold (pty P U64). rewrite E1, bind_ok.
  destruct (negb (q =? 0) || (isSec && negb (tl =? 0))) eqn:Econd; [|reflexivity].
  cbn [is_signed].
  rewrite (cast_fits U64 q) by (apply fits_U64; lia). rewrite bind_ok. unfold to_chars.
  replace (BufSize - pos <? Z.of_nat (length (dec q))) with false by (unfold BufSize; lia).
  assert (Hfq : fits U64 q = true) by (apply fits_U64; lia).
  assert (Hfqu : fits U64 (q * u) = true) by (apply fits_U64; lia).
  rewrite (E2 q Hfq Hfqu), bind_ok.
  assert (Hfr : fits (promote U64) (tl - q * u) = true) by (cbn [promote]; apply fits_U64; lia).
  rewrite (arith_fits _ _ Hfr), bind_ok.
  replace (tl - q * u) with r by lia.
  rewrite (cast_fits U64 r) by (apply fits_U64; lia).
  replace (isSec && (1 <? pden P)) with false
    by (destruct isSec; [|reflexivity]; destruct P; try discriminate Hsub; reflexivity).
  rewrite bind_ok.
  replace (pos + Z.of_nat (length (dec q)) =? BufSize) with false by (unfold BufSize; lia).
  unfold put. replace ((0 <=? _) && (_ <? BufSize)) with true by (unfold BufSize; lia).
  cbn [bind fst snd]. rewrite <- app_assoc. reflexivity.
Qed.

Lemma part_step_zero_u P X isSec suffix pos content : sub_second P = false -> unit_x X -> unit_ticks P X = 0 ->
  print_dur_part (pty P U64) X isSec suffix (0, pos, content) = Ok (0, pos, content).
Proof.
  intros Hsub HX Hu. unfold print_dur_part. cbn [pty d_rep d_den]. fold (pty P U64).
  rewrite (dcast_unit_zero_u P X Hsub HX Hu), bind_ok. cbn [Z.eqb negb orb andb]. rewrite andb_false_r. reflexivity.
Qed.

Lemma pstep_u P X isSec suffix tl pos content :
  sub_second P = false -> unit_x X -> fits U64 tl = true -> (unit_ticks P X = 0 -> tl = 0) ->
  (isSec = true -> Z.rem tl (unit_ticks P X) = 0) ->
  0 <= pos -> pos + Z.of_nat (length (dec (Z.quot tl (unit_ticks P X)))) <= 47 ->
  print_dur_part (pty P U64) X isSec suffix (tl, pos, content) =
  Ok (Z.rem tl (unit_ticks P X),
      pos + Z.of_nat (length (opt_comp (Z.quot tl (unit_ticks P X)) suffix)),
      content ++ opt_comp (Z.quot tl (unit_ticks P X)) suffix).
Proof.
  intros Hsub HX Ht Hz Hsr Hpos Hfit.
  assert (Hu0 : 0 <= unit_ticks P X) by (apply unit_ticks_nonneg; exact HX).
  destruct (Z.eq_dec (unit_ticks P X) 0) as [E0|E0].
  - rewrite (Hz E0), E0. rewrite part_step_zero_u by assumption.
    unfold opt_comp. change (Z.quot 0 0) with 0. change (Z.rem 0 0) with 0.
    cbn [Z.eqb length]. rewrite app_nil_r, Z.add_0_r. reflexivity.
  - rewrite part_step_u by (try assumption; lia).
    destruct (quot_rem_facts tl (unit_ticks P X) ltac:(lia)) as (Eq & _ & _ & _ & _ & Hp & _).
    apply fits_U64 in Ht. destruct (Hp ltac:(lia)) as (Hq0 & _).
    unfold opt_comp. rewrite (Z.abs_eq (Z.quot tl (unit_ticks P X))) by exact Hq0.
    destruct (Z.eqb_spec (Z.quot tl (unit_ticks P X)) 0) as [Eq0|Eq0]; cbn [negb orb].
    + destruct isSec; cbn [andb].
      * specialize (Hsr eq_refl). assert (tl = 0) by lia. subst tl. cbn [Z.eqb negb length].
        rewrite Z.rem_0_l, app_nil_r, Z.add_0_r by lia. reflexivity.
      * cbn [length]. rewrite app_nil_r, Z.add_0_r. f_equal. f_equal. f_equal. lia.
    + rewrite app_length. cbn [length]. f_equal. f_equal. f_equal. lia.
Qed.

(* ------------------------------------------------------------------ the whole of To(duration<uint64>) -> string *)

Lemma dur_facts_u P c : sub_second P = false -> 0 <= c <= 18446744073709551615 ->
  let u1 := unit_ticks P 86400 in let u2 := unit_ticks P 3600 in let u3 := unit_ticks P 60 in let u4 := unit_ticks P 1 in
  let q1 := Z.quot c u1 in let r1 := Z.rem c u1 in
  let q2 := Z.quot r1 u2 in let r2 := Z.rem r1 u2 in
  let q3 := Z.quot r2 u3 in let r3 := Z.rem r2 u3 in
  let q4 := Z.quot r3 u4 in let r4 := Z.rem r3 u4 in
  1 <= u1 /\ 0 <= q1 < p10 20 /\ 0 <= q2 < 24 /\ 0 <= q3 < 60 /\ 0 <= q4 < 60 /\
  (u2 = 0 -> r1 = 0) /\ (u3 = 0 -> r2 = 0) /\ (u4 = 0 -> r3 = 0) /\ r4 = 0 /\
  0 <= r1 <= c /\ 0 <= r2 <= c /\ 0 <= r3 <= c /\
  c = q1 * u1 + q2 * u2 + q3 * u3 + q4 * u4 /\
  (q1 <> 0 -> u1 * pnum P = 86400) /\ (q2 <> 0 -> u2 * pnum P = 3600) /\ (q3 <> 0 -> u3 * pnum P = 60) /\
  (q4 <> 0 -> u4 * pnum P = 1).
Proof.
  intros Hsub Hc. cbv zeta.
  destruct P; try discriminate Hsub; unfold unit_ticks; cbn [pnum pden];
    repeat match goal with |- context [?a * ?b / ?c] => let v := eval vm_compute in (a * b / c) in change (a * b / c) with v end;
    change (p10 20) with 100000000000000000000;
    rewrite ?Zquot_0_r, ?Zrem_0_r, ?Z.quot_1_r, ?Z.rem_1_r.
  all: repeat split; try discriminate; intros; lia.
Qed.

Theorem dur_print_ok_u P c : sub_second P = false -> fits U64 c = true -> c <> 0 ->
  let u1 := unit_ticks P 86400 in let u2 := unit_ticks P 3600 in let u3 := unit_ticks P 60 in let u4 := unit_ticks P 1 in
  let r1 := Z.rem c u1 in let r2 := Z.rem r1 u2 in let r3 := Z.rem r2 u3 in
  let q4 := Z.quot r3 u4 in
  dur_print P U64 c = Ok (sign_text c ++ [c_P] ++ dur_tail P c (opt_comp q4 c_S)).
Proof.
  intros Hsub Hc Hnz. cbv zeta. pose proof Hc as Hcf. apply fits_U64 in Hc.
  pose proof (dur_facts_u P c Hsub Hc) as F. cbv zeta in F.
  set (u1 := unit_ticks P 86400) in *. set (u2 := unit_ticks P 3600) in *. set (u3 := unit_ticks P 60) in *. set (u4 := unit_ticks P 1) in *.
  set (q1 := Z.quot c u1) in *. set (r1 := Z.rem c u1) in *. set (q2 := Z.quot r1 u2) in *. set (r2 := Z.rem r1 u2) in *.
  set (q3 := Z.quot r2 u3) in *. set (r3 := Z.rem r2 u3) in *. set (q4 := Z.quot r3 u4) in *. set (r4 := Z.rem r3 u4) in *.
  assert (Eu1 : hide (u1 = unit_ticks P 86400)) by (constructor; reflexivity). assert (Eu2 : hide (u2 = unit_ticks P 3600)) by (constructor; reflexivity).
  assert (Eu3 : hide (u3 = unit_ticks P 60)) by (constructor; reflexivity). assert (Eu4 : hide (u4 = unit_ticks P 1)) by (constructor; reflexivity).
  assert (Eq1 : hide (q1 = Z.quot c u1)) by (constructor; reflexivity). assert (Er1 : hide (r1 = Z.rem c u1)) by (constructor; reflexivity).
  assert (Eq2 : hide (q2 = Z.quot r1 u2)) by (constructor; reflexivity). assert (Er2 : hide (r2 = Z.rem r1 u2)) by (constructor; reflexivity).
  assert (Eq3 : hide (q3 = Z.quot r2 u3)) by (constructor; reflexivity). assert (Er3 : hide (r3 = Z.rem r2 u3)) by (constructor; reflexivity).
  assert (Eq4 : hide (q4 = Z.quot r3 u4)) by (constructor; reflexivity). assert (Er4 : hide (r4 = Z.rem r3 u4)) by (constructor; reflexivity).
  clearbody r4 q4 r3 q3 r2 q2 r1 q1 u4 u3 u2 u1.
  destruct F as (Hu1 & B1 & B2 & B3 & B4 & Z2 & Z3 & Z4 & Hr4 & A1 & A2 & A3 & _).
  assert (Hf1 : fits U64 r1 = true) by (apply fits_U64; clear - A1 Hc; lia).
  assert (Hf2 : fits U64 r2 = true) by (apply fits_U64; clear - A2 Hc; lia).
  assert (Hf3 : fits U64 r3 = true) by (apply fits_U64; clear - A3 Hc; lia).
  assert (L1 : (length (dec q1) <= 20)%nat) by (apply dec_length_le; [exact B1 | lia]).
  assert (L2 : (length (dec q2) <= 2)%nat) by (apply dec_length_le; [change (p10 2) with 100; clear - B2; lia | lia]).
  assert (L3 : (length (dec q3) <= 2)%nat) by (apply dec_length_le; [change (p10 2) with 100; clear - B3; lia | lia]).
  assert (L4 : (length (dec q4) <= 2)%nat) by (apply dec_length_le; [change (p10 2) with 100; clear - B4; lia | lia]).
  assert (O1 : (length (opt_comp q1 c_D) <= 21)%nat).
  { unfold opt_comp. destruct (q1 =? 0); [cbn; lia|]. rewrite Z.abs_eq by (clear - B1; lia). rewrite app_length. cbn [length]. clear - L1. lia. }
  assert (O2 : (length (opt_comp q2 c_H) <= 3)%nat).
  { unfold opt_comp. destruct (q2 =? 0); [cbn; lia|]. rewrite Z.abs_eq by (clear - B2; lia). rewrite app_length. cbn [length]. clear - L2. lia. }
  assert (O3 : (length (opt_comp q3 c_M) <= 3)%nat).
  { unfold opt_comp. destruct (q3 =? 0); [cbn; lia|]. rewrite Z.abs_eq by (clear - B3; lia). rewrite app_length. cbn [length]. clear - L3. lia. }
  assert (Hcnz : (c =? 0) = false) by (clear - Hnz; lia).
  assert (Hcpos : (c <? 0) = false) by (clear - Hc; lia).
  unfold dur_print. rewrite Hcnz, Hcpos, bind_ok. cbn [fst snd]. unfold sign_text. rewrite Hcpos. cbn [app].
  unfold put at 1. replace ((0 <=? 0) && (0 <? BufSize)) with true by reflexivity.
  rewrite bind_ok. cbn [fst snd app].
  (* days *)
  rewrite (pstep_u P 86400 false c_D c); try assumption; try discriminate;
    [| unfold unit_x; auto | refold; clear - Hu1; lia | refold; clear - L1; lia].
  refold. rewrite bind_ok.
  set (pos1 := 0 + 1 + Z.of_nat (length (opt_comp q1 c_D))).
  assert (Hp1 : 0 <= pos1 <= 22) by (unfold pos1; clear - O1; lia).
  unfold dur_tail. cbv zeta. refold.
  destruct (Z.eqb_spec r1 0) as [Ez1|Ez1]; cbn [negb].
  - rewrite app_nil_r. reflexivity.
  - unfold put at 1. replace ((0 <=? pos1) && (pos1 <? BufSize)) with true by (unfold BufSize; clear - Hp1; lia).
    rewrite bind_ok. cbn [fst snd].
    rewrite (pstep_u P 3600 false c_H r1); try assumption; try discriminate;
      [| unfold unit_x; auto | refold; exact Z2 | clear - Hp1; lia | refold; clear - Hp1 L2; lia].
    refold. rewrite bind_ok.
    rewrite (pstep_u P 60 false c_M r2); try assumption; try discriminate;
      [| unfold unit_x; auto | refold; exact Z3 | clear - Hp1 O2; lia | refold; clear - Hp1 O2 L3; lia].
    refold. rewrite bind_ok.
    rewrite (pstep_u P 1 true c_S r3); try assumption;
      [| unfold unit_x; auto | refold; exact Z4 | refold; intros _; exact Hr4
       | clear - Hp1 O2 O3; lia | refold; clear - Hp1 O2 O3 L4; lia].
    refold. rewrite bind_ok. cbn [snd]. rewrite <- !app_assoc. reflexivity.
Qed.

(* ------------------------------------------------------------------ the field record of the printed text *)

Definition ss_of (q4 : Z) : option (list N * option (N * list N)) :=
  match ocomp q4 with None => None | Some ds => Some (ds, None) end.

Lemma ss_of_text q4 : sec_text (ss_of q4) = opt_comp q4 c_S.
Proof. unfold ss_of, ocomp, opt_comp, sec_text. destruct (q4 =? 0); reflexivity. Qed.

Lemma ss_of_wf q4 : Z.abs q4 < p10 20 -> sec_wf (ss_of q4).
Proof.
  intros H. unfold ss_of, ocomp, sec_wf. destruct (q4 =? 0); [exact I|].
  split; [apply dec_nonempty; lia|]. split; [apply dec_spec; lia | exact I].
Qed.

Lemma ss_of_value q4 : Z.abs q4 < p10 20 -> sec_secs (ss_of q4) = Z.abs q4 /\ sec_fns (ss_of q4) = 0.
Proof.
  intros H. unfold ss_of, ocomp, sec_secs, sec_fns. destruct (Z.eqb_spec q4 0) as [->|_]; [split; reflexivity|].
  split; [apply dec_spec; lia | reflexivity].
Qed.

Lemma secs_ticks pn u1 u2 u3 u4 q1 q2 q3 q4 c :
  c = q1 * u1 + q2 * u2 + q3 * u3 + q4 * u4 ->
  (q1 <> 0 -> u1 * pn = 86400) -> (q2 <> 0 -> u2 * pn = 3600) -> (q3 <> 0 -> u3 * pn = 60) -> (q4 <> 0 -> u4 * pn = 1) ->
  q1 * 86400 + q2 * 3600 + q3 * 60 + q4 = c * pn.
Proof.
  intros -> H1 H2 H3 H4.
  assert (T1 : q1 * 86400 = q1 * u1 * pn) by (destruct (Z.eq_dec q1 0) as [->|H]; [ring | rewrite <- (H1 H); ring]).
  assert (T2 : q2 * 3600 = q2 * u2 * pn) by (destruct (Z.eq_dec q2 0) as [->|H]; [ring | rewrite <- (H2 H); ring]).
  assert (T3 : q3 * 60 = q3 * u3 * pn) by (destruct (Z.eq_dec q3 0) as [->|H]; [ring | rewrite <- (H3 H); ring]).
  assert (T4 : q4 = q4 * u4 * pn) by (destruct (Z.eq_dec q4 0) as [->|H]; [ring | rewrite <- Z.mul_assoc, (H4 H); ring]).
  rewrite T1, T2, T3. rewrite T4 at 1. ring.
Qed.

(* a printed component is a whole number of ticks and within uint64 *)
Lemma fine_oitem P q sym X u : 0 <= q <= 18446744073709551615 -> pden P = 1 -> (q <> 0 -> u * pnum P = X) ->
  forallb (item_fine P false) (oitem (ocomp q) sym X) = true.
Proof.
  intros Hq Hpd Hu. unfold ocomp. destruct (Z.eqb_spec q 0) as [E|E]; [reflexivity|].
  cbn [oitem forallb]. rewrite andb_true_r. unfold item_fine, item_exact, mag_ok. cbn [item_v item_x].
  assert (Hv : dec_value (dec (Z.abs q)) = q).
  { rewrite Z.abs_eq by lia. apply dec_spec. change (p10 20) with 100000000000000000000. lia. }
  rewrite Hv, Hpd, Z.mul_1_r, <- (Hu E).
  replace (q * (u * pnum P)) with (q * u * pnum P) by ring.
  destruct (prec_facts P) as (Hpn & _). rewrite Z.mod_mul by lia.
  apply andb_true_iff. split; [lia | reflexivity].
Qed.

Lemma df_items_record c q1 r1 q2 q3 q4 :
  df_items (dur_record c q1 r1 q2 q3 (ss_of q4)) =
  oitem (ocomp q1) c_D 86400 ++
  (if r1 =? 0 then [] else oitem (ocomp q2) c_H 3600 ++ oitem (ocomp q3) c_M 60 ++ oitem (ocomp q4) c_S 1).
Proof.
  unfold df_items, date_items, time_items, sec_items, dur_record. cbn [df_w df_dd df_hh df_mm df_ss oitem app].
  f_equal. destruct (r1 =? 0); [reflexivity|]. f_equal. f_equal.
  unfold ss_of. destruct (ocomp q4); reflexivity.
Qed.

Theorem dur_u64 P c : sub_second P = false -> fits U64 c = true ->
  exists f, df_wf f /\ df_neg f = false /\ dur_print P U64 c = Ok (df_render f) /\
            df_value_ns f = c * tick_ns P /\ dur_parse P U64 (df_render f) = Ok c.
Proof.
  intros Hsub Hc.
  destruct (Z.eq_dec c 0) as [->|Hnz].
  { exists (mkDF false false None None None None (Some ([ch0], None))).
    split; [unfold df_wf; cbn; repeat split; auto; discriminate|].
    split; [reflexivity|]. split; [reflexivity|]. split; [reflexivity|].
    destruct P; try discriminate Hsub; vm_compute; reflexivity. }
  pose proof (dur_print_ok_u P c Hsub Hc Hnz) as Eprint. cbv zeta in Eprint.
  pose proof Hc as Hcf. apply fits_U64 in Hc.
  pose proof (dur_facts_u P c Hsub Hc) as F. cbv zeta in F.
  pose proof (record_render P c) as Hrender. cbv zeta in Hrender.
  set (u1 := unit_ticks P 86400) in *. set (u2 := unit_ticks P 3600) in *. set (u3 := unit_ticks P 60) in *. set (u4 := unit_ticks P 1) in *.
  pose proof (Z.quot_rem' c u1) as I1.
  set (q1 := Z.quot c u1) in *. set (r1 := Z.rem c u1) in *.
  pose proof (Z.quot_rem' r1 u2) as I2.
  set (q2 := Z.quot r1 u2) in *. set (r2 := Z.rem r1 u2) in *.
  pose proof (Z.quot_rem' r2 u3) as I3.
  set (q3 := Z.quot r2 u3) in *. set (r3 := Z.rem r2 u3) in *.
  pose proof (Z.quot_rem' r3 u4) as I4.
  set (q4 := Z.quot r3 u4) in *. set (r4 := Z.rem r3 u4) in *.
  assert (U2 : 0 <= u2) by (apply unit_ticks_nonneg; unfold unit_x; auto).
  assert (U3 : 0 <= u3) by (apply unit_ticks_nonneg; unfold unit_x; auto).
  assert (U4 : 0 <= u4) by (apply unit_ticks_nonneg; unfold unit_x; auto).
  clearbody r4 q4 r3 q3 r2 q2 r1 q1 u4 u3 u2 u1.
  destruct F as (Hu1 & B1 & B2 & B3 & B4 & Z2 & Z3 & Z4 & Hr4 & A1 & A2 & A3 & Hsum & X1 & X2 & X3 & X4).
  assert (Hb1 : Z.abs q1 < p10 20) by (clear - B1; lia).
  assert (Hb2 : Z.abs q2 < p10 20) by (change (p10 20) with 100000000000000000000; clear - B2; lia).
  assert (Hb3 : Z.abs q3 < p10 20) by (change (p10 20) with 100000000000000000000; clear - B3; lia).
  assert (Hb4 : Z.abs q4 < p10 20) by (change (p10 20) with 100000000000000000000; clear - B4; lia).
  assert (Hpres : r1 <> 0 -> q2 = 0 -> q3 = 0 -> ss_of q4 <> None).
  { intros Hr1 E2 E3 En. unfold ss_of, ocomp in En. destruct (Z.eqb_spec q4 0) as [E4|E4]; [|discriminate En].
    clear - I2 I3 I4 E2 E3 E4 Hr4 Hr1. subst q2 q3 q4 r4. lia. }
  assert (Hany : q1 <> 0 \/ r1 <> 0).
  { destruct (Z.eq_dec q1 0) as [E|E]; [right | left; exact E]. clear - I1 E Hnz. subst q1. lia. }
  set (f := dur_record c q1 r1 q2 q3 (ss_of q4)).
  pose proof (record_wf c q1 r1 q2 q3 (ss_of q4) Hb1 Hb2 Hb3 (ss_of_wf q4 Hb4) Hany Hpres) as Hwf. fold f in Hwf.
  specialize (Hrender (ss_of q4) Hpres). fold f in Hrender. rewrite ss_of_text in Hrender.
  assert (Hneg : df_neg f = false) by (unfold f, dur_record; cbn [df_neg]; clear - Hc; lia).
  destruct (record_value c q1 r1 q2 q3 (ss_of q4) Hb1 Hb2 Hb3) as (Esecs & Efns). fold f in Esecs, Efns.
  destruct (ss_of_value q4 Hb4) as (Es4 & Ef4). rewrite Es4 in Esecs. rewrite Ef4 in Efns.
  (* when nothing is left after the days, the other quotients vanish *)
  assert (Hz : r1 = 0 -> q2 = 0 /\ q3 = 0 /\ q4 = 0).
  { intros E. clear - E I2 I3 I4 A2 A3 B2 B3 B4 Hr4 X2 X3 X4 U2 U3 U4.
    assert (K : forall u q pn X, 0 <= u -> 0 <= q -> X <> 0 -> (q <> 0 -> u * pn = X) -> q <> 0 -> 1 <= u * q).
    { intros u q pn X Hu Hq HX H Hq0. specialize (H Hq0). assert (u <> 0) by (intros ->; lia). nia. }
    destruct (Z.eq_dec q2 0) as [E2|E2]; [|exfalso; pose proof (K u2 q2 _ 3600 U2 ltac:(lia) ltac:(lia) X2 E2); lia].
    destruct (Z.eq_dec q3 0) as [E3|E3]; [|exfalso; pose proof (K u3 q3 _ 60 U3 ltac:(lia) ltac:(lia) X3 E3); subst q2; lia].
    destruct (Z.eq_dec q4 0) as [E4|E4]; [auto|exfalso; pose proof (K u4 q4 _ 1 U4 ltac:(lia) ltac:(lia) X4 E4); subst q2 q3; lia]. }
  assert (Hsecs : df_secs f = c * pnum P).
  { rewrite Esecs. rewrite <- (secs_ticks (pnum P) u1 u2 u3 u4 q1 q2 q3 q4 c Hsum X1 X2 X3 X4).
    rewrite !Z.abs_eq by (clear - B1 B2 B3 B4; lia).
    destruct (Z.eqb_spec r1 0) as [E|E]; [destruct (Hz E) as (-> & -> & ->); ring | ring]. }
  assert (Hfns : df_fns f = 0) by (rewrite Efns; destruct (r1 =? 0); reflexivity).
  destruct (prec_facts P) as (Hpn & Hpd & _ & _ & _ & _ & Htk).
  assert (Hpd1 : pden P = 1) by (destruct P; try discriminate Hsub; reflexivity).
  exists f. split; [exact Hwf|]. split; [exact Hneg|]. split; [rewrite Hrender; exact Eprint|].
  split.
  - unfold df_value_ns. rewrite Hneg, Hsecs, Hfns. rewrite Hpd1 in Htk. clear - Htk. lia.
  - assert (Hsplit : dur_split P f = false).
    { unfold dur_split. apply negb_false_iff. rewrite Hneg. unfold f. rewrite df_items_record.
      rewrite forallb_app. apply andb_true_iff. split.
      - apply (fine_oitem P q1 c_D 86400 u1); [clear - B1 A1 Hc I1 Hu1; nia | exact Hpd1 | exact X1].
      - destruct (Z.eqb_spec r1 0) as [E|E]; [reflexivity|].
        rewrite !forallb_app. apply andb_true_iff. split; [|apply andb_true_iff; split].
        + apply (fine_oitem P q2 c_H 3600 u2); [clear - B2; lia | exact Hpd1 | exact X2].
        + apply (fine_oitem P q3 c_M 60 u3); [clear - B3; lia | exact Hpd1 | exact X3].
        + apply (fine_oitem P q4 c_S 1 u4); [clear - B4; lia | exact Hpd1 | exact X4]. }
    assert (HR : repd U64 (df_neg f)) by (right; auto).
    rewrite (dur_classify_grammar_d P U64 f HR Hwf Hsplit).
    unfold dur_expected. rewrite Hneg, Hsecs, Hfns. unfold sg.
    assert (Ec : count_of P (1 * (c * pnum P)) (1 * 0) = Some c).
    { apply count_of_some. rewrite Hpd1. change (1 * 0) with 0.
      replace (round_half_even 0 (tick_ns P)) with 0 by (destruct P; reflexivity). ring. }
    rewrite Ec, Hcf. reflexivity.
Qed.
