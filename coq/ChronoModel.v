(* ChronoModel.v — executable mirror of
     include/bitserializer/conversion_detail/convert_chrono.h   (SafeDurationCast, SafeAddDuration x2,
        ParseSecondFractions, PrintSecondsFractions, PrintDurationPart, ParseIsoUtc, PrintIsoUtc, the
        To(...) overloads for time_point / duration / tm / CRawTime)
     include/bitserializer/serialization_detail/bin_timestamp.h (the four CBinTimestamp conversions with
        NormalizeNegativeFraction / SplitTowardsZero)
   and of the libstdc++ <chrono> pieces they instantiate (duration_cast, floor, round, the duration
   operators with their common_type rules).

   Machine arithmetic is explicit: every C++ integer expression is evaluated in its C++ type
   ([ity]); a static_cast wraps ([cast]); unsigned arithmetic wraps; signed arithmetic whose
   mathematical result does not fit the type is the outcome [UB UBOverflow]; C++ `/` and `%` are
   Z.quot / Z.rem.  The 48-byte text buffer is explicit (writes past its end are [UB UBBuffer],
   snprintf returns the untruncated length).  No proofs in this file. *)
From BS Require Import Base ChronoSpec UtfSpec UtfModel.
Local Open Scope Z_scope.

(* ------------------------------------------------------------------ integer types *)

Inductive ity := I8 | I32 | I64 | U32 | U64.    (* int8_t, int, int64_t / long long / intmax_t, unsigned, uint64_t *)

Definition ity_eqb (a b : ity) : bool :=
  match a, b with
  | I8, I8 | I32, I32 | I64, I64 | U32, U32 | U64, U64 => true
  | _, _ => false
  end.

Definition is_signed (t : ity) : bool := match t with U32 | U64 => false | _ => true end.
Definition bits (t : ity) : Z := match t with I8 => 8 | I32 | U32 => 32 | I64 | U64 => 64 end.
(* 2^bits and 2^(bits-1) as literals (the extracted model evaluates them once) *)
Definition modulus (t : ity) : Z :=
  match t with I8 => 256 | I32 | U32 => 4294967296 | I64 | U64 => 18446744073709551616 end.
Definition half (t : ity) : Z :=
  match t with I8 => 128 | I32 | U32 => 2147483648 | I64 | U64 => 9223372036854775808 end.
Definition tmin (t : ity) : Z := if is_signed t then - half t else 0.
Definition tmax (t : ity) : Z := if is_signed t then half t - 1 else modulus t - 1.
Definition fits (t : ity) (z : Z) : bool := (tmin t <=? z) && (z <=? tmax t).

(* static_cast<t>(z): the value itself when it fits, otherwise reduced modulo 2^bits into the range of
   t (the sign-changing narrowing that is implementation-defined before C++20 is two's complement on
   this platform) *)
Definition wrap (t : ity) (z : Z) : Z :=
  if is_signed t then (z + half t) mod modulus t - half t else z mod modulus t.
Definition cast (t : ity) (z : Z) : Z := if fits t z then z else wrap t z.

(* integral promotion and the usual arithmetic conversions *)
Definition promote (t : ity) : ity := match t with I8 => I32 | _ => t end.
Definition uac (a b : ity) : ity :=
  match promote a, promote b with
  | U64, _ | _, U64 => U64
  | I64, _ | _, I64 => I64
  | U32, _ | _, U32 => U32
  | _, _ => I32
  end.
(* std::common_type_t<A, B> for integer types *)
Definition common_rep (a b : ity) : ity := if ity_eqb a b then a else uac a b.
Definition common3 (a b c : ity) : ity := common_rep (common_rep a b) c.

(* ------------------------------------------------------------------ outcomes *)

Inductive err := InvalidArgument | OutOfRange | RuntimeError.
Inductive ubkind := UBOverflow | UBBuffer | UBNull.
Inductive outcome (A : Type) : Type :=
  | Ok (a : A) | Err (e : err) | UB (k : ubkind) | OutOfFuel.
Arguments Ok {A} a. Arguments Err {A} e. Arguments UB {A} k. Arguments OutOfFuel {A}.

Definition bind {A B} (x : outcome A) (f : A -> outcome B) : outcome B :=
  match x with Ok a => f a | Err e => Err e | UB k => UB k | OutOfFuel => OutOfFuel end.
Notation "x <- e ;; f" := (bind e (fun x => f)) (at level 61, e at next level, right associativity).

(* the value of an arithmetic expression whose mathematical result is z, evaluated in type t *)
Definition arith (t : ity) (z : Z) : outcome Z :=
  if is_signed t then (if fits t z then Ok z else UB UBOverflow) else Ok (cast t z).
(* a / b in type t (operands already converted) *)
Definition cdiv (t : ity) (a b : Z) : outcome Z :=
  if b =? 0 then UB UBOverflow else arith t (Z.quot a b).

(* ------------------------------------------------------------------ std::chrono::duration *)

Record dty := mkD { d_rep : ity; d_num : Z; d_den : Z }.       (* duration<rep, ratio<num, den>> *)

Definition dty_eqb (a b : dty) : bool :=
  ity_eqb (d_rep a) (d_rep b) && (d_num a =? d_num b) && (d_den a =? d_den b).

(* std::ratio_divide<from::period, to::period>, reduced *)
Definition ratio_div (from to : dty) : Z * Z :=
  let n := d_num from * d_den to in
  let d := d_den from * d_num to in
  let g := Z.gcd n d in (n / g, d / g).

(* std::chrono::duration_cast<to>(from(c)) *)
Definition dcast (from to : dty) (c : Z) : outcome Z :=
  let '(num, den) := ratio_div from to in
  let cr := common3 (d_rep to) (d_rep from) I64 in
  if (num =? 1) && (den =? 1) then Ok (cast (d_rep to) c)
  else if num =? 1 then
    q <- cdiv cr (cast cr c) (cast cr den) ;; Ok (cast (d_rep to) q)
  else if den =? 1 then
    m <- arith cr (cast cr c * cast cr num) ;; Ok (cast (d_rep to) m)
  else
    m <- arith cr (cast cr c * cast cr num) ;;
    q <- cdiv cr m (cast cr den) ;; Ok (cast (d_rep to) q).

(* std::common_type_t<duration A, duration B> *)
Definition dcommon (a b : dty) : dty :=
  mkD (common_rep (d_rep a) (d_rep b)) (Z.gcd (d_num a) (d_num b)) (Z.lcm (d_den a) (d_den b)).

(* operator-, operator+ : both converted to the common type, count arithmetic in the promoted
   representation, result constructed by static_cast to the common representation *)
Definition dsub (a : dty) (ca : Z) (b : dty) (cb : Z) : outcome Z :=
  let cd := dcommon a b in
  x <- dcast a cd ca ;; y <- dcast b cd cb ;;
  r <- arith (promote (d_rep cd)) (x - y) ;; Ok (cast (d_rep cd) r).
Definition dadd (a : dty) (ca : Z) (b : dty) (cb : Z) : outcome Z :=
  let cd := dcommon a b in
  x <- dcast a cd ca ;; y <- dcast b cd cb ;;
  r <- arith (promote (d_rep cd)) (x + y) ;; Ok (cast (d_rep cd) r).
(* comparison: Lt / Eq / Gt of the counts in the common type *)
Definition dcmp (a : dty) (ca : Z) (b : dty) (cb : Z) : outcome comparison :=
  let cd := dcommon a b in
  x <- dcast a cd ca ;; y <- dcast b cd cb ;; Ok (x ?= y).
Definition is_gt (c : comparison) : bool := match c with Gt => true | _ => false end.
Definition is_lt (c : comparison) : bool := match c with Lt => true | _ => false end.
Definition is_eq (c : comparison) : bool := match c with Eq => true | _ => false end.

(* std::chrono::floor<to>(from(c)) *)
Definition dfloor (from to : dty) (c : Z) : outcome Z :=
  t <- dcast from to c ;;
  g <- dcmp to t from c ;;
  if is_gt g then dsub to t to 1 else Ok t.

(* std::chrono::round<to>(from(c)) (ties to even) *)
Definition dround (from to : dty) (c : Z) : outcome Z :=
  t0 <- dfloor from to c ;;
  t1 <- dadd to t0 to 1 ;;
  diff0 <- dsub from c to t0 ;;
  diff1 <- dsub to t1 from c ;;
  if diff0 =? diff1 then (if Z.odd t0 then Ok t1 else Ok t0)
  else if diff0 <? diff1 then Ok t0 else Ok t1.

(* the duration types of the catalogue *)
Definition pnum (P : prec) : Z := match P with Pmin => 60 | Ph => 3600 | Pd => 86400 | _ => 1 end.
Definition pden (P : prec) : Z := match P with Pns => 1000000000 | Pus => 1000000 | Pms => 1000 | _ => 1 end.
Definition pty (P : prec) (R : ity) : dty := mkD R (pnum P) (pden P).
Definition sub_second (P : prec) : bool := match P with Pns | Pus | Pms => true | _ => false end.
Definition above_second (P : prec) : bool := match P with Pmin | Ph | Pd => true | _ => false end.

Definition SecT : dty := mkD I64 1 1.                 (* std::chrono::seconds *)
Definition NsT : dty := mkD I64 1 1000000000.         (* std::chrono::nanoseconds *)
Definition DaysT (R : ity) : dty := mkD R 86400 1.

(* ------------------------------------------------------------------ SafeDurationCast *)

Definition sign_mismatch (a b : Z) : bool := ((0 <? a) && (b <? 0)) || ((a <? 0) && (0 <? b)).

Definition safe_cast (from to : dty) (c : Z) : outcome Z :=
  if dty_eqb from to then Ok c else
  let '(num, den) := ratio_div from to in
  let tr := d_rep to in let sr := d_rep from in
  let op := common3 tr sr I64 in
  if den =? 1 then
    if num =? 1 then
      let v := cast tr c in
      if negb (c =? cast sr v) || sign_mismatch c v then Err OutOfRange else Ok v
    else
      let cc := cast op c in
      hi <- cdiv op (tmax op) (cast op num) ;;
      lo <- cdiv op (tmin op) (cast op num) ;;
      if (hi <? cc) || (cc <? lo) then Err OutOfRange else
      v <- arith op (cc * cast op num) ;;
      let t := cast tr v in
      if negb (v =? cast op t) || sign_mismatch v t then Err OutOfRange else Ok t
  else
    if num =? 1 then
      if is_signed sr && negb (is_signed tr) && (c <? 0) then Err OutOfRange else
      q <- cdiv op (cast op c) (cast op den) ;;
      if negb (Z.rem (cast op c) (cast op den) =? 0) then Err OutOfRange else     (* count % den != 0 *)
      let v := cast tr q in
      if negb (cast op v =? q) || sign_mismatch q v then Err OutOfRange else Ok v
    else
      (* the ratio is reduced: exact only for a multiple of den; then the quotient times num, range-checked *)
      if is_signed sr && negb (is_signed tr) && (c <? 0) then Err OutOfRange else
      if negb (Z.rem (cast op c) (cast op den) =? 0) then Err OutOfRange else
      q <- cdiv op (cast op c) (cast op den) ;;
      hi <- cdiv op (tmax op) (cast op num) ;;
      lo <- cdiv op (tmin op) (cast op num) ;;
      if (hi <? q) || (q <? lo) then Err OutOfRange else
      v <- arith op (q * cast op num) ;;
      let t := cast tr v in
      if negb (v =? cast op t) || sign_mismatch v t then Err OutOfRange else Ok t.

Definition as_out_of_range {A} (x : outcome A) : outcome A :=
  match x with Err _ => Err OutOfRange | _ => x end.

(* SafeAddDuration(time_point<clock, duration<R,P>>& tp, duration<src> c) *)
Definition safe_add_tp (D : dty) (tp : Z) (src : dty) (c : Z) : outcome Z :=
  if c =? 0 then Ok tp else
  let R := d_rep D in
  let OpD := mkD (common3 (d_rep src) R I64) (d_num D) (d_den D) in
  a <- as_out_of_range (safe_cast src OpD c) ;;
  over <- (if 0 <? a then
             hi <- dsub D (tmax R) OpD a ;; g <- dcmp D tp (dcommon D OpD) hi ;; Ok (is_gt g)
           else Ok false) ;;
  under <- (if over then Ok false else
            if a <? 0 then
              lo <- dsub D (tmin R) OpD a ;; g <- dcmp D tp (dcommon D OpD) lo ;; Ok (is_lt g)
            else Ok false) ;;
  if over || under then Err OutOfRange else
  n <- dadd D tp OpD a ;;
  dcast (dcommon D OpD) D n.

(* SafeAddDuration(duration<R,P>& target, duration<src> c) *)
Definition safe_add_dur (D : dty) (target : Z) (src : dty) (c : Z) : outcome Z :=
  if c =? 0 then Ok target else
  let R := d_rep D in
  a <- safe_cast src D c ;;
  over <- (if 0 <? a then hi <- dsub D (tmax R) D a ;; Ok (hi <? target) else Ok false) ;;
  under <- (if over then Ok false else
            if a <? 0 then lo <- dsub D (tmin R) D a ;; Ok (target <? lo) else Ok false) ;;
  if over || under then Err OutOfRange else
  r <- arith (promote R) (target + a) ;; Ok (cast R r).

(* ------------------------------------------------------------------ characters, std::from_chars / to_chars / snprintf *)

Definition is_space (c : N) : bool := ((9 <=? c) && (c <=? 13) || (c =? 32))%N.   (* std::isspace, "C" locale *)

Inductive fc_result := FcOk (v : Z) (rest : list N) | FcRange | FcInvalid.

(* the maximal run of digits: (value so far, number of digits, rest) *)
Fixpoint fc_digits (l : list N) (acc : Z) (n : nat) : Z * nat * list N :=
  match l with
  | c :: t => if is_digit c then fc_digits t (acc * 10 + digit_val c) (S n) else (acc, n, l)
  | [] => (acc, n, l)
  end.

(* std::from_chars(first, last, value of type t), base 10: pattern -?[0-9]+ for signed t, [0-9]+ for
   unsigned t; all digits are consumed; the value is range-checked against t *)
Definition from_chars (t : ity) (l : list N) : fc_result :=
  let '(neg, l1) := match l with
                    | c :: tl => if is_signed t && (c =? c_minus)%N then (true, tl) else (false, l)
                    | [] => (false, l)
                    end in
  let '(v, n, rest) := fc_digits l1 0 O in
  match n with
  | O => FcInvalid
  | _ => let sv := if neg then - v else v in
         if fits t sv then FcOk sv rest else FcRange
  end.

(* std::to_chars(first, last, uint64 value): the digits of the value *)
Definition to_chars (v : Z) : list N := dec v.

(* printf "%0<w>d" / "%0<w>ld" *)
Definition fmt_int (w : nat) (v : Z) : list N :=
  if v <? 0 then c_minus :: pad0 (w - 1) (dec (- v)) else pad0 w (dec v).

(* ------------------------------------------------------------------ ParseSecondFractions *)

(* target is always std::chrono::nanoseconds in this library; returns the count and the rest, or None
   for nullptr.  All arithmetic is uint64 and stays below 2^64. *)
Definition parse_second_fractions (l : list N) : option (Z * list N) :=
  match from_chars U32 l with
  | FcOk value rest =>
    if value =? 0 then Some (0, rest)
    else
      let digits := Z.of_nat (length l - length rest) in
      if digits <? 10 then
        let mult := 1000000000 in
        Some (cast I64 (cast U64 (1000000000 * mult) / (cast U64 (10 ^ digits * mult) / value)), rest)
      else None
  | _ => None
  end.

(* ------------------------------------------------------------------ the text buffer and PrintSecondsFractions *)

Definition BufSize : Z := 48.       (* UtcBufSize *)

(* state of a writer into char buf[32]: pos = offset of the write pointer, content = the bytes written
   so far (meaningful while every write was in bounds) *)
Definition put (pos : Z) (content : list N) (c : N) : outcome (Z * list N) :=
  if (0 <=? pos) && (pos <? BufSize) then Ok (pos + 1, content ++ [c]) else UB UBBuffer.

Definition frac_divs : list Z := [100000000; 10000000; 1000000; 100000; 10000; 1000; 100; 10; 1].

Fixpoint psf_loop (divs : list Z) (den : Z) (fixedWidth : bool) (pos : Z) (content : list N) (val : Z)
  : outcome (option (Z * list N)) :=
  match divs with
  | [] => Ok (Some (pos, content))
  | dv :: rest =>
    if pos =? BufSize then Ok None
    else if dv <? den then
      let n := Z.quot val dv in
      st <- put pos content (Z.to_N (cast U32 (cast I8 n + 48) mod 256)) ;;
      let '(pos', content') := st in
      let val' := val - n * dv in
      if negb fixedWidth && (val' =? 0) then Ok (Some (pos', content'))
      else psf_loop rest den fixedWidth pos' content' val'
    else psf_loop rest den fixedWidth pos content val
  end.

(* PrintSecondsFractions(pos, end, duration<rep, ratio<1,den>>(count), fixedWidth); None = nullptr.
   rep is signed in every instantiation that compiles (std::abs) *)
Definition print_sec_fractions (pos : Z) (content : list N) (rep : ity) (den count : Z) (fixedWidth : bool)
  : outcome (option (Z * list N)) :=
  if den <=? count then Ok None                                  (* time >= seconds(1) *)
  else
    st <- (if pos =? BufSize then Ok (pos, content) else put pos content c_dot) ;;
    let '(pos1, content1) := st in
    val <- arith (promote rep) (Z.abs count) ;;                  (* std::abs(time.count()) *)
    psf_loop frac_divs den fixedWidth pos1 content1 val.

(* ------------------------------------------------------------------ PrintIsoUtc *)

Definition date_body (y mo d h mi s : Z) : list N :=
  fmt_int 4 y ++ [c_minus] ++ fmt_int 2 mo ++ [c_minus] ++ fmt_int 2 d ++ [c_T] ++
  fmt_int 2 h ++ [c_colon] ++ fmt_int 2 mi ++ [c_colon] ++ fmt_int 2 s.

(* frac = Some (rep, den, count) when utc.SecFractions holds a value *)
Definition print_iso_utc (y mo d h mi s : Z) (frac : option (ity * Z * Z)) : outcome (list N) :=
  let pre := if 10000 <=? y then [c_plus] else if y <? 0 then [c_minus] else [] in
  (* absYear = Year < 0 ? 0 - uint64(Year) : uint64(Year) *)
  let absY := if y <? 0 then cast U64 (0 - cast U64 y) else cast U64 y in
  let body := pad0 4 (dec absY) ++ [c_minus] ++ fmt_int 2 mo ++ [c_minus] ++ fmt_int 2 d ++ [c_T] ++
              fmt_int 2 h ++ [c_colon] ++ fmt_int 2 mi ++ [c_colon] ++ fmt_int 2 s in
  (* snprintf(pos, endPos - pos, ...) returns the untruncated length; outSize < endPos - pos or the
     "insufficient buffer size" exception *)
  if BufSize - Z.of_nat (length pre) <=? Z.of_nat (length body) then Err RuntimeError else
  let pos1 := Z.of_nat (length pre) + Z.of_nat (length body) in
  r <- match frac with
       | None => Ok (Some (pos1, pre ++ body))
       | Some (rep, den, cnt) => print_sec_fractions pos1 (pre ++ body) rep den cnt true
       end ;;
  match r with
  | None => UB UBNull                                            (* nullptr != endPos, *nullptr = 'Z' *)
  | Some (pos, content) =>
    if pos =? BufSize then Err RuntimeError                      (* "Internal error: insufficient buffer size" *)
    else st <- put pos content c_Z ;; Ok (snd st)
  end.

(* ------------------------------------------------------------------ Hinnant's algorithms, as written *)

(* days -> (y, m, d): lines 435-446; z = days + 719468 *)
Definition civil_of_era_doe (era doe : Z) : Z * Z * Z :=
  let yoe := Z.quot (doe - Z.quot doe 1460 + Z.quot doe 36524 - Z.quot doe 146096) 365 in
  let y := yoe + era * 400 in
  let doy := doe - (365 * yoe + Z.quot yoe 4 - Z.quot yoe 100) in
  let mp := Z.quot (5 * doy + 2) 153 in
  let d := doy - Z.quot (153 * mp + 2) 5 + 1 in
  let m := if mp <? 10 then mp + 3 else mp - 9 in
  (y + (if m <=? 2 then 1 else 0), m, d).
Definition civil_from_z (z : Z) : Z * Z * Z :=
  let era := Z.quot (if 0 <=? z then z else z - 146096) 146097 in
  civil_of_era_doe era (z - era * 146097).
Definition civil_from_days (days : Z) : Z * Z * Z := civil_from_z (days + 719468).

(* era and day of era of days + 719468 without forming the sum: era and day of era of `days` (truncating / and %,
   corrected for a negative remainder), then 719468 = 4 * 146097 + 135080 added to the day of era; every intermediate
   value lies within a few eras of days / 146097 *)
Definition shifted_era_doe (days : Z) : Z * Z :=
  let e0 := Z.quot days 146097 in
  let r0 := Z.rem days 146097 in
  let e1 := if r0 <? 0 then e0 - 1 else e0 in
  let r1 := if r0 <? 0 then r0 + 146097 else r0 in
  let s := r1 + 719468 in
  (e1 + Z.quot s 146097, Z.rem s 146097).

(* (y, m, d) -> era and day of era: lines 475-481 (y is already Year - (Month <= 2)) *)
Definition era_of_y (y : Z) : Z := Z.quot (if 0 <=? y then y else y - 399) 400.
Definition doe_of (y era m d : Z) : Z :=
  let yoe := y - era * 400 in
  let doy := Z.quot (153 * (if 2 <? m then m - 3 else m + 9) + 2) 5 + d - 1 in
  yoe * 365 + Z.quot yoe 4 - Z.quot yoe 100 + doy.
Definition days_from_civil (y m d : Z) : Z :=
  let y' := y - (if m <=? 2 then 1 else 0) in
  let era := era_of_y y' in
  era * 146097 + (doe_of y' era m d - 719468).

(* ------------------------------------------------------------------ To(time_point) -> string *)

Definition tp_print (P : prec) (R : ity) (c : Z) : outcome (list N) :=
  let D := pty P R in
  let TD := DaysT R in
  datePart <- dfloor D TD c ;;                                   (* floor<TDays>(in) *)
  (* TWide(in.time_since_epoch()) % oneDay, + oneDay if negative *)
  let TP := mkD (common_rep R I64) (d_num D) (d_den D) in
  oneDay <- dcast (mkD (common_rep R I64) 86400 1) TP 1 ;;
  wide <- dcast D TP c ;;
  tp0 <- (if oneDay =? 0 then UB UBOverflow else arith (promote (d_rep TP)) (Z.rem wide oneDay)) ;;
  timePart <- (if tp0 <? 0 then r <- arith (promote (d_rep TP)) (tp0 + oneDay) ;; Ok (cast (d_rep TP) r) else Ok tp0) ;;
  timeInSec <- dfloor TP SecT timePart ;;                        (* floor<seconds>(timePart).count() *)
  let '(era, doe) := shifted_era_doe datePart in
  let '(y, m, d) := civil_of_era_doe era doe in
  let hour := cast I32 (Z.quot timeInSec 3600) in
  let mi := cast I32 (Z.quot (Z.rem timeInSec 3600) 60) in
  let s := cast I32 (Z.rem timeInSec 60) in
  if sub_second P then
    fr <- dsub TP timePart SecT timeInSec ;;                     (* timePart - seconds(timeInSec) *)
    let FT := dcommon TP SecT in
    print_iso_utc (cast I64 y) (cast I32 m) (cast I32 d) hour mi s (Some (d_rep FT, d_den FT, fr))
  else
    print_iso_utc (cast I64 y) (cast I32 m) (cast I32 d) hour mi s None.

(* ------------------------------------------------------------------ ParseIsoUtc *)

Definition DaysInMonth (m : Z) : Z :=
  match m with
  | 1 => 31 | 2 => 29 | 3 => 31 | 4 => 30 | 5 => 31 | 6 => 30
  | 7 => 31 | 8 => 31 | 9 => 30 | 10 => 31 | 11 => 30 | _ => 31
  end.

(* parseDatetimePart *)
Definition parse_part (t : ity) (l : list N) (minV maxV : option Z) (delim : option N) (isYear : bool)
  : outcome (Z * list N) :=
  match l with
  | [] => Err InvalidArgument
  | c :: tl =>
    if is_digit c || isYear then
      let l1 := if isYear && (c =? c_plus)%N then tl else l in
      match from_chars t l1 with
      | FcOk v rest =>
        if (match minV with Some mn => v <? mn | None => false end) ||
           (match maxV with Some mx => mx <? v | None => false end) then Err InvalidArgument
        else match delim with
             | Some dl => match rest with
                          | c' :: rest' => if (c' =? dl)%N then Ok (v, rest') else Err InvalidArgument
                          | [] => Err InvalidArgument
                          end
             | None => Ok (v, rest)
             end
      | FcRange => Err OutOfRange
      | FcInvalid => Err InvalidArgument
      end
    else Err InvalidArgument
  end.

Record utc_parts := mkUtc { u_year : Z; u_mo : Z; u_day : Z; u_hour : Z; u_min : Z; u_sec : Z; u_frac : option Z }.

Definition parse_iso_utc (l : list N) : outcome utc_parts :=
  r <- parse_part I64 l None None (Some c_minus) true ;; let '(year, l) := r in
  r <- parse_part I32 l (Some 1) (Some 12) (Some c_minus) false ;; let '(mo, l) := r in
  r <- parse_part I32 l (Some 1) (Some (DaysInMonth mo)) (Some c_T) false ;; let '(day, l) := r in
  r <- (if (mo =? 2) && (day =? 29) &&
           negb ((Z.rem year 4 =? 0) && (negb (Z.rem year 100 =? 0) || (Z.rem year 400 =? 0)))
        then Err InvalidArgument else Ok tt) ;;
  r <- parse_part I32 l (Some 0) (Some 23) (Some c_colon) false ;; let '(hour, l) := r in
  r <- parse_part I32 l (Some 0) (Some 59) (Some c_colon) false ;; let '(mi, l) := r in
  r <- parse_part I32 l (Some 0) (Some 59) None false ;; let '(sec, l) := r in
  r <- match l with
       | c :: tl => if (c =? c_dot)%N || (c =? c_comma)%N then
                      match parse_second_fractions tl with
                      | Some (ns, l') => Ok (Some ns, l')
                      | None => Err InvalidArgument
                      end
                    else Ok (None, l)
       | [] => Ok (None, l)
       end ;;
  let '(frac, l) := r in
  match l with
  | c :: _ => if (c =? c_Z)%N then Ok (mkUtc year mo day hour mi sec frac) else Err InvalidArgument
  | [] => Err InvalidArgument
  end.

(* ------------------------------------------------------------------ To(string) -> time_point *)

Definition tp_of_parts (P : prec) (R : ity) (u : utc_parts) : outcome Z :=
  let D := pty P R in
  if u_year u <? tmin I64 + 400 then Err OutOfRange else
  y <- arith I64 (u_year u - (if u_mo u <=? 2 then 1 else 0)) ;;  (* utc.Year - (utc.Month <= 2) *)
  let m := cast U32 (u_mo u) in
  let d := cast U32 (u_day u) in
  yy <- (if 0 <=? y then Ok y else arith I64 (y - 399)) ;;
  era <- cdiv I64 yy 400 ;;
  e4 <- arith I64 (era * 400) ;;
  ye <- arith I64 (y - e4) ;;
  let yoe := cast U32 ye in
  let mm := if 2 <? m then cast U32 (m - 3) else cast U32 (m + 9) in
  let doy := cast U32 (cast U32 (cast U32 (cast U32 (153 * mm) + 2) / 5 + d) - 1) in
  let doe := cast U32 (cast U32 (cast U32 (yoe * 365) + yoe / 4) - yoe / 100 + doy) in
  (* days = (era - 5) * 146097 + (doe + 11017), one era up when era - 5 is negative *)
  se <- arith I64 (era - 5) ;;
  sd <- arith I64 (cast I64 doe + 11017) ;;
  days <- (if 0 <=? se then
             lim <- cdiv I64 (tmax I64 - sd) 146097 ;;
             if lim <? se then Err OutOfRange else
             pr <- arith I64 (se * 146097) ;; arith I64 (pr + sd)
           else
             ue <- arith I64 (se + 1) ;;
             dd <- arith I64 (sd - 146097) ;;
             lim <- cdiv I64 (tmin I64 - (if dd <? 0 then dd else 0)) 146097 ;;
             if ue <? lim then Err OutOfRange else
             pr <- arith I64 (ue * 146097) ;; arith I64 (pr + dd)) ;;
  h1 <- arith I64 (u_hour u * 3600) ;; m1 <- arith I64 (u_min u * 60) ;;
  t1 <- arith I64 (h1 + m1) ;; time <- arith I64 (t1 + u_sec u) ;;
  if 0 <=? days then
    tp <- safe_add_tp D 0 SecT time ;;
    tp <- (match u_frac u with
           | Some ns => r <- dround NsT D ns ;; safe_add_tp D tp D r
           | None => Ok tp
           end) ;;
    safe_add_tp D tp (mkD I64 86400 1) days
  else
    d1 <- arith I64 (days + 1) ;;
    tp <- safe_add_tp D 0 (mkD I64 86400 1) d1 ;;
    tp <- (match u_frac u with
           | Some ns => r <- dround NsT D ns ;; safe_add_tp D tp D r
           | None => Ok tp
           end) ;;
    back <- arith I64 (time - 86400) ;;
    safe_add_tp D tp SecT back.

Definition tp_parse (P : prec) (R : ity) (l : list N) : outcome Z :=
  u <- parse_iso_utc l ;; tp_of_parts P R u.

(* ------------------------------------------------------------------ To(duration) -> string *)

(* PrintDurationPart<duration<R, ratio<X>>> ; state = (timeLeft, pos, content) *)
Definition print_dur_part (D : dty) (X : Z) (isSeconds : bool) (suffix : N) (st : Z * Z * list N)
  : outcome (Z * Z * list N) :=
  let '(timeLeft, pos, content) := st in
  let R := d_rep D in
  let PT := mkD R X 1 in
  timePart <- dcast D PT timeLeft ;;
  if negb (timePart =? 0) || (isSeconds && negb (timeLeft =? 0)) then
    val <- (if is_signed R then
              (* timePart.count() < 0 ? 0 - uint64(count) : uint64(count) *)
              if timePart <? 0 then Ok (cast U64 (0 - cast U64 timePart)) else Ok (cast U64 timePart)
            else Ok (cast U64 timePart)) ;;
    let ds := to_chars val in
    if BufSize - pos <? Z.of_nat (length ds) then Err RuntimeError else   (* to_chars: value_too_large *)
    let pos1 := pos + Z.of_nat (length ds) in
    let content1 := content ++ ds in
    back <- dcast PT D timePart ;;
    tl <- arith (promote R) (timeLeft - back) ;;
    let timeLeft1 := cast R tl in
    r <- (if isSeconds && (1 <? d_den D) then
            f <- print_sec_fractions pos1 content1 R (d_den D) timeLeft1 false ;;
            Ok (f, 0)
          else Ok (Some (pos1, content1), timeLeft1)) ;;
    let '(pc, timeLeft2) := r in
    match pc with
    | None => Err RuntimeError
    | Some (pos2, content2) =>
      if pos2 =? BufSize then Err RuntimeError
      else st <- put pos2 content2 suffix ;; Ok (timeLeft2, fst st, snd st)
    end
  else Ok (timeLeft, pos, content).

Definition dur_print (P : prec) (R : ity) (c : Z) : outcome (list N) :=
  if c =? 0 then Ok [c_P; c_T; ch0; c_S] else
  let D := pty P R in
  st <- (if c <? 0 then put 0 [] c_minus else Ok (0, [])) ;;
  st <- put (fst st) (snd st) c_P ;;
  st <- print_dur_part D 86400 false c_D (c, fst st, snd st) ;;
  let '(timeLeft, pos, content) := st in
  if negb (timeLeft =? 0) then
    st <- put pos content c_T ;;
    st <- print_dur_part D 3600 false c_H (timeLeft, fst st, snd st) ;;
    st <- print_dur_part D 60 false c_M st ;;
    st <- print_dur_part D 1 true c_S st ;;
    Ok (snd st)
  else Ok content.

(* ------------------------------------------------------------------ To(string) -> duration *)

Definition transform_to_duration (D : dty) (srcR : ity) (value : Z) (sym : N) (isDatePart : bool) : outcome Z :=
  if isDatePart then
    if (sym =? c_W)%N then safe_cast (mkD srcR 604800 1) D value
    else if (sym =? c_D)%N then safe_cast (mkD srcR 86400 1) D value
    else Err InvalidArgument
  else
    if (sym =? c_H)%N then safe_cast (mkD srcR 3600 1) D value
    else if (sym =? c_M)%N then safe_cast (mkD srcR 60 1) D value
    else if (sym =? c_S)%N then safe_cast (mkD srcR 1 1) D value
    else Err InvalidArgument.

(* parseNextPart: returns (rest, duration) *)
Definition parse_next_part (D : dty) (l : list N) (isDatePart isNegative : bool) (duration : Z)
  : outcome (list N * Z) :=
  match l with
  | [] => Err InvalidArgument
  | c :: _ =>
    if is_digit c then
      match from_chars U64 l with
      | FcOk value rest =>
        match rest with
        | [] => Err InvalidArgument
        | sym :: rest1 =>
          r <- (if (sym =? c_dot)%N || (sym =? c_comma)%N then
                  match parse_second_fractions rest1 with
                  | None => Err InvalidArgument
                  | Some (ns, rest2) =>
                    x <- (match rest2 with
                          | [] => Ok (sym, rest2)
                          | s2 :: rest3 => if (s2 =? c_S)%N then Ok (s2, rest3) else Err InvalidArgument
                          end) ;;
                    sns <- (if isNegative then arith I64 (- ns) else Ok ns) ;;
                    rr <- dround NsT D sns ;;
                    dur' <- safe_add_dur D duration D rr ;;
                    Ok (fst x, snd x, dur')
                  end
                else Ok (sym, rest1, duration)) ;;
          let '(sym', rest', dur') := r in
          if isNegative then
            if value <=? 9223372036854775808 then
              nv <- (if value =? 9223372036854775808 then Ok (tmin I64) else arith I64 (- cast I64 value)) ;;
              t <- transform_to_duration D I64 nv sym' isDatePart ;;
              d2 <- safe_add_dur D dur' D t ;; Ok (rest', d2)
            else Err OutOfRange
          else
            t <- transform_to_duration D U64 value sym' isDatePart ;;
            d2 <- safe_add_dur D dur' D t ;; Ok (rest', d2)
        end
      | FcRange => Err OutOfRange
      | FcInvalid => Err InvalidArgument
      end
    else Err InvalidArgument
  end.

Fixpoint dur_loop (fuel : nat) (D : dty) (l : list N) (isDatePart isNegative : bool) (duration : Z) : outcome Z :=
  match fuel with
  | O => OutOfFuel
  | S fuel' =>
    let '(isDate', l') := match l with
                          | c :: t => if isDatePart && (c =? c_T)%N then (false, t) else (isDatePart, l)
                          | [] => (isDatePart, l)
                          end in
    r <- parse_next_part D l' isDate' isNegative duration ;;
    let '(rest, dur') := r in
    match rest with
    | [] => Ok dur'
    | c :: _ => if is_space c then Ok dur' else dur_loop fuel' D rest isDate' isNegative dur'
    end
  end.

Definition dur_parse_fuel (fuel : nat) (P : prec) (R : ity) (l : list N) : outcome Z :=
  let D := pty P R in
  if (3 <=? length l)%nat then
    match l with
    | [] => Err InvalidArgument
    | c0 :: tl =>
      let isNegative := (c0 =? c_minus)%N in
      let l1 := if isNegative || (c0 =? c_plus)%N then tl else l in
      match l1 with
      | c1 :: l2 =>
        if (c1 =? c_P)%N then
          if isNegative && negb (is_signed R) then Err OutOfRange
          else dur_loop fuel D l2 true isNegative 0
        else Err InvalidArgument
      | [] => Err InvalidArgument
      end
    end
  else Err InvalidArgument.

Definition dur_parse (P : prec) (R : ity) (l : list N) : outcome Z := dur_parse_fuel (S (length l)) P R l.

(* ------------------------------------------------------------------ CBinTimestamp conversions *)

(* NormalizeNegativeFraction(CBinTimestamp&): floor seconds and a fraction in 0..999999999 *)
Definition normalize_negative_fraction (sec ns : Z) : outcome (Z * Z) :=
  if ns <? 0 then
    s' <- arith I64 (sec - 1) ;;                                 (* --timestamp.Seconds *)
    n' <- arith I32 (ns + 1000000000) ;;                         (* timestamp.Nanoseconds += 1000000000 *)
    Ok (s', cast I32 n')
  else Ok (sec, ns).

(* SplitTowardsZero(const CBinTimestamp&): both parts with the same sign *)
Definition split_towards_zero (sec ns : Z) : outcome (Z * Z) :=
  if (sec <? 0) && (0 <? ns) then
    s' <- arith I64 (sec + 1) ;;
    n' <- arith I32 (ns - 1000000000) ;;
    Ok (s', cast I32 n')
  else Ok (sec, ns).

(* To(time_point / duration, CBinTimestamp&): the two overloads compute the same expressions *)
Definition ts_to (P : prec) (R : ity) (c : Z) : outcome (Z * Z) :=
  let D := pty P R in
  if sub_second P then
    sec <- dcast D SecT c ;;                                     (* duration_cast<seconds>(epochTime).count() *)
    back <- dcast SecT D sec ;;                                  (* duration_cast<TDuration>(seconds(Seconds)) *)
    left <- dsub D c D back ;;
    ns <- dcast D NsT left ;;
    normalize_negative_fraction sec (cast I32 ns)
  else
    sec <- safe_cast D SecT c ;; Ok (sec, 0).

(* To(CBinTimestamp, time_point&) *)
Definition ts_from_tp (P : prec) (R : ity) (sec0 nsec0 : Z) : outcome Z :=
  let D := pty P R in
  sn <- split_towards_zero sec0 nsec0 ;;
  let '(sec, nsec) := sn in
  c0 <- safe_cast SecT D sec ;;
  if nsec =? 0 then Ok c0
  else if above_second P then Err OutOfRange
  else r <- dround NsT D nsec ;; safe_add_tp D c0 D r.

(* To(CBinTimestamp, duration&) *)
Definition ts_from_dur (P : prec) (R : ity) (sec0 nsec0 : Z) : outcome Z :=
  let D := pty P R in
  sn <- split_towards_zero sec0 nsec0 ;;
  let '(sec, nsec) := sn in
  c0 <- safe_cast SecT D sec ;;
  if nsec =? 0 then Ok c0
  else if above_second P then Err OutOfRange
  else r <- dround NsT D nsec ;; safe_add_dur D c0 D r.

(* ------------------------------------------------------------------ tm, CRawTime, wide strings *)

(* To(const tm&, string&): CDateTimeParts<>(tm), no fractions *)
Definition tm_print (year mon mday hour mi sec : Z) : outcome (list N) :=
  print_iso_utc year mon mday hour mi sec None.

(* To(string_view, tm&) *)
Definition tm_parse (l : list N) : outcome (Z * Z * Z * Z * Z * Z) :=
  u <- parse_iso_utc l ;;
  if (tmax I32 <? u_year u) || (u_year u <? tmin I32) then Err OutOfRange
  else Ok (cast I32 (u_year u), u_mo u, u_day u, u_hour u, u_min u, u_sec u).

(* CRawTime: time_point<system_clock, duration<time_t>> with time_t = long *)
Definition rt_print (c : Z) : outcome (list N) := tp_print Ps I64 c.
Definition rt_parse (l : list N) : outcome Z := tp_parse Ps I64 l.

(* char16_t / char32_t input: Utf8::Encode(in, utf8Str) with the default policy (Skip) and mark *)
Definition narrow (w : width) (units : list N) : list N :=
  r_out (transcode w W8 Skip [0xE2; 0x98; 0x90]%N units []).
Definition tp_parse_wide (w : width) (P : prec) (R : ity) (units : list N) : outcome Z := tp_parse P R (narrow w units).
Definition dur_parse_wide (w : width) (P : prec) (R : ity) (units : list N) : outcome Z := dur_parse P R (narrow w units).
