(* ChronoMp.v — C14 composed with the MsgPack binary timestamp form (C06 writer, C07 reader): a time point or duration,
   converted to CBinTimestamp (ChronoModel.ts_to), written by WriteValue(const CBinTimestamp&) (MpModel.wr_ts), read by
   ReadValue(CBinTimestamp&) (MpModel.read_ts) from those bytes followed by anything, and converted back
   (ts_from_tp / ts_from_dur), is the value it was; exactly the written bytes are consumed; and the format chosen is
   timestamp 32 / 64 / 96 by the magnitude of the seconds and the presence of nanoseconds.
   F08 (timestamp 96 is written seconds-first, the specification says nanoseconds-first) is and stays a finding of C06:
   the library's reader mirrors its writer, so the library reads its own timestamp 96 back correctly — which is what is
   proved here; interoperability with other implementations is what F08 is about. *)
From BS Require Import Base MpSpec MpModel MpLemmas MpReader MpTyped MpWriter MpTs.
From BS Require Import ChronoSpec ChronoModel ChronoArith ChronoTs ChronoProps.
From Coq Require Import ZifyBool ZifyN ZifyNat.
Local Open Scope Z_scope.

(* ------------------------------------------------------------------ the wire form of a CBinTimestamp *)

(* what the library's reader delivers for what the library's writer emitted *)
Lemma ts_read_wr_payload secs nanos : ts_in_range secs nanos ->
  ts_read_value (wr_ts_payload secs nanos) = Some (secs, nanos).
Proof.
  intros [Hs Hn]. unfold wr_ts_payload.
  assert (P32 : (2 ^ 32 = 4294967296)%Z) by reflexivity.
  assert (P34 : (2 ^ 34 = 17179869184)%Z) by reflexivity.
  assert (P63 : (2 ^ 63 = 9223372036854775808)%Z) by reflexivity.
  set (ns := Z.to_N nanos). assert (Hns : (ns <= 999999999)%N) by (subst ns; lia).
  assert (Ens : Z.of_N ns = nanos) by (subst ns; lia).
  destruct ((0 <=? secs) && (secs <? 2 ^ 34)) eqn:E.
  - unfold ts_payload. rewrite E. set (us := Z.to_N secs).
    assert (Hus : (us < 17179869184)%N) by (subst us; lia).
    assert (Eus : Z.of_N us = secs) by (subst us; lia).
    destruct ((ns =? 0)%N && (secs <? 2 ^ 32)) eqn:E2.
    + assert (ns = 0%N /\ (us < 4294967296)%N) as [E0 Hu32] by (subst us; lia).
      unfold ts_read_value. rewrite be_bytes_length.
      rewrite be_val_bytes by (change (256 ^ N.of_nat 4)%N with 4294967296%N; exact Hu32).
      f_equal. f_equal; lia.
    + unfold ts_read_value. rewrite be_bytes_length.
      assert (Hd : (ns * 2 ^ 34 + us < 256 ^ N.of_nat 8)%N).
      { change (2 ^ 34)%N with 17179869184%N. change (256 ^ N.of_nat 8)%N with 18446744073709551616%N. lia. }
      rewrite be_val_bytes by exact Hd.
      change 0x00000003FFFFFFFF%N with (N.ones 34). rewrite land_mask, shiftr_div.
      assert (Em : ((ns * 2 ^ 34 + us) mod 2 ^ 34 = us)%N).
      { rewrite N.add_comm, N.mod_add by (cbn; discriminate). apply N.mod_small. exact Hus. }
      assert (Eq : ((ns * 2 ^ 34 + us) / 2 ^ 34 = ns)%N).
      { rewrite N.add_comm, N.div_add by (cbn; discriminate). rewrite N.div_small by exact Hus. reflexivity. }
      rewrite Em, Eq. rewrite N.mod_small by (change (2 ^ 32)%N with 4294967296%N; lia).
      unfold to_signed. change (2 ^ (32 - 1))%N with 2147483648%N.
      replace (ns <? 2147483648)%N with true by (symmetry; lia).
      f_equal. f_equal; lia.
  - assert (El : length (be_bytes 8 (twos 64 secs) ++ be_bytes 4 ns) = 12%nat) by (rewrite app_length, !be_bytes_length; reflexivity).
    unfold ts_read_value. rewrite El.
    pose proof (firstn_app_exact (be_bytes 8 (twos 64 secs)) (be_bytes 4 ns)) as F1.
    pose proof (skipn_app_exact (be_bytes 8 (twos 64 secs)) (be_bytes 4 ns)) as F2.
    rewrite be_bytes_length in F1, F2. rewrite F1, F2.
    rewrite be_val_bytes by (change (256 ^ N.of_nat 8)%N with (2 ^ 64)%N; apply twos_bound).
    rewrite be_val_bytes by (change (256 ^ N.of_nat 4)%N with 4294967296%N; lia).
    unfold twos. rewrite to_signed_twos by (try reflexivity; change (Z.of_N 64 - 1) with 63; lia).
    unfold to_signed. change (2 ^ (32 - 1))%N with 2147483648%N.
    replace (ns <? 2147483648)%N with true by (symmetry; lia).
    f_equal. f_equal; lia.
Qed.

(* write, then read from the written bytes followed by anything: the same CBinTimestamp, exactly the written bytes
   consumed, whatever the policies *)
Theorem ts_wire_roundtrip o secs nanos rest : ts_in_range secs nanos ->
  read_ts o (wr_ts secs nanos ++ rest) = ROk (secs, nanos) rest.
Proof.
  intros H. pose proof (read_ts_agrees o (wr_ts secs nanos ++ rest)) as Hs. unfold ts_spec in Hs.
  change (decode (wr_ts secs nanos ++ rest)) with (dec1 (wr_ts secs nanos) rest) in Hs.
  rewrite (wr_ts_ok secs nanos rest H) in Hs.
  change (255 =? 0xFF)%N with true in Hs. cbv iota in Hs.
  rewrite (ts_read_wr_payload secs nanos H) in Hs. exact Hs.
Qed.

(* the format chosen *)
Definition ts_format (secs nanos : Z) : N :=
  if (0 <=? secs) && (secs <? 2 ^ 34) then (if (nanos =? 0) && (secs <? 2 ^ 32) then 32 else 64) else 96.

Theorem wr_ts_shape secs nanos : ts_in_range secs nanos ->
  wr_ts secs nanos =
  match ts_format secs nanos with
  | 32%N => 0xD6 :: 0xFF :: be_bytes 4 (Z.to_N secs)                                      (* fixext 4, type -1 *)
  | 64%N => 0xD7 :: 0xFF :: be_bytes 8 (Z.to_N nanos * 2 ^ 34 + Z.to_N secs)               (* fixext 8, type -1 *)
  | _ => 0xC7 :: 12 :: 0xFF :: be_bytes 8 (twos 64 secs) ++ be_bytes 4 (Z.to_N nanos)      (* ext 8, length 12; F08 *)
  end%N.
Proof.
  intros [Hs Hn]. unfold wr_ts, ts_format.
  assert (P32 : (2 ^ 32 = 4294967296)%Z) by reflexivity.
  assert (P34 : (2 ^ 34 = 17179869184)%Z) by reflexivity.
  assert (P63 : (2 ^ 63 = 9223372036854775808)%Z) by reflexivity.
  assert (P64 : (2 ^ 64 = 18446744073709551616)%Z) by reflexivity.
  rewrite (twos64_nonneg nanos) by lia.
  set (ns := Z.to_N nanos). assert (Hns : (ns <= 999999999)%N) by (subst ns; lia).
  set (us := twos 64 secs).
  assert (Hus : (us < 2 ^ 64)%N) by (apply twos_bound).
  rewrite shiftr_div.
  destruct ((0 <=? secs) && (secs <? 2 ^ 34)) eqn:E.
  - assert (Eus : us = Z.to_N secs) by (subst us; apply twos64_nonneg; lia).
    assert (Hlt : (us < 2 ^ 34)%N) by (rewrite Eus; change (2 ^ 34)%N with 17179869184%N; lia).
    replace (us / 2 ^ 34 =? 0)%N with true by (symmetry; apply N.eqb_eq; apply N.div_small; exact Hlt).
    rewrite shiftl_mul, lor_add by exact Hlt.
    assert (Hd : (ns * 2 ^ 34 + us < 2 ^ 64)%N).
    { change (2 ^ 34)%N with 17179869184%N in *. change (2 ^ 64)%N with 18446744073709551616%N. lia. }
    rewrite N.mod_small by exact Hd. rewrite land_high32 by exact Hd.
    destruct (ns * 2 ^ 34 + us <? 2 ^ 32)%N eqn:E2.
    + assert (ns = 0%N /\ (us < 2 ^ 32)%N) as [E0 Hu32].
      { change (2 ^ 34)%N with 17179869184%N in *. change (2 ^ 32)%N with 4294967296%N in *. lia. }
      replace ((nanos =? 0) && (secs <? 2 ^ 32)) with true
        by (symmetry; change (2 ^ 32)%N with 4294967296%N in Hu32; subst ns us; lia).
      rewrite E0, N.mul_0_l, N.add_0_l. rewrite N.mod_small by exact Hu32. rewrite Eus. reflexivity.
    + replace ((nanos =? 0) && (secs <? 2 ^ 32)) with false.
      2:{ symmetry. change (2 ^ 34)%N with 17179869184%N in *. change (2 ^ 32)%N with 4294967296%N in *.
          destruct (Z.eqb_spec nanos 0) as [E0|E0]; [|reflexivity]. cbn [andb]. subst ns us. lia. }
      rewrite Eus. reflexivity.
  - assert (Hge : (2 ^ 34 <= us)%N).
    { subst us. unfold twos. change (2 ^ Z.of_N 64) with (2 ^ 64). rewrite P64.
      change (2 ^ 34)%N with 17179869184%N. destruct (Z.ltb_spec secs 0) as [Hneg|Hnn].
      - replace (secs mod 18446744073709551616) with (secs + 18446744073709551616)
          by (apply Z.mod_unique with (q := -1); lia). lia.
      - rewrite Z.mod_small by lia. lia. }
    replace (us / 2 ^ 34 =? 0)%N with false.
    2:{ symmetry. apply N.eqb_neq. intros Hc. apply N.div_small_iff in Hc; [lia | cbn; discriminate]. }
    rewrite (twos32_nonneg nanos) by lia. reflexivity.
Qed.

Corollary wr_ts_length secs nanos : ts_in_range secs nanos ->
  length (wr_ts secs nanos) = match ts_format secs nanos with 32%N => 6%nat | 64%N => 10%nat | _ => 15%nat end.
Proof.
  intros H. rewrite (wr_ts_shape secs nanos H). unfold ts_format.
  destruct ((0 <=? secs) && (secs <? 2 ^ 34)); [destruct ((nanos =? 0) && (secs <? 2 ^ 32))|];
    cbn [length]; rewrite ?app_length, ?be_bytes_length; reflexivity.
Qed.

(* ------------------------------------------------------------------ time points and durations through the wire *)

(* saving: To(value, CBinTimestamp&) then WriteValue;  loading: ReadValue(CBinTimestamp&) then To(CBinTimestamp, value&) *)
Definition mp_save_chrono (P : prec) (R : ity) (t : Z) : outcome (list N) :=
  ts <- ts_to P R t ;; Ok (wr_ts (fst ts) (snd ts)).

Inductive mp_loaded := Loaded (v : outcome Z) (rest : list N) | NotLoaded.

Definition mp_load_chrono (from_ts : prec -> ity -> Z -> Z -> outcome Z) (o : opts) (P : prec) (R : ity) (data : list N) : mp_loaded :=
  match read_ts o data with
  | ROk (secs, nanos) rest => Loaded (from_ts P R secs nanos) rest
  | _ => NotLoaded
  end.

Theorem chrono_mp_roundtrip P R t o rest : rep3 R -> fits R t = true ->
  fits I64 (fst (ts_of_ns (t * tick_ns P))) = true ->
  let secs := fst (ts_of_ns (t * tick_ns P)) in let nanos := snd (ts_of_ns (t * tick_ns P)) in
  mp_save_chrono P R t = Ok (wr_ts secs nanos) /\
  mp_load_chrono ts_from_tp o P R (wr_ts secs nanos ++ rest) = Loaded (Ok t) rest /\
  mp_load_chrono ts_from_dur o P R (wr_ts secs nanos ++ rest) = Loaded (Ok t) rest /\
  length (wr_ts secs nanos) = match ts_format secs nanos with 32%N => 6%nat | 64%N => 10%nat | _ => 15%nat end.
Proof.
  intros HR Ht Hs. cbv zeta.
  destruct (c14_bin_ts P R t HR Ht Hs) as (Eto & Hn & Etp & Edur).
  set (secs := fst (ts_of_ns (t * tick_ns P))) in *. set (nanos := snd (ts_of_ns (t * tick_ns P))) in *.
  assert (Hr : ts_in_range secs nanos).
  { split; [|exact Hn]. apply fits_I64 in Hs. change (2 ^ 63) with 9223372036854775808. lia. }
  split; [|split; [|split]].
  - unfold mp_save_chrono. rewrite Eto, bind_ok. reflexivity.
  - unfold mp_load_chrono. rewrite (ts_wire_roundtrip o secs nanos rest Hr), Etp. reflexivity.
  - unfold mp_load_chrono. rewrite (ts_wire_roundtrip o secs nanos rest Hr), Edur. reflexivity.
  - apply wr_ts_length. exact Hr.
Qed.

(* the three formats, on concrete values *)
Example chrono_mp_examples :
  mp_save_chrono Ps I64 1700000000 = Ok [214; 255; 101; 83; 241; 0]%N /\
  mp_save_chrono Pms I64 1700000000123 = Ok [215; 255; 29; 83; 83; 0; 101; 83; 241; 0]%N /\
  mp_save_chrono Pns I64 (-500000000) = Ok [199; 12; 255; 255; 255; 255; 255; 255; 255; 255; 255; 29; 205; 101; 0]%N /\
  mp_save_chrono Ps I64 17179869184 = Ok [199; 12; 255; 0; 0; 0; 4; 0; 0; 0; 0; 0; 0; 0; 0]%N /\
  mp_load_chrono ts_from_tp (mkOpts PThrow PThrow) Pns I64
    [199; 12; 255; 255; 255; 255; 255; 255; 255; 255; 255; 29; 205; 101; 0; 7]%N = Loaded (Ok (-500000000)) [7%N].
Proof. repeat split; vm_compute; reflexivity. Qed.
