(* ChronoProps.v — the lemmas the Properties files close their statements with (combinations of the
   theorems of the Chrono*.v proof files, kernel-evaluated examples), and the boolean class predicates of
   the SafeDurationCast statement. *)
From BS Require Import Base ChronoSpec ChronoModel ChronoArith ChronoDecimal ChronoSweep ChronoCalendar ChronoYear
  ChronoSafe ChronoSafeAdd ChronoText ChronoTp ChronoTpParse ChronoTpRt ChronoTs ChronoRefute
  ChronoDur ChronoDurPrint ChronoDurParse ChronoDurRt ChronoClassify ChronoClassify2 ChronoClassify3 ChronoDurClassify ChronoReject ChronoTotal ChronoDurReject ChronoWide.
From BS Require Import UtfSpec UtfModel.
From Coq Require Import Lia.
Local Open Scope Z_scope.

Definition L (l : list N) := l.

(* ------------------------------------------------------------------ C14 *)

Lemma c14_civil : civil_from_days 0 = (1970, 1, 1) /\ forall z, civil_from_days (z + 1) = next_day (civil_from_days z).
Proof. exact (conj civil_epoch civil_succ). Qed.

Lemma c14_days :
  (forall y m d, valid_date (y, m, d) -> civil_from_days (days_from_civil y m d) = (y, m, d)) /\
  (forall z, let '(y, m, d) := civil_from_days z in days_from_civil y m d = z).
Proof. exact (conj civil_of_days_from_civil days_of_civil_from_days). Qed.

Lemma c14_calendar_unique :
  is_calendar civil_from_days /\ (forall f, is_calendar f -> forall z, f z = civil_from_days z) /\
  (forall y m d, valid_date (y, m, d) -> days_from_civil y m d = days_of_civil (y, m, d)).
Proof.
  split; [exact civil_is_calendar|]. split; [|exact days_from_civil_spec].
  intros f Hf z. exact (calendar_unique f civil_from_days Hf civil_is_calendar z).
Qed.

Lemma c14_civil_example : civil_from_days 19782 = (2024, 2, 29) /\ civil_from_days (-719468) = (0, 3, 1).
Proof. split; vm_compute; reflexivity. Qed.

Lemma c14_print_example :
  tp_print Pms I64 1689374691925 = Ok [50;48;50;51;45;48;55;45;49;52;84;50;50;58;52;52;58;53;49;46;57;50;53;90]%N.
Proof. vm_compute; reflexivity. Qed.

Lemma c14_print_repaired :
  tp_print Pns I64 (-9223372036854775808) = Ok text_K30 /\
  tp_print Ps I64 (-62198755200) = Ok [45;48;48;48;49;45;48;49;45;48;49;84;48;48;58;48;48;58;48;48;90]%N /\
  tp_print Ph I64 9223372036854775807 = Ok [43;49;48;53;50;49;57;55;50;56;56;54;53;56;57;48;57;45;49;48;45;49;48;84;48;55;58;48;48;58;48;48;90]%N /\
  tp_print Pd I64 9223372036854000000 = Ok [43;50;53;50;53;50;55;51;52;57;50;55;55;54;54;52;48;48;45;48;54;45;50;53;84;48;48;58;48;48;58;48;48;90]%N.
Proof. destruct r_K30 as [H1 _]. destruct r_K33 as [H3 H4]. exact (conj H1 (conj r_K32 (conj H3 H4))). Qed.

Lemma c14_parse_repaired : tp_parse Pns I64 text_K30 = Ok (-9223372036854775808).
Proof. exact (proj2 r_K30). Qed.

Lemma c14_bin_ts : forall P R t, rep3 R -> fits R t = true ->
  fits I64 (fst (ts_of_ns (t * tick_ns P))) = true ->
  ts_to P R t = Ok (ts_of_ns (t * tick_ns P)) /\
  0 <= snd (ts_of_ns (t * tick_ns P)) <= 999999999 /\
  ts_from_tp P R (fst (ts_of_ns (t * tick_ns P))) (snd (ts_of_ns (t * tick_ns P))) = Ok t /\
  ts_from_dur P R (fst (ts_of_ns (t * tick_ns P))) (snd (ts_of_ns (t * tick_ns P))) = Ok t.
Proof.
  intros P R t HR Ht Hs.
  assert (HR4 : rep4 R) by (destruct HR as [->|[->| ->]]; unfold rep4; auto).
  split; [apply ts_to_ok; assumption|].
  split; [pose proof (ts_of_ns_range (t * tick_ns P)) as H; destruct (ts_of_ns (t * tick_ns P)); cbn [snd]; tauto|].
  apply ts_from_roundtrip; assumption.
Qed.

Lemma c14_bin_ts_example :
  ts_to Pns I64 (-500000000) = Ok (-1, 500000000) /\ ts_from_tp Pns I64 (-1) 500000000 = Ok (-500000000) /\
  ts_to Pns I64 (-9223372036854775808) = Ok (-9223372037, 145224192) /\
  ts_from_dur Pns I64 (-9223372037) 145224192 = Ok (-9223372036854775808).
Proof. repeat split; vm_compute; reflexivity. Qed.

Lemma c14_duration_example :
  dur_print Pms I64 (-93784005) = Ok [45;80;49;68;84;50;72;51;77;52;46;48;48;53;83]%N /\
  dur_parse Pms I64 [45;80;49;68;84;50;72;51;77;52;46;48;48;53;83]%N = Ok (-93784005) /\
  dur_print Pns I64 (-9223372036854775808) = Ok [45;80;49;48;54;55;53;49;68;84;50;51;72;52;55;77;49;54;46;56;53;52;55;55;53;56;48;56;83]%N /\
  dur_print Pd I32 (-2147483648) = Ok [45;80;50;49;52;55;52;56;51;54;52;56;68]%N /\ dur_print Ps I64 0 = Ok [80;84;48;83]%N.
Proof. repeat split; vm_compute; reflexivity. Qed.

(* ------------------------------------------------------------------ C15 *)

Lemma c15_fraction_core : forall n v, (1 <= n <= 9)%nat -> 0 < v < 10 ^ Z.of_nat n ->
  1000000000000000000 / (10 ^ Z.of_nat n * 1000000000 / v) = v * 10 ^ (9 - Z.of_nat n).
Proof.
  intros n v Hn Hv. apply frac_core; [exact Hv|].
  rewrite <- Z.pow_add_r by lia. replace (Z.of_nat n + (9 - Z.of_nat n)) with 9 by lia. reflexivity.
Qed.

Lemma c15_fraction_example :
  parse_second_fractions [57;50;53;90]%N = Some (925000000, [90]%N) /\
  parse_second_fractions [48;48;48;48;48;48;48;48;48;49;90]%N = None.
Proof. split; vm_compute; reflexivity. Qed.

(* the domain of the SafeDurationCast statement, and its one open class as a boolean *)
Definition cast_dom (from to : dty) (c : Z) : Prop :=
  rep4 (d_rep from) /\ rep4 (d_rep to) /\ wf_dty from /\ wf_dty to /\
  d_num from * d_den to <= 4611686018427387904 /\ d_den from * d_num to <= 4611686018427387904 /\
  fits (d_rep from) c = true.

Definition simple_ratiob (from to : dty) : bool :=
  (fst (ratio_div from to) =? 1) || (snd (ratio_div from to) =? 1).
Definition general_ratio (from to : dty) : bool := negb (simple_ratiob from to).

Lemma simple_ratiob_spec from to : simple_ratiob from to = true <-> simple_ratio from to.
Proof. unfold simple_ratiob, simple_ratio. rewrite orb_true_iff, !Z.eqb_eq. tauto. Qed.

Lemma c15_safe_cast : forall from to c, cast_dom from to c -> cast_spec from to c.
Proof.
  intros from to c (H1 & H2 & H3 & H4 & H5 & H6 & H7). apply safe_cast_correct_all; assumption.
Qed.

(* the standard units lie inside the domain and outside the class *)
Inductive tunit := Uns | Uus | Ums | Us | Umin | Uh | Ud | Uw.
Definition udty (r : ity) (u : tunit) : dty :=
  match u with
  | Uns => mkD r 1 1000000000 | Uus => mkD r 1 1000000 | Ums => mkD r 1 1000 | Us => mkD r 1 1
  | Umin => mkD r 60 1 | Uh => mkD r 3600 1 | Ud => mkD r 86400 1 | Uw => mkD r 604800 1
  end.

Lemma c15_safe_cast_units : forall r1 r2 u w c, rep4 r1 -> rep4 r2 -> fits r1 c = true ->
  cast_dom (udty r1 u) (udty r2 w) c /\ general_ratio (udty r1 u) (udty r2 w) = false /\
  cast_spec (udty r1 u) (udty r2 w) c.
Proof.
  intros r1 r2 u w c Hr1 Hr2 Hc.
  assert (Hd : cast_dom (udty r1 u) (udty r2 w) c).
  { unfold cast_dom, wf_dty. destruct u, w; cbn [udty d_rep d_num d_den]; repeat split; try assumption; lia. }
  assert (Hg : general_ratio (udty r1 u) (udty r2 w) = false) by (destruct u, w; vm_compute; reflexivity).
  split; [exact Hd|]. split; [exact Hg|]. exact (c15_safe_cast _ _ c Hd).
Qed.

Lemma c15_safe_cast_example :
  safe_cast (mkD I64 604800 1) (mkD I32 1 1) 3550 = Ok 2147040000 /\
  safe_cast (mkD I64 604800 1) (mkD I32 1 1) 3551 = Err OutOfRange /\
  safe_cast (mkD U64 1 1) (mkD I8 60 1) 7620 = Ok 127 /\
  safe_cast (mkD U64 1 1) (mkD I8 60 1) 7621 = Err OutOfRange /\
  safe_cast SecT (mkD U64 60 1) (-16) = Err OutOfRange /\
  safe_cast (mkD U64 1 1) (mkD I64 60 1) 18446744073709551600 = Ok 307445734561825860.
Proof. repeat split; vm_compute; reflexivity. Qed.

Lemma c15_safe_add_example :
  safe_add_dur (mkD I8 1 1) 100 (mkD I64 1 1) 27 = Ok 127 /\ safe_add_dur (mkD I8 1 1) 100 (mkD I64 1 1) 28 = Err OutOfRange /\
  safe_add_tp (mkD I64 1 1000000000) (-9223372036854775807) (mkD I64 1 1) (-1) = Err OutOfRange.
Proof. repeat split; vm_compute; reflexivity. Qed.

Lemma c15_date_steps : forall A y m d (K : Z -> outcome A),
  -30000000000000000 <= y <= 30000000000000000 -> 1 <= m <= 12 -> 1 <= d <= 31 ->
  -9223372036854775808 <= days_from_civil y m d <= 9223372036854775807 ->
  date_steps y m d K = K (days_from_civil y m d).
Proof. intros A. exact (@date_steps_ok A). Qed.

Lemma c15_repaired : tp_parse Ps I64 text_K40 = Err InvalidArgument /\ tp_parse Ps I64 text_K40b = Ok 1709164800 /\
  dur_parse Pd I64 text_K47 = Ok (-9223372036854775808).
Proof. destruct r_K40 as [H1 H2]. exact (conj H1 (conj H2 r_K47)). Qed.

Lemma c15_open_classes :
  tp_parse Ps I64 text_K41 = Ok 1672531200 /\ dur_parse Ps I64 text_K42 = Ok 3601 /\
  dur_parse Pms I8 text_K48 = Ok (-55).
Proof. exact (conj w_K41 (conj w_K42 (proj1 w_K48))). Qed.

(* ------------------------------------------------------------------ C15, classification of time-point texts *)

Lemma render_last f : exists l, rev (tf_render f) = c_Z :: l.
Proof. unfold tf_render. rewrite !rev_app_distr. cbn [rev app]. eexists. reflexivity. Qed.

(* K41: a text outside the documented grammar is accepted *)
Lemma c15_tp_classify_refuted : ~ tp_grammar text_K41 /\ tp_parse Ps I64 text_K41 = Ok 1672531200.
Proof.
  split; [|exact w_K41].
  intros (f & _ & E). destruct (render_last f) as (l & Hl). rewrite <- E in Hl. vm_compute in Hl. discriminate Hl.
Qed.

(* K35b (repaired): the documented text of the last representable day of time_point<days,int64> is read *)
Definition fields_K35 : tp_fields :=
  mkTF YPlus [50;53;50;53;50;55;51;52;57;50;55;55;54;56;53;50;52]%N [48;55]%N [50;55]%N [48;48]%N [48;48]%N [48;48]%N None.

Lemma c15_tp_classify_k35 : tf_wf fields_K35 /\ tf_render fields_K35 = text_K35 /\
  tp_parse Pd I64 (tf_render fields_K35) = Ok 9223372036854775807 /\ tp_expected Pd I64 fields_K35 = Ok 9223372036854775807.
Proof.
  split.
  - split.
    + unfold tf_lexical, fields_K35. cbn [tf_sign tf_year tf_mo tf_d tf_h tf_mi tf_s tf_frac]. repeat split; try reflexivity; cbn; lia.
    + unfold valid_datetime, valid_date, fields_K35, tf_datetime, tf_yearv, tf_frac_ns.
      cbn [tf_sign tf_year tf_mo tf_d tf_h tf_mi tf_s tf_frac dt_y dt_mo dt_d dt_h dt_mi dt_s dt_ns].
      repeat split; vm_compute; intro H; discriminate H.
  - split; [|split]; vm_compute; reflexivity.
Qed.

(* ------------------------------------------------------------------ C15, classification of duration texts *)

(* K42: a text outside the documented grammar is accepted;  K49: a documented text of a representable value is
   refused because one component alone is not a whole number of ticks of the target *)
Lemma c15_dur_classify_refuted :
  (~ dur_grammar text_K42 /\ dur_parse Ps I64 text_K42 = Ok 3601) /\
  (df_wf fields_K49 /\ dur_split Ph fields_K49 = true /\ dur_expected Ph I64 fields_K49 = Ok 1 /\
   dur_parse Ph I64 (df_render fields_K49) = Err OutOfRange).
Proof.
  split; [split; [|exact w_K42] | exact w_K49].
  apply space_not_grammar. unfold text_K42. do 6 right. left. reflexivity.
Qed.

(* ------------------------------------------------------------------ C15, time-point texts outside the grammar *)

Lemma c15_tp_reject_grammar P R s : ~ tp_grammar s -> ~ tp_lenient s -> tp_parse P R s = Err InvalidArgument.
Proof. intros _ H. apply tp_reject. exact H. Qed.

Lemma c15_K41_lenient : tp_lenient text_K41 /\ ~ tp_grammar text_K41.
Proof. split; [exact K41_lenient | exact (proj1 c15_tp_classify_refuted)]. Qed.

(* ------------------------------------------------------------------ C15, duration texts outside the grammar *)

Lemma c15_K42_loose : dur_loose text_K42 /\ ~ dur_grammar text_K42.
Proof. split; [exact K42_loose | exact (proj1 (proj1 c15_dur_classify_refuted))]. Qed.

(* ------------------------------------------------------------------ C15, wide-string entry points *)

Lemma c15_wide_exact w P R cps : Forall scalar cps ->
  tp_parse_wide w P R (encs w cps) = tp_parse P R (encs W8 cps) /\
  dur_parse_wide w P R (encs w cps) = dur_parse P R (encs W8 cps).
Proof. intros H. exact (conj (tp_wide_exact w P R cps H) (dur_wide_exact w P R cps H)). Qed.

Lemma c15_width_independent w1 w2 P R cps : Forall scalar cps ->
  tp_parse_wide w1 P R (encs w1 cps) = tp_parse_wide w2 P R (encs w2 cps) /\
  dur_parse_wide w1 P R (encs w1 cps) = dur_parse_wide w2 P R (encs w2 cps).
Proof. intros H. exact (conj (tp_width_independent w1 w2 P R cps H) (dur_width_independent w1 w2 P R cps H)). Qed.

Lemma c15_wide_ascii w P R s : Forall (fun u => (u < 0x80)%N) s ->
  tp_parse_wide w P R s = tp_parse P R s /\ dur_parse_wide w P R s = dur_parse P R s.
Proof. intros H. exact (conj (tp_wide_ascii w P R s H) (dur_wide_ascii w P R s H)). Qed.

Lemma c15_wide_total w P R units :
  (c14_rep P R ->
     tp_parse_wide w P R units = Err InvalidArgument \/ tp_parse_wide w P R units = Err OutOfRange \/
     exists v, tp_parse_wide w P R units = Ok v /\ fits R v = true) /\
  (rep2 R ->
     dur_parse_wide w P R units = Err InvalidArgument \/ dur_parse_wide w P R units = Err OutOfRange \/
     exists v, dur_parse_wide w P R units = Ok v /\ fits R v = true /\ dur_loose (narrow w units)).
Proof. exact (conj (tp_wide_total w P R units) (dur_wide_total w P R units)). Qed.

(* ------------------------------------------------------------------ C15, uint64 durations *)

Lemma c15_dur_classify_u64 P f : df_wf f -> df_neg f = false -> dur_split P f = false ->
  dur_parse P U64 (df_render f) = dur_expected P U64 f.
Proof. intros Hwf Hn Hs. apply dur_classify_grammar_d; auto. right. auto. Qed.

Lemma c15_dur_value_or_range_u64 P f : df_wf f -> df_neg f = false ->
  dur_parse P U64 (df_render f) = dur_expected P U64 f \/ dur_parse P U64 (df_render f) = Err OutOfRange.
Proof. intros Hwf Hn. apply dur_classify_weak_d; auto. right. auto. Qed.

Lemma c15_dur_neg_u64 P f : df_wf f -> df_neg f = true -> dur_parse P U64 (df_render f) = Err OutOfRange.
Proof. intros Hwf Hn. apply dur_parse_neg_unsigned; auto. Qed.
