(* ChronoRefute.v — witnesses (evaluated by the kernel) of the inputs on which the faithful model
   violates the full-strength statements of C14 / C15. *)
From BS Require Import Base ChronoSpec ChronoModel ChronoArith ChronoDecimal ChronoSafe ChronoSafeAdd ChronoText ChronoTp.
Local Open Scope Z_scope.

(* F30: first partial day of the nanosecond range — printing runs into signed overflow *)
Lemma w_F30_print : tp_print Pns I64 (-9223372036854775808) = UB UBOverflow.
Proof. vm_compute. reflexivity. Qed.
(* the parse half of F30: a text of the grammar whose instant is representable is reported out of range *)
Definition text_F30 : list N := (* "1677-09-21T00:12:43.145224192Z" *)
  [49;54;55;55;45;48;57;45;50;49;84;48;48;58;49;50;58;52;51;46;49;52;53;50;50;52;49;57;50;90]%N.
Lemma w_F30_parse : tp_parse Pns I64 text_F30 = Err OutOfRange.
Proof. vm_compute. reflexivity. Qed.

(* F31: year -1 printed with three digits *)
Lemma w_F31 : tp_print Ps I64 (-62198755200) = Ok [45;48;48;49;45;48;49;45;48;49;84;48;48;58;48;48;58;48;48;90]%N
  /\ iso_text Ps (spec_datetime Ps (-62198755200)) = [45;48;48;48;49;45;48;49;45;48;49;84;48;48;58;48;48;58;48;48;90]%N.
Proof. split; vm_compute; reflexivity. Qed.

(* BUF: 16-digit years — internal error exception, 17-digit years — write past the 32-byte buffer *)
Lemma w_BUF_exc : tp_print Ph I64 9223372036854775807 = Err RuntimeError.
Proof. vm_compute. reflexivity. Qed.
Lemma w_BUF_ub : tp_print Pd I64 9223372036854000000 = UB UBBuffer.
Proof. vm_compute. reflexivity. Qed.
Lemma w_days_overflow : tp_print Pd I64 9223372036854775807 = UB UBOverflow.
Proof. vm_compute. reflexivity. Qed.

(* F34: 2023-02-29 accepted and normalised to 2023-03-01 *)
Definition text_F34 : list N := (* "2023-02-29T00:00:00Z" *)
  [50;48;50;51;45;48;50;45;50;57;84;48;48;58;48;48;58;48;48;90]%N.
Lemma w_F34 : tp_parse Ps I64 text_F34 = Ok 1677628800 /\ valid_dateb (2023, 2, 29) = false.
Proof. split; vm_compute; reflexivity. Qed.

(* N1: negative seconds into an unsigned coarser duration come back as a huge positive value *)
Lemma w_N1 : safe_cast SecT (mkD U64 60 1) (-16) = Ok 307445734561825860.
Proof. vm_compute. reflexivity. Qed.
(* N2: uint64 count above INT64_MAX into a signed coarser duration: signed overflow in the check *)
Lemma w_N2 : safe_cast (mkD U64 1 1) (mkD I64 60 1) 18446744073709551600 = UB UBOverflow.
Proof. vm_compute. reflexivity. Qed.
(* N3: general-ratio branch returns 0 for a count that is not representable *)
Lemma w_N3 : safe_cast (mkD I64 2 3) (mkD I64 1 1) 1 = Ok 0.
Proof. vm_compute. reflexivity. Qed.

(* N4: years of the five lowest eras: era * 146097 + (doe - 719468) overflows *)
Definition text_N4 : list N := (* "-25252734927766399-03-01T00:00:00Z" *)
  [45;50;53;50;53;50;55;51;52;57;50;55;55;54;54;51;57;57;45;48;51;45;48;49;84;48;48;58;48;48;58;48;48;90]%N.
Lemma w_N4 : tp_parse Pd I64 text_N4 = UB UBOverflow.
Proof. vm_compute. reflexivity. Qed.
(* year INT64_MIN with month <= 2: Year - 1 overflows *)
Definition text_N4b : list N := (* "-9223372036854775808-01-01T00:00:00Z" *)
  [45;57;50;50;51;51;55;50;48;51;54;56;53;52;55;55;53;56;48;56;45;48;49;45;48;49;84;48;48;58;48;48;58;48;48;90]%N.
Lemma w_N4b : tp_parse Ps I64 text_N4b = UB UBOverflow.
Proof. vm_compute. reflexivity. Qed.

(* N5: "-P9223372036854775808D": -static_cast<int64_t>(2^63) *)
Definition text_N5 : list N := (* "-P9223372036854775808D" *)
  [45;80;57;50;50;51;51;55;50;48;51;54;56;53;52;55;55;53;56;48;56;68]%N.
Lemma w_N5 : dur_parse Pd I64 text_N5 = UB UBOverflow.
Proof. vm_compute. reflexivity. Qed.

(* N6: duration<int32_t, days>(INT32_MIN): std::abs(INT_MIN) *)
Lemma w_N6 : dur_print Pd I32 (-2147483648) = UB UBOverflow.
Proof. vm_compute. reflexivity. Qed.

(* N7: 8-bit representations: chrono::round / floor wrap *)
Definition text_N7 : list N := (* "PT0.2S" *) [80;84;48;46;50;83]%N.
Lemma w_N7 : dur_parse Pms I8 text_N7 = Ok (-55).
Proof. vm_compute. reflexivity. Qed.
Lemma w_N7b : ts_from_dur Pms I8 0 127000000 = Ok (-128).
Proof. vm_compute. reflexivity. Qed.
(* 32-bit sub-second time points before the epoch print a wrong time of day *)
Lemma w_N8 : tp_print Pus I32 (-1) = Ok [49;57;54;57;45;49;50;45;51;49;84;48;48;58;48;56;58;50;48;46;54;53;52;48;55;57;90]%N.
Proof. vm_compute. reflexivity. Qed.

(* lenient acceptance outside the documented grammar *)
Definition text_L1 : list N := (* "2023-1-1T0:0:0Zjunk" *)
  [50;48;50;51;45;49;45;49;84;48;58;48;58;48;90;106;117;110;107]%N.
Lemma w_L1 : tp_parse Ps I64 text_L1 = Ok 1672531200.
Proof. vm_compute. reflexivity. Qed.
Definition text_L2 : list N := (* "PT1S1H junk" *) [80;84;49;83;49;72;32;106;117;110;107]%N.
Lemma w_L2 : dur_parse Ps I64 text_L2 = Ok 3601.
Proof. vm_compute. reflexivity. Qed.
