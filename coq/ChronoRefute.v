(* ChronoRefute.v — kernel-evaluated witnesses: the input classes on which the faithful model still
   violates the full-strength statements of C14 / C15 (K41, K42, K48), and regression
   examples of the defects repaired in /repo (60cbc0d 30f5d3e 302fac1 5f3f75a d4af9ec beee810 0e78f9f). *)
From BS Require Import Base ChronoSpec ChronoModel ChronoArith ChronoDecimal ChronoSafe ChronoSafeAdd ChronoText ChronoTp.
Local Open Scope Z_scope.

(* ---------- still open ---------- *)

(* K35 / K35b (repaired in /repo 2854d54): the last 719468 values of time_point<days,int64> print and parse back; one day
   beyond the type is out_of_range *)
Definition text_K35 : list N := (* +25252734927768524-07-27T00:00:00Z *) [43;50;53;50;53;50;55;51;52;57;50;55;55;54;56;53;50;52;45;48;55;45;50;55;84;48;48;58;48;48;58;48;48;90]%N.
Lemma r_K35 : tp_print Pd I64 9223372036854775807 = Ok text_K35 /\ tp_parse Pd I64 text_K35 = Ok 9223372036854775807 /\
  tp_print Pd I64 9223372036854056340 = Ok [43;50;53;50;53;50;55;51;52;57;50;55;55;54;54;53;53;52;45;48;57;45;50;54;84;48;48;58;48;48;58;48;48;90]%N /\
  tp_parse Pd I64 [43;50;53;50;53;50;55;51;52;57;50;55;55;54;56;53;50;52;45;48;55;45;50;56;84;48;48;58;48;48;58;48;48;90]%N = Err OutOfRange /\
  tp_print Pd I64 (-9223372036854775808) = Ok [45;50;53;50;53;50;55;51;52;57;50;55;55;54;52;53;56;53;45;48;54;45;48;55;84;48;48;58;48;48;58;48;48;90]%N /\
  tp_parse Pd I64 [45;50;53;50;53;50;55;51;52;57;50;55;55;54;52;53;56;53;45;48;54;45;48;55;84;48;48;58;48;48;58;48;48;90]%N = Ok (-9223372036854775808) /\
  tp_parse Pd I64 [45;50;53;50;53;50;55;51;52;57;50;55;55;54;52;53;56;53;45;48;54;45;48;54;84;48;48;58;48;48;58;48;48;90]%N = Err OutOfRange.
Proof. repeat split; vm_compute; reflexivity. Qed.

(* K41 / K42: lenient acceptance outside the documented grammar *)
Definition text_K41 : list N := (* "2023-1-1T0:0:0Zjunk" *) [50;48;50;51;45;49;45;49;84;48;58;48;58;48;90;106;117;110;107]%N.
Lemma w_K41 : tp_parse Ps I64 text_K41 = Ok 1672531200.
Proof. vm_compute. reflexivity. Qed.
Definition text_K42 : list N := (* "PT1S1H junk" *) [80;84;49;83;49;72;32;106;117;110;107]%N.
Lemma w_K42 : dur_parse Ps I64 text_K42 = Ok 3601.
Proof. vm_compute. reflexivity. Qed.

(* K45 (repaired in /repo): the general-ratio branch of SafeDurationCast (reduced ratio with num >= 2 and den >= 2) is
   exact or out_of_range: 1 tick of 2/3 s is no whole second, 3 ticks are 2 s; a large uint64 count no longer overflows
   the check; a negative count into an unsigned target is refused *)
Lemma r_K45 : safe_cast (mkD I64 2 3) (mkD I64 1 1) 1 = Err OutOfRange /\ safe_cast (mkD I64 2 3) (mkD I64 1 1) 3 = Ok 2 /\
  safe_cast (mkD U64 1 1) (mkD I64 2 3) 6148914691236517202 = Ok 9223372036854775803 /\
  safe_cast (mkD I64 2 3) (mkD U64 1 1) (-3) = Err OutOfRange.
Proof. repeat split; vm_compute; reflexivity. Qed.

(* K48: 8-bit representations wrap inside std::chrono::round / floor *)
Definition text_K48 : list N := (* "PT0.2S" *) [80;84;48;46;50;83]%N.
Lemma w_K48 : dur_parse Pms I8 text_K48 = Ok (-55) /\ ts_from_dur Pms I8 0 127000000 = Ok (-128).
Proof. split; vm_compute; reflexivity. Qed.

(* ---------- repaired (regression examples) ---------- *)

Definition text_K30 : list N := (* "1677-09-21T00:12:43.145224192Z" *) [49;54;55;55;45;48;57;45;50;49;84;48;48;58;49;50;58;52;51;46;49;52;53;50;50;52;49;57;50;90]%N.
Lemma r_K30 : tp_print Pns I64 (-9223372036854775808) = Ok text_K30 /\ tp_parse Pns I64 text_K30 = Ok (-9223372036854775808).
Proof. split; vm_compute; reflexivity. Qed.

Lemma r_K32 : tp_print Ps I64 (-62198755200) = Ok [45;48;48;48;49;45;48;49;45;48;49;84;48;48;58;48;48;58;48;48;90]%N.
Proof. vm_compute. reflexivity. Qed.

Lemma r_K33 : tp_print Ph I64 9223372036854775807 = Ok [43;49;48;53;50;49;57;55;50;56;56;54;53;56;57;48;57;45;49;48;45;49;48;84;48;55;58;48;48;58;48;48;90]%N /\
  tp_print Pd I64 9223372036854000000 = Ok [43;50;53;50;53;50;55;51;52;57;50;55;55;54;54;52;48;48;45;48;54;45;50;53;84;48;48;58;48;48;58;48;48;90]%N.
Proof. split; vm_compute; reflexivity. Qed.

Definition text_K40 : list N := (* "2023-02-29T00:00:00Z" *) [50;48;50;51;45;48;50;45;50;57;84;48;48;58;48;48;58;48;48;90]%N.
Definition text_K40b : list N := (* "2024-02-29T00:00:00Z" *) [50;48;50;52;45;48;50;45;50;57;84;48;48;58;48;48;58;48;48;90]%N.
Lemma r_K40 : tp_parse Ps I64 text_K40 = Err InvalidArgument /\ tp_parse Ps I64 text_K40b = Ok 1709164800.
Proof. split; vm_compute; reflexivity. Qed.

Lemma r_K43 : safe_cast SecT (mkD U64 60 1) (-16) = Err OutOfRange /\
  safe_cast (mkD U64 1 1) (mkD I64 60 1) 18446744073709551600 = Ok 307445734561825860.
Proof. split; vm_compute; reflexivity. Qed.

Definition text_K46 : list N := (* "-25252734927766399-03-01T00:00:00Z" *) [45;50;53;50;53;50;55;51;52;57;50;55;55;54;54;51;57;57;45;48;51;45;48;49;84;48;48;58;48;48;58;48;48;90]%N.
Definition text_K46b : list N := (* "-9223372036854775808-01-01T00:00:00Z" *) [45;57;50;50;51;51;55;50;48;51;54;56;53;52;55;55;53;56;48;56;45;48;49;45;48;49;84;48;48;58;48;48;58;48;48;90]%N.
Lemma r_K46 : tp_parse Pd I64 text_K46 = Err OutOfRange /\ tp_parse Ps I64 text_K46b = Err OutOfRange.
Proof. split; vm_compute; reflexivity. Qed.

Definition text_K47 : list N := (* "-P9223372036854775808D" *) [45;80;57;50;50;51;51;55;50;48;51;54;56;53;52;55;55;53;56;48;56;68]%N.
Lemma r_K47 : dur_parse Pd I64 text_K47 = Ok (-9223372036854775808).
Proof. vm_compute. reflexivity. Qed.

Lemma r_K36 : dur_print Pd I32 (-2147483648) = Ok [45;80;50;49;52;55;52;56;51;54;52;56;68]%N.
Proof. vm_compute. reflexivity. Qed.

(* time of day of narrow representations (was wrapped before d4af9ec) *)
Lemma r_narrow : tp_print Pus I32 (-1) = Ok [49;57;54;57;45;49;50;45;51;49;84;50;51;58;53;57;58;53;57;46;57;57;57;57;57;57;90]%N /\ tp_print Pms I8 (-5) = Ok [49;57;54;57;45;49;50;45;51;49;84;50;51;58;53;57;58;53;57;46;57;57;53;90]%N.
Proof. split; vm_compute; reflexivity. Qed.
