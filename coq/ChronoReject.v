(* ChronoReject.v — C15, second half of the classification of time-point texts: every text the parser does not
   reject as invalid_argument has the lenient shape tp_lenient (an explicit description of the texts, given without
   the parser); so everything outside that shape — in particular everything outside the documented grammar and
   outside the lenient class of K41 — is invalid_argument. *)
From BS Require Import Base ChronoSpec ChronoModel ChronoArith ChronoDecimal ChronoText ChronoClassify.
From Coq Require Import ZifyBool ZifyN ZifyNat.
Local Open Scope Z_scope.

(* ------------------------------------------------------------------ the lenient shape *)

Definition digits1 (ds : list N) : Prop := ds <> [] /\ all_digits ds = true.

(* a numeric field as the parser reads it: a maximal, non-empty digit string of any length; either its value does
   not fit the integer type it is read into (reported as out_of_range on the spot, whatever follows), or it is in
   [lo, hi] and the rest of the text continues with [next] *)
Definition lfield (t : ity) (lo hi : Z) (next : Z -> list N -> Prop) (l : list N) : Prop :=
  exists ds tl, l = ds ++ tl /\ digits1 ds /\ no_digit_head tl /\
    (fits t (dec_value ds) = false \/ (lo <= dec_value ds <= hi /\ next (dec_value ds) tl)).

Definition ldelim (c : N) (next : list N -> Prop) (l : list N) : Prop := exists l', l = c :: l' /\ next l'.

(* the year: optional '+', then optional '-', then digits *)
Definition lyear (next : Z -> list N -> Prop) (s : list N) : Prop :=
  exists (plus minus : bool) (ds tl : list N),
    s = (if plus then [c_plus] else []) ++ (if minus then [c_minus] else []) ++ ds ++ tl /\
    digits1 ds /\ no_digit_head tl /\
    (fits I64 (if minus then - dec_value ds else dec_value ds) = false \/
     next (if minus then - dec_value ds else dec_value ds) tl).

(* a fraction: digits whose value fits uint32, at most 9 of them unless they are all zero *)
Definition lfrac_ok (fs : list N) : Prop :=
  fits U32 (dec_value fs) = true /\ (dec_value fs = 0 \/ (length fs <= 9)%nat).

(* after the seconds: an optional fraction, 'Z', then anything *)
Definition lzulu (l : list N) : Prop := exists l', l = c_Z :: l'.
Definition ltail (l : list N) : Prop :=
  lzulu l \/
  exists sep fs tl, l = sep :: fs ++ tl /\ (sep = c_dot \/ sep = c_comma) /\ digits1 fs /\ no_digit_head tl /\
                    lfrac_ok fs /\ lzulu tl.

Definition tp_lenient (s : list N) : Prop :=
  lyear (fun y => ldelim c_minus (lfield I32 1 12 (fun mo => ldelim c_minus (lfield I32 1 (dim y mo) (fun _ =>
    ldelim c_T (lfield I32 0 23 (fun _ => ldelim c_colon (lfield I32 0 59 (fun _ => ldelim c_colon
      (lfield I32 0 59 (fun _ => ltail))))))))))) s.

(* ------------------------------------------------------------------ maximal digit prefix *)

Lemma span_exists l : exists ds tl, l = ds ++ tl /\ all_digits ds = true /\ no_digit_head tl.
Proof.
  induction l as [|c l IH].
  - exists [], []. repeat split.
  - destruct (is_digit c) eqn:E.
    + destruct IH as (ds & tl & -> & Hd & Hn). exists (c :: ds), tl. repeat split; auto.
      rewrite all_digits_cons, E, Hd. reflexivity.
    + exists [], (c :: l). repeat split. exact E.
Qed.

Lemma fc_digits_none l : no_digit_head l -> fc_digits l 0 0 = (0, O, l).
Proof. destruct l as [|c t]; cbn [no_digit_head fc_digits]; [reflexivity|]. intros ->. reflexivity. Qed.

(* ------------------------------------------------------------------ one field *)

Definition part_ok (dl : option N) (v : Z) (tl : list N) (r : outcome (Z * list N)) : Prop :=
  match dl with
  | Some c => exists l', tl = c :: l' /\ r = Ok (v, l')
  | None => r = Ok (v, tl)
  end.

Lemma parse_part_tri l lo hi dl :
  parse_part I32 l (Some lo) (Some hi) dl false = Err InvalidArgument \/
  exists ds tl, l = ds ++ tl /\ digits1 ds /\ no_digit_head tl /\
    ((fits I32 (dec_value ds) = false /\ parse_part I32 l (Some lo) (Some hi) dl false = Err OutOfRange) \/
     (lo <= dec_value ds <= hi /\ part_ok dl (dec_value ds) tl (parse_part I32 l (Some lo) (Some hi) dl false))).
Proof.
  destruct (span_exists l) as (ds & tl & -> & Hd & Hn).
  destruct ds as [|c0 ds0].
  - left. cbn [app]. unfold parse_part. destruct tl as [|c t]; [reflexivity|]. cbn [no_digit_head] in Hn. rewrite Hn. reflexivity.
  - set (ds := c0 :: ds0) in *. assert (Hne : ds <> []) by discriminate.
    unfold parse_part.
    destruct (hd_digit ds tl Hd Hne) as (c & t & E & Hc). rewrite E, Hc. cbn [orb andb]. rewrite <- E.
    rewrite from_chars_numeral by assumption.
    destruct (fits I32 (dec_value ds)) eqn:Ef.
    + destruct ((dec_value ds <? lo) || (hi <? dec_value ds)) eqn:Er; [left; reflexivity|].
      destruct dl as [c'|].
      * destruct tl as [|c1 t1]; [left; reflexivity|].
        destruct (N.eqb_spec c1 c') as [->|Hc1]; [|left; reflexivity].
        right. exists ds, (c' :: t1). repeat split; auto. right. split; [lia|]. cbn [part_ok]. eauto.
      * right. exists ds, tl. repeat split; auto. right. split; [lia|]. reflexivity.
    + right. exists ds, tl. repeat split; auto.
Qed.

(* a field, its delimiter, and the rest of the parser *)
Lemma field_k {A} lo hi c (K : Z -> list N -> outcome A) (next : Z -> list N -> Prop) l :
  (forall v l', lo <= v <= hi -> K v l' = Err InvalidArgument \/ next v l') ->
  (r <- parse_part I32 l (Some lo) (Some hi) (Some c) false ;; let '(v, l') := r in K v l') = Err InvalidArgument \/
  lfield I32 lo hi (fun v => ldelim c (next v)) l.
Proof.
  intros HK.
  destruct (parse_part_tri l lo hi (Some c)) as [E|(ds & tl & -> & Hd & Hn & [(Hf & E)|(Hr & l' & -> & E)])]; rewrite E.
  - left. reflexivity.
  - right. exists ds, tl. repeat split; try apply Hd; auto.
  - rewrite bind_ok. destruct (HK (dec_value ds) l' Hr) as [H|H]; [left; exact H|].
    right. exists ds, (c :: l'). repeat split; try apply Hd; auto. right. split; [exact Hr|]. exists l'. auto.
Qed.

Lemma field_last {A} lo hi (K : Z -> list N -> outcome A) (next : Z -> list N -> Prop) l :
  (forall v l', lo <= v <= hi -> K v l' = Err InvalidArgument \/ next v l') ->
  (r <- parse_part I32 l (Some lo) (Some hi) None false ;; let '(v, l') := r in K v l') = Err InvalidArgument \/
  lfield I32 lo hi next l.
Proof.
  intros HK.
  destruct (parse_part_tri l lo hi None) as [E|(ds & tl & -> & Hd & Hn & [(Hf & E)|(Hr & E)])]; cbn [part_ok] in *; rewrite E.
  - left. reflexivity.
  - right. exists ds, tl. repeat split; try apply Hd; auto.
  - rewrite bind_ok. destruct (HK (dec_value ds) tl Hr) as [H|H]; [left; exact H|].
    right. exists ds, tl. repeat split; try apply Hd; auto.
Qed.

(* ------------------------------------------------------------------ the year *)

Lemma from_chars_i64_tri l :
  from_chars I64 l = FcInvalid \/
  exists (minus : bool) (ds tl : list N), l = (if minus then [c_minus] else []) ++ ds ++ tl /\ digits1 ds /\ no_digit_head tl /\
    from_chars I64 l = (if fits I64 (if minus then - dec_value ds else dec_value ds)
                        then FcOk (if minus then - dec_value ds else dec_value ds) tl else FcRange).
Proof.
  destruct l as [|c1 t1]; [left; reflexivity|].
  destruct (N.eqb_spec c1 c_minus) as [->|Hc].
  - destruct (span_exists t1) as (ds & tl & -> & Hd & Hn).
    destruct ds as [|c0 ds0].
    + left. cbn [app]. unfold from_chars. cbn [is_signed andb]. rewrite N.eqb_refl. rewrite (fc_digits_none tl Hn). reflexivity.
    + right. exists true, (c0 :: ds0), tl. repeat split; auto; try discriminate.
      cbn [app]. change (c_minus :: c0 :: ds0 ++ tl) with (c_minus :: (c0 :: ds0) ++ tl).
      apply from_chars_minus; auto; discriminate.
  - destruct (span_exists (c1 :: t1)) as (ds & tl & E & Hd & Hn).
    destruct ds as [|c0 ds0].
    + left. cbn [app] in E. subst tl. unfold from_chars. cbn [is_signed andb].
      replace ((c1 =? c_minus)%N) with false by (symmetry; apply N.eqb_neq; exact Hc).
      rewrite (fc_digits_none _ Hn). reflexivity.
    + right. exists false, (c0 :: ds0), tl. rewrite E. repeat split; auto; try discriminate.
      cbn [app]. change (c0 :: ds0 ++ tl) with ((c0 :: ds0) ++ tl). apply from_chars_numeral; auto; discriminate.
Qed.

Lemma year_k {A} (K : Z -> list N -> outcome A) (next : Z -> list N -> Prop) l :
  (forall y l', K y l' = Err InvalidArgument \/ next y l') ->
  (r <- parse_part I64 l None None (Some c_minus) true ;; let '(y, l') := r in K y l') = Err InvalidArgument \/
  lyear (fun y => ldelim c_minus (next y)) l.
Proof.
  intros HK. destruct l as [|c tl0]; [left; reflexivity|].
  unfold parse_part. rewrite orb_true_r. cbn [andb].
  set (plus := (c =? c_plus)%N).
  set (l1 := if plus then tl0 else c :: tl0).
  assert (El : c :: tl0 = (if plus then [c_plus] else []) ++ l1).
  { unfold l1, plus. destruct (N.eqb_spec c c_plus) as [->|_]; reflexivity. }
  destruct (from_chars_i64_tri l1) as [E|(minus & ds & tl & E1 & Hd & Hn & E)]; rewrite E.
  - left. reflexivity.
  - set (y := if minus then - dec_value ds else dec_value ds) in *.
    destruct (fits I64 y) eqn:Ef.
    + cbn [orb]. destruct tl as [|c' rest]; [left; reflexivity|].
      destruct (N.eqb_spec c' c_minus) as [->|Hc]; [|left; reflexivity].
      rewrite bind_ok. destruct (HK y rest) as [H|H]; [left; exact H|].
      right. exists plus, minus, ds, (c_minus :: rest). rewrite El, E1. repeat split; try apply Hd; auto.
      right. fold y. exists rest. auto.
    + right. exists plus, minus, ds, tl. rewrite El, E1. repeat split; try apply Hd; auto.
Qed.

(* ------------------------------------------------------------------ the day and the leap-year test *)

Lemma dim_table y mo : 1 <= mo <= 12 -> DaysInMonth mo = if mo =? 2 then 29 else dim y mo.
Proof.
  intros Hm.
  assert (Hc : mo = 1 \/ mo = 2 \/ mo = 3 \/ mo = 4 \/ mo = 5 \/ mo = 6 \/ mo = 7 \/ mo = 8 \/ mo = 9 \/ mo = 10 \/ mo = 11 \/ mo = 12) by lia.
  destruct Hc as [?|[?|[?|[?|[?|[?|[?|[?|[?|[?|[?|?]]]]]]]]]]]; subst mo; reflexivity.
Qed.

Lemma day_k {A} y mo (K : Z -> list N -> outcome A) (next : Z -> list N -> Prop) l : 1 <= mo <= 12 ->
  (forall d l', 1 <= d <= dim y mo -> K d l' = Err InvalidArgument \/ next d l') ->
  (r <- parse_part I32 l (Some 1) (Some (DaysInMonth mo)) (Some c_T) false ;; let '(day, l') := r in
   r2 <- (if (mo =? 2) && (day =? 29) &&
             negb ((Z.rem y 4 =? 0) && (negb (Z.rem y 100 =? 0) || (Z.rem y 400 =? 0)))
          then Err InvalidArgument else Ok tt) ;; K day l') = Err InvalidArgument \/
  lfield I32 1 (dim y mo) (fun d => ldelim c_T (next d)) l.
Proof.
  intros Hm HK. rewrite leap_rem.
  destruct (parse_part_tri l 1 (DaysInMonth mo) (Some c_T)) as [E|(ds & tl & -> & Hd & Hn & [(Hf & E)|(Hr & l' & -> & E)])]; rewrite E.
  - left. reflexivity.
  - right. exists ds, tl. repeat split; try apply Hd; auto.
  - rewrite bind_ok. set (d := dec_value ds) in *.
    rewrite (dim_table y mo Hm) in Hr. unfold dim in *.
    destruct (Z.eqb_spec mo 2) as [Em|Em]; cbn [andb].
    + destruct (leap y) eqn:El; cbn [negb].
      * rewrite andb_false_r, bind_ok. destruct (HK d l' ltac:(lia)) as [H|H]; [left; exact H|].
        right. exists ds, (c_T :: l'). repeat split; try apply Hd; auto. right. split; [lia|]. exists l'. auto.
      * rewrite andb_true_r. destruct (Z.eqb_spec d 29) as [Ed|Ed]; [left; reflexivity|].
        rewrite bind_ok. destruct (HK d l' ltac:(lia)) as [H|H]; [left; exact H|].
        right. exists ds, (c_T :: l'). repeat split; try apply Hd; auto. right. split; [lia|]. exists l'. auto.
    + rewrite bind_ok. destruct (HK d l' ltac:(lia)) as [H|H]; [left; exact H|].
      right. exists ds, (c_T :: l'). repeat split; try apply Hd; auto. right. split; [lia|]. exists l'. auto.
Qed.

(* ------------------------------------------------------------------ fraction and 'Z' *)

Lemma tail_k y mo d h mi s l :
  (r <- match l with
        | c :: tl => if (c =? c_dot)%N || (c =? c_comma)%N then
                       match parse_second_fractions tl with
                       | Some (ns, l') => Ok (Some ns, l')
                       | None => Err InvalidArgument
                       end
                     else Ok (None, l)
        | [] => Ok (None, l)
        end ;;
   let '(frac, l) := r in
   match l with
   | c :: _ => if (c =? c_Z)%N then Ok (mkUtc y mo d h mi s frac) else Err InvalidArgument
   | [] => Err InvalidArgument
   end) = Err InvalidArgument \/ ltail l.
Proof.
  destruct l as [|c tl]; [left; reflexivity|].
  destruct ((c =? c_dot)%N || (c =? c_comma)%N) eqn:Es.
  - assert (Hsep : c = c_dot \/ c = c_comma).
    { apply orb_true_iff in Es. destruct Es as [H|H]; apply N.eqb_eq in H; auto. }
    unfold parse_second_fractions.
    destruct (span_exists tl) as (fs & rest & -> & Hd & Hn).
    destruct fs as [|c0 fs0].
    + left. cbn [app]. unfold from_chars. cbn [is_signed andb].
      replace (match rest with [] => (false, rest) | c1 :: _ => (false, rest) end) with (false, rest) by (destruct rest; reflexivity).
      rewrite (fc_digits_none rest Hn). reflexivity.
    + set (fs := c0 :: fs0) in *. assert (Hne : fs <> []) by discriminate.
      rewrite from_chars_numeral by assumption.
      destruct (fits U32 (dec_value fs)) eqn:Ef; [|left; reflexivity].
      assert (Hlen : Z.of_nat (length (fs ++ rest) - length rest) = Z.of_nat (length fs)) by (rewrite app_length; lia).
      rewrite Hlen.
      destruct (Z.eqb_spec (dec_value fs) 0) as [E0|E0].
      * rewrite bind_ok. destruct rest as [|c' r']; [left; reflexivity|].
        destruct (N.eqb_spec c' c_Z) as [->|Hc]; [|left; reflexivity].
        right. right. exists c, fs, (c_Z :: r'). repeat split; auto. exists r'. reflexivity.
      * destruct (Z.ltb_spec (Z.of_nat (length fs)) 10) as [Hl|Hl]; [|left; reflexivity].
        rewrite bind_ok. destruct rest as [|c' r']; [left; reflexivity|].
        destruct (N.eqb_spec c' c_Z) as [->|Hc]; [|left; reflexivity].
        right. right. exists c, fs, (c_Z :: r'). repeat split; auto; [right; lia | exists r'; reflexivity].
  - rewrite bind_ok. destruct (N.eqb_spec c c_Z) as [->|Hc]; [|left; reflexivity].
    right. left. exists tl. reflexivity.
Qed.

(* ------------------------------------------------------------------ the whole parser *)

Theorem parse_iso_utc_shape s : parse_iso_utc s = Err InvalidArgument \/ tp_lenient s.
Proof.
  unfold parse_iso_utc, tp_lenient.
  apply year_k. intros y l1.
  apply field_k. intros mo l2 Hmo.
  apply day_k; [exact Hmo|]. intros d l3 Hd.
  apply field_k. intros h l4 Hh.
  apply field_k. intros mi l5 Hmi.
  apply field_last. intros sec l6 Hs.
  apply tail_k.
Qed.

(* everything outside the lenient shape is rejected as invalid_argument *)
Theorem tp_reject P R s : ~ tp_lenient s -> tp_parse P R s = Err InvalidArgument.
Proof.
  intros H. unfold tp_parse. destruct (parse_iso_utc_shape s) as [E|E]; [rewrite E; reflexivity | contradiction].
Qed.

(* ------------------------------------------------------------------ the shape is exact: every text of the shape gets
   past ParseIsoUtc without invalid_argument (a value, or out_of_range for an over-long field) *)

Definition not_invalid {A} (o : outcome A) : Prop := o <> Err InvalidArgument.

Lemma parse_part_fwd ds tl lo hi dl : digits1 ds -> no_digit_head tl ->
  parse_part I32 (ds ++ tl) (Some lo) (Some hi) dl false =
  if fits I32 (dec_value ds) then
    (if (dec_value ds <? lo) || (hi <? dec_value ds) then Err InvalidArgument
     else match dl with
          | Some c => match tl with c' :: r => if (c' =? c)%N then Ok (dec_value ds, r) else Err InvalidArgument | [] => Err InvalidArgument end
          | None => Ok (dec_value ds, tl)
          end)
  else Err OutOfRange.
Proof.
  intros (Hne & Hd) Hn. unfold parse_part.
  destruct (hd_digit ds tl Hd Hne) as (c & t & E & Hc). rewrite E, Hc. cbn [orb andb]. rewrite <- E.
  rewrite from_chars_numeral by assumption.
  destruct (fits I32 (dec_value ds)); reflexivity.
Qed.

Lemma field_k_conv {A} lo hi c (K : Z -> list N -> outcome A) (next : Z -> list N -> Prop) l :
  lfield I32 lo hi (fun v => ldelim c (next v)) l ->
  (forall v l', lo <= v <= hi -> next v l' -> not_invalid (K v l')) ->
  not_invalid (r <- parse_part I32 l (Some lo) (Some hi) (Some c) false ;; let '(v, l') := r in K v l').
Proof.
  intros (ds & tl & -> & Hd & Hn & H) HK. rewrite (parse_part_fwd ds tl lo hi (Some c) Hd Hn).
  destruct (fits I32 (dec_value ds)) eqn:Ef; [|discriminate].
  destruct H as [H|(Hr & l' & -> & Hnext)]; [congruence|].
  replace ((dec_value ds <? lo) || (hi <? dec_value ds)) with false by lia.
  rewrite N.eqb_refl, bind_ok. apply HK; assumption.
Qed.

Lemma field_last_conv {A} lo hi (K : Z -> list N -> outcome A) (next : Z -> list N -> Prop) l :
  lfield I32 lo hi next l ->
  (forall v l', lo <= v <= hi -> next v l' -> not_invalid (K v l')) ->
  not_invalid (r <- parse_part I32 l (Some lo) (Some hi) None false ;; let '(v, l') := r in K v l').
Proof.
  intros (ds & tl & -> & Hd & Hn & H) HK. rewrite (parse_part_fwd ds tl lo hi None Hd Hn).
  destruct (fits I32 (dec_value ds)) eqn:Ef; [|discriminate].
  destruct H as [H|(Hr & Hnext)]; [congruence|].
  replace ((dec_value ds <? lo) || (hi <? dec_value ds)) with false by lia.
  rewrite bind_ok. apply HK; assumption.
Qed.

Lemma day_k_conv {A} y mo (K : Z -> list N -> outcome A) (next : Z -> list N -> Prop) l : 1 <= mo <= 12 ->
  lfield I32 1 (dim y mo) (fun d => ldelim c_T (next d)) l ->
  (forall d l', 1 <= d <= dim y mo -> next d l' -> not_invalid (K d l')) ->
  not_invalid (r <- parse_part I32 l (Some 1) (Some (DaysInMonth mo)) (Some c_T) false ;; let '(day, l') := r in
               r2 <- (if (mo =? 2) && (day =? 29) &&
                         negb ((Z.rem y 4 =? 0) && (negb (Z.rem y 100 =? 0) || (Z.rem y 400 =? 0)))
                      then Err InvalidArgument else Ok tt) ;; K day l').
Proof.
  intros Hm (ds & tl & -> & Hd & Hn & H) HK. rewrite leap_rem.
  rewrite (parse_part_fwd ds tl 1 (DaysInMonth mo) (Some c_T) Hd Hn).
  destruct (fits I32 (dec_value ds)) eqn:Ef; [|discriminate].
  destruct H as [H|(Hr & l' & -> & Hnext)]; [congruence|].
  pose proof (dim_le_table y mo Hm) as Hle.
  replace ((dec_value ds <? 1) || (DaysInMonth mo <? dec_value ds)) with false by lia.
  rewrite N.eqb_refl, bind_ok.
  assert (Ec : (mo =? 2) && (dec_value ds =? 29) && negb (leap y) = false).
  { unfold dim in Hr. destruct (Z.eqb_spec mo 2); cbn [andb]; [|reflexivity].
    destruct (leap y); cbn [negb]; [apply andb_false_r|]. rewrite andb_true_r. lia. }
  rewrite Ec, bind_ok. apply HK; assumption.
Qed.

Lemma year_k_conv {A} (K : Z -> list N -> outcome A) (next : Z -> list N -> Prop) l :
  lyear (fun y => ldelim c_minus (next y)) l ->
  (forall y l', next y l' -> not_invalid (K y l')) ->
  not_invalid (r <- parse_part I64 l None None (Some c_minus) true ;; let '(y, l') := r in K y l').
Proof.
  intros (plus & minus & ds & tl & -> & (Hne & Hd) & Hn & H) HK.
  set (y := if minus then - dec_value ds else dec_value ds) in *.
  set (l1 := (if minus then [c_minus] else []) ++ ds ++ tl).
  assert (Efc : from_chars I64 l1 = if fits I64 y then FcOk y tl else FcRange).
  { unfold l1, y. destruct minus; cbn [app].
    - apply from_chars_minus; auto.
    - apply from_chars_numeral; auto. }
  assert (Hh : exists c t, l1 = c :: t /\ (c =? c_plus)%N = false).
  { unfold l1. destruct minus; cbn [app]; [exists c_minus; eexists; split; reflexivity|].
    destruct (hd_digit ds tl Hd Hne) as (c & t & E & Hc). exists c, t. split; [exact E|]. unfold is_digit, c_plus in *. lia. }
  assert (Epp : parse_part I64 ((if plus then [c_plus] else []) ++ l1) None None (Some c_minus) true =
                match from_chars I64 l1 with
                | FcOk v rest => match rest with c' :: rest' => if (c' =? c_minus)%N then Ok (v, rest') else Err InvalidArgument | [] => Err InvalidArgument end
                | FcRange => Err OutOfRange
                | FcInvalid => Err InvalidArgument
                end).
  { destruct Hh as (c & t & E & Hc). unfold parse_part. destruct plus; cbn [app].
    - rewrite orb_true_r. cbn [andb]. rewrite N.eqb_refl. destruct (from_chars I64 l1); reflexivity.
    - rewrite E, orb_true_r. cbn [andb]. rewrite Hc. destruct (from_chars I64 (c :: t)); reflexivity. }
  fold l1. rewrite Epp, Efc.
  destruct (fits I64 y) eqn:Ef; [|discriminate].
  destruct H as [H|(l' & -> & Hnext)]; [congruence|].
  rewrite N.eqb_refl, bind_ok. apply HK. exact Hnext.
Qed.

Lemma tail_k_conv y mo d h mi s l : ltail l ->
  not_invalid
  (r <- match l with
        | c :: tl => if (c =? c_dot)%N || (c =? c_comma)%N then
                       match parse_second_fractions tl with
                       | Some (ns, l') => Ok (Some ns, l')
                       | None => Err InvalidArgument
                       end
                     else Ok (None, l)
        | [] => Ok (None, l)
        end ;;
   let '(frac, l) := r in
   match l with
   | c :: _ => if (c =? c_Z)%N then Ok (mkUtc y mo d h mi s frac) else Err InvalidArgument
   | [] => Err InvalidArgument
   end).
Proof.
  intros [(l' & ->)|(sep & fs & tl & -> & Hsep & (Hne & Hd) & Hn & (Hf & Hlen) & (l' & ->))].
  - unfold not_invalid. change ((c_Z =? c_dot)%N || (c_Z =? c_comma)%N) with false. cbv iota. rewrite bind_ok. cbv iota beta. rewrite N.eqb_refl. discriminate.
  - unfold not_invalid. cbv iota. replace ((sep =? c_dot)%N || (sep =? c_comma)%N) with true by (destruct Hsep as [-> | ->]; reflexivity).
    unfold parse_second_fractions. rewrite from_chars_numeral by assumption. rewrite Hf.
    assert (Hl : Z.of_nat (length (fs ++ c_Z :: l') - length (c_Z :: l')) = Z.of_nat (length fs)) by (rewrite app_length; lia).
    rewrite Hl.
    destruct (Z.eqb_spec (dec_value fs) 0) as [E0|E0].
    + rewrite bind_ok. cbv iota beta. rewrite N.eqb_refl. discriminate.
    + replace (Z.of_nat (length fs) <? 10) with true by lia. rewrite bind_ok. cbv iota beta. rewrite N.eqb_refl. discriminate.
Qed.

Theorem tp_lenient_exact s : tp_lenient s <-> parse_iso_utc s <> Err InvalidArgument.
Proof.
  split.
  - intros H. change (not_invalid (parse_iso_utc s)). unfold parse_iso_utc, tp_lenient in *.
    apply (year_k_conv _ _ _ H). intros y l1 H1.
    apply (field_k_conv _ _ _ _ _ _ H1). intros mo l2 Hmo H2.
    apply (day_k_conv y mo _ _ _ Hmo H2). intros d l3 Hd H3.
    apply (field_k_conv _ _ _ _ _ _ H3). intros h l4 Hh H4.
    apply (field_k_conv _ _ _ _ _ _ H4). intros mi l5 Hmi H5.
    apply (field_last_conv _ _ _ _ _ H5). intros sec l6 Hs H6.
    apply tail_k_conv. exact H6.
  - intros H. destruct (parse_iso_utc_shape s) as [E|E]; [contradiction | exact E].
Qed.

(* the documented grammar lies inside the shape *)
Theorem grammar_lenient s : tp_grammar s -> tp_lenient s.
Proof.
  intros (f & Hwf & ->). apply tp_lenient_exact. rewrite (parse_grammar f Hwf). destruct (fits I64 (tf_yearv f)); discriminate.
Qed.

(* ------------------------------------------------------------------ a family of malformed texts: wrong separator at
   each position, field out of range (also the day of that month and year), missing 'Z' or truncated, non-digit or sign
   inside a field, empty field, fraction outside the seconds part / empty / more than nine non-zero digits, doubled
   sign.  None has the lenient shape, so each is invalid_argument for every precision and representation. *)
Definition tp_malformed : list (list N) := [
  (* 2023/01-02T03:04:05Z *) [50;48;50;51;47;48;49;45;48;50;84;48;51;58;48;52;58;48;53;90]%N;
  (* 2023-01/02T03:04:05Z *) [50;48;50;51;45;48;49;47;48;50;84;48;51;58;48;52;58;48;53;90]%N;
  (* 2023-01-02 03:04:05Z *) [50;48;50;51;45;48;49;45;48;50;32;48;51;58;48;52;58;48;53;90]%N;
  (* 2023-01-02t03:04:05Z *) [50;48;50;51;45;48;49;45;48;50;116;48;51;58;48;52;58;48;53;90]%N;
  (* 2023-01-02T03-04:05Z *) [50;48;50;51;45;48;49;45;48;50;84;48;51;45;48;52;58;48;53;90]%N;
  (* 2023-01-02T03:04-05Z *) [50;48;50;51;45;48;49;45;48;50;84;48;51;58;48;52;45;48;53;90]%N;
  (* 2023-01-02T03:04:05z *) [50;48;50;51;45;48;49;45;48;50;84;48;51;58;48;52;58;48;53;122]%N;
  (* 2023-13-02T03:04:05Z *) [50;48;50;51;45;49;51;45;48;50;84;48;51;58;48;52;58;48;53;90]%N;
  (* 2023-00-02T03:04:05Z *) [50;48;50;51;45;48;48;45;48;50;84;48;51;58;48;52;58;48;53;90]%N;
  (* 2023-01-32T03:04:05Z *) [50;48;50;51;45;48;49;45;51;50;84;48;51;58;48;52;58;48;53;90]%N;
  (* 2023-01-00T03:04:05Z *) [50;48;50;51;45;48;49;45;48;48;84;48;51;58;48;52;58;48;53;90]%N;
  (* 2023-02-30T03:04:05Z *) [50;48;50;51;45;48;50;45;51;48;84;48;51;58;48;52;58;48;53;90]%N;
  (* 2023-02-29T03:04:05Z *) [50;48;50;51;45;48;50;45;50;57;84;48;51;58;48;52;58;48;53;90]%N;
  (* 1900-02-29T03:04:05Z *) [49;57;48;48;45;48;50;45;50;57;84;48;51;58;48;52;58;48;53;90]%N;
  (* 2023-04-31T03:04:05Z *) [50;48;50;51;45;48;52;45;51;49;84;48;51;58;48;52;58;48;53;90]%N;
  (* 2023-01-02T24:04:05Z *) [50;48;50;51;45;48;49;45;48;50;84;50;52;58;48;52;58;48;53;90]%N;
  (* 2023-01-02T03:60:05Z *) [50;48;50;51;45;48;49;45;48;50;84;48;51;58;54;48;58;48;53;90]%N;
  (* 2023-01-02T03:04:60Z *) [50;48;50;51;45;48;49;45;48;50;84;48;51;58;48;52;58;54;48;90]%N;
  (* 2023-01-02T03:04:05 *) [50;48;50;51;45;48;49;45;48;50;84;48;51;58;48;52;58;48;53]%N;
  (* 2023-01-02T03:04:05.5 *) [50;48;50;51;45;48;49;45;48;50;84;48;51;58;48;52;58;48;53;46;53]%N;
  (* 2023-01-02T03:04 *) [50;48;50;51;45;48;49;45;48;50;84;48;51;58;48;52]%N;
  (* 2023-01-02 *) [50;48;50;51;45;48;49;45;48;50]%N;
  (*  *) []%N;
  (* Z *) [90]%N;
  (* 2023-0a-02T03:04:05Z *) [50;48;50;51;45;48;97;45;48;50;84;48;51;58;48;52;58;48;53;90]%N;
  (* 20x3-01-02T03:04:05Z *) [50;48;120;51;45;48;49;45;48;50;84;48;51;58;48;52;58;48;53;90]%N;
  (* 2023-01-0 T03:04:05Z *) [50;48;50;51;45;48;49;45;48;32;84;48;51;58;48;52;58;48;53;90]%N;
  (* 2023-01-02T03:04:-5Z *) [50;48;50;51;45;48;49;45;48;50;84;48;51;58;48;52;58;45;53;90]%N;
  (* 2023-+1-02T03:04:05Z *) [50;48;50;51;45;43;49;45;48;50;84;48;51;58;48;52;58;48;53;90]%N;
  (*  2023-01-02T03:04:05Z *) [32;50;48;50;51;45;48;49;45;48;50;84;48;51;58;48;52;58;48;53;90]%N;
  (* 2023--02T03:04:05Z *) [50;48;50;51;45;45;48;50;84;48;51;58;48;52;58;48;53;90]%N;
  (* -01-02T03:04:05Z *) [45;48;49;45;48;50;84;48;51;58;48;52;58;48;53;90]%N;
  (* 2023-01-T03:04:05Z *) [50;48;50;51;45;48;49;45;84;48;51;58;48;52;58;48;53;90]%N;
  (* 2023-01-02T:04:05Z *) [50;48;50;51;45;48;49;45;48;50;84;58;48;52;58;48;53;90]%N;
  (* 2023-01-02T03::05Z *) [50;48;50;51;45;48;49;45;48;50;84;48;51;58;58;48;53;90]%N;
  (* 2023-01-02T03:04:Z *) [50;48;50;51;45;48;49;45;48;50;84;48;51;58;48;52;58;90]%N;
  (* +-01-02T03:04:05Z *) [43;45;48;49;45;48;50;84;48;51;58;48;52;58;48;53;90]%N;
  (* 2023-01-02T03:04.5:05Z *) [50;48;50;51;45;48;49;45;48;50;84;48;51;58;48;52;46;53;58;48;53;90]%N;
  (* 2023-01-02T03.5:04:05Z *) [50;48;50;51;45;48;49;45;48;50;84;48;51;46;53;58;48;52;58;48;53;90]%N;
  (* 2023-01.5-02T03:04:05Z *) [50;48;50;51;45;48;49;46;53;45;48;50;84;48;51;58;48;52;58;48;53;90]%N;
  (* 2023-01-02T03:04:05.Z *) [50;48;50;51;45;48;49;45;48;50;84;48;51;58;48;52;58;48;53;46;90]%N;
  (* 2023-01-02T03:04:05.1234567890Z *) [50;48;50;51;45;48;49;45;48;50;84;48;51;58;48;52;58;48;53;46;49;50;51;52;53;54;55;56;57;48;90]%N;
  (* 2023-01-02T03:04:05;5Z *) [50;48;50;51;45;48;49;45;48;50;84;48;51;58;48;52;58;48;53;59;53;90]%N;
  (* 2023-01-02T03:04:05.5.5Z *) [50;48;50;51;45;48;49;45;48;50;84;48;51;58;48;52;58;48;53;46;53;46;53;90]%N;
  (* 2023-01-02T03:04:05.99999999999Z *) [50;48;50;51;45;48;49;45;48;50;84;48;51;58;48;52;58;48;53;46;57;57;57;57;57;57;57;57;57;57;57;90]%N;
  (* --2023-01-02T03:04:05Z *) [45;45;50;48;50;51;45;48;49;45;48;50;84;48;51;58;48;52;58;48;53;90]%N;
  (* ++2023-01-02T03:04:05Z *) [43;43;50;48;50;51;45;48;49;45;48;50;84;48;51;58;48;52;58;48;53;90]%N;
  (* -+2023-01-02T03:04:05Z *) [45;43;50;48;50;51;45;48;49;45;48;50;84;48;51;58;48;52;58;48;53;90]%N
].

Lemma tp_malformed_outside : Forall (fun s => ~ tp_lenient s) tp_malformed.
Proof.
  unfold tp_malformed.
  repeat (constructor; [let H := fresh in intro H; apply tp_lenient_exact in H; apply H; vm_compute; reflexivity|]).
  constructor.
Qed.

Theorem tp_malformed_rejected : forall P R, Forall (fun s => tp_parse P R s = Err InvalidArgument) tp_malformed.
Proof.
  intros P R. eapply Forall_impl; [|exact tp_malformed_outside]. intros s H. apply tp_reject. exact H.
Qed.

(* K41 is inside the shape (and outside the grammar) *)
Lemma K41_lenient : tp_lenient [50;48;50;51;45;49;45;49;84;48;58;48;58;48;90;106;117;110;107]%N.
Proof. apply tp_lenient_exact. vm_compute. discriminate. Qed.
