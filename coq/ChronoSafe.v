(* ChronoSafe.v — C15, the arithmetic guards: ParseSecondFractions is exact, SafeDurationCast returns the
   exact value or reports out_of_range and never wraps (the three branches reachable with commensurable
   periods; the quotient/remainder form of the coarser-unit branch after repo commit 30f5d3e). *)
From BS Require Import Base ChronoSpec ChronoModel ChronoArith ChronoDecimal.
From Coq Require Import ZifyBool ZifyN ZifyNat.
Local Open Scope Z_scope.
Ltac Zify.zify_post_hook ::= Z.to_euclidean_division_equations.

(* every cast term becomes a variable with its range, its congruence and its identity-on-fitting fact *)
Ltac gen_casts :=
  repeat match goal with
         | |- context [cast ?t ?x] =>
           let v := fresh "v" in let Hr := fresh "Hr" in let Hm := fresh "Hm" in let Hf := fresh "Hf" in
           pose proof (cast_range t x) as Hr; pose proof (cast_mod t x) as Hm;
           assert (Hf : fits t x = true -> cast t x = x) by apply cast_fits;
           set (v := cast t x) in *; clearbody v
         end.
Ltac unfits := unfold fits, tmin, tmax, half, modulus in *; cbn [is_signed] in *.

(* ------------------------------------------------------------------ ParseSecondFractions *)

Lemma frac_core T B v : 0 < v < T -> T * B = 1000000000 ->
  1000000000000000000 / (T * 1000000000 / v) = v * B.
Proof.
  intros Hv HT.
  assert (HB : 0 < B) by nia.
  set (A := T * 1000000000).
  pose proof (Z.div_mod A v ltac:(lia)) as Hdm.
  pose proof (Z.mod_pos_bound A v ltac:(lia)) as Hr.
  set (q0 := A / v) in *. set (r0 := A mod v) in *. clearbody q0 r0.
  assert (Hq : v * B <= q0).
  { assert (v * (v * B) <= A) by (unfold A; nia). nia. }
  symmetry. apply Z.div_unique with (r := B * r0).
  - left. split; nia.
  - unfold A in Hdm. nia.
Qed.

(* the documented form: 1..9 digits, any following non-digit *)
Theorem fraction_exact ds rest : all_digits ds = true -> no_digit_head rest -> (1 <= length ds <= 9)%nat ->
  parse_second_fractions (ds ++ rest) = Some (dec_value ds * 10 ^ (9 - Z.of_nat (length ds)), rest).
Proof.
  intros Hd Hr Hl.
  assert (Hne : ds <> []) by (destruct ds; [cbn in Hl; lia | discriminate]).
  pose proof (dec_value_bound ds Hd) as Hb.
  assert (Hp9 : p10 (length ds) <= p10 9) by (apply p10_mono; lia).
  change (p10 9) with 1000000000 in Hp9.
  unfold parse_second_fractions. rewrite from_chars_numeral by assumption.
  replace (fits U32 (dec_value ds)) with true by (symmetry; apply fits_U32; lia).
  destruct (Z.eqb_spec (dec_value ds) 0) as [E0|E0]; [rewrite E0; reflexivity|].
  rewrite app_length, Nat.add_sub.
  replace (Z.of_nat (length ds) <? 10) with true by lia.
  fold (p10 (length ds)).
  assert (HTB : p10 (length ds) * 10 ^ (9 - Z.of_nat (length ds)) = 1000000000).
  { replace (10 ^ (9 - Z.of_nat (length ds))) with (p10 (9 - length ds)) by (unfold p10; f_equal; lia).
    rewrite <- p10_add. replace (length ds + (9 - length ds))%nat with 9%nat by lia. reflexivity. }
  assert (HB : 0 < 10 ^ (9 - Z.of_nat (length ds))) by (apply Z.pow_pos_nonneg; lia).
  rewrite (cast_fits U64 (1000000000 * 1000000000)) by (apply fits_U64; lia).
  rewrite (cast_fits U64 (p10 (length ds) * 1000000000)) by (apply fits_U64; pose proof (p10_pos (length ds)); lia).
  change (1000000000 * 1000000000) with 1000000000000000000.
  rewrite (frac_core (p10 (length ds)) (10 ^ (9 - Z.of_nat (length ds))) (dec_value ds)) by (try assumption; lia).
  rewrite cast_fits by (apply fits_I64; nia). reflexivity.
Qed.

(* more than nine digits with a non-zero value are rejected; an all-zero fraction of any length is 0 *)
Theorem fraction_too_long ds rest : all_digits ds = true -> no_digit_head rest -> (10 <= length ds)%nat ->
  parse_second_fractions (ds ++ rest) = if dec_value ds =? 0 then Some (0, rest) else None.
Proof.
  intros Hd Hr Hl.
  assert (Hne : ds <> []) by (destruct ds; [cbn in Hl; lia | discriminate]).
  unfold parse_second_fractions. rewrite from_chars_numeral by assumption.
  destruct (fits U32 (dec_value ds)) eqn:Ef.
  - destruct (dec_value ds =? 0); [reflexivity|].
    rewrite app_length, Nat.add_sub. replace (Z.of_nat (length ds) <? 10) with false by lia. reflexivity.
  - apply Bool.not_true_iff_false in Ef. rewrite fits_U32 in Ef.
    pose proof (dec_value_bound ds Hd). replace (dec_value ds =? 0) with false by lia. reflexivity.
Qed.

(* anything that does not start with a digit is rejected *)
Theorem fraction_no_digit l : no_digit_head l -> parse_second_fractions l = None.
Proof.
  intros H. unfold parse_second_fractions, from_chars. cbn [is_signed andb].
  destruct l as [|c t]; [reflexivity|]. cbn in H. cbn [fc_digits]. rewrite H. reflexivity.
Qed.

(* ------------------------------------------------------------------ SafeDurationCast *)

(* the exact value: v ticks of [to] are c ticks of [from] *)
Definition exact_cast (from to : dty) (c v : Z) : Prop :=
  v * (d_den from * d_num to) = c * (d_num from * d_den to).

Definition cast_spec (from to : dty) (c : Z) : Prop :=
  match safe_cast from to c with
  | Ok v => fits (d_rep to) v = true /\ exact_cast from to c v
  | Err OutOfRange => forall v, fits (d_rep to) v = true -> ~ exact_cast from to c v
  | _ => False
  end.

Definition scA (sr tr : ity) (c : Z) : outcome Z :=
  let v := cast tr c in
  if negb (c =? cast sr v) || sign_mismatch c v then Err OutOfRange else Ok v.

Definition scB (sr tr : ity) (num c : Z) : outcome Z :=
  let op := common3 tr sr I64 in
  let cc := cast op c in
  hi <- cdiv op (tmax op) (cast op num) ;;
  lo <- cdiv op (tmin op) (cast op num) ;;
  if (hi <? cc) || (cc <? lo) then Err OutOfRange else
  v <- arith op (cc * cast op num) ;;
  let t := cast tr v in
  if negb (v =? cast op t) || sign_mismatch v t then Err OutOfRange else Ok t.

Definition scC (sr tr : ity) (den c : Z) : outcome Z :=
  let op := common3 tr sr I64 in
  if is_signed sr && negb (is_signed tr) && (c <? 0) then Err OutOfRange else
  q <- cdiv op (cast op c) (cast op den) ;;
  if negb (Z.rem (cast op c) (cast op den) =? 0) then Err OutOfRange else
  let v := cast tr q in
  if negb (cast op v =? q) || sign_mismatch q v then Err OutOfRange else Ok v.

Definition scD (sr tr : ity) (num den c : Z) : outcome Z :=
  let op := common3 tr sr I64 in
  if is_signed sr && negb (is_signed tr) && (c <? 0) then Err OutOfRange else
  if negb (Z.rem (cast op c) (cast op den) =? 0) then Err OutOfRange else
  q <- cdiv op (cast op c) (cast op den) ;;
  hi <- cdiv op (tmax op) (cast op num) ;;
  lo <- cdiv op (tmin op) (cast op num) ;;
  if (hi <? q) || (q <? lo) then Err OutOfRange else
  v <- arith op (q * cast op num) ;;
  let t := cast tr v in
  if negb (v =? cast op t) || sign_mismatch v t then Err OutOfRange else Ok t.

Lemma safe_cast_unfold from to c :
  safe_cast from to c =
  if dty_eqb from to then Ok c else
  let '(num, den) := ratio_div from to in
  if den =? 1 then (if num =? 1 then scA (d_rep from) (d_rep to) c else scB (d_rep from) (d_rep to) num c)
  else if num =? 1 then scC (d_rep from) (d_rep to) den c
  else scD (d_rep from) (d_rep to) num den c.
Proof.
  unfold safe_cast, scA, scB, scC, scD. destruct (dty_eqb from to); [reflexivity|].
  destruct (ratio_div from to) as [num den].
  destruct (den =? 1); [destruct (num =? 1); reflexivity|]. destruct (num =? 1); reflexivity.
Qed.

(* --- case A: same period --- *)

Lemma castA sr tr c : fits sr c = true ->
  (negb (c =? cast sr (cast tr c)) || sign_mismatch c (cast tr c)) = negb (fits tr c).
Proof.
  intros Hc. unfold sign_mismatch.
  destruct sr, tr; gen_casts; unfits; lia.
Qed.

Lemma scA_spec sr tr c : fits sr c = true ->
  scA sr tr c = if fits tr c then Ok c else Err OutOfRange.
Proof.
  intros Hc. unfold scA. cbv zeta. rewrite castA by exact Hc.
  destruct (fits tr c) eqn:E; cbn [negb]; [rewrite cast_fits by exact E|]; reflexivity.
Qed.

(* --- case B: to a finer period (num >= 2, den = 1) --- *)

Lemma quot_guard_hi M n x : 0 < n -> 0 <= M -> ((Z.quot M n <? x) = false <-> x * n <= M).
Proof.
  intros Hn HM. rewrite Z.quot_div_nonneg by lia.
  pose proof (Z.div_mod M n ltac:(lia)) as Hdm. pose proof (Z.mod_pos_bound M n Hn) as Hr.
  set (q := M / n) in *. set (r := M mod n) in *. clearbody q r.
  rewrite Z.ltb_ge. split; intros H; nia.
Qed.

Lemma quot_guard_lo m n x : 0 < n -> m <= 0 -> ((x <? Z.quot m n) = false <-> m <= x * n).
Proof.
  intros Hn Hm.
  replace (Z.quot m n) with (- ((- m) / n)).
  2:{ rewrite <- (Z.opp_involutive m) at 2. rewrite Z.quot_opp_l by lia. rewrite Z.quot_div_nonneg by lia. reflexivity. }
  pose proof (Z.div_mod (- m) n ltac:(lia)) as Hdm. pose proof (Z.mod_pos_bound (- m) n Hn) as Hr.
  set (q := (- m) / n) in *. set (r := (- m) mod n) in *. clearbody q r.
  rewrite Z.ltb_ge. split; intros H; nia.
Qed.

Lemma guard_mul {A} op num cc (K : Z -> outcome A) :
  (op = I64 \/ op = U64) -> 2 <= num <= 4611686018427387904 -> fits op cc = true ->
  (hi <- cdiv op (tmax op) (cast op num) ;;
   lo <- cdiv op (tmin op) (cast op num) ;;
   if (hi <? cc) || (cc <? lo) then Err OutOfRange else
   v <- arith op (cc * cast op num) ;; K v)
  = if fits op (cc * num) then K (cc * num) else Err OutOfRange.
Proof.
  intros Hop Hnum Hcc.
  assert (Hcn : cast op num = num) by (apply cast_fits; destruct Hop; subst op; fits_tac).
  rewrite Hcn. unfold cdiv. replace (num =? 0) with false by lia.
  assert (Hmax : 0 <= tmax op) by (destruct Hop; subst op; vm_compute; discriminate).
  assert (Hmin : tmin op <= 0) by (destruct Hop; subst op; vm_compute; discriminate).
  assert (Hhi : fits op (Z.quot (tmax op) num) = true).
  { apply fits_iff. rewrite Z.quot_div_nonneg by lia. split; [|apply Z.div_le_upper_bound; nia].
    pose proof (Z.div_pos (tmax op) num ltac:(lia) ltac:(lia)). lia. }
  assert (Hlo : fits op (Z.quot (tmin op) num) = true).
  { apply fits_iff.
    replace (Z.quot (tmin op) num) with (- ((- tmin op) / num)).
    2:{ rewrite <- (Z.opp_involutive (tmin op)) at 2. rewrite Z.quot_opp_l by lia. rewrite Z.quot_div_nonneg by lia. reflexivity. }
    pose proof (Z.div_pos (- tmin op) num ltac:(lia) ltac:(lia)).
    assert ((- tmin op) / num <= - tmin op) by (apply Z.div_le_upper_bound; nia). lia. }
  rewrite (arith_fits _ _ Hhi), bind_ok, (arith_fits _ _ Hlo), bind_ok.
  pose proof (quot_guard_hi (tmax op) num cc ltac:(lia) Hmax) as G1.
  pose proof (quot_guard_lo (tmin op) num cc ltac:(lia) Hmin) as G2.
  destruct (Z.quot (tmax op) num <? cc) eqn:E1; cbn [orb].
  - replace (fits op (cc * num)) with false; [reflexivity|].
    symmetry. apply Bool.not_true_iff_false. rewrite fits_iff. intros [_ H]. apply G1 in H. discriminate.
  - destruct (cc <? Z.quot (tmin op) num) eqn:E2.
    + replace (fits op (cc * num)) with false; [reflexivity|].
      symmetry. apply Bool.not_true_iff_false. rewrite fits_iff. intros [H _]. apply G2 in H. discriminate.
    + assert (Hf : fits op (cc * num) = true) by (apply fits_iff; split; [apply G2 | apply G1]; reflexivity).
      rewrite Hf, (arith_fits _ _ Hf), bind_ok. reflexivity.
Qed.

Lemma op_cases tr sr : common3 tr sr I64 = I64 \/ common3 tr sr I64 = U64.
Proof. destruct tr, sr; vm_compute; auto. Qed.

Lemma scB_spec sr tr num c : 2 <= num <= 4611686018427387904 -> fits sr c = true ->
  scB sr tr num c = if fits tr (c * num) then Ok (c * num) else Err OutOfRange.
Proof.
  intros Hnum Hc. unfold scB. cbv zeta.
  set (op := common3 tr sr I64). pose proof (op_cases tr sr) as Hop. fold op in Hop.
  rewrite (guard_mul op num (cast op c)) by (try assumption; apply cast_range).
  destruct (fits op c) eqn:Efc.
  - rewrite (cast_fits op c Efc).
    destruct (fits op (c * num)) eqn:Ef.
    + pose proof (castA op tr (c * num) Ef) as HA. rewrite HA.
      destruct (fits tr (c * num)) eqn:Et; cbn [negb]; [rewrite cast_fits by exact Et|]; reflexivity.
    + (* outside op's range, hence outside tr's *)
      replace (fits tr (c * num)) with false; [reflexivity|].
      symmetry. apply Bool.not_true_iff_false. intros Et. apply Bool.not_true_iff_false in Ef. apply Ef.
      subst op. destruct tr, sr; cbv [common3 common_rep ity_eqb uac promote] in *; unfits; lia.
  - (* c does not fit op: op = U64 and c < 0 *)
    assert (Hneg : c < 0 /\ op = U64 /\ tr = U64).
    { subst op. destruct tr, sr; cbv [common3 common_rep ity_eqb uac promote] in *; unfits;
        repeat split; try reflexivity; try lia; try discriminate. }
    destruct Hneg as (Hneg & Eop & Etr). rewrite Eop in *. subst tr.
    assert (Hbig : 9223372036854775808 <= cast U64 c).
    { pose proof (cast_mod U64 c) as Hm. pose proof (cast_range U64 c) as Hr. unfits.
      assert (-9223372036854775808 <= c) by (destruct sr; unfits; lia). lia. }
    replace (fits U64 (cast U64 c * num)) with false by (symmetry; apply Bool.not_true_iff_false; rewrite fits_U64; nia).
    replace (fits U64 (c * num)) with false by (symmetry; apply Bool.not_true_iff_false; rewrite fits_U64; nia).
    reflexivity.
Qed.

(* --- case C: to a coarser period (num = 1, den >= 2) --- *)

Definition rep4 (t : ity) : Prop := t = I8 \/ t = I32 \/ t = I64 \/ t = U64.

Lemma quot_facts c den : 2 <= den ->
  c = den * Z.quot c den + Z.rem c den /\ Z.abs (Z.rem c den) < den /\
  (0 <= c -> 0 <= Z.rem c den /\ 0 <= Z.quot c den <= c) /\
  (c <= 0 -> Z.rem c den <= 0 /\ c <= Z.quot c den <= 0).
Proof.
  intros Hd. pose proof (Z.quot_rem' c den) as E. pose proof (Z.rem_bound_abs c den ltac:(lia)) as B.
  split; [exact E|]. split; [lia|].
  split; intros Hc.
  - pose proof (Z.rem_nonneg c den ltac:(lia) Hc). pose proof (Z.quot_pos c den Hc ltac:(lia)). split; [lia|]. nia.
  - pose proof (Z.rem_nonpos c den ltac:(lia) Hc).
    assert (Z.quot c den <= 0).
    { rewrite <- (Z.opp_involutive c), Z.quot_opp_l by lia.
      pose proof (Z.quot_pos (- c) den ltac:(lia) ltac:(lia)). lia. }
    split; [lia|]. nia.
Qed.

Lemma castA' sr tr c : fits sr c = true ->
  (negb (cast sr (cast tr c) =? c) || sign_mismatch c (cast tr c)) = negb (fits tr c).
Proof. intros H. rewrite <- (castA sr tr c H). rewrite (Z.eqb_sym c). reflexivity. Qed.

Lemma scC_spec sr tr den c :
  rep4 sr -> rep4 tr -> 2 <= den <= 4611686018427387904 -> fits sr c = true ->
  scC sr tr den c = if (Z.rem c den =? 0) && fits tr (Z.quot c den) then Ok (Z.quot c den) else Err OutOfRange.
Proof.
  intros Hsr Htr Hden Hc. unfold scC. cbv zeta.
  set (op := common3 tr sr I64).
  destruct (quot_facts c den ltac:(lia)) as (E & Br & Hpos & Hneg).
  destruct (is_signed sr && negb (is_signed tr) && (c <? 0)) eqn:Eneg.
  - (* negative count, unsigned target *)
    apply andb_true_iff in Eneg. destruct Eneg as [Eneg Hc0]. apply andb_true_iff in Eneg. destruct Eneg as [_ Htu].
    assert (Etr : tr = U64) by (destruct Htr as [?|[?|[?|?]]]; subst tr; cbn in Htu; congruence). subst tr.
    destruct (Z.eqb_spec (Z.rem c den) 0) as [Er|Er]; cbn [andb]; [|reflexivity].
    replace (fits U64 (Z.quot c den)) with false; [reflexivity|].
    symmetry. apply Bool.not_true_iff_false. rewrite fits_U64. nia.
  - assert (Hcc : cast op c = c).
    { apply cast_fits. subst op. destruct Hsr as [?|[?|[?|?]]], Htr as [?|[?|[?|?]]]; subst sr tr;
        cbv [common3 common_rep ity_eqb uac promote]; cbn [is_signed negb andb] in *; unfits; lia. }
    assert (Hdo : cast op den = den).
    { apply cast_fits. destruct (op_cases tr sr) as [E1|E1]; fold op in E1; rewrite E1; fits_tac. }
    rewrite Hcc, Hdo. unfold cdiv. replace (den =? 0) with false by lia.
    set (q := Z.quot c den) in *. set (r := Z.rem c den) in *. clearbody q r.
    assert (Hq : fits op q = true).
    { subst op. destruct Hsr as [?|[?|[?|?]]], Htr as [?|[?|[?|?]]]; subst sr tr;
        cbv [common3 common_rep ity_eqb uac promote]; cbn [is_signed negb andb] in *; unfits; lia. }
    rewrite (arith_fits _ _ Hq), bind_ok.
    destruct (Z.eqb_spec r 0) as [Er|Er]; cbn [negb andb]; [|reflexivity].
    rewrite (castA' op tr q Hq).
    destruct (fits tr q) eqn:Ef; cbn [negb]; [rewrite cast_fits by exact Ef|]; reflexivity.
Qed.

(* --- case D: a reduced ratio with num >= 2 and den >= 2: exact only for multiples of den, then case B on the quotient --- *)

Lemma scD_spec sr tr num den c :
  rep4 sr -> rep4 tr -> 2 <= num <= 4611686018427387904 -> 2 <= den <= 4611686018427387904 -> fits sr c = true ->
  scD sr tr num den c =
  if (Z.rem c den =? 0) && fits tr (Z.quot c den * num) then Ok (Z.quot c den * num) else Err OutOfRange.
Proof.
  intros Hsr Htr Hnum Hden Hc. unfold scD. cbv zeta.
  set (op := common3 tr sr I64).
  destruct (quot_facts c den ltac:(lia)) as (E & Br & Hpos & Hneg).
  destruct (is_signed sr && negb (is_signed tr) && (c <? 0)) eqn:Eneg.
  - apply andb_true_iff in Eneg. destruct Eneg as [Eneg Hc0]. apply andb_true_iff in Eneg. destruct Eneg as [_ Htu].
    assert (Etr : tr = U64) by (destruct Htr as [?|[?|[?|?]]]; subst tr; cbn in Htu; congruence). subst tr.
    destruct (Z.eqb_spec (Z.rem c den) 0) as [Er|Er]; cbn [andb]; [|reflexivity].
    replace (fits U64 (Z.quot c den * num)) with false; [reflexivity|].
    symmetry. apply Bool.not_true_iff_false. rewrite fits_U64. nia.
  - assert (Hcc : cast op c = c).
    { apply cast_fits. subst op. destruct Hsr as [?|[?|[?|?]]], Htr as [?|[?|[?|?]]]; subst sr tr;
        cbv [common3 common_rep ity_eqb uac promote]; cbn [is_signed negb andb] in *; unfits; lia. }
    assert (Hdo : cast op den = den).
    { apply cast_fits. destruct (op_cases tr sr) as [E1|E1]; fold op in E1; rewrite E1; fits_tac. }
    rewrite Hcc, Hdo. unfold cdiv at 1. replace (den =? 0) with false by lia.
    destruct (Z.eqb_spec (Z.rem c den) 0) as [Er|Er]; cbn [negb andb]; [|reflexivity].
    set (q := Z.quot c den) in *.
    assert (Hq : fits op q = true).
    { subst op. destruct Hsr as [?|[?|[?|?]]], Htr as [?|[?|[?|?]]]; subst sr tr;
        cbv [common3 common_rep ity_eqb uac promote]; cbn [is_signed negb andb] in *; unfits; lia. }
    assert (Hqs : fits sr q = true).
    { clear - Hsr Hc Hpos Hneg. subst q. destruct Hsr as [?|[?|[?|?]]]; subst sr; unfits; lia. }
    rewrite (arith_fits _ _ Hq), bind_ok.
    pose proof (scB_spec sr tr num q Hnum Hqs) as HB. unfold scB in HB. cbv zeta in HB. fold op in HB.
    rewrite (cast_fits op q Hq) in HB. exact HB.
Qed.

