(* ChronoSafeAdd.v — SafeDurationCast as a whole (all three reachable branches), and the two
   SafeAddDuration overloads: exact sum or out_of_range, never UB, never wrapped. *)
From BS Require Import Base ChronoSpec ChronoModel ChronoArith ChronoDecimal ChronoSafe.
From Coq Require Import ZifyBool ZifyN ZifyNat.
Local Open Scope Z_scope.
Ltac Zify.zify_post_hook ::= Z.to_euclidean_division_equations.

Definition simple_ratio (from to : dty) : Prop := fst (ratio_div from to) = 1 \/ snd (ratio_div from to) = 1.

Definition wf_dty (D : dty) : Prop := 0 < d_num D /\ 0 < d_den D.

Lemma ity_eqb_eq a b : ity_eqb a b = true -> a = b.
Proof. destruct a, b; cbn; congruence. Qed.
Lemma ity_eqb_refl a : ity_eqb a a = true.
Proof. destruct a; reflexivity. Qed.

Lemma dty_eqb_eq a b : dty_eqb a b = true -> a = b.
Proof.
  destruct a as [r n d], b as [r' n' d']. unfold dty_eqb. cbn [d_rep d_num d_den]. intros H.
  apply andb_true_iff in H. destruct H as [H H3]. apply andb_true_iff in H. destruct H as [H1 H2].
  apply ity_eqb_eq in H1. apply Z.eqb_eq in H2, H3. subst. reflexivity.
Qed.

(* the reduced ratio *)
Lemma ratio_div_props from to : wf_dty from -> wf_dty to ->
  let n := d_num from * d_den to in let d := d_den from * d_num to in
  exists g, 0 < g /\ n = g * fst (ratio_div from to) /\ d = g * snd (ratio_div from to) /\
            0 < fst (ratio_div from to) <= n /\ 0 < snd (ratio_div from to) <= d.
Proof.
  intros [Hfn Hfd] [Htn Htd] n d. unfold ratio_div. fold n d. cbn [fst snd].
  assert (Hn : 0 < n) by (unfold n; nia). assert (Hd : 0 < d) by (unfold d; nia).
  set (g := Z.gcd n d).
  assert (Hg : 0 < g).
  { pose proof (Z.gcd_nonneg n d). destruct (Z.eq_dec g 0) as [E|E]; [|unfold g in *; lia].
    apply Z.gcd_eq_0_l in E. lia. }
  destruct (Z.gcd_divide_l n d) as [k1 Hk1]. destruct (Z.gcd_divide_r n d) as [k2 Hk2]. fold g in Hk1, Hk2.
  assert (E1 : n / g = k1) by (rewrite Hk1; apply Z.div_mul; lia).
  assert (E2 : d / g = k2) by (rewrite Hk2; apply Z.div_mul; lia).
  exists g. rewrite E1, E2. repeat split; nia.
Qed.

Theorem safe_cast_correct from to c :
  rep4 (d_rep from) -> rep4 (d_rep to) -> wf_dty from -> wf_dty to ->
  d_num from * d_den to <= 4611686018427387904 -> d_den from * d_num to <= 4611686018427387904 ->
  fits (d_rep from) c = true -> simple_ratio from to -> cast_spec from to c.
Proof.
  intros Hsr Htr Hwf Hwt Hbn Hbd Hc Hsimple.
  unfold cast_spec. rewrite safe_cast_unfold.
  destruct (dty_eqb from to) eqn:Eeq.
  { apply dty_eqb_eq in Eeq. subst to. split; [exact Hc | unfold exact_cast; ring]. }
  destruct (ratio_div_props from to Hwf Hwt) as (g & Hg & En & Ed & Bn & Bd).
  unfold simple_ratio in *.
  destruct (ratio_div from to) as [num den]. cbn [fst snd] in *.
  assert (Hex : forall v, exact_cast from to c v <-> v * den = c * num).
  { intros v. unfold exact_cast. rewrite En, Ed. split; intros H; nia. }
  destruct (Z.eqb_spec den 1) as [Eden|Eden].
  - subst den. destruct (Z.eqb_spec num 1) as [Enum|Enum].
    + subst num. rewrite scA_spec by exact Hc.
      destruct (fits (d_rep to) c) eqn:Ef.
      * split; [exact Ef | apply Hex; ring].
      * intros v Hv Hx. apply Hex in Hx. assert (v = c) by lia. subst v. congruence.
    + rewrite scB_spec by (try assumption; lia).
      destruct (fits (d_rep to) (c * num)) eqn:Ef.
      * split; [exact Ef | apply Hex; ring].
      * intros v Hv Hx. apply Hex in Hx. assert (v = c * num) by lia. subst v. congruence.
  - destruct (Z.eqb_spec num 1) as [Enum|Enum]; [|lia]. subst num.
    rewrite scC_spec; try assumption; try lia.
    pose proof (Z.quot_rem' c den) as Eq. pose proof (Z.rem_bound_abs c den ltac:(lia)) as Br.
    set (q := Z.quot c den) in *. set (r := Z.rem c den) in *. clearbody q r.
    destruct (Z.eqb_spec r 0) as [Er|Er]; cbn [andb].
    + destruct (fits (d_rep to) q) eqn:Ef.
      * split; [exact Ef | apply Hex; lia].
      * intros v Hv Hx. apply Hex in Hx. assert (v = q) by nia. subst v. congruence.
    + intros v Hv Hx. apply Hex in Hx.
      assert (Hr : r = (v - q) * den) by lia.
      destruct (Z.eq_dec v q) as [->|Hne]; [lia|].
      assert (den <= Z.abs ((v - q) * den)) by (rewrite Z.abs_mul, (Z.abs_eq den) by lia; nia).
      lia.
Qed.

(* the reduced ratio is in lowest terms *)
Lemma ratio_div_coprime from to : wf_dty from -> wf_dty to ->
  Z.gcd (fst (ratio_div from to)) (snd (ratio_div from to)) = 1.
Proof.
  intros [Hfn Hfd] [Htn Htd]. unfold ratio_div. cbn [fst snd].
  apply Z.gcd_div_gcd; [|reflexivity].
  intros E. apply Z.gcd_eq_0_l in E. nia.
Qed.

(* every ratio, the general one (num >= 2 and den >= 2, repaired in /repo: K45) included *)
Theorem safe_cast_correct_all from to c :
  rep4 (d_rep from) -> rep4 (d_rep to) -> wf_dty from -> wf_dty to ->
  d_num from * d_den to <= 4611686018427387904 -> d_den from * d_num to <= 4611686018427387904 ->
  fits (d_rep from) c = true -> cast_spec from to c.
Proof.
  intros Hsr Htr Hwf Hwt Hbn Hbd Hc.
  destruct (ratio_div_props from to Hwf Hwt) as (g & Hg & En & Ed & Bn & Bd).
  pose proof (ratio_div_coprime from to Hwf Hwt) as Hcop.
  destruct (Z.eq_dec (fst (ratio_div from to)) 1) as [E1|E1];
    [apply safe_cast_correct; try assumption; left; exact E1|].
  destruct (Z.eq_dec (snd (ratio_div from to)) 1) as [E2|E2];
    [apply safe_cast_correct; try assumption; right; exact E2|].
  unfold cast_spec. rewrite safe_cast_unfold.
  destruct (dty_eqb from to) eqn:Eeq.
  { apply dty_eqb_eq in Eeq. subst to. split; [exact Hc | unfold exact_cast; ring]. }
  destruct (ratio_div from to) as [num den]. cbn [fst snd] in *.
  assert (Hex : forall v, exact_cast from to c v <-> v * den = c * num).
  { intros v. unfold exact_cast. rewrite En, Ed. split; intros H; nia. }
  replace (den =? 1) with false by lia. replace (num =? 1) with false by lia.
  rewrite scD_spec; try assumption; try lia.
  pose proof (Z.quot_rem' c den) as Eq. pose proof (Z.rem_bound_abs c den ltac:(lia)) as Br.
  set (q := Z.quot c den) in *. set (r := Z.rem c den) in *. clearbody q r.
  destruct (Z.eqb_spec r 0) as [Er|Er]; cbn [andb].
  - destruct (fits (d_rep to) (q * num)) eqn:Ef.
    + split; [exact Ef | apply Hex; nia].
    + intros v Hv Hx. apply Hex in Hx. assert (v = q * num) by nia. subst v. congruence.
  - intros v Hv Hx. apply Hex in Hx. apply Er.
    assert (Hdiv : (den | c)).
    { apply (Z.gauss den num c); [exists v; lia|]. rewrite Z.gcd_comm. exact Hcop. }
    destruct Hdiv as [k Hk].
    assert (Hr : r = (k - q) * den) by lia.
    destruct (Z.eq_dec k q) as [->|Hne]; [lia|].
    assert (den <= Z.abs ((k - q) * den)) by (rewrite Z.abs_mul, (Z.abs_eq den) by lia; nia).
    lia.
Qed.

(* a returned value always lies in the target representation *)
Lemma safe_cast_ok_fits from to c v : fits (d_rep from) c = true -> safe_cast from to c = Ok v -> fits (d_rep to) v = true.
Proof.
  intros Hc. unfold safe_cast.
  destruct (dty_eqb from to) eqn:Eeq.
  { apply dty_eqb_eq in Eeq. subst to. intros H. injection H as <-. exact Hc. }
  destruct (ratio_div from to) as [num den].
  repeat match goal with
         | |- context [if ?b then _ else _] => destruct b
         | |- context [bind ?x _] => destruct x; cbn [bind]
         | |- Err _ = Ok _ -> _ => discriminate
         | |- UB _ = Ok _ -> _ => discriminate
         | |- OutOfFuel = Ok _ -> _ => discriminate
         | |- Ok _ = Ok _ -> _ => let H := fresh in intros H; injection H as <-; apply cast_range
         end.
Qed.

(* ------------------------------------------------------------------ same-type helpers *)

Lemma ratio_div_self D D' : wf_dty D -> d_num D' = d_num D -> d_den D' = d_den D -> ratio_div D D' = (1, 1).
Proof.
  intros [Hn Hd] En Ed. unfold ratio_div. rewrite En, Ed.
  replace (d_den D * d_num D) with (d_num D * d_den D) by ring.
  rewrite Z.gcd_diag, Z.abs_eq by nia. rewrite Z.div_same by nia. reflexivity.
Qed.

Lemma dcast_same_period D D' x : wf_dty D -> d_num D' = d_num D -> d_den D' = d_den D ->
  dcast D D' x = Ok (cast (d_rep D') x).
Proof. intros H En Ed. unfold dcast. rewrite (ratio_div_self D D' H En Ed). reflexivity. Qed.

Lemma rep_bounds R : tmin R <= 0 /\ 0 < tmax R /\ (tmin R = 0 \/ tmin R = - tmax R - 1).
Proof. destruct R; vm_compute; repeat split; try discriminate; auto. Qed.

Lemma common_rep_self R : common_rep R R = R.
Proof. unfold common_rep. rewrite ity_eqb_refl. reflexivity. Qed.

Lemma dcommon_same_period D D' : wf_dty D -> d_num D' = d_num D -> d_den D' = d_den D ->
  dcommon D D' = mkD (common_rep (d_rep D) (d_rep D')) (d_num D) (d_den D).
Proof.
  intros [Hn Hd] En Ed. unfold dcommon. rewrite En, Ed.
  rewrite Z.gcd_diag, Z.lcm_diag, !Z.abs_eq by lia. reflexivity.
Qed.

Lemma dsub_same D x y : wf_dty D ->
  dsub D x D y = r <- arith (promote (d_rep D)) (cast (d_rep D) x - cast (d_rep D) y) ;; Ok (cast (d_rep D) r).
Proof.
  intros Hwf. unfold dsub. rewrite (dcommon_same_period D D Hwf eq_refl eq_refl), common_rep_self.
  rewrite !(dcast_same_period D) by (try exact Hwf; reflexivity). reflexivity.
Qed.

(* ------------------------------------------------------------------ SafeAddDuration(duration&, src) *)

Theorem safe_add_dur_spec D target src c :
  rep4 (d_rep D) -> wf_dty D -> fits (d_rep D) target = true -> fits (d_rep src) c = true ->
  safe_add_dur D target src c =
  if c =? 0 then Ok target else
  a <- safe_cast src D c ;;
  if fits (d_rep D) (target + a) then Ok (target + a) else Err OutOfRange.
Proof.
  intros HR Hwf Ht Hc. unfold safe_add_dur. destruct (c =? 0); [reflexivity|].
  destruct (safe_cast src D c) as [a| | |] eqn:Ea; cbn [bind]; try reflexivity.
  pose proof (safe_cast_ok_fits _ _ _ _ Hc Ea) as Ha.
  rewrite !dsub_same by exact Hwf.
  set (R := d_rep D) in *.
  rewrite (cast_fits R a Ha).
  assert (Hmax : cast R (tmax R) = tmax R) by (apply cast_fits; destruct HR as [?|[?|[?|?]]]; unfold R in *; rewrite H; reflexivity).
  assert (Hmin : cast R (tmin R) = tmin R) by (apply cast_fits; destruct HR as [?|[?|[?|?]]]; unfold R in *; rewrite H; reflexivity).
  rewrite Hmax, Hmin.
  apply fits_iff in Ha, Ht. pose proof (rep_bounds R) as HB.
  destruct (Z.ltb_spec 0 a) as [Hpos|Hnp].
  - assert (Hf1 : fits (promote R) (tmax R - a) = true).
    { destruct HR as [?|[?|[?|?]]]; unfold R in *; rewrite H in *; cbv [promote]; unfits; lia. }
    rewrite (arith_fits _ _ Hf1), bind_ok.
    assert (Hf2 : fits R (tmax R - a) = true) by (apply fits_iff; lia).
    rewrite (cast_fits _ _ Hf2). cbn [bind].
    destruct (Z.ltb_spec (tmax R - a) target) as [Hov|Hok]; cbn [orb bind].
    + replace (fits R (target + a)) with false; [reflexivity|].
      symmetry. apply Bool.not_true_iff_false. rewrite fits_iff. lia.
    + replace (a <? 0) with false by lia. cbn [bind orb].
      assert (Hf3 : fits R (target + a) = true) by (apply fits_iff; lia).
      rewrite Hf3.
      assert (Hf4 : fits (promote R) (target + a) = true).
      { apply fits_iff in Hf3. destruct HR as [?|[?|[?|?]]]; unfold R in *; rewrite H in *; cbv [promote]; unfits; lia. }
      rewrite (arith_fits _ _ Hf4), bind_ok, (cast_fits _ _ Hf3). reflexivity.
  - cbn [bind].
    destruct (Z.ltb_spec a 0) as [Hneg|Hz].
    + assert (Hf1 : fits (promote R) (tmin R - a) = true).
      { destruct HR as [?|[?|[?|?]]]; unfold R in *; rewrite H in *; cbv [promote]; unfits; lia. }
      rewrite (arith_fits _ _ Hf1), bind_ok.
      assert (Hf2 : fits R (tmin R - a) = true).
      { destruct HR as [?|[?|[?|?]]]; unfold R in *; rewrite H in *; unfits; lia. }
      rewrite (cast_fits _ _ Hf2). cbn [bind].
      destruct (Z.ltb_spec target (tmin R - a)) as [Hun|Hok]; cbn [orb bind].
      * replace (fits R (target + a)) with false; [reflexivity|].
        symmetry. apply Bool.not_true_iff_false. rewrite fits_iff. lia.
      * assert (Hf3 : fits R (target + a) = true) by (apply fits_iff; lia).
        rewrite Hf3.
        assert (Hf4 : fits (promote R) (target + a) = true).
        { apply fits_iff in Hf3. destruct HR as [?|[?|[?|?]]]; unfold R in *; rewrite H in *; cbv [promote]; unfits; lia. }
        rewrite (arith_fits _ _ Hf4), bind_ok, (cast_fits _ _ Hf3). reflexivity.
    + assert (a = 0) by lia. subst a. cbn [orb bind]. rewrite Z.add_0_r.
      assert (Hf3 : fits R target = true) by (apply fits_iff; exact Ht).
      rewrite Hf3.
      assert (Hf4 : fits (promote R) target = true).
      { destruct HR as [?|[?|[?|?]]]; unfold R in *; rewrite H in *; cbv [promote]; unfits; lia. }
      rewrite (arith_fits _ _ Hf4), bind_ok, (cast_fits _ _ Hf3). reflexivity.
Qed.

(* ------------------------------------------------------------------ SafeAddDuration(time_point&, src) *)

Lemma dcmp_same_period D D' x y : wf_dty D -> d_num D' = d_num D -> d_den D' = d_den D ->
  dcmp D x D' y = Ok (cast (common_rep (d_rep D) (d_rep D')) x ?= cast (common_rep (d_rep D) (d_rep D')) y).
Proof.
  intros Hwf En Ed. unfold dcmp. rewrite (dcommon_same_period D D' Hwf En Ed).
  rewrite (dcast_same_period D) by (try exact Hwf; reflexivity).
  assert (Hwf' : wf_dty D') by (destruct Hwf; split; lia).
  rewrite (dcast_same_period D') by (try exact Hwf'; cbn [d_num d_den]; lia). reflexivity.
Qed.

Lemma dsub_same_period D D' x y : wf_dty D -> d_num D' = d_num D -> d_den D' = d_den D ->
  dsub D x D' y =
  (let cr := common_rep (d_rep D) (d_rep D') in r <- arith (promote cr) (cast cr x - cast cr y) ;; Ok (cast cr r)).
Proof.
  intros Hwf En Ed. unfold dsub. rewrite (dcommon_same_period D D' Hwf En Ed).
  rewrite (dcast_same_period D) by (try exact Hwf; reflexivity).
  assert (Hwf' : wf_dty D') by (destruct Hwf; split; lia).
  rewrite (dcast_same_period D') by (try exact Hwf'; cbn [d_num d_den]; lia). reflexivity.
Qed.

Lemma dadd_same_period D D' x y : wf_dty D -> d_num D' = d_num D -> d_den D' = d_den D ->
  dadd D x D' y =
  (let cr := common_rep (d_rep D) (d_rep D') in r <- arith (promote cr) (cast cr x + cast cr y) ;; Ok (cast cr r)).
Proof.
  intros Hwf En Ed. unfold dadd. rewrite (dcommon_same_period D D' Hwf En Ed).
  rewrite (dcast_same_period D) by (try exact Hwf; reflexivity).
  assert (Hwf' : wf_dty D') by (destruct Hwf; split; lia).
  rewrite (dcast_same_period D') by (try exact Hwf'; cbn [d_num d_den]; lia). reflexivity.
Qed.

(* the representation SafeAddDuration computes in *)
Definition op_rep (D src : dty) : ity := common3 (d_rep src) (d_rep D) I64.
Definition op_dty (D src : dty) : dty := mkD (op_rep D src) (d_num D) (d_den D).

Theorem safe_add_tp_spec D tp src c :
  rep4 (d_rep D) -> wf_dty D -> (d_rep src = I64 \/ d_rep src = d_rep D) ->
  fits (d_rep D) tp = true -> fits (d_rep src) c = true ->
  safe_add_tp D tp src c =
  if c =? 0 then Ok tp else
  a <- as_out_of_range (safe_cast src (op_dty D src) c) ;;
  if fits (d_rep D) (tp + a) then Ok (tp + a) else Err OutOfRange.
Proof.
  intros HR Hwf Hsrc Ht Hc. unfold safe_add_tp. destruct (c =? 0); [reflexivity|].
  fold (op_rep D src). fold (op_dty D src).
  destruct (safe_cast src (op_dty D src) c) as [a| | |] eqn:Ea; cbn [bind as_out_of_range]; try reflexivity.
  pose proof (safe_cast_ok_fits _ _ _ _ Hc Ea) as Ha. cbn [op_dty d_rep] in Ha.
  set (R := d_rep D) in *. set (O := op_rep D src) in *.
  assert (HO : (O = I64 /\ is_signed R = true) \/ (O = U64 /\ R = U64)).
  { unfold O, op_rep. fold R. destruct Hsrc as [E|E]; rewrite E; destruct HR as [?|[?|[?|?]]]; unfold R in *; rewrite H;
      vm_compute; auto. }
  assert (Hcr : common_rep R O = O).
  { destruct HO as [[E1 E2]|[E1 E2]]; rewrite E1; [|rewrite E2; reflexivity].
    destruct HR as [?|[?|[?|?]]]; unfold R in *; rewrite H in *; try reflexivity; discriminate. }
  assert (Hoo : common_rep R (common_rep R O) = O) by (rewrite Hcr; exact Hcr).
  assert (Hpo : promote O = O) by (destruct HO as [[E _]|[E _]]; rewrite E; reflexivity).
  assert (HtO : fits O tp = true).
  { apply fits_iff in Ht. destruct HO as [[E1 E2]|[E1 E2]]; rewrite E1; [|rewrite <- E2; apply fits_iff; exact Ht].
    destruct HR as [?|[?|[?|?]]]; unfold R in *; rewrite H in *; try discriminate; unfits; lia. }
  assert (HmaxO : fits O (tmax R) = true /\ fits O (tmin R) = true).
  { destruct HO as [[E1 E2]|[E1 E2]]; rewrite E1.
    - destruct HR as [?|[?|[?|?]]]; unfold R in *; rewrite H in *; try discriminate; split; reflexivity.
    - rewrite E2. split; reflexivity. }
  destruct HmaxO as [HmaxO HminO].
  assert (Eop : forall x y, dsub D x (op_dty D src) y = r <- arith O (cast O x - cast O y) ;; Ok (cast O r)).
  { intros x y. rewrite (dsub_same_period D (op_dty D src)) by (try exact Hwf; reflexivity).
    cbn [op_dty d_rep]. fold R O. cbv zeta. rewrite Hcr, Hpo. reflexivity. }
  assert (Ecmp : forall x y, dcmp D x (dcommon D (op_dty D src)) y = Ok (cast O x ?= cast O y)).
  { intros x y. rewrite (dcommon_same_period D (op_dty D src)) by (try exact Hwf; reflexivity).
    rewrite dcmp_same_period by (try exact Hwf; reflexivity). cbn [op_dty d_rep]. fold R O. rewrite Hoo. reflexivity. }
  assert (Eadd : forall x y, dadd D x (op_dty D src) y = r <- arith O (cast O x + cast O y) ;; Ok (cast O r)).
  { intros x y. rewrite (dadd_same_period D (op_dty D src)) by (try exact Hwf; reflexivity).
    cbn [op_dty d_rep]. fold R O. cbv zeta. rewrite Hcr, Hpo. reflexivity. }
  assert (Hback : forall n, dcast (dcommon D (op_dty D src)) D n = Ok (cast R n)).
  { intros n. rewrite (dcommon_same_period D (op_dty D src)) by (try exact Hwf; reflexivity).
    apply dcast_same_period; [destruct Hwf; split; assumption | reflexivity | reflexivity]. }
  rewrite Eadd, (cast_fits O a Ha), (cast_fits O tp HtO).
  apply fits_iff in Ha, Ht. pose proof (rep_bounds R) as HB.
  assert (HOb : tmin O <= tmin R /\ tmax R <= tmax O /\ (a < 0 -> is_signed R = true)).
  { apply fits_iff in HmaxO, HminO. repeat split; try lia.
    intros Hneg. destruct HO as [[_ E]|[E1 E2]]; [exact E|]. rewrite E1 in Ha. unfits. lia. }
  destruct HOb as (Hb1 & Hb2 & Hsg).
  assert (HsR : is_signed R = true -> tmin R = - tmax R - 1 /\ tmin O = -9223372036854775808 /\ tmax O = 9223372036854775807).
  { intros Hs. destruct HO as [[E1 _]|[_ E2]]; [|rewrite E2 in Hs; discriminate]. rewrite E1.
    destruct HR as [?|[?|[?|?]]]; unfold R in *; rewrite H in *; try discriminate; repeat split; reflexivity. }
  assert (Fin : fits R (tp + a) = true ->
     (n <- (r <- arith O (tp + a) ;; Ok (cast O r)) ;; dcast (dcommon D (op_dty D src)) D n) = Ok (tp + a)).
  { intros Hf3. assert (Hf4 : fits O (tp + a) = true) by (apply fits_iff; apply fits_iff in Hf3; lia).
    rewrite (arith_fits _ _ Hf4), !bind_ok, (cast_fits _ _ Hf4), Hback, (cast_fits _ _ Hf3). reflexivity. }
  destruct (Z.ltb_spec 0 a) as [Hpos|Hnp].
  - assert (Hf1 : fits O (tmax R - a) = true) by (apply fits_iff; destruct HO as [[E1 E2]|[E1 E2]]; [destruct (HsR E2) as (?&?&?)|rewrite E1, E2 in *; unfits]; lia).
    rewrite Eop, (cast_fits O _ HmaxO), (cast_fits O a ltac:(apply fits_iff; exact Ha)).
    rewrite (arith_fits _ _ Hf1), !bind_ok, (cast_fits _ _ Hf1), Ecmp, bind_ok.
    rewrite (cast_fits O tp HtO), (cast_fits _ _ Hf1).
    destruct (Z.compare_spec tp (tmax R - a)) as [Heq|Hlt|Hgt]; cbn [is_gt orb bind].
    + assert (Hf3 : fits R (tp + a) = true) by (apply fits_iff; lia). rewrite Hf3.
      replace (a <? 0) with false by lia. cbn [bind orb]. apply Fin. exact Hf3.
    + assert (Hf3 : fits R (tp + a) = true) by (apply fits_iff; lia). rewrite Hf3.
      replace (a <? 0) with false by lia. cbn [bind orb]. apply Fin. exact Hf3.
    + replace (fits R (tp + a)) with false; [reflexivity|].
      symmetry. apply Bool.not_true_iff_false. rewrite fits_iff. lia.
  - cbn [bind].
    destruct (Z.ltb_spec a 0) as [Hneg|Hz].
    + destruct (HsR (Hsg Hneg)) as (Hs1 & Hs2 & Hs3).
      assert (Hf1 : fits O (tmin R - a) = true) by (apply fits_iff; lia).
      rewrite Eop, (cast_fits O _ HminO), (cast_fits O a ltac:(apply fits_iff; exact Ha)).
      rewrite (arith_fits _ _ Hf1), !bind_ok, (cast_fits _ _ Hf1), Ecmp, bind_ok.
      rewrite (cast_fits O tp HtO), (cast_fits _ _ Hf1).
      destruct (Z.compare_spec tp (tmin R - a)) as [Heq|Hlt|Hgt]; cbn [is_lt orb bind].
      * assert (Hf3 : fits R (tp + a) = true) by (apply fits_iff; lia). rewrite Hf3. apply Fin. exact Hf3.
      * replace (fits R (tp + a)) with false; [reflexivity|].
        symmetry. apply Bool.not_true_iff_false. rewrite fits_iff. lia.
      * assert (Hf3 : fits R (tp + a) = true) by (apply fits_iff; lia). rewrite Hf3. apply Fin. exact Hf3.
    + assert (a = 0) by lia. subst a. cbn [orb bind].
      assert (Hf3 : fits R (tp + 0) = true) by (rewrite Z.add_0_r; apply fits_iff; exact Ht). rewrite Hf3.
      apply Fin. exact Hf3.
Qed.

(* ------------------------------------------------------------------ completeness form *)

(* if the exact value exists and fits, SafeDurationCast returns it *)
Theorem safe_cast_complete from to c v :
  rep4 (d_rep from) -> rep4 (d_rep to) -> wf_dty from -> wf_dty to ->
  d_num from * d_den to <= 4611686018427387904 -> d_den from * d_num to <= 4611686018427387904 ->
  fits (d_rep from) c = true -> simple_ratio from to ->
  fits (d_rep to) v = true -> exact_cast from to c v -> safe_cast from to c = Ok v.
Proof.
  intros Hsr Htr Hwf Hwt Hbn Hbd Hc Hs Hv Hx.
  pose proof (safe_cast_correct from to c Hsr Htr Hwf Hwt Hbn Hbd Hc Hs) as H.
  unfold cast_spec in H. destruct (safe_cast from to c) as [v'|e|k|]; try contradiction.
  - destruct H as [_ Hx']. unfold exact_cast in *. destruct Hwf, Hwt. f_equal. nia.
  - destruct e; try contradiction. exfalso. exact (H v Hv Hx).
Qed.

(* if no exact value fits, SafeDurationCast reports out_of_range *)
Theorem safe_cast_reject from to c :
  rep4 (d_rep from) -> rep4 (d_rep to) -> wf_dty from -> wf_dty to ->
  d_num from * d_den to <= 4611686018427387904 -> d_den from * d_num to <= 4611686018427387904 ->
  fits (d_rep from) c = true -> simple_ratio from to ->
  (forall v, fits (d_rep to) v = true -> ~ exact_cast from to c v) -> safe_cast from to c = Err OutOfRange.
Proof.
  intros Hsr Htr Hwf Hwt Hbn Hbd Hc Hs Hno.
  pose proof (safe_cast_correct from to c Hsr Htr Hwf Hwt Hbn Hbd Hc Hs) as H.
  unfold cast_spec in H. destruct (safe_cast from to c) as [v'|e|k|]; try contradiction.
  - destruct H as [Hf Hx]. exfalso. exact (Hno v' Hf Hx).
  - destruct e; try contradiction. reflexivity.
Qed.
