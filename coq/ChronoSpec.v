(* ChronoSpec.v — independent specification for C14/C15, written from the calendar rules and the
   documented text formats (docs/bitserializer_convert.md "Date and time conversion"), with no
   reference to how the C++ computes anything.

   1. proleptic Gregorian calendar: leap rule, month lengths, validity, next_day; the day number
      of a date is fixed by  anchor (1970-01-01 is day 0) + successor (next_day adds one);
      days_of_civil is a closed form counted from the leap rule (no eras, no March-based years).
   2. instants: a time point of precision P with count t denotes the instant t * tick_ns P
      nanoseconds after 1970-01-01T00:00:00Z (no leap seconds).
   3. documented lexical forms:  [+-]YYYY-MM-DDThh:mm:ss[(.|,)f{1,9}]Z  and
      [+-]P[nW][nD][T[nH][nM][n[(.|,)f{1,9}]S]]  with their denotations (exact integers of
      nanoseconds, because at most nine fraction digits are allowed). *)
From BS Require Import Base.
Local Open Scope Z_scope.

(* ------------------------------------------------------------------ calendar *)

Definition leap (y : Z) : bool :=
  (y mod 4 =? 0) && (negb (y mod 100 =? 0) || (y mod 400 =? 0)).

(* days in month m of year y *)
Definition dim (y m : Z) : Z :=
  if m =? 2 then (if leap y then 29 else 28)
  else if (m =? 4) || (m =? 6) || (m =? 9) || (m =? 11) then 30 else 31.

Definition date := (Z * Z * Z)%type.

Definition valid_date (dt : date) : Prop :=
  let '(y, m, d) := dt in 1 <= m <= 12 /\ 1 <= d <= dim y m.

Definition valid_dateb (dt : date) : bool :=
  let '(y, m, d) := dt in (1 <=? m) && (m <=? 12) && (1 <=? d) && (d <=? dim y m).

Definition next_day (dt : date) : date :=
  let '(y, m, d) := dt in
  if d <? dim y m then (y, m, d + 1)
  else if m <? 12 then (y, m + 1, 1)
  else (y + 1, 1, 1).

Definition epoch : date := (1970, 1, 1).

(* A day numbering of the calendar: day 0 is the epoch, every day is a valid date, consecutive
   numbers are consecutive dates.  (There is exactly one: calendar_unique in ChronoProofs.) *)
Definition is_calendar (f : Z -> date) : Prop :=
  f 0 = epoch /\ (forall z, valid_date (f z)) /\ (forall z, f (z + 1) = next_day (f z)).

(* closed form, counted from the leap rule: leap years among 1..y-1 (astronomical numbering, floor) *)
Definition leaps_through (p : Z) : Z := p / 4 - p / 100 + p / 400.
Definition days_before_year (y : Z) : Z :=
  365 * (y - 1970) + (leaps_through (y - 1) - leaps_through 1969).
Definition days_before_month (y m : Z) : Z :=
  fold_left Z.add (map (dim y) (filter (fun k => k <? m) [1; 2; 3; 4; 5; 6; 7; 8; 9; 10; 11; 12])) 0.
Definition days_of_civil (dt : date) : Z :=
  let '(y, m, d) := dt in days_before_year y + days_before_month y m + (d - 1).

(* ------------------------------------------------------------------ precisions and instants *)

Inductive prec := Pns | Pus | Pms | Ps | Pmin | Ph | Pd.

(* length of one tick in nanoseconds *)
Definition tick_ns (P : prec) : Z :=
  match P with
  | Pns => 1 | Pus => 1000 | Pms => 1000000 | Ps => 1000000000
  | Pmin => 60000000000 | Ph => 3600000000000 | Pd => 86400000000000
  end.

(* number of fraction digits printed for a precision (0 = no fraction) *)
Definition frac_digits (P : prec) : nat :=
  match P with Pns => 9%nat | Pus => 6%nat | Pms => 3%nat | _ => 0%nat end.

Record datetime := mkDT { dt_y : Z; dt_mo : Z; dt_d : Z; dt_h : Z; dt_mi : Z; dt_s : Z; dt_ns : Z }.

Definition valid_datetime (x : datetime) : Prop :=
  valid_date (dt_y x, dt_mo x, dt_d x) /\ 0 <= dt_h x <= 23 /\ 0 <= dt_mi x <= 59 /\ 0 <= dt_s x <= 59 /\
  0 <= dt_ns x <= 999999999.

(* the instant a date-time denotes, in nanoseconds since the epoch *)
Definition instant_ns (x : datetime) : Z :=
  (days_of_civil (dt_y x, dt_mo x, dt_d x) * 86400 + dt_h x * 3600 + dt_mi x * 60 + dt_s x) * 1000000000 + dt_ns x.

(* ------------------------------------------------------------------ decimal notation *)

(* characters are bytes (N) *)
Definition ch0 : N := 48%N.   (* '0' *)
Definition digit_char (d : Z) : N := (ch0 + Z.to_N d)%N.
Definition is_digit (c : N) : bool := ((48 <=? c) && (c <=? 57))%N.
Definition digit_val (c : N) : Z := Z.of_N c - 48.

(* value of a digit string (Horner) — THE definition of decimal notation used by this spec *)
Definition dec_value (l : list N) : Z := fold_left (fun acc c => acc * 10 + digit_val c) l 0.

(* canonical decimal numeral of 0 <= n < 10^20: successive division by ten, least significant digit
   first, accumulated in reverse (20 steps are enough for every 64-bit value) *)
Fixpoint dec_aux (steps : nat) (n : Z) (acc : list N) : list N :=
  match steps with
  | O => acc
  | S k => let '(q, r) := Z.div_eucl n 10 in
           let acc' := digit_char r :: acc in
           if q =? 0 then acc' else dec_aux k q acc'
  end.
Definition dec (n : Z) : list N := dec_aux 20 n [].

(* zero-padded to at least w characters *)
Definition pad0 (w : nat) (l : list N) : list N := repeat ch0 (w - length l) ++ l.

(* ------------------------------------------------------------------ time point text *)

Definition ch (z : Z) : N := Z.to_N z.
Definition c_plus := 43%N.  Definition c_minus := 45%N.  Definition c_dot := 46%N.  Definition c_comma := 44%N.
Definition c_colon := 58%N. Definition c_T := 84%N. Definition c_Z := 90%N. Definition c_P := 80%N.
Definition c_W := 87%N. Definition c_D := 68%N. Definition c_H := 72%N. Definition c_M := 77%N. Definition c_S := 83%N.
Definition c_Y := 89%N.

(* [±]YYYY : no sign and exactly four digits for 0..9999, '+' and all digits above, '-' and at least
   four digits below zero *)
Definition year_text (y : Z) : list N :=
  if y <? 0 then c_minus :: pad0 4 (dec (- y))
  else if y <=? 9999 then pad0 4 (dec y)
  else c_plus :: dec y.

Definition two (v : Z) : list N := pad0 2 (dec v).

(* fraction digits of a sub-second precision: ns / tick, fixed width *)
Definition frac_text (P : prec) (ns : Z) : list N :=
  match frac_digits P with
  | O => []
  | w => c_dot :: pad0 w (dec (ns / tick_ns P))
  end.

Definition iso_text (P : prec) (x : datetime) : list N :=
  year_text (dt_y x) ++ [c_minus] ++ two (dt_mo x) ++ [c_minus] ++ two (dt_d x) ++ [c_T] ++
  two (dt_h x) ++ [c_colon] ++ two (dt_mi x) ++ [c_colon] ++ two (dt_s x) ++ frac_text P (dt_ns x) ++ [c_Z].

(* ---- the documented input grammar  [+-]Y..Y-MM-DDThh:mm:ss[(.|,)f{1,9}]Z  as a rendering of fields ---- *)

Inductive ysign := YNone | YPlus | YMinus.

Record tp_fields := mkTF {
  tf_sign : ysign;
  tf_year : list N;          (* digit characters *)
  tf_mo : list N; tf_d : list N; tf_h : list N; tf_mi : list N; tf_s : list N;
  tf_frac : option (N * list N)   (* separator character, digit characters *)
}.

Definition all_digits (l : list N) : bool := forallb is_digit l.

Definition tf_render (f : tp_fields) : list N :=
  (match tf_sign f with YNone => [] | YPlus => [c_plus] | YMinus => [c_minus] end) ++ tf_year f ++ [c_minus] ++
  tf_mo f ++ [c_minus] ++ tf_d f ++ [c_T] ++ tf_h f ++ [c_colon] ++ tf_mi f ++ [c_colon] ++ tf_s f ++
  (match tf_frac f with None => [] | Some (sep, ds) => sep :: ds end) ++ [c_Z].

Definition tf_yearv (f : tp_fields) : Z :=
  match tf_sign f with YMinus => - dec_value (tf_year f) | _ => dec_value (tf_year f) end.

(* lexically well formed: field widths, digits only *)
Definition tf_lexical (f : tp_fields) : Prop :=
  all_digits (tf_year f) = true /\
  (match tf_sign f with YNone => length (tf_year f) = 4%nat | _ => (4 <= length (tf_year f))%nat end) /\
  all_digits (tf_mo f) = true /\ length (tf_mo f) = 2%nat /\
  all_digits (tf_d f) = true /\ length (tf_d f) = 2%nat /\
  all_digits (tf_h f) = true /\ length (tf_h f) = 2%nat /\
  all_digits (tf_mi f) = true /\ length (tf_mi f) = 2%nat /\
  all_digits (tf_s f) = true /\ length (tf_s f) = 2%nat /\
  (match tf_frac f with
   | None => True
   | Some (sep, ds) => (sep = c_dot \/ sep = c_comma) /\ all_digits ds = true /\ (1 <= length ds <= 9)%nat
   end).

Definition tf_frac_ns (f : tp_fields) : Z :=
  match tf_frac f with
  | None => 0
  | Some (_, ds) => dec_value ds * 10 ^ (9 - Z.of_nat (length ds))
  end.

Definition tf_datetime (f : tp_fields) : datetime :=
  mkDT (tf_yearv f) (dec_value (tf_mo f)) (dec_value (tf_d f)) (dec_value (tf_h f)) (dec_value (tf_mi f))
       (dec_value (tf_s f)) (tf_frac_ns f).

(* in the grammar = lexically well formed and every field in range (day within the month OF THAT YEAR) *)
Definition tf_wf (f : tp_fields) : Prop := tf_lexical f /\ valid_datetime (tf_datetime f).

Definition tp_grammar (s : list N) : Prop := exists f, tf_wf f /\ s = tf_render f.

(* the instant denoted by a text of the grammar, in nanoseconds *)
Definition tp_denotes (s : list N) (ns : Z) : Prop :=
  exists f, tf_wf f /\ s = tf_render f /\ ns = instant_ns (tf_datetime f).

(* ---- rounding of the sub-second part to a precision: only fractions of a second may be rounded;
        the whole seconds must be representable exactly ---- *)

(* round-half-even of a / b for b > 0 *)
Definition round_half_even (a b : Z) : Z :=
  let q := a / b in let r := a mod b in
  if 2 * r <? b then q else if b <? 2 * r then q + 1 else if Z.even q then q else q + 1.

(* the count a text value of [secs] whole seconds and [fns] nanoseconds has in precision P, if exact *)
Definition count_of (P : prec) (secs fns : Z) : option Z :=
  if 1000000000 <=? tick_ns P
  then (if (secs * 1000000000) mod tick_ns P =? 0
        then Some (secs * 1000000000 / tick_ns P + round_half_even fns (tick_ns P)) else None)
  else Some (secs * (1000000000 / tick_ns P) + round_half_even fns (tick_ns P)).

(* ------------------------------------------------------------------ duration text *)

(* [+-]P[nW][nD][T[nH][nM][n[(.|,)f]S]] : optional components, each a digit string *)
Record dur_fields := mkDF {
  df_neg : bool; df_plus : bool;
  df_w : option (list N); df_dd : option (list N);
  df_hh : option (list N); df_mm : option (list N);
  df_ss : option (list N * option (N * list N))
}.

Definition opt_part (o : option (list N)) (suffix : N) : list N :=
  match o with None => [] | Some ds => ds ++ [suffix] end.

Definition df_time_present (f : dur_fields) : bool :=
  match df_hh f, df_mm f, df_ss f with None, None, None => false | _, _, _ => true end.

Definition df_render (f : dur_fields) : list N :=
  (if df_neg f then [c_minus] else if df_plus f then [c_plus] else []) ++ [c_P] ++
  opt_part (df_w f) c_W ++ opt_part (df_dd f) c_D ++
  (if df_time_present f then
     [c_T] ++ opt_part (df_hh f) c_H ++ opt_part (df_mm f) c_M ++
     (match df_ss f with
      | None => []
      | Some (ds, None) => ds ++ [c_S]
      | Some (ds, Some (sep, fs)) => ds ++ [sep] ++ fs ++ [c_S]
      end)
   else []).

Definition opt_digits_ok (o : option (list N)) : Prop :=
  match o with None => True | Some ds => ds <> [] /\ all_digits ds = true end.

Definition df_wf (f : dur_fields) : Prop :=
  (df_neg f = true -> df_plus f = false) /\
  opt_digits_ok (df_w f) /\ opt_digits_ok (df_dd f) /\ opt_digits_ok (df_hh f) /\ opt_digits_ok (df_mm f) /\
  (match df_ss f with
   | None => True
   | Some (ds, fr) => ds <> [] /\ all_digits ds = true /\
       match fr with None => True
       | Some (sep, fs) => (sep = c_dot \/ sep = c_comma) /\ all_digits fs = true /\ (1 <= length fs <= 9)%nat end
   end) /\
  (* at least one component *)
  (df_w f <> None \/ df_dd f <> None \/ df_time_present f = true).

Definition optv (o : option (list N)) : Z := match o with None => 0 | Some ds => dec_value ds end.

(* whole seconds and nanoseconds of the magnitude *)
Definition df_secs (f : dur_fields) : Z :=
  optv (df_w f) * 604800 + optv (df_dd f) * 86400 + optv (df_hh f) * 3600 + optv (df_mm f) * 60 +
  (match df_ss f with None => 0 | Some (ds, _) => dec_value ds end).
Definition df_fns (f : dur_fields) : Z :=
  match df_ss f with
  | Some (_, Some (_, fs)) => dec_value fs * 10 ^ (9 - Z.of_nat (length fs))
  | _ => 0
  end.
Definition df_value_ns (f : dur_fields) : Z :=
  (if df_neg f then -1 else 1) * (df_secs f * 1000000000 + df_fns f).

Definition dur_grammar (s : list N) : Prop := exists f, df_wf f /\ s = df_render f.
Definition dur_denotes (s : list N) (ns : Z) : Prop := exists f, df_wf f /\ s = df_render f /\ ns = df_value_ns f.

(* ------------------------------------------------------------------ MsgPack timestamp (seconds, nanoseconds) *)

(* the timestamp of an instant: floor seconds and a non-negative nanosecond part below 10^9 *)
Definition ts_of_ns (ns : Z) : Z * Z := (ns / 1000000000, ns mod 1000000000).
