(* ChronoSweep.v — the two kernel-evaluated sweeps of the calendar proof (slow to compile, never edited
   together with the reasoning in ChronoCalendar.v): every day of one 400-year era, and every
   (y mod 400, m, d) triple. *)
From BS Require Import Base ChronoSpec ChronoModel.
Local Open Scope Z_scope.

Definition shift (k : Z) (dt : date) : date := let '(y, m, d) := dt in (y + k, m, d).

Definition date_eqb (a b : date) : bool :=
  let '(y, m, d) := a in let '(y', m', d') := b in (y =? y') && (m =? m') && (d =? d').

(* civil_from_z with the era made explicit *)
Definition civil_core (era doe : Z) : date :=
  let yoe := Z.quot (doe - Z.quot doe 1460 + Z.quot doe 36524 - Z.quot doe 146096) 365 in
  let y := yoe + era * 400 in
  let doy := doe - (365 * yoe + Z.quot yoe 4 - Z.quot yoe 100) in
  let mp := Z.quot (5 * doy + 2) 153 in
  let d := doy - Z.quot (153 * mp + 2) 5 + 1 in
  let m := if mp <? 10 then mp + 3 else mp - 9 in
  (y + (if m <=? 2 then 1 else 0), m, d).

(* ---------- sweep 1: every day of one era (incl. the step into the next era) ---------- *)

Definition era_check (n : N) : bool :=
  let z := Z.of_N n in
  if z <? 146097 then
    let dt := civil_core 0 z in
    valid_dateb dt &&
    (let '(y, m, d) := dt in days_from_civil y m d + 719468 =? z) &&
    (if z <? 146096 then date_eqb (civil_core 0 (z + 1)) (next_day dt)
     else date_eqb (shift 400 (civil_core 0 0)) (next_day dt))
  else true.

Lemma era_sweep : all_below 18 era_check = true.
Proof. vm_compute. reflexivity. Qed.

(* ---------- sweep 2: every (y mod 400, m, d) ---------- *)

Definition triple_check (n : N) : bool :=
  let k := Z.of_N n in
  let y := k / 372 in let m := (k mod 372) / 31 + 1 in let d := k mod 31 + 1 in
  if (y <? 400) && valid_dateb (y, m, d) then
    date_eqb (civil_from_days (days_from_civil y m d)) (y, m, d) &&
    (days_from_civil y m d =? days_of_civil (y, m, d))
  else true.

Lemma triple_sweep : all_below 18 triple_check = true.
Proof. vm_compute. reflexivity. Qed.

