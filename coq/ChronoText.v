(* ChronoText.v — the text level of time points: PrintSecondsFractions / PrintIsoUtc produce the
   documented ISO form inside the 32-byte buffer, and ParseIsoUtc reads back what PrintIsoUtc wrote. *)
From BS Require Import Base ChronoSpec ChronoModel ChronoArith ChronoDecimal ChronoSafe.
From Coq Require Import ZifyBool ZifyN ZifyNat.
Local Open Scope Z_scope.
Ltac Zify.zify_post_hook ::= Z.to_euclidean_division_equations.

(* ---------- PrintSecondsFractions: the fixed-width digit loop ---------- *)

Fixpoint pows (k : nat) : list Z := match k with O => [] | S k' => p10 k' :: pows k' end.

Lemma frac_divs_pows : frac_divs = pows 9.
Proof. reflexivity. Qed.

Lemma digit_byte n : 0 <= n <= 9 -> Z.to_N (cast U32 (cast I8 n + 48) mod 256) = digit_char n.
Proof.
  intros H. rewrite (cast_fits I8 n) by (apply fits_I8; lia).
  rewrite (cast_fits U32 (n + 48)) by (apply fits_U32; lia).
  unfold digit_char, ch0. lia.
Qed.

Lemma psf_fixed k : forall val pos content den,
  (k = O \/ p10 (k - 1) < den) -> 0 <= val < p10 k -> 0 <= pos -> pos + Z.of_nat k <= 31 ->
  exists ds, psf_loop (pows k) den true pos content val = Ok (Some (pos + Z.of_nat k, content ++ ds)) /\
             all_digits ds = true /\ length ds = k /\ dec_value ds = val.
Proof.
  induction k as [|k IH]; intros val pos content den Hden Hval Hpos Hfit.
  - exists []. cbn [pows psf_loop]. rewrite app_nil_r, Z.add_0_r. repeat split; try reflexivity.
    rewrite p10_0 in Hval. rewrite dec_value_nil. lia.
  - cbn [pows psf_loop].
    replace (pos =? BufSize) with false by (unfold BufSize; lia).
    assert (Hd : p10 k < den) by (destruct Hden as [?|H]; [lia|]; replace (S k - 1)%nat with k in H by lia; exact H).
    replace (p10 k <? den) with true by lia.
    pose proof (p10_pos k) as Hp. rewrite p10_S in Hval.
    rewrite Z.quot_div_nonneg by lia.
    set (n := val / p10 k).
    assert (Hn : 0 <= n <= 9).
    { unfold n. split; [apply Z.div_pos; lia|]. apply Z.lt_succ_r. apply Z.div_lt_upper_bound; lia. }
    rewrite (digit_byte n Hn). unfold put. replace ((0 <=? pos) && (pos <? BufSize)) with true by (unfold BufSize; lia).
    cbn [bind negb andb].
    assert (Hv' : 0 <= val - n * p10 k < p10 k).
    { unfold n. pose proof (Z.div_mod val (p10 k) ltac:(lia)). pose proof (Z.mod_pos_bound val (p10 k) Hp). nia. }
    destruct (IH (val - n * p10 k) (pos + 1) (content ++ [digit_char n]) den) as (ds & E & Hds & Hl & Hv); try lia.
    { destruct k; [left; reflexivity | right]. replace (S k - 1)%nat with k by lia.
      pose proof (p10_mono k (S k) ltac:(lia)). lia. }
    exists (digit_char n :: ds). rewrite E. split.
    { f_equal. f_equal. f_equal; [lia | rewrite <- app_assoc; reflexivity]. }
    destruct (digit_char_ok n Hn) as [Hd1 Hd2].
    split; [rewrite all_digits_cons, Hd1, Hds; reflexivity|].
    split; [cbn [length]; lia|].
    rewrite dec_value_cons, Hd2, Hl, Hv. lia.
Qed.

Lemma psf_skip j : forall k den fw pos content val, den <= p10 k -> pos <> BufSize ->
  psf_loop (pows (j + k)) den fw pos content val = psf_loop (pows k) den fw pos content val.
Proof.
  induction j as [|j IH]; intros k den fw pos content val Hden Hpos; [reflexivity|].
  cbn [Nat.add pows psf_loop].
  replace (pos =? BufSize) with false by lia.
  pose proof (p10_mono k (j + k) ltac:(lia)).
  replace (p10 (j + k) <? den) with false by lia.
  apply IH; assumption.
Qed.

Definition frac_width (w : nat) : Prop := w = 3%nat \/ w = 6%nat \/ w = 9%nat.

Lemma psf_print w pos content cnt : frac_width w -> 0 <= cnt < p10 w -> 0 <= pos -> pos + 1 + Z.of_nat w <= 31 ->
  print_sec_fractions pos content I64 (p10 w) cnt true =
  Ok (Some (pos + 1 + Z.of_nat w, content ++ [c_dot] ++ pad0 w (dec cnt))).
Proof.
  intros Hw Hc Hpos Hfit. unfold print_sec_fractions.
  replace (p10 w <=? cnt) with false by lia.
  replace (pos =? BufSize) with false by (unfold BufSize; lia).
  unfold put. replace ((0 <=? pos) && (pos <? BufSize)) with true by (unfold BufSize; lia).
  cbn [bind promote]. rewrite Z.abs_eq by lia.
  assert (Hw20 : p10 w <= p10 9) by (apply p10_mono; destruct Hw as [?|[?|?]]; lia).
  change (p10 9) with 1000000000 in Hw20.
  rewrite arith_fits by (apply fits_I64; lia). rewrite bind_ok.
  rewrite frac_divs_pows. replace 9%nat with ((9 - w) + w)%nat by (destruct Hw as [?|[?|?]]; lia).
  rewrite psf_skip by (unfold BufSize; lia).
  destruct (psf_fixed w cnt (pos + 1) (content ++ [c_dot]) (p10 w)) as (ds & E & Hds & Hl & Hv); try lia.
  { right. pose proof (p10_S (w - 1)). replace (S (w - 1)) with w in * by (destruct Hw as [?|[?|?]]; lia).
    pose proof (p10_pos (w - 1)). lia. }
  rewrite E.
  assert (Eds : ds = pad0 w (dec cnt)).
  { destruct (padded_numeral w cnt Hc ltac:(destruct Hw as [?|[?|?]]; lia)) as (Pd & Pv & Pl).
    apply numeral_unique; congruence. }
  rewrite Eds, <- app_assoc. reflexivity.
Qed.

(* ---------- PrintIsoUtc ---------- *)

Lemma two_spec v : 0 <= v <= 99 -> fmt_int 2 v = two v /\ length (two v) = 2%nat /\ all_digits (two v) = true /\ dec_value (two v) = v.
Proof.
  intros Hv. unfold fmt_int, two. replace (v <? 0) with false by lia.
  destruct (padded_numeral 2 v) as (A & B & C); [change (p10 2) with 100; lia | lia |]. auto.
Qed.

(* the year as printed by  ('+' if >= 10000) ++ snprintf "%04ld" *)
Definition year_printed (y : Z) : list N := (if 10000 <=? y then [c_plus] else []) ++ fmt_int 4 y.

Lemma year_printed_spec y : - p10 18 < y < p10 18 -> (y <= -1000 \/ 0 <= y) -> year_printed y = year_text y.
Proof.
  intros Hy Hc. unfold year_printed, year_text, fmt_int.
  destruct (Z.ltb_spec y 0) as [Hneg|Hnn].
  - replace (10000 <=? y) with false by lia. cbn [app]. f_equal.
    assert (Hl : (3 < length (dec (- y)))%nat) by (apply dec_length_ge; change (p10 3) with 1000; pose proof (p10_mono 18 20 ltac:(lia)); lia).
    rewrite !pad0_noop by lia. reflexivity.
  - destruct (Z.leb_spec 10000 y) as [Hbig|Hsmall].
    + replace (y <=? 9999) with false by lia. cbn [app]. f_equal.
      assert (Hl : (4 < length (dec y))%nat) by (apply dec_length_ge; change (p10 4) with 10000; pose proof (p10_mono 18 20 ltac:(lia)); lia).
      rewrite pad0_noop by lia. reflexivity.
    + replace (y <=? 9999) with true by lia. reflexivity.
Qed.

(* length of the printed year: at most one sign and k digits when |y| < 10^k (k >= 4) *)
Lemma year_printed_length y k : - p10 k < y < p10 k -> (4 <= k <= 18)%nat -> (length (year_printed y) <= S k)%nat.
Proof.
  intros Hy Hk. unfold year_printed, fmt_int.
  assert (H20 : p10 k <= p10 18) by (apply p10_mono; lia).
  destruct (Z.ltb_spec y 0) as [Hneg|Hnn].
  - replace (10000 <=? y) with false by lia. cbn [app length]. rewrite pad0_length.
    pose proof (dec_length_le (- y) k ltac:(lia) ltac:(lia)). lia.
  - rewrite app_length, pad0_length. pose proof (dec_length_le y k ltac:(lia) ltac:(lia)).
    destruct (10000 <=? y) eqn:E; cbn [length]; [|lia].
    assert (k >= 5)%nat.
    { destruct (Nat.le_gt_cases 5 k); [lia|]. assert (k = 4%nat) by lia. subst k. change (p10 4) with 10000 in Hy. lia. }
    lia.
Qed.

Lemma date_body_length y mo d h mi s : 0 <= mo <= 99 -> 0 <= d <= 99 -> 0 <= h <= 99 -> 0 <= mi <= 99 -> 0 <= s <= 99 ->
  length (date_body y mo d h mi s) = (length (fmt_int 4 y) + 15)%nat.
Proof.
  intros. unfold date_body. rewrite !app_length.
  destruct (two_spec mo) as (E1 & L1 & _); [lia|]. destruct (two_spec d) as (E2 & L2 & _); [lia|].
  destruct (two_spec h) as (E3 & L3 & _); [lia|]. destruct (two_spec mi) as (E4 & L4 & _); [lia|].
  destruct (two_spec s) as (E5 & L5 & _); [lia|].
  rewrite E1, E2, E3, E4, E5, L1, L2, L3, L4, L5. cbn [length]. lia.
Qed.

Definition printed_text (y mo d h mi s : Z) (fr : option (nat * Z)) : list N :=
  year_printed y ++ [c_minus] ++ two mo ++ [c_minus] ++ two d ++ [c_T] ++ two h ++ [c_colon] ++ two mi ++ [c_colon] ++ two s ++
  (match fr with None => [] | Some (w, cnt) => c_dot :: pad0 w (dec cnt) end) ++ [c_Z].

(* PrintIsoUtc succeeds inside the buffer whenever sign + year digits + 15 (+ fraction) + 'Z' <= 32 *)
Lemma print_iso_utc_ok y mo d h mi s (fr : option (nat * Z)) :
  0 <= mo <= 99 -> 0 <= d <= 99 -> 0 <= h <= 99 -> 0 <= mi <= 99 -> 0 <= s <= 99 ->
  (match fr with
   | None => (length (year_printed y) + 15 <= 31)%nat
   | Some (w, cnt) => frac_width w /\ 0 <= cnt < p10 w /\ (length (year_printed y) + 15 + 1 + w <= 31)%nat
   end) ->
  print_iso_utc y mo d h mi s (match fr with None => None | Some (w, cnt) => Some (I64, p10 w, cnt) end)
  = Ok (printed_text y mo d h mi s fr).
Proof.
  intros Hmo Hd Hh Hmi Hs Hfit. unfold print_iso_utc.
  set (pre := if 10000 <=? y then [c_plus] else []).
  set (body := date_body y mo d h mi s).
  assert (Hlen : (length (pre ++ body) = length (year_printed y) + 15)%nat).
  { rewrite app_length. unfold body. rewrite date_body_length by assumption.
    unfold year_printed. fold pre. rewrite app_length. lia. }
  assert (Hpos1 : Z.of_nat (length pre) + Z.of_nat (length body) = Z.of_nat (length (pre ++ body))) by (rewrite app_length; lia).
  rewrite Hpos1.
  assert (Htxt : pre ++ body = year_printed y ++ [c_minus] ++ two mo ++ [c_minus] ++ two d ++ [c_T] ++ two h ++ [c_colon] ++ two mi ++ [c_colon] ++ two s).
  { unfold body, date_body, year_printed. fold pre.
    destruct (two_spec mo) as (E1 & _); [lia|]. destruct (two_spec d) as (E2 & _); [lia|].
    destruct (two_spec h) as (E3 & _); [lia|]. destruct (two_spec mi) as (E4 & _); [lia|].
    destruct (two_spec s) as (E5 & _); [lia|].
    rewrite E1, E2, E3, E4, E5, <- !app_assoc. reflexivity. }
  destruct fr as [[w cnt]|].
  - destruct Hfit as (Hw & Hc & Hl).
    rewrite psf_print by (try assumption; lia). rewrite bind_ok.
    replace (Z.of_nat (length (pre ++ body)) + 1 + Z.of_nat w =? BufSize) with false by (unfold BufSize; lia).
    unfold put. replace ((0 <=? _) && (_ <? BufSize)) with true by (unfold BufSize; lia).
    cbn [bind snd]. unfold printed_text. rewrite Htxt, <- !app_assoc. reflexivity.
  - rewrite bind_ok.
    replace (Z.of_nat (length (pre ++ body)) =? BufSize) with false by (unfold BufSize; lia).
    unfold put. replace ((0 <=? _) && (_ <? BufSize)) with true by (unfold BufSize; lia).
    cbn [bind snd]. unfold printed_text. rewrite Htxt, <- !app_assoc. reflexivity.
Qed.

(* ---------- ParseIsoUtc on the printed form ---------- *)

Lemma hd_digit ds rest : all_digits ds = true -> ds <> [] -> exists c t, ds ++ rest = c :: t /\ is_digit c = true.
Proof.
  intros Hd Hne. destruct ds as [|c ds]; [congruence|]. exists c, (ds ++ rest). split; [reflexivity|].
  rewrite all_digits_cons in Hd. apply andb_true_iff in Hd. tauto.
Qed.

Lemma parse_part_field ds dl rest mn mx :
  all_digits ds = true -> ds <> [] -> is_digit dl = false -> fits I32 (dec_value ds) = true ->
  mn <= dec_value ds <= mx ->
  parse_part I32 (ds ++ dl :: rest) (Some mn) (Some mx) (Some dl) false = Ok (dec_value ds, rest).
Proof.
  intros Hd Hne Hdl Hf Hr. unfold parse_part.
  destruct (hd_digit ds (dl :: rest) Hd Hne) as (c & t & E & Hc). rewrite E, Hc. cbn [orb andb]. rewrite <- E.
  rewrite from_chars_numeral by (try assumption; exact Hdl). rewrite Hf.
  replace (dec_value ds <? mn) with false by lia. replace (mx <? dec_value ds) with false by lia. cbn [orb].
  rewrite N.eqb_refl. reflexivity.
Qed.

Lemma parse_part_last ds rest mn mx :
  all_digits ds = true -> ds <> [] -> no_digit_head rest -> fits I32 (dec_value ds) = true ->
  mn <= dec_value ds <= mx ->
  parse_part I32 (ds ++ rest) (Some mn) (Some mx) None false = Ok (dec_value ds, rest).
Proof.
  intros Hd Hne Hdl Hf Hr. unfold parse_part.
  destruct (hd_digit ds rest Hd Hne) as (c & t & E & Hc). rewrite E, Hc. cbn [orb andb]. rewrite <- E.
  rewrite from_chars_numeral by assumption. rewrite Hf.
  replace (dec_value ds <? mn) with false by lia. replace (mx <? dec_value ds) with false by lia. reflexivity.
Qed.

Lemma parse_part_year y rest : fits I64 y = true -> - p10 18 < y < p10 18 ->
  parse_part I64 (year_printed y ++ c_minus :: rest) None None (Some c_minus) true = Ok (y, rest).
Proof.
  intros Hf Hy. unfold year_printed, fmt_int, parse_part.
  assert (H20 : p10 18 <= p10 20) by (apply p10_mono; lia).
  assert (Hnd : no_digit_head (c_minus :: rest)) by reflexivity.
  destruct (Z.ltb_spec y 0) as [Hneg|Hnn].
  - replace (10000 <=? y) with false by lia. cbn [app orb andb].
    replace (c_minus =? c_plus)%N with false by reflexivity. rewrite orb_true_r.
    destruct (dec_spec (- y) ltac:(lia)) as (Hd & Hv & _).
    rewrite from_chars_minus; [| reflexivity | apply pad0_digits; exact Hd | apply pad0_nonempty, dec_nonempty; lia | exact Hnd].
    rewrite pad0_value, Hv, Z.opp_involutive, Hf. rewrite N.eqb_refl. reflexivity.
  - destruct (dec_spec y ltac:(lia)) as (Hd & Hv & _).
    destruct (Z.leb_spec 10000 y) as [Hbig|Hsmall].
    + cbn [app]. rewrite orb_true_r. rewrite N.eqb_refl. cbn [andb].
      rewrite from_chars_numeral; [| apply pad0_digits; exact Hd | apply pad0_nonempty, dec_nonempty; lia | exact Hnd].
      rewrite pad0_value, Hv, Hf. rewrite N.eqb_refl. reflexivity.
    + cbn [app].
      destruct (hd_digit (pad0 4 (dec y)) (c_minus :: rest)) as (c & t & E & Hc);
        [apply pad0_digits; exact Hd | apply pad0_nonempty, dec_nonempty; lia |].
      rewrite E, Hc. cbn [orb].
      replace (c =? c_plus)%N with false by (unfold is_digit, c_plus in *; lia). cbn [andb]. rewrite <- E.
      rewrite from_chars_numeral; [| apply pad0_digits; exact Hd | apply pad0_nonempty, dec_nonempty; lia | exact Hnd].
      rewrite pad0_value, Hv, Hf. rewrite N.eqb_refl. reflexivity.
Qed.

Lemma two_nonempty v : 0 <= v <= 99 -> two v <> [].
Proof. intros H. destruct (two_spec v H) as (_ & L & _). destruct (two v); [cbn in L; lia | discriminate]. Qed.

Theorem parse_printed y mo d h mi s (fr : option (nat * Z)) :
  fits I64 y = true -> - p10 18 < y < p10 18 ->
  1 <= mo <= 12 -> 1 <= d <= DaysInMonth mo -> 0 <= h <= 23 -> 0 <= mi <= 59 -> 0 <= s <= 59 ->
  (match fr with None => True | Some (w, cnt) => frac_width w /\ 0 <= cnt < p10 w end) ->
  parse_iso_utc (printed_text y mo d h mi s fr) =
  Ok (mkUtc y mo d h mi s (match fr with None => None | Some (w, cnt) => Some (cnt * 10 ^ (9 - Z.of_nat w)) end)).
Proof.
  intros Hfy Hy Hmo Hd Hh Hmi Hs Hfr.
  assert (Hdm : DaysInMonth mo <= 31) by (unfold DaysInMonth; repeat match goal with |- context [match ?x with _ => _ end] => destruct x end; lia).
  destruct (two_spec mo ltac:(lia)) as (_ & _ & D1 & V1). destruct (two_spec d ltac:(lia)) as (_ & _ & D2 & V2).
  destruct (two_spec h ltac:(lia)) as (_ & _ & D3 & V3). destruct (two_spec mi ltac:(lia)) as (_ & _ & D4 & V4).
  destruct (two_spec s ltac:(lia)) as (_ & _ & D5 & V5).
  unfold parse_iso_utc, printed_text. cbn [app].
  rewrite parse_part_year by assumption. rewrite bind_ok.
  rewrite (parse_part_field (two mo)); [| exact D1 | apply two_nonempty; lia | reflexivity | rewrite V1; apply fits_I32; lia | rewrite V1; lia].
  rewrite bind_ok, V1.
  rewrite (parse_part_field (two d)); [| exact D2 | apply two_nonempty; lia | reflexivity | rewrite V2; apply fits_I32; lia | rewrite V2; lia].
  rewrite bind_ok, V2.
  rewrite (parse_part_field (two h)); [| exact D3 | apply two_nonempty; lia | reflexivity | rewrite V3; apply fits_I32; lia | rewrite V3; lia].
  rewrite bind_ok, V3.
  rewrite (parse_part_field (two mi)); [| exact D4 | apply two_nonempty; lia | reflexivity | rewrite V4; apply fits_I32; lia | rewrite V4; lia].
  rewrite bind_ok, V4.
  destruct fr as [[w cnt]|].
  - destruct Hfr as [Hw Hc].
    rewrite (parse_part_last (two s)); [| exact D5 | apply two_nonempty; lia | reflexivity | rewrite V5; apply fits_I32; lia | rewrite V5; lia].
    rewrite bind_ok, V5. cbn [app].
    replace ((c_dot =? c_dot)%N) with true by reflexivity. cbn [orb].
    destruct (padded_numeral w cnt Hc ltac:(destruct Hw as [?|[?|?]]; lia)) as (Pd & Pv & Pl).
    rewrite (fraction_exact (pad0 w (dec cnt)) [c_Z]); [| exact Pd | reflexivity | rewrite Pl; destruct Hw as [?|[?|?]]; lia].
    rewrite bind_ok, Pv, Pl. reflexivity.
  - rewrite (parse_part_last (two s)); [| exact D5 | apply two_nonempty; lia | reflexivity | rewrite V5; apply fits_I32; lia | rewrite V5; lia].
    rewrite bind_ok, V5. reflexivity.
Qed.
