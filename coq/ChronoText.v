(* ChronoText.v — the text level of time points: PrintSecondsFractions / PrintIsoUtc produce the
   documented ISO form inside the 32-byte buffer, and ParseIsoUtc reads back what PrintIsoUtc wrote. *)
From BS Require Import Base ChronoSpec ChronoModel ChronoArith ChronoDecimal ChronoSafe.
From Coq Require Import ZifyBool ZifyN ZifyNat.
Local Open Scope Z_scope.
Ltac Zify.zify_post_hook ::= Z.to_euclidean_division_equations.

(* ---------- PrintSecondsFractions: the fixed-width digit loop ---------- *)

Fixpoint pows (k : nat) : list Z := match k with O => [] | S k' => p10 k' :: pows k' end.

Lemma frac_divs_pows : frac_divs = pows 9.
Proof. reflexivity. Qed.

Lemma digit_byte n : 0 <= n <= 9 -> Z.to_N (cast U32 (cast I8 n + 48) mod 256) = digit_char n.
Proof.
  intros H. rewrite (cast_fits I8 n) by (apply fits_I8; lia).
  rewrite (cast_fits U32 (n + 48)) by (apply fits_U32; lia).
  unfold digit_char, ch0. lia.
Qed.

Lemma psf_fixed k : forall val pos content den,
  (k = O \/ p10 (k - 1) < den) -> 0 <= val < p10 k -> 0 <= pos -> pos + Z.of_nat k <= 47 ->
  exists ds, psf_loop (pows k) den true pos content val = Ok (Some (pos + Z.of_nat k, content ++ ds)) /\
             all_digits ds = true /\ length ds = k /\ dec_value ds = val.
Proof.
  induction k as [|k IH]; intros val pos content den Hden Hval Hpos Hfit.
  - exists []. cbn [pows psf_loop]. rewrite app_nil_r, Z.add_0_r. repeat split; try reflexivity.
    rewrite p10_0 in Hval. rewrite dec_value_nil. lia.
  - cbn [pows psf_loop].
    replace (pos =? BufSize) with false by (unfold BufSize; lia).
    assert (Hd : p10 k < den) by (destruct Hden as [?|H]; [lia|]; replace (S k - 1)%nat with k in H by lia; exact H).
    replace (p10 k <? den) with true by lia.
    pose proof (p10_pos k) as Hp. rewrite p10_S in Hval.
    rewrite Z.quot_div_nonneg by lia.
    set (n := val / p10 k).
    assert (Hn : 0 <= n <= 9).
    { unfold n. split; [apply Z.div_pos; lia|]. apply Z.lt_succ_r. apply Z.div_lt_upper_bound; lia. }
    rewrite (digit_byte n Hn). unfold put. replace ((0 <=? pos) && (pos <? BufSize)) with true by (unfold BufSize; lia).
    cbn [bind negb andb].
    assert (Hv' : 0 <= val - n * p10 k < p10 k).
    { unfold n. pose proof (Z.div_mod val (p10 k) ltac:(lia)). pose proof (Z.mod_pos_bound val (p10 k) Hp). nia. }
    destruct (IH (val - n * p10 k) (pos + 1) (content ++ [digit_char n]) den) as (ds & E & Hds & Hl & Hv); try lia.
    { destruct k; [left; reflexivity | right]. replace (S k - 1)%nat with k by lia.
      pose proof (p10_mono k (S k) ltac:(lia)). lia. }
    exists (digit_char n :: ds). rewrite E. split.
    { f_equal. f_equal. f_equal; [lia | rewrite <- app_assoc; reflexivity]. }
    destruct (digit_char_ok n Hn) as [Hd1 Hd2].
    split; [rewrite all_digits_cons, Hd1, Hds; reflexivity|].
    split; [cbn [length]; lia|].
    rewrite dec_value_cons, Hd2, Hl, Hv. lia.
Qed.

Lemma psf_skip j : forall k den fw pos content val, den <= p10 k -> pos <> BufSize ->
  psf_loop (pows (j + k)) den fw pos content val = psf_loop (pows k) den fw pos content val.
Proof.
  induction j as [|j IH]; intros k den fw pos content val Hden Hpos; [reflexivity|].
  cbn [Nat.add pows psf_loop].
  replace (pos =? BufSize) with false by lia.
  pose proof (p10_mono k (j + k) ltac:(lia)).
  replace (p10 (j + k) <? den) with false by lia.
  apply IH; assumption.
Qed.

Definition frac_width (w : nat) : Prop := w = 3%nat \/ w = 6%nat \/ w = 9%nat.

Lemma psf_print w pos content cnt : frac_width w -> 0 <= cnt < p10 w -> 0 <= pos -> pos + 1 + Z.of_nat w <= 47 ->
  print_sec_fractions pos content I64 (p10 w) cnt true =
  Ok (Some (pos + 1 + Z.of_nat w, content ++ [c_dot] ++ pad0 w (dec cnt))).
Proof.
  intros Hw Hc Hpos Hfit. unfold print_sec_fractions.
  replace (p10 w <=? cnt) with false by lia.
  replace (pos =? BufSize) with false by (unfold BufSize; lia).
  unfold put. replace ((0 <=? pos) && (pos <? BufSize)) with true by (unfold BufSize; lia).
  cbn [bind promote]. rewrite Z.abs_eq by lia.
  assert (Hw20 : p10 w <= p10 9) by (apply p10_mono; destruct Hw as [?|[?|?]]; lia).
  change (p10 9) with 1000000000 in Hw20.
  rewrite arith_fits by (apply fits_I64; lia). rewrite bind_ok.
  rewrite frac_divs_pows. replace 9%nat with ((9 - w) + w)%nat by (destruct Hw as [?|[?|?]]; lia).
  rewrite psf_skip by (unfold BufSize; lia).
  destruct (psf_fixed w cnt (pos + 1) (content ++ [c_dot]) (p10 w)) as (ds & E & Hds & Hl & Hv); try lia.
  { right. pose proof (p10_S (w - 1)). replace (S (w - 1)) with w in * by (destruct Hw as [?|[?|?]]; lia).
    pose proof (p10_pos (w - 1)). lia. }
  rewrite E.
  assert (Eds : ds = pad0 w (dec cnt)).
  { destruct (padded_numeral w cnt Hc ltac:(destruct Hw as [?|[?|?]]; lia)) as (Pd & Pv & Pl).
    apply numeral_unique; congruence. }
  rewrite Eds, <- app_assoc. reflexivity.
Qed.

(* ---------- PrintIsoUtc ---------- *)

Lemma two_spec v : 0 <= v <= 99 -> fmt_int 2 v = two v /\ length (two v) = 2%nat /\ all_digits (two v) = true /\ dec_value (two v) = v.
Proof.
  intros Hv. unfold fmt_int, two. replace (v <? 0) with false by lia.
  destruct (padded_numeral 2 v) as (A & B & C); [change (p10 2) with 100; lia | lia |]. auto.
Qed.

(* the year as PrintIsoUtc writes it: '+' from 10000, '-' below zero, the magnitude with %04 *)
Definition year_printed (y : Z) : list N :=
  (if 10000 <=? y then [c_plus] else if y <? 0 then [c_minus] else []) ++
  pad0 4 (dec (if y <? 0 then cast U64 (0 - cast U64 y) else cast U64 y)).

Lemma abs_year y : fits I64 y = true -> (if y <? 0 then cast U64 (0 - cast U64 y) else cast U64 y) = Z.abs y.
Proof.
  intros Hy. apply fits_I64 in Hy. destruct (Z.ltb_spec y 0).
  - pose proof (cast_range U64 y) as R1. pose proof (cast_mod U64 y) as M1.
    set (u := cast U64 y) in *. clearbody u.
    pose proof (cast_range U64 (0 - u)) as R2. pose proof (cast_mod U64 (0 - u)) as M2.
    set (w := cast U64 (0 - u)) in *. clearbody w.
    unfold fits, tmin, tmax, half, modulus in *. cbn [is_signed] in *. lia.
  - rewrite cast_fits by (apply fits_U64; lia). lia.
Qed.

Lemma year_printed_spec y : fits I64 y = true -> year_printed y = year_text y.
Proof.
  intros Hy. unfold year_printed, year_text. rewrite (abs_year y Hy). apply fits_I64 in Hy.
  destruct (Z.ltb_spec y 0) as [Hneg|Hnn].
  - replace (10000 <=? y) with false by lia. rewrite Z.abs_neq by lia. reflexivity.
  - rewrite Z.abs_eq by lia. destruct (Z.leb_spec 10000 y) as [Hbig|Hsmall].
    + replace (y <=? 9999) with false by lia. cbn [app]. f_equal.
      assert (Hl : (4 < length (dec y))%nat).
      { apply dec_length_ge. change (p10 4) with 10000. change (p10 20) with 100000000000000000000. lia. }
      rewrite pad0_noop by lia. reflexivity.
    + replace (y <=? 9999) with true by lia. reflexivity.
Qed.

(* length of the year text: at most one sign and k digits when |y| < 10^k (k >= 4) *)
Lemma year_text_length y k : - p10 k < y < p10 k -> (4 <= k <= 18)%nat -> (length (year_text y) <= S k)%nat.
Proof.
  intros Hy Hk. unfold year_text.
  assert (H20 : p10 k <= p10 18) by (apply p10_mono; lia).
  destruct (Z.ltb_spec y 0) as [Hneg|Hnn].
  - cbn [length]. rewrite pad0_length.
    pose proof (dec_length_le (- y) k ltac:(lia) ltac:(lia)). lia.
  - pose proof (dec_length_le y k ltac:(lia) ltac:(lia)).
    destruct (y <=? 9999) eqn:E; [rewrite pad0_length; lia | cbn [length]; lia].
Qed.

Definition printed_text (y mo d h mi s : Z) (fr : option (nat * Z)) : list N :=
  year_text y ++ [c_minus] ++ two mo ++ [c_minus] ++ two d ++ [c_T] ++ two h ++ [c_colon] ++ two mi ++ [c_colon] ++ two s ++
  (match fr with None => [] | Some (w, cnt) => c_dot :: pad0 w (dec cnt) end) ++ [c_Z].

(* PrintIsoUtc succeeds inside the buffer whenever sign + year digits + 15 (+ fraction) + 'Z' <= 48 *)
Lemma print_iso_utc_ok y mo d h mi s (fr : option (nat * Z)) : fits I64 y = true ->
  0 <= mo <= 99 -> 0 <= d <= 99 -> 0 <= h <= 99 -> 0 <= mi <= 99 -> 0 <= s <= 99 ->
  (match fr with
   | None => (length (year_text y) + 15 <= 47)%nat
   | Some (w, cnt) => frac_width w /\ 0 <= cnt < p10 w /\ (length (year_text y) + 15 + 1 + w <= 47)%nat
   end) ->
  print_iso_utc y mo d h mi s (match fr with None => None | Some (w, cnt) => Some (I64, p10 w, cnt) end)
  = Ok (printed_text y mo d h mi s fr).
Proof.
  intros Hy Hmo Hd Hh Hmi Hs Hfit. unfold print_iso_utc.
  set (pre := if 10000 <=? y then [c_plus] else if y <? 0 then [c_minus] else []).
  set (yd := pad0 4 (dec (if y <? 0 then cast U64 (0 - cast U64 y) else cast U64 y))).
  assert (Hyt : pre ++ yd = year_text y) by (rewrite <- (year_printed_spec y Hy); reflexivity).
  destruct (two_spec mo ltac:(lia)) as (E1 & L1 & _). destruct (two_spec d ltac:(lia)) as (E2 & L2 & _).
  destruct (two_spec h ltac:(lia)) as (E3 & L3 & _). destruct (two_spec mi ltac:(lia)) as (E4 & L4 & _).
  destruct (two_spec s ltac:(lia)) as (E5 & L5 & _).
  rewrite E1, E2, E3, E4, E5.
  set (body := yd ++ [c_minus] ++ two mo ++ [c_minus] ++ two d ++ [c_T] ++ two h ++ [c_colon] ++ two mi ++ [c_colon] ++ two s).
  assert (Htxt : pre ++ body = year_text y ++ [c_minus] ++ two mo ++ [c_minus] ++ two d ++ [c_T] ++ two h ++ [c_colon] ++ two mi ++ [c_colon] ++ two s).
  { unfold body. rewrite app_assoc, Hyt. reflexivity. }
  assert (Hlen : (length (pre ++ body) = length (year_text y) + 15)%nat).
  { rewrite Htxt, !app_length, L1, L2, L3, L4, L5. cbn [length]. lia. }
  assert (Hpos1 : Z.of_nat (length pre) + Z.of_nat (length body) = Z.of_nat (length (pre ++ body))) by (rewrite app_length; lia).
  assert (Hsz : (BufSize - Z.of_nat (length pre) <=? Z.of_nat (length body)) = false).
  { unfold BufSize. rewrite app_length in Hlen. destruct fr as [[w cnt]|]; lia. }
  rewrite Hsz, Hpos1.
  destruct fr as [[w cnt]|].
  - destruct Hfit as (Hw & Hc & Hl).
    rewrite psf_print by (try assumption; lia). rewrite bind_ok.
    replace (Z.of_nat (length (pre ++ body)) + 1 + Z.of_nat w =? BufSize) with false by (unfold BufSize; lia).
    unfold put. replace ((0 <=? _) && (_ <? BufSize)) with true by (unfold BufSize; lia).
    cbn [bind snd]. unfold printed_text. rewrite Htxt, <- !app_assoc. reflexivity.
  - rewrite bind_ok.
    replace (Z.of_nat (length (pre ++ body)) =? BufSize) with false by (unfold BufSize; lia).
    unfold put. replace ((0 <=? _) && (_ <? BufSize)) with true by (unfold BufSize; lia).
    cbn [bind snd]. unfold printed_text. rewrite Htxt, <- !app_assoc. reflexivity.
Qed.

(* ---------- ParseIsoUtc on the printed form ---------- *)

Lemma hd_digit ds rest : all_digits ds = true -> ds <> [] -> exists c t, ds ++ rest = c :: t /\ is_digit c = true.
Proof.
  intros Hd Hne. destruct ds as [|c ds]; [congruence|]. exists c, (ds ++ rest). split; [reflexivity|].
  rewrite all_digits_cons in Hd. apply andb_true_iff in Hd. tauto.
Qed.

Lemma parse_part_field ds dl rest mn mx :
  all_digits ds = true -> ds <> [] -> is_digit dl = false -> fits I32 (dec_value ds) = true ->
  mn <= dec_value ds <= mx ->
  parse_part I32 (ds ++ dl :: rest) (Some mn) (Some mx) (Some dl) false = Ok (dec_value ds, rest).
Proof.
  intros Hd Hne Hdl Hf Hr. unfold parse_part.
  destruct (hd_digit ds (dl :: rest) Hd Hne) as (c & t & E & Hc). rewrite E, Hc. cbn [orb andb]. rewrite <- E.
  rewrite from_chars_numeral by (try assumption; exact Hdl). rewrite Hf.
  replace (dec_value ds <? mn) with false by lia. replace (mx <? dec_value ds) with false by lia. cbn [orb].
  rewrite N.eqb_refl. reflexivity.
Qed.

Lemma parse_part_last ds rest mn mx :
  all_digits ds = true -> ds <> [] -> no_digit_head rest -> fits I32 (dec_value ds) = true ->
  mn <= dec_value ds <= mx ->
  parse_part I32 (ds ++ rest) (Some mn) (Some mx) None false = Ok (dec_value ds, rest).
Proof.
  intros Hd Hne Hdl Hf Hr. unfold parse_part.
  destruct (hd_digit ds rest Hd Hne) as (c & t & E & Hc). rewrite E, Hc. cbn [orb andb]. rewrite <- E.
  rewrite from_chars_numeral by assumption. rewrite Hf.
  replace (dec_value ds <? mn) with false by lia. replace (mx <? dec_value ds) with false by lia. reflexivity.
Qed.

Lemma parse_part_year y rest : fits I64 y = true -> - p10 19 < y < p10 19 ->
  parse_part I64 (year_text y ++ c_minus :: rest) None None (Some c_minus) true = Ok (y, rest).
Proof.
  intros Hf Hy. unfold year_text, parse_part.
  assert (H20 : p10 19 <= p10 20) by (apply p10_mono; lia).
  assert (Hnd : no_digit_head (c_minus :: rest)) by reflexivity.
  destruct (Z.ltb_spec y 0) as [Hneg|Hnn].
  - cbn [app orb andb].
    replace (c_minus =? c_plus)%N with false by reflexivity. rewrite orb_true_r.
    destruct (dec_spec (- y) ltac:(lia)) as (Hd & Hv & _).
    rewrite from_chars_minus; [| reflexivity | apply pad0_digits; exact Hd | apply pad0_nonempty, dec_nonempty; lia | exact Hnd].
    rewrite pad0_value, Hv, Z.opp_involutive, Hf. rewrite N.eqb_refl. reflexivity.
  - destruct (dec_spec y ltac:(lia)) as (Hd & Hv & _).
    destruct (Z.leb_spec y 9999) as [Hsmall|Hbig].
    + destruct (hd_digit (pad0 4 (dec y)) (c_minus :: rest)) as (c & t & E & Hc);
        [apply pad0_digits; exact Hd | apply pad0_nonempty, dec_nonempty; lia |].
      rewrite E, Hc. cbn [orb].
      replace (c =? c_plus)%N with false by (unfold is_digit, c_plus in *; lia). cbn [andb]. rewrite <- E.
      rewrite from_chars_numeral; [| apply pad0_digits; exact Hd | apply pad0_nonempty, dec_nonempty; lia | exact Hnd].
      rewrite pad0_value, Hv, Hf. rewrite N.eqb_refl. reflexivity.
    + cbn [app]. rewrite orb_true_r. rewrite N.eqb_refl. cbn [andb].
      rewrite from_chars_numeral; [| exact Hd | apply dec_nonempty; lia | exact Hnd].
      rewrite Hv, Hf. rewrite N.eqb_refl. reflexivity.
Qed.

Lemma two_nonempty v : 0 <= v <= 99 -> two v <> [].
Proof. intros H. destruct (two_spec v H) as (_ & L & _). destruct (two v); [cbn in L; lia | discriminate]. Qed.

Lemma dim_le_table y m : 1 <= m <= 12 -> dim y m <= DaysInMonth m.
Proof.
  intros Hm. unfold dim, DaysInMonth.
  assert (Hc : m = 1 \/ m = 2 \/ m = 3 \/ m = 4 \/ m = 5 \/ m = 6 \/ m = 7 \/ m = 8 \/ m = 9 \/ m = 10 \/ m = 11 \/ m = 12) by lia.
  destruct Hc as [?|[?|[?|[?|[?|[?|[?|[?|[?|[?|[?|?]]]]]]]]]]]; subst m; cbn; destruct (leap y); lia.
Qed.

(* the C++ leap-year expression (truncating %) is the leap rule *)
Lemma leap_rem y : (Z.rem y 4 =? 0) && (negb (Z.rem y 100 =? 0) || (Z.rem y 400 =? 0)) = leap y.
Proof.
  unfold leap.
  assert (H : forall k, 0 < k -> (Z.rem y k =? 0) = (y mod k =? 0)).
  { intros k Hk. pose proof (Z.rem_divide y k ltac:(lia)). pose proof (Z.mod_divide y k ltac:(lia)).
    destruct (Z.eqb_spec (Z.rem y k) 0), (Z.eqb_spec (y mod k) 0); tauto. }
  rewrite !H by lia. reflexivity.
Qed.

Theorem parse_printed y mo d h mi s (fr : option (nat * Z)) :
  fits I64 y = true -> - p10 19 < y < p10 19 ->
  valid_date (y, mo, d) -> 0 <= h <= 23 -> 0 <= mi <= 59 -> 0 <= s <= 59 ->
  (match fr with None => True | Some (w, cnt) => frac_width w /\ 0 <= cnt < p10 w end) ->
  parse_iso_utc (printed_text y mo d h mi s fr) =
  Ok (mkUtc y mo d h mi s (match fr with None => None | Some (w, cnt) => Some (cnt * 10 ^ (9 - Z.of_nat w)) end)).
Proof.
  intros Hfy Hy [Hmo Hd] Hh Hmi Hs Hfr.
  pose proof (dim_le_table y mo Hmo) as Htab. assert (Hdim : 28 <= dim y mo <= 31) by (unfold dim; repeat match goal with |- context [if ?c then _ else _] => destruct c end; lia).
  destruct (two_spec mo ltac:(lia)) as (_ & _ & D1 & V1). destruct (two_spec d ltac:(lia)) as (_ & _ & D2 & V2).
  destruct (two_spec h ltac:(lia)) as (_ & _ & D3 & V3). destruct (two_spec mi ltac:(lia)) as (_ & _ & D4 & V4).
  destruct (two_spec s ltac:(lia)) as (_ & _ & D5 & V5).
  unfold parse_iso_utc, printed_text. cbn [app].
  rewrite parse_part_year by assumption. rewrite bind_ok.
  rewrite (parse_part_field (two mo)); [| exact D1 | apply two_nonempty; lia | reflexivity | rewrite V1; apply fits_I32; lia | rewrite V1; lia].
  rewrite bind_ok, V1.
  rewrite (parse_part_field (two d)); [| exact D2 | apply two_nonempty; lia | reflexivity | rewrite V2; apply fits_I32; lia | rewrite V2; lia].
  rewrite bind_ok, V2.
  (* 29 February only in leap years *)
  rewrite leap_rem.
  assert (Hleap : (mo =? 2) && (d =? 29) && negb (leap y) = false).
  { destruct (Z.eqb_spec mo 2) as [E2|E2]; [|reflexivity]. destruct (Z.eqb_spec d 29) as [E29|E29]; [|reflexivity].
    subst mo d. unfold dim in Hd. cbn [Z.eqb Pos.eqb] in Hd. destruct (leap y); [reflexivity | lia]. }
  rewrite Hleap, bind_ok.
  rewrite (parse_part_field (two h)); [| exact D3 | apply two_nonempty; lia | reflexivity | rewrite V3; apply fits_I32; lia | rewrite V3; lia].
  rewrite bind_ok, V3.
  rewrite (parse_part_field (two mi)); [| exact D4 | apply two_nonempty; lia | reflexivity | rewrite V4; apply fits_I32; lia | rewrite V4; lia].
  rewrite bind_ok, V4.
  destruct fr as [[w cnt]|].
  - destruct Hfr as [Hw Hc].
    rewrite (parse_part_last (two s)); [| exact D5 | apply two_nonempty; lia | reflexivity | rewrite V5; apply fits_I32; lia | rewrite V5; lia].
    rewrite bind_ok, V5. cbn [app].
    replace ((c_dot =? c_dot)%N) with true by reflexivity. cbn [orb].
    destruct (padded_numeral w cnt Hc ltac:(destruct Hw as [?|[?|?]]; lia)) as (Pd & Pv & Pl).
    rewrite (fraction_exact (pad0 w (dec cnt)) [c_Z]); [| exact Pd | reflexivity | rewrite Pl; destruct Hw as [?|[?|?]]; lia].
    rewrite bind_ok, Pv, Pl. reflexivity.
  - rewrite (parse_part_last (two s)); [| exact D5 | apply two_nonempty; lia | reflexivity | rewrite V5; apply fits_I32; lia | rewrite V5; lia].
    rewrite bind_ok, V5. reflexivity.
Qed.
