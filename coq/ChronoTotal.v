(* ChronoTotal.v — C15: To(string) -> time_point on EVERY text (not only the documented grammar): invalid_argument,
   out_of_range, or a count that fits the representation; never undefined behaviour, never out of fuel. *)
From BS Require Import Base ChronoSpec ChronoModel ChronoArith ChronoDecimal ChronoSweep ChronoCalendar ChronoYear
  ChronoSafe ChronoSafeAdd ChronoText ChronoTp ChronoTpParse ChronoTpRt ChronoClassify ChronoClassify2 ChronoClassify3 ChronoReject.
From Coq Require Import ZifyBool ZifyN ZifyNat.
Local Open Scope Z_scope.

(* ------------------------------------------------------------------ the parser steps with a postcondition *)

Lemma field_post {A} lo hi dl (K : Z -> list N -> outcome A) (Q : outcome A -> Prop) l :
  Q (Err InvalidArgument) -> Q (Err OutOfRange) -> (forall v l', lo <= v <= hi -> Q (K v l')) ->
  Q (r <- parse_part I32 l (Some lo) (Some hi) dl false ;; let '(v, l') := r in K v l').
Proof.
  intros Qi Qo HK.
  destruct (parse_part_tri l lo hi dl) as [E|(ds & tl & -> & Hd & Hn & [(Hf & E)|(Hr & E)])].
  - rewrite E. exact Qi.
  - rewrite E. exact Qo.
  - destruct dl as [c|]; cbn [part_ok] in E.
    + destruct E as (l' & -> & E). rewrite E, bind_ok. apply HK. exact Hr.
    + rewrite E, bind_ok. apply HK. exact Hr.
Qed.

Lemma year_post {A} (K : Z -> list N -> outcome A) (Q : outcome A -> Prop) l :
  Q (Err InvalidArgument) -> Q (Err OutOfRange) -> (forall y l', fits I64 y = true -> Q (K y l')) ->
  Q (r <- parse_part I64 l None None (Some c_minus) true ;; let '(y, l') := r in K y l').
Proof.
  intros Qi Qo HK. destruct l as [|c tl0]; [exact Qi|].
  unfold parse_part. rewrite orb_true_r. cbn [andb].
  set (l1 := if (c =? c_plus)%N then tl0 else c :: tl0).
  destruct (from_chars_i64_tri l1) as [E|(minus & ds & tl & E1 & Hd & Hn & E)]; rewrite E; [exact Qi|].
  set (y := if minus then - dec_value ds else dec_value ds) in *.
  destruct (fits I64 y) eqn:Ef; [|exact Qo].
  cbn [orb]. destruct tl as [|c' rest]; [exact Qi|].
  destruct (N.eqb_spec c' c_minus) as [->|Hc]; [|exact Qi].
  rewrite bind_ok. apply HK. exact Ef.
Qed.

Lemma day_post {A} y mo (K : Z -> list N -> outcome A) (Q : outcome A -> Prop) l : 1 <= mo <= 12 ->
  Q (Err InvalidArgument) -> Q (Err OutOfRange) -> (forall d l', 1 <= d <= dim y mo -> Q (K d l')) ->
  Q (r <- parse_part I32 l (Some 1) (Some (DaysInMonth mo)) (Some c_T) false ;; let '(day, l') := r in
     r2 <- (if (mo =? 2) && (day =? 29) &&
               negb ((Z.rem y 4 =? 0) && (negb (Z.rem y 100 =? 0) || (Z.rem y 400 =? 0)))
            then Err InvalidArgument else Ok tt) ;; K day l').
Proof.
  intros Hm Qi Qo HK. rewrite leap_rem.
  apply field_post; [exact Qi | exact Qo|]. intros d l' Hr.
  rewrite (dim_table y mo Hm) in Hr. unfold dim in *.
  destruct (Z.eqb_spec mo 2) as [Em|Em]; cbn [andb].
  - destruct (leap y) eqn:El; cbn [negb].
    + rewrite andb_false_r, bind_ok. apply HK. lia.
    + rewrite andb_true_r. destruct (Z.eqb_spec d 29) as [Ed|Ed]; [exact Qi|]. rewrite bind_ok. apply HK. lia.
  - rewrite bind_ok. apply HK. lia.
Qed.

Definition frac_range (fr : option Z) : Prop := match fr with Some ns => 0 <= ns <= 999999999 | None => True end.

Lemma psf_range l ns rest : parse_second_fractions l = Some (ns, rest) -> 0 <= ns <= 999999999.
Proof.
  destruct (span_exists l) as (fs & tl & -> & Hd & Hn).
  destruct fs as [|c0 fs0].
  - cbn [app]. unfold parse_second_fractions, from_chars. cbn [is_signed andb].
    replace (match tl with [] => (false, tl) | c1 :: _ => (false, tl) end) with (false, tl) by (destruct tl; reflexivity).
    rewrite (fc_digits_none tl Hn). discriminate.
  - set (fs := c0 :: fs0) in *. assert (Hne : fs <> []) by discriminate.
    destruct (Nat.le_gt_cases (length fs) 9) as [Hl|Hl].
    + rewrite (fraction_exact fs tl Hd Hn) by (unfold fs in *; cbn [length] in *; lia).
      intros H. assert (Ens : ns = dec_value fs * 10 ^ (9 - Z.of_nat (length fs))) by congruence. rewrite Ens. clear H Ens.
      pose proof (dec_value_bound fs Hd) as Hb.
      assert (E : 10 ^ (9 - Z.of_nat (length fs)) = p10 (9 - length fs)) by (unfold p10; f_equal; lia).
      assert (p10 (length fs) * p10 (9 - length fs) = 1000000000).
      { rewrite <- p10_add. replace (length fs + (9 - length fs))%nat with 9%nat by lia. reflexivity. }
      pose proof (p10_pos (9 - length fs)). rewrite E. nia.
    + unfold parse_second_fractions. rewrite from_chars_numeral by assumption.
      destruct (fits U32 (dec_value fs)); [|discriminate].
      destruct (Z.eqb_spec (dec_value fs) 0); [intros H; inversion H; lia|].
      replace (Z.of_nat (length (fs ++ tl) - length tl)) with (Z.of_nat (length fs)) by (rewrite app_length; lia).
      replace (Z.of_nat (length fs) <? 10) with false by lia. discriminate.
Qed.

Lemma tail_post y mo d h mi s (Q : outcome utc_parts -> Prop) l :
  Q (Err InvalidArgument) -> (forall fr, frac_range fr -> Q (Ok (mkUtc y mo d h mi s fr))) ->
  Q (r <- match l with
          | c :: tl => if (c =? c_dot)%N || (c =? c_comma)%N then
                         match parse_second_fractions tl with
                         | Some (ns, l') => Ok (Some ns, l')
                         | None => Err InvalidArgument
                         end
                       else Ok (None, l)
          | [] => Ok (None, l)
          end ;;
     let '(frac, l) := r in
     match l with
     | c :: _ => if (c =? c_Z)%N then Ok (mkUtc y mo d h mi s frac) else Err InvalidArgument
     | [] => Err InvalidArgument
     end).
Proof.
  intros Qi HK. destruct l as [|c tl]; [exact Qi|].
  destruct ((c =? c_dot)%N || (c =? c_comma)%N).
  - destruct (parse_second_fractions tl) as [[ns l']|] eqn:E; [|exact Qi].
    rewrite bind_ok. destruct l' as [|c' r']; [exact Qi|]. destruct ((c' =? c_Z)%N); [|exact Qi].
    apply HK. cbn [frac_range]. apply (psf_range tl ns (c' :: r') E).
  - rewrite bind_ok. destruct ((c =? c_Z)%N); [|exact Qi]. apply HK. exact I.
Qed.

Definition utc_ranges (u : utc_parts) : Prop :=
  fits I64 (u_year u) = true /\ 1 <= u_mo u <= 12 /\ 1 <= u_day u <= dim (u_year u) (u_mo u) /\
  0 <= u_hour u <= 23 /\ 0 <= u_min u <= 59 /\ 0 <= u_sec u <= 59 /\ frac_range (u_frac u).

(* ParseIsoUtc on any text: invalid_argument, out_of_range, or fields that are all in range *)
Theorem parse_iso_utc_post (Q : outcome utc_parts -> Prop) s :
  Q (Err InvalidArgument) -> Q (Err OutOfRange) -> (forall u, utc_ranges u -> Q (Ok u)) -> Q (parse_iso_utc s).
Proof.
  intros Qi Qo HK. unfold parse_iso_utc.
  apply year_post; [exact Qi | exact Qo|]. intros y l1 Hy.
  apply field_post; [exact Qi | exact Qo|]. intros mo l2 Hmo.
  apply day_post; [exact Hmo | exact Qi | exact Qo|]. intros d l3 Hd.
  apply field_post; [exact Qi | exact Qo|]. intros h l4 Hh.
  apply field_post; [exact Qi | exact Qo|]. intros mi l5 Hmi.
  apply field_post; [exact Qi | exact Qo|]. intros sec l6 Hs.
  apply tail_post; [exact Qi|]. intros fr Hfr.
  apply HK. unfold utc_ranges. cbn [u_year u_mo u_day u_hour u_min u_sec u_frac]. auto 10.
Qed.

(* ------------------------------------------------------------------ the whole conversion *)

Definition safe_outcome (R : ity) (o : outcome Z) : Prop :=
  o = Err InvalidArgument \/ o = Err OutOfRange \/ exists v, o = Ok v /\ fits R v = true.

Lemma tp_value_safe P R D sec r : safe_outcome R (tp_value P R D sec r).
Proof.
  unfold tp_value, safe_outcome. destruct (_ =? 0); [|auto]. destruct (fits R _) eqn:E; [|auto].
  right. right. eexists. split; [reflexivity | exact E].
Qed.

Lemma tp_of_parts_safe P R u : c14_rep P R -> utc_ranges u -> safe_outcome R (tp_of_parts P R u).
Proof.
  intros HR (Hy & Hmo & Hd & Hh & Hmi & Hs & Hfr). apply fits_I64 in Hy.
  destruct (Z.ltb_spec (u_year u) (-9223372036854775408)) as [Hlow|Hlow].
  - rewrite tp_of_parts_low by exact Hlow. right. left. reflexivity.
  - pose proof (dim_bounds (u_year u) (u_mo u)) as Hdim.
    assert (Hfns : 0 <= utc_fns u <= 999999999).
    { unfold utc_fns. destruct (u_frac u); cbn [frac_range] in Hfr; lia. }
    destruct (tp_of_parts_chain P R u HR) as (G & HG & HG' & E); try lia.
    cbv zeta in HG, HG', E. rewrite E.
    destruct (Z.ltb_spec (days_from_civil (u_year u) (u_mo u) (u_day u)) (-9223372036854775808)) as [Hdl|Hdl]; cbn [orb];
      [right; left; reflexivity|].
    destruct G; [right; left; reflexivity|]. specialize (HG' eq_refl).
    destruct (rhe_bounds P (utc_fns u) Hfns) as [Hrb Hr0].
    rewrite tp_chain_value; try assumption; try lia.
    apply tp_value_safe.
Qed.

Theorem tp_total P R s : c14_rep P R -> safe_outcome R (tp_parse P R s).
Proof.
  intros HR. unfold tp_parse.
  apply (parse_iso_utc_post (fun o => safe_outcome R (u <- o ;; tp_of_parts P R u))).
  - left. reflexivity.
  - right. left. reflexivity.
  - intros u Hu. rewrite bind_ok. apply tp_of_parts_safe; assumption.
Qed.
