(* ChronoTp.v — time points, the arithmetic level: To(time_point) -> string computes the day, the second
   of the day and the fraction exactly (outside the first partial day), and To(string) -> time_point
   reassembles the count from the parsed fields. *)
From BS Require Import Base ChronoSpec ChronoModel ChronoArith ChronoDecimal ChronoSweep ChronoCalendar ChronoYear
  ChronoSafe ChronoSafeAdd ChronoText.
From Coq Require Import ZifyBool ZifyN ZifyNat.
Local Open Scope Z_scope.
Ltac Zify.zify_post_hook ::= Z.to_euclidean_division_equations.

(* representations of the C14 theorems: int64 and int32, for every precision *)
Definition c14_rep (P : prec) (R : ity) : Prop := R = I64 \/ R = I32.

Definition tpd (P : prec) : Z :=
  match P with
  | Pns => 86400000000000 | Pus => 86400000000 | Pms => 86400000 | Ps => 86400
  | Pmin => 1440 | Ph => 24 | Pd => 1
  end.

Definition sec_of (P : prec) (tod : Z) : Z := tod * pnum P / pden P.     (* second of the day *)

Ltac fits_side := apply fits_iff; unfold tmin, tmax, half, modulus; cbn [is_signed]; lia.

(* one simplification step of a typed computation with concrete types *)
Ltac tstep :=
  first
  [ rewrite bind_ok
  | match goal with
    | |- context [cast ?t ?x] => rewrite (cast_fits t x) by fits_side
    end
  | match goal with
    | |- context [arith ?t ?x] => rewrite (arith_fits t x) by fits_side
    end
  | match goal with
    | |- context [?k =? 0] => is_znum k; let v := eval vm_compute in (k =? 0) in change (k =? 0) with v; cbv iota
    end
  | match goal with
    | |- context [is_gt (?x ?= ?y)] => destruct (Z.compare_spec x y); cbn [is_gt is_lt is_eq]
    end ].

Ltac open_types :=
  unfold dfloor, dround, dsub, dadd, dcmp, dcast, pty, DaysT, SecT, NsT;
  cbn [d_rep d_num d_den pnum pden]; eval_types; cbv beta iota;
  cbn [d_rep d_num d_den Z.eqb Pos.eqb andb]; unfold cdiv; cbn [Z.eqb].

Ltac rep_cases HR := destruct HR as [-> | ->].

Lemma floor_days P R t : c14_rep P R -> fits R t = true ->
  dfloor (pty P R) (DaysT R) t = Ok (t / tpd P).
Proof.
  intros HR Ht. apply fits_iff in Ht.
  destruct P; rep_cases HR; unfold tmin, tmax, half in Ht; cbn [is_signed] in Ht; unfold tpd;
    open_types; repeat tstep; f_equal; lia.
Qed.

(* the pieces of "TWide(in.time_since_epoch()) % oneDay" *)
Lemma wide_parts P R t : c14_rep P R -> fits R t = true ->
  mkD (common_rep R I64) (d_num (pty P R)) (d_den (pty P R)) = pty P I64 /\
  dcast (mkD (common_rep R I64) 86400 1) (pty P I64) 1 = Ok (tpd P) /\
  dcast (pty P R) (pty P I64) t = Ok t.
Proof.
  intros HR Ht. apply fits_iff in Ht.
  destruct P; rep_cases HR; unfold tmin, tmax, half in Ht; cbn [is_signed] in Ht; unfold tpd;
    (split; [reflexivity|]); (split; open_types; repeat tstep; reflexivity).
Qed.

Lemma floor_seconds P tod : 0 <= tod < tpd P ->
  dfloor (pty P I64) SecT tod = Ok (sec_of P tod).
Proof.
  intros Ht.
  destruct P; unfold tpd, sec_of in *; cbn [pnum pden];
    open_types; repeat tstep; f_equal; lia.
Qed.

Lemma frac_part P tod : sub_second P = true -> 0 <= tod < tpd P ->
  dsub (pty P I64) tod SecT (sec_of P tod) = Ok (tod mod pden P) /\
  dcommon (pty P I64) SecT = mkD I64 1 (pden P).
Proof.
  intros Hs Ht.
  destruct P; try discriminate Hs; unfold tpd, sec_of in *; cbn [pnum pden];
    (split; [open_types; repeat tstep; f_equal; lia | reflexivity]).
Qed.

Lemma sec_of_bounds P tod : 0 <= tod < tpd P -> 0 <= sec_of P tod < 86400.
Proof. intros H. destruct P; unfold tpd, sec_of in *; cbn [pnum pden]; lia. Qed.

Lemma tpd_pos P : 0 < tpd P. Proof. destruct P; reflexivity. Qed.

Lemma year_fits day y m d : valid_date (y, m, d) -> days_of_civil (y, m, d) = day ->
  -9223372036854775808 <= day <= 9223372036854775807 + 719468 -> -25269513456375571 <= y <= 25269513456375571.
Proof.
  intros Hv Hd Hb. pose proof (year_linear y m d Hv) as H. cbv zeta in H. rewrite Hd in H. lia.
Qed.

(* era and day of era computed without forming days + 719468 are those of Hinnant's z = days + 719468 *)
Lemma shifted_era_doe_spec day :
  let z := day + 719468 in let era := Z.quot (if 0 <=? z then z else z - 146096) 146097 in
  shifted_era_doe day = (era, z - era * 146097).
Proof.
  cbv zeta. unfold shifted_era_doe.
  destruct (Z.ltb_spec (Z.rem day 146097) 0); destruct (Z.leb_spec 0 (day + 719468)); f_equal; lia.
Qed.

Lemma shifted_civil day era doe : shifted_era_doe day = (era, doe) -> civil_of_era_doe era doe = civil_from_days day.
Proof.
  intros H. pose proof (shifted_era_doe_spec day) as E. cbv zeta in E. rewrite E in H. injection H as <- <-. reflexivity.
Qed.

(* To(time_point) -> string, evaluated: the date of the floor day, the time of day, the fraction *)
Lemma tp_print_eval P R t : c14_rep P R -> fits R t = true ->
  let day := t / tpd P in let tod := t mod tpd P in let sec := sec_of P tod in
  exists y m d, civil_from_days day = (y, m, d) /\ valid_date (y, m, d) /\ days_of_civil (y, m, d) = day /\
  tp_print P R t =
  print_iso_utc y m d (sec / 3600) (sec mod 3600 / 60) (sec mod 60)
    (if sub_second P then Some (I64, pden P, tod mod pden P) else None).
Proof.
  intros HR Ht. cbv zeta.
  pose proof (floor_days P R t HR Ht) as F1.
  destruct (wide_parts P R t HR Ht) as (W0 & W1 & W2).
  set (day := t / tpd P) in *. set (tod := t mod tpd P) in *. set (sec := sec_of P tod).
  destruct (civil_facts day) as (y & m & d & Ec & Hv & Hd & _).
  exists y, m, d. split; [exact Ec|]. split; [exact Hv|]. split; [exact Hd|].
  pose proof (tpd_pos P) as Hpd.
  assert (Htod : 0 <= tod < tpd P) by (unfold tod; apply Z.mod_pos_bound; exact Hpd).
  pose proof (sec_of_bounds P tod Htod) as Hsec. fold sec in Hsec.
  assert (Ht64 : -9223372036854775808 <= t <= 9223372036854775807).
  { apply fits_iff in Ht. destruct HR as [-> | ->]; unfold tmin, tmax, half in Ht; cbn [is_signed] in Ht; lia. }
  assert (Hday : -9223372036854775808 <= day <= 9223372036854775807).
  { unfold day. split; [apply Z.div_le_lower_bound; nia | apply Z.div_le_upper_bound; nia]. }
  pose proof (year_fits day y m d Hv Hd ltac:(lia)) as Hy.
  destruct Hv as [Hm Hdd]. pose proof (dim_bounds y m) as Hdim.
  unfold tp_print. cbv zeta.
  rewrite F1, bind_ok. rewrite W0, W1, bind_ok, W2, bind_ok.
  assert (Htpd64 : tpd P <= 86400000000000) by (destruct P; cbn; lia).
  replace (tpd P =? 0) with false by lia.
  cbn [pty d_rep promote].
  assert (Hrem : Z.abs (Z.rem t (tpd P)) < tpd P) by (pose proof (Z.rem_bound_abs t (tpd P) ltac:(lia)); lia).
  rewrite (arith_fits I64 (Z.rem t (tpd P))) by fits_side. rewrite bind_ok.
  assert (Etp : (if Z.rem t (tpd P) <? 0
                 then r <- arith I64 (Z.rem t (tpd P) + tpd P) ;; Ok (cast I64 r) else Ok (Z.rem t (tpd P))) = Ok tod).
  { pose proof (Z.quot_rem' t (tpd P)) as Eq.
    destruct (Z.ltb_spec (Z.rem t (tpd P)) 0) as [Hn|Hp].
    - rewrite arith_fits by fits_side. rewrite bind_ok, cast_fits by fits_side. f_equal.
      unfold tod. apply Z.mod_unique with (q := Z.quot t (tpd P) - 1); [left; lia | lia].
    - f_equal. unfold tod. apply Z.mod_unique with (q := Z.quot t (tpd P)); [left; lia | lia]. }
  rewrite Etp, bind_ok.
  fold (pty P I64).
  rewrite (floor_seconds P tod Htod), bind_ok. fold sec.
  destruct (shifted_era_doe day) as [era doe] eqn:Esh. rewrite (shifted_civil day era doe Esh), Ec.
  rewrite (cast_fits I64 y) by fits_side. rewrite (cast_fits I32 m) by fits_side. rewrite (cast_fits I32 d) by fits_side.
  rewrite !Z.quot_div_nonneg, !Z.rem_mod_nonneg by lia.
  rewrite (cast_fits I32 (sec / 3600)) by fits_side.
  rewrite (cast_fits I32 (sec mod 3600 / 60)) by fits_side.
  rewrite (cast_fits I32 (sec mod 60)) by fits_side.
  destruct (sub_second P) eqn:Es; [|reflexivity].
  destruct (frac_part P tod Es Htod) as [E1 E2]. fold sec in E1.
  rewrite E1, bind_ok, E2. reflexivity.
Qed.

(* ------------------------------------------------------------------ T_C14_print *)

(* (K35, the last 719468 values of time_point<days, int64>, was repaired in /repo: no input class is left) *)

Definition frac_cnt (P : prec) (tod : Z) : Z := if sub_second P then tod mod pden P else 0.

Definition spec_datetime (P : prec) (t : Z) : datetime :=
  let day := t / tpd P in let tod := t mod tpd P in let sec := sec_of P tod in
  let '(y, m, d) := civil_from_days day in
  mkDT y m d (sec / 3600) (sec mod 3600 / 60) (sec mod 60) (frac_cnt P tod * tick_ns P).

Lemma instant_of_parts P t day tod : day = t / tpd P -> tod = t mod tpd P ->
  (day * 86400 + sec_of P tod) * 1000000000 + frac_cnt P tod * tick_ns P = t * tick_ns P.
Proof.
  intros -> ->. pose proof (tpd_pos P).
  destruct P; unfold frac_cnt, sec_of, tpd, tick_ns in *; cbn [sub_second pnum pden]; lia.
Qed.

Lemma spec_datetime_valid P t : valid_datetime (spec_datetime P t) /\ instant_ns (spec_datetime P t) = t * tick_ns P.
Proof.
  unfold spec_datetime. cbv zeta.
  set (day := t / tpd P). set (tod := t mod tpd P).
  assert (Htod : 0 <= tod < tpd P) by (unfold tod; apply Z.mod_pos_bound, tpd_pos).
  pose proof (sec_of_bounds P tod Htod) as Hsec.
  destruct (civil_facts day) as (y & m & d & Ec & Hv & Hd & _). rewrite Ec.
  assert (Hfr : 0 <= frac_cnt P tod * tick_ns P <= 999999999).
  { unfold frac_cnt. destruct P; cbn [sub_second pden tick_ns]; lia. }
  split.
  - unfold valid_datetime. cbn [dt_y dt_mo dt_d dt_h dt_mi dt_s dt_ns]. split; [exact Hv|]. lia.
  - unfold instant_ns. cbn [dt_y dt_mo dt_d dt_h dt_mi dt_s dt_ns]. rewrite Hd.
    rewrite <- (instant_of_parts P t day tod eq_refl eq_refl). set (sec := sec_of P tod) in *. lia.
Qed.

(* year width per precision: |y| < 10^k *)
Definition year_k (P : prec) : nat :=
  match P with Pns => 4%nat | Pus => 6%nat | Pms => 9%nat | Ps => 12%nat | Pmin => 14%nat | Ph => 16%nat | Pd => 17%nat end.

Lemma year_width P R t y m d : c14_rep P R -> fits R t = true ->
  valid_date (y, m, d) -> days_of_civil (y, m, d) = t / tpd P ->
  - p10 (year_k P) < y < p10 (year_k P).
Proof.
  intros HR Ht Hv Hd.
  pose proof (year_linear y m d Hv) as Hlin. cbv zeta in Hlin. rewrite Hd in Hlin.
  apply fits_iff in Ht. pose proof (tpd_pos P).
  set (day := t / tpd P) in *.
  assert (Hday : day * tpd P <= t < day * tpd P + tpd P) by (unfold day; pose proof (Z.div_mod t (tpd P) ltac:(lia)); pose proof (Z.mod_pos_bound t (tpd P) ltac:(lia)); lia).
  destruct P; rep_cases HR; unfold tmin, tmax, half in Ht; cbn [is_signed] in Ht; unfold tpd in *; cbn [year_k];
    match goal with |- - p10 ?k < _ < _ => let v := eval vm_compute in (p10 k) in change (p10 k) with v end; lia.
Qed.

Definition frac_opt (P : prec) (tod : Z) : option (nat * Z) :=
  if sub_second P then Some (frac_digits P, tod mod pden P) else None.

(* the text produced *)
Lemma tp_print_text P R t : c14_rep P R -> fits R t = true ->
  let tod := t mod tpd P in let sec := sec_of P tod in
  exists y m d, civil_from_days (t / tpd P) = (y, m, d) /\ valid_date (y, m, d) /\
    days_of_civil (y, m, d) = t / tpd P /\ - p10 (year_k P) < y < p10 (year_k P) /\
    tp_print P R t = Ok (printed_text y m d (sec / 3600) (sec mod 3600 / 60) (sec mod 60) (frac_opt P tod)).
Proof.
  intros HR Ht. cbv zeta.
  destruct (tp_print_eval P R t HR Ht) as (y & m & d & Ec & Hv & Hd & E).
  pose proof (year_width P R t y m d HR Ht Hv Hd) as Hyk.
  exists y, m, d. split; [exact Ec|]. split; [exact Hv|]. split; [exact Hd|]. split; [exact Hyk|].
  rewrite E.
  set (tod := t mod tpd P) in *. set (sec := sec_of P tod) in *.
  assert (Htod : 0 <= tod < tpd P) by (unfold tod; apply Z.mod_pos_bound, tpd_pos).
  pose proof (sec_of_bounds P tod Htod) as Hsec. fold sec in Hsec.
  destruct Hv as [Hm Hdd]. pose proof (dim_bounds y m) as Hdim.
  assert (Hk : (4 <= year_k P <= 17)%nat) by (destruct P; cbn; lia).
  assert (H17 : p10 (year_k P) <= p10 17) by (apply p10_mono; lia).
  change (p10 17) with 100000000000000000 in H17.
  pose proof (year_text_length y (year_k P) Hyk ltac:(lia)) as Hlen.
  assert (Hfy : fits I64 y = true) by (apply fits_I64; lia).
  unfold frac_opt. destruct (sub_second P) eqn:Es.
  - set (w := frac_digits P).
    assert (Hw : frac_width w /\ pden P = p10 w /\ (year_k P + 1 + 15 + 1 + w <= 47)%nat).
    { unfold w, frac_width. destruct P; try discriminate Es; cbn; repeat split; auto; lia. }
    destruct Hw as (Hw & Hpd & Hbuf).
    assert (Hc : 0 <= tod mod pden P < p10 w) by (rewrite <- Hpd; apply Z.mod_pos_bound; destruct P; cbn; lia).
    rewrite Hpd.
    rewrite (print_iso_utc_ok y m d (sec / 3600) (sec mod 3600 / 60) (sec mod 60) (Some (w, tod mod p10 w)));
      try assumption; try lia; [reflexivity | rewrite <- Hpd; repeat split; try exact Hw; lia].
  - assert (Hbuf : (year_k P + 1 + 15 <= 47)%nat) by (destruct P; try discriminate Es; cbn; lia).
    rewrite (print_iso_utc_ok y m d (sec / 3600) (sec mod 3600 / 60) (sec mod 60) None); try assumption; try lia. reflexivity.
Qed.

Theorem tp_print_correct P R t : c14_rep P R -> fits R t = true ->
  tp_print P R t = Ok (iso_text P (spec_datetime P t)).
Proof.
  intros HR Ht.
  destruct (tp_print_text P R t HR Ht) as (y & m & d & Ec & Hv & Hd & Hyk & E).
  rewrite E. f_equal. unfold spec_datetime. cbv zeta. rewrite Ec.
  unfold printed_text, iso_text, frac_opt, frac_text, frac_cnt. cbn [dt_y dt_mo dt_d dt_h dt_mi dt_s dt_ns].
  destruct (sub_second P) eqn:Es.
  - destruct (frac_digits P) as [|w'] eqn:Ew; [destruct P; discriminate|].
    replace (t mod tpd P mod pden P * tick_ns P / tick_ns P) with (t mod tpd P mod pden P)
      by (symmetry; apply Z.div_mul; destruct P; cbn; lia).
    rewrite <- ?app_assoc. reflexivity.
  - replace (frac_digits P) with O by (destruct P; try discriminate Es; reflexivity).
    rewrite <- ?app_assoc. reflexivity.
Qed.
