(* ChronoTp.v — time points, the arithmetic level: To(time_point) -> string computes the day, the second
   of the day and the fraction exactly (outside the first partial day), and To(string) -> time_point
   reassembles the count from the parsed fields. *)
From BS Require Import Base ChronoSpec ChronoModel ChronoArith ChronoDecimal ChronoSweep ChronoCalendar ChronoYear
  ChronoSafe ChronoSafeAdd ChronoText.
From Coq Require Import ZifyBool ZifyN ZifyNat.
Local Open Scope Z_scope.
Ltac Zify.zify_post_hook ::= Z.to_euclidean_division_equations.

(* representations the C14 statement quantifies over: 64-bit everywhere, 32-bit for seconds and coarser *)
Definition c14_rep (P : prec) (R : ity) : Prop := R = I64 \/ (R = I32 /\ sub_second P = false).

Definition tpd (P : prec) : Z :=
  match P with
  | Pns => 86400000000000 | Pus => 86400000000 | Pms => 86400000 | Ps => 86400
  | Pmin => 1440 | Ph => 24 | Pd => 1
  end.

Definition sec_of (P : prec) (tod : Z) : Z := tod * pnum P / pden P.     (* second of the day *)

Ltac fits_side := apply fits_iff; unfold tmin, tmax, half, modulus; cbn [is_signed]; lia.

(* one simplification step of a typed computation with concrete types *)
Ltac tstep :=
  first
  [ rewrite bind_ok
  | match goal with
    | |- context [cast ?t ?x] => rewrite (cast_fits t x) by fits_side
    end
  | match goal with
    | |- context [arith ?t ?x] => rewrite (arith_fits t x) by fits_side
    end
  | match goal with
    | |- context [?k =? 0] => is_znum k; let v := eval vm_compute in (k =? 0) in change (k =? 0) with v; cbv iota
    end
  | match goal with
    | |- context [is_gt (?x ?= ?y)] => destruct (Z.compare_spec x y); cbn [is_gt is_lt is_eq]
    end ].

Ltac open_types :=
  unfold dfloor, dround, dsub, dadd, dcmp, dcast, pty, DaysT, SecT, NsT;
  cbn [d_rep d_num d_den pnum pden]; eval_types; cbv beta iota;
  cbn [d_rep d_num d_den Z.eqb Pos.eqb andb]; unfold cdiv; cbn [Z.eqb].

Ltac rep_cases HR := destruct HR as [->|[-> HR]]; [|try discriminate HR].

Lemma floor_days P R t : c14_rep P R -> fits R t = true ->
  dfloor (pty P R) (DaysT R) t = Ok (t / tpd P).
Proof.
  intros HR Ht. apply fits_iff in Ht.
  destruct P; rep_cases HR; unfold tmin, tmax, half in Ht; cbn [is_signed] in Ht; unfold tpd;
    open_types; repeat tstep; f_equal; lia.
Qed.

Lemma time_part P R t : c14_rep P R -> fits R t = true -> tmin R <= t / tpd P * tpd P ->
  dsub (pty P R) t (DaysT R) (t / tpd P) = Ok (t mod tpd P).
Proof.
  intros HR Ht Hf. apply fits_iff in Ht.
  destruct P; rep_cases HR; unfold tmin, tmax, half in Ht, Hf; cbn [is_signed] in Ht, Hf; unfold tpd in *;
    open_types; repeat tstep; f_equal; lia.
Qed.

Lemma common_tp P R : c14_rep P R -> dcommon (pty P R) (DaysT R) = pty P R.
Proof. intros HR. destruct P; rep_cases HR; reflexivity. Qed.

Lemma floor_seconds P R tod : c14_rep P R -> 0 <= tod < tpd P ->
  dfloor (pty P R) SecT tod = Ok (sec_of P tod).
Proof.
  intros HR Ht.
  destruct P; rep_cases HR; unfold tpd, sec_of in *; cbn [pnum pden];
    open_types; repeat tstep; f_equal; lia.
Qed.

Lemma frac_part P R tod : c14_rep P R -> sub_second P = true -> 0 <= tod < tpd P ->
  dsub (pty P R) tod SecT (sec_of P tod) = Ok (tod mod pden P) /\
  dcommon (pty P R) SecT = mkD I64 1 (pden P).
Proof.
  intros HR Hs Ht.
  destruct P; try discriminate Hs; rep_cases HR; unfold tpd, sec_of in *; cbn [pnum pden];
    (split; [open_types; repeat tstep; f_equal; lia | reflexivity]).
Qed.

Lemma sec_of_bounds P tod : 0 <= tod < tpd P -> 0 <= sec_of P tod < 86400.
Proof. intros H. destruct P; unfold tpd, sec_of in *; cbn [pnum pden]; lia. Qed.

Lemma tpd_pos P : 0 < tpd P. Proof. destruct P; reflexivity. Qed.

Lemma year_fits day y m d : valid_date (y, m, d) -> days_of_civil (y, m, d) = day ->
  -9223372036854775808 <= day <= 9223372036854775807 + 719468 -> -25269513456375571 <= y <= 25269513456375571.
Proof.
  intros Hv Hd Hb. pose proof (year_linear y m d Hv) as H. cbv zeta in H. rewrite Hd in H. lia.
Qed.

(* To(time_point) -> string, evaluated: the date of the floor day, the time of day, the fraction *)
Lemma tp_print_eval P R t : c14_rep P R -> fits R t = true ->
  tmin R <= t / tpd P * tpd P -> t / tpd P + 719468 <= 9223372036854775807 ->
  let day := t / tpd P in let tod := t mod tpd P in let sec := sec_of P tod in
  exists y m d, civil_from_days day = (y, m, d) /\ valid_date (y, m, d) /\ days_of_civil (y, m, d) = day /\
  tp_print P R t =
  print_iso_utc y m d (sec / 3600) (sec mod 3600 / 60) (sec mod 60)
    (if sub_second P then Some (I64, pden P, tod mod pden P) else None).
Proof.
  intros HR Ht Hf Hz. cbv zeta.
  pose proof (floor_days P R t HR Ht) as F1. pose proof (time_part P R t HR Ht Hf) as F2.
  set (day := t / tpd P) in *. set (tod := t mod tpd P) in *. set (sec := sec_of P tod).
  destruct (civil_facts day) as (y & m & d & Ec & Hv & Hd & _).
  exists y, m, d. split; [exact Ec|]. split; [exact Hv|]. split; [exact Hd|].
  assert (Htod : 0 <= tod < tpd P) by (unfold tod; apply Z.mod_pos_bound, tpd_pos).
  pose proof (sec_of_bounds P tod Htod) as Hsec. fold sec in Hsec.
  assert (Hday : -9223372036854775808 <= day <= 9223372036854775807).
  { apply fits_iff in Ht. pose proof (tpd_pos P). unfold day.
    assert (tmin R >= -9223372036854775808 /\ tmax R <= 9223372036854775807) by (destruct HR as [->|[-> _]]; vm_compute; split; discriminate).
    split; [apply Z.div_le_lower_bound; nia | apply Z.div_le_upper_bound; nia]. }
  pose proof (year_fits day y m d Hv Hd ltac:(lia)) as Hy.
  destruct Hv as [Hm Hdd]. pose proof (dim_bounds y m) as Hdim.
  unfold tp_print. cbv zeta.
  rewrite F1, bind_ok, F2, bind_ok.
  rewrite (common_tp P R HR).
  rewrite (floor_seconds P R tod HR Htod), bind_ok. fold sec.
  replace (uac R I64) with I64 by (destruct HR as [->|[-> _]]; reflexivity).
  rewrite (cast_fits I64 day) by fits_side. rewrite (cast_fits I64 719468) by fits_side.
  rewrite arith_fits by fits_side. rewrite bind_ok.
  change (civil_from_z (day + 719468)) with (civil_from_days day). rewrite Ec.
  rewrite (cast_fits I64 y) by fits_side. rewrite (cast_fits I32 m) by fits_side. rewrite (cast_fits I32 d) by fits_side.
  rewrite !Z.quot_div_nonneg, !Z.rem_mod_nonneg by lia.
  rewrite (cast_fits I32 (sec / 3600)) by fits_side.
  rewrite (cast_fits I32 (sec mod 3600 / 60)) by fits_side.
  rewrite (cast_fits I32 (sec mod 60)) by fits_side.
  destruct (sub_second P) eqn:Es; [|reflexivity].
  destruct (frac_part P R tod HR Es Htod) as [E1 E2]. fold sec in E1.
  rewrite E1, bind_ok, E2. reflexivity.
Qed.

(* ------------------------------------------------------------------ T_C14_print *)

(* the inputs on which printing goes wrong (decidable, stated on the count only):
   F30  first partial calendar day of the range: the start of the floor day is not representable
   BUF  years of sixteen or more digits: the 32-byte buffer is too small
   F31  instants of the years -999 .. -1 (printed with three digits; they still parse back) *)
Definition rt_defect (P : prec) (R : ity) (t : Z) : bool :=
  let day := t / tpd P in
  (day * tpd P <? tmin R) || (365242499999280472 <=? day) || (day <? -365242500000719162).
Definition short_year (P : prec) (t : Z) : bool :=
  let day := t / tpd P in (-1084405 <=? day) && (day <? -719528).
Definition print_defect (P : prec) (R : ity) (t : Z) : bool := rt_defect P R t || short_year P t.

Lemma dby_consts : days_before_year (-999) = -1084405 /\ days_before_year 0 = -719528 /\
  days_before_year 1000000000000000 = 365242499999280472 /\ days_before_year (-999999999999999) = -365242500000719162.
Proof. repeat split; vm_compute; reflexivity. Qed.

Definition frac_cnt (P : prec) (tod : Z) : Z := if sub_second P then tod mod pden P else 0.

Definition spec_datetime (P : prec) (t : Z) : datetime :=
  let day := t / tpd P in let tod := t mod tpd P in let sec := sec_of P tod in
  let '(y, m, d) := civil_from_days day in
  mkDT y m d (sec / 3600) (sec mod 3600 / 60) (sec mod 60) (frac_cnt P tod * tick_ns P).

Lemma instant_of_parts P t day tod : day = t / tpd P -> tod = t mod tpd P ->
  (day * 86400 + sec_of P tod) * 1000000000 + frac_cnt P tod * tick_ns P = t * tick_ns P.
Proof.
  intros -> ->. pose proof (tpd_pos P).
  destruct P; unfold frac_cnt, sec_of, tpd, tick_ns in *; cbn [sub_second pnum pden]; lia.
Qed.

Lemma spec_datetime_valid P t : valid_datetime (spec_datetime P t) /\ instant_ns (spec_datetime P t) = t * tick_ns P.
Proof.
  unfold spec_datetime. cbv zeta.
  set (day := t / tpd P). set (tod := t mod tpd P).
  assert (Htod : 0 <= tod < tpd P) by (unfold tod; apply Z.mod_pos_bound, tpd_pos).
  pose proof (sec_of_bounds P tod Htod) as Hsec.
  destruct (civil_facts day) as (y & m & d & Ec & Hv & Hd & _). rewrite Ec.
  assert (Hfr : 0 <= frac_cnt P tod * tick_ns P <= 999999999).
  { unfold frac_cnt. destruct P; cbn [sub_second pden tick_ns]; lia. }
  split.
  - unfold valid_datetime. cbn [dt_y dt_mo dt_d dt_h dt_mi dt_s dt_ns]. split; [exact Hv|]. lia.
  - unfold instant_ns. cbn [dt_y dt_mo dt_d dt_h dt_mi dt_s dt_ns]. rewrite Hd.
    rewrite <- (instant_of_parts P t day tod eq_refl eq_refl). set (sec := sec_of P tod) in *. lia.
Qed.

(* year width per precision: |y| < 10^k *)
Definition year_k (P : prec) : nat :=
  match P with Pns => 4%nat | Pus => 6%nat | Pms => 9%nat | Ps => 12%nat | Pmin => 14%nat | _ => 15%nat end.

Lemma year_width P R t y m d : c14_rep P R -> fits R t = true -> rt_defect P R t = false ->
  valid_date (y, m, d) -> days_of_civil (y, m, d) = t / tpd P ->
  - p10 (year_k P) < y < p10 (year_k P) /\ t / tpd P + 719468 <= 9223372036854775807.
Proof.
  intros HR Ht Hdef Hv Hd. unfold rt_defect in Hdef. cbv zeta in Hdef.
  destruct dby_consts as (C1 & C2 & C3 & C4).
  set (day := t / tpd P) in *.
  assert (Hhi : y < 1000000000000000) by (apply (year_lt y m d); [exact Hv | rewrite Hd, C3; lia]).
  assert (Hlo : -999999999999999 <= y) by (apply (year_ge y m d); [exact Hv | rewrite Hd, C4; lia]).
  pose proof (year_linear y m d Hv) as Hlin. cbv zeta in Hlin. rewrite Hd in Hlin.
  apply fits_iff in Ht. pose proof (tpd_pos P).
  assert (Hday : day * tpd P <= t < day * tpd P + tpd P) by (unfold day; pose proof (Z.div_mod t (tpd P) ltac:(lia)); pose proof (Z.mod_pos_bound t (tpd P) ltac:(lia)); lia).
  split.
  - destruct P; rep_cases HR; unfold tmin, tmax, half in Ht; cbn [is_signed] in Ht; unfold tpd in *; cbn [year_k];
      match goal with |- - p10 ?k < _ < _ => let v := eval vm_compute in (p10 k) in change (p10 k) with v end; lia.
  - lia.
Qed.

Lemma not_short_year P t y m d : short_year P t = false ->
  valid_date (y, m, d) -> days_of_civil (y, m, d) = t / tpd P -> y <= -1000 \/ 0 <= y.
Proof.
  intros Hdef Hv Hd. unfold short_year in Hdef. cbv zeta in Hdef.
  destruct dby_consts as (C1 & C2 & _).
  destruct (Z.le_gt_cases y (-1000)) as [|H1]; [left; assumption|].
  destruct (Z.le_gt_cases 0 y) as [|H2]; [right; assumption|]. exfalso.
  pose proof (day_in_year y m d Hv) as Hin. rewrite Hd in Hin.
  pose proof (dby_mono (-999) y ltac:(lia)). pose proof (dby_mono (y + 1) 0 ltac:(lia)). lia.
Qed.

Definition frac_opt (P : prec) (tod : Z) : option (nat * Z) :=
  if sub_second P then Some (frac_digits P, tod mod pden P) else None.

(* the text produced, in terms of the printed form (year as snprintf prints it) *)
Lemma tp_print_text P R t : c14_rep P R -> fits R t = true -> rt_defect P R t = false ->
  let tod := t mod tpd P in let sec := sec_of P tod in
  exists y m d, civil_from_days (t / tpd P) = (y, m, d) /\ valid_date (y, m, d) /\
    days_of_civil (y, m, d) = t / tpd P /\ - p10 (year_k P) < y < p10 (year_k P) /\
    tp_print P R t = Ok (printed_text y m d (sec / 3600) (sec mod 3600 / 60) (sec mod 60) (frac_opt P tod)).
Proof.
  intros HR Ht Hdef. cbv zeta.
  assert (Hf : tmin R <= t / tpd P * tpd P).
  { unfold rt_defect in Hdef. cbv zeta in Hdef. lia. }
  destruct (civil_facts (t / tpd P)) as (y0 & m0 & d0 & Ec0 & Hv0 & Hd0 & _).
  destruct (year_width P R t y0 m0 d0 HR Ht Hdef Hv0 Hd0) as (Hyk & Hz).
  destruct (tp_print_eval P R t HR Ht Hf Hz) as (y & m & d & Ec & Hv & Hd & E).
  rewrite Ec in Ec0. injection Ec0 as <- <- <-.
  exists y, m, d. split; [exact Ec|]. split; [exact Hv|]. split; [exact Hd|]. split; [exact Hyk|].
  rewrite E.
  set (tod := t mod tpd P) in *. set (sec := sec_of P tod) in *.
  assert (Htod : 0 <= tod < tpd P) by (unfold tod; apply Z.mod_pos_bound, tpd_pos).
  pose proof (sec_of_bounds P tod Htod) as Hsec. fold sec in Hsec.
  destruct Hv as [Hm Hdd]. pose proof (dim_bounds y m) as Hdim.
  assert (Hk : (4 <= year_k P <= 15)%nat) by (destruct P; cbn; lia).
  pose proof (year_printed_length y (year_k P) Hyk ltac:(lia)) as Hlen.
  unfold frac_opt. destruct (sub_second P) eqn:Es.
  - set (w := frac_digits P).
    assert (Hw : frac_width w /\ pden P = p10 w /\ (year_k P + 1 + 15 + 1 + w <= 31)%nat).
    { unfold w, frac_width. destruct P; try discriminate Es; cbn; repeat split; auto; lia. }
    destruct Hw as (Hw & Hpd & Hbuf).
    assert (Hc : 0 <= tod mod pden P < p10 w) by (rewrite <- Hpd; apply Z.mod_pos_bound; destruct P; cbn; lia).
    rewrite Hpd.
    rewrite (print_iso_utc_ok y m d (sec / 3600) (sec mod 3600 / 60) (sec mod 60) (Some (w, tod mod p10 w)));
      try lia; [reflexivity | rewrite <- Hpd; repeat split; try exact Hw; lia].
  - assert (Hbuf : (year_k P + 1 + 15 <= 31)%nat) by (destruct P; try discriminate Es; cbn; lia).
    rewrite (print_iso_utc_ok y m d (sec / 3600) (sec mod 3600 / 60) (sec mod 60) None); try lia. reflexivity.
Qed.

Theorem tp_print_correct P R t : c14_rep P R -> fits R t = true -> print_defect P R t = false ->
  tp_print P R t = Ok (iso_text P (spec_datetime P t)).
Proof.
  intros HR Ht Hdef. unfold print_defect in Hdef. apply orb_false_iff in Hdef. destruct Hdef as [Hrt Hsy].
  destruct (tp_print_text P R t HR Ht Hrt) as (y & m & d & Ec & Hv & Hd & Hyk & E).
  rewrite E. f_equal. unfold spec_datetime. cbv zeta. rewrite Ec.
  pose proof (not_short_year P t y m d Hsy Hv Hd) as H31.
  assert (Hk : (4 <= year_k P <= 15)%nat) by (destruct P; cbn; lia).
  assert (H18 : p10 (year_k P) <= p10 18) by (apply p10_mono; lia).
  pose proof (year_printed_spec y ltac:(lia) H31) as Hyt.
  unfold printed_text, iso_text, frac_opt, frac_text, frac_cnt. cbn [dt_y dt_mo dt_d dt_h dt_mi dt_s dt_ns].
  rewrite Hyt. destruct (sub_second P) eqn:Es.
  - destruct (frac_digits P) as [|w'] eqn:Ew; [destruct P; discriminate|].
    replace (t mod tpd P mod pden P * tick_ns P / tick_ns P) with (t mod tpd P mod pden P)
      by (symmetry; apply Z.div_mul; destruct P; cbn; lia).
    rewrite <- ?app_assoc. reflexivity.
  - replace (frac_digits P) with O by (destruct P; try discriminate Es; reflexivity).
    rewrite <- ?app_assoc. reflexivity.
Qed.
