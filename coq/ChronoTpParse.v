(* ChronoTpParse.v — To(string) -> time_point, the arithmetic after ParseIsoUtc: Hinnant's
   days_from_civil in checked int64/unsigned arithmetic, then the three SafeAddDuration steps
   (time of day, rounded fraction, days). *)
From BS Require Import Base ChronoSpec ChronoModel ChronoArith ChronoDecimal ChronoSweep ChronoCalendar ChronoYear
  ChronoSafe ChronoSafeAdd ChronoText ChronoTp.
From Coq Require Import ZifyBool ZifyN ZifyNat.
Local Open Scope Z_scope.
Ltac Zify.zify_post_hook ::= Z.to_euclidean_division_equations.

(* the date part of tp_of_parts, as a function of its continuation *)
Definition date_steps {A} (year mo day : Z) (K : Z -> outcome A) : outcome A :=
  if year <? tmin I64 + 400 then Err OutOfRange else
  y <- arith I64 (year - (if mo <=? 2 then 1 else 0)) ;;
  let m := cast U32 mo in
  let d := cast U32 day in
  yy <- (if 0 <=? y then Ok y else arith I64 (y - 399)) ;;
  era <- cdiv I64 yy 400 ;;
  e4 <- arith I64 (era * 400) ;;
  ye <- arith I64 (y - e4) ;;
  let yoe := cast U32 ye in
  let mm := if 2 <? m then cast U32 (m - 3) else cast U32 (m + 9) in
  let doy := cast U32 (cast U32 (cast U32 (cast U32 (153 * mm) + 2) / 5 + d) - 1) in
  let doe := cast U32 (cast U32 (cast U32 (yoe * 365) + yoe / 4) - yoe / 100 + doy) in
  hi <- cdiv I64 (tmax I64) 146097 ;;
  lo <- cdiv I64 (tmin I64) 146097 ;;
  if (hi <? era) || (era <? lo) then Err OutOfRange else
  off <- arith I32 (cast I32 doe - 719468) ;;
  e1 <- arith I64 (era * 146097) ;;
  lim <- arith I64 (tmin I64 - off) ;;
  if (off <? 0) && (e1 <? lim) then Err OutOfRange else
  days <- arith I64 (e1 + off) ;;
  K days.

(* for every date whose day number fits int64 with the 719468 days of head room the era guard needs *)
Lemma date_steps_ok {A} y m d (K : Z -> outcome A) :
  -30000000000000000 <= y <= 30000000000000000 -> 1 <= m <= 12 -> 1 <= d <= 31 ->
  -9223372036854775808 <= days_from_civil y m d <= 9223372036854775807 - 719468 ->
  date_steps y m d K = K (days_from_civil y m d).
Proof.
  intros Hy Hm Hd HD. unfold date_steps. cbv zeta.
  change (tmin I64 + 400) with (-9223372036854775408). replace (y <? -9223372036854775408) with false by lia.
  set (b := if m <=? 2 then 1 else 0). assert (Hb : 0 <= b <= 1) by (unfold b; destruct (m <=? 2); lia).
  rewrite arith_fits by fits_side. rewrite bind_ok.
  rewrite (cast_fits U32 m) by fits_side. rewrite (cast_fits U32 d) by fits_side.
  set (y' := y - b) in *. assert (Hy' : -30000000000000001 <= y' <= 30000000000000000) by (unfold y'; lia).
  assert (Eera : (yy <- (if 0 <=? y' then Ok y' else arith I64 (y' - 399)) ;; cdiv I64 yy 400) = Ok (era_of_y y')).
  { unfold era_of_y, cdiv. change (400 =? 0) with false. cbv iota.
    destruct (0 <=? y') eqn:E; [|rewrite arith_fits by fits_side]; rewrite bind_ok, arith_fits by fits_side; reflexivity. }
  assert (Hera : era_of_y y' = y' / 400) by apply era_of_y_div.
  (* the day number in terms of the quantities of this computation *)
  assert (HDe : days_from_civil y m d = era_of_y y' * 146097 + (doe_of y' (era_of_y y') m d - 719468)) by reflexivity.
  set (era := era_of_y y') in *.
  transitivity (era0 <- Ok era ;;
    e4 <- arith I64 (era0 * 400) ;;
    ye <- arith I64 (y' - e4) ;;
    let yoe := cast U32 ye in
    let mm := if 2 <? m then cast U32 (m - 3) else cast U32 (m + 9) in
    let doy := cast U32 (cast U32 (cast U32 (cast U32 (153 * mm) + 2) / 5 + d) - 1) in
    let doe := cast U32 (cast U32 (cast U32 (yoe * 365) + yoe / 4) - yoe / 100 + doy) in
    hi <- cdiv I64 (tmax I64) 146097 ;;
    lo <- cdiv I64 (tmin I64) 146097 ;;
    if (hi <? era0) || (era0 <? lo) then Err OutOfRange else
    off <- arith I32 (cast I32 doe - 719468) ;;
    e1 <- arith I64 (era0 * 146097) ;;
    lim <- arith I64 (tmin I64 - off) ;;
    if (off <? 0) && (e1 <? lim) then Err OutOfRange else
    days <- arith I64 (e1 + off) ;;
    K days).
  { rewrite <- Eera. destruct (0 <=? y'); [reflexivity|]. destruct (arith I64 (y' - 399)); reflexivity. }
  rewrite bind_ok. cbv zeta.
  rewrite arith_fits by fits_side. rewrite bind_ok.
  rewrite arith_fits by fits_side. rewrite bind_ok.
  set (yoe := y' - era * 400) in *. assert (Hyoe : 0 <= yoe <= 399) by (unfold yoe; lia).
  rewrite (cast_fits U32 yoe) by fits_side.
  set (mm := if 2 <? m then cast U32 (m - 3) else cast U32 (m + 9)).
  assert (Emm : mm = if 2 <? m then m - 3 else m + 9).
  { unfold mm. destruct (2 <? m) eqn:E; apply cast_fits; fits_side. }
  assert (Hmm : 0 <= mm <= 11) by (rewrite Emm; destruct (2 <? m) eqn:E; lia).
  clearbody mm.
  repeat match goal with |- context [cast U32 ?x] => rewrite (cast_fits U32 x) by fits_side end.
  set (doe := yoe * 365 + yoe / 4 - yoe / 100 + ((153 * mm + 2) / 5 + d - 1)).
  assert (Hdoe : 0 <= doe <= 150000) by (unfold doe; lia).
  assert (Edoe : doe_of y' era m d = doe).
  { unfold doe_of. cbv zeta. fold yoe. subst mm.
    rewrite !Z.quot_div_nonneg by (try destruct (2 <? m); lia). unfold doe. lia. }
  rewrite Edoe in HDe. rewrite HDe in HD |- *.
  clear Edoe HDe Eera. clearbody doe yoe.
  unfold cdiv. change (146097 =? 0) with false. cbv iota.
  change (tmax I64) with 9223372036854775807. change (tmin I64) with (-9223372036854775808).
  rewrite (arith_fits I64 (Z.quot 9223372036854775807 146097)) by (vm_compute; reflexivity). rewrite bind_ok.
  rewrite (arith_fits I64 (Z.quot (-9223372036854775808) 146097)) by (vm_compute; reflexivity). rewrite bind_ok.
  change (Z.quot 9223372036854775807 146097) with 63131837319416. change (Z.quot (-9223372036854775808) 146097) with (-63131837319416).
  replace ((63131837319416 <? era) || (era <? -63131837319416)) with false by lia.
  rewrite (cast_fits I32 doe) by fits_side.
  rewrite arith_fits by fits_side. rewrite bind_ok.
  rewrite arith_fits by fits_side. rewrite bind_ok.
  rewrite arith_fits by fits_side. rewrite bind_ok.
  replace ((doe - 719468 <? 0) && (era * 146097 <? -9223372036854775808 - (doe - 719468))) with false by lia.
  rewrite arith_fits by fits_side. rewrite bind_ok. reflexivity.
Qed.

Lemma tp_of_parts_unfold P R u :
  tp_of_parts P R u =
  date_steps (u_year u) (u_mo u) (u_day u) (fun days =>
    let D := pty P R in
    h1 <- arith I64 (u_hour u * 3600) ;; m1 <- arith I64 (u_min u * 60) ;;
    t1 <- arith I64 (h1 + m1) ;; time <- arith I64 (t1 + u_sec u) ;;
    if 0 <=? days then
      tp <- safe_add_tp D 0 SecT time ;;
      tp <- (match u_frac u with
             | Some ns => r <- dround NsT D ns ;; safe_add_tp D tp D r
             | None => Ok tp
             end) ;;
      safe_add_tp D tp (mkD I64 86400 1) days
    else
      d1 <- arith I64 (days + 1) ;;
      tp <- safe_add_tp D 0 (mkD I64 86400 1) d1 ;;
      tp <- (match u_frac u with
             | Some ns => r <- dround NsT D ns ;; safe_add_tp D tp D r
             | None => Ok tp
             end) ;;
      back <- arith I64 (time - 86400) ;;
      safe_add_tp D tp SecT back).
Proof. reflexivity. Qed.

Lemma prec_facts P :
  0 < pnum P /\ 0 < pden P /\ (pnum P = 1 \/ pden P = 1) /\ pnum P <= 86400 /\ pden P <= 1000000000 /\
  tpd P * pnum P = 86400 * pden P /\ tick_ns P * pden P = 1000000000 * pnum P.
Proof. destruct P; cbn; repeat split; auto; lia. Qed.

Lemma dty_eqb_refl D : dty_eqb D D = true.
Proof. unfold dty_eqb. rewrite ity_eqb_refl, !Z.eqb_refl. reflexivity. Qed.

Lemma safe_cast_same D c : safe_cast D D c = Ok c.
Proof. unfold safe_cast. rewrite dty_eqb_refl. reflexivity. Qed.

Lemma simple_ratio_prec P r1 r2 n :
  (n = 1 \/ n = 86400) -> simple_ratio (mkD r1 n 1) (mkD r2 (pnum P) (pden P)).
Proof.
  intros [->| ->]; unfold simple_ratio; destruct P; vm_compute; auto.
Qed.

(* seconds (or days) into the operation type of the target precision *)
Lemma cast_into_prec P n c v : (n = 1 \/ n = 86400) -> fits I64 c = true -> fits I64 v = true ->
  v * pnum P = c * (n * pden P) ->
  safe_cast (mkD I64 n 1) (mkD I64 (pnum P) (pden P)) c = Ok v.
Proof.
  intros Hn Hc Hv Hx. destruct (prec_facts P) as (Hpn & Hpd & _ & Hbn & Hbd & _).
  apply safe_cast_complete; cbn [d_rep d_num d_den]; try assumption.
  - right. right. left. reflexivity.
  - right. right. left. reflexivity.
  - split; cbn; destruct Hn; lia.
  - split; cbn; assumption.
  - destruct Hn; subst n; lia.
  - lia.
  - apply simple_ratio_prec; exact Hn.
  - unfold exact_cast. cbn [d_num d_den]. lia.
Qed.

Lemma op_dty_signed P R src : (R = I64 \/ R = I32) -> d_rep src = I64 \/ d_rep src = R ->
  op_dty (pty P R) src = mkD I64 (pnum P) (pden P).
Proof.
  intros HR Hs. unfold op_dty, op_rep, pty. cbn [d_rep d_num d_den]. f_equal.
  destruct HR as [-> | ->], Hs as [-> | ->]; reflexivity.
Qed.

(* ---------- std::chrono::round<duration<R,P>>(nanoseconds) ---------- *)

Lemma odd_even z : Z.odd z = negb (Z.even z).
Proof. rewrite <- Z.negb_even. reflexivity. Qed.

Ltac split_tests :=
  repeat match goal with
         | |- context [?a =? ?b] => destruct (Z.eqb_spec a b)
         | |- context [?a <? ?b] => destruct (Z.ltb_spec a b)
         end.

Ltac tie_case :=
  match goal with
  | |- context [Z.odd ?q] =>
    match goal with |- context [Z.even ?p] => replace q with p by lia end
  end; rewrite odd_even; destruct (Z.even _); cbn [negb]; f_equal; lia.

Lemma dround_ns P R ns : (R = I64 \/ R = I32) -> -999999999 <= ns <= 999999999 ->
  dround NsT (pty P R) ns = Ok (round_half_even ns (tick_ns P)).
Proof.
  intros HR Hns. unfold dround.
  destruct P; destruct HR as [-> | ->]; open_types; repeat tstep;
    unfold round_half_even, tick_ns; cbv zeta; split_tests; first [f_equal; lia | tie_case].
Qed.

Lemma rhe_exact cnt k : 0 < k -> round_half_even (cnt * k) k = cnt.
Proof.
  intros Hk. unfold round_half_even. cbv zeta.
  rewrite Z.div_mul, Z.mod_mul by lia. replace (2 * 0 <? k) with true by lia. reflexivity.
Qed.

