(* ChronoTpParse.v — To(string) -> time_point, the arithmetic after ParseIsoUtc: Hinnant's
   days_from_civil in checked int64/unsigned arithmetic, then the three SafeAddDuration steps
   (time of day, rounded fraction, days). *)
From BS Require Import Base ChronoSpec ChronoModel ChronoArith ChronoDecimal ChronoSweep ChronoCalendar ChronoYear
  ChronoSafe ChronoSafeAdd ChronoText ChronoTp.
From Coq Require Import ZifyBool ZifyN ZifyNat.
Local Open Scope Z_scope.
Ltac Zify.zify_post_hook ::= Z.to_euclidean_division_equations.

(* days = era * 146097 + doe - 719468 as the library forms it: (era - 5) * 146097 + (doe + 11017), one era up when
   era - 5 is negative; exact wherever the result is an int64, out_of_range otherwise *)
Definition days_tail {A} (era doe : Z) (K : Z -> outcome A) : outcome A :=
  se <- arith I64 (era - 5) ;;
  sd <- arith I64 (cast I64 doe + 11017) ;;
  days <- (if 0 <=? se then
             lim <- cdiv I64 (tmax I64 - sd) 146097 ;;
             if lim <? se then Err OutOfRange else
             pr <- arith I64 (se * 146097) ;; arith I64 (pr + sd)
           else
             ue <- arith I64 (se + 1) ;;
             dd <- arith I64 (sd - 146097) ;;
             lim <- cdiv I64 (tmin I64 - (if dd <? 0 then dd else 0)) 146097 ;;
             if ue <? lim then Err OutOfRange else
             pr <- arith I64 (ue * 146097) ;; arith I64 (pr + dd)) ;;
  K days.

Lemma days_tail_spec {A} era doe (K : Z -> outcome A) :
  -100000000000000000 <= era <= 100000000000000000 -> 0 <= doe <= 150000 ->
  days_tail era doe K =
  if (era * 146097 + (doe - 719468) <? -9223372036854775808) || (9223372036854775807 <? era * 146097 + (doe - 719468))
  then Err OutOfRange else K (era * 146097 + (doe - 719468)).
Proof.
  intros He Hd. unfold days_tail, cdiv. change (146097 =? 0) with false. cbv iota.
  change (tmax I64) with 9223372036854775807. change (tmin I64) with (-9223372036854775808).
  rewrite (cast_fits I64 doe) by fits_side.
  rewrite (arith_fits I64 (era - 5)) by fits_side. rewrite bind_ok.
  rewrite (arith_fits I64 (doe + 11017)) by fits_side. rewrite bind_ok.
  set (se := era - 5) in *. set (sd := doe + 11017) in *.
  assert (ED : era * 146097 + (doe - 719468) = se * 146097 + sd) by (unfold se, sd; lia).
  rewrite ED. clear ED. assert (Hsd : 11017 <= sd <= 161017) by (unfold sd; lia).
  assert (Hse : -100000000000000005 <= se <= 100000000000000000) by (unfold se; lia).
  clearbody se sd. clear He Hd.
  destruct (Z.leb_spec 0 se) as [Hp|Hn].
  - rewrite Z.quot_div_nonneg by lia.
    rewrite (arith_fits I64 ((9223372036854775807 - sd) / 146097)) by fits_side. rewrite bind_ok.
    destruct (Z.ltb_spec ((9223372036854775807 - sd) / 146097) se) as [Hl|Hl].
    + replace ((se * 146097 + sd <? -9223372036854775808) || (9223372036854775807 <? se * 146097 + sd)) with true by lia.
      reflexivity.
    + replace ((se * 146097 + sd <? -9223372036854775808) || (9223372036854775807 <? se * 146097 + sd)) with false by lia.
      rewrite (arith_fits I64 (se * 146097)) by fits_side. rewrite bind_ok.
      rewrite arith_fits by fits_side. rewrite bind_ok. reflexivity.
  - rewrite (arith_fits I64 (se + 1)) by fits_side. rewrite bind_ok.
    rewrite (arith_fits I64 (sd - 146097)) by fits_side. rewrite bind_ok.
    set (dd := sd - 146097) in *. set (lo := if dd <? 0 then dd else 0).
    assert (Hlo : -135080 <= lo <= 0 /\ lo <= dd /\ (dd < 0 -> lo = dd) /\ (0 <= dd -> lo = 0)) by (unfold lo, dd; destruct (Z.ltb_spec (sd - 146097) 0); lia).
    clearbody lo.
    rewrite (arith_fits I64 (Z.quot (-9223372036854775808 - lo) 146097)) by fits_side. rewrite bind_ok.
    destruct (Z.ltb_spec (se + 1) (Z.quot (-9223372036854775808 - lo) 146097)) as [Hl|Hl].
    + replace ((se * 146097 + sd <? -9223372036854775808) || (9223372036854775807 <? se * 146097 + sd)) with true by (unfold dd in *; lia).
      reflexivity.
    + replace ((se * 146097 + sd <? -9223372036854775808) || (9223372036854775807 <? se * 146097 + sd)) with false by (unfold dd in *; lia).
      rewrite (arith_fits I64 ((se + 1) * 146097)) by (unfold dd in *; fits_side). rewrite bind_ok.
      rewrite arith_fits by (unfold dd in *; fits_side). rewrite bind_ok. f_equal. unfold dd. lia.
Qed.

(* the date part of tp_of_parts, as a function of its continuation *)
Definition date_steps {A} (year mo day : Z) (K : Z -> outcome A) : outcome A :=
  if year <? tmin I64 + 400 then Err OutOfRange else
  y <- arith I64 (year - (if mo <=? 2 then 1 else 0)) ;;
  let m := cast U32 mo in
  let d := cast U32 day in
  yy <- (if 0 <=? y then Ok y else arith I64 (y - 399)) ;;
  era <- cdiv I64 yy 400 ;;
  e4 <- arith I64 (era * 400) ;;
  ye <- arith I64 (y - e4) ;;
  let yoe := cast U32 ye in
  let mm := if 2 <? m then cast U32 (m - 3) else cast U32 (m + 9) in
  let doy := cast U32 (cast U32 (cast U32 (cast U32 (153 * mm) + 2) / 5 + d) - 1) in
  let doe := cast U32 (cast U32 (cast U32 (yoe * 365) + yoe / 4) - yoe / 100 + doy) in
  days_tail era doe K.

(* the day number exactly, or out_of_range when it is not an int64 *)
Lemma date_steps_exact {A} y m d (K : Z -> outcome A) :
  -30000000000000000 <= y <= 30000000000000000 -> 1 <= m <= 12 -> 1 <= d <= 31 ->
  date_steps y m d K =
  if (days_from_civil y m d <? -9223372036854775808) || (9223372036854775807 <? days_from_civil y m d)
  then Err OutOfRange else K (days_from_civil y m d).
Proof.
  intros Hy Hm Hd. unfold date_steps. cbv zeta.
  change (tmin I64 + 400) with (-9223372036854775408). replace (y <? -9223372036854775408) with false by lia.
  set (b := if m <=? 2 then 1 else 0). assert (Hb : 0 <= b <= 1) by (unfold b; destruct (m <=? 2); lia).
  rewrite arith_fits by fits_side. rewrite bind_ok.
  rewrite (cast_fits U32 m) by fits_side. rewrite (cast_fits U32 d) by fits_side.
  set (y' := y - b) in *. assert (Hy' : -30000000000000001 <= y' <= 30000000000000000) by (unfold y'; lia).
  assert (Eera : (yy <- (if 0 <=? y' then Ok y' else arith I64 (y' - 399)) ;; cdiv I64 yy 400) = Ok (era_of_y y')).
  { unfold era_of_y, cdiv. change (400 =? 0) with false. cbv iota.
    destruct (0 <=? y') eqn:E; [|rewrite arith_fits by fits_side]; rewrite bind_ok, arith_fits by fits_side; reflexivity. }
  assert (Hera : era_of_y y' = y' / 400) by apply era_of_y_div.
  (* the day number in terms of the quantities of this computation *)
  assert (HDe : days_from_civil y m d = era_of_y y' * 146097 + (doe_of y' (era_of_y y') m d - 719468)) by reflexivity.
  set (era := era_of_y y') in *.
  transitivity (era0 <- Ok era ;;
    e4 <- arith I64 (era0 * 400) ;;
    ye <- arith I64 (y' - e4) ;;
    let yoe := cast U32 ye in
    let mm := if 2 <? m then cast U32 (m - 3) else cast U32 (m + 9) in
    let doy := cast U32 (cast U32 (cast U32 (cast U32 (153 * mm) + 2) / 5 + d) - 1) in
    let doe := cast U32 (cast U32 (cast U32 (yoe * 365) + yoe / 4) - yoe / 100 + doy) in
    days_tail era0 doe K).
  { rewrite <- Eera. destruct (0 <=? y'); [reflexivity|]. destruct (arith I64 (y' - 399)); reflexivity. }
  rewrite bind_ok. cbv zeta.
  rewrite arith_fits by fits_side. rewrite bind_ok.
  rewrite arith_fits by fits_side. rewrite bind_ok.
  set (yoe := y' - era * 400) in *. assert (Hyoe : 0 <= yoe <= 399) by (unfold yoe; lia).
  rewrite (cast_fits U32 yoe) by fits_side.
  set (mm := if 2 <? m then cast U32 (m - 3) else cast U32 (m + 9)).
  assert (Emm : mm = if 2 <? m then m - 3 else m + 9).
  { unfold mm. destruct (2 <? m) eqn:E; apply cast_fits; fits_side. }
  assert (Hmm : 0 <= mm <= 11) by (rewrite Emm; destruct (2 <? m) eqn:E; lia).
  clearbody mm.
  repeat match goal with |- context [cast U32 ?x] => rewrite (cast_fits U32 x) by fits_side end.
  set (doe := yoe * 365 + yoe / 4 - yoe / 100 + ((153 * mm + 2) / 5 + d - 1)).
  assert (Hdoe : 0 <= doe <= 150000) by (unfold doe; lia).
  assert (Edoe : doe_of y' era m d = doe).
  { unfold doe_of. cbv zeta. fold yoe. subst mm.
    rewrite !Z.quot_div_nonneg by (try destruct (2 <? m); lia). unfold doe. lia. }
  rewrite Edoe in HDe. rewrite HDe.
  apply days_tail_spec; [unfold era; lia | lia].
Qed.

(* for every date whose day number fits int64 *)
Lemma date_steps_ok {A} y m d (K : Z -> outcome A) :
  -30000000000000000 <= y <= 30000000000000000 -> 1 <= m <= 12 -> 1 <= d <= 31 ->
  -9223372036854775808 <= days_from_civil y m d <= 9223372036854775807 ->
  date_steps y m d K = K (days_from_civil y m d).
Proof.
  intros Hy Hm Hd HD. rewrite date_steps_exact by assumption.
  replace ((days_from_civil y m d <? -9223372036854775808) || (9223372036854775807 <? days_from_civil y m d)) with false by lia.
  reflexivity.
Qed.

Lemma tp_of_parts_unfold P R u :
  tp_of_parts P R u =
  date_steps (u_year u) (u_mo u) (u_day u) (fun days =>
    let D := pty P R in
    h1 <- arith I64 (u_hour u * 3600) ;; m1 <- arith I64 (u_min u * 60) ;;
    t1 <- arith I64 (h1 + m1) ;; time <- arith I64 (t1 + u_sec u) ;;
    if 0 <=? days then
      tp <- safe_add_tp D 0 SecT time ;;
      tp <- (match u_frac u with
             | Some ns => r <- dround NsT D ns ;; safe_add_tp D tp D r
             | None => Ok tp
             end) ;;
      safe_add_tp D tp (mkD I64 86400 1) days
    else
      d1 <- arith I64 (days + 1) ;;
      tp <- safe_add_tp D 0 (mkD I64 86400 1) d1 ;;
      tp <- (match u_frac u with
             | Some ns => r <- dround NsT D ns ;; safe_add_tp D tp D r
             | None => Ok tp
             end) ;;
      back <- arith I64 (time - 86400) ;;
      safe_add_tp D tp SecT back).
Proof. reflexivity. Qed.

Lemma prec_facts P :
  0 < pnum P /\ 0 < pden P /\ (pnum P = 1 \/ pden P = 1) /\ pnum P <= 86400 /\ pden P <= 1000000000 /\
  tpd P * pnum P = 86400 * pden P /\ tick_ns P * pden P = 1000000000 * pnum P.
Proof. destruct P; cbn; repeat split; auto; lia. Qed.

Lemma dty_eqb_refl D : dty_eqb D D = true.
Proof. unfold dty_eqb. rewrite ity_eqb_refl, !Z.eqb_refl. reflexivity. Qed.

Lemma safe_cast_same D c : safe_cast D D c = Ok c.
Proof. unfold safe_cast. rewrite dty_eqb_refl. reflexivity. Qed.

Lemma simple_ratio_prec P r1 r2 n :
  (n = 1 \/ n = 86400) -> simple_ratio (mkD r1 n 1) (mkD r2 (pnum P) (pden P)).
Proof.
  intros [->| ->]; unfold simple_ratio; destruct P; vm_compute; auto.
Qed.

(* seconds (or days) into the operation type of the target precision *)
Lemma cast_into_prec P n c v : (n = 1 \/ n = 86400) -> fits I64 c = true -> fits I64 v = true ->
  v * pnum P = c * (n * pden P) ->
  safe_cast (mkD I64 n 1) (mkD I64 (pnum P) (pden P)) c = Ok v.
Proof.
  intros Hn Hc Hv Hx. destruct (prec_facts P) as (Hpn & Hpd & _ & Hbn & Hbd & _).
  apply safe_cast_complete; cbn [d_rep d_num d_den]; try assumption.
  - right. right. left. reflexivity.
  - right. right. left. reflexivity.
  - split; cbn; destruct Hn; lia.
  - split; cbn; assumption.
  - destruct Hn; subst n; lia.
  - lia.
  - apply simple_ratio_prec; exact Hn.
  - unfold exact_cast. cbn [d_num d_den]. lia.
Qed.

Lemma op_dty_signed P R src : (R = I64 \/ R = I32) -> d_rep src = I64 \/ d_rep src = R ->
  op_dty (pty P R) src = mkD I64 (pnum P) (pden P).
Proof.
  intros HR Hs. unfold op_dty, op_rep, pty. cbn [d_rep d_num d_den]. f_equal.
  destruct HR as [-> | ->], Hs as [-> | ->]; reflexivity.
Qed.

(* ---------- std::chrono::round<duration<R,P>>(nanoseconds) ---------- *)

Lemma odd_even z : Z.odd z = negb (Z.even z).
Proof. rewrite <- Z.negb_even. reflexivity. Qed.

Ltac split_tests :=
  repeat match goal with
         | |- context [?a =? ?b] => destruct (Z.eqb_spec a b)
         | |- context [?a <? ?b] => destruct (Z.ltb_spec a b)
         end.

Ltac tie_case :=
  match goal with
  | |- context [Z.odd ?q] =>
    match goal with |- context [Z.even ?p] => replace q with p by lia end
  end; rewrite odd_even; destruct (Z.even _); cbn [negb]; f_equal; lia.

Lemma dround_ns P R ns : (R = I64 \/ R = I32) -> -999999999 <= ns <= 999999999 ->
  dround NsT (pty P R) ns = Ok (round_half_even ns (tick_ns P)).
Proof.
  intros HR Hns. unfold dround.
  destruct P; destruct HR as [-> | ->]; open_types; repeat tstep;
    unfold round_half_even, tick_ns; cbv zeta; split_tests; first [f_equal; lia | tie_case].
Qed.

Lemma rhe_exact cnt k : 0 < k -> round_half_even (cnt * k) k = cnt.
Proof.
  intros Hk. unfold round_half_even. cbv zeta.
  rewrite Z.div_mul, Z.mod_mul by lia. replace (2 * 0 <? k) with true by lia. reflexivity.
Qed.

