(* ChronoTpRt.v — To(string) -> time_point on the fields of an exact instant, and the round trip
   print -> parse of time points. *)
From BS Require Import Base ChronoSpec ChronoModel ChronoArith ChronoDecimal ChronoSweep ChronoCalendar ChronoYear
  ChronoSafe ChronoSafeAdd ChronoText ChronoTp ChronoTpParse.
From Coq Require Import ZifyBool ZifyN ZifyNat.
Local Open Scope Z_scope.
Ltac Zify.zify_post_hook ::= Z.to_euclidean_division_equations.

(* ---------- the whole of To(string) -> time_point on the fields of an exact instant ---------- *)

Lemma tp_of_parts_ok P R t y m d :
  c14_rep P R -> fits R t = true ->
  valid_date (y, m, d) -> days_from_civil y m d = t / tpd P ->
  -10000000000000000 <= y <= 10000000000000000 ->
  fits I64 (t / tpd P * tpd P) = true ->
  let tod := t mod tpd P in let sec := sec_of P tod in
  tp_of_parts P R (mkUtc y m d (sec / 3600) (sec mod 3600 / 60) (sec mod 60)
                         (if sub_second P then Some (tod mod pden P * tick_ns P) else None)) = Ok t.
Proof.
  intros HR Ht Hv Hday Hy Hf30 tod sec.
  destruct (prec_facts P) as (Hpn & Hpd & Hone & Hbn & Hbd & Htpd & Htick).
  assert (HR' : R = I64 \/ R = I32) by (destruct HR as [?|[? _]]; auto).
  assert (Htod : 0 <= tod < tpd P) by (unfold tod; apply Z.mod_pos_bound, tpd_pos).
  pose proof (sec_of_bounds P tod Htod) as Hsec. fold sec in Hsec.
  destruct Hv as [Hm Hd]. pose proof (dim_bounds y m) as Hdim.
  rewrite tp_of_parts_unfold. cbn [u_year u_mo u_day u_hour u_min u_sec u_frac].
  rewrite date_steps_ok by lia. rewrite Hday. cbv zeta.
  rewrite (arith_fits I64 (sec / 3600 * 3600)) by fits_side. rewrite bind_ok.
  rewrite (arith_fits I64 (sec mod 3600 / 60 * 60)) by fits_side. rewrite bind_ok.
  rewrite arith_fits by fits_side. rewrite bind_ok.
  rewrite arith_fits by fits_side. rewrite bind_ok.
  replace (sec / 3600 * 3600 + sec mod 3600 / 60 * 60 + sec mod 60) with sec by lia.
  set (D := pty P R).
  assert (HD : rep4 (d_rep D) /\ wf_dty D).
  { unfold D, pty, wf_dty, rep4. cbn [d_rep d_num d_den]. destruct HR' as [-> | ->]; auto. }
  destruct HD as [HDr HDw].
  set (frac := if sub_second P then tod mod pden P else 0).
  assert (Hfrac : 0 <= frac < pden P /\ tod = sec * pden P / pnum P + frac /\ (sec * pden P) mod pnum P = 0).
  { unfold frac, sec, sec_of. destruct P; cbn [sub_second pnum pden] in *; unfold tpd in Htod; lia. }
  destruct Hfrac as (Hfr1 & Hfr2 & Hfr3).
  set (tod1 := sec * pden P / pnum P) in *.
  assert (Htod1 : 0 <= tod1 <= tod) by lia.
  assert (HfitR : forall x, 0 <= x <= tod -> fits R x = true).
  { intros x Hx. apply fits_iff. destruct HR as [-> | [-> Hs]]; unfold tmin, tmax, half; cbn [is_signed]; [destruct P; unfold tpd in *; lia|].
    destruct P; try discriminate Hs; unfold tpd in *; lia. }
  (* 1. the time of day *)
  assert (S1 : safe_add_tp D 0 SecT sec = Ok tod1).
  { rewrite safe_add_tp_spec; try assumption; [| left; reflexivity | apply HfitR; lia | apply fits_I64; lia].
    destruct (Z.eqb_spec sec 0) as [E0|E0].
    - f_equal. unfold tod1. rewrite E0. reflexivity.
    - unfold D. rewrite (op_dty_signed P R SecT HR' ltac:(left; reflexivity)).
      change SecT with (mkD I64 1 1).
      rewrite (cast_into_prec P 1 sec tod1); [| left; reflexivity | apply fits_I64; lia | apply fits_I64; destruct P; unfold tpd in *; lia |].
      + cbn [as_out_of_range bind]. rewrite Z.add_0_l, HfitR by lia. reflexivity.
      + unfold tod1. pose proof (Z.div_mod (sec * pden P) (pnum P) ltac:(lia)). lia. }
  rewrite S1, bind_ok.
  (* 2. the fraction *)
  assert (S2 : (match (if sub_second P then Some (tod mod pden P * tick_ns P) else None) with
                | Some ns => r <- dround NsT D ns ;; safe_add_tp D tod1 D r
                | None => Ok tod1
                end) = Ok tod).
  { destruct (sub_second P) eqn:Es.
    - assert (Hfr : frac = tod mod pden P) by (unfold frac; try rewrite Es; reflexivity). rewrite <- Hfr.
      assert (Htk : 0 < tick_ns P /\ frac * tick_ns P <= 999999999) by (destruct P; try discriminate Es; cbn [tick_ns pden] in *; lia).
      unfold D. rewrite dround_ns by (try assumption; lia). rewrite bind_ok, rhe_exact by lia. fold D.
      rewrite safe_add_tp_spec; try assumption; [| right; reflexivity | apply HfitR; lia | apply HfitR; lia].
      destruct (Z.eqb_spec frac 0) as [E0|E0]; [f_equal; lia|].
      assert (Eop : op_dty D D = D).
      { unfold D. rewrite (op_dty_signed P R (pty P R) HR' ltac:(right; reflexivity)).
        destruct HR as [-> | [-> Hs]]; [reflexivity | rewrite Es in Hs; discriminate Hs]. }
      rewrite Eop, safe_cast_same. cbn [as_out_of_range bind].
      rewrite HfitR by lia. f_equal. lia.
    - f_equal. unfold frac in *. try rewrite Es in *. lia. }
  rewrite S2, bind_ok.
  (* 3. the days *)
  rewrite safe_add_tp_spec; try assumption; [| left; reflexivity | apply HfitR; lia |].
  2:{ apply fits_I64. apply fits_iff in Ht. pose proof (tpd_pos P).
      assert (tmin R >= -9223372036854775808 /\ tmax R <= 9223372036854775807) by (destruct HR' as [-> | ->]; vm_compute; split; discriminate).
      split; [apply Z.div_le_lower_bound; nia | apply Z.div_le_upper_bound; nia]. }
  pose proof (Z.div_mod t (tpd P) ltac:(pose proof (tpd_pos P); lia)) as Hdm. fold tod in Hdm.
  destruct (Z.eqb_spec (t / tpd P) 0) as [E0|E0]; [f_equal; rewrite E0 in Hdm; lia|].
  unfold D. rewrite (op_dty_signed P R (mkD I64 86400 1) HR' ltac:(left; reflexivity)).
  rewrite (cast_into_prec P 86400 (t / tpd P) (t / tpd P * tpd P)); [| right; reflexivity | | exact Hf30 | nia].
  2:{ apply fits_I64. apply fits_iff in Ht. pose proof (tpd_pos P).
      assert (tmin R >= -9223372036854775808 /\ tmax R <= 9223372036854775807) by (destruct HR' as [-> | ->]; vm_compute; split; discriminate).
      split; [apply Z.div_le_lower_bound; nia | apply Z.div_le_upper_bound; nia]. }
  cbn [as_out_of_range bind].
  replace (tod + t / tpd P * tpd P) with t by lia. unfold pty. cbn [d_rep]. rewrite Ht. reflexivity.
Qed.

(* ------------------------------------------------------------------ T_C14_parse_print *)

Lemma dim_le_table y m : 1 <= m <= 12 -> dim y m <= DaysInMonth m.
Proof.
  intros Hm. unfold dim, DaysInMonth.
  assert (Hc : m = 1 \/ m = 2 \/ m = 3 \/ m = 4 \/ m = 5 \/ m = 6 \/ m = 7 \/ m = 8 \/ m = 9 \/ m = 10 \/ m = 11 \/ m = 12) by lia.
  destruct Hc as [?|[?|[?|[?|[?|[?|[?|[?|[?|[?|[?|?]]]]]]]]]]]; subst m; cbn; destruct (leap y); lia.
Qed.

Theorem tp_roundtrip P R t : c14_rep P R -> fits R t = true -> rt_defect P R t = false ->
  exists text, tp_print P R t = Ok text /\ tp_parse P R text = Ok t.
Proof.
  intros HR Ht Hdef.
  destruct (tp_print_text P R t HR Ht Hdef) as (y & m & d & Ec & Hv & Hd & Hyk & E). cbv zeta in E.
  set (tod := t mod tpd P) in *. set (sec := sec_of P tod) in *.
  eexists. split; [exact E|].
  assert (Htod : 0 <= tod < tpd P) by (unfold tod; apply Z.mod_pos_bound, tpd_pos).
  pose proof (sec_of_bounds P tod Htod) as Hsec. fold sec in Hsec.
  assert (Hk : (4 <= year_k P <= 15)%nat) by (destruct P; cbn; lia).
  assert (H15 : p10 (year_k P) <= p10 15) by (apply p10_mono; lia).
  change (p10 15) with 1000000000000000 in H15.
  destruct Hv as [Hm Hdd]. pose proof (dim_le_table y m Hm) as Htab.
  unfold tp_parse.
  rewrite parse_printed; try lia.
  2:{ apply fits_I64. lia. }
  2:{ change (p10 18) with 1000000000000000000. lia. }
  2:{ unfold frac_opt. destruct (sub_second P) eqn:Es; [|exact I].
      split; [unfold frac_width; destruct P; try discriminate Es; cbn; auto|].
      replace (p10 (frac_digits P)) with (pden P) by (destruct P; try discriminate Es; reflexivity).
      apply Z.mod_pos_bound. destruct P; cbn; lia. }
  rewrite bind_ok.
  assert (Efr : (match frac_opt P tod with
                 | Some (w, cnt) => Some (cnt * 10 ^ (9 - Z.of_nat w))
                 | None => None
                 end) = (if sub_second P then Some (tod mod pden P * tick_ns P) else None)).
  { unfold frac_opt. destruct (sub_second P) eqn:Es; [|reflexivity].
    f_equal. f_equal. destruct P; try discriminate Es; reflexivity. }
  rewrite Efr.
  apply (tp_of_parts_ok P R t y m d HR Ht (conj Hm Hdd)); try lia.
  - rewrite days_from_civil_spec by (split; assumption). exact Hd.
  - apply fits_I64. unfold rt_defect in Hdef. cbv zeta in Hdef. apply fits_iff in Ht. pose proof (tpd_pos P).
    assert (tmin R >= -9223372036854775808 /\ tmax R <= 9223372036854775807) by (destruct HR as [-> | [-> _]]; vm_compute; split; discriminate).
    pose proof (Z.div_mod t (tpd P) ltac:(lia)). pose proof (Z.mod_pos_bound t (tpd P) ltac:(lia)). lia.
Qed.
