(* ChronoTpRt.v — To(string) -> time_point on the fields of an exact instant, and the round trip
   print -> parse of time points. *)
From BS Require Import Base ChronoSpec ChronoModel ChronoArith ChronoDecimal ChronoSweep ChronoCalendar ChronoYear
  ChronoSafe ChronoSafeAdd ChronoText ChronoTp ChronoTpParse.
From Coq Require Import ZifyBool ZifyN ZifyNat.
Local Open Scope Z_scope.
Ltac Zify.zify_post_hook ::= Z.to_euclidean_division_equations.

(* one SafeAddDuration step of the parser: seconds (n = 1) or days (n = 86400) into the time point *)
Lemma add_step P R tp n c v : c14_rep P R -> (n = 1 \/ n = 86400) ->
  fits R tp = true -> fits I64 c = true -> fits I64 v = true -> v * pnum P = c * (n * pden P) ->
  fits R (tp + v) = true ->
  safe_add_tp (pty P R) tp (mkD I64 n 1) c = Ok (tp + v).
Proof.
  intros HR Hn Htp Hc Hv Hx Hsum.
  destruct (prec_facts P) as (Hpn & Hpd & _).
  assert (HD : rep4 (d_rep (pty P R)) /\ wf_dty (pty P R)).
  { unfold pty, wf_dty, rep4. cbn [d_rep d_num d_den]. destruct HR as [-> | ->]; auto. }
  destruct HD as [HDr HDw].
  rewrite safe_add_tp_spec; try assumption; [| left; reflexivity].
  destruct (Z.eqb_spec c 0) as [E0|E0].
  - assert (v = 0) by nia. subst v. rewrite Z.add_0_r. reflexivity.
  - rewrite (op_dty_signed P R (mkD I64 n 1) HR ltac:(left; reflexivity)).
    rewrite (cast_into_prec P n c v Hn Hc Hv Hx). cbn [as_out_of_range bind pty d_rep]. rewrite Hsum. reflexivity.
Qed.

(* the fraction step *)
Lemma add_frac P R tp r : c14_rep P R -> fits R tp = true -> fits R r = true -> fits R (tp + r) = true ->
  safe_add_tp (pty P R) tp (pty P R) r = Ok (tp + r).
Proof.
  intros HR Htp Hr Hsum.
  destruct (prec_facts P) as (Hpn & Hpd & _).
  assert (HD : rep4 (d_rep (pty P R)) /\ wf_dty (pty P R)).
  { unfold pty, wf_dty, rep4. cbn [d_rep d_num d_den]. destruct HR as [-> | ->]; auto. }
  destruct HD as [HDr HDw].
  rewrite safe_add_tp_spec; try assumption; [| right; reflexivity].
  destruct (Z.eqb_spec r 0) as [E0|E0]; [subst r; rewrite Z.add_0_r; reflexivity|].
  assert (Ecast : safe_cast (pty P R) (op_dty (pty P R) (pty P R)) r = Ok r).
  { destruct HR as [-> | ->].
    - change (op_dty (pty P I64) (pty P I64)) with (pty P I64). apply safe_cast_same.
    - apply safe_cast_complete; cbn [op_dty op_rep pty d_rep d_num d_den].
      + right. left. reflexivity.
      + right. right. left. reflexivity.
      + split; cbn; lia.
      + split; cbn; lia.
      + destruct (prec_facts P) as (_ & _ & _ & ? & ? & _). nia.
      + destruct (prec_facts P) as (_ & _ & _ & ? & ? & _). nia.
      + exact Hr.
      + unfold simple_ratio. rewrite (ratio_div_self (mkD I32 (pnum P) (pden P))); [left; reflexivity | split; cbn; lia | reflexivity | reflexivity].
      + apply fits_I32 in Hr. apply fits_I64. lia.
      + unfold exact_cast, op_dty, pty. cbn [d_num d_den]. ring. }
  rewrite Ecast. cbn [as_out_of_range bind pty d_rep]. rewrite Hsum. reflexivity.
Qed.

(* ---------- the whole of To(string) -> time_point on the fields of an exact instant ---------- *)

Lemma tp_of_parts_ok P R t y m d :
  c14_rep P R -> fits R t = true ->
  valid_date (y, m, d) -> days_from_civil y m d = t / tpd P ->
  -30000000000000000 <= y <= 30000000000000000 ->
  let tod := t mod tpd P in let sec := sec_of P tod in
  tp_of_parts P R (mkUtc y m d (sec / 3600) (sec mod 3600 / 60) (sec mod 60)
                         (if sub_second P then Some (tod mod pden P * tick_ns P) else None)) = Ok t.
Proof.
  intros HR Ht Hv Hday Hy tod sec.
  destruct (prec_facts P) as (Hpn & Hpd & Hone & Hbn & Hbd & Htpd & Htick).
  pose proof (tpd_pos P) as Htp0.
  assert (Htod : 0 <= tod < tpd P) by (unfold tod; apply Z.mod_pos_bound; exact Htp0).
  pose proof (sec_of_bounds P tod Htod) as Hsec. fold sec in Hsec.
  destruct Hv as [Hm Hd]. pose proof (dim_bounds y m) as Hdim.
  assert (Ht64 : -9223372036854775808 <= t <= 9223372036854775807).
  { apply fits_iff in Ht. destruct HR as [-> | ->]; unfold tmin, tmax, half in Ht; cbn [is_signed] in Ht; lia. }
  set (day := t / tpd P) in *.
  assert (Hdm : t = day * tpd P + tod) by (unfold day, tod; pose proof (Z.div_mod t (tpd P) ltac:(lia)); lia).
  assert (Hday64 : -9223372036854775808 <= day <= 9223372036854775807).
  { unfold day. split; [apply Z.div_le_lower_bound; nia | apply Z.div_le_upper_bound; nia]. }
  rewrite tp_of_parts_unfold. cbn [u_year u_mo u_day u_hour u_min u_sec u_frac].
  rewrite date_steps_ok by lia. rewrite Hday. cbv zeta.
  rewrite (arith_fits I64 (sec / 3600 * 3600)) by fits_side. rewrite bind_ok.
  rewrite (arith_fits I64 (sec mod 3600 / 60 * 60)) by fits_side. rewrite bind_ok.
  rewrite arith_fits by fits_side. rewrite bind_ok.
  rewrite arith_fits by fits_side. rewrite bind_ok.
  replace (sec / 3600 * 3600 + sec mod 3600 / 60 * 60 + sec mod 60) with sec by lia.
  set (frac := if sub_second P then tod mod pden P else 0).
  assert (Hfrac : 0 <= frac < pden P /\ tod = sec * pden P / pnum P + frac /\ (sec * pden P) mod pnum P = 0).
  { unfold frac, sec, sec_of. destruct P; cbn [sub_second pnum pden] in *; unfold tpd in Htod; lia. }
  destruct Hfrac as (Hfr1 & Hfr2 & Hfr3).
  set (tod1 := sec * pden P / pnum P) in *.
  assert (Htod1 : 0 <= tod1 <= tod) by lia.
  assert (Hx1 : tod1 * pnum P = sec * pden P) by (unfold tod1; pose proof (Z.div_mod (sec * pden P) (pnum P) ltac:(lia)); lia).
  pose proof (rep_bounds R) as HB. apply fits_iff in Ht.
  assert (HfR : forall x, (0 <= x <= t \/ t <= x <= 0) -> fits R x = true) by (intros x Hx; apply fits_iff; lia).
  assert (Hf0 : fits R 0 = true) by (apply fits_iff; lia).
  (* the fraction step, uniformly *)
  assert (Sfrac : forall tp, fits R tp = true -> fits R (tp + frac) = true -> fits R frac = true ->
     (match (if sub_second P then Some (tod mod pden P * tick_ns P) else None) with
      | Some ns => r <- dround NsT (pty P R) ns ;; safe_add_tp (pty P R) tp (pty P R) r
      | None => Ok tp
      end) = Ok (tp + frac)).
  { intros tp Htpf Hsum Hff. destruct (sub_second P) eqn:Es.
    - assert (Hfr : frac = tod mod pden P) by (unfold frac; try rewrite Es; reflexivity). rewrite <- Hfr.
      assert (Htk : 0 < tick_ns P /\ frac * tick_ns P <= 999999999) by (destruct P; try discriminate Es; cbn [tick_ns pden] in *; lia).
      rewrite dround_ns by (try exact HR; lia). rewrite bind_ok, rhe_exact by lia.
      apply add_frac; assumption.
    - f_equal. unfold frac. try rewrite Es. lia. }
  assert (Hpdb : pden P <= 1000000000) by exact Hbd.
  destruct (Z.leb_spec 0 day) as [Hdp|Hdn].
  - (* on or after the epoch: time, fraction, days *)
    assert (Ht0 : 0 <= t) by nia.
    assert (Hdt : 0 <= day * tpd P <= t) by nia.
    change SecT with (mkD I64 1 1).
    rewrite (add_step P R 0 1 sec tod1); try assumption; try (left; reflexivity);
      [| apply fits_I64; lia | apply fits_I64; lia | lia | apply HfR; lia].
    rewrite bind_ok, Z.add_0_l.
    rewrite Sfrac by (apply HfR; lia). rewrite bind_ok.
    rewrite (add_step P R (tod1 + frac) 86400 day (day * tpd P)); try assumption; try (right; reflexivity);
      [| apply HfR; lia | apply fits_I64; lia | apply fits_I64; lia | nia | apply HfR; lia].
    f_equal. lia.
  - (* before the epoch: next day, fraction, back by the rest of the day *)
    assert (Ht0 : t < 0) by nia.
    set (a1 := (day + 1) * tpd P).
    assert (Ha1 : t < a1 <= 0) by (unfold a1; nia).
    rewrite arith_fits by fits_side. rewrite bind_ok.
    rewrite (add_step P R 0 86400 (day + 1) a1); try assumption; try (right; reflexivity);
      [| apply fits_I64; lia | apply fits_I64; lia | unfold a1; nia | apply HfR; lia].
    rewrite bind_ok, Z.add_0_l.
    assert (Hff : fits R frac = true).
    { apply fits_iff. destruct HR as [-> | ->]; unfold tmin, tmax, half; cbn [is_signed]; lia. }
    assert (Hsumf : fits R (a1 + frac) = true).
    { apply fits_iff. destruct HR as [-> | ->]; unfold tmin, tmax, half in *; cbn [is_signed] in *; lia. }
    rewrite Sfrac by (try assumption; apply HfR; lia). rewrite bind_ok.
    rewrite arith_fits by fits_side. rewrite bind_ok.
    change SecT with (mkD I64 1 1).
    rewrite (add_step P R (a1 + frac) 1 (sec - 86400) (tod1 - tpd P)); try assumption; try (left; reflexivity);
      [| apply fits_I64; lia | apply fits_I64; destruct P; unfold tpd in *; lia | nia | ].
    + f_equal. unfold a1. lia.
    + replace (a1 + frac + (tod1 - tpd P)) with t by (unfold a1; lia). apply fits_iff. exact Ht.
Qed.

(* ------------------------------------------------------------------ T_C14_parse_print *)

Theorem tp_roundtrip P R t : c14_rep P R -> fits R t = true ->
  exists text, tp_print P R t = Ok text /\ tp_parse P R text = Ok t.
Proof.
  intros HR Ht.
  destruct (tp_print_text P R t HR Ht) as (y & m & d & Ec & Hv & Hd & Hyk & E). cbv zeta in E.
  set (tod := t mod tpd P) in *. set (sec := sec_of P tod) in *.
  eexists. split; [exact E|].
  assert (Htod : 0 <= tod < tpd P) by (unfold tod; apply Z.mod_pos_bound, tpd_pos).
  pose proof (sec_of_bounds P tod Htod) as Hsec. fold sec in Hsec.
  assert (Hk : (4 <= year_k P <= 17)%nat) by (destruct P; cbn; lia).
  assert (H17 : p10 (year_k P) <= p10 17) by (apply p10_mono; lia).
  change (p10 17) with 100000000000000000 in H17.
  assert (Hy3 : -30000000000000000 <= y <= 30000000000000000).
  { pose proof (year_linear y m d Hv) as Hlin. cbv zeta in Hlin. rewrite Hd in Hlin.
    assert (-9223372036854775808 <= t / tpd P).
    { apply fits_iff in Ht. pose proof (tpd_pos P).
      assert (tmin R >= -9223372036854775808) by (destruct HR as [-> | ->]; vm_compute; discriminate).
      apply Z.div_le_lower_bound; nia. }
    assert (t / tpd P <= 9223372036854775807).
    { apply fits_iff in Ht. pose proof (tpd_pos P).
      assert (tmax R <= 9223372036854775807) by (destruct HR as [-> | ->]; vm_compute; discriminate).
      apply Z.div_le_upper_bound; nia. }
    lia. }
  unfold tp_parse.
  rewrite parse_printed; try assumption; try lia.
  2:{ apply fits_I64. lia. }
  2:{ change (p10 19) with 10000000000000000000. lia. }
  2:{ unfold frac_opt. destruct (sub_second P) eqn:Es; [|exact I].
      split; [unfold frac_width; destruct P; try discriminate Es; cbn; auto|].
      replace (p10 (frac_digits P)) with (pden P) by (destruct P; try discriminate Es; reflexivity).
      apply Z.mod_pos_bound. destruct P; cbn; lia. }
  rewrite bind_ok.
  assert (Efr : (match frac_opt P tod with
                 | Some (w, cnt) => Some (cnt * 10 ^ (9 - Z.of_nat w))
                 | None => None
                 end) = (if sub_second P then Some (tod mod pden P * tick_ns P) else None)).
  { unfold frac_opt. destruct (sub_second P) eqn:Es; [|reflexivity].
    f_equal. f_equal. destruct P; try discriminate Es; reflexivity. }
  rewrite Efr.
  apply (tp_of_parts_ok P R t y m d HR Ht Hv); try lia.
  rewrite days_from_civil_spec by exact Hv. exact Hd.
Qed.
