(* ChronoTs.v — CBinTimestamp conversions (bin_timestamp.h after the F07 repair, SafeDurationCast after 30f5d3e): value -> (floor
   seconds, nanoseconds in 0..999999999) -> value is the identity for every representable value. *)
From BS Require Import Base ChronoSpec ChronoModel ChronoArith ChronoDecimal ChronoSweep ChronoCalendar ChronoYear
  ChronoSafe ChronoSafeAdd ChronoText ChronoTp ChronoTpParse.
From Coq Require Import ZifyBool ZifyN ZifyNat.
Local Open Scope Z_scope.
Ltac Zify.zify_post_hook ::= Z.to_euclidean_division_equations.

Ltac rep4_cases H := destruct H as [->|[->|[->| ->]]].

Ltac unfits := unfold fits, tmin, tmax, half, modulus in *; cbn [is_signed] in *.

(* ---------- value -> timestamp ---------- *)

Lemma ts_to_subsecond P R t : rep4 R -> sub_second P = true -> fits R t = true ->
  ts_to P R t = Ok (ts_of_ns (t * tick_ns P)).
Proof.
  intros HR Hs Ht. apply fits_iff in Ht. unfold ts_to, ts_of_ns, normalize_negative_fraction. rewrite Hs.
  destruct P; try discriminate Hs; rep4_cases HR; unfold tmin, tmax, half, modulus in Ht; cbn [is_signed] in Ht;
    cbn [tick_ns]; open_types; repeat tstep;
    match goal with |- context [?a <? 0] => destruct (Z.ltb_spec a 0) end; repeat tstep; f_equal; f_equal; lia.
Qed.

Lemma simple_ratio_to_sec P r1 r2 : sub_second P = false -> simple_ratio (mkD r1 (pnum P) (pden P)) (mkD r2 1 1).
Proof. intros Hs. unfold simple_ratio. destruct P; try discriminate Hs; vm_compute; auto. Qed.

Lemma simple_ratio_from_sec P r1 r2 : simple_ratio (mkD r1 1 1) (mkD r2 (pnum P) (pden P)).
Proof. unfold simple_ratio. destruct P; vm_compute; auto. Qed.

Lemma ratio_snd_to_sec P r1 r2 : sub_second P = false -> snd (ratio_div (mkD r1 (pnum P) (pden P)) (mkD r2 1 1)) = 1.
Proof. intros Hs. destruct P; try discriminate Hs; reflexivity. Qed.

Lemma ts_to_coarse P R t : rep4 R -> sub_second P = false -> fits R t = true ->
  ts_to P R t = if fits I64 (t * pnum P) then Ok (ts_of_ns (t * tick_ns P)) else Err OutOfRange.
Proof.
  intros HR Hs Ht. unfold ts_to. rewrite Hs.
  destruct (prec_facts P) as (Hpn & Hpd & _ & Hbn & Hbd & _).
  assert (Hpd1 : pden P = 1) by (destruct P; try discriminate Hs; reflexivity).
  assert (Htk : tick_ns P = 1000000000 * pnum P) by (destruct P; try discriminate Hs; reflexivity).
  assert (Hts : ts_of_ns (t * tick_ns P) = (t * pnum P, 0)).
  { unfold ts_of_ns. rewrite Htk. f_equal; lia. }
  unfold pty, SecT.
  destruct (fits I64 (t * pnum P)) eqn:Ef.
  - rewrite (safe_cast_complete _ _ t (t * pnum P)); cbn [d_rep d_num d_den]; try assumption.
    + rewrite bind_ok, Hts. reflexivity.
    + right. right. left. reflexivity.
    + split; cbn; lia.
    + split; cbn; lia.
    + lia.
    + lia.
    + apply simple_ratio_to_sec; exact Hs.
    + unfold exact_cast. cbn [d_num d_den]. lia.
  - rewrite safe_cast_reject; cbn [d_rep d_num d_den]; try assumption; try reflexivity.
    + right. right. left. reflexivity.
    + split; cbn; lia.
    + split; cbn; lia.
    + lia.
    + lia.
    + apply simple_ratio_to_sec; exact Hs.
    + intros v Hv Hx. unfold exact_cast in Hx. cbn [d_num d_den] in Hx.
      assert (v = t * pnum P) by lia. subst v. congruence.
Qed.

(* ---------- timestamp -> value, on the timestamp of a representable value ---------- *)

Lemma split_ok sec ns : fits I64 sec = true -> 0 <= ns <= 999999999 ->
  split_towards_zero sec ns = Ok (if (sec <? 0) && (0 <? ns) then (sec + 1, ns - 1000000000) else (sec, ns)).
Proof.
  intros Hs Hn. apply fits_I64 in Hs. unfold split_towards_zero.
  destruct ((sec <? 0) && (0 <? ns)) eqn:E; [|reflexivity].
  rewrite arith_fits by (apply fits_I64; lia). rewrite bind_ok.
  rewrite arith_fits by (apply fits_I32; lia). rewrite bind_ok.
  rewrite cast_fits by (apply fits_I32; lia). reflexivity.
Qed.

(* seconds and nanoseconds of the same sign that make up t ticks *)
Definition tz_parts (P : prec) (t : Z) : Z * Z :=
  let '(sec, ns) := ts_of_ns (t * tick_ns P) in
  if (sec <? 0) && (0 <? ns) then (sec + 1, ns - 1000000000) else (sec, ns).

Lemma tz_parts_spec P t : let '(s, n) := tz_parts P t in
  s * 1000000000 + n = t * tick_ns P /\ -999999999 <= n <= 999999999 /\
  (0 <= t -> 0 <= s /\ 0 <= n) /\ (t <= 0 -> s <= 0 /\ n <= 0).
Proof.
  unfold tz_parts, ts_of_ns.
  assert (Htk : 0 < tick_ns P) by (destruct P; reflexivity).
  set (x := t * tick_ns P).
  assert (Hx : (0 <= t -> 0 <= x) /\ (t <= 0 -> x <= 0)) by (unfold x; nia).
  clearbody x.
  destruct ((x / 1000000000 <? 0) && (0 <? x mod 1000000000)) eqn:E; lia.
Qed.

Lemma cast_from_sec P R s v : rep4 R -> fits I64 s = true -> fits R v = true ->
  (R = U64 -> 0 <= s) -> v * pnum P = s * pden P ->
  safe_cast SecT (pty P R) s = Ok v.
Proof.
  intros HR Hs Hv Hu Hx. destruct (prec_facts P) as (Hpn & Hpd & _ & Hbn & Hbd & _).
  unfold SecT, pty.
  apply safe_cast_complete; cbn [d_rep d_num d_den]; try assumption.
  - right. right. left. reflexivity.
  - split; cbn; lia.
  - split; cbn; lia.
  - lia.
  - lia.
  - apply simple_ratio_from_sec.
  - unfold exact_cast. cbn [d_num d_den]. lia.
Qed.

Lemma dround_ns_u64 P ns : 0 <= ns <= 999999999 ->
  dround NsT (pty P U64) ns = Ok (round_half_even ns (tick_ns P)).
Proof.
  intros Hns. unfold dround.
  destruct P; open_types; repeat tstep;
    unfold round_half_even, tick_ns; cbv zeta; split_tests; first [f_equal; lia | tie_case].
Qed.

Definition rep3 (R : ity) : Prop := R = I64 \/ R = I32 \/ R = U64.

Lemma dround_rep3 P R ns : rep3 R -> -999999999 <= ns <= 999999999 -> (R = U64 -> 0 <= ns) ->
  dround NsT (pty P R) ns = Ok (round_half_even ns (tick_ns P)).
Proof.
  intros [->|[->| ->]] Hns Hu; [apply dround_ns; auto | apply dround_ns; auto | apply dround_ns_u64; specialize (Hu eq_refl); lia].
Qed.

Lemma safe_cast_widen P R r : rep3 R -> fits R r = true ->
  safe_cast (pty P R) (op_dty (pty P R) (pty P R)) r = Ok r.
Proof.
  intros HR Hr. destruct HR as [->|[->| ->]].
  - change (op_dty (pty P I64) (pty P I64)) with (pty P I64). apply safe_cast_same.
  - apply safe_cast_complete; cbn [op_dty op_rep pty d_rep d_num d_den]; destruct (prec_facts P) as (Hpn & Hpd & _ & Hbn & Hbd & _).
    + right. left. reflexivity.
    + right. right. left. reflexivity.
    + split; cbn; lia.
    + split; cbn; lia.
    + nia.
    + nia.
    + exact Hr.
    + unfold simple_ratio. rewrite (ratio_div_self (mkD I32 (pnum P) (pden P))); [left; reflexivity | split; cbn; lia | reflexivity | reflexivity].
    + apply fits_I32 in Hr. apply fits_I64. lia.
    + unfold exact_cast, op_dty, pty. cbn [d_num d_den]. ring.
  - change (op_dty (pty P U64) (pty P U64)) with (pty P U64). apply safe_cast_same.
Qed.

Theorem ts_from_roundtrip P R t : rep3 R -> fits R t = true ->
  fits I64 (fst (ts_of_ns (t * tick_ns P))) = true ->
  ts_from_tp P R (fst (ts_of_ns (t * tick_ns P))) (snd (ts_of_ns (t * tick_ns P))) = Ok t /\
  ts_from_dur P R (fst (ts_of_ns (t * tick_ns P))) (snd (ts_of_ns (t * tick_ns P))) = Ok t.
Proof.
  intros HR Ht Hsec.
  assert (HR4 : rep4 R) by (destruct HR as [->|[->| ->]]; unfold rep4; auto).
  destruct (prec_facts P) as (Hpn & Hpd & Hone & Hbn & Hbd & Htpd & Htick).
  assert (Htk : 0 < tick_ns P) by (destruct P; reflexivity).
  pose proof (tz_parts_spec P t) as Hz. unfold tz_parts in Hz.
  unfold ts_from_tp, ts_from_dur.
  destruct (ts_of_ns (t * tick_ns P)) as [sec ns] eqn:Ets. cbn [fst snd] in *.
  assert (Hns : 0 <= ns <= 999999999).
  { unfold ts_of_ns in Ets. injection Ets as _ <-. lia. }
  rewrite (split_ok sec ns Hsec Hns). rewrite !bind_ok.
  destruct ((sec <? 0) && (0 <? ns)) eqn:Esp.
  - (* negative with a fraction: only for sub-second precisions *)
    destruct Hz as (Hsum & Hn & Hpos & Hneg).
    set (s' := sec + 1) in *. set (n' := ns - 1000000000) in *.
    assert (Ht0 : t < 0).
    { unfold ts_of_ns in Ets. injection Ets as <- <-. nia. }
    destruct (Hneg ltac:(lia)) as [Hs' Hn'].
    assert (Hsub : sub_second P = true).
    { destruct (sub_second P) eqn:E; [reflexivity|]. exfalso.
      assert (tick_ns P = 1000000000 * pnum P) by (destruct P; try discriminate E; reflexivity).
      unfold ts_of_ns in Ets. injection Ets as _ Hmod. rewrite H in Hmod. lia. }
    assert (Hp1 : pnum P = 1 /\ above_second P = false) by (destruct P; try discriminate Hsub; split; reflexivity).
    destruct Hp1 as [Hp1 Hab].
    assert (Htk2 : tick_ns P * pden P = 1000000000) by lia.
    assert (Hn'm : n' mod tick_ns P = 0).
    { assert (n' = (t - s' * pden P) * tick_ns P) by nia. rewrite H. apply Z.mod_mul. lia. }
    set (r := n' / tick_ns P).
    assert (Hr : n' = r * tick_ns P) by (unfold r; pose proof (Z.div_mod n' (tick_ns P) ltac:(lia)); lia).
    assert (Htr : t = s' * pden P + r) by nia.
    assert (Hrb : r <= 0 /\ s' * pden P <= 0) by nia.
    assert (HfR : forall x, t <= x <= 0 -> fits R x = true).
    { intros x Hx. apply fits_iff. apply fits_iff in Ht. pose proof (rep_bounds R). lia. }
    assert (Hsu : R = U64 -> 0 <= s').
    { intros ->. apply fits_U64 in Ht. lia. }
    assert (Hfs' : fits I64 s' = true) by (apply fits_I64; apply fits_I64 in Hsec; unfold s'; lia).
    rewrite (cast_from_sec P R s' (s' * pden P)); try assumption; [| apply HfR; lia | lia].
    rewrite !bind_ok. replace (n' =? 0) with false by lia. rewrite Hab.
    rewrite dround_rep3 by (try assumption; try lia; intros ->; apply fits_U64 in Ht; lia).
    rewrite Hr, rhe_exact by lia. rewrite !bind_ok.
    split.
    + rewrite safe_add_tp_spec; try assumption; [| unfold pty, wf_dty; cbn; lia | right; reflexivity | apply HfR; lia | apply HfR; lia].
      destruct (Z.eqb_spec r 0) as [E0|E0]; [f_equal; lia|].
      rewrite safe_cast_widen by (try assumption; apply HfR; lia). cbn [as_out_of_range bind pty d_rep].
      rewrite HfR by lia. f_equal. lia.
    + rewrite safe_add_dur_spec; try assumption; [| unfold pty, wf_dty; cbn; lia | apply HfR; lia | apply HfR; lia].
      destruct (Z.eqb_spec r 0) as [E0|E0]; [f_equal; lia|].
      rewrite safe_cast_same. cbn [bind pty d_rep]. rewrite HfR by lia. f_equal. lia.
  - (* no split: seconds and nanoseconds already of one sign *)
    destruct Hz as (Hsum & Hn & Hpos & Hneg).
    assert (Hsgn : (0 <= t /\ 0 <= sec) \/ (t < 0 /\ ns = 0 /\ sec < 0)).
    { unfold ts_of_ns in Ets. injection Ets as <- <-. destruct (Z.le_gt_cases 0 t); [left; nia | right]. lia. }
    destruct (sub_second P) eqn:Hsub.
    + assert (Hp1 : pnum P = 1 /\ above_second P = false) by (destruct P; try discriminate Hsub; split; reflexivity).
      destruct Hp1 as [Hp1 Hab].
      assert (Htk2 : tick_ns P * pden P = 1000000000) by lia.
      assert (Hnm : ns mod tick_ns P = 0).
      { assert (ns = (t - sec * pden P) * tick_ns P) by nia. rewrite H. apply Z.mod_mul. lia. }
      set (r := ns / tick_ns P).
      assert (Hr : ns = r * tick_ns P) by (unfold r; pose proof (Z.div_mod ns (tick_ns P) ltac:(lia)); lia).
      assert (Htr : t = sec * pden P + r) by nia.
      assert (Hr0 : 0 <= r) by nia.
      assert (HfR : forall x, (0 <= x <= t \/ t <= x <= 0) -> fits R x = true).
      { intros x Hx. apply fits_iff. apply fits_iff in Ht. pose proof (rep_bounds R). lia. }
      assert (Hsp : (0 <= t /\ 0 <= sec * pden P <= t) \/ (t < 0 /\ r = 0 /\ sec * pden P = t)) by nia.
      assert (Hsu : R = U64 -> 0 <= sec).
      { intros ->. apply fits_U64 in Ht. lia. }
      rewrite (cast_from_sec P R sec (sec * pden P)); try assumption; [| apply HfR; lia | lia].
      rewrite !bind_ok.
      destruct (Z.eqb_spec ns 0) as [E0|E0]; [split; f_equal; nia|].
      rewrite Hab.
      rewrite dround_rep3 by (try assumption; lia).
      rewrite Hr, rhe_exact by lia. rewrite !bind_ok.
      assert (Hrne : r <> 0) by nia.
      split.
      * rewrite safe_add_tp_spec; try assumption; [| unfold pty, wf_dty; cbn; lia | right; reflexivity | apply HfR; lia | apply HfR; lia].
        replace (r =? 0) with false by lia.
        rewrite safe_cast_widen by (try assumption; apply HfR; lia). cbn [as_out_of_range bind pty d_rep].
        rewrite HfR by lia. f_equal. lia.
      * rewrite safe_add_dur_spec; try assumption; [| unfold pty, wf_dty; cbn; lia | apply HfR; lia | apply HfR; lia].
        replace (r =? 0) with false by lia.
        rewrite safe_cast_same. cbn [bind pty d_rep]. rewrite HfR by lia. f_equal. lia.
    + assert (Htk3 : tick_ns P = 1000000000 * pnum P /\ pden P = 1) by (destruct P; try discriminate Hsub; split; reflexivity).
      destruct Htk3 as [Htk3 Hpd1].
      assert (Hns0 : ns = 0 /\ sec = t * pnum P).
      { unfold ts_of_ns in Ets. injection Ets as <- <-. rewrite Htk3. split; lia. }
      destruct Hns0 as [-> ->].
      assert (Hsu : R = U64 -> 0 <= t * pnum P).
      { intros ->. apply fits_U64 in Ht. nia. }
      rewrite (cast_from_sec P R (t * pnum P) t); try assumption; [| lia].
      rewrite !bind_ok. split; reflexivity.
Qed.

(* value -> timestamp for every precision *)
Theorem ts_to_ok P R t : rep4 R -> fits R t = true -> fits I64 (fst (ts_of_ns (t * tick_ns P))) = true ->
  ts_to P R t = Ok (ts_of_ns (t * tick_ns P)).
Proof.
  intros HR Ht Hs. destruct (sub_second P) eqn:E.
  - apply ts_to_subsecond; assumption.
  - rewrite ts_to_coarse by assumption.
    assert (Htk : tick_ns P = 1000000000 * pnum P) by (destruct P; try discriminate E; reflexivity).
    replace (fits I64 (t * pnum P)) with true; [reflexivity|]. rewrite <- Hs. unfold ts_of_ns. cbn [fst]. f_equal. rewrite Htk. lia.
Qed.

Lemma ts_of_ns_range x : let '(s, n) := ts_of_ns x in 0 <= n <= 999999999 /\ s * 1000000000 + n = x.
Proof. unfold ts_of_ns. lia. Qed.
