(* ChronoWide.v — C14 / C15 on the other entry points of convert_chrono.h: char16_t / char32_t text (Utf8::Encode, then
   the char parser), struct tm (the calendar fields printed / parsed as they are) and CRawTime (time_t seconds). *)
From BS Require Import Base UtfSpec UtfModel UtfLemmas UtfProofs NumTextLemmas NumTextProofs
  ChronoSpec ChronoModel ChronoArith ChronoDecimal ChronoSweep ChronoCalendar ChronoYear
  ChronoSafe ChronoSafeAdd ChronoText ChronoTp ChronoTpParse ChronoTpRt ChronoDur ChronoDurPrint ChronoDurParse ChronoDurRt
  ChronoClassify ChronoClassify2 ChronoClassify3 ChronoReject ChronoDurClassify ChronoTotal ChronoDurReject.
From Coq Require Import ZifyBool ZifyN ZifyNat.
Local Open Scope Z_scope.

(* ------------------------------------------------------------------ wide text *)

(* the narrowing of well-formed text is its UTF-8 form (C11, transcode_exact') *)
Lemma narrow_exact w cps : Forall scalar cps -> narrow w (encs w cps) = encs W8 cps.
Proof. intros H. unfold narrow. rewrite (transcode_exact' w W8 Skip _ cps [] H). reflexivity. Qed.

(* To(basic_string_view<char16_t / char32_t>, time_point& / duration&) = the char entry point on the UTF-8 form *)
Theorem tp_wide_exact w P R cps : Forall scalar cps ->
  tp_parse_wide w P R (encs w cps) = tp_parse P R (encs W8 cps).
Proof. intros H. unfold tp_parse_wide. rewrite (narrow_exact w cps H). reflexivity. Qed.

Theorem dur_wide_exact w P R cps : Forall scalar cps ->
  dur_parse_wide w P R (encs w cps) = dur_parse P R (encs W8 cps).
Proof. intros H. unfold dur_parse_wide. rewrite (narrow_exact w cps H). reflexivity. Qed.

(* the same text gives the same result in every string width *)
Theorem tp_width_independent w1 w2 P R cps : Forall scalar cps ->
  tp_parse_wide w1 P R (encs w1 cps) = tp_parse_wide w2 P R (encs w2 cps).
Proof. intros H. rewrite !tp_wide_exact by exact H. reflexivity. Qed.

Theorem dur_width_independent w1 w2 P R cps : Forall scalar cps ->
  dur_parse_wide w1 P R (encs w1 cps) = dur_parse_wide w2 P R (encs w2 cps).
Proof. intros H. rewrite !dur_wide_exact by exact H. reflexivity. Qed.

(* ASCII text (every text of the two grammars) is its own encoding in every width *)
Theorem tp_wide_ascii w P R s : Forall (fun u => (u < 0x80)%N) s -> tp_parse_wide w P R s = tp_parse P R s.
Proof.
  intros Ha. rewrite <- (encs_ascii w s Ha) at 1. rewrite tp_wide_exact by (apply ascii_scalars; exact Ha).
  rewrite (encs_ascii W8 s Ha). reflexivity.
Qed.

Theorem dur_wide_ascii w P R s : Forall (fun u => (u < 0x80)%N) s -> dur_parse_wide w P R s = dur_parse P R s.
Proof.
  intros Ha. rewrite <- (encs_ascii w s Ha) at 1. rewrite dur_wide_exact by (apply ascii_scalars; exact Ha).
  rewrite (encs_ascii W8 s Ha). reflexivity.
Qed.

(* any code units at all, well-formed or not (ill-formed sequences are replaced by the mark, C12): the totality
   theorems of the char entry points carry over *)
Theorem tp_wide_total w P R units : c14_rep P R -> safe_outcome R (tp_parse_wide w P R units).
Proof. intros HR. unfold tp_parse_wide. apply tp_total. exact HR. Qed.

Theorem dur_wide_total w P R units : rep2 R ->
  dur_safe R (dur_loose (narrow w units)) (dur_parse_wide w P R units).
Proof. intros HR. unfold dur_parse_wide. apply dur_total. exact HR. Qed.

(* ------------------------------------------------------------------ struct tm *)

(* printing never touches memory outside the buffer, whatever the six int fields hold: the text, or the
   "insufficient buffer" runtime_error *)
Theorem tm_print_total y mo d h mi s :
  tm_print y mo d h mi s = Err RuntimeError \/ exists text, tm_print y mo d h mi s = Ok text.
Proof.
  unfold tm_print, print_iso_utc.
  set (pre := if 10000 <=? y then [c_plus] else if y <? 0 then [c_minus] else []).
  set (body := pad0 4 _ ++ _).
  destruct (Z.leb_spec (BufSize - Z.of_nat (length pre)) (Z.of_nat (length body))) as [H|H]; [left; reflexivity|].
  right. rewrite bind_ok.
  replace (Z.of_nat (length pre) + Z.of_nat (length body) =? BufSize) with false by lia.
  unfold put. replace ((0 <=? Z.of_nat (length pre) + Z.of_nat (length body)) && (Z.of_nat (length pre) + Z.of_nat (length body) <? BufSize)) with true by lia.
  rewrite bind_ok. eexists. reflexivity.
Qed.

(* calendar fields with an int year: the ISO text of exactly these fields, and it parses back to them *)
Theorem tm_roundtrip y mo d h mi s : fits I32 y = true -> valid_date (y, mo, d) ->
  0 <= h <= 23 -> 0 <= mi <= 59 -> 0 <= s <= 59 ->
  tm_print y mo d h mi s = Ok (iso_text Ps (mkDT y mo d h mi s 0)) /\
  tm_parse (iso_text Ps (mkDT y mo d h mi s 0)) = Ok (y, mo, d, h, mi, s).
Proof.
  intros Hy Hv Hh Hmi Hs. apply fits_I32 in Hy.
  pose proof Hv as [Hmo Hd]. pose proof (dim_bounds y mo) as Hdim.
  assert (Hy64 : fits I64 y = true) by (apply fits_I64; lia).
  assert (Hlen : (length (year_text y) <= 11)%nat).
  { apply (year_text_length y 10); [change (p10 10) with 10000000000; lia | lia]. }
  assert (Etext : iso_text Ps (mkDT y mo d h mi s 0) = printed_text y mo d h mi s None).
  { unfold iso_text, printed_text, frac_text. cbn [dt_y dt_mo dt_d dt_h dt_mi dt_s dt_ns sub_second frac_digits]. reflexivity. }
  rewrite Etext. split.
  - unfold tm_print. apply (print_iso_utc_ok y mo d h mi s None Hy64); try lia.
  - unfold tm_parse.
    rewrite (parse_printed y mo d h mi s None Hy64); try assumption; try exact I.
    2:{ change (p10 19) with 10000000000000000000. lia. }
    rewrite bind_ok. cbn [u_year u_mo u_day u_hour u_min u_sec].
    replace ((tmax I32 <? y) || (y <? tmin I32)) with false
      by (unfold tmax, tmin, half; cbn [is_signed]; lia).
    rewrite cast_fits by (apply fits_I32; lia). reflexivity.
Qed.

(* ------------------------------------------------------------------ CRawTime = time_point<seconds, time_t> *)

Theorem rt_roundtrip c : fits I64 c = true ->
  rt_print c = Ok (iso_text Ps (spec_datetime Ps c)) /\ rt_parse (iso_text Ps (spec_datetime Ps c)) = Ok c.
Proof.
  intros Hc. unfold rt_print, rt_parse.
  assert (HR : c14_rep Ps I64) by (left; reflexivity).
  pose proof (tp_print_correct Ps I64 c HR Hc) as Ep.
  destruct (tp_roundtrip Ps I64 c HR Hc) as (text & E1 & E2).
  rewrite Ep in E1. inversion E1. subst text. auto.
Qed.
