(* ChronoYear.v — order facts about the calendar of the specification: the day count is monotone in
   the year, a date's day number lies inside its year, and bounds of the year from bounds of the day. *)
From BS Require Import Base ChronoSpec ChronoModel ChronoSweep ChronoCalendar.
From Coq Require Import ZifyBool ZifyN ZifyNat.
Local Open Scope Z_scope.
Ltac Zify.zify_post_hook ::= Z.to_euclidean_division_equations.

Definition leapz (y : Z) : Z := if leap y then 1 else 0.

Lemma dby_succ y : days_before_year (y + 1) = days_before_year y + 365 + leapz y.
Proof.
  unfold days_before_year, leaps_through, leapz, leap.
  replace (y + 1 - 1) with y by lia.
  destruct (y mod 4 =? 0) eqn:E4, (y mod 100 =? 0) eqn:E100, (y mod 400 =? 0) eqn:E400; cbn [negb orb andb]; lia.
Qed.

Lemma dby_mono_step y : days_before_year y < days_before_year (y + 1).
Proof. rewrite dby_succ. unfold leapz. destruct (leap y); lia. Qed.

Lemma dby_mono y y' : y <= y' -> days_before_year y <= days_before_year y'.
Proof.
  intros H. replace y' with (y + Z.of_nat (Z.to_nat (y' - y))) by lia.
  induction (Z.to_nat (y' - y)) as [|n IH]; [rewrite Z.add_0_r; lia|].
  rewrite Nat2Z.inj_succ. replace (y + Z.succ (Z.of_nat n)) with (y + Z.of_nat n + 1) by lia.
  pose proof (dby_mono_step (y + Z.of_nat n)). lia.
Qed.

Definition cum_days (m : Z) : Z :=
  match m with
  | 1 => 0 | 2 => 31 | 3 => 59 | 4 => 90 | 5 => 120 | 6 => 151
  | 7 => 181 | 8 => 212 | 9 => 243 | 10 => 273 | 11 => 304 | _ => 334
  end.

Lemma dbm_table y m : 1 <= m <= 12 ->
  days_before_month y m = cum_days m + (if 2 <? m then leapz y else 0) /\
  dim y m = (if m =? 2 then 28 + leapz y else if (m =? 4) || (m =? 6) || (m =? 9) || (m =? 11) then 30 else 31).
Proof.
  intros Hm.
  assert (Hc : m = 1 \/ m = 2 \/ m = 3 \/ m = 4 \/ m = 5 \/ m = 6 \/ m = 7 \/ m = 8 \/ m = 9 \/ m = 10 \/ m = 11 \/ m = 12) by lia.
  unfold days_before_month, dim, leapz.
  destruct Hc as [?|[?|[?|[?|[?|[?|[?|[?|[?|[?|[?|?]]]]]]]]]]]; subst m; destruct (leap y); split; reflexivity.
Qed.

Lemma dbm_bounds y m d : valid_date (y, m, d) -> 0 <= days_before_month y m + (d - 1) < 365 + leapz y.
Proof.
  unfold valid_date. intros [Hm Hd]. destruct (dbm_table y m Hm) as [E1 E2]. rewrite E1. rewrite E2 in Hd.
  assert (Hl : leapz y = 0 \/ leapz y = 1) by (unfold leapz; destruct (leap y); auto).
  set (L := leapz y) in *. clearbody L.
  assert (Hc : m = 1 \/ m = 2 \/ m = 3 \/ m = 4 \/ m = 5 \/ m = 6 \/ m = 7 \/ m = 8 \/ m = 9 \/ m = 10 \/ m = 11 \/ m = 12) by lia.
  destruct Hc as [?|[?|[?|[?|[?|[?|[?|[?|[?|[?|[?|?]]]]]]]]]]]; subst m;
    cbn [cum_days Z.ltb Z.eqb Z.compare Pos.compare Pos.compare_cont Pos.eqb orb] in *; lia.
Qed.

(* a date lies inside its year *)
Lemma day_in_year y m d : valid_date (y, m, d) ->
  days_before_year y <= days_of_civil (y, m, d) < days_before_year (y + 1).
Proof. intros Hv. pose proof (dbm_bounds y m d Hv). rewrite dby_succ. unfold days_of_civil. lia. Qed.

(* the year of a day, bracketed by any two year starts *)
Lemma year_lt y m d Y : valid_date (y, m, d) -> days_of_civil (y, m, d) < days_before_year Y -> y < Y.
Proof.
  intros Hv H. pose proof (day_in_year y m d Hv). destruct (Z.lt_ge_cases y Y) as [|Hge]; [assumption|].
  pose proof (dby_mono Y y Hge). lia.
Qed.

Lemma year_ge y m d Y : valid_date (y, m, d) -> days_before_year Y <= days_of_civil (y, m, d) -> Y <= y.
Proof.
  intros Hv H. pose proof (day_in_year y m d Hv). destruct (Z.le_gt_cases Y y) as [|Hlt]; [assumption|].
  pose proof (dby_mono (y + 1) Y ltac:(lia)). lia.
Qed.

(* crude linear bounds: |y - 1970| is at most |day| / 365 + 1 *)
Lemma year_linear y m d : valid_date (y, m, d) ->
  let day := days_of_civil (y, m, d) in
  (1970 <= y -> 365 * (y - 1970) <= day) /\ (y < 1970 -> day < 365 * (y - 1970) + 366).
Proof.
  intros Hv day. pose proof (day_in_year y m d Hv) as H. fold day in H.
  rewrite dby_succ in H. unfold leapz in H.
  unfold days_before_year, leaps_through in *. change (1969 / 4 - 1969 / 100 + 1969 / 400) with 477 in *.
  split; intros Hy; destruct (leap y); lia.
Qed.

(* the date of a day number, with what the proofs about printing need *)
Lemma civil_facts day : exists y m d,
  civil_from_days day = (y, m, d) /\ valid_date (y, m, d) /\ days_of_civil (y, m, d) = day /\ days_from_civil y m d = day.
Proof.
  pose proof (civil_valid day) as Hv. pose proof (days_of_civil_from_days day) as Hi.
  destruct (civil_from_days day) as [[y m] d]. exists y, m, d.
  split; [reflexivity|]. split; [exact Hv|]. split; [rewrite <- days_from_civil_spec by exact Hv|]; exact Hi.
Qed.
