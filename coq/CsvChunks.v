(* CsvChunks.v — C09: the CSV stream reader fed an ARBITRARY list of non-empty chunks (csv_load_chunks, CsvModel.v):
   what CEncodedStreamReader<char> hands to CCsvStreamReader when the source is UTF-16/32 (decoded chunks of varying
   sizes, a character cut by the end of a window carried over to the next chunk).  Instance of the generic source of
   CsvStreamProofs.v / CsvStreamTotal.v: the loader's answer depends on the concatenation of the chunks only. *)
From BS Require Import Base CsvSpec CsvSpecProofs CsvModel CsvWriterProofs CsvReaderProofs CsvStreamProofs CsvTotalProofs CsvStreamTotal.
From Coq Require Import ZifyBool ZifyN ZifyNat.
Local Open Scope N_scope.

Definition nonempty (c : list N) : Prop := c <> [].

Definition chunks_rest (c : list (list N) * bool) : list N := concat (fst c).
Definition chunks_ok (c : list (list N) * bool) : Prop := Forall nonempty (fst c) /\ (snd c = true -> fst c = []).

Lemma chunks_rd_spec early c : chunks_ok c ->
  match chunks_rd early c with
  | (Some chunk, c') => chunk <> [] /\ chunk ++ chunks_rest c' = chunks_rest c /\ True /\ chunks_ok c'
  | (None, c') => chunks_rest c = [] /\ chunks_rest c' = [] /\ chunks_iend c' = true /\ chunks_ok c'
  end.
Proof.
  destruct c as [l eof]. intros [F He]. unfold chunks_rd, chunks_rest, chunks_ok, chunks_iend in *. cbn [fst snd] in *.
  destruct l as [|x r].
  - cbn. repeat split; auto.
  - inversion F as [|? ? Hx Fr]. subst. split; [exact Hx|]. split; [reflexivity|]. split; [exact I|].
    cbn [fst snd]. split; [exact Fr|]. intros H. destruct eof; [specialize (He eq_refl); discriminate|].
    cbn [orb] in H. apply andb_true_iff in H. destruct H as [_ H]. apply is_nil_true in H. exact H.
Qed.

Lemma chunks_iend_spec c : chunks_ok c -> chunks_iend c = true -> chunks_rest c = [].
Proof.
  intros _ H. unfold chunks_iend in H. apply andb_true_iff in H. destruct H as [H _]. apply is_nil_true in H.
  unfold chunks_rest. rewrite H. reflexivity.
Qed.

Lemma chunks_start chunks : Forall nonempty chunks -> chunks_ok (chunks, false).
Proof. intros F. split; [exact F | discriminate]. Qed.

(* whatever rendering the chunks concatenate to: the rows, or ParsingError when a record's width differs *)
Theorem csv_load_chunks_render early sep chs final hdr rows keys chunks : allowed sep -> Forall nonempty chunks ->
  render sep chs final (hdr :: rows) = Some (concat chunks) ->
  csv_load_chunks early sep keys chunks = load_expect hdr keys rows.
Proof.
  intros A F R. unfold csv_load_chunks.
  apply (csv_load_src_render (chunks_rd early) chunks_iend chunks_rest chunks_ok (chunks_rd_spec early) chunks_iend_spec
           sep chs final hdr rows (concat chunks)); try assumption; try reflexivity;
    try (apply chunks_start; exact F); try (unfold chunks_rest; cbn [fst]; lia).
Qed.

(* the chunking plays no role: the same answer as the memory reader on the concatenation (same rows or same error) *)
Theorem csv_load_chunks_eq_mem early sep chs final t keys chunks : allowed sep -> Forall nonempty chunks ->
  render sep chs final t = Some (concat chunks) ->
  csv_load_chunks early sep keys chunks = csv_load sep keys (concat chunks).
Proof.
  intros A F R. destruct t as [|hdr rows]; [rewrite render_nil in R; discriminate|].
  rewrite (csv_load_chunks_render early sep chs final hdr rows keys chunks A F R).
  rewrite (csv_load_render sep chs final hdr rows _ keys A R). reflexivity.
Qed.

Theorem csv_load_chunks_rfc early sep chs final hdr rows keys chunks : allowed sep -> NoDup hdr -> uniform hdr rows ->
  Forall nonempty chunks -> render sep chs final (hdr :: rows) = Some (concat chunks) ->
  csv_load_chunks early sep keys chunks = Ok (select hdr keys rows).
Proof.
  intros A ND U F R. rewrite (csv_load_chunks_render early sep chs final hdr rows keys chunks A F R).
  unfold load_expect. rewrite (widths_ok_uniform _ _ U), (read_rows_select _ _ _ ND U). reflexivity.
Qed.

(* total on arbitrary chunks: rows or a catchable error, no hang, no read outside the buffer *)
Theorem csv_load_chunks_total early sep keys chunks : Forall nonempty chunks -> clean (csv_load_chunks early sep keys chunks).
Proof.
  intros F. unfold csv_load_chunks.
  apply (csv_load_src_total (chunks_rd early) chunks_iend chunks_rest chunks_ok (chunks_rd_spec early) chunks_iend_spec).
  - apply chunks_start. exact F.
  - unfold chunks_rest. cbn [fst]. lia.
Qed.

(* ---------- the chunks of exactly K bytes ---------- *)
Fixpoint chop (K fuel : nat) (l : list N) : list (list N) :=
  match fuel with
  | O => []
  | S f => match l with [] => [] | _ => firstn K l :: chop K f (skipn K l) end
  end.
Definition chunks_of (K : nat) (l : list N) : list (list N) := chop K (length l) l.

Lemma chop_spec K : (0 < K)%nat -> forall fuel l, (length l <= fuel)%nat ->
  concat (chop K fuel l) = l /\ Forall nonempty (chop K fuel l).
Proof.
  intros HK. induction fuel as [|fuel IH]; intros l Hl.
  - destruct l; [split; [reflexivity | constructor] | cbn in Hl; lia].
  - cbn [chop]. destruct l as [|x l']; [split; [reflexivity | constructor]|].
    set (l := x :: l') in *.
    destruct (IH (skipn K l)) as [C F].
    { rewrite skipn_length. subst l. cbn [length] in *. lia. }
    split.
    + cbn [concat]. rewrite C. apply firstn_skipn.
    + constructor; [|exact F]. unfold nonempty. subst l. destruct K; [lia|]. discriminate.
Qed.

Lemma chunks_of_spec K l : (0 < K)%nat -> concat (chunks_of K l) = l /\ Forall nonempty (chunks_of K l).
Proof. intros HK. apply chop_spec; [exact HK | lia]. Qed.

(* the UTF-8 stream reader with chunk size K answers as the reader fed the K-sized chunks of the payload *)
Theorem csv_load_stream_is_chunks K early sep chs final t text keys : (0 < K)%nat -> allowed sep ->
  render sep chs final t = Some (stream_payload K text) ->
  csv_load_stream K sep keys text = csv_load_chunks early sep keys (chunks_of K (stream_payload K text)).
Proof.
  intros HK A R. destruct (chunks_of_spec K (stream_payload K text) HK) as [C F].
  rewrite (csv_load_stream_eq_mem K sep chs final t text keys HK A R).
  rewrite (csv_load_chunks_eq_mem early sep chs final t keys _ A F) by (rewrite C; exact R).
  rewrite C. reflexivity.
Qed.

Lemma chunks_example :
  csv_load_chunks false 59 [[98]; [97]] [[97]; [59; 98; 10; 34]; [120; 34; 34; 59; 34; 59; 34]; [49]; [34; 13]; [10; 59; 10]] =
    Ok [[Some [49]; Some [120; 34; 59]]; [Some []; Some []]] /\
  csv_load_chunks true 59 [[98]; [97]] [[97; 59; 98; 10; 34; 120; 34; 34; 59; 34; 59; 34; 49; 34; 13; 10; 59; 10]] =
    Ok [[Some [49]; Some [120; 34; 59]]; [Some []; Some []]].
Proof. vm_compute. split; reflexivity. Qed.
