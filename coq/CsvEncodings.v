(* CsvEncodings.v — C09 composed with C13: a CSV table stored in any of the five encoding schemes.
   CCsvStreamReader owns a CEncodedStreamReader<char> and sees the file only as the chunks its ReadChunk calls deliver
   and through IsEnd.  csv_load_encoded = the CSV loader of CsvModel.v fed the chunk list of the stream family's model
   of that reader (StreamChunks.esr_chunks over StreamModel.v: BOM / detection, windows of K bytes, decoding to UTF-8,
   a character cut by the end of a window carried over). *)
From BS Require Import Base UtfSpec CsvSpec CsvSpecProofs CsvModel CsvWriterProofs CsvReaderProofs CsvStreamProofs CsvChunks.
From BS Require UtfModel StreamIStream StreamSpec StreamModel StreamLossless StreamChunks.
Local Open Scope N_scope.

(* None: the encoded reader reported DecodeError / did not finish within fuel ReadChunk calls *)
Definition csv_load_encoded (K : nat) (pol : UtfModel.policy) (mark : list N) (fuel : nat) (sep : N) (keys : list (list N))
                            (data : list N) (seekable : bool) : option (outcome (list (list (option (list N))))) :=
  match StreamChunks.esr_chunks K W8 pol mark fuel (StreamIStream.stream_of data seekable) with
  | Some (chunks, early) => Some (csv_load_chunks early sep keys chunks)
  | None => None
  end.

(* the text is cps (code points), its UTF-8 form is an RFC 4180 rendering; the stream carries cps in scheme e, with or
   without BOM: the stream load answers exactly as the memory load of the UTF-8 text, for every chunk size *)
Theorem csv_load_encoded_eq_mem K pol mark fuel sep keys e b cps chs final t sk :
  (K mod 4 = 0)%nat -> (32 <= K)%nat -> Forall scalar cps ->
  StreamSpec.detectable b cps -> StreamLossless.stream_defect e b cps = false ->
  allowed sep -> render sep chs final t = Some (encs W8 cps) ->
  (length (StreamSpec.with_bom b e cps) < fuel)%nat ->
  csv_load_encoded K pol mark fuel sep keys (StreamSpec.with_bom b e cps) sk = Some (csv_load sep keys (encs W8 cps)).
Proof.
  intros H4 H32 Hs Hd Hn A R Hf. unfold csv_load_encoded.
  destruct (StreamChunks.esr_chunks_lossless K H4 H32 W8 pol mark e b cps Hs Hd Hn sk fuel Hf) as [chunks [early [E [F C]]]].
  rewrite E. f_equal. rewrite <- C.
  apply (csv_load_chunks_eq_mem early sep chs final t keys chunks A F). rewrite C. exact R.
Qed.

Theorem csv_load_encoded_rfc K pol mark fuel sep keys e b cps chs final hdr rows sk :
  (K mod 4 = 0)%nat -> (32 <= K)%nat -> Forall scalar cps ->
  StreamSpec.detectable b cps -> StreamLossless.stream_defect e b cps = false ->
  allowed sep -> NoDup hdr -> uniform hdr rows ->
  render sep chs final (hdr :: rows) = Some (encs W8 cps) ->
  (length (StreamSpec.with_bom b e cps) < fuel)%nat ->
  csv_load_encoded K pol mark fuel sep keys (StreamSpec.with_bom b e cps) sk = Some (CsvModel.Ok (select hdr keys rows)).
Proof.
  intros H4 H32 Hs Hd Hn A ND U R Hf.
  rewrite (csv_load_encoded_eq_mem K pol mark fuel sep keys e b cps chs final (hdr :: rows) sk H4 H32 Hs Hd Hn A R Hf).
  f_equal. apply (csv_load_rfc sep chs final hdr rows _ keys A ND U R).
Qed.

(* hdr "a;€", row "1;ü": UTF-16LE with BOM, UTF-32BE without *)
Lemma encoded_example :
  csv_load_encoded 32 UtfModel.Skip [0x3F] 100 59 [[0xE2; 0x82; 0xAC]; [97]]
    (StreamSpec.with_bom true StreamSpec.Utf16le [97; 59; 0x20AC; 10; 49; 59; 0xFC; 10]) true =
    Some (CsvModel.Ok [[Some [0xC3; 0xBC]; Some [49]]]) /\
  csv_load_encoded 32 UtfModel.Skip [0x3F] 100 59 [[0xE2; 0x82; 0xAC]; [97]]
    (StreamSpec.with_bom false StreamSpec.Utf32be [97; 59; 0x20AC; 10; 49; 59; 0xFC; 10]) true =
    Some (CsvModel.Ok [[Some [0xC3; 0xBC]; Some [49]]]).
Proof. vm_compute. split; reflexivity. Qed.
