(* CsvHistProofs.v — C03 on the CSV archive: a request program per row (any order, repeats, absent names, columns never
   asked for), memory reader, stream reader of every chunk size, arbitrary chunk lists.  The loops are proved in
   CsvReaderProofs.v (load_hist_spec) and CsvStreamProofs.v (s_load_hist_spec, over any chunk source); here the
   statements on the three loaders, the by-name reading for distinct header names, and what happens otherwise. *)
From BS Require Import Base CsvSpec CsvSpecProofs CsvModel CsvWriterProofs CsvReaderProofs CsvStreamProofs CsvTotalProofs CsvStreamTotal CsvChunks.
From Coq Require Import ZifyBool ZifyN ZifyNat.
Local Open Scope N_scope.

(* ---------- the column of a name ---------- *)
Lemma cell_absent hdr : forall row key, ~ In key hdr -> cell hdr row key = None.
Proof.
  induction hdr as [|h hdr IH]; intros [|v row] key Hn; cbn; try reflexivity.
  destruct (list_eqb h key) eqn:E.
  - apply list_eqb_eq in E. subst. exfalso. apply Hn. left. reflexivity.
  - apply IH. intros H. apply Hn. right. exact H.
Qed.

Lemma cell_present hdr row key j : NoDup hdr -> length row = length hdr -> nth_error hdr j = Some key ->
  cell hdr row key = nth_error row j.
Proof.
  intros ND Hl Hj. rewrite (cell_find hdr row key Hl), (find_header_nodup hdr key ND j Hj). reflexivity.
Qed.

(* ---------- the three loaders on a rendering ---------- *)
Theorem hist_mem sep chs final hdr rows text progs : allowed sep -> uniform hdr rows ->
  render sep chs final (hdr :: rows) = Some text ->
  csv_load_hist sep progs text = Ok (hist_rows hdr progs rows).
Proof.
  intros A U R. rewrite (csv_load_hist_render sep chs final hdr rows text progs A R).
  unfold hist_expect. rewrite (widths_ok_uniform _ _ U). reflexivity.
Qed.

Theorem hist_stream K sep chs final hdr rows text progs : (0 < K)%nat -> allowed sep -> uniform hdr rows ->
  render sep chs final (hdr :: rows) = Some (stream_payload K text) ->
  csv_load_stream_hist K sep progs text = Ok (hist_rows hdr progs rows).
Proof.
  intros HK A U R. rewrite (csv_load_stream_hist_render K sep chs final hdr rows text progs HK A R).
  unfold hist_expect. rewrite (widths_ok_uniform _ _ U). reflexivity.
Qed.

Theorem csv_load_chunks_hist_render early sep chs final hdr rows progs chunks : allowed sep -> Forall nonempty chunks ->
  render sep chs final (hdr :: rows) = Some (concat chunks) ->
  csv_load_chunks_hist early sep progs chunks = hist_expect hdr progs rows.
Proof.
  intros A F R. unfold csv_load_chunks_hist.
  apply (csv_load_src_hist_render (chunks_rd early) chunks_iend chunks_rest chunks_ok (chunks_rd_spec early) chunks_iend_spec
           sep chs final hdr rows (concat chunks)); try assumption; try reflexivity;
    try (apply chunks_start; exact F); try (unfold chunks_rest; cbn [fst]; lia).
Qed.

Theorem hist_chunks early sep chs final hdr rows progs chunks : allowed sep -> uniform hdr rows -> Forall nonempty chunks ->
  render sep chs final (hdr :: rows) = Some (concat chunks) ->
  csv_load_chunks_hist early sep progs chunks = Ok (hist_rows hdr progs rows).
Proof.
  intros A U F R. rewrite (csv_load_chunks_hist_render early sep chs final hdr rows progs chunks A F R).
  unfold hist_expect. rewrite (widths_ok_uniform _ _ U). reflexivity.
Qed.

(* a record of another width: rejected whatever is requested *)
Theorem hist_width sep chs final hdr recs text progs : allowed sep ->
  render sep chs final (hdr :: recs) = Some text -> Exists (fun r => length r <> length hdr) recs ->
  csv_load_hist sep progs text = Err ParsingError /\
  (forall K stext, (0 < K)%nat -> stream_payload K stext = text -> csv_load_stream_hist K sep progs stext = Err ParsingError).
Proof.
  intros A R E. split.
  - rewrite (csv_load_hist_render sep chs final hdr recs text progs A R). unfold hist_expect. rewrite (widths_ok_ragged _ _ E). reflexivity.
  - intros K stext HK Es. rewrite (csv_load_stream_hist_render K sep chs final hdr recs stext progs HK A) by (rewrite Es; exact R).
    unfold hist_expect. rewrite (widths_ok_ragged _ _ E). reflexivity.
Qed.

(* ---------- by name: distinct header names ---------- *)
Theorem hist_named_all sep chs final hdr rows text progs : allowed sep -> NoDup hdr -> uniform hdr rows ->
  render sep chs final (hdr :: rows) = Some text ->
  csv_load_hist sep progs text = Ok (hist_named hdr progs rows) /\
  (forall K stext, (0 < K)%nat -> stream_payload K stext = text ->
     csv_load_stream_hist K sep progs stext = Ok (hist_named hdr progs rows)) /\
  (forall early chunks, Forall nonempty chunks -> concat chunks = text ->
     csv_load_chunks_hist early sep progs chunks = Ok (hist_named hdr progs rows)).
Proof.
  intros A ND U R. rewrite <- (hist_rows_named hdr ND rows progs U). split; [|split].
  - apply (hist_mem sep chs final); assumption.
  - intros K stext HK Es. apply (hist_stream K sep chs final); try assumption. rewrite Es. exact R.
  - intros early chunks F Ec. apply (hist_chunks early sep chs final); try assumption. rewrite Ec. exact R.
Qed.

(* ---------- the full-strength statement (the first column of that name, whatever the header) and its witness ---------- *)
Definition hist_first_match_statement : Prop :=
  forall sep chs final hdr rows text progs, allowed sep -> uniform hdr rows ->
    render sep chs final (hdr :: rows) = Some text ->
    csv_load_hist sep progs text = Ok (hist_named hdr progs rows).

(* header a,a  row 1,2  request a: ReadValue(key) first steps its column cursor (0 after ParseNextRow) to column 1,
   finds the name there and answers 2; std::find would answer 1 *)
Lemma hist_dup_witness :
  render 44 [mkChoice [false; false] EolLF; mkChoice [false; false] EolLF] true [[[97]; [97]]; [[49]; [50]]] =
    Some [97; 44; 97; 10; 49; 44; 50; 10] /\
  csv_load_hist 44 [[[97]]] [97; 44; 97; 10; 49; 44; 50; 10] = Ok [[Some [50]]] /\
  csv_load_stream_hist 32 44 [[[97]]] [97; 44; 97; 10; 49; 44; 50; 10] = Ok [[Some [50]]] /\
  hist_named [[97]; [97]] [[[97]]] [[[49]; [50]]] = [[Some [49]]].
Proof. vm_compute. repeat split; reflexivity. Qed.

Lemma hist_first_match_refuted : ~ hist_first_match_statement.
Proof.
  intros H. destruct hist_dup_witness as (R & L & _ & Hn).
  specialize (H 44 _ true [[97]; [97]] [[[49]; [50]]] _ [[[97]]] ltac:(cbn; auto) ltac:(repeat constructor) R).
  rewrite L, Hn in H. discriminate H.
Qed.

(* which column a request picks when names repeat: the one right after the previously selected column if it bears the
   name (the cursor starts at column 0 in every row, so the first request of a row looks at column 1 first), else the
   first column of that name; an absent name still advances the cursor *)
Lemma select_column_spec hdr v key :
  select_column hdr v key =
    if match nth_error hdr (S v) with Some h => list_eqb h key | None => false end then (S v, true)
    else match find_header hdr key 0 with Some i => (i, true) | None => (S v, false) end.
Proof. reflexivity. Qed.

(* ---------- examples: empty header name, names sharing a prefix, quoted later column, repeats, absent, nothing asked ---------- *)
Lemma hist_example :
  (* header  ,ab,a,"a""b"   rows  1,2,3,"x;""y"  and  5,6,7,8 ; sep ; *)
  let text := [59; 97; 98; 59; 97; 59; 34; 97; 34; 34; 98; 34; 10;
               49; 59; 50; 59; 51; 59; 34; 120; 59; 34; 34; 121; 34; 13; 10;
               53; 59; 54; 59; 55; 59; 56] in
  csv_load_hist 59 [[[97; 34; 98]; [97]; [97; 34; 98]; [122]; []; [97; 98]]; []; [[97]]] text =
    Ok [[Some [120; 59; 34; 121]; Some [51]; Some [120; 59; 34; 121]; None; Some [49]; Some [50]]; []] /\
  csv_load_stream_hist 32 59 [[[97; 34; 98]; [97]; [97; 34; 98]; [122]; []; [97; 98]]; []; [[97]]] text =
    Ok [[Some [120; 59; 34; 121]; Some [51]; Some [120; 59; 34; 121]; None; Some [49]; Some [50]]; []] /\
  csv_load_chunks_hist false 59 [[[97]]; [[97; 98]; [97]]] [firstn 20 text; skipn 20 text] =
    Ok [[Some [51]]; [Some [54]; Some [55]]].
Proof. vm_compute. repeat split; reflexivity. Qed.

(* ---------- total on ARBITRARY text (not only RFC 4180 renderings), every request program ---------- *)
Theorem csv_load_chunks_hist_total early sep progs chunks : Forall nonempty chunks -> clean (csv_load_chunks_hist early sep progs chunks).
Proof.
  intros F. unfold csv_load_chunks_hist.
  apply (csv_load_src_hist_total (chunks_rd early) chunks_iend chunks_rest chunks_ok (chunks_rd_spec early) chunks_iend_spec).
  - apply chunks_start. exact F.
  - unfold chunks_rest. cbn [fst]. lia.
Qed.

Theorem hist_total sep progs text :
  clean (csv_load_hist sep progs text) /\
  (forall K, (0 < K)%nat -> clean (csv_load_stream_hist K sep progs text)) /\
  (forall early chunks, Forall nonempty chunks -> clean (csv_load_chunks_hist early sep progs chunks)).
Proof.
  split; [apply csv_load_hist_total|]. split.
  - intros K HK. apply csv_load_stream_hist_total. exact HK.
  - intros early chunks F. apply csv_load_chunks_hist_total. exact F.
Qed.
