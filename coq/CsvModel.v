(* CsvModel.v — executable mirror of the CSV archive of /repo as it is (after the fix: commits 598f817 e6b2b49 c131fe5 04a3ed1;
   the remaining defects F18 and F22 included):
     src/csv/csv_writers.cpp   WriteEscapedValue, CCsvStringWriter, CCsvStreamWriter (UTF-8 target)
     src/csv/csv_readers.cpp   CCsvStringReader, CCsvStreamReader
     src/csv/csv_archive.cpp   ValidateSeparator and the four root scope constructors
     include/bitserializer/csv_archive.h   the write/read scopes as driven by SaveObject / LoadObject
                                           of a std::vector of classes with string members
     include/bitserializer/conversion_detail/convert_utf.h   CEncodedStreamReader<char> restricted to
                                           a source that DetectEncoding classifies as UTF-8 (the text is
                                           handed on undecoded in that case), with or without UTF-8 BOM
   Line numbers refer to those files.  Bytes are N; positions, sizes and counters are nat.
   No proofs in this file. *)
From BS Require Import Base CsvSpec.
Local Open Scope N_scope.

Inductive err :=
| InvalidOptions      (* SerializationErrorCode::InvalidOptions *)
| ParsingError        (* ParsingException *)
| OutOfRange          (* SerializationErrorCode::OutOfRange *)
| StdOutOfRange.      (* std::out_of_range from std::vector::at *)

Inductive outcome (A : Type) :=
| Ok (a : A)
| Err (e : err)       (* a catchable exception *)
| Terminate           (* an exception left a destructor: std::terminate *)
| UB                  (* the C++ would read outside its buffer *)
| OutOfFuel.
Arguments Ok {A} a.
Arguments Err {A} e.
Arguments Terminate {A}.
Arguments UB {A}.
Arguments OutOfFuel {A}.

Definition is_nil {A} (l : list A) : bool := match l with [] => true | _ => false end.

(* std::string_view(data + off, size) *)
Definition slice (l : list N) (off size : nat) : list N := firstn size (skipn off l).

(* ================= csv_archive.cpp: ValidateSeparator (13-24) ================= *)

Definition validate_separator (sep : N) : bool := existsb (N.eqb sep) [44; 59; 9; 32; 124].

(* ================= csv_writers.cpp: WriteEscapedValue (12-46) ================= *)

Definition must_escape (sep c : N) : bool := (c =? DQ) || (c =? sep) || (c =? LF) || (c =? CR).   (* line 19 *)

(* the scan of lines 16-23: (the part before `it`, the part from `it` on) *)
Fixpoint find_special (sep : N) (l : list N) : list N * list N :=
  match l with
  | [] => ([], [])
  | c :: t =>
    if must_escape sep c then ([], l)
    else let (a, b) := find_special sep t in (c :: a, b)
  end.

(* the loop of lines 36-44 *)
Fixpoint escape_rest (l : list N) : list N :=
  match l with
  | [] => []
  | c :: t => if c =? DQ then DQ :: c :: escape_rest t else c :: escape_rest t
  end.

Definition write_escaped (sep : N) (value out : list N) : list N :=
  match find_special sep value with
  | (_, []) => out ++ value                                          (* it == endIt *)
  | (pre, rest) => out ++ DQ :: pre ++ escape_rest rest ++ [DQ]
  end.

(* ================= csv_writers.cpp: CCsvStringWriter / CCsvStreamWriter ================= *)

Record wstate := mkW {
  w_out : list N;        (* mOutputString / the bytes written to the ostream *)
  w_header : list N;     (* mCsvHeader (stream writer only) *)
  w_row : list N;        (* mCurrentRow *)
  w_rowidx : nat;        (* mRowIndex *)
  w_validx : nat;        (* mValueIndex *)
  w_prev : nat           (* mPrevValuesCount *)
}.

Definition utf8_bom : list N := [0xEF; 0xBB; 0xBF].

Definition string_writer_new : wstate := mkW [] [] [] 0 0 0.
(* CEncodedStreamWriter constructor writes the BOM when StreamOptions::writeBom (default true) *)
Definition stream_writer_new (bom : bool) : wstate := mkW (if bom then utf8_bom else []) [] [] 0 0 0.

Definition nat_is0 (n : nat) : bool := match n with O => true | _ => false end.

(* CCsvStringWriter::WriteValue (67-85) *)
Definition sw_write_value (with_header : bool) (sep : N) (w : wstate) (key value : list N) : wstate :=
  let out1 :=
    if nat_is0 (w_rowidx w) && with_header then
      write_escaped sep key (if nat_is0 (w_validx w) then w_out w else w_out w ++ [sep])
    else w_out w in
  let row1 := write_escaped sep value (if nat_is0 (w_validx w) then w_row w else w_row w ++ [sep]) in
  mkW out1 (w_header w) row1 (w_rowidx w) (S (w_validx w)) (w_prev w).

(* CCsvStringWriter::NextLine (87-124); the reserve() of 97-104 has no observable effect *)
Definition sw_next_line (with_header : bool) (w : wstate) : outcome wstate :=
  if nat_is0 (w_rowidx w) then
    let out1 := if with_header then w_out w ++ [CR; LF] else w_out w in
    Ok (mkW (out1 ++ w_row w ++ [CR; LF]) (w_header w) [] (S (w_rowidx w)) 0 (w_validx w))
  else if negb (Nat.eqb (w_validx w) (w_prev w)) then Err OutOfRange
  else Ok (mkW (w_out w ++ w_row w ++ [CR; LF]) (w_header w) [] (S (w_rowidx w)) 0 (w_prev w)).

(* CCsvStreamWriter::WriteValue (138-156) *)
Definition tw_write_value (with_header : bool) (sep : N) (w : wstate) (key value : list N) : wstate :=
  let hdr1 :=
    if nat_is0 (w_rowidx w) && with_header then
      write_escaped sep key (if nat_is0 (w_validx w) then w_header w else w_header w ++ [sep])
    else w_header w in
  let row1 := write_escaped sep value (if nat_is0 (w_validx w) then w_row w else w_row w ++ [sep]) in
  mkW (w_out w) hdr1 row1 (w_rowidx w) (S (w_validx w)) (w_prev w).

(* CCsvStreamWriter::NextLine (158-191); CEncodedStreamWriter::Write of UTF-8 to a UTF-8 stream copies
   the bytes and returns Success, so the UtfEncodingError branches are dead for this target *)
Definition tw_next_line (with_header : bool) (w : wstate) : outcome wstate :=
  if nat_is0 (w_rowidx w) then
    let out1 := if with_header then w_out w ++ (w_header w ++ [CR; LF]) else w_out w in
    let hdr1 := if with_header then w_header w ++ [CR; LF] else w_header w in
    Ok (mkW (out1 ++ (w_row w ++ [CR; LF])) hdr1 [] (S (w_rowidx w)) 0 (w_validx w))
  else if negb (Nat.eqb (w_validx w) (w_prev w)) then Err OutOfRange
  else Ok (mkW (w_out w ++ (w_row w ++ [CR; LF])) (w_header w) [] (S (w_rowidx w)) 0 (w_prev w)).

(* which writer class *)
Inductive wkind := WString | WStream (bom : bool).

Definition writer_new (k : wkind) : wstate :=
  match k with WString => string_writer_new | WStream bom => stream_writer_new bom end.
Definition write_value (k : wkind) (with_header : bool) (sep : N) (w : wstate) (key value : list N) : wstate :=
  match k with
  | WString => sw_write_value with_header sep w key value
  | WStream _ => tw_write_value with_header sep w key value
  end.
Definition next_line (k : wkind) (with_header : bool) (w : wstate) : outcome wstate :=
  match k with WString => sw_next_line with_header w | WStream _ => tw_next_line with_header w end.

(* one object = the WriteValue calls of its members *)
Fixpoint write_values (k : wkind) (with_header : bool) (sep : N) (w : wstate) (kvs : list (list N * list N)) : wstate :=
  match kvs with
  | [] => w
  | (key, value) :: kvs' => write_values k with_header sep (write_value k with_header sep w key value) kvs'
  end.

(* the writer classes used directly: WriteValue* NextLine per row; an exception from NextLine is catchable here *)
Fixpoint writer_rows (k : wkind) (with_header : bool) (sep : N) (w : wstate) (rows : list (list (list N * list N))) : outcome wstate :=
  match rows with
  | [] => Ok w
  | r :: rows' =>
    match next_line k with_header (write_values k with_header sep w r) with
    | Ok w' => writer_rows k with_header sep w' rows'
    | Err e => Err e
    | Terminate => Terminate
    | UB => UB
    | OutOfFuel => OutOfFuel
    end
  end.

Definition writer_run (k : wkind) (with_header : bool) (sep : N) (rows : list (list (list N * list N))) : outcome (list N) :=
  match writer_rows k with_header sep (writer_new k) rows with
  | Ok w => Ok (w_out w)
  | Err e => Err e
  | Terminate => Terminate
  | UB => UB
  | OutOfFuel => OutOfFuel
  end.

(* SaveObject<CsvArchive>(std::vector<Row>): CsvWriteRootScope constructor (ValidateSeparator, writer with
   header), OpenArrayScope, and per element a CCsvWriteObjectScope whose members call WriteValue and whose
   DESTRUCTOR calls NextLine.  Since fix 0a28cd4 the destructor catches an exception of NextLine, hands it to the
   writer (DeferError keeps the first one) and CsvWriteRootScope::Finalize rethrows it: SaveObject ends with that
   exception.  WriteValue cannot fail in this model, so the first NextLine error is the outcome (before the fix:
   the exception left the destructor, i.e. std::terminate - finding F18). *)
Fixpoint save_rows (k : wkind) (sep : N) (w : wstate) (rows : list (list (list N * list N))) : outcome wstate :=
  match rows with
  | [] => Ok w
  | r :: rows' =>
    match next_line k true (write_values k true sep w r) with
    | Ok w' => save_rows k sep w' rows'
    | Err e => Err e
    | Terminate => Terminate
    | UB => UB
    | OutOfFuel => OutOfFuel
    end
  end.

Definition csv_save (k : wkind) (sep : N) (rows : list (list (list N * list N))) : outcome (list N) :=
  if negb (validate_separator sep) then Err InvalidOptions
  else match save_rows k sep (writer_new k) rows with
       | Ok w => Ok (w_out w)
       | Err e => Err e
       | Terminate => Terminate
       | UB => UB
       | OutOfFuel => OutOfFuel
       end.

(* a table given as header names + rows of values: member j of every row is written under key hdr[j]
   (the correspondence drivers use the empty key when a row is longer than the header) *)
Fixpoint with_keys (hdr : list (list N)) (row : list (list N)) : list (list N * list N) :=
  match row with
  | [] => []
  | v :: row' =>
    match hdr with
    | [] => ([], v) :: with_keys [] row'
    | h :: hdr' => (h, v) :: with_keys hdr' row'
    end
  end.

Definition csv_write (sep : N) (hdr : list (list N)) (rows : list (list (list N))) : outcome (list N) :=
  csv_save WString sep (map (with_keys hdr) rows).
Definition csv_write_stream (bom : bool) (sep : N) (hdr : list (list N)) (rows : list (list (list N))) : outcome (list N) :=
  csv_save (WStream bom) sep (map (with_keys hdr) rows).

(* ================= csv_readers.cpp: the line scanner shared by both readers ================= *)

Record meta := mkMeta { m_off : nat; m_size : nat; m_esc : bool }.   (* CValueMeta *)

Definition mk_value (start endp dq : nat) : meta := mkMeta start (endp - start) (negb (nat_is0 dq)).   (* emplace_back, 169 / 409 *)

(* endValuePos at a line feed (157-160 / 390-393): precedingCrPos defaults to the position of the LF;
   `mCurrentPos - 1` wraps to SIZE_MAX at position 0, which no position equals *)
Definition lf_end (cr : option nat) (pos : nat) : nat :=
  let crp := match cr with Some p => p | None => pos end in
  if negb (nat_is0 pos) && Nat.eqb crp (pos - 1) then crp else pos.

(* CCsvStringReader::ParseNextLine, loops 129-176, over the unread part l = mSourceString[pos..]:
   start/dq/cr are startValuePos, doubleQuotesCount, precedingCrPos of the value being scanned,
   acc the values already emplaced (latest first).  Returns (values, mCurrentPos). *)
Fixpoint parse_line (sep : N) (l : list N) (pos start dq : nat) (cr : option nat) (acc : list meta) : list meta * nat :=
  match l with
  | [] => (mk_value start pos dq :: acc, pos)            (* while ends at totalSize: endValuePos = totalSize; 172 break *)
  | c :: t =>
    if c =? DQ then parse_line sep t (S pos) start (S dq) cr acc
    else if (c =? sep) && Nat.even dq then
      let acc' := mk_value start pos dq :: acc in
      match t with
      | [] => (mkMeta (S pos) 0 false :: acc', S pos)    (* 172-179: the text ends with the separator: one more, empty, value *)
      | _ => parse_line sep t (S pos) (S pos) 0 None acc'
      end
    else if c =? CR then parse_line sep t (S pos) start dq (Some pos) acc
    else if (c =? LF) && Nat.even dq then (mk_value start (lf_end cr pos) dq :: acc, S pos)
    else parse_line sep t (S pos) start dq cr acc
  end.

(* the copy loop of UnescapeValue (200-213 / 437-451): every second DQUOTE is dropped *)
Fixpoint unescape_loop (l : list N) (dq : nat) : list N :=
  match l with
  | [] => []
  | c :: t =>
    if c =? DQ then
      if Nat.even (S dq) then unescape_loop t (S dq) else c :: unescape_loop t (S dq)
    else c :: unescape_loop t dq
  end.

(* std::find over mHeaders *)
Fixpoint find_header (headers : list (list N)) (key : list N) (i : nat) : option nat :=
  match headers with
  | [] => None
  | h :: hs => if list_eqb h key then Some i else find_header hs key (S i)
  end.

(* the column selection of ReadValue(key) (41-52 / 252-263): Some (new mValueIndex, found) *)
Definition select_column (headers : list (list N)) (validx : nat) (key : list N) : nat * bool :=
  let v := S validx in
  let next_matches := match nth_error headers v with Some h => list_eqb h key | None => false end in
  if next_matches then (v, true)
  else match find_header headers key 0 with
       | Some i => (i, true)
       | None => (v, false)
       end.

(* ================= CCsvStringReader ================= *)

Record mreader := mkM {
  r_src : list N;             (* mSourceString *)
  r_headers : list (list N);  (* mHeaders *)
  r_metas : list meta;        (* mRowValuesMeta *)
  r_pos : nat;                (* mCurrentPos *)
  r_line : nat;               (* mLineNumber *)
  r_rowidx : nat;             (* mRowIndex *)
  r_validx : nat;             (* mValueIndex *)
  r_prev : nat                (* mPrevValuesCount *)
}.

Definition m_is_end (r : mreader) : bool := Nat.leb (length (r_src r)) (r_pos r).   (* IsEnd *)

(* CCsvStringReader::UnescapeValue (181-218) *)
Definition m_unescape (value : list N) : outcome (list N) :=
  match value with
  | [] => Err ParsingError
  | c :: _ =>
    if negb (c =? DQ) then Err ParsingError
    else if Nat.ltb (length value) 2 || negb (last value 0 =? DQ) then Err ParsingError
    else Ok (unescape_loop (slice value 1 (length value - 2)) 0)
  end.

Definition m_value (r : mreader) (m : meta) : outcome (list N) :=
  let raw := slice (r_src r) (m_off m) (m_size m) in
  if m_esc m then m_unescape raw else Ok raw.

(* ParseNextLine (116-179) *)
Definition m_parse_next_line (sep : N) (r : mreader) : bool * mreader :=
  if m_is_end r then (false, r)
  else
    let (vals, pos') := parse_line sep (skipn (r_pos r) (r_src r)) (r_pos r) (r_pos r) 0 None [] in
    (true, mkM (r_src r) (r_headers r) (rev vals) pos' (S (r_line r)) (r_rowidx r) (r_validx r) (length (r_metas r))).

(* ReadValue(out_value) (66-84) *)
Definition m_read_next (r : mreader) : outcome (list N * mreader) :=
  match nth_error (r_metas r) (r_validx r) with
  | Some m =>
    match m_value r m with
    | Ok v => Ok (v, mkM (r_src r) (r_headers r) (r_metas r) (r_pos r) (r_line r) (r_rowidx r) (S (r_validx r)) (r_prev r))
    | Err e => Err e | Terminate => Terminate | UB => UB | OutOfFuel => OutOfFuel
    end
  | None => Err OutOfRange
  end.

(* the header loop of the constructor (20-26): one ReadValue per column *)
Fixpoint m_read_headers (n : nat) (r : mreader) (acc : list (list N)) : outcome (list (list N) * mreader) :=
  match n with
  | O => Ok (acc, r)
  | S n' =>
    match m_read_next r with
    | Ok (v, r') => m_read_headers n' r' (acc ++ [v])
    | Err e => Err e | Terminate => Terminate | UB => UB | OutOfFuel => OutOfFuel
    end
  end.

(* constructor (11-33) *)
Definition m_new (with_header : bool) (sep : N) (src : list N) : outcome mreader :=
  let r0 := mkM src [] [] 0 0 0 0 0 in
  if with_header then
    match m_parse_next_line sep r0 with
    | (true, r1) =>
      match m_read_headers (length (r_metas r1)) r1 [] with
      | Ok (hs, r2) => Ok (mkM (r_src r2) hs (r_metas r2) (r_pos r2) (r_line r2) (r_rowidx r2) (r_validx r2) (r_prev r2))
      | Err e => Err e | Terminate => Terminate | UB => UB | OutOfFuel => OutOfFuel
      end
    | (false, _) => Err ParsingError
    end
  else Ok r0.

(* ParseNextRow (86-114) *)
Definition m_parse_next_row (with_header : bool) (sep : N) (r : mreader) : outcome (bool * mreader) :=
  match m_parse_next_line sep r with
  | (true, r1) =>
    if with_header && negb (Nat.eqb (length (r_headers r1)) (length (r_metas r1))) then Err ParsingError
    else if negb with_header && Nat.leb 2 (r_line r1) && negb (Nat.eqb (r_prev r1) (length (r_metas r1))) then Err ParsingError
    else
      let first_data_row := Nat.eqb (r_line r1) (if with_header then 2 else 1)%nat in
      Ok (true, mkM (r_src r1) (r_headers r1) (r_metas r1) (r_pos r1) (r_line r1)
                    (if first_data_row then r_rowidx r1 else S (r_rowidx r1)) 0 (r_prev r1))
  | (false, r1) => Ok (false, r1)
  end.

(* ReadValue(key, out_value) (35-64) *)
Definition m_read_key (with_header : bool) (r : mreader) (key : list N) : outcome (option (list N) * mreader) :=
  if negb with_header then Ok (None, r)
  else
    let (idx, found) := select_column (r_headers r) (r_validx r) key in
    let r1 := mkM (r_src r) (r_headers r) (r_metas r) (r_pos r) (r_line r) (r_rowidx r) idx (r_prev r) in
    if negb found then Ok (None, r1)
    else match nth_error (r_metas r) idx with
         | None => Err StdOutOfRange                       (* mRowValuesMeta.at() *)
         | Some m =>
           match m_value r m with
           | Ok v => Ok (Some v, r1)
           | Err e => Err e | Terminate => Terminate | UB => UB | OutOfFuel => OutOfFuel
           end
         end.

(* one object of the loaded vector: its members ask for `keys` in this order *)
Fixpoint m_read_keys (r : mreader) (keys : list (list N)) (acc : list (option (list N))) : outcome (list (option (list N)) * mreader) :=
  match keys with
  | [] => Ok (acc, r)
  | k :: keys' =>
    match m_read_key true r k with
    | Ok (v, r') => m_read_keys r' keys' (acc ++ [v])
    | Err e => Err e | Terminate => Terminate | UB => UB | OutOfFuel => OutOfFuel
    end
  end.

(* SerializeContainer (generic_container.h 24-36) over CsvReadArrayScope: while !IsEnd: emplace_back,
   OpenObjectScope = ParseNextRow, then the members.  A row for which ParseNextRow answers false stays
   default constructed (no member asked for). *)
Fixpoint m_load_rows (fuel : nat) (sep : N) (keys : list (list N)) (r : mreader) (acc : list (list (option (list N)))) : outcome (list (list (option (list N)))) :=
  match fuel with
  | O => OutOfFuel
  | S f =>
    if m_is_end r then Ok acc
    else match m_parse_next_row true sep r with
         | Ok (true, r1) =>
           match m_read_keys r1 keys [] with
           | Ok (cells, r2) => m_load_rows f sep keys r2 (acc ++ [cells])
           | Err e => Err e | Terminate => Terminate | UB => UB | OutOfFuel => OutOfFuel
           end
         | Ok (false, r1) => m_load_rows f sep keys r1 (acc ++ [[]])
         | Err e => Err e | Terminate => Terminate | UB => UB | OutOfFuel => OutOfFuel
         end
  end.

(* LoadObject<CsvArchive>(std::vector<Row>, std::string): every line consumes at least one byte *)
Definition csv_load (sep : N) (keys : list (list N)) (text : list N) : outcome (list (list (option (list N)))) :=
  if negb (validate_separator sep) then Err InvalidOptions
  else match m_new true sep text with
       | Ok r => m_load_rows (S (length text)) sep keys r []
       | Err e => Err e | Terminate => Terminate | UB => UB | OutOfFuel => OutOfFuel
       end.

(* the same with a request program per row: the object of row i asks for the keys of the i-th program, in that order
   (any order, repeats, absent names; no program left = no request).  C03 *)
Fixpoint m_load_hist (fuel : nat) (sep : N) (progs : list (list (list N))) (r : mreader) (acc : list (list (option (list N)))) : outcome (list (list (option (list N)))) :=
  match fuel with
  | O => OutOfFuel
  | S f =>
    if m_is_end r then Ok acc
    else match m_parse_next_row true sep r with
         | Ok (true, r1) =>
           match m_read_keys r1 (hd [] progs) [] with
           | Ok (cells, r2) => m_load_hist f sep (tl progs) r2 (acc ++ [cells])
           | Err e => Err e | Terminate => Terminate | UB => UB | OutOfFuel => OutOfFuel
           end
         | Ok (false, r1) => m_load_hist f sep progs r1 (acc ++ [[]])
         | Err e => Err e | Terminate => Terminate | UB => UB | OutOfFuel => OutOfFuel
         end
  end.

Definition csv_load_hist (sep : N) (progs : list (list (list N))) (text : list N) : outcome (list (list (option (list N)))) :=
  if negb (validate_separator sep) then Err InvalidOptions
  else match m_new true sep text with
       | Ok r => m_load_hist (S (length text)) sep progs r []
       | Err e => Err e | Terminate => Terminate | UB => UB | OutOfFuel => OutOfFuel
       end.

(* ================= CEncodedStreamReader<char, K>, UTF-8 source ================= *)

Record esr := mkE {
  e_pend : list N;     (* [mStartDataPtr, mEndDataPtr) *)
  e_rest : list N;     (* what the istream has not delivered yet *)
  e_eof : bool         (* mInputStream.eof() *)
}.

(* ReadNextEncodedChunk (985-1005): whatever the position of the data in the buffer it is moved to the
   front, so the read asks for K - |pending| bytes; a short read sets eofbit (and failbit, after which
   reads deliver nothing — as they would anyway, the source being exhausted) *)
Definition esr_fill (K : nat) (e : esr) : esr * bool :=
  let want := (K - length (e_pend e))%nat in
  let got := firstn want (e_rest e) in
  (mkE (e_pend e ++ got) (skipn want (e_rest e)) (e_eof e || Nat.ltb (length got) want), negb (is_nil got)).

Definition starts_with_bom (l : list N) : bool :=
  match l with a :: b :: c :: _ => (a =? 0xEF) && (b =? 0xBB) && (c =? 0xBF) | _ => false end.

(* constructor (917-932), DetectEncoding answering UTF-8 *)
Definition esr_new (K : nat) (text : list N) : esr :=
  let (e, got) := esr_fill K (mkE [] text false) in
  if got && starts_with_bom (e_pend e) then mkE (skipn 3 (e_pend e)) (e_rest e) (e_eof e) else e.

Definition esr_is_end (e : esr) : bool := is_nil (e_pend e) && e_eof e.   (* 971-973 *)

(* ReadChunk (935-969), UTF-8 to char: None = EndFile, Some chunk = Success with the chunk appended *)
Definition esr_read_chunk (K : nat) (e : esr) : option (list N) * esr :=
  if esr_is_end e then (None, e)
  else
    let (e1, got) := esr_fill K e in
    if negb got && is_nil (e_pend e1) then (None, e1)
    else (Some (e_pend e1), mkE [] (e_rest e1) (e_eof e1)).

(* ================= CCsvStreamReader ================= *)

(* The class reaches its CEncodedStreamReader<char> through ReadChunk and IsEnd only, so it is written over ANY chunk
   source: a state of type E, rd = ReadChunk (None = EndFile, Some chunk = Success with the chunk appended to the
   decoded buffer) and iend = IsEnd.  Instances: the UTF-8 reader above with chunk size K (csv_load_stream), an
   arbitrary list of chunks (csv_load_chunks, below). *)
Section SRC.
Variable E : Type.
Variable rd : E -> option (list N) * E.
Variable iend : E -> bool.

Record sreader := mkS {
  s_buf : list N;             (* mDecodedBuffer *)
  s_esr : E;                  (* mEncodedStreamReader *)
  s_headers : list (list N);
  s_metas : list meta;
  s_pos : nat;
  s_line : nat;
  s_rowidx : nat;
  s_validx : nat;
  s_prev : nat
}.

Definition s_is_end (s : sreader) : bool := Nat.leb (length (s_buf s)) (s_pos s) && iend (s_esr s).   (* IsEnd, header 58 *)

(* ParseNextLine, loops 344-410.  todo is mDecodedBuffer[pos..] (redundant with buf and pos, kept so that a
   step does not index the buffer); the other arguments as in parse_line.
   Returns (values, buffer, stream reader, mCurrentPos). *)
Fixpoint s_scan (fuel : nat) (sep : N) (buf todo : list N) (e : E) (pos start dq : nat) (cr : option nat)
                (acc : list meta) : outcome (list meta * list N * E * nat) :=
  match fuel with
  | O => OutOfFuel
  | S f =>
    match todo with
    | [] =>                                                     (* 353: mCurrentPos == mDecodedBuffer.size() *)
      match rd e with
      | (Some chunk, e') => s_scan f sep (buf ++ chunk) chunk e' pos start dq cr acc
      | (None, e') => Ok (mk_value start (length buf) dq :: acc, buf, e', pos)    (* EndFile: 360-365 *)
      end
    | c :: t =>
      if c =? DQ then s_scan f sep buf t e (S pos) start (S dq) cr acc
      else if (c =? sep) && Nat.even dq then
        s_scan f sep buf t e (S pos) (S pos) 0 None (mk_value start pos dq :: acc)
      else if c =? CR then s_scan f sep buf t e (S pos) start dq (Some pos) acc
      else if (c =? LF) && Nat.even dq then Ok (mk_value start (lf_end cr pos) dq :: acc, buf, e, S pos)
      else if is_nil t && iend e then                     (* 399-404: last byte of the last chunk *)
        Ok (mk_value start (length buf) dq :: acc, buf, e, length buf)
      else s_scan f sep buf t e (S pos) start dq cr acc
    end
  end.

(* ParseNextLine (327-419) *)
Definition s_parse_next_line (fuel : nat) (sep : N) (s : sreader) : outcome (bool * sreader) :=
  if s_is_end s then Ok (false, s)
  else
    let buf0 := skipn (s_pos s) (s_buf s) in                     (* 338-342: erase(0, mCurrentPos) *)
    match s_scan fuel sep buf0 buf0 (s_esr s) 0 0 0 None [] with
    | Ok (vals, buf1, e1, pos1) =>
      let (buf2, e2) :=
        if Nat.eqb pos1 (length buf1) then                       (* 413-416 *)
          match rd e1 with
          | (Some chunk, e') => (buf1 ++ chunk, e')
          | (None, e') => (buf1, e')
          end
        else (buf1, e1) in
      Ok (true, mkS buf2 e2 (s_headers s) (rev vals) pos1 (S (s_line s)) (s_rowidx s) (s_validx s) (length (s_metas s)))
    | Err e => Err e | Terminate => Terminate | UB => UB | OutOfFuel => OutOfFuel
    end.

(* CCsvStreamReader::UnescapeValue(beginIt = data + b, endIt = data + e) (421-452): decodes in place.
   The write position stays behind the read position, so the loop reads original bytes only. *)
Definition s_unescape (buf : list N) (b e : nat) : outcome (list N * list N) :=
  match nth_error buf b with
  | None => UB
  | Some c =>
    if negb (c =? DQ) then Err ParsingError
    else if Nat.ltb e (b + 2) then Err ParsingError              (* --endIt; endIt - beginIt < 1 *)
    else match nth_error buf (e - 1) with
         | None => UB
         | Some c2 =>
           if negb (c2 =? DQ) then Err ParsingError
           else
             let dec := unescape_loop (slice buf (S b) (e - 1 - S b)) 0 in
             Ok (dec, firstn b buf ++ dec ++ skipn (b + length dec) buf)
         end
  end.

Definition s_with (s : sreader) (buf : list N) (validx : nat) : sreader :=
  mkS buf (s_esr s) (s_headers s) (s_metas s) (s_pos s) (s_line s) (s_rowidx s) validx (s_prev s).

(* valueMeta.Size = ...; valueMeta.HasEscapedChars = false (the meta is a reference into mRowValuesMeta) *)
Fixpoint set_nth {A} (i : nat) (x : A) (l : list A) : list A :=
  match l with
  | [] => []
  | y :: l' => match i with O => x :: l' | S i' => y :: set_nth i' x l' end
  end.

Definition s_with_meta (s : sreader) (buf : list N) (validx : nat) (i : nat) (m : meta) : sreader :=
  mkS buf (s_esr s) (s_headers s) (set_nth i m (s_metas s)) (s_pos s) (s_line s) (s_rowidx s) validx (s_prev s).

(* ReadValue(out_value) (277-295): end = Offset + Size; an unescaped value is remembered as such *)
Definition s_read_next (s : sreader) : outcome (list N * sreader) :=
  match nth_error (s_metas s) (s_validx s) with
  | Some m =>
    if m_esc m then
      match s_unescape (s_buf s) (m_off m) (m_off m + m_size m) with
      | Ok (v, buf') => Ok (v, s_with_meta s buf' (S (s_validx s)) (s_validx s) (mkMeta (m_off m) (length v) false))
      | Err e => Err e | Terminate => Terminate | UB => UB | OutOfFuel => OutOfFuel
      end
    else Ok (slice (s_buf s) (m_off m) (m_size m), s_with s (s_buf s) (S (s_validx s)))
  | None => Err OutOfRange
  end.

Fixpoint s_read_headers (n : nat) (s : sreader) (acc : list (list N)) : outcome (list (list N) * sreader) :=
  match n with
  | O => Ok (acc, s)
  | S n' =>
    match s_read_next s with
    | Ok (v, s') => s_read_headers n' s' (acc ++ [v])
    | Err e => Err e | Terminate => Terminate | UB => UB | OutOfFuel => OutOfFuel
    end
  end.

(* constructor (222-244) *)
Definition s_new (fuel : nat) (with_header : bool) (sep : N) (e0 : E) : outcome sreader :=
  let s0 := mkS [] e0 [] [] 0 0 0 0 0 in
  if with_header then
    match s_parse_next_line fuel sep s0 with
    | Ok (true, s1) =>
      match s_read_headers (length (s_metas s1)) s1 [] with
      | Ok (hs, s2) => Ok (mkS (s_buf s2) (s_esr s2) hs (s_metas s2) (s_pos s2) (s_line s2) (s_rowidx s2) (s_validx s2) (s_prev s2))
      | Err e => Err e | Terminate => Terminate | UB => UB | OutOfFuel => OutOfFuel
      end
    | Ok (false, _) => Err ParsingError
    | Err e => Err e | Terminate => Terminate | UB => UB | OutOfFuel => OutOfFuel
    end
  else Ok s0.

(* ParseNextRow (297-325) *)
Definition s_parse_next_row (fuel : nat) (with_header : bool) (sep : N) (s : sreader) : outcome (bool * sreader) :=
  match s_parse_next_line fuel sep s with
  | Ok (true, s1) =>
    if with_header && negb (Nat.eqb (length (s_headers s1)) (length (s_metas s1))) then Err ParsingError
    else if negb with_header && Nat.leb 2 (s_line s1) && negb (Nat.eqb (s_prev s1) (length (s_metas s1))) then Err ParsingError
    else
      let first_data_row := Nat.eqb (s_line s1) (if with_header then 2 else 1)%nat in
      Ok (true, mkS (s_buf s1) (s_esr s1) (s_headers s1) (s_metas s1) (s_pos s1) (s_line s1)
                    (if first_data_row then s_rowidx s1 else S (s_rowidx s1)) 0 (s_prev s1))
  | Ok (false, s1) => Ok (false, s1)
  | Err e => Err e | Terminate => Terminate | UB => UB | OutOfFuel => OutOfFuel
  end.

(* ReadValue(key, out_value) (246-275) *)
Definition s_read_key (with_header : bool) (s : sreader) (key : list N) : outcome (option (list N) * sreader) :=
  if negb with_header then Ok (None, s)
  else
    let (idx, found) := select_column (s_headers s) (s_validx s) key in
    if negb found then Ok (None, s_with s (s_buf s) idx)
    else match nth_error (s_metas s) idx with
         | None => Err StdOutOfRange
         | Some m =>
           if m_esc m then
             match s_unescape (s_buf s) (m_off m) (m_off m + m_size m) with
             | Ok (v, buf') => Ok (Some v, s_with_meta s buf' idx idx (mkMeta (m_off m) (length v) false))
             | Err e => Err e | Terminate => Terminate | UB => UB | OutOfFuel => OutOfFuel
             end
           else Ok (Some (slice (s_buf s) (m_off m) (m_size m)), s_with s (s_buf s) idx)
         end.

Fixpoint s_read_keys (s : sreader) (keys : list (list N)) (acc : list (option (list N))) : outcome (list (option (list N)) * sreader) :=
  match keys with
  | [] => Ok (acc, s)
  | k :: keys' =>
    match s_read_key true s k with
    | Ok (v, s') => s_read_keys s' keys' (acc ++ [v])
    | Err e => Err e | Terminate => Terminate | UB => UB | OutOfFuel => OutOfFuel
    end
  end.

Fixpoint s_load_rows (fuel : nat) (fuel_line : nat) (sep : N) (keys : list (list N)) (s : sreader) (acc : list (list (option (list N)))) : outcome (list (list (option (list N)))) :=
  match fuel with
  | O => OutOfFuel
  | S f =>
    if s_is_end s then Ok acc
    else match s_parse_next_row fuel_line true sep s with
         | Ok (true, s1) =>
           match s_read_keys s1 keys [] with
           | Ok (cells, s2) => s_load_rows f fuel_line sep keys s2 (acc ++ [cells])
           | Err e => Err e | Terminate => Terminate | UB => UB | OutOfFuel => OutOfFuel
           end
         | Ok (false, s1) => s_load_rows f fuel_line sep keys s1 (acc ++ [[]])
         | Err e => Err e | Terminate => Terminate | UB => UB | OutOfFuel => OutOfFuel
         end
  end.

(* LoadObject<CsvArchive>(std::vector<Row>, std::istream): a scan step consumes a byte or takes a
   non-empty chunk from the stream, a line consumes at least one byte *)
Definition stream_fuel (text : list N) : nat := (2 * length text + 4)%nat.

Fixpoint s_load_hist (fuel : nat) (fuel_line : nat) (sep : N) (progs : list (list (list N))) (s : sreader) (acc : list (list (option (list N)))) : outcome (list (list (option (list N)))) :=
  match fuel with
  | O => OutOfFuel
  | S f =>
    if s_is_end s then Ok acc
    else match s_parse_next_row fuel_line true sep s with
         | Ok (true, s1) =>
           match s_read_keys s1 (hd [] progs) [] with
           | Ok (cells, s2) => s_load_hist f fuel_line sep (tl progs) s2 (acc ++ [cells])
           | Err e => Err e | Terminate => Terminate | UB => UB | OutOfFuel => OutOfFuel
           end
         | Ok (false, s1) => s_load_hist f fuel_line sep progs s1 (acc ++ [[]])
         | Err e => Err e | Terminate => Terminate | UB => UB | OutOfFuel => OutOfFuel
         end
  end.

Definition csv_load_src_hist (n : nat) (sep : N) (progs : list (list (list N))) (e0 : E) : outcome (list (list (option (list N)))) :=
  if negb (validate_separator sep) then Err InvalidOptions
  else match s_new (2 * n + 4) true sep e0 with
       | Ok s => s_load_hist (S n) (2 * n + 4) sep progs s []
       | Err e => Err e | Terminate => Terminate | UB => UB | OutOfFuel => OutOfFuel
       end.

(* LoadObject over a source that is going to deliver n bytes *)
Definition csv_load_src (n : nat) (sep : N) (keys : list (list N)) (e0 : E) : outcome (list (list (option (list N)))) :=
  if negb (validate_separator sep) then Err InvalidOptions
  else match s_new (2 * n + 4) true sep e0 with
       | Ok s => s_load_rows (S n) (2 * n + 4) sep keys s []
       | Err e => Err e | Terminate => Terminate | UB => UB | OutOfFuel => OutOfFuel
       end.
End SRC.

Arguments mkS {E}. Arguments s_buf {E}. Arguments s_esr {E}. Arguments s_headers {E}. Arguments s_metas {E}.
Arguments s_pos {E}. Arguments s_line {E}. Arguments s_rowidx {E}. Arguments s_validx {E}. Arguments s_prev {E}.
Arguments s_is_end {E}. Arguments s_scan {E}. Arguments s_parse_next_line {E}. Arguments s_with {E}.
Arguments s_with_meta {E}. Arguments s_read_next {E}. Arguments s_read_headers {E}. Arguments s_new {E}.
Arguments s_parse_next_row {E}. Arguments s_read_key {E}. Arguments s_read_keys {E}. Arguments s_load_rows {E}.
Arguments csv_load_src {E}. Arguments s_load_hist {E}. Arguments csv_load_src_hist {E}.

(* the UTF-8 stream, chunk size K *)
Definition csv_load_stream (K : nat) (sep : N) (keys : list (list N)) (text : list N) : outcome (list (list (option (list N)))) :=
  csv_load_src (esr_read_chunk K) esr_is_end (length text) sep keys (esr_new K text).

Definition csv_load_stream_hist (K : nat) (sep : N) (progs : list (list (list N))) (text : list N) : outcome (list (list (option (list N)))) :=
  csv_load_src_hist (esr_read_chunk K) esr_is_end (length text) sep progs (esr_new K text).

(* an arbitrary list of chunks: ReadChunk hands them out one after the other, then EndFile.  IsEnd becomes true with the
   EndFile answer or - early = true - already with the last chunk (CEncodedStreamReader: when the read that filled its
   last window hit the end of the file) *)
Definition chunks_rd (early : bool) (c : list (list N) * bool) : option (list N) * (list (list N) * bool) :=
  match fst c with
  | [] => (None, ([], true))
  | x :: r => (Some x, (r, snd c || (early && is_nil r)))
  end.
Definition chunks_iend (c : list (list N) * bool) : bool := is_nil (fst c) && snd c.

Definition csv_load_chunks (early : bool) (sep : N) (keys : list (list N)) (chunks : list (list N)) : outcome (list (list (option (list N)))) :=
  csv_load_src (chunks_rd early) chunks_iend (length (concat chunks)) sep keys (chunks, false).

Definition csv_load_chunks_hist (early : bool) (sep : N) (progs : list (list (list N))) (chunks : list (list N)) : outcome (list (list (option (list N)))) :=
  csv_load_src_hist (chunks_rd early) chunks_iend (length (concat chunks)) sep progs (chunks, false).

(* the library's chunk size (template default of CEncodedStreamReader) *)
Definition chunk_size : nat := 256.

(* the sources this stream model speaks about: DetectEncoding (convert_utf.h 752-829) answers UTF-8 when the
   first chunk carries no UTF-16/32 byte order mark and no zero byte *)
Definition utf8_detected (K : nat) (text : list N) : bool :=
  let first := firstn K text in
  negb (existsb (N.eqb 0) first) &&
  match first with
  | a :: b :: _ => negb (((a =? 0xFF) && (b =? 0xFE)) || ((a =? 0xFE) && (b =? 0xFF)))
  | _ => true
  end.
