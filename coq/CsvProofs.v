(* CsvProofs.v — the statements of C09 assembled from CsvSpecProofs / CsvWriterProofs / CsvReaderProofs / CsvStreamProofs. *)
From BS Require Import Base CsvSpec CsvSpecProofs CsvSpecComplete CsvModel CsvWriterProofs CsvReaderProofs CsvStreamProofs.
From Coq Require Import ZifyBool ZifyN ZifyNat.
Ltac Zify.zify_post_hook ::= Z.div_mod_to_equations.
Local Open Scope N_scope.

(* ---------- separator ---------- *)

Lemma validate_separator_spec : forall sep, validate_separator sep = true <-> In sep [44; 59; 9; 32; 124].
Proof.
  intros sep. unfold validate_separator. cbn [existsb In].
  rewrite !orb_true_iff, !N.eqb_eq. intuition congruence.
Qed.

Lemma separator_checked_everywhere : forall k sep rows keys text K,
  validate_separator sep = false ->
  csv_save k sep rows = Err InvalidOptions /\ csv_load sep keys text = Err InvalidOptions /\
  csv_load_stream K sep keys text = Err InvalidOptions.
Proof. intros. unfold csv_save, csv_load, csv_load_stream, csv_load_src. rewrite H. auto. Qed.

(* ---------- writer ---------- *)

Lemma writer_rfc : forall sep hdr rows, allowed sep -> rows <> [] -> hdr <> [] -> uniform hdr rows ->
  exists text, csv_write sep hdr rows = Ok text /\ rfc_parse sep text = Some (hdr :: rows).
Proof. exact csv_write_rfc. Qed.

Lemma writer_quotes_iff_needed : forall sep hdr rows, allowed sep -> rows <> [] -> hdr <> [] -> uniform hdr rows ->
  exists text, csv_write sep hdr rows = Ok text /\
    render sep (map (min_choice sep) (hdr :: rows)) true (hdr :: rows) = Some text.
Proof. exact csv_write_is_min_rendering. Qed.

Lemma writer_field_quotes_iff_needed : forall sep f out,
  write_escaped sep f out = out ++ (if needs_quote sep f then quoted f else f).
Proof. exact write_escaped_iff_needed. Qed.

Lemma writer_stream_same : forall bom sep hdr rows, allowed sep -> rows <> [] -> uniform hdr rows ->
  exists text, csv_write sep hdr rows = Ok text /\
               csv_write_stream bom sep hdr rows = Ok ((if bom then utf8_bom else []) ++ text).
Proof.
  intros bom sep hdr rows A R U. exists (lib_text sep (hdr :: rows)).
  split; [apply csv_write_closed | apply csv_write_stream_closed]; assumption.
Qed.

(* F22: a table without rows.  The statement that its header survives is false on the whole domain: nothing is written *)
Definition writer_norows_statement : Prop :=
  forall sep hdr, allowed sep -> hdr <> [] ->
  exists text, csv_write sep hdr [] = Ok text /\ rfc_parse sep text = Some [hdr].

Lemma writer_norows : forall sep hdr keys, allowed sep ->
  csv_write sep hdr [] = Ok [] /\ csv_load sep keys [] = Err ParsingError /\
  (forall K, (0 < K)%nat -> csv_load_stream K sep keys [] = Err ParsingError).
Proof.
  intros sep hdr keys A. unfold csv_write, csv_save, csv_load, csv_load_stream, csv_load_src.
  rewrite (allowed_validate sep A). cbn [negb map save_rows writer_new string_writer_new w_out].
  split; [reflexivity|]. split; [reflexivity|]. intros K HK. destruct K as [|K]; [lia|]. reflexivity.
Qed.

Lemma writer_norows_refuted : ~ writer_norows_statement.
Proof.
  intros H. destruct (H 44 [[97]]) as (text & E & P); [cbn; auto | discriminate |].
  vm_compute in E. inversion E. subst text. vm_compute in P. discriminate P.
Qed.

(* F18: the width check of the writers under SaveObject *)
Definition writer_width_statement : Prop :=
  forall k sep hdr (rows : list record), allowed sep -> ragged rows ->
  csv_save k sep (map (with_keys hdr) rows) = Err OutOfRange.

Lemma writer_width_all_reported : forall k sep hdr (rows : list record), allowed sep -> ragged rows ->
  csv_save k sep (map (with_keys hdr) rows) = Err OutOfRange /\
  writer_run k true sep (map (with_keys hdr) rows) = Err OutOfRange.
Proof.
  intros k sep hdr rows A R. pose proof (ragged_rows_reported k true sep _ (with_keys_ragged hdr rows R)) as [H1 H2].
  split; [apply H2; apply allowed_validate; exact A | exact H1].
Qed.

(* since fix 0a28cd4 the full statement holds (it was refuted by every ragged table: std::terminate) *)
Lemma writer_width_holds : writer_width_statement.
Proof. intros k sep hdr rows A R. exact (proj1 (writer_width_all_reported k sep hdr rows A R)). Qed.

(* ---------- readers ---------- *)

Lemma reader_rfc : forall sep chs final hdr rows text keys, allowed sep -> NoDup hdr -> uniform hdr rows ->
  render sep chs final (hdr :: rows) = Some text ->
  csv_load sep keys text = Ok (select hdr keys rows).
Proof. exact csv_load_rfc. Qed.

Lemma reader_rfc_stream : forall K sep chs final hdr rows text keys,
  (0 < K)%nat -> allowed sep -> NoDup hdr -> uniform hdr rows ->
  render sep chs final (hdr :: rows) = Some (stream_payload K text) ->
  csv_load_stream K sep keys text = Ok (select hdr keys rows).
Proof. exact csv_load_stream_rfc. Qed.

Lemma reader_width : forall sep chs final hdr recs text keys, allowed sep ->
  render sep chs final (hdr :: recs) = Some text -> Exists (fun r => length r <> length hdr) recs ->
  csv_load sep keys text = Err ParsingError.
Proof. exact csv_load_width. Qed.

Lemma reader_width_stream : forall K sep chs final hdr recs text keys, (0 < K)%nat -> allowed sep ->
  render sep chs final (hdr :: recs) = Some (stream_payload K text) -> Exists (fun r => length r <> length hdr) recs ->
  csv_load_stream K sep keys text = Err ParsingError.
Proof. exact csv_load_stream_width. Qed.

Lemma reader_stream_eq_mem : forall K sep chs final t text keys, (0 < K)%nat -> allowed sep ->
  render sep chs final t = Some (stream_payload K text) ->
  csv_load_stream K sep keys text = csv_load sep keys (stream_payload K text).
Proof. exact csv_load_stream_eq_mem. Qed.

(* the same, stated on the reference parser: whatever text rfc_parse accepts, the loaders return what it returns *)
Lemma reader_rfc_parsed : forall sep text hdr rows keys, allowed sep -> NoDup hdr -> uniform hdr rows ->
  rfc_parse sep text = Some (hdr :: rows) ->
  csv_load sep keys text = Ok (select hdr keys rows) /\
  (forall K, (0 < K)%nat -> forall stext, stream_payload K stext = text ->
     csv_load_stream K sep keys stext = Ok (select hdr keys rows)).
Proof.
  intros sep text hdr rows keys A ND U P. destruct (parse_render sep text _ P) as (chs & final & R).
  split; [apply (csv_load_rfc sep chs final); assumption|].
  intros K HK stext E. apply (csv_load_stream_rfc K sep chs final); try assumption. rewrite E. exact R.
Qed.

Lemma reader_width_parsed : forall sep text hdr recs keys, allowed sep ->
  rfc_parse sep text = Some (hdr :: recs) -> Exists (fun r => length r <> length hdr) recs ->
  csv_load sep keys text = Err ParsingError /\
  (forall K, (0 < K)%nat -> forall stext, stream_payload K stext = text ->
     csv_load_stream K sep keys stext = Err ParsingError).
Proof.
  intros sep text hdr recs keys A P E. destruct (parse_render sep text _ P) as (chs & final & R).
  split; [apply (csv_load_width sep chs final hdr recs); assumption|].
  intros K HK stext Es. apply (csv_load_stream_width K sep chs final hdr recs); try assumption. rewrite Es. exact R.
Qed.

(* whatever the header names (duplicates included): the answers are those of the column cursor + find model read_spec *)
Lemma reader_any_header : forall sep chs final hdr rows text keys, allowed sep -> uniform hdr rows ->
  render sep chs final (hdr :: rows) = Some text ->
  csv_load sep keys text = Ok (map (fun row => read_spec hdr row keys 0) rows).
Proof.
  intros sep chs final hdr rows text keys A U R. rewrite (csv_load_render sep chs final hdr rows text keys A R).
  unfold load_expect. rewrite (widths_ok_uniform _ _ U). reflexivity.
Qed.

(* the stream payload of a text without byte order mark is the text; of BOM ++ text it is text (K >= 3) *)
Lemma stream_payload_plain K text : starts_with_bom (firstn K text) = false -> stream_payload K text = text.
Proof. unfold stream_payload. intros ->. reflexivity. Qed.

Lemma stream_payload_bom K text : (3 <= K)%nat -> stream_payload K (utf8_bom ++ text) = text.
Proof.
  intros HK. unfold stream_payload, utf8_bom. destruct K as [|[|[|K]]]; try lia. reflexivity.
Qed.

(* ---------- non-vacuity ---------- *)

Lemma example_write :
  csv_write 44 [[110]; [118]] [[[97; 34; 98]; [49; 44; 50]]; [[]; [120; 13; 121]]] =
  Ok [110; 44; 118; 13; 10;
      34; 97; 34; 34; 98; 34; 44; 34; 49; 44; 50; 34; 13; 10;
      44; 34; 120; 13; 121; 34; 13; 10].
Proof. vm_compute. reflexivity. Qed.

Lemma example_load :
  csv_load 59 [[98]; [97]; [122]] [97; 59; 98; 10; 34; 120; 34; 34; 59; 34; 59; 34; 49; 34; 13; 10; 59] =
  Ok [[Some [49]; Some [120; 34; 59]; None]; [Some []; Some []; None]].
Proof. vm_compute. reflexivity. Qed.

Lemma example_width : csv_load 44 [[97]] [97; 44; 98; 13; 10; 49; 44; 50; 44] = Err ParsingError.
Proof. vm_compute. reflexivity. Qed.

Lemma example_render :
  render 44 [mkChoice [false; true] EolLF; mkChoice [true; false] EolCRLF] false [[[97]; [98]]; [[34]; []]] =
  Some [97; 44; 34; 98; 34; 10; 34; 34; 34; 34; 44].
Proof. vm_compute. reflexivity. Qed.
