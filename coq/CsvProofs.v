(* CsvProofs.v — the statements of C09 assembled from CsvSpecProofs / CsvWriterProofs / CsvReaderProofs. *)
From BS Require Import Base CsvSpec CsvSpecProofs CsvModel CsvWriterProofs CsvReaderProofs CsvStreamProofs.
From Coq Require Import ZifyBool ZifyN ZifyNat.
Ltac Zify.zify_post_hook ::= Z.div_mod_to_equations.
Local Open Scope N_scope.

(* ---------- separator ---------- *)

Lemma validate_separator_spec : forall sep, validate_separator sep = true <-> In sep [44; 59; 9; 32; 124].
Proof.
  intros sep. unfold validate_separator. cbn [existsb In].
  rewrite !orb_true_iff, !N.eqb_eq. intuition congruence.
Qed.

Lemma separator_checked_everywhere : forall k sep rows keys text K,
  validate_separator sep = false ->
  csv_save k sep rows = Err InvalidOptions /\ csv_load sep keys text = Err InvalidOptions /\
  csv_load_stream K sep keys text = Err InvalidOptions.
Proof. intros. unfold csv_save, csv_load, csv_load_stream. rewrite H. auto. Qed.

(* ---------- the full-strength statements (those the current code falsifies are refuted below) ---------- *)

Definition writer_rfc_statement : Prop :=
  forall sep hdr rows, allowed sep -> rows <> [] -> hdr <> [] -> uniform hdr rows ->
  exists text, csv_write sep hdr rows = Ok text /\ rfc_parse sep text = Some (hdr :: rows).

Definition writer_quotes_iff_needed_statement : Prop :=
  forall sep hdr rows, allowed sep -> rows <> [] -> hdr <> [] -> uniform hdr rows ->
  exists text, csv_write sep hdr rows = Ok text /\
    render sep (map (min_choice sep) (hdr :: rows)) true (hdr :: rows) = Some text.

Definition reader_rfc_statement : Prop :=
  forall sep chs final hdr rows text keys, allowed sep -> NoDup hdr -> uniform hdr rows ->
  render sep chs final (hdr :: rows) = Some text ->
  csv_load sep keys text = Ok (select hdr keys rows).

Definition reader_width_statement : Prop :=
  forall sep chs final hdr recs text keys, allowed sep ->
  render sep chs final (hdr :: recs) = Some text -> Exists (fun r => length r <> length hdr) recs ->
  csv_load sep keys text = Err ParsingError.

Definition writer_width_statement : Prop :=
  forall k sep hdr (rows : list record), allowed sep -> ragged rows ->
  csv_save k sep (map (with_keys hdr) rows) = Err OutOfRange.

Lemma writer_rfc_refuted : ~ writer_rfc_statement.
Proof.
  intros H. destruct csv_write_rfc_refuted as (sep & hdr & rows & A & R & Hh & U & N).
  apply N. apply H; assumption.
Qed.

Lemma writer_quotes_refuted : ~ writer_quotes_iff_needed_statement.
Proof.
  intros H. destruct csv_write_min_refuted as (sep & hdr & rows & A & R & Hh & U & N).
  apply N. apply H; assumption.
Qed.

Lemma reader_rfc_refuted : ~ reader_rfc_statement.
Proof.
  intros H. destruct csv_load_rfc_refuted as (sep & chs & final & hdr & rows & text & keys & A & ND & U & R & N).
  apply N. apply (H sep chs final); assumption.
Qed.

Lemma reader_width_refuted : ~ reader_width_statement.
Proof.
  intros H. destruct csv_load_width_refuted as (sep & chs & final & hdr & recs & text & keys & A & R & E & N).
  apply N. apply (H sep chs final hdr recs); assumption.
Qed.

(* F18: every ragged table ends in std::terminate under SaveObject, so the statement fails on all of its domain *)
Lemma writer_width_all_terminate : forall k sep hdr (rows : list record), allowed sep -> ragged rows ->
  csv_save k sep (map (with_keys hdr) rows) = Terminate /\
  writer_run k true sep (map (with_keys hdr) rows) = Err OutOfRange.
Proof.
  intros k sep hdr rows A R. pose proof (ragged_rows_reported k true sep _ (with_keys_ragged hdr rows R)) as [H1 H2].
  split; [apply H2; apply allowed_validate; exact A | exact H1].
Qed.

Lemma writer_width_refuted : ~ writer_width_statement.
Proof.
  intros H. specialize (H WString 44 [[97]] [[[49]]; []]).
  assert (A : allowed 44) by (cbn; auto).
  assert (R : ragged [[[49]]; ([] : record)]) by (cbn; constructor; cbn; discriminate).
  specialize (H A R). destruct (writer_width_all_terminate WString 44 [[97]] _ A R) as [T _].
  assert (E : @Terminate (list N) = Err OutOfRange) by (etransitivity; [symmetry; exact T | exact H]).
  discriminate E.
Qed.

(* non-vacuity *)
Lemma example_write :
  csv_write 44 [[110]; [118]] [[[97; 34; 98]; [49; 44; 50]]; [[]; [120; 10; 121]]] =
  Ok [110; 44; 118; 13; 10;
      34; 97; 34; 34; 98; 34; 44; 34; 49; 44; 50; 34; 13; 10;
      44; 34; 120; 10; 121; 34; 13; 10].
Proof. vm_compute. reflexivity. Qed.

Lemma example_load :
  csv_load 59 [[98]; [97]; [122]] [97; 59; 98; 10; 34; 120; 34; 34; 59; 34; 59; 34; 49; 34; 13; 10; 59; 10] =
  Ok [[Some [49]; Some [120; 34; 59]; None]; [Some []; Some []; None]].
Proof. vm_compute. reflexivity. Qed.

Lemma example_width : csv_load 44 [[97]] [97; 44; 98; 13; 10; 49; 13; 10] = Err ParsingError.
Proof. vm_compute. reflexivity. Qed.

(* ---------- the stream reader ---------- *)

(* the payload is what is left of the stream after the UTF-8 byte order mark, if the first chunk starts with one *)
Definition stream_reader_rfc_statement : Prop :=
  forall K sep chs final hdr rows text keys, (0 < K)%nat -> allowed sep -> NoDup hdr -> uniform hdr rows ->
  render sep chs final (hdr :: rows) = Some (stream_payload K text) ->
  csv_load_stream K sep keys text = Ok (select hdr keys rows).

Lemma stream_reader_rfc_refuted : ~ stream_reader_rfc_statement.
Proof.
  intros H.
  specialize (H chunk_size 44 [mkChoice [false; false] EolCRLF; mkChoice [false; true] EolCRLF] true
                [[97]; [98]] [[[49]; [50]]] [97; 44; 98; 13; 10; 49; 44; 34; 50; 34; 13; 10] [[97]; [98]]).
  rewrite stream_f23_witness in H. discriminate H.
  - unfold chunk_size. lia.
  - cbn. auto.
  - repeat constructor; cbn; intuition discriminate.
  - repeat constructor.
  - reflexivity.
Qed.

(* F25 alone also refutes it: nothing escaped outside the first column, the first column requested twice *)
Lemma stream_reader_rfc_refuted_f25 : exists K sep chs final hdr rows text keys,
  (0 < K)%nat /\ allowed sep /\ NoDup hdr /\ uniform hdr rows /\
  render sep chs final (hdr :: rows) = Some (stream_payload K text) /\
  csv_load_stream K sep keys text <> Ok (select hdr keys rows).
Proof.
  exists chunk_size, 44, [mkChoice [false; false] EolCRLF; mkChoice [true; false] EolCRLF], false,
         [[97]; [98]], [[[102; 111; 111]; [120]]], [97; 44; 98; 13; 10; 34; 102; 111; 111; 34; 44; 120], [[97]; [97]].
  split; [unfold chunk_size; lia|]. split; [cbn; auto|].
  split; [repeat constructor; cbn; intuition discriminate|]. split; [repeat constructor|].
  split; [reflexivity|]. rewrite stream_f25_witness. discriminate.
Qed.

Lemma stream_reader_rfc_outside : forall K sep chs final hdr rows text keys,
  (0 < K)%nat -> allowed sep -> NoDup hdr -> uniform hdr rows ->
  render sep chs final (hdr :: rows) = Some (stream_payload K text) ->
  chs_ok hdr keys (tl chs) = true ->
  csv_load_stream K sep keys text = Ok (select hdr keys rows).
Proof.
  intros K sep chs final hdr rows text keys HK A ND U R Hok.
  rewrite (csv_load_stream_render K sep chs final hdr rows text keys HK A ND R Hok).
  rewrite (widths_ok_uniform _ _ U). reflexivity.
Qed.

Lemma stream_width_outside : forall K sep chs final hdr recs text keys,
  (0 < K)%nat -> allowed sep -> NoDup hdr ->
  render sep chs final (hdr :: recs) = Some (stream_payload K text) ->
  Exists (fun r => length r <> length hdr) recs ->
  chs_ok hdr keys (tl chs) = true ->
  csv_load_stream K sep keys text = Err ParsingError.
Proof.
  intros K sep chs final hdr recs text keys HK A ND R E Hok.
  rewrite (csv_load_stream_render K sep chs final hdr recs text keys HK A ND R Hok).
  rewrite (widths_ok_ragged _ _ E). reflexivity.
Qed.

(* the stream reader has no F24: a text that ends with the separator keeps its last empty field *)
Lemma stream_no_f24 :
  csv_load_stream chunk_size 44 [[97]; [98]] [97; 44; 98; 13; 10; 102; 111; 111; 44] = Ok [[Some [102; 111; 111]; Some []]].
Proof. vm_compute. reflexivity. Qed.

(* the conditions under which a row is served, in words: chs_ok holds when in every data row no requested column other
   than the first is escaped and an escaped first column is requested at most once *)
Lemma chs_ok_sufficient hdr keys chs :
  (forall ch, In ch chs ->
     (forall (j : nat) (k : field), In k keys -> nth_error hdr (S j) = Some k -> nth (S j) (ch_quotes ch) false = false) /\
     (hd false (ch_quotes ch) = true -> forall k0 : field, nth_error hdr 0%nat = Some k0 ->
        (count_occ field_eq_dec keys k0 <= 1)%nat)) ->
  chs_ok hdr keys chs = true.
Proof.
  intros H. unfold chs_ok. apply forallb_forall. intros ch Hin. destruct (H ch Hin) as [C1 C0].
  apply keys_ok_sufficient; assumption.
Qed.

Lemma writer_rfc_outside : forall sep hdr rows,
  allowed sep -> rows <> [] -> hdr <> [] -> uniform hdr rows ->
  has_f21 sep (hdr :: rows) = false ->
  exists text, csv_write sep hdr rows = Ok text /\ rfc_parse sep text = Some (hdr :: rows).
Proof. intros sep hdr rows A R H U N. apply csv_write_rfc_outside; try assumption. apply no_f21_iff. exact N. Qed.

Lemma writer_quotes_outside : forall sep hdr rows,
  allowed sep -> rows <> [] -> hdr <> [] -> uniform hdr rows ->
  has_f21 sep (hdr :: rows) = false ->
  exists text, csv_write sep hdr rows = Ok text /\
    render sep (map (min_choice sep) (hdr :: rows)) true (hdr :: rows) = Some text.
Proof. intros sep hdr rows A R H U N. apply csv_write_is_min_rendering; try assumption. apply no_f21_iff. exact N. Qed.

Lemma writer_stream_same : forall bom sep hdr rows, allowed sep -> rows <> [] -> uniform hdr rows ->
  exists text, csv_write sep hdr rows = Ok text /\
               csv_write_stream bom sep hdr rows = Ok ((if bom then utf8_bom else []) ++ text).
Proof.
  intros bom sep hdr rows A R U. exists (lib_text sep (hdr :: rows)).
  split; [apply csv_write_closed | apply csv_write_stream_closed]; assumption.
Qed.
