(* CsvReaderProofs.v — the memory reader (CCsvStringReader) on RFC 4180 renderings. *)
From BS Require Import Base CsvSpec CsvSpecProofs CsvModel CsvWriterProofs.
From Coq Require Import ZifyBool ZifyN ZifyNat.
Ltac Zify.zify_post_hook ::= Z.div_mod_to_equations.
Local Open Scope N_scope.

(* ---------- the line scanner on the pieces of a rendering ---------- *)

(* precedingCrPos, if set, lies before p *)
Definition cr_lt (cr : option nat) (p : nat) : Prop := match cr with None => True | Some q => (q < p)%nat end.

Lemma esc_cons c f : esc (c :: f) = (if c =? DQ then [DQ; DQ] else [c]) ++ esc f.
Proof. reflexivity. Qed.

(* the scanner state after a rendered field that started at pos with a fresh state *)
Definition after_field (q : bool) (p : nat) (dq : nat) (cr : option nat) : Prop :=
  Nat.even dq = true /\ negb (nat_is0 dq) = q /\ (cr = None \/ exists c, cr = Some c /\ (S c < p)%nat).

(* the four things that may follow a field *)
Lemma lf_end_ok cr p : (cr = None \/ exists c, cr = Some c /\ (S c < p)%nat) -> lf_end cr p = p.
Proof.
  unfold lf_end. intros [->|(c & -> & Hc)].
  - destruct p as [|p]; [reflexivity|]. cbn [nat_is0 negb andb].
    replace (S p - 1)%nat with p by lia. rewrite (proj2 (Nat.eqb_neq (S p) p)) by lia. reflexivity.
  - destruct p as [|p]; [reflexivity|]. cbn [nat_is0 negb andb].
    replace (S p - 1)%nat with p by lia. rewrite (proj2 (Nat.eqb_neq c p)) by lia. reflexivity.
Qed.

Lemma mk_value_fmeta pos q f dq : negb (nat_is0 dq) = q ->
  mk_value pos (pos + length (rfield q f)) dq = mkMeta pos (length (rfield q f)) q.
Proof. intros H. unfold mk_value. rewrite H. f_equal. lia. Qed.

(* ---------- one rendered record ---------- *)

(* CValueMeta of each field of a record rendered from position pos on *)
Fixpoint rec_metas (pos : nat) (qs : list bool) (r : record) : list meta :=
  match r, qs with
  | f :: r', q :: qs' => mkMeta pos (length (rfield q f)) q :: rec_metas (S (pos + length (rfield q f))) qs' r'
  | _, _ => []
  end.

(* what follows a record: nothing, LF or CRLF *)
Inductive line_rest : list N -> nat -> Prop :=
| LR_eof : line_rest [] 0
| LR_lf t : line_rest (LF :: t) 1
| LR_crlf t : line_rest (CR :: LF :: t) 2.

(* ---------- the line scanner, as a function of the unread text alone ---------- *)

Fixpoint a_scan (sep : N) (l : list N) (pos start dq : nat) (cr : option nat) (acc : list meta) : list meta * nat :=
  match l with
  | [] => (mk_value start pos dq :: acc, pos)
  | c :: t =>
    if c =? DQ then a_scan sep t (S pos) start (S dq) cr acc
    else if (c =? sep) && Nat.even dq then a_scan sep t (S pos) (S pos) 0 None (mk_value start pos dq :: acc)
    else if c =? CR then a_scan sep t (S pos) start dq (Some pos) acc
    else if (c =? LF) && Nat.even dq then (mk_value start (lf_end cr pos) dq :: acc, S pos)
    else a_scan sep t (S pos) start dq cr acc
  end.

Lemma a_scan_pos sep : forall l pos start dq cr acc,
  (pos <= snd (a_scan sep l pos start dq cr acc) <= pos + length l)%nat.
Proof.
  induction l as [|c t IH]; intros pos start dq cr acc; cbn [a_scan length].
  - cbn. lia.
  - destruct (c =? DQ); [specialize (IH (S pos) start (S dq) cr acc); lia|].
    destruct ((c =? sep) && Nat.even dq); [specialize (IH (S pos) (S pos) 0%nat None (mk_value start pos dq :: acc)); lia|].
    destruct (c =? CR); [specialize (IH (S pos) start dq (Some pos) acc); lia|].
    destruct ((c =? LF) && Nat.even dq); [cbn; lia|].
    specialize (IH (S pos) start dq cr acc); lia.
Qed.

Lemma parse_line_a_scan sep : forall l pos start dq cr acc,
  parse_line sep l pos start dq cr acc = a_scan sep l pos start dq cr acc.
Proof.
  induction l as [|c t IH]; intros pos start dq cr acc; cbn [parse_line a_scan]; [reflexivity|].
  destruct (c =? DQ); [apply IH|].
  destruct ((c =? sep) && Nat.even dq).
  - destruct t as [|c2 t2]; [|apply IH]. cbn [a_scan]. unfold mk_value. rewrite Nat.sub_diag. reflexivity.
  - destruct (c =? CR); [apply IH|]. destruct ((c =? LF) && Nat.even dq); [reflexivity | apply IH].
Qed.

Lemma as_plain sep f : needs_quote sep f = false -> forall rest pos start dq cr acc,
  a_scan sep (f ++ rest) pos start dq cr acc = a_scan sep rest (pos + length f) start dq cr acc.
Proof.
  induction f as [|c f IH]; intros H rest pos start dq cr acc.
  - cbn. rewrite Nat.add_0_r. reflexivity.
  - apply needs_quote_cons in H. destruct H as [Hc Hf]. apply special_false in Hc. destruct Hc as (H1 & H2 & H3 & H4).
    cbn [app a_scan length]. neqb. cbn [andb]. rewrite IH by exact Hf. f_equal. lia.
Qed.

Lemma as_esc sep f : sane_sep sep -> forall rest pos start dq cr acc, Nat.even dq = false -> cr_lt cr pos ->
  exists dq' cr',
    a_scan sep (esc f ++ rest) pos start dq cr acc = a_scan sep rest (pos + length (esc f)) start dq' cr' acc /\
    Nat.even dq' = false /\ cr_lt cr' (pos + length (esc f)).
Proof.
  intros (S1 & S2 & S3). induction f as [|c f IH]; intros rest pos start dq cr acc Hev Hcr.
  - exists dq, cr. cbn. rewrite Nat.add_0_r. auto.
  - rewrite esc_cons. destruct (N.eqb_spec c DQ) as [->|Hdq].
    + cbn [app a_scan length]. rewrite !N.eqb_refl.
      destruct (IH rest (S (S pos)) start (S (S dq)) cr acc) as (dq' & cr' & E & Hev' & Hcr').
      { exact Hev. } { destruct cr; cbn in *; lia. }
      exists dq', cr'. rewrite E. split; [f_equal; lia|]. split; [exact Hev'|].
      replace (pos + S (S (length (esc f))))%nat with (S (S pos) + length (esc f))%nat by lia. exact Hcr'.
    + cbn [app a_scan length]. neqb. rewrite Hev, !andb_false_r.
      destruct (N.eqb_spec c CR) as [->|Hcr0].
      * destruct (IH rest (S pos) start dq (Some pos) acc) as (dq' & cr' & E & Hev' & Hcr'); [exact Hev | cbn; lia |].
        exists dq', cr'. rewrite E. split; [f_equal; lia|]. split; [exact Hev'|].
        replace (pos + S (length (esc f)))%nat with (S pos + length (esc f))%nat by lia. exact Hcr'.
      * destruct (IH rest (S pos) start dq cr acc) as (dq' & cr' & E & Hev' & Hcr'); [exact Hev | destruct cr; cbn in *; lia |].
        exists dq', cr'. rewrite E. split; [f_equal; lia|]. split; [exact Hev'|].
        replace (pos + S (length (esc f)))%nat with (S pos + length (esc f))%nat by lia. exact Hcr'.
Qed.

Lemma as_field sep q f : sane_sep sep -> (q = false -> needs_quote sep f = false) -> forall rest pos acc,
  exists dq cr,
    a_scan sep (rfield q f ++ rest) pos pos 0 None acc =
    a_scan sep rest (pos + length (rfield q f)) pos dq cr acc /\
    after_field q (pos + length (rfield q f)) dq cr.
Proof.
  intros S Hq rest pos acc. destruct q; cbn [rfield].
  - unfold quoted. cbn [app a_scan length]. rewrite N.eqb_refl. rewrite <- app_assoc.
    destruct (as_esc sep f S ([DQ] ++ rest) (Datatypes.S pos) pos 1%nat None acc) as (dq' & cr' & E & Hev & Hcr); [reflexivity | exact I |].
    rewrite E. cbn [app a_scan]. rewrite N.eqb_refl.
    exists (Datatypes.S dq'), cr'. split; [f_equal; rewrite app_length; cbn; lia|].
    unfold after_field. split; [rewrite Nat.even_succ, <- Nat.negb_even, Hev; reflexivity|]. split; [reflexivity|].
    destruct cr' as [c|]; [right|left; reflexivity]. exists c. split; [reflexivity|].
    cbn in Hcr. rewrite app_length. cbn. lia.
  - exists 0%nat, None. split; [apply as_plain; apply Hq; reflexivity|]. unfold after_field. auto.
Qed.

Lemma as_after_sep sep start p dq cr t acc : sane_sep sep -> Nat.even dq = true ->
  a_scan sep (sep :: t) p start dq cr acc = a_scan sep t (S p) (S p) 0 None (mk_value start p dq :: acc).
Proof. intros (S1 & S2 & S3) Hev. cbn [a_scan]. neqb. rewrite N.eqb_refl, Hev. reflexivity. Qed.

Lemma as_after_lf sep start p dq cr t acc : sane_sep sep -> Nat.even dq = true ->
  (cr = None \/ exists c, cr = Some c /\ (S c < p)%nat) ->
  a_scan sep (LF :: t) p start dq cr acc = (mk_value start p dq :: acc, S p).
Proof.
  intros (S1 & S2 & S3) Hev Hcr. cbn [a_scan]. assert (LF <> sep) by congruence.
  change (LF =? DQ) with false. change (LF =? CR) with false. neqb. rewrite N.eqb_refl, Hev. cbn [andb].
  rewrite lf_end_ok by exact Hcr. reflexivity.
Qed.

Lemma as_after_crlf sep start p dq cr t acc : sane_sep sep -> Nat.even dq = true ->
  a_scan sep (CR :: LF :: t) p start dq cr acc = (mk_value start p dq :: acc, S (S p)).
Proof.
  intros (S1 & S2 & S3) Hev. cbn [a_scan]. assert (LF <> sep) by congruence. assert (CR <> sep) by congruence.
  change (CR =? DQ) with false. change (LF =? DQ) with false. change (LF =? CR) with false. change (CR =? CR) with true.
  neqb. rewrite N.eqb_refl, Hev. cbn [andb].
  unfold lf_end. cbn [nat_is0 negb andb]. replace (S p - 1)%nat with p by lia. rewrite Nat.eqb_refl. reflexivity.
Qed.

(* a rendered record, whatever follows it: the stream scanner has no F24 *)
Lemma as_record sep : sane_sep sep -> forall r qs a rest n pos acc,
  render_record sep qs r = Some a -> line_rest rest n ->
  a_scan sep (a ++ rest) pos pos 0 None acc = (rev (rec_metas pos qs r) ++ acc, (pos + length a + n)%nat).
Proof.
  intros S. induction r as [|f r IH]; intros qs a rest n pos acc H LR.
  - rewrite render_record_nil in H. discriminate.
  - apply render_record_inv in H.
    destruct H as (q & qs' & -> & Hq & [(-> & -> & ->)|(Hne & b & Hb & ->)]).
    + destruct (as_field sep q f S Hq rest pos acc) as (dq & cr & E & AF). destruct AF as (Hev & Hq' & Hcr). rewrite E.
      cbn [rec_metas rev app].
      destruct LR.
      * cbn [a_scan]. rewrite mk_value_fmeta by exact Hq'. f_equal. lia.
      * rewrite as_after_lf by assumption. rewrite mk_value_fmeta by exact Hq'. f_equal. lia.
      * rewrite as_after_crlf by assumption. rewrite mk_value_fmeta by exact Hq'. f_equal. lia.
    + rewrite <- app_assoc. cbn [app].
      destruct (as_field sep q f S Hq (sep :: b ++ rest) pos acc) as (dq & cr & E & AF). destruct AF as (Hev & Hq' & Hcr). rewrite E.
      rewrite as_after_sep by assumption. rewrite mk_value_fmeta by exact Hq'.
      rewrite (IH qs' b rest n _ _ Hb LR).
      destruct r as [|f2 r']; [congruence|]. destruct qs' as [|q2 qs'']; [rewrite render_record_nilq in Hb; discriminate|].
      cbn [rec_metas rev]. rewrite <- !app_assoc. cbn [app]. f_equal. rewrite !app_length. cbn [length]. lia.
Qed.

Lemma pl_record sep : sane_sep sep -> forall r qs a rest n pos acc,
  render_record sep qs r = Some a -> line_rest rest n ->
  parse_line sep (a ++ rest) pos pos 0 None acc = (rev (rec_metas pos qs r) ++ acc, (pos + length a + n)%nat).
Proof. intros S r qs a rest n pos acc H LR. rewrite parse_line_a_scan. apply as_record; assumption. Qed.

(* ---------- the values behind the metas ---------- *)

Definition src_value (src : list N) (m : meta) : outcome (list N) :=
  let raw := slice src (m_off m) (m_size m) in
  if m_esc m then m_unescape raw else Ok raw.

Lemma unescape_loop_esc f : forall dq, Nat.even dq = true -> unescape_loop (esc f) dq = f.
Proof.
  induction f as [|c f IH]; intros dq Hev; [reflexivity|].
  rewrite esc_cons. destruct (N.eqb_spec c DQ) as [->|Hc].
  - cbn [app unescape_loop]. rewrite !N.eqb_refl.
    rewrite (Nat.even_succ dq), <- Nat.negb_even, Hev. cbn [negb].
    change (Nat.even (S (S dq))) with (Nat.even dq). rewrite Hev. f_equal. apply IH. exact Hev.
  - cbn [app unescape_loop]. neqb. f_equal. apply IH. exact Hev.
Qed.

Lemma last_snoc {A} (l : list A) (x d : A) : last (l ++ [x]) d = x.
Proof. induction l as [|y l IH]; [reflexivity|]. cbn [app]. destruct (l ++ [x]) eqn:E; [destruct l; discriminate|]. exact IH. Qed.

Lemma m_unescape_quoted f : m_unescape (quoted f) = Ok f.
Proof.
  unfold m_unescape, quoted. rewrite N.eqb_refl. cbn [negb].
  change (DQ :: esc f ++ [DQ]) with ((DQ :: esc f) ++ [DQ]). rewrite last_snoc, N.eqb_refl. cbn [negb].
  rewrite app_length. cbn [length]. replace (Nat.ltb (S (length (esc f)) + 1) 2) with false by (symmetry; apply Nat.ltb_ge; lia).
  cbn [orb]. unfold slice. cbn [app skipn]. replace (S (length (esc f)) + 1 - 2)%nat with (length (esc f)) by lia.
  rewrite firstn_app_exact. rewrite unescape_loop_esc by reflexivity. reflexivity.
Qed.

Lemma slice_mid (pre a post : list N) : slice (pre ++ a ++ post) (length pre) (length a) = a.
Proof. unfold slice. rewrite skipn_app_exact, firstn_app_exact. reflexivity. Qed.

Lemma src_value_field pre post q f : src_value (pre ++ rfield q f ++ post) (mkMeta (length pre) (length (rfield q f)) q) = Ok f.
Proof.
  unfold src_value. cbn [m_off m_size m_esc]. rewrite slice_mid. destruct q; cbn [rfield]; [apply m_unescape_quoted | reflexivity].
Qed.

Lemma rec_values sep : forall r qs a pre post, render_record sep qs r = Some a ->
  Forall2 (fun m f => src_value (pre ++ a ++ post) m = Ok f) (rec_metas (length pre) qs r) r.
Proof.
  induction r as [|f r IH]; intros qs a pre post H.
  - rewrite render_record_nil in H. discriminate.
  - apply render_record_inv in H.
    destruct H as (q & qs' & -> & Hq & [(-> & -> & ->)|(Hne & b & Hb & ->)]).
    + cbn [rec_metas]. constructor; [apply src_value_field | constructor].
    + cbn [rec_metas]. constructor.
      * rewrite <- app_assoc. apply src_value_field.
      * specialize (IH qs' b (pre ++ rfield q f ++ [sep]) post Hb).
        replace (length (pre ++ rfield q f ++ [sep])) with (S (length pre + length (rfield q f))) in IH
          by (rewrite !app_length; cbn [length]; lia).
        replace ((pre ++ rfield q f ++ [sep]) ++ b ++ post) with (pre ++ (rfield q f ++ sep :: b) ++ post) in IH
          by (rewrite <- !app_assoc; reflexivity).
        exact IH.
Qed.

Lemma rec_metas_length sep : forall r qs a pos, render_record sep qs r = Some a -> length (rec_metas pos qs r) = length r.
Proof.
  induction r as [|f r IH]; intros qs a pos H.
  - rewrite render_record_nil in H. discriminate.
  - apply render_record_inv in H.
    destruct H as (q & qs' & -> & Hq & [(-> & -> & ->)|(Hne & b & Hb & ->)]).
    + reflexivity.
    + cbn [rec_metas length]. f_equal. apply (IH qs' b). exact Hb.
Qed.

Lemma Forall2_nth {A B} (R : A -> B -> Prop) l1 l2 : Forall2 R l1 l2 -> forall i b, nth_error l2 i = Some b ->
  exists a, nth_error l1 i = Some a /\ R a b.
Proof.
  induction 1 as [|a0 b0 l1 l2 H0 F IH]; intros i b Hn.
  - destruct i; discriminate.
  - destruct i as [|i]; cbn in *.
    + inversion Hn. subst. exists a0. auto.
    + apply IH. exact Hn.
Qed.

(* ---------- reading by name ---------- *)

Lemma list_eqb_eq a : forall b, list_eqb a b = true <-> a = b.
Proof.
  induction a as [|x a IH]; intros [|y b]; cbn; try (split; [discriminate|discriminate]); [tauto|].
  rewrite andb_true_iff, N.eqb_eq, IH. split; [intros [-> ->]; reflexivity | intros E; inversion E; auto].
Qed.

Lemma list_eqb_refl a : list_eqb a a = true.
Proof. apply list_eqb_eq. reflexivity. Qed.

Lemma find_header_shift hs key : forall i, find_header hs key (S i) = option_map S (find_header hs key i).
Proof. induction hs as [|h hs IH]; intros i; cbn; [reflexivity|]. destruct (list_eqb h key); [reflexivity | apply IH]. Qed.

Lemma find_header_lt hs key : forall i, find_header hs key 0 = Some i -> (i < length hs)%nat.
Proof.
  induction hs as [|h hs IH]; intros i H; cbn in *; [discriminate|].
  destruct (list_eqb h key); [inversion H; lia|].
  rewrite find_header_shift in H. destruct (find_header hs key 0) as [j|]; [|discriminate].
  cbn in H. inversion H. specialize (IH j eq_refl). lia.
Qed.

Lemma find_header_nodup hs key : NoDup hs -> forall j, nth_error hs j = Some key -> find_header hs key 0 = Some j.
Proof.
  induction 1 as [|h hs Hnin ND IH]; intros j Hj; [destruct j; discriminate|].
  destruct j as [|j]; cbn in *.
  - inversion Hj. subst. rewrite list_eqb_refl. reflexivity.
  - destruct (list_eqb h key) eqn:E.
    + apply list_eqb_eq in E. subst h. exfalso. apply Hnin. eapply nth_error_In. exact Hj.
    + rewrite find_header_shift, (IH j Hj). reflexivity.
Qed.

Lemma cell_find hdr : forall row key, length row = length hdr ->
  cell hdr row key = match find_header hdr key 0 with Some j => nth_error row j | None => None end.
Proof.
  induction hdr as [|h hdr IH]; intros [|v row] key Hl; cbn in *; try discriminate; try reflexivity.
  destruct (list_eqb h key); [reflexivity|].
  rewrite find_header_shift, IH by lia. destruct (find_header hdr key 0); reflexivity.
Qed.

Lemma select_column_nodup hdr v key : NoDup hdr ->
  select_column hdr v key = match find_header hdr key 0 with Some i => (i, true) | None => (S v, false) end.
Proof.
  intros ND. unfold select_column. destruct (nth_error hdr (S v)) as [h|] eqn:En; [|reflexivity].
  destruct (list_eqb h key) eqn:E; [|reflexivity].
  apply list_eqb_eq in E. subst h. rewrite (find_header_nodup hdr key ND _ En). reflexivity.
Qed.

(* the reader state as far as reading values is concerned *)
Definition same_row (r r' : mreader) : Prop :=
  r_src r' = r_src r /\ r_headers r' = r_headers r /\ r_metas r' = r_metas r /\ r_pos r' = r_pos r.

Lemma same_row_refl r : same_row r r.
Proof. unfold same_row. auto. Qed.

Lemma same_row_trans r1 r2 r3 : same_row r1 r2 -> same_row r2 r3 -> same_row r1 r3.
Proof. unfold same_row. intros (A1 & A2 & A3 & A4) (B1 & B2 & B3 & B4). repeat split; congruence. Qed.

(* what a sequence of ReadValue(key) calls returns, whatever the header names are: the model of the
   column cursor (mValueIndex) and the std::find fallback *)
Fixpoint read_spec (hdr : record) (row : record) (keys : list field) (v : nat) : list (option field) :=
  match keys with
  | [] => []
  | k :: ks =>
    let (idx, found) := select_column hdr v k in
    (if found then nth_error row idx else None) :: read_spec hdr row ks idx
  end.

Lemma select_column_lt hdr v key idx : select_column hdr v key = (idx, true) -> (idx < length hdr)%nat.
Proof.
  unfold select_column. destruct (nth_error hdr (S v)) as [h|] eqn:En.
  - destruct (list_eqb h key).
    + intros E. inversion E. subst. apply nth_error_Some. congruence.
    + destruct (find_header hdr key 0) as [i|] eqn:Ef; intros E; inversion E. subst. apply (find_header_lt _ _ _ Ef).
  - destruct (find_header hdr key 0) as [i|] eqn:Ef; intros E; inversion E. subst. apply (find_header_lt _ _ _ Ef).
Qed.

Lemma read_spec_nodup hdr row : NoDup hdr -> length row = length hdr -> forall keys v,
  read_spec hdr row keys v = map (cell hdr row) keys.
Proof.
  intros ND Hl. induction keys as [|k ks IH]; intros v; [reflexivity|].
  cbn [read_spec map]. rewrite select_column_nodup by exact ND. rewrite cell_find by exact Hl.
  destruct (find_header hdr k 0); rewrite IH; reflexivity.
Qed.

Lemma m_read_key_gen r (row : record) key : length row = length (r_headers r) ->
  Forall2 (fun m f => src_value (r_src r) m = Ok f) (r_metas r) row ->
  exists r', m_read_key true r key =
               Ok ((if snd (select_column (r_headers r) (r_validx r) key)
                    then nth_error row (fst (select_column (r_headers r) (r_validx r) key)) else None), r') /\
             same_row r r' /\ r_validx r' = fst (select_column (r_headers r) (r_validx r) key).
Proof.
  intros Hl F. unfold m_read_key. cbn [negb].
  destruct (select_column (r_headers r) (r_validx r) key) as [idx found] eqn:Es. cbn [fst snd].
  destruct found; cbn [negb].
  - apply select_column_lt in Es.
    destruct (nth_error row idx) as [val|] eqn:Er; [|apply nth_error_None in Er; lia].
    destruct (Forall2_nth _ _ _ F idx val Er) as (m & Em & Hm). rewrite Em.
    unfold m_value. unfold src_value in Hm. rewrite Hm.
    eexists. split; [reflexivity|]. unfold same_row. cbn. auto.
  - eexists. split; [reflexivity|]. unfold same_row. cbn. auto.
Qed.

Lemma m_read_keys_gen (row : record) : forall keys r acc, length row = length (r_headers r) ->
  Forall2 (fun m f => src_value (r_src r) m = Ok f) (r_metas r) row ->
  exists r', m_read_keys r keys acc = Ok (acc ++ read_spec (r_headers r) row keys (r_validx r), r') /\ same_row r r'.
Proof.
  induction keys as [|k keys IH]; intros r acc Hl F.
  - exists r. cbn. rewrite app_nil_r. split; [reflexivity | apply same_row_refl].
  - cbn [m_read_keys read_spec]. destruct (m_read_key_gen r row k Hl F) as (r1 & E1 & S1 & V1). rewrite E1.
    destruct (select_column (r_headers r) (r_validx r) k) as [idx found] eqn:Es. cbn [fst snd] in *.
    destruct S1 as (A1 & A2 & A3 & A4).
    destruct (IH r1 (acc ++ [if found then nth_error row idx else None])) as (r2 & E2 & S2).
    { rewrite A2. exact Hl. } { rewrite A1, A3. exact F. }
    exists r2. cbv beta iota. rewrite A2, V1, <- app_assoc in E2. split; [exact E2|].
    apply (same_row_trans r r1 r2); [unfold same_row; auto | exact S2].
Qed.

Lemma m_parse_next_line_record sep : sane_sep sep -> forall r pre a rest n qs rec,
  r_src r = pre ++ a ++ rest -> r_pos r = length pre -> render_record sep qs rec = Some a ->
  line_rest rest n -> a ++ rest <> [] ->
  m_parse_next_line sep r =
    (true, mkM (r_src r) (r_headers r) (rec_metas (length pre) qs rec) (length pre + length a + n)
               (S (r_line r)) (r_rowidx r) (r_validx r) (length (r_metas r))).
Proof.
  intros S r pre a rest n qs rec Hsrc Hpos Hrec LR Hne.
  unfold m_parse_next_line, m_is_end. rewrite Hsrc, Hpos.
  replace (Nat.leb (length (pre ++ a ++ rest)) (length pre)) with false.
  2:{ symmetry. apply Nat.leb_gt. rewrite app_length. destruct (a ++ rest); [congruence|]. cbn. lia. }
  rewrite skipn_app_exact. rewrite (pl_record sep S rec qs a rest n (length pre) [] Hrec LR).
  rewrite app_nil_r, rev_involutive. reflexivity.
Qed.

Definition widths_ok (hdr : record) (t : table) : bool := forallb (fun rec => Nat.eqb (length rec) (length hdr)) t.

Lemma eol_line_rest e b : line_rest (eol_bytes e ++ b) (length (eol_bytes e)).
Proof. destruct e; cbn; constructor. Qed.

Definition read_rows (hdr : record) (keys : list field) (t : table) : list (list (option field)) :=
  map (fun row => read_spec hdr row keys 0) t.

Lemma load_rows_spec sep keys hdr : sane_sep sep ->
  forall t chs final body pre fuel r acc,
  ((t = [] /\ body = []) \/ render sep chs final t = Some body) ->
  r_src r = pre ++ body -> r_pos r = length pre -> r_headers r = hdr ->
  (length body < fuel)%nat ->
  m_load_rows fuel sep keys r acc =
    if widths_ok hdr t then Ok (acc ++ read_rows hdr keys t) else Err ParsingError.
Proof.
  intros S. induction t as [|rec t IH]; intros chs final body pre fuel r acc Hb Hsrc Hpos Hhdr Hfuel.
  - destruct Hb as [[_ ->]|Hb]; [|rewrite render_nil in Hb; discriminate].
    destruct fuel as [|fuel]; [lia|]. cbn [m_load_rows]. unfold m_is_end. rewrite Hsrc, Hpos, app_nil_r, Nat.leb_refl.
    cbn. rewrite app_nil_r. reflexivity.
  - destruct Hb as [[Hb _]|Hb]; [discriminate|].
    pose proof (render_nonempty _ _ _ _ _ Hb) as Hbne.
    apply render_inv in Hb.
    destruct Hb as (ch & chs' & a & -> & Ha & Hcases).
    (* normalise the three shapes into  body = a ++ rest,  rest followed by the rendering of t *)
    assert (Hshape : exists rest n, body = a ++ rest /\ line_rest rest n /\ (0 < length a + n)%nat /\
              exists tail, rest = firstn n rest ++ tail /\ length (firstn n rest) = n /\
              ((t = [] /\ tail = []) \/ render sep chs' final t = Some tail)).
    { destruct Hcases as [(-> & -> & [[_ ->]|(_ & Hane & ->)])|(Htne & b & Hb' & ->)].
      - exists (eol_bytes (ch_eol ch)), (length (eol_bytes (ch_eol ch))). split; [reflexivity|].
        split; [destruct (ch_eol ch); constructor|]. split; [destruct (ch_eol ch); cbn; lia|].
        exists []. rewrite firstn_all, app_nil_r. auto.
      - exists [], 0%nat. split; [rewrite app_nil_r; reflexivity|]. split; [constructor|].
        split; [destruct a; [congruence|cbn; lia]|].
        exists []. cbn. auto.
      - exists (eol_bytes (ch_eol ch) ++ b), (length (eol_bytes (ch_eol ch))). split; [reflexivity|].
        split; [apply eol_line_rest|]. split; [destruct (ch_eol ch); cbn; lia|].
        exists b. rewrite firstn_app_exact. auto. }
    destruct Hshape as (rest & n & -> & LR & Hprog & tail & Erest & Hn & Htail).
    destruct fuel as [|fuel]; [lia|]. cbn [m_load_rows].
    unfold m_is_end. rewrite Hsrc, Hpos.
    replace (Nat.leb (length (pre ++ a ++ rest)) (length pre)) with false.
    2:{ symmetry. apply Nat.leb_gt. rewrite app_length. destruct (a ++ rest); [congruence|]. cbn. lia. }
    unfold m_parse_next_row.
    rewrite (m_parse_next_line_record sep S r pre a rest n (ch_quotes ch) rec Hsrc Hpos Ha LR Hbne).
    cbn [r_headers r_metas r_line r_prev r_src r_pos r_rowidx andb negb].
    rewrite (rec_metas_length sep rec _ a _ Ha), Hhdr.
    unfold widths_ok. cbn [forallb]. fold (widths_ok hdr t). change (@length field) with (@length (list N)) in *. rewrite (Nat.eqb_sym (@length (list N) rec) (@length (list N) hdr)).
    destruct (Nat.eqb (@length (list N) hdr) (@length (list N) rec)) eqn:Ew; cbn [negb andb]; [|reflexivity].
    apply Nat.eqb_eq in Ew.
    match goal with |- context [m_read_keys ?rr keys []] => set (r1 := rr) end.
    destruct (m_read_keys_gen rec keys r1 []) as (r2 & E2 & (B1 & B2 & B3 & B4)).
    { subst r1. cbn [r_headers]. symmetry. exact Ew. }
    { subst r1. cbn [r_src r_metas]. rewrite Hsrc. apply (rec_values sep). exact Ha. }
    rewrite E2. cbv beta iota.
    subst r1. cbn [r_src r_headers r_metas r_pos app] in *.
    etransitivity.
    { apply (IH chs' final tail (pre ++ a ++ firstn n rest) fuel r2 (acc ++ [read_spec hdr rec keys 0])).
      + exact Htail.
      + rewrite B1, Hsrc. rewrite Erest at 1. rewrite <- !app_assoc. reflexivity.
      + rewrite B4, !app_length, Hn. lia.
      + exact B2.
      + rewrite app_length in Hfuel. rewrite Erest, app_length, Hn in Hfuel. lia. }
    destruct (widths_ok hdr t); [|reflexivity].
    unfold read_rows. cbn [map]. rewrite <- app_assoc. reflexivity.
Qed.

(* ---------- constructor and LoadObject ---------- *)

Lemma render_shape sep chs final rec t body : render sep chs final (rec :: t) = Some body ->
  exists ch chs' a rest n tail, chs = ch :: chs' /\ render_record sep (ch_quotes ch) rec = Some a /\
    body = a ++ rest /\ line_rest rest n /\ (0 < length a + n)%nat /\
    rest = firstn n rest ++ tail /\ length (firstn n rest) = n /\
    ((t = [] /\ tail = []) \/ render sep chs' final t = Some tail).
Proof.
  intros Hb. apply render_inv in Hb. destruct Hb as (ch & chs' & a & -> & Ha & Hcases).
  exists ch, chs', a.
  destruct Hcases as [(-> & -> & [[_ ->]|(_ & Hane & ->)])|(Htne & b & Hb' & ->)].
  - exists (eol_bytes (ch_eol ch)), (length (eol_bytes (ch_eol ch))), [].
    split; [reflexivity|]. split; [exact Ha|]. split; [reflexivity|].
    split; [destruct (ch_eol ch); constructor|]. split; [destruct (ch_eol ch); cbn; lia|].
    rewrite firstn_all, app_nil_r. auto.
  - exists [], 0%nat, []. split; [reflexivity|]. split; [exact Ha|]. split; [rewrite app_nil_r; reflexivity|].
    split; [constructor|]. split; [destruct a; [congruence|cbn; lia]|]. cbn. auto.
  - exists (eol_bytes (ch_eol ch) ++ b), (length (eol_bytes (ch_eol ch))), b.
    split; [reflexivity|]. split; [exact Ha|]. split; [reflexivity|].
    split; [apply eol_line_rest|]. split; [destruct (ch_eol ch); cbn; lia|].
    rewrite firstn_app_exact. auto.
Qed.

Lemma skipn_nth {A} (l : list A) : forall i x, nth_error l i = Some x -> skipn i l = x :: skipn (S i) l.
Proof.
  induction l as [|y l IH]; intros [|i] x H; cbn in *; try discriminate.
  - inversion H. reflexivity.
  - apply IH. exact H.
Qed.

Lemma m_read_headers_spec (fields : record) : forall n r acc,
  Forall2 (fun m f => src_value (r_src r) m = Ok f) (r_metas r) fields ->
  (n + r_validx r = length fields)%nat ->
  exists r', m_read_headers n r acc = Ok (acc ++ skipn (r_validx r) fields, r') /\ same_row r r'.
Proof.
  induction n as [|n IH]; intros r acc F Hn.
  - exists r. cbn [m_read_headers]. rewrite skipn_all2 by (cbn in Hn; lia). rewrite app_nil_r.
    split; [reflexivity | apply same_row_refl].
  - cbn [m_read_headers]. unfold m_read_next.
    destruct (nth_error fields (r_validx r)) as [f|] eqn:Ef; [|apply nth_error_None in Ef; lia].
    destruct (Forall2_nth _ _ _ F _ _ Ef) as (m & Em & Hm). rewrite Em.
    unfold m_value. unfold src_value in Hm. rewrite Hm. cbv beta iota.
    match goal with |- context [m_read_headers n ?rr _] => set (r1 := rr) end.
    destruct (IH r1 (acc ++ [f])) as (r2 & E2 & S2).
    { subst r1. cbn [r_src r_metas]. exact F. }
    { subst r1. cbn [r_validx]. lia. }
    exists r2. subst r1. cbn [r_validx] in E2. rewrite (skipn_nth fields _ _ Ef), <- app_assoc in *.
    split; [exact E2|]. eapply same_row_trans; [|exact S2]. unfold same_row. cbn. auto.
Qed.

Definition load_expect (hdr : record) (keys : list field) (rows : table) : outcome (list (list (option field))) :=
  if widths_ok hdr rows then Ok (read_rows hdr keys rows) else Err ParsingError.

Theorem csv_load_render sep chs final hdr rows text keys : allowed sep ->
  render sep chs final (hdr :: rows) = Some text ->
  csv_load sep keys text = load_expect hdr keys rows.
Proof.
  intros A R. pose proof (allowed_sane sep A) as S.
  unfold csv_load. rewrite (allowed_validate sep A). cbn [negb].
  pose proof (render_nonempty _ _ _ _ _ R) as Hne.
  destruct (render_shape _ _ _ _ _ _ R) as (ch & chs' & a & rest & n & tail & -> & Ha & -> & LR & Hprog & Erest & Hn & Htail).
  unfold m_new.
  rewrite (m_parse_next_line_record sep S (mkM (a ++ rest) [] [] 0 0 0 0 0) [] a rest n (ch_quotes ch) hdr);
    try reflexivity; try assumption.
  cbn [r_src r_headers r_metas r_pos r_line r_rowidx r_validx r_prev length Nat.add].
  match goal with |- context [m_read_headers _ ?rr []] => set (r1 := rr) end.
  destruct (m_read_headers_spec hdr (length (rec_metas 0 (ch_quotes ch) hdr)) r1 []) as (r2 & E2 & (B1 & B2 & B3 & B4)).
  { subst r1. cbn [r_src r_metas]. apply (rec_values sep hdr _ a [] rest Ha). }
  { subst r1. cbn [r_validx]. rewrite (rec_metas_length sep hdr _ a 0 Ha). lia. }
  rewrite E2. cbv beta iota. subst r1. cbn [r_validx skipn app r_src r_pos] in *.
  unfold load_expect.
  apply (load_rows_spec sep keys hdr S rows chs' final tail (a ++ firstn n rest)).
  - exact Htail.
  - cbn [r_src]. rewrite B1. rewrite Erest at 1. rewrite <- app_assoc. reflexivity.
  - cbn [r_pos]. rewrite B4, app_length, Hn. reflexivity.
  - reflexivity.
  - rewrite app_length. rewrite Erest. rewrite app_length, Hn. lia.
Qed.

Lemma widths_ok_uniform hdr rows : uniform hdr rows -> widths_ok hdr rows = true.
Proof.
  unfold uniform, widths_ok. intros U. apply forallb_forall. intros r Hr.
  rewrite Forall_forall in U. apply Nat.eqb_eq. apply U. exact Hr.
Qed.

Lemma widths_ok_ragged hdr (rows : table) : Exists (fun r => length r <> length hdr) rows -> widths_ok hdr rows = false.
Proof.
  intros E. apply Exists_exists in E. destruct E as (r & Hr & Hl).
  destruct (widths_ok hdr rows) eqn:W; [|reflexivity]. unfold widths_ok in W.
  rewrite forallb_forall in W. specialize (W r Hr). apply Nat.eqb_eq in W. congruence.
Qed.

Lemma read_rows_select hdr keys rows : NoDup hdr -> uniform hdr rows -> read_rows hdr keys rows = select hdr keys rows.
Proof.
  intros ND U. unfold read_rows, select. apply map_ext_in. intros r Hr.
  unfold uniform in U. rewrite Forall_forall in U. apply read_spec_nodup; [exact ND | apply U; exact Hr].
Qed.

(* every RFC rendering of a table loads to its rows, for every list of requested column names *)
Theorem csv_load_rfc sep chs final hdr rows text keys : allowed sep -> NoDup hdr -> uniform hdr rows ->
  render sep chs final (hdr :: rows) = Some text ->
  csv_load sep keys text = Ok (select hdr keys rows).
Proof.
  intros A ND U R. rewrite (csv_load_render sep chs final hdr rows text keys A R).
  unfold load_expect. rewrite (widths_ok_uniform _ _ U), (read_rows_select _ _ _ ND U). reflexivity.
Qed.

Theorem csv_load_width sep chs final hdr recs text keys : allowed sep ->
  render sep chs final (hdr :: recs) = Some text -> Exists (fun r => length r <> length hdr) recs ->
  csv_load sep keys text = Err ParsingError.
Proof.
  intros A R E. rewrite (csv_load_render sep chs final hdr recs text keys A R).
  unfold load_expect. rewrite (widths_ok_ragged _ _ E). reflexivity.
Qed.

(* ---------- a request program per row (C03) ---------- *)

(* what the rows answer: row i under the i-th program, through the column cursor (read_spec) *)
Fixpoint hist_rows (hdr : record) (progs : list (list field)) (t : table) : list (list (option field)) :=
  match t with
  | [] => []
  | rec :: t' => read_spec hdr rec (hd [] progs) 0 :: hist_rows hdr (tl progs) t'
  end.

Lemma load_hist_spec sep hdr : sane_sep sep ->
  forall t progs chs final body pre fuel r acc,
  ((t = [] /\ body = []) \/ render sep chs final t = Some body) ->
  r_src r = pre ++ body -> r_pos r = length pre -> r_headers r = hdr ->
  (length body < fuel)%nat ->
  m_load_hist fuel sep progs r acc =
    if widths_ok hdr t then Ok (acc ++ hist_rows hdr progs t) else Err ParsingError.
Proof.
  intros S. induction t as [|rec t IH]; intros progs chs final body pre fuel r acc Hb Hsrc Hpos Hhdr Hfuel.
  - destruct Hb as [[_ ->]|Hb]; [|rewrite render_nil in Hb; discriminate].
    destruct fuel as [|fuel]; [lia|]. cbn [m_load_hist]. unfold m_is_end. rewrite Hsrc, Hpos, app_nil_r, Nat.leb_refl.
    cbn. rewrite app_nil_r. reflexivity.
  - destruct Hb as [[Hb _]|Hb]; [discriminate|].
    pose proof (render_nonempty _ _ _ _ _ Hb) as Hbne.
    destruct (render_shape _ _ _ _ _ _ Hb) as (ch & chs' & a & rest & n & tail & -> & Ha & -> & LR & Hprog & Erest & Hn & Htail).
    destruct fuel as [|fuel]; [lia|]. cbn [m_load_hist].
    unfold m_is_end. rewrite Hsrc, Hpos.
    replace (Nat.leb (length (pre ++ a ++ rest)) (length pre)) with false.
    2:{ symmetry. apply Nat.leb_gt. rewrite app_length. destruct (a ++ rest); [congruence|]. cbn. lia. }
    unfold m_parse_next_row.
    rewrite (m_parse_next_line_record sep S r pre a rest n (ch_quotes ch) rec Hsrc Hpos Ha LR Hbne).
    cbn [r_headers r_metas r_line r_prev r_src r_pos r_rowidx andb negb].
    rewrite (rec_metas_length sep rec _ a _ Ha), Hhdr.
    unfold widths_ok. cbn [forallb]. fold (widths_ok hdr t). change (@length field) with (@length (list N)) in *. rewrite (Nat.eqb_sym (@length (list N) rec) (@length (list N) hdr)).
    destruct (Nat.eqb (@length (list N) hdr) (@length (list N) rec)) eqn:Ew; cbn [negb andb]; [|reflexivity].
    apply Nat.eqb_eq in Ew.
    match goal with |- context [m_read_keys ?rr _ []] => set (r1 := rr) end.
    destruct (m_read_keys_gen rec (hd [] progs) r1 []) as (r2 & E2 & (B1 & B2 & B3 & B4)).
    { subst r1. cbn [r_headers]. symmetry. exact Ew. }
    { subst r1. cbn [r_src r_metas]. rewrite Hsrc. apply (rec_values sep). exact Ha. }
    rewrite E2. cbv beta iota.
    subst r1. cbn [r_src r_headers r_metas r_pos app] in *.
    etransitivity.
    { apply (IH (tl progs) chs' final tail (pre ++ a ++ firstn n rest) fuel r2 (acc ++ [read_spec hdr rec (hd [] progs) 0])).
      + exact Htail.
      + rewrite B1, Hsrc. rewrite Erest at 1. rewrite <- !app_assoc. reflexivity.
      + rewrite B4, !app_length, Hn. lia.
      + exact B2.
      + rewrite app_length in Hfuel. rewrite Erest, app_length, Hn in Hfuel. lia. }
    destruct (widths_ok hdr t); [|reflexivity].
    cbn [hist_rows]. rewrite <- app_assoc. reflexivity.
Qed.

Definition hist_expect (hdr : record) (progs : list (list field)) (rows : table) : outcome (list (list (option field))) :=
  if widths_ok hdr rows then Ok (hist_rows hdr progs rows) else Err ParsingError.

Theorem csv_load_hist_render sep chs final hdr rows text progs : allowed sep ->
  render sep chs final (hdr :: rows) = Some text ->
  csv_load_hist sep progs text = hist_expect hdr progs rows.
Proof.
  intros A R. pose proof (allowed_sane sep A) as S.
  unfold csv_load_hist. rewrite (allowed_validate sep A). cbn [negb].
  pose proof (render_nonempty _ _ _ _ _ R) as Hne.
  destruct (render_shape _ _ _ _ _ _ R) as (ch & chs' & a & rest & n & tail & -> & Ha & -> & LR & Hprog & Erest & Hn & Htail).
  unfold m_new.
  rewrite (m_parse_next_line_record sep S (mkM (a ++ rest) [] [] 0 0 0 0 0) [] a rest n (ch_quotes ch) hdr);
    try reflexivity; try assumption.
  cbn [r_src r_headers r_metas r_pos r_line r_rowidx r_validx r_prev length Nat.add].
  match goal with |- context [m_read_headers _ ?rr []] => set (r1 := rr) end.
  destruct (m_read_headers_spec hdr (length (rec_metas 0 (ch_quotes ch) hdr)) r1 []) as (r2 & E2 & (B1 & B2 & B3 & B4)).
  { subst r1. cbn [r_src r_metas]. apply (rec_values sep hdr _ a [] rest Ha). }
  { subst r1. cbn [r_validx]. rewrite (rec_metas_length sep hdr _ a 0 Ha). lia. }
  rewrite E2. cbv beta iota. subst r1. cbn [r_validx skipn app r_src r_pos] in *.
  unfold hist_expect.
  apply (load_hist_spec sep hdr S rows progs chs' final tail (a ++ firstn n rest)).
  - exact Htail.
  - cbn [r_src]. rewrite B1. rewrite Erest at 1. rewrite <- app_assoc. reflexivity.
  - cbn [r_pos]. rewrite B4, app_length, Hn. reflexivity.
  - reflexivity.
  - rewrite app_length. rewrite Erest. rewrite app_length, Hn. lia.
Qed.

(* distinct header names: every request is answered by the column of that name, None when there is none; what was
   requested before plays no role *)
Fixpoint hist_named (hdr : record) (progs : list (list field)) (t : table) : list (list (option field)) :=
  match t with
  | [] => []
  | rec :: t' => map (cell hdr rec) (hd [] progs) :: hist_named hdr (tl progs) t'
  end.

Lemma hist_rows_named hdr : NoDup hdr -> forall rows progs, uniform hdr rows -> hist_rows hdr progs rows = hist_named hdr progs rows.
Proof.
  intros ND. induction rows as [|rec rows IH]; intros progs U; [reflexivity|].
  unfold uniform in *. inversion U as [|? ? Hl U']. subst. cbn [hist_rows hist_named].
  rewrite (read_spec_nodup hdr rec ND Hl), (IH (tl progs) U'). reflexivity.
Qed.
