(* CsvSpec.v — RFC 4180 ("Common Format and MIME Type for CSV Files"), section 2, over bytes.
   Written from the ABNF of the RFC; nothing here refers to how the library computes.

     file        = [header CRLF] record *(CRLF record) [CRLF]
     header      = name *(COMMA name)
     record      = field *(COMMA field)
     name        = field
     field       = (escaped / non-escaped)
     escaped     = DQUOTE *(TEXTDATA / COMMA / CR / LF / 2DQUOTE) DQUOTE
     non-escaped = *TEXTDATA
     TEXTDATA    = %x20-21 / %x23-2B / %x2D-7E

   Readings fixed here (each is the one property C09 states):
   - the value separator COMMA is a parameter `sep` (the library allows , ; TAB SPACE |);
   - TEXTDATA is widened from printable ASCII to "every byte other than DQUOTE, the separator, CR and
     LF", so that UTF-8 text is a field like any other;
   - a record ends with CRLF or with a bare LF ("LF or CRLF"); a CR that is not followed by LF may only
     occur inside an escaped field;
   - the header is the first record; a table is a non-empty list of records, a record a non-empty
     list of fields, a field a byte string;
   - the ABNF is ambiguous for a text that ends with a line break (optional final break, or one more
     record consisting of one empty field).  RFC rule 2 ("the last record in the file may or may not
     have an ending line break") settles it: a line break at the very end of the text starts no record.
     Consequently a last record that is rendered as the empty string must be followed by its line
     break (otherwise it would not be there at all).

   Two artefacts, each readable against the ABNF on its own:
     render     — the grammar in generative form: all conformant texts of a table, indexed by choices
     rfc_parse  — a one-pass recogniser/parser for the same grammar
   CsvSpecProofs.v proves that they agree in both directions (rfc_parse inverts every rendering; every
   text rfc_parse accepts is a rendering of what it returns). *)
From BS Require Import Base.
Local Open Scope N_scope.

Definition DQ : N := 34.   (* DQUOTE *)
Definition CR : N := 13.
Definition LF : N := 10.

Definition field := list N.
Definition record := list field.
Definition table := list record.

(* separators the library documents as allowed: , ; TAB SPACE | *)
Definition allowed_seps : list N := [44; 59; 9; 32; 124].
Definition allowed (sep : N) : Prop := In sep allowed_seps.
(* what the grammar itself needs of a separator *)
Definition sane_sep (sep : N) : Prop := sep <> DQ /\ sep <> CR /\ sep <> LF.

(* ---------- the grammar in generative form ---------- *)

(* bytes that cannot stand in a non-escaped field (complement of TEXTDATA) *)
Definition special (sep c : N) : bool := (c =? DQ) || (c =? sep) || (c =? CR) || (c =? LF).
Definition needs_quote (sep : N) (f : field) : bool := existsb (special sep) f.

(* 2DQUOTE for DQUOTE, everything else stands for itself *)
Definition esc (f : field) : list N := flat_map (fun c => if c =? DQ then [DQ; DQ] else [c]) f.
Definition quoted (f : field) : list N := DQ :: esc f ++ [DQ].

(* field = escaped / non-escaped;  q = "write it escaped".  Non-escaped is legal only for TEXTDATA* *)
Definition render_field (sep : N) (q : bool) (f : field) : option (list N) :=
  if q then Some (quoted f)
  else if needs_quote sep f then None else Some f.

(* record = field *(COMMA field) *)
Fixpoint render_record (sep : N) (qs : list bool) (r : record) : option (list N) :=
  match r, qs with
  | [f], [q] => render_field sep q f
  | f :: r', q :: qs' =>
    match render_field sep q f, render_record sep qs' r' with
    | Some a, Some b => Some (a ++ sep :: b)
    | _, _ => None
    end
  | _, _ => None
  end.

Inductive eol := EolLF | EolCRLF.
Definition eol_bytes (e : eol) : list N := match e with EolLF => [LF] | EolCRLF => [CR; LF] end.

(* the free choices of one record: escaped or not per field, and the line break that follows it *)
Record rchoice := mkChoice { ch_quotes : list bool; ch_eol : eol }.

(* file = record *(EOL record) [EOL];  final = "the last record is followed by its line break" *)
Fixpoint render (sep : N) (chs : list rchoice) (final : bool) (t : table) : option (list N) :=
  match t, chs with
  | [r], [ch] =>
    match render_record sep (ch_quotes ch) r with
    | Some a =>
      if final then Some (a ++ eol_bytes (ch_eol ch))
      else match a with [] => None | _ => Some a end
    | None => None
    end
  | r :: t', ch :: chs' =>
    match render_record sep (ch_quotes ch) r, render sep chs' final t' with
    | Some a, Some b => Some (a ++ eol_bytes (ch_eol ch) ++ b)
    | _, _ => None
    end
  | _, _ => None
  end.

Definition renders (sep : N) (chs : list rchoice) (final : bool) (t : table) (text : list N) : Prop :=
  render sep chs final t = Some text.

(* ---------- the recogniser ---------- *)

(* where the parser stands *)
Inductive pstate :=
| PRecord    (* at the start of a record that follows a line break: end of text = final break *)
| PField     (* at the start of a field *)
| PUnq       (* inside a non-escaped field *)
| PQuo       (* inside an escaped field, after the opening DQUOTE *)
| PQQ        (* inside an escaped field, just after a DQUOTE that is either the first half of 2DQUOTE or the closing one *)
| PCR.       (* just after a CR that must be the first half of CRLF *)

(* results are built from the back: the first field of the first record of the result is the one
   being read *)
Definition push_char (c : N) (res : option table) : option table :=
  match res with
  | Some ((f :: r) :: t) => Some (((c :: f) :: r) :: t)
  | _ => None
  end.
Definition new_field (res : option table) : option table :=
  match res with
  | Some (r :: t) => Some (([] :: r) :: t)
  | _ => None
  end.
Definition new_record (res : option table) : option table :=
  match res with
  | Some t => Some ([[]] :: t)
  | None => None
  end.

Fixpoint rfc_go (sep : N) (l : list N) (s : pstate) : option table :=
  match l with
  | [] =>
    match s with
    | PRecord => Some []                 (* the text ended with a line break *)
    | PField | PUnq | PQQ => new_record (Some [])   (* the last record ends here, without a line break *)
    | PQuo | PCR => None                 (* unterminated escaped field / CR without LF *)
    end
  | c :: t =>
    match s with
    | PRecord | PField | PUnq =>
      if c =? DQ then
        match s with
        | PUnq => None                   (* DQUOTE is not TEXTDATA *)
        | _ => rfc_go sep t PQuo         (* opening DQUOTE of an escaped field *)
        end
      else if c =? sep then new_field (rfc_go sep t PField)
      else if c =? LF then new_record (rfc_go sep t PRecord)
      else if c =? CR then rfc_go sep t PCR
      else push_char c (rfc_go sep t PUnq)
    | PQuo =>
      if c =? DQ then rfc_go sep t PQQ
      else push_char c (rfc_go sep t PQuo)
    | PQQ =>
      if c =? DQ then push_char DQ (rfc_go sep t PQuo)       (* 2DQUOTE *)
      else if c =? sep then new_field (rfc_go sep t PField)
      else if c =? LF then new_record (rfc_go sep t PRecord)
      else if c =? CR then rfc_go sep t PCR
      else None                          (* text after the closing DQUOTE *)
    | PCR =>
      if c =? LF then new_record (rfc_go sep t PRecord) else None
    end
  end.

(* file = record *(EOL record) [EOL] has at least one record; by the rule above the empty text holds none *)
Definition rfc_parse (sep : N) (text : list N) : option table :=
  match text with
  | [] => None
  | _ => rfc_go sep text PField
  end.

(* ---------- tables ---------- *)

(* every record has as many fields as the header *)
Definition uniform (hdr : record) (rows : list record) : Prop :=
  Forall (fun r => length r = length hdr) rows.

(* the cell of a row under a column name: position of the first header equal to the key *)
Fixpoint list_eqb (a b : list N) : bool :=
  match a, b with
  | [], [] => true
  | x :: a', y :: b' => (x =? y) && list_eqb a' b'
  | _, _ => false
  end.

Fixpoint cell (hdr : record) (row : record) (key : field) : option field :=
  match hdr, row with
  | h :: hdr', v :: row' => if list_eqb h key then Some v else cell hdr' row' key
  | _, _ => None
  end.

(* what a reading side that asks for the columns `keys` (any order, repeats, unknown names) must get *)
Definition select (hdr : record) (keys : list field) (rows : list record) : list (list (option field)) :=
  map (fun row => map (cell hdr row) keys) rows.
