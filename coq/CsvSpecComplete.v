(* CsvSpecComplete.v — the other half of the coherence of CsvSpec.v: every text the reference parser accepts IS a
   rendering (for suitable choices) of the table it returns.  With CsvSpecProofs.render_parse: rfc_parse accepts
   exactly the renderings, and returns the rendered table. *)
From BS Require Import Base CsvSpec CsvSpecProofs.
From Coq Require Import ZifyBool ZifyN ZifyNat.
Ltac Zify.zify_post_hook ::= Z.div_mod_to_equations.
Local Open Scope N_scope.

(* the shape of a text that continues a table, told from the grammar:
   FieldAt f r t l : l = field f, then the remaining fields r of its record, then the remaining records t
   Tail r t l      : l = what follows a field
   Start t l       : l = what follows a line break *)
Inductive FieldAt (sep : N) : field -> record -> table -> list N -> Prop :=
| FA q f r t a l : render_field sep q f = Some a -> Tail sep r t l -> FieldAt sep f r t (a ++ l)
with Tail (sep : N) : record -> table -> list N -> Prop :=
| T_eof : Tail sep [] [] []
| T_eol e t l : Start sep t l -> Tail sep [] t (eol_bytes e ++ l)
| T_sep f r t l : FieldAt sep f r t l -> Tail sep (f :: r) t (sep :: l)
with Start (sep : N) : table -> list N -> Prop :=
| S_end : Start sep [] []
| S_rec f r t l : l <> [] -> FieldAt sep f r t l -> Start sep ((f :: r) :: t) l.

Scheme FieldAt_mind := Minimality for FieldAt Sort Prop
  with Tail_mind := Minimality for Tail Sort Prop
  with Start_mind := Minimality for Start Sort Prop.
Combined Scheme shape_mutind from FieldAt_mind, Tail_mind, Start_mind.

(* ---------- shapes are renderings ---------- *)

(* what follows the record being rendered *)
Definition rest_ok (sep : N) (e : eol) (chs : list rchoice) (final : bool) (t : table) (rest : list N) : Prop :=
  (t = [] /\ chs = [] /\ ((final = false /\ rest = []) \/ (final = true /\ rest = eol_bytes e))) \/
  (t <> [] /\ exists l2, render sep chs final t = Some l2 /\ rest = eol_bytes e ++ l2).

Definition raw (sep : N) (f : field) (r : record) (t : table) (l : list N) : Prop :=
  exists qs e chs final b rest, render_record sep qs (f :: r) = Some b /\ l = b ++ rest /\ rest_ok sep e chs final t rest.

Lemma raw_render sep f r t l : raw sep f r t l -> l <> [] ->
  exists chs final, render sep chs final ((f :: r) :: t) = Some l.
Proof.
  intros (qs & e & chs & final & b & rest & Hb & -> & [(-> & -> & [[-> ->]|[-> ->]])|(Hne & l2 & Hl2 & ->)]) Hl.
  - exists [mkChoice qs e], false. cbn [render ch_quotes]. rewrite Hb. rewrite app_nil_r in *.
    destruct b; [congruence|reflexivity].
  - exists [mkChoice qs e], true. cbn [render ch_quotes ch_eol]. rewrite Hb. reflexivity.
  - exists (mkChoice qs e :: chs), final. apply (render_cons sep (mkChoice qs e)); assumption.
Qed.

Lemma shapes_render sep :
  (forall f r t l, FieldAt sep f r t l -> raw sep f r t l) /\
  (forall r t l, Tail sep r t l -> forall q f a, render_field sep q f = Some a -> raw sep f r t (a ++ l)) /\
  (forall t l, Start sep t l -> (t = [] /\ l = []) \/ (t <> [] /\ exists chs final, render sep chs final t = Some l)).
Proof.
  apply shape_mutind.
  - (* FA *) intros q f r t a l Ha _ IH. apply (IH q f a Ha).
  - (* T_eof *) intros q f a Ha. exists [q], EolLF, [], false, a, []. split; [exact Ha|]. split; [reflexivity|]. left. auto.
  - (* T_eol *) intros e t l _ [[-> ->]|(Hne & chs & final & Hr)] q f a Ha.
    + exists [q], e, [], true, a, (eol_bytes e). split; [exact Ha|]. rewrite app_nil_r. split; [reflexivity|]. left. auto.
    + exists [q], e, chs, final, a, (eol_bytes e ++ l). split; [exact Ha|]. split; [reflexivity|]. right. split; [exact Hne|].
      exists l. auto.
  - (* T_sep *) intros f2 r2 t l _ (qs & e & chs & final & b & rest & Hb & -> & Hrest) q f a Ha.
    exists (q :: qs), e, chs, final, (a ++ sep :: b), rest.
    split; [apply render_record_cons; [discriminate | exact Ha | exact Hb]|].
    split; [rewrite <- app_assoc; reflexivity | exact Hrest].
  - (* S_end *) left. auto.
  - (* S_rec *) intros f r t l Hne _ IH. right. split; [discriminate|]. apply (raw_render sep f r t l IH Hne).
Qed.

(* ---------- what the parser accepts has that shape ---------- *)

Lemma push_char_some c res tb : push_char c res = Some tb ->
  exists f r t, res = Some ((f :: r) :: t) /\ tb = ((c :: f) :: r) :: t.
Proof. destruct res as [[|[|f r] t]|]; cbn; try discriminate. intros H. inversion H. eauto. Qed.

Lemma new_field_some res tb : new_field res = Some tb -> exists r t, res = Some (r :: t) /\ tb = ([] :: r) :: t.
Proof. destruct res as [[|r t]|]; cbn; try discriminate. intros H. inversion H. eauto. Qed.

Lemma new_record_some res tb : new_record res = Some tb -> exists t, res = Some t /\ tb = [[]] :: t.
Proof. destruct res as [t|]; cbn; try discriminate. intros H. inversion H. eauto. Qed.

Definition claim (sep : N) (s : pstate) (l : list N) (tb : table) : Prop :=
  match s with
  | PRecord => Start sep tb l
  | PField => exists f r t, tb = (f :: r) :: t /\ FieldAt sep f r t l
  | PUnq => exists f r t l', tb = (f :: r) :: t /\ l = f ++ l' /\ needs_quote sep f = false /\ Tail sep r t l'
  | PQuo => exists f r t l', tb = (f :: r) :: t /\ l = esc f ++ DQ :: l' /\ Tail sep r t l'
  | PQQ => exists f r t, tb = (f :: r) :: t /\
             ((f = [] /\ Tail sep r t l) \/
              (exists f0 l', f = DQ :: f0 /\ l = DQ :: esc f0 ++ DQ :: l' /\ Tail sep r t l'))
  | PCR => exists l' t, l = LF :: l' /\ tb = [[]] :: t /\ Start sep t l'
  end.

Lemma render_field_bare sep f : needs_quote sep f = false -> render_field sep false f = Some f.
Proof. intros H. unfold render_field. rewrite H. reflexivity. Qed.

Lemma FieldAt_empty sep r t l : Tail sep r t l -> FieldAt sep [] r t l.
Proof. intros H. change l with ([] ++ l). apply (FA sep false); [reflexivity | exact H]. Qed.

(* after a field: separator, line feed, CR LF — the same in the states PField/PRecord/PUnq/PQQ *)
Lemma after_field_cases sep c t (go : pstate -> option table) tb :
  (forall tb', go PField = Some tb' -> claim sep PField t tb') ->
  (forall tb', go PRecord = Some tb' -> claim sep PRecord t tb') ->
  (forall tb', go PCR = Some tb' -> claim sep PCR t tb') ->
  (if c =? sep then new_field (go PField)
   else if c =? LF then new_record (go PRecord)
   else if c =? CR then go PCR else None) = Some tb ->
  exists r t', tb = ([] :: r) :: t' /\ Tail sep r t' (c :: t).
Proof.
  intros HF HR HC H.
  destruct (N.eqb_spec c sep) as [->|Hs].
  - apply new_field_some in H. destruct H as (r & t' & E & ->).
    destruct (HF _ E) as (f2 & r2 & t2 & Et & FA2). inversion Et. subst.
    exists (f2 :: r2), t2. split; [reflexivity|]. apply T_sep. exact FA2.
  - destruct (N.eqb_spec c LF) as [->|Hl].
    + apply new_record_some in H. destruct H as (t' & E & ->).
      exists [], t'. split; [reflexivity|]. apply (T_eol sep EolLF). exact (HR _ E).
    + destruct (N.eqb_spec c CR) as [->|Hc]; [|discriminate].
      destruct (HC _ H) as (l' & t' & -> & -> & St).
      exists [], t'. split; [reflexivity|]. apply (T_eol sep EolCRLF). exact St.
Qed.

Lemma parse_shape sep : forall l s tb, rfc_go sep l s = Some tb -> claim sep s l tb.
Proof.
  induction l as [|c t IH]; intros s tb H.
  - destruct s; cbn in H; try discriminate; inversion H; subst; cbn [claim].
    + apply S_end.
    + exists [], [], []. split; [reflexivity|]. apply FieldAt_empty. apply T_eof.
    + exists [], [], [], []. repeat split. apply T_eof.
    + exists [], [], []. split; [reflexivity|]. left. split; [reflexivity | apply T_eof].
  - assert (HF : forall tb', rfc_go sep t PField = Some tb' -> claim sep PField t tb') by (intros; apply IH; assumption).
    assert (HR : forall tb', rfc_go sep t PRecord = Some tb' -> claim sep PRecord t tb') by (intros; apply IH; assumption).
    assert (HC : forall tb', rfc_go sep t PCR = Some tb' -> claim sep PCR t tb') by (intros; apply IH; assumption).
    assert (Hstart : forall s0, s0 = PRecord \/ s0 = PField ->
              (if c =? DQ then rfc_go sep t PQuo
               else if c =? sep then new_field (rfc_go sep t PField)
               else if c =? LF then new_record (rfc_go sep t PRecord)
               else if c =? CR then rfc_go sep t PCR
               else push_char c (rfc_go sep t PUnq)) = Some tb ->
              exists f r t', tb = (f :: r) :: t' /\ FieldAt sep f r t' (c :: t)).
    { intros s0 _ H0. destruct (N.eqb_spec c DQ) as [->|Hd].
      - destruct (IH PQuo tb H0) as (f & r & t' & l' & -> & -> & Tl).
        exists f, r, t'. split; [reflexivity|].
        replace (DQ :: esc f ++ DQ :: l') with (quoted f ++ l') by (unfold quoted; cbn; rewrite <- app_assoc; reflexivity).
        apply (FA sep true); [reflexivity | exact Tl].
      - destruct (c =? sep) eqn:Es; [|destruct (c =? LF) eqn:El; [|destruct (c =? CR) eqn:Ec]].
        + destruct (after_field_cases sep c t (rfc_go sep t) tb HF HR HC) as (r & t' & -> & Tl); [rewrite Es; exact H0|].
          exists [], r, t'. split; [reflexivity|]. apply FieldAt_empty. exact Tl.
        + destruct (after_field_cases sep c t (rfc_go sep t) tb HF HR HC) as (r & t' & -> & Tl); [rewrite Es, El; exact H0|].
          exists [], r, t'. split; [reflexivity|]. apply FieldAt_empty. exact Tl.
        + destruct (after_field_cases sep c t (rfc_go sep t) tb HF HR HC) as (r & t' & -> & Tl); [rewrite Es, El, Ec; exact H0|].
          exists [], r, t'. split; [reflexivity|]. apply FieldAt_empty. exact Tl.
        + apply push_char_some in H0. destruct H0 as (f0 & r & t' & E & ->).
          destruct (IH PUnq _ E) as (f1 & r1 & t1 & l' & Et & -> & Hnq & Tl). inversion Et. subst.
          exists (c :: f1), r1, t1. split; [reflexivity|].
          change (c :: f1 ++ l') with ((c :: f1) ++ l'). apply (FA sep false); [|exact Tl].
          apply render_field_bare. unfold needs_quote. cbn [existsb]. unfold special.
          apply N.eqb_neq in Hd. rewrite Hd, Es, Ec, El. cbn. exact Hnq. }
    destruct s; cbn [rfc_go] in H; cbn [claim].
    + (* PRecord *) destruct (Hstart PRecord (or_introl eq_refl)) as (f & r & t' & -> & FAt).
      { destruct (c =? DQ); exact H. }
      apply S_rec; [discriminate | exact FAt].
    + (* PField *) apply (Hstart PField (or_intror eq_refl)). destruct (c =? DQ); exact H.
    + (* PUnq *) destruct (N.eqb_spec c DQ) as [->|Hd]; [discriminate|].
      destruct (c =? sep) eqn:Es; [|destruct (c =? LF) eqn:El; [|destruct (c =? CR) eqn:Ec]].
      * destruct (after_field_cases sep c t (rfc_go sep t) tb HF HR HC) as (r & t' & -> & Tl); [rewrite Es; exact H|].
        exists [], r, t', (c :: t). repeat split. exact Tl.
      * destruct (after_field_cases sep c t (rfc_go sep t) tb HF HR HC) as (r & t' & -> & Tl); [rewrite Es, El; exact H|].
        exists [], r, t', (c :: t). repeat split. exact Tl.
      * destruct (after_field_cases sep c t (rfc_go sep t) tb HF HR HC) as (r & t' & -> & Tl); [rewrite Es, El, Ec; exact H|].
        exists [], r, t', (c :: t). repeat split. exact Tl.
      * apply push_char_some in H. destruct H as (f0 & r & t' & E & ->).
        destruct (IH PUnq _ E) as (f1 & r1 & t1 & l' & Et & -> & Hnq & Tl). inversion Et. subst.
        exists (c :: f1), r1, t1, l'. split; [reflexivity|]. split; [reflexivity|]. split; [|exact Tl].
        unfold needs_quote. cbn [existsb]. unfold special. apply N.eqb_neq in Hd. rewrite Hd, Es, Ec, El. cbn. exact Hnq.
    + (* PQuo *) destruct (N.eqb_spec c DQ) as [->|Hd].
      * destruct (IH PQQ tb H) as (f & r & t' & -> & [[-> Tl]|(f0 & l' & -> & -> & Tl)]).
        -- exists [], r, t', t. repeat split. exact Tl.
        -- exists (DQ :: f0), r, t', l'. split; [reflexivity|]. split; [|exact Tl].
           reflexivity.
      * apply push_char_some in H. destruct H as (f0 & r & t' & E & ->).
        destruct (IH PQuo _ E) as (f1 & r1 & t1 & l' & Et & -> & Tl). inversion Et. subst.
        exists (c :: f1), r1, t1, l'. split; [reflexivity|]. split; [|exact Tl].
        unfold esc. cbn [flat_map]. apply N.eqb_neq in Hd. rewrite Hd. reflexivity.
    + (* PQQ *) destruct (N.eqb_spec c DQ) as [->|Hd].
      * apply push_char_some in H. destruct H as (f0 & r & t' & E & ->).
        destruct (IH PQuo _ E) as (f1 & r1 & t1 & l' & Et & -> & Tl). inversion Et. subst.
        exists (DQ :: f1), r1, t1. split; [reflexivity|]. right. exists f1, l'. auto.
      * destruct (after_field_cases sep c t (rfc_go sep t) tb HF HR HC) as (r & t' & -> & Tl); [exact H|].
        exists [], r, t'. split; [reflexivity|]. left. auto.
    + (* PCR *) destruct (N.eqb_spec c LF) as [->|Hl]; [|discriminate].
      apply new_record_some in H. destruct H as (t' & E & ->).
      exists t, t'. split; [reflexivity|]. split; [reflexivity|]. exact (HR _ E).
Qed.

(* every accepted text is a rendering of the table returned *)
Theorem parse_render sep text t : rfc_parse sep text = Some t ->
  exists chs final, render sep chs final t = Some text.
Proof.
  unfold rfc_parse. destruct text as [|c text]; [discriminate|]. intros H.
  destruct (parse_shape sep _ _ _ H) as (f & r & t' & -> & FAt).
  apply (raw_render sep f r t'); [|discriminate]. apply (proj1 (shapes_render sep)). exact FAt.
Qed.

(* together with render_parse: rfc_parse accepts exactly the renderings *)
Theorem rfc_parse_iff_render sep text t : sane_sep sep ->
  (rfc_parse sep text = Some t <-> exists chs final, render sep chs final t = Some text).
Proof.
  intros S. split; [apply parse_render|]. intros (chs & final & R). apply (render_parse sep chs final t text S R).
Qed.
