(* CsvSpecProofs.v — the two artefacts of CsvSpec.v agree: rfc_parse inverts every rendering.
   Also the inversion lemmas for render / render_record used by the proofs about the model. *)
From BS Require Import Base CsvSpec.
From Coq Require Import ZifyBool ZifyN ZifyNat.
Ltac Zify.zify_post_hook ::= Z.div_mod_to_equations.
Local Open Scope N_scope.

(* ---------- inversion of the renderer ---------- *)

(* the text of a field under a quoting choice *)
Definition rfield (q : bool) (f : field) : list N := if q then quoted f else f.

Lemma render_field_inv sep q f a : render_field sep q f = Some a ->
  a = rfield q f /\ (q = false -> needs_quote sep f = false).
Proof.
  unfold render_field, rfield. destruct q.
  - intros H. inversion H. split; [reflexivity | discriminate].
  - destruct (needs_quote sep f) eqn:E; [discriminate|]. intros H. inversion H. split; reflexivity.
Qed.

Lemma render_record_nilq sep r : render_record sep [] r = None.
Proof. destruct r as [|f [|f2 r]]; reflexivity. Qed.

Lemma render_record_inv sep qs f r a : render_record sep qs (f :: r) = Some a ->
  exists q qs', qs = q :: qs' /\ (q = false -> needs_quote sep f = false) /\
    ( (r = [] /\ qs' = [] /\ a = rfield q f)
    \/ (r <> [] /\ exists b, render_record sep qs' r = Some b /\ a = rfield q f ++ sep :: b) ).
Proof.
  intros H. destruct qs as [|q qs']; [destruct r; cbn in H; discriminate H|].
  exists q, qs'. split; [reflexivity|].
  destruct r as [|f2 r'].
  - destruct qs' as [|q2 qs''].
    + cbn in H. apply render_field_inv in H. destruct H as [Ha Hq]. split; [exact Hq|]. left. auto.
    + cbn in H. destruct (render_field sep q f); discriminate H.
  - cbn [render_record] in H.
    destruct (render_field sep q f) as [af|] eqn:Ef; [|discriminate H].
    apply render_field_inv in Ef. destruct Ef as [Haf Hq]. split; [exact Hq|].
    right. split; [discriminate|].
    destruct qs' as [|q2 qs''].
    + rewrite render_record_nilq in H. discriminate H.
    + destruct (render_record sep (q2 :: qs'') (f2 :: r')) as [b|] eqn:Eb; [|discriminate H].
      exists b. split; [reflexivity|]. inversion H. subst. reflexivity.
Qed.

Lemma render_record_nil sep qs : render_record sep qs [] = None.
Proof. destruct qs; reflexivity. Qed.

Lemma render_nilc sep final t : render sep [] final t = None.
Proof. destruct t as [|r [|r2 t]]; reflexivity. Qed.

Lemma render_inv sep chs final r t text : render sep chs final (r :: t) = Some text ->
  exists ch chs' a, chs = ch :: chs' /\ render_record sep (ch_quotes ch) r = Some a /\
    ( (t = [] /\ chs' = [] /\
        ((final = true /\ text = a ++ eol_bytes (ch_eol ch)) \/ (final = false /\ a <> [] /\ text = a)))
    \/ (t <> [] /\ exists b, render sep chs' final t = Some b /\ text = a ++ eol_bytes (ch_eol ch) ++ b) ).
Proof.
  intros H. destruct chs as [|ch chs']; [destruct t; cbn in H; discriminate H|].
  destruct t as [|r2 t'].
  - destruct chs' as [|ch2 chs''].
    + cbn in H. destruct (render_record sep (ch_quotes ch) r) as [a|] eqn:Ea; [|discriminate H].
      exists ch, [], a. split; [reflexivity|]. split; [exact Ea|]. left. split; [reflexivity|]. split; [reflexivity|].
      destruct final.
      * left. inversion H. auto.
      * right. destruct a; [discriminate H|]. inversion H. split; [reflexivity|]. split; [discriminate|reflexivity].
    + cbn in H. destruct (render_record sep (ch_quotes ch) r); discriminate H.
  - cbn [render] in H.
    destruct (render_record sep (ch_quotes ch) r) as [a|] eqn:Ea; [|discriminate H].
    exists ch, chs', a. split; [reflexivity|]. split; [exact Ea|]. right. split; [discriminate|].
    destruct chs' as [|ch2 chs''].
    + rewrite render_nilc in H. discriminate H.
    + destruct (render sep (ch2 :: chs'') final (r2 :: t')) as [b|] eqn:Eb; [|discriminate H].
      exists b. split; [reflexivity|]. inversion H. reflexivity.
Qed.

Lemma render_nil sep chs final : render sep chs final [] = None.
Proof. destruct chs; reflexivity. Qed.

Lemma render_nonempty sep chs final t text : render sep chs final t = Some text -> text <> [].
Proof.
  revert chs text. induction t as [|r t IH]; intros chs text H.
  - rewrite render_nil in H. discriminate.
  - apply render_inv in H. destruct H as (ch & chs' & a & -> & Ha & [(-> & -> & [[_ ->]|(_ & Hne & ->)])|(Hne & b & Hb & ->)]).
    + destruct (ch_eol ch); destruct a; discriminate.
    + exact Hne.
    + destruct (ch_eol ch); destruct a; discriminate.
Qed.

(* ---------- rfc_parse inverts every rendering ---------- *)

Definition push_chars (f : list N) (res : option table) : option table := fold_right push_char res f.

Lemma push_chars_some f g r t : push_chars f (Some ((g :: r) :: t)) = Some (((f ++ g) :: r) :: t).
Proof. induction f as [|c f IH]; cbn; [reflexivity|]. unfold push_chars in IH. rewrite IH. reflexivity. Qed.

Lemma push_chars_none f : push_chars f None = None.
Proof. induction f as [|c f IH]; cbn; [reflexivity|]. unfold push_chars in IH. rewrite IH. reflexivity. Qed.

Lemma push_chars_app f g res : push_chars (f ++ g) res = push_chars f (push_chars g res).
Proof. unfold push_chars. apply fold_right_app. Qed.

Lemma special_false sep c : special sep c = false -> c <> DQ /\ c <> sep /\ c <> CR /\ c <> LF.
Proof. unfold special. rewrite !orb_false_iff, !N.eqb_neq. tauto. Qed.

Lemma needs_quote_cons sep c f : needs_quote sep (c :: f) = false -> special sep c = false /\ needs_quote sep f = false.
Proof. unfold needs_quote. cbn [existsb]. apply orb_false_iff. Qed.

Ltac neqb := repeat match goal with
  | H : ?a <> ?b |- context [?a =? ?b] => rewrite (proj2 (N.eqb_neq a b) H)
  end.

(* a plain character, read at the start of or inside a non-escaped field *)
Lemma go_plain_char sep c t s : special sep c = false -> s = PRecord \/ s = PField \/ s = PUnq ->
  rfc_go sep (c :: t) s = push_char c (rfc_go sep t PUnq).
Proof.
  intros Hc Hs. apply special_false in Hc. destruct Hc as (H1 & H2 & H3 & H4).
  destruct Hs as [->|[->| ->]]; cbn [rfc_go]; neqb; reflexivity.
Qed.

Lemma go_plain sep f rest : needs_quote sep f = false ->
  rfc_go sep (f ++ rest) PUnq = push_chars f (rfc_go sep rest PUnq).
Proof.
  induction f as [|c f IH]; intros H; [reflexivity|].
  apply needs_quote_cons in H. destruct H as [Hc Hf].
  cbn [app]. rewrite (go_plain_char sep c _ PUnq Hc) by auto. rewrite IH by exact Hf. reflexivity.
Qed.

(* what may follow a field *)
Definition follower (sep : N) (rest : list N) : Prop :=
  match rest with [] => True | c :: _ => c = sep \/ c = LF \/ c = CR end.

Lemma follower_unq sep rest : sane_sep sep -> follower sep rest -> rfc_go sep rest PUnq = rfc_go sep rest PQQ.
Proof.
  intros (S1 & S2 & S3) F. destruct rest as [|c t]; [reflexivity|].
  cbn in F. cbn [rfc_go].
  destruct F as [->|[->| ->]].
  - neqb. rewrite N.eqb_refl. reflexivity.
  - assert (LF <> sep) by congruence. change (LF =? DQ) with false. neqb. reflexivity.
  - assert (CR <> sep) by congruence. change (CR =? DQ) with false. change (CR =? LF) with false. neqb. reflexivity.
Qed.

Lemma follower_field sep rest s : sane_sep sep -> follower sep rest ->
  s = PField \/ (s = PRecord /\ rest <> []) -> rfc_go sep rest s = rfc_go sep rest PQQ.
Proof.
  intros (S1 & S2 & S3) F Hs. destruct rest as [|c t].
  - destruct Hs as [->|[_ H]]; [reflexivity|congruence].
  - assert (Hs' : s = PField \/ s = PRecord) by tauto. clear Hs.
    cbn in F. destruct F as [->|[->| ->]]; destruct Hs' as [->| ->]; cbn [rfc_go].
    + neqb. rewrite N.eqb_refl. reflexivity.
    + neqb. rewrite N.eqb_refl. reflexivity.
    + assert (LF <> sep) by congruence. change (LF =? DQ) with false. neqb. reflexivity.
    + assert (LF <> sep) by congruence. change (LF =? DQ) with false. neqb. reflexivity.
    + assert (CR <> sep) by congruence. change (CR =? DQ) with false. change (CR =? LF) with false. neqb. reflexivity.
    + assert (CR <> sep) by congruence. change (CR =? DQ) with false. change (CR =? LF) with false. neqb. reflexivity.
Qed.

Lemma follower_not_dq sep rest : sane_sep sep -> follower sep rest -> hd_error rest <> Some DQ.
Proof.
  intros (S1 & S2 & S3) F. destruct rest as [|c t]; [discriminate|].
  cbn in *. intros E. inversion E. subst c. destruct F as [H|[H|H]]; try congruence; discriminate H.
Qed.

(* the body of an escaped field up to and including the closing DQUOTE *)
Lemma go_esc sep f rest : hd_error rest <> Some DQ ->
  rfc_go sep (esc f ++ DQ :: rest) PQuo = push_chars f (rfc_go sep rest PQQ).
Proof.
  intros Hr. induction f as [|c f IH].
  - cbn [esc flat_map app push_chars fold_right rfc_go]. rewrite N.eqb_refl. reflexivity.
  - unfold esc in *. cbn [flat_map]. destruct (N.eqb_spec c DQ) as [->|Hc].
    + cbn [app rfc_go]. rewrite !N.eqb_refl. rewrite IH. reflexivity.
    + cbn [app rfc_go]. neqb. rewrite IH. reflexivity.
Qed.

Lemma go_field sep q f rest s : sane_sep sep -> (q = false -> needs_quote sep f = false) -> follower sep rest ->
  s = PField \/ (s = PRecord /\ rfield q f ++ rest <> []) ->
  rfc_go sep (rfield q f ++ rest) s = push_chars f (rfc_go sep rest PQQ).
Proof.
  intros S Hq F Hs. destruct q; cbn [rfield].
  - unfold quoted. cbn [app]. rewrite <- app_assoc. cbn [app].
    assert (Hs' : s = PField \/ s = PRecord) by tauto.
    destruct Hs' as [->| ->]; cbn [rfc_go]; rewrite N.eqb_refl; apply go_esc; apply (follower_not_dq sep); assumption.
  - specialize (Hq eq_refl). destruct f as [|c f].
    + cbn [app push_chars fold_right]. apply follower_field; assumption.
    + apply needs_quote_cons in Hq. destruct Hq as [Hc Hf].
      cbn [app]. rewrite (go_plain_char sep c _ s Hc) by tauto.
      rewrite go_plain by exact Hf. rewrite follower_unq by assumption. reflexivity.
Qed.

(* the fields of a record read one after the other; res continues the last of them *)
Fixpoint fields_onto (r : record) (res : option table) : option table :=
  match r with
  | [] => res
  | [f] => push_chars f res
  | f :: r' => push_chars f (new_field (fields_onto r' res))
  end.

Lemma fields_onto_record r t : r <> [] -> fields_onto r (new_record (Some t)) = Some (r :: t).
Proof.
  induction r as [|f r IH]; intros H; [congruence|].
  destruct r as [|f2 r'].
  - cbn. rewrite push_chars_some, app_nil_r. reflexivity.
  - change (fields_onto (f :: f2 :: r') (new_record (Some t)))
      with (push_chars f (new_field (fields_onto (f2 :: r') (new_record (Some t))))).
    rewrite IH by discriminate. cbn [new_field]. rewrite push_chars_some, app_nil_r. reflexivity.
Qed.

Lemma fields_onto_none r : r <> [] -> fields_onto r None = None.
Proof.
  induction r as [|f r IH]; intros H; [congruence|].
  destruct r as [|f2 r'].
  - cbn. apply push_chars_none.
  - change (fields_onto (f :: f2 :: r') None) with (push_chars f (new_field (fields_onto (f2 :: r') None))).
    rewrite IH by discriminate. apply push_chars_none.
Qed.

Definition eol_follower (rest : list N) : Prop :=
  match rest with [] => True | c :: _ => c = LF \/ c = CR end.

Lemma eol_follower_follower sep rest : eol_follower rest -> follower sep rest.
Proof. destruct rest; cbn; tauto. Qed.

Lemma go_record sep : sane_sep sep -> forall r qs a rest s, render_record sep qs r = Some a -> eol_follower rest ->
  s = PField \/ (s = PRecord /\ a ++ rest <> []) ->
  rfc_go sep (a ++ rest) s = fields_onto r (rfc_go sep rest PQQ).
Proof.
  intros S. induction r as [|f r IH]; intros qs a rest s H F Hs.
  - rewrite render_record_nil in H. discriminate.
  - apply render_record_inv in H.
    destruct H as (q & qs' & -> & Hq & [(-> & -> & ->)|(Hne & b & Hb & ->)]).
    + cbn [fields_onto]. apply go_field; try assumption. apply eol_follower_follower. exact F.
    + rewrite <- app_assoc. cbn [app].
      rewrite go_field; try assumption.
      * destruct S as (S1 & S2 & S3). cbn [rfc_go]. neqb. rewrite N.eqb_refl.
        rewrite (IH qs' b rest PField Hb F) by (left; reflexivity).
        destruct r as [|f2 r']; [congruence|]. reflexivity.
      * cbn. left. reflexivity.
      * destruct Hs as [->|[-> H]]; [left; reflexivity|]. right. split; [reflexivity|].
        destruct (rfield q f); discriminate.
Qed.

Lemma go_eol sep e b : sane_sep sep -> rfc_go sep (eol_bytes e ++ b) PQQ = new_record (rfc_go sep b PRecord).
Proof.
  intros (S1 & S2 & S3). destruct e; cbn [eol_bytes app rfc_go].
  - assert (LF <> sep) by congruence. change (LF =? DQ) with false. neqb. reflexivity.
  - assert (CR <> sep) by congruence. change (CR =? DQ) with false. change (CR =? LF) with false. neqb.
    rewrite N.eqb_refl. reflexivity.
Qed.

Lemma eol_is_follower e b : eol_follower (eol_bytes e ++ b).
Proof. destruct e; cbn; tauto. Qed.

Lemma render_go sep : sane_sep sep -> forall t chs final text s, render sep chs final t = Some text ->
  s = PField \/ s = PRecord -> rfc_go sep text s = Some t.
Proof.
  intros S. induction t as [|r t IH]; intros chs final text s H Hs.
  - rewrite render_nil in H. discriminate.
  - pose proof (render_nonempty _ _ _ _ _ H) as Hne.
    apply render_inv in H.
    destruct H as (ch & chs' & a & -> & Ha & [(-> & -> & [[_ ->]|(_ & Hane & ->)])|(Htne & b & Hb & ->)]).
    + replace (a ++ eol_bytes (ch_eol ch)) with (a ++ eol_bytes (ch_eol ch) ++ []) in * by (rewrite app_nil_r; reflexivity).
      rewrite (go_record sep S r _ a _ s Ha (eol_is_follower _ _)) by tauto.
      rewrite go_eol by exact S. cbn [rfc_go].
      apply fields_onto_record. intros ->. rewrite render_record_nil in Ha. discriminate.
    + rewrite <- (app_nil_r a). rewrite (go_record sep S r _ a [] s Ha I) by (rewrite app_nil_r; tauto).
      cbn [rfc_go]. apply fields_onto_record. intros ->. rewrite render_record_nil in Ha. discriminate.
    + rewrite (go_record sep S r _ a _ s Ha (eol_is_follower _ _)) by tauto.
      rewrite go_eol by exact S. rewrite (IH chs' final b PRecord Hb) by tauto.
      apply fields_onto_record. intros ->. rewrite render_record_nil in Ha. discriminate.
Qed.

Theorem render_parse sep chs final t text : sane_sep sep ->
  render sep chs final t = Some text -> rfc_parse sep text = Some t.
Proof.
  intros S H. unfold rfc_parse. pose proof (render_nonempty _ _ _ _ _ H) as Hne.
  destruct text as [|c text]; [congruence|]. apply (render_go sep S t chs final); [exact H | left; reflexivity].
Qed.

Lemma allowed_sane sep : allowed sep -> sane_sep sep.
Proof.
  unfold allowed, allowed_seps, sane_sep, DQ, CR, LF. cbn [In].
  intros [<-|[<-|[<-|[<-|[<-|[]]]]]]; repeat split; discriminate.
Qed.

(* ---------- building renderings ---------- *)

Lemma render_record_single sep q f : render_record sep [q] [f] = render_field sep q f.
Proof. reflexivity. Qed.

Lemma render_record_cons sep q qs f r af b : r <> [] ->
  render_field sep q f = Some af -> render_record sep qs r = Some b ->
  render_record sep (q :: qs) (f :: r) = Some (af ++ sep :: b).
Proof.
  intros Hne Hf Hr. destruct r as [|f2 r']; [congruence|].
  destruct qs as [|q2 qs']; [rewrite render_record_nilq in Hr; discriminate|].
  cbn [render_record] in *. rewrite Hf, Hr. reflexivity.
Qed.

Lemma render_single_final sep ch r a : render_record sep (ch_quotes ch) r = Some a ->
  render sep [ch] true [r] = Some (a ++ eol_bytes (ch_eol ch)).
Proof. intros H. cbn [render]. rewrite H. reflexivity. Qed.

Lemma render_cons sep ch chs final r t a b : t <> [] ->
  render_record sep (ch_quotes ch) r = Some a -> render sep chs final t = Some b ->
  render sep (ch :: chs) final (r :: t) = Some (a ++ eol_bytes (ch_eol ch) ++ b).
Proof.
  intros Hne Ha Hb. destruct t as [|r2 t']; [congruence|].
  destruct chs as [|ch2 chs']; [rewrite render_nilc in Hb; discriminate|].
  cbn [render] in *. rewrite Ha, Hb. reflexivity.
Qed.

(* the rendering with the fewest quotes, CRLF after every record: always a legal rendering *)
Definition min_choice (sep : N) (r : record) : rchoice := mkChoice (map (needs_quote sep) r) EolCRLF.
Definition mfield (sep : N) (f : field) : list N := rfield (needs_quote sep f) f.
Definition mrecord (sep : N) (r : record) : list N :=
  match r with [] => [] | f :: r' => mfield sep f ++ flat_map (fun f => sep :: mfield sep f) r' end.
Definition min_text (sep : N) (t : table) : list N := flat_map (fun r => mrecord sep r ++ [CR; LF]) t.

Lemma render_field_min sep f : render_field sep (needs_quote sep f) f = Some (mfield sep f).
Proof. unfold render_field, mfield, rfield. destruct (needs_quote sep f); reflexivity. Qed.

Lemma render_record_min sep r : r <> [] -> render_record sep (map (needs_quote sep) r) r = Some (mrecord sep r).
Proof.
  induction r as [|f r IH]; intros H; [congruence|].
  destruct r as [|f2 r'].
  - cbn [map]. rewrite render_record_single, render_field_min. cbn. rewrite app_nil_r. reflexivity.
  - cbn [map]. erewrite render_record_cons; [| discriminate | apply render_field_min | apply IH; discriminate].
    reflexivity.
Qed.

Lemma render_min sep t : t <> [] -> Forall (fun r => r <> []) t ->
  render sep (map (min_choice sep) t) true t = Some (min_text sep t).
Proof.
  induction t as [|r t IH]; intros H F; [congruence|].
  inversion F as [|? ? Hr Ft]. subst.
  destruct t as [|r2 t'].
  - cbn [map]. erewrite render_single_final by (apply render_record_min; exact Hr).
    cbn. rewrite app_nil_r. reflexivity.
  - cbn [map]. erewrite render_cons; [| discriminate | apply render_record_min; exact Hr | apply IH; [discriminate|exact Ft]].
    cbn [min_text flat_map min_choice ch_eol eol_bytes]. rewrite <- !app_assoc. reflexivity.
Qed.
