(* CsvStreamProofs.v — the stream reader (CCsvStreamReader over CEncodedStreamReader<char, K>, UTF-8 source)
   on RFC 4180 renderings, for every chunk size K >= 1. *)
From BS Require Import Base CsvSpec CsvSpecProofs CsvModel CsvWriterProofs CsvReaderProofs.
From Coq Require Import ZifyBool ZifyN ZifyNat.
Ltac Zify.zify_post_hook ::= Z.div_mod_to_equations.
Local Open Scope N_scope.

(* ---------- the encoded stream reader delivers the text, chunk by chunk ---------- *)

Definition stream_rest (e : esr) : list N := e_pend e ++ e_rest e.
(* eofbit is only ever set by a read that exhausted the source *)
Definition esr_inv (e : esr) : Prop := e_eof e = true -> e_rest e = [].

Lemma is_nil_true {A} (l : list A) : is_nil l = true <-> l = [].
Proof. destruct l; cbn; split; congruence. Qed.

Lemma firstn_nil_inv {A} n (l : list A) : (0 < n)%nat -> firstn n l = [] -> l = [].
Proof. destruct n; [lia|]. destruct l; [reflexivity|discriminate]. Qed.

Lemma esr_read_chunk_spec K e : (0 < K)%nat -> esr_inv e ->
  match esr_read_chunk K e with
  | (Some chunk, e') => chunk <> [] /\ chunk ++ stream_rest e' = stream_rest e /\ e_pend e' = [] /\ esr_inv e'
  | (None, e') => stream_rest e = [] /\ stream_rest e' = [] /\ esr_is_end e' = true /\ esr_inv e'
  end.
Proof.
  intros HK Inv. unfold esr_read_chunk.
  destruct (esr_is_end e) eqn:Eend.
  - unfold esr_is_end in Eend. apply andb_true_iff in Eend. destruct Eend as [E1 E2].
    apply is_nil_true in E1. unfold stream_rest. rewrite E1, (Inv E2). cbn.
    repeat split; try reflexivity. + unfold esr_is_end. rewrite E1, E2. reflexivity. + exact Inv.
  - unfold esr_fill.
    set (want := (K - length (e_pend e))%nat). set (got := firstn want (e_rest e)).
    cbn [e_pend e_rest e_eof].
    destruct (negb (negb (is_nil got)) && is_nil (e_pend e ++ got)) eqn:Eb.
    + apply andb_true_iff in Eb. destruct Eb as [B1 B2]. rewrite negb_involutive in B1.
      apply is_nil_true in B1. apply is_nil_true in B2. apply app_eq_nil in B2. destruct B2 as [P _].
      assert (Hw : want = K) by (subst want; rewrite P; cbn; lia).
      assert (Hr : e_rest e = []) by (apply (firstn_nil_inv want); [lia | exact B1]).
      unfold stream_rest, esr_is_end, esr_inv. cbn [e_pend e_rest e_eof]. rewrite P, Hr, B1. cbn.
      rewrite skipn_nil. repeat split; try reflexivity.
      destruct want; [lia|]. apply orb_true_r.
    + cbn [e_pend e_rest e_eof]. split.
      * intros Hnil. apply app_eq_nil in Hnil. destruct Hnil as [P G].
        rewrite P, G in Eb. cbn in Eb. discriminate.
      * unfold stream_rest, esr_inv. cbn [e_pend e_rest e_eof app]. split.
        { rewrite <- app_assoc. subst got. rewrite firstn_skipn. reflexivity. }
        split; [reflexivity|].
        intros He. apply orb_true_iff in He. destruct He as [He|He].
        { rewrite (Inv He). apply skipn_nil. }
        { apply Nat.ltb_lt in He. subst got. apply skipn_all2. rewrite firstn_length in He. lia. }
Qed.

(* ---------- the scanner as if the whole remaining text were in the buffer ---------- *)

Fixpoint a_scan (sep : N) (l : list N) (pos start dq : nat) (cr : option nat) (acc : list meta) : list meta * nat :=
  match l with
  | [] => (mk_value start pos dq :: acc, pos)
  | c :: t =>
    if c =? DQ then a_scan sep t (S pos) start (S dq) cr acc
    else if (c =? sep) && Nat.even dq then a_scan sep t (S pos) (S pos) 0 None (mk_value start pos dq :: acc)
    else if c =? CR then a_scan sep t (S pos) start dq (Some pos) acc
    else if (c =? LF) && Nat.even dq then (mk_value start (lf_end cr pos) dq :: acc, S pos)
    else a_scan sep t (S pos) start dq cr acc
  end.

Lemma a_scan_pos sep : forall l pos start dq cr acc,
  (pos <= snd (a_scan sep l pos start dq cr acc) <= pos + length l)%nat.
Proof.
  induction l as [|c t IH]; intros pos start dq cr acc; cbn [a_scan length].
  - cbn. lia.
  - destruct (c =? DQ); [specialize (IH (S pos) start (S dq) cr acc); lia|].
    destruct ((c =? sep) && Nat.even dq); [specialize (IH (S pos) (S pos) 0%nat None (mk_value start pos dq :: acc)); lia|].
    destruct (c =? CR); [specialize (IH (S pos) start dq (Some pos) acc); lia|].
    destruct ((c =? LF) && Nat.even dq); [cbn; lia|].
    specialize (IH (S pos) start dq cr acc); lia.
Qed.

Lemma s_scan_refines K sep : (0 < K)%nat -> forall fuel buf todo e pos start dq cr acc,
  esr_inv e -> (pos + length todo = length buf)%nat ->
  (2 * length (stream_rest e) + length todo < fuel)%nat ->
  exists ext e',
    s_scan fuel K sep buf todo e pos start dq cr acc =
      Ok (fst (a_scan sep (todo ++ stream_rest e) pos start dq cr acc), buf ++ ext, e',
          snd (a_scan sep (todo ++ stream_rest e) pos start dq cr acc)) /\
    ext ++ stream_rest e' = stream_rest e /\ esr_inv e' /\
    (snd (a_scan sep (todo ++ stream_rest e) pos start dq cr acc) <= length (buf ++ ext))%nat.
Proof.
  intros HK. induction fuel as [|fuel IH]; intros buf todo e pos start dq cr acc Inv Hlen Hfuel; [lia|].
  cbn [s_scan]. destruct todo as [|c t].
  - pose proof (esr_read_chunk_spec K e HK Inv) as Hrc.
    destruct (esr_read_chunk K e) as [[chunk|] e1].
    + destruct Hrc as (Hne & Hsr & Hp & Inv1).
      destruct (IH (buf ++ chunk) chunk e1 pos start dq cr acc Inv1) as (ext & e' & E & Hsr' & Inv' & Hpos').
      { rewrite app_length. cbn in Hlen. lia. }
      { rewrite <- Hsr, app_length in Hfuel. destruct chunk; [congruence|]. cbn in *. lia. }
      exists (chunk ++ ext), e'. cbn [app]. rewrite <- Hsr. rewrite E. rewrite <- !app_assoc.
      split; [reflexivity|]. split; [rewrite Hsr'; reflexivity|]. split; [exact Inv'|].
      rewrite <- app_assoc in Hpos'. exact Hpos'.
    + destruct Hrc as (Hsr & Hsr1 & Hend1 & Inv1).
      exists [], e1. cbn [app]. rewrite Hsr, app_nil_r. cbn [a_scan fst snd].
      cbn [length] in Hlen. replace (length buf) with pos by lia.
      split; [reflexivity|].
      split; [rewrite Hsr1; reflexivity|]. split; [exact Inv1|]. lia.
  - cbn [app a_scan]. cbn [length] in Hlen, Hfuel.
    destruct (c =? DQ).
    { destruct (IH buf t e (S pos) start (S dq) cr acc Inv) as (ext & e' & E & R); [lia|lia|]. exists ext, e'. rewrite E. split; [reflexivity | exact R]. }
    destruct ((c =? sep) && Nat.even dq).
    { destruct (IH buf t e (S pos) (S pos) 0%nat None (mk_value start pos dq :: acc) Inv) as (ext & e' & E & R); [lia|lia|].
      exists ext, e'. rewrite E. split; [reflexivity | exact R]. }
    destruct (c =? CR).
    { destruct (IH buf t e (S pos) start dq (Some pos) acc Inv) as (ext & e' & E & R); [lia|lia|]. exists ext, e'. rewrite E. split; [reflexivity | exact R]. }
    destruct ((c =? LF) && Nat.even dq).
    { exists [], e. rewrite app_nil_r. cbn [fst snd]. split; [reflexivity|]. split; [reflexivity|]. split; [exact Inv|]. lia. }
    destruct (is_nil t && esr_is_end e) eqn:Elast.
    { apply andb_true_iff in Elast. destruct Elast as [L1 L2]. apply is_nil_true in L1. subst t.
      unfold esr_is_end in L2. apply andb_true_iff in L2. destruct L2 as [L2 L3]. apply is_nil_true in L2.
      assert (Hsr : stream_rest e = []) by (unfold stream_rest; rewrite L2, (Inv L3); reflexivity).
      exists [], e. rewrite Hsr, !app_nil_r. cbn [app a_scan fst snd].
      cbn [length] in Hlen. replace (length buf) with (S pos) by lia.
      split; [reflexivity|]. split; [reflexivity|]. split; [exact Inv|]. lia. }
    destruct (IH buf t e (S pos) start dq cr acc Inv) as (ext & e' & E & R); [lia|lia|]. exists ext, e'. rewrite E. split; [reflexivity | exact R].
Qed.

(* ---------- the abstract scanner on the pieces of a rendering (as for parse_line, minus the F24 branch) ---------- *)

Lemma as_plain sep f : needs_quote sep f = false -> forall rest pos start dq cr acc,
  a_scan sep (f ++ rest) pos start dq cr acc = a_scan sep rest (pos + length f) start dq cr acc.
Proof.
  induction f as [|c f IH]; intros H rest pos start dq cr acc.
  - cbn. rewrite Nat.add_0_r. reflexivity.
  - apply needs_quote_cons in H. destruct H as [Hc Hf]. apply special_false in Hc. destruct Hc as (H1 & H2 & H3 & H4).
    cbn [app a_scan length]. neqb. cbn [andb]. rewrite IH by exact Hf. f_equal. lia.
Qed.

Lemma as_esc sep f : sane_sep sep -> forall rest pos start dq cr acc, Nat.even dq = false -> cr_lt cr pos ->
  exists dq' cr',
    a_scan sep (esc f ++ rest) pos start dq cr acc = a_scan sep rest (pos + length (esc f)) start dq' cr' acc /\
    Nat.even dq' = false /\ cr_lt cr' (pos + length (esc f)).
Proof.
  intros (S1 & S2 & S3). induction f as [|c f IH]; intros rest pos start dq cr acc Hev Hcr.
  - exists dq, cr. cbn. rewrite Nat.add_0_r. auto.
  - rewrite esc_cons. destruct (N.eqb_spec c DQ) as [->|Hdq].
    + cbn [app a_scan length]. rewrite !N.eqb_refl.
      destruct (IH rest (S (S pos)) start (S (S dq)) cr acc) as (dq' & cr' & E & Hev' & Hcr').
      { exact Hev. } { destruct cr; cbn in *; lia. }
      exists dq', cr'. rewrite E. split; [f_equal; lia|]. split; [exact Hev'|].
      replace (pos + S (S (length (esc f))))%nat with (S (S pos) + length (esc f))%nat by lia. exact Hcr'.
    + cbn [app a_scan length]. neqb. rewrite Hev, !andb_false_r.
      destruct (N.eqb_spec c CR) as [->|Hcr0].
      * destruct (IH rest (S pos) start dq (Some pos) acc) as (dq' & cr' & E & Hev' & Hcr'); [exact Hev | cbn; lia |].
        exists dq', cr'. rewrite E. split; [f_equal; lia|]. split; [exact Hev'|].
        replace (pos + S (length (esc f)))%nat with (S pos + length (esc f))%nat by lia. exact Hcr'.
      * destruct (IH rest (S pos) start dq cr acc) as (dq' & cr' & E & Hev' & Hcr'); [exact Hev | destruct cr; cbn in *; lia |].
        exists dq', cr'. rewrite E. split; [f_equal; lia|]. split; [exact Hev'|].
        replace (pos + S (length (esc f)))%nat with (S pos + length (esc f))%nat by lia. exact Hcr'.
Qed.

Lemma as_field sep q f : sane_sep sep -> (q = false -> needs_quote sep f = false) -> forall rest pos acc,
  exists dq cr,
    a_scan sep (rfield q f ++ rest) pos pos 0 None acc =
    a_scan sep rest (pos + length (rfield q f)) pos dq cr acc /\
    after_field q (pos + length (rfield q f)) dq cr.
Proof.
  intros S Hq rest pos acc. destruct q; cbn [rfield].
  - unfold quoted. cbn [app a_scan length]. rewrite N.eqb_refl. rewrite <- app_assoc.
    destruct (as_esc sep f S ([DQ] ++ rest) (Datatypes.S pos) pos 1%nat None acc) as (dq' & cr' & E & Hev & Hcr); [reflexivity | exact I |].
    rewrite E. cbn [app a_scan]. rewrite N.eqb_refl.
    exists (Datatypes.S dq'), cr'. split; [f_equal; rewrite app_length; cbn; lia|].
    unfold after_field. split; [rewrite Nat.even_succ, <- Nat.negb_even, Hev; reflexivity|]. split; [reflexivity|].
    destruct cr' as [c|]; [right|left; reflexivity]. exists c. split; [reflexivity|].
    cbn in Hcr. rewrite app_length. cbn. lia.
  - exists 0%nat, None. split; [apply as_plain; apply Hq; reflexivity|]. unfold after_field. auto.
Qed.

Lemma as_after_sep sep start p dq cr t acc : sane_sep sep -> Nat.even dq = true ->
  a_scan sep (sep :: t) p start dq cr acc = a_scan sep t (S p) (S p) 0 None (mk_value start p dq :: acc).
Proof. intros (S1 & S2 & S3) Hev. cbn [a_scan]. neqb. rewrite N.eqb_refl, Hev. reflexivity. Qed.

Lemma as_after_lf sep start p dq cr t acc : sane_sep sep -> Nat.even dq = true ->
  (cr = None \/ exists c, cr = Some c /\ (S c < p)%nat) ->
  a_scan sep (LF :: t) p start dq cr acc = (mk_value start p dq :: acc, S p).
Proof.
  intros (S1 & S2 & S3) Hev Hcr. cbn [a_scan]. assert (LF <> sep) by congruence.
  change (LF =? DQ) with false. change (LF =? CR) with false. neqb. rewrite N.eqb_refl, Hev. cbn [andb].
  rewrite lf_end_ok by exact Hcr. reflexivity.
Qed.

Lemma as_after_crlf sep start p dq cr t acc : sane_sep sep -> Nat.even dq = true ->
  a_scan sep (CR :: LF :: t) p start dq cr acc = (mk_value start p dq :: acc, S (S p)).
Proof.
  intros (S1 & S2 & S3) Hev. cbn [a_scan]. assert (LF <> sep) by congruence. assert (CR <> sep) by congruence.
  change (CR =? DQ) with false. change (LF =? DQ) with false. change (LF =? CR) with false. change (CR =? CR) with true.
  neqb. rewrite N.eqb_refl, Hev. cbn [andb].
  unfold lf_end. cbn [nat_is0 negb andb]. replace (S p - 1)%nat with p by lia. rewrite Nat.eqb_refl. reflexivity.
Qed.

(* a rendered record, whatever follows it: the stream scanner has no F24 *)
Lemma as_record sep : sane_sep sep -> forall r qs a rest n pos acc,
  render_record sep qs r = Some a -> line_rest rest n ->
  a_scan sep (a ++ rest) pos pos 0 None acc = (rev (rec_metas pos qs r) ++ acc, (pos + length a + n)%nat).
Proof.
  intros S. induction r as [|f r IH]; intros qs a rest n pos acc H LR.
  - rewrite render_record_nil in H. discriminate.
  - apply render_record_inv in H.
    destruct H as (q & qs' & -> & Hq & [(-> & -> & ->)|(Hne & b & Hb & ->)]).
    + destruct (as_field sep q f S Hq rest pos acc) as (dq & cr & E & AF). destruct AF as (Hev & Hq' & Hcr). rewrite E.
      cbn [rec_metas rev app].
      destruct LR.
      * cbn [a_scan]. rewrite mk_value_fmeta by exact Hq'. f_equal. lia.
      * rewrite as_after_lf by assumption. rewrite mk_value_fmeta by exact Hq'. f_equal. lia.
      * rewrite as_after_crlf by assumption. rewrite mk_value_fmeta by exact Hq'. f_equal. lia.
    + rewrite <- app_assoc. cbn [app].
      destruct (as_field sep q f S Hq (sep :: b ++ rest) pos acc) as (dq & cr & E & AF). destruct AF as (Hev & Hq' & Hcr). rewrite E.
      rewrite as_after_sep by assumption. rewrite mk_value_fmeta by exact Hq'.
      rewrite (IH qs' b rest n _ _ Hb LR).
      destruct r as [|f2 r']; [congruence|]. destruct qs' as [|q2 qs'']; [rewrite render_record_nilq in Hb; discriminate|].
      cbn [rec_metas rev]. rewrite <- !app_assoc. cbn [app]. f_equal. rewrite !app_length. cbn [length]. lia.
Qed.

(* ---------- ParseNextLine on a rendered record ---------- *)

(* the text the reader has not consumed yet *)
Definition remaining (s : sreader) : list N := skipn (s_pos s) (s_buf s) ++ stream_rest (s_esr s).

Lemma esr_not_end e : esr_inv e -> stream_rest e <> [] -> esr_is_end e = false.
Proof.
  intros Inv H. unfold esr_is_end. destruct (e_pend e) eqn:P; [|reflexivity]. cbn.
  destruct (e_eof e) eqn:E; [|reflexivity]. unfold stream_rest in H. rewrite P, (Inv E) in H. exfalso. apply H. reflexivity.
Qed.

Lemma s_not_end s : esr_inv (s_esr s) -> remaining s <> [] -> s_is_end s = false.
Proof.
  intros Inv H. unfold s_is_end. destruct (Nat.leb (length (s_buf s)) (s_pos s)) eqn:L; [|reflexivity].
  apply Nat.leb_le in L. unfold remaining in H. rewrite skipn_all2 in H by exact L. cbn in H.
  rewrite (esr_not_end _ Inv H). reflexivity.
Qed.

Lemma app_prefix {A} (X Y P R : list A) : X ++ Y = P ++ R -> (length P <= length X)%nat ->
  exists Q, X = P ++ Q /\ R = Q ++ Y.
Proof.
  revert P. induction X as [|x X IH]; intros P H L.
  - destruct P; [|cbn in L; lia]. exists []. cbn in *. auto.
  - destruct P as [|p P].
    + exists (x :: X). cbn in *. auto.
    + cbn in *. inversion H. subst. destruct (IH P H2) as (Q & -> & ->); [lia|]. exists Q. auto.
Qed.

Definition s_line_result (s : sreader) (buf2 : list N) (e2 : esr) (metas : list meta) (pos1 : nat) : sreader :=
  mkS buf2 e2 (s_headers s) metas pos1 (S (s_line s)) (s_rowidx s) (s_validx s) (length (s_metas s)).

Lemma s_parse_next_line_record K sep : (0 < K)%nat -> sane_sep sep -> forall s a rest n qs rec fuel,
  esr_inv (s_esr s) -> remaining s = a ++ rest -> render_record sep qs rec = Some a -> line_rest rest n ->
  a ++ rest <> [] -> (2 * length (remaining s) + 1 < fuel)%nat ->
  exists post e2,
    s_parse_next_line fuel K sep s = Ok (true, s_line_result s (a ++ post) e2 (rec_metas 0 qs rec) (length a + n)) /\
    post ++ stream_rest e2 = rest /\ esr_inv e2 /\ (n <= length post)%nat /\
    ((length post <= n)%nat -> esr_is_end e2 = true).
Proof.
  intros HK S s a rest n qs rec fuel Inv Hrem Hrec LR Hne Hfuel.
  unfold s_parse_next_line. rewrite (s_not_end s Inv) by (rewrite Hrem; exact Hne).
  set (buf0 := skipn (s_pos s) (s_buf s)) in *.
  destruct (s_scan_refines K sep HK fuel buf0 buf0 (s_esr s) 0 0 0 None [] Inv) as (ext & e1 & E & Hsr & Inv1 & Hpos).
  { reflexivity. }
  { unfold remaining in Hfuel. fold buf0 in Hfuel. rewrite app_length in Hfuel. lia. }
  unfold remaining in Hrem. fold buf0 in Hrem. rewrite Hrem in E, Hpos.
  rewrite (as_record sep S rec qs a rest n 0 [] Hrec LR) in E, Hpos. cbn [fst snd Nat.add] in E, Hpos.
  rewrite E. rewrite app_nil_r, rev_involutive.
  (* the buffer after the scan holds the record and its line break *)
  assert (Hall : (buf0 ++ ext) ++ stream_rest e1 = a ++ rest).
  { rewrite <- app_assoc, Hsr. exact Hrem. }
  assert (Hla : (length a <= length (buf0 ++ ext))%nat) by lia.
  destruct (app_prefix _ _ _ _ Hall Hla) as (post1 & Ebuf & Erest).
  rewrite Ebuf in *. rewrite app_length in Hpos.
  destruct (Nat.eqb (length a + n) (length (a ++ post1))) eqn:Eq.
  - apply Nat.eqb_eq in Eq. rewrite app_length in Eq.
    pose proof (esr_read_chunk_spec K e1 HK Inv1) as Hrc.
    destruct (esr_read_chunk K e1) as [[chunk|] e2].
    + destruct Hrc as (Hcne & Hsr2 & _ & Inv2).
      exists (post1 ++ chunk), e2. rewrite <- app_assoc.
      split; [reflexivity|]. split; [rewrite <- app_assoc, Hsr2; symmetry; exact Erest|]. split; [exact Inv2|].
      rewrite app_length. split; [lia|]. destruct chunk; [congruence|]. cbn. lia.
    + destruct Hrc as (Hsr1 & Hsr2 & Hend2 & Inv2).
      exists post1, e2. split; [reflexivity|]. split; [rewrite Hsr2; rewrite Hsr1 in Erest; symmetry; exact Erest|].
      split; [exact Inv2|]. split; [lia|]. intros _. exact Hend2.
  - apply Nat.eqb_neq in Eq. rewrite app_length in Eq.
    exists post1, e1. split; [reflexivity|]. split; [symmetry; exact Erest|]. split; [exact Inv1|]. split; [lia|]. lia.
Qed.

(* ---------- unescaping in place ---------- *)

(* what is left in the buffer behind the decoded value *)
Definition junk (f : field) : list N := skipn (length f) (quoted f).

Lemma esc_length_ge f : (length f <= length (esc f))%nat.
Proof. induction f as [|c f IH]; [cbn; lia|]. rewrite esc_cons, app_length. cbn [length]. destruct (c =? DQ); cbn; lia. Qed.

Lemma quoted_length f : length (quoted f) = S (S (length (esc f))).
Proof. unfold quoted. cbn [length]. rewrite app_length. cbn. lia. Qed.

Lemma junk_length f : length (f ++ junk f) = length (quoted f).
Proof.
  unfold junk. rewrite app_length, skipn_length. pose proof (esc_length_ge f). rewrite quoted_length. lia.
Qed.

Lemma nth_error_mid {A} (pre : list A) x post : nth_error (pre ++ x :: post) (length pre) = Some x.
Proof. rewrite nth_error_app2 by lia. rewrite Nat.sub_diag. reflexivity. Qed.

Lemma s_unescape_quoted pre f post :
  s_unescape (pre ++ quoted f ++ post) (length pre) (length pre + length (quoted f)) =
  Ok (f, pre ++ (f ++ junk f) ++ post).
Proof.
  unfold s_unescape.
  assert (E0 : nth_error (pre ++ quoted f ++ post) (length pre) = Some DQ).
  { unfold quoted. cbn [app]. apply nth_error_mid. }
  rewrite E0, N.eqb_refl. cbn [negb].
  rewrite quoted_length.
  replace (Nat.ltb (length pre + S (S (length (esc f)))) (length pre + 2)) with false by (symmetry; apply Nat.ltb_ge; lia).
  assert (E1 : nth_error (pre ++ quoted f ++ post) (length pre + S (S (length (esc f))) - 1) = Some DQ).
  { unfold quoted. replace (pre ++ (DQ :: esc f ++ [DQ]) ++ post) with ((pre ++ DQ :: esc f) ++ DQ :: post)
      by (rewrite <- !app_assoc; cbn; rewrite <- app_assoc; reflexivity).
    replace (length pre + S (S (length (esc f))) - 1)%nat with (length (pre ++ DQ :: esc f)) by (rewrite app_length; cbn; lia).
    apply nth_error_mid. }
  rewrite E1, N.eqb_refl. cbn [negb].
  assert (E2 : slice (pre ++ quoted f ++ post) (S (length pre)) (length pre + S (S (length (esc f))) - 1 - S (length pre)) = esc f).
  { unfold quoted. replace (pre ++ (DQ :: esc f ++ [DQ]) ++ post) with ((pre ++ [DQ]) ++ esc f ++ (DQ :: post))
      by (rewrite <- !app_assoc; cbn; rewrite <- app_assoc; reflexivity).
    replace (S (length pre)) with (length (pre ++ [DQ])) by (rewrite app_length; cbn; lia).
    replace (length pre + S (S (length (esc f))) - 1 - length (pre ++ [DQ]))%nat with (length (esc f)) by (rewrite app_length; cbn; lia).
    apply slice_mid. }
  rewrite E2, unescape_loop_esc by reflexivity.
  f_equal. f_equal. rewrite firstn_app_exact.
  rewrite skipn_app, skipn_all2 by lia. replace (length pre + length f - length pre)%nat with (length f) by lia.
  cbn [app]. rewrite skipn_app. pose proof (esc_length_ge f). rewrite (proj2 (Nat.sub_0_le _ _)) by (rewrite quoted_length; lia).
  cbn [skipn]. unfold junk. rewrite <- app_assoc. reflexivity.
Qed.

(* ---------- the constructor: header names are read by index, one after the other ---------- *)

Definition s_same (s s' : sreader) : Prop :=
  s_esr s' = s_esr s /\ s_headers s' = s_headers s /\ s_metas s' = s_metas s /\ s_pos s' = s_pos s /\
  s_line s' = s_line s /\ s_rowidx s' = s_rowidx s /\ s_prev s' = s_prev s.

Lemma s_same_refl s : s_same s s.
Proof. unfold s_same. repeat split; reflexivity. Qed.

Lemma s_same_trans s1 s2 s3 : s_same s1 s2 -> s_same s2 s3 -> s_same s1 s3.
Proof. unfold s_same. intros (A1&A2&A3&A4&A5&A6&A7) (B1&B2&B3&B4&B5&B6&B7). repeat split; congruence. Qed.

Lemma s_read_next_field s pre q f post mpre mpost :
  s_buf s = pre ++ rfield q f ++ post ->
  s_metas s = mpre ++ mkMeta (length pre) (length (rfield q f)) q :: mpost -> s_validx s = length mpre ->
  exists c s', s_read_next s = Ok (f, s') /\ s_buf s' = pre ++ c ++ post /\ length c = length (rfield q f) /\
               s_same s s' /\ s_validx s' = S (length mpre).
Proof.
  intros Hb Hm Hv. unfold s_read_next. rewrite Hm, Hv, nth_error_mid. cbn [m_esc m_off m_size].
  destruct q; cbn [rfield] in *.
  - rewrite Hb, s_unescape_quoted. exists (f ++ junk f). eexists. split; [reflexivity|].
    cbn. split; [reflexivity|]. split; [apply junk_length|]. split; [unfold s_same; cbn; repeat split; reflexivity | reflexivity].
  - rewrite Hb, slice_mid. exists f. eexists. split; [reflexivity|].
    cbn. split; [reflexivity|]. split; [reflexivity|]. split; [unfold s_same; cbn; repeat split; reflexivity | reflexivity].
Qed.

Lemma s_read_headers_spec sep : forall r qs a pre post s acc mpre,
  render_record sep qs r = Some a -> s_buf s = pre ++ a ++ post ->
  s_metas s = mpre ++ rec_metas (length pre) qs r -> s_validx s = length mpre ->
  exists a' s', s_read_headers (length r) s acc = Ok (acc ++ r, s') /\
    s_buf s' = pre ++ a' ++ post /\ length a' = length a /\ s_same s s'.
Proof.
  induction r as [|f r IH]; intros qs a pre post s acc mpre H Hb Hm Hv.
  - rewrite render_record_nil in H. discriminate.
  - apply render_record_inv in H.
    destruct H as (q & qs' & -> & Hq & [(-> & -> & ->)|(Hne & b & Hb' & ->)]).
    + cbn [rec_metas] in Hm. cbn [length s_read_headers].
      destruct (s_read_next_field s pre q f post mpre [] Hb Hm Hv) as (c & s1 & E1 & B1 & L1 & S1 & V1).
      rewrite E1. cbn [s_read_headers]. exists c, s1. auto.
    + cbn [rec_metas] in Hm. cbn [length s_read_headers].
      rewrite <- app_assoc in Hb. cbn [app] in Hb.
      destruct (s_read_next_field s pre q f (sep :: b ++ post) mpre _ Hb Hm Hv) as (c & s1 & E1 & B1 & L1 & S1 & V1).
      rewrite E1. cbv beta iota.
      destruct S1 as (A1&A2&A3&A4&A5&A6&A7).
      destruct (IH qs' b (pre ++ c ++ [sep]) post s1 (acc ++ [f]) (mpre ++ [mkMeta (length pre) (length (rfield q f)) q]) Hb')
        as (a' & s2 & E2 & B2 & L2 & S2).
      { rewrite B1, <- !app_assoc. reflexivity. }
      { rewrite A3, Hm, <- app_assoc. cbn [app]. f_equal. f_equal. f_equal. rewrite !app_length. cbn [length]. lia. }
      { rewrite V1, app_length. cbn. lia. }
      exists (c ++ sep :: a'), s2. rewrite <- app_assoc in E2. cbn [app] in E2.
      split; [exact E2|]. split; [rewrite B2, <- !app_assoc; reflexivity|].
      split; [rewrite !app_length; cbn [length]; lia|].
      eapply s_same_trans; [|exact S2]. unfold s_same. repeat split; assumption.
Qed.

(* ---------- a data row read by name ---------- *)

(* The requests a row can serve with the current code: a column other than the first must be bare in this row
   (F23: the end of an escaped value is computed without its offset), and an escaped first column can be read
   once (F25: unescaping in place destroys the opening quote).  clean = the first column has not been unescaped. *)
Fixpoint keys_ok (hdr : record) (qs : list bool) (clean : bool) (keys : list field) : bool :=
  match keys with
  | [] => true
  | k :: ks =>
    match find_header hdr k 0 with
    | None => keys_ok hdr qs clean ks
    | Some O => if hd false qs then clean && keys_ok hdr qs false ks else keys_ok hdr qs clean ks
    | Some (S j) => negb (nth (S j) qs false) && keys_ok hdr qs clean ks
    end
  end.

Lemma find_header_nth hs key : forall i, find_header hs key 0 = Some i -> nth_error hs i = Some key.
Proof.
  induction hs as [|h hs IH]; intros i H; cbn in *; [discriminate|].
  destruct (list_eqb h key) eqn:E.
  - inversion H. apply list_eqb_eq in E. subst. reflexivity.
  - rewrite find_header_shift in H. destruct (find_header hs key 0) as [j|]; [|discriminate].
    cbn in H. inversion H. cbn. apply IH. reflexivity.
Qed.

Lemma rec_metas_esc sep : forall r qs a p j m, render_record sep qs r = Some a ->
  nth_error (rec_metas p qs r) j = Some m -> m_esc m = nth j qs false.
Proof.
  induction r as [|f r IH]; intros qs a p j m H Hn.
  - rewrite render_record_nil in H. discriminate.
  - apply render_record_inv in H.
    destruct H as (q & qs' & -> & Hq & [(-> & -> & ->)|(Hne & b & Hb & ->)]).
    + cbn [rec_metas] in Hn. destruct j as [|[|j]]; cbn in Hn; inversion Hn. reflexivity.
    + cbn [rec_metas] in Hn. destruct j as [|j]; cbn in Hn.
      * inversion Hn. reflexivity.
      * cbn [nth]. apply (IH qs' b _ j m Hb Hn).
Qed.

Lemma tail_values sep r qs b c0 post : render_record sep qs r = Some b ->
  Forall2 (fun m f => src_value (c0 ++ sep :: b ++ post) m = Ok f) (rec_metas (S (length c0)) qs r) r.
Proof.
  intros H. pose proof (rec_values sep r qs b (c0 ++ [sep]) post H) as F.
  rewrite app_length in F. cbn [length] in F. rewrite Nat.add_1_r in F.
  rewrite <- app_assoc in F. cbn [app] in F. exact F.
Qed.

(* the row as it lies in the buffer: first field (possibly already unescaped), the rest of the record, what follows *)
Inductive row_layout (sep : N) : list bool -> record -> list N -> list N -> list N -> list N -> bool -> Prop :=
| RL q0 f0 qs' r' buf c0 tla post clean :
    buf = c0 ++ tla ++ post ->
    length c0 = length (rfield q0 f0) ->
    ((clean = true \/ q0 = false) -> c0 = rfield q0 f0) ->
    ((r' = [] /\ qs' = [] /\ tla = []) \/ (exists b, render_record sep qs' r' = Some b /\ tla = sep :: b)) ->
    row_layout sep (q0 :: qs') (f0 :: r') buf c0 tla post clean.

Lemma s_read_key_row sep hdr qs rec s c0 tla post clean k :
  NoDup hdr -> length rec = length hdr -> s_headers s = hdr ->
  s_metas s = rec_metas 0 qs rec ->
  row_layout sep qs rec (s_buf s) c0 tla post clean ->
  keys_ok hdr qs clean [k] = true ->
  exists s' c0' clean',
    s_read_key true s k = Ok (cell hdr rec k, s') /\ s_same s s' /\
    row_layout sep qs rec (s_buf s') c0' tla post clean' /\
    (forall ks, keys_ok hdr qs clean (k :: ks) = true -> keys_ok hdr qs clean' ks = true).
Proof.
  intros ND Hl Hh Hm RLH Hok.
  inversion RLH as [q0 f0 qs' r' buf0 c00 tla0 post0 clean0 Ebuf Elen Ec0 Etla]. subst qs rec c00 tla0 post0 clean0 buf0.
  unfold s_read_key. cbn [negb]. rewrite Hh, select_column_nodup by exact ND.
  rewrite cell_find by exact Hl.
  cbn [keys_ok] in Hok |- *.
  destruct (find_header hdr k 0) as [i|] eqn:Ef.
  2:{ cbn [negb]. exists (s_with s (s_buf s) (S (s_validx s))), c0, clean.
      split; [reflexivity|]. split; [unfold s_same; cbn; repeat split; reflexivity|].
      split; [cbn; exact RLH|]. intros ks H. exact H. }
  cbn [negb]. pose proof (find_header_lt _ _ _ Ef) as Hlt.
  rewrite Hm.
  destruct i as [|j].
  - (* the first column *)
    cbn [rec_metas nth_error m_esc m_off m_size hd] in *.
    destruct q0.
    + (* escaped: must still be intact *)
      rewrite andb_true_r in Hok. subst clean.
      rewrite (Ec0 (or_introl eq_refl)) in Ebuf. cbn [rfield] in *.
      rewrite Ebuf. change (quoted f0 ++ tla ++ post) with ([] ++ quoted f0 ++ tla ++ post).
      change (length (quoted f0)) with (length (@nil N) + length (quoted f0))%nat at 1.
      change 0%nat with (length (@nil N)) at 1.
      rewrite s_unescape_quoted. cbn [app].
      exists (s_with s ((f0 ++ junk f0) ++ tla ++ post) 0), (f0 ++ junk f0), false.
      split; [reflexivity|]. split; [unfold s_same; cbn; repeat split; reflexivity|].
      split.
      * cbn. constructor; [reflexivity | apply junk_length | intros [H|H]; discriminate | exact Etla].
      * intros ks H. cbn [andb] in H. exact H.
    + (* bare *)
      cbn [rfield] in *. pose proof (Ec0 (or_intror eq_refl)) as Hc. subst c0.
      rewrite Ebuf. change (f0 ++ tla ++ post) with ([] ++ f0 ++ tla ++ post). change 0%nat with (length (@nil N)).
      rewrite slice_mid. cbn [app].
      exists (s_with s (f0 ++ tla ++ post) 0), f0, clean.
      split; [reflexivity|]. split; [unfold s_same; cbn; repeat split; reflexivity|].
      split.
      * cbn. constructor; [reflexivity | reflexivity | reflexivity | exact Etla].
      * intros ks H. exact H.
  - (* another column: must be bare in this row *)
    rewrite andb_true_r in Hok. apply negb_true_iff in Hok.
    cbn [rec_metas nth_error Nat.add]. cbn [length] in Hl, Hlt.
    destruct Etla as [(-> & -> & ->)|(b & Hb & ->)]; [cbn in Hlt, Hl; lia|].
    destruct (nth_error r' j) as [val|] eqn:Er; [|apply nth_error_None in Er; lia].
    pose proof (tail_values sep r' qs' b c0 post Hb) as F. rewrite Elen in F.
    destruct (Forall2_nth _ _ _ F j val Er) as (m & Em & Hm'). rewrite Em.
    pose proof (rec_metas_esc sep r' qs' b _ j m Hb Em) as Hesc. cbn [nth] in Hok. rewrite Hok in Hesc.
    rewrite Hesc. unfold src_value in Hm'. rewrite Hesc in Hm'. inversion Hm' as [Hv].
    exists (s_with s (s_buf s) (S j)), c0, clean.
    split; [rewrite Ebuf at 1; cbn [app]; rewrite Hv; reflexivity|]. split; [unfold s_same; cbn; repeat split; reflexivity|].
    split; [cbn; exact RLH|].
    intros ks H. apply andb_true_iff in H. destruct H as [_ H]. exact H.
Qed.

Lemma keys_ok_head hdr qs clean k ks : keys_ok hdr qs clean (k :: ks) = true -> keys_ok hdr qs clean [k] = true.
Proof.
  cbn [keys_ok]. destruct (find_header hdr k 0) as [[|j]|]; [|rewrite andb_true_r; intros H; apply andb_true_iff in H; tauto|reflexivity].
  destruct (hd false qs); [|reflexivity]. rewrite andb_true_r. intros H. apply andb_true_iff in H. tauto.
Qed.

Lemma s_read_keys_row sep hdr qs rec tla post : NoDup hdr -> length rec = length hdr ->
  forall keys s c0 clean acc, s_headers s = hdr -> s_metas s = rec_metas 0 qs rec ->
  row_layout sep qs rec (s_buf s) c0 tla post clean -> keys_ok hdr qs clean keys = true ->
  exists s' c0' clean',
    s_read_keys s keys acc = Ok (acc ++ map (cell hdr rec) keys, s') /\ s_same s s' /\
    row_layout sep qs rec (s_buf s') c0' tla post clean'.
Proof.
  intros ND Hl. induction keys as [|k ks IH]; intros s c0 clean acc Hh Hm RLH Hok.
  - exists s, c0, clean. cbn. rewrite app_nil_r. split; [reflexivity|]. split; [apply s_same_refl | exact RLH].
  - cbn [s_read_keys map].
    destruct (s_read_key_row sep hdr qs rec s c0 tla post clean k ND Hl Hh Hm RLH (keys_ok_head _ _ _ _ _ Hok))
      as (s1 & c1 & clean1 & E1 & S1 & RL1 & Hnext).
    rewrite E1. cbv beta iota. destruct S1 as (A1&A2&A3&A4&A5&A6&A7).
    destruct (IH s1 c1 clean1 (acc ++ [cell hdr rec k])) as (s2 & c2 & clean2 & E2 & S2 & RL2).
    { rewrite A2. exact Hh. } { rewrite A3. exact Hm. } { exact RL1. } { apply Hnext. exact Hok. }
    exists s2, c2, clean2. rewrite <- app_assoc in E2. split; [exact E2|].
    split; [eapply s_same_trans; [|exact S2]; unfold s_same; repeat split; assumption | exact RL2].
Qed.

Lemma row_layout_initial sep qs rec a post : render_record sep qs rec = Some a ->
  exists c0 tla, a = c0 ++ tla /\ row_layout sep qs rec (a ++ post) c0 tla post true.
Proof.
  intros H. destruct rec as [|f0 r']; [rewrite render_record_nil in H; discriminate|].
  apply render_record_inv in H.
  destruct H as (q & qs' & -> & Hq & [(-> & -> & ->)|(Hne & b & Hb & ->)]).
  - exists (rfield q f0), []. rewrite app_nil_r. split; [reflexivity|].
    constructor; [reflexivity | reflexivity | reflexivity | left; auto].
  - exists (rfield q f0), (sep :: b). split; [reflexivity|].
    constructor; [rewrite <- app_assoc; reflexivity | reflexivity | reflexivity | right; exists b; auto].
Qed.

Lemma row_layout_buf sep qs rec buf c0 tla post clean : row_layout sep qs rec buf c0 tla post clean ->
  buf = c0 ++ tla ++ post.
Proof. intros H. inversion H. assumption. Qed.

Lemma row_layout_len sep qs rec buf c0 tla post clean a : row_layout sep qs rec buf c0 tla post clean ->
  render_record sep qs rec = Some a -> length (c0 ++ tla) = length a.
Proof.
  intros H Ha. inversion H as [q0 f0 qs' r' buf0 c00 tla0 post0 clean0 Ebuf Elen Ec0 Etla]. subst.
  apply render_record_inv in Ha.
  destruct Ha as (q & qs'' & Eq & Hq & [(-> & -> & ->)|(Hne & b & Hb & ->)]); inversion Eq; subst.
  - destruct Etla as [(_ & _ & ->)|(b & Hb & ->)]; [rewrite app_nil_r; exact Elen|].
    rewrite render_record_nil in Hb. discriminate.
  - destruct Etla as [(-> & _ & _)|(b' & Hb' & ->)]; [congruence|].
    rewrite Hb in Hb'. inversion Hb'. subst. rewrite !app_length, Elen. reflexivity.
Qed.

(* ---------- the load loop ---------- *)

Definition loop_inv (hdr : record) (s : sreader) : Prop :=
  esr_inv (s_esr s) /\ ((length (s_buf s) <= s_pos s)%nat -> esr_is_end (s_esr s) = true) /\ s_headers s = hdr.

(* every data row can serve the requests (see keys_ok) *)
Definition chs_ok (hdr : record) (keys : list field) (chs : list rchoice) : bool :=
  forallb (fun ch => keys_ok hdr (ch_quotes ch) true keys) chs.

Lemma skipn_nil_length {A} (l : list A) n : skipn n l = [] -> (length l <= n)%nat.
Proof. intros H. pose proof (skipn_length n l) as L. rewrite H in L. cbn in L. lia. Qed.

Lemma skipn_past {A} (X Y : list A) n : skipn (length X + n) (X ++ Y) = skipn n Y.
Proof. rewrite skipn_app, skipn_all2 by lia. cbn. f_equal. lia. Qed.

Lemma skipn_app_le {A} (X Y : list A) n : (n <= length X)%nat -> skipn n X ++ Y = skipn n (X ++ Y).
Proof. intros H. rewrite skipn_app. replace (n - length X)%nat with 0%nat by lia. reflexivity. Qed.

Lemma s_load_rows_spec K sep keys hdr : (0 < K)%nat -> sane_sep sep -> NoDup hdr ->
  forall t chs final body fuel fl s acc,
  ((t = [] /\ body = []) \/ render sep chs final t = Some body) ->
  remaining s = body -> loop_inv hdr s ->
  (length body < fuel)%nat -> (2 * length body + 1 < fl)%nat ->
  chs_ok hdr keys chs = true ->
  s_load_rows fuel fl K sep keys s acc =
    if widths_ok hdr t then Ok (acc ++ select hdr keys t) else Err ParsingError.
Proof.
  intros HK S ND. induction t as [|rec t IH]; intros chs final body fuel fl s acc Hb Hrem (Inv & Hend & Hhdr) Hfuel Hfl Hok.
  - destruct Hb as [[_ ->]|Hb]; [|rewrite render_nil in Hb; discriminate].
    destruct fuel as [|fuel]; [lia|]. cbn [s_load_rows].
    unfold remaining in Hrem. apply app_eq_nil in Hrem. destruct Hrem as [R1 R2].
    apply skipn_nil_length in R1. unfold s_is_end. rewrite (proj2 (Nat.leb_le _ _) R1), (Hend R1).
    cbn. rewrite app_nil_r. reflexivity.
  - destruct Hb as [[Hb _]|Hb]; [discriminate|].
    pose proof (render_nonempty _ _ _ _ _ Hb) as Hbne.
    destruct (render_shape _ _ _ _ _ _ Hb) as (ch & chs' & a & rest & n & tail & -> & Ha & -> & LR & Hprog & Erest & Hn & Htail).
    cbn [chs_ok forallb] in Hok. apply andb_true_iff in Hok. destruct Hok as [Hok1 Hok2].
    destruct fuel as [|fuel]; [lia|]. cbn [s_load_rows].
    rewrite (s_not_end s Inv) by (rewrite Hrem; exact Hbne).
    unfold s_parse_next_row.
    destruct (s_parse_next_line_record K sep HK S s a rest n (ch_quotes ch) rec fl Inv Hrem Ha LR Hbne)
      as (post1 & e2 & E & Hpost & Inv2 & Hnle & Hend2).
    { rewrite Hrem. exact Hfl. }
    rewrite E. unfold s_line_result.
    cbn [s_headers s_metas s_line s_prev s_buf s_esr s_pos s_rowidx andb negb].
    rewrite (rec_metas_length sep rec _ a _ Ha), Hhdr.
    unfold widths_ok. cbn [forallb]. fold (widths_ok hdr t). change (@length field) with (@length (list N)) in *.
    rewrite (Nat.eqb_sym (@length (list N) rec) (@length (list N) hdr)).
    destruct (Nat.eqb (@length (list N) hdr) (@length (list N) rec)) eqn:Ew; cbn [negb andb]; [|reflexivity].
    apply Nat.eqb_eq in Ew.
    destruct (row_layout_initial sep (ch_quotes ch) rec a post1 Ha) as (c0 & tla & Ea & RL0).
    match goal with |- context [s_read_keys ?ss keys []] => set (s1 := ss) end.
    destruct (s_read_keys_row sep hdr (ch_quotes ch) rec tla post1 ND (eq_sym Ew) keys s1 c0 true [])
      as (s2 & c2 & clean2 & E2 & (A1&A2&A3&A4&A5&A6&A7) & RL2); try reflexivity; try assumption.
    rewrite E2. cbv beta iota. subst s1. cbn [s_esr s_headers s_metas s_pos s_line s_rowidx s_prev app] in *.
    pose proof (row_layout_buf _ _ _ _ _ _ _ _ RL2) as Eb2.
    pose proof (row_layout_len _ _ _ _ _ _ _ _ a RL2 Ha) as El2.
    etransitivity.
    { apply (IH chs' final tail fuel fl s2 (acc ++ [map (cell hdr rec) keys])).
      + exact Htail.
      + unfold remaining. rewrite A1, A4, Eb2, app_assoc, <- El2, skipn_past.
        rewrite skipn_app_le by exact Hnle. rewrite Hpost. rewrite Erest at 1.
        rewrite <- Hn at 1. apply skipn_app_exact.
      + split; [rewrite A1; exact Inv2|]. split; [|rewrite A2; reflexivity].
        rewrite A1, A4, Eb2, app_assoc, app_length, El2. intros H. apply Hend2. lia.
      + rewrite app_length in Hfuel. rewrite Erest, app_length, Hn in Hfuel. lia.
      + rewrite app_length in Hfl. rewrite Erest, app_length, Hn in Hfl. lia.
      + exact Hok2. }
    destruct (widths_ok hdr t); [|reflexivity].
    unfold select. cbn [map]. rewrite <- app_assoc. reflexivity.
Qed.

(* ---------- constructor and LoadObject from a stream ---------- *)

(* what the stream reader hands to the CSV scanner: the text minus a UTF-8 byte order mark found in the first chunk *)
Definition stream_payload (K : nat) (text : list N) : list N :=
  if starts_with_bom (firstn K text) then skipn 3 text else text.

Lemma starts_with_bom_length l : starts_with_bom l = true -> (3 <= length l)%nat.
Proof. destruct l as [|a [|b [|c l]]]; cbn; try discriminate. lia. Qed.

Lemma esr_new_spec K text : (0 < K)%nat ->
  stream_rest (esr_new K text) = stream_payload K text /\ esr_inv (esr_new K text).
Proof.
  intros HK. unfold esr_new, esr_fill, stream_payload. cbn [e_pend e_rest e_eof length app]. rewrite Nat.sub_0_r.
  assert (Inv0 : Nat.ltb (length (firstn K text)) K = true -> skipn K text = []).
  { intros H. apply Nat.ltb_lt in H. rewrite firstn_length in H. apply skipn_all2. lia. }
  destruct (negb (is_nil (firstn K text)) && starts_with_bom (firstn K text)) eqn:Eb.
  - apply andb_true_iff in Eb. destruct Eb as [_ Eb]. rewrite Eb.
    unfold stream_rest, esr_inv. cbn [e_pend e_rest e_eof]. split; [|exact Inv0].
    apply starts_with_bom_length in Eb. rewrite skipn_app_le by exact Eb. rewrite firstn_skipn. reflexivity.
  - unfold stream_rest, esr_inv. cbn [e_pend e_rest e_eof]. split; [|exact Inv0].
    rewrite firstn_skipn.
    destruct (starts_with_bom (firstn K text)) eqn:Es; [|reflexivity].
    rewrite andb_true_r in Eb. apply negb_false_iff in Eb. apply is_nil_true in Eb. rewrite Eb in Es. discriminate.
Qed.

Theorem csv_load_stream_render K sep chs final hdr rows text keys : (0 < K)%nat -> allowed sep -> NoDup hdr ->
  render sep chs final (hdr :: rows) = Some (stream_payload K text) ->
  chs_ok hdr keys (tl chs) = true ->
  csv_load_stream K sep keys text =
    if widths_ok hdr rows then Ok (select hdr keys rows) else Err ParsingError.
Proof.
  intros HK A ND R Hok. pose proof (allowed_sane sep A) as S.
  unfold csv_load_stream. rewrite (allowed_validate sep A). cbn [negb].
  pose proof (render_nonempty _ _ _ _ _ R) as Hne.
  destruct (render_shape _ _ _ _ _ _ R) as (ch & chs' & a & rest & n & tail & -> & Ha & Epay & LR & Hprog & Erest & Hn & Htail).
  cbn [tl] in Hok.
  destruct (esr_new_spec K text HK) as [Hsr Inv0].
  assert (Hpl : (length (stream_payload K text) <= length text)%nat).
  { unfold stream_payload. destruct (starts_with_bom (firstn K text)); [rewrite skipn_length; lia | lia]. }
  unfold s_new.
  set (s0 := mkS [] (esr_new K text) [] [] 0 0 0 0 0).
  assert (Hrem0 : remaining s0 = a ++ rest).
  { unfold remaining, s0. cbn [s_pos s_buf s_esr skipn app]. rewrite Hsr. exact Epay. }
  destruct (s_parse_next_line_record K sep HK S s0 a rest n (ch_quotes ch) hdr (stream_fuel text) Inv0 Hrem0 Ha LR)
    as (post1 & e2 & E & Hpost & Inv2 & Hnle & Hend2).
  { rewrite <- Epay. exact Hne. }
  { rewrite Hrem0, <- Epay. unfold stream_fuel. lia. }
  rewrite E. unfold s_line_result, s0. cbn [s_headers s_metas s_line s_rowidx s_validx length].
  match goal with |- context [s_read_headers _ ?ss []] => set (s1 := ss) end.
  destruct (s_read_headers_spec sep hdr (ch_quotes ch) a [] post1 s1 [] [] Ha) as (a' & s2 & E2 & B2 & L2 & (A1&A2&A3&A4&A5&A6&A7));
    try reflexivity.
  rewrite (rec_metas_length sep hdr _ a 0 Ha). rewrite E2. cbv beta iota. cbn [app] in *.
  subst s1. cbn [s_esr s_headers s_metas s_pos s_line s_rowidx s_prev] in *.
  apply (s_load_rows_spec K sep keys hdr HK S ND rows chs' final tail).
  - exact Htail.
  - unfold remaining. cbn [s_pos s_buf s_esr]. rewrite A1, A4, B2, <- L2, skipn_past.
    rewrite skipn_app_le by exact Hnle. rewrite Hpost. rewrite Erest at 1. rewrite <- Hn at 1. apply skipn_app_exact.
  - unfold loop_inv. cbn [s_pos s_buf s_esr s_headers]. split; [rewrite A1; exact Inv2|]. split; [|reflexivity].
    rewrite A1, A4, B2, app_length, L2. intros H. apply Hend2. lia.
  - assert (length (a ++ rest) <= length text)%nat by (rewrite <- Epay; exact Hpl).
    rewrite app_length in H. rewrite Erest, app_length, Hn in H. lia.
  - assert (length (a ++ rest) <= length text)%nat by (rewrite <- Epay; exact Hpl).
    rewrite app_length in H. rewrite Erest, app_length, Hn in H. unfold stream_fuel. lia.
  - exact Hok.
Qed.

(* ---------- the defect class in declarative form ---------- *)

Definition field_eq_dec : forall a b : field, {a = b} + {a <> b} := list_eq_dec N.eq_dec.

(* sufficient for keys_ok: no requested column other than the first is escaped in this row, and an escaped first
   column is requested at most once *)
Lemma keys_ok_sufficient hdr qs : forall (keys : list field) (clean : bool),
  (forall (j : nat) (k : field), In k keys -> nth_error hdr (Datatypes.S j) = Some k -> nth (Datatypes.S j) qs false = false) ->
  (hd false qs = true -> forall k0 : field, nth_error hdr 0%nat = Some k0 ->
     if clean then (count_occ field_eq_dec keys k0 <= 1)%nat else ~ In k0 keys) ->
  keys_ok hdr qs clean keys = true.
Proof.
  induction keys as [|k ks IH]; intros clean C1 C0; [reflexivity|].
  change field with (list N) in *.
  cbn [keys_ok]. destruct (find_header hdr k 0) as [[|j]|] eqn:Ef.
  - apply find_header_nth in Ef. destruct (hd false qs) eqn:Eh.
    + specialize (C0 eq_refl k Ef). destruct clean.
      * cbn [andb]. apply IH.
        -- intros j k' Hin. apply C1. right. exact Hin.
        -- intros _ k0 Hk0. assert (k0 = k) by congruence. subst k0.
           cbn [count_occ] in C0. destruct (field_eq_dec k k); [|congruence].
           intros Hin. apply (count_occ_In field_eq_dec) in Hin. change field with (list N) in *. lia.
      * exfalso. apply C0. left. reflexivity.
    + apply IH; [intros j k' Hin; apply C1; right; exact Hin | intros H; discriminate].
  - apply find_header_nth in Ef. rewrite (C1 j k (or_introl eq_refl) Ef). cbn [negb andb].
    apply IH.
    + intros j' k' Hin. apply C1. right. exact Hin.
    + intros Hh k0 Hk0. specialize (C0 Hh k0 Hk0). destruct clean.
      * cbn [count_occ] in C0. destruct (field_eq_dec k k0); lia.
      * intros Hin. apply C0. right. exact Hin.
  - apply IH.
    + intros j' k' Hin. apply C1. right. exact Hin.
    + intros Hh k0 Hk0. specialize (C0 Hh k0 Hk0). destruct clean.
      * cbn [count_occ] in C0. destruct (field_eq_dec k k0); lia.
      * intros Hin. apply C0. right. exact Hin.
Qed.

(* in particular: nothing escaped in the data rows *)
Lemma keys_ok_bare hdr qs keys : forallb negb qs = true -> keys_ok hdr qs true keys = true.
Proof.
  intros H. assert (Hn : forall j, nth j qs false = false).
  { intros j. destruct (nth_in_or_default j qs false) as [Hin|E]; [|exact E].
    rewrite forallb_forall in H. specialize (H _ Hin). apply negb_true_iff in H. exact H. }
  apply keys_ok_sufficient.
  - intros j k _ _. apply Hn.
  - intros Hh. destruct qs as [|q qs']; [discriminate|]. cbn in Hh. specialize (Hn 0%nat). cbn in Hn. congruence.
Qed.

(* ---------- refutations (chunk size of the library) ---------- *)

(* F23: header a,b and the record 1 , DQUOTE 2 DQUOTE, read as columns a, b *)
Lemma stream_f23_witness :
  csv_load_stream chunk_size 44 [[97]; [98]] [97; 44; 98; 13; 10; 49; 44; 34; 50; 34; 13; 10] = Err ParsingError.
Proof. vm_compute. reflexivity. Qed.

(* F23, silently wrong: header a,b and the record x , DQUOTE a DQUOTE DQUOTE b DQUOTE read as column b gives a DQUOTE *)
Lemma stream_f23_silent_witness :
  csv_load_stream chunk_size 44 [[98]] [97; 44; 98; 13; 10; 120; 44; 34; 97; 34; 34; 98; 34] = Ok [[Some [97; 34]]].
Proof. vm_compute. reflexivity. Qed.

(* F25: header a,b and the record DQUOTE foo DQUOTE , x read as columns a, a *)
Lemma stream_f25_witness :
  csv_load_stream chunk_size 44 [[97]; [97]] [97; 44; 98; 13; 10; 34; 102; 111; 111; 34; 44; 120] = Err ParsingError.
Proof. vm_compute. reflexivity. Qed.

Lemma stream_example :
  csv_load_stream chunk_size 59 [[98]; [97]; [122]]
    [0xEF; 0xBB; 0xBF; 97; 59; 98; 10; 34; 120; 34; 34; 59; 34; 59; 49; 13; 10; 59; 10] =
  Ok [[Some [49]; Some [120; 34; 59]; None]; [Some []; Some []; None]].
Proof. vm_compute. reflexivity. Qed.
