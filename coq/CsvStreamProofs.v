(* CsvStreamProofs.v — the stream reader (CCsvStreamReader) on RFC 4180 renderings.
   Section SRC: over ANY chunk source (state Src, rd = ReadChunk, iend = IsEnd) that delivers a text - stream_rest e
   = what is still to come, esr_inv e = the state is sound - under two laws: rd answers Some non-empty chunk that is a
   prefix of what is to come, or None when nothing is to come and then iend holds (rd_spec); iend implies that
   nothing is to come (iend_spec).  Result csv_load_src_render: the answer depends on the delivered text only.
   Instances: CEncodedStreamReader<char, K> on a UTF-8 source, every K >= 1 (esr_*, csv_load_stream_*: here), an
   arbitrary list of non-empty chunks (CsvChunks.v), hence any of the five encodings (CsvEncodings.v with C13). *)
From BS Require Import Base CsvSpec CsvSpecProofs CsvModel CsvWriterProofs CsvReaderProofs.
From Coq Require Import ZifyBool ZifyN ZifyNat.
Ltac Zify.zify_post_hook ::= Z.div_mod_to_equations.
Local Open Scope N_scope.

(* ---------- the encoded stream reader delivers the text, chunk by chunk ---------- *)

Definition esr_rest (e : esr) : list N := e_pend e ++ e_rest e.
(* eofbit is only ever set by a read that exhausted the source *)
Definition esr_ok (e : esr) : Prop := e_eof e = true -> e_rest e = [].

Lemma is_nil_true {A} (l : list A) : is_nil l = true <-> l = [].
Proof. destruct l; cbn; split; congruence. Qed.

Lemma firstn_nil_inv {A} n (l : list A) : (0 < n)%nat -> firstn n l = [] -> l = [].
Proof. destruct n; [lia|]. destruct l; [reflexivity|discriminate]. Qed.

Lemma esr_read_chunk_spec K e : (0 < K)%nat -> esr_ok e ->
  match esr_read_chunk K e with
  | (Some chunk, e') => chunk <> [] /\ chunk ++ esr_rest e' = esr_rest e /\ True /\ esr_ok e'
  | (None, e') => esr_rest e = [] /\ esr_rest e' = [] /\ esr_is_end e' = true /\ esr_ok e'
  end.
Proof.
  intros HK Inv. unfold esr_read_chunk.
  destruct (esr_is_end e) eqn:Eend.
  - unfold esr_is_end in Eend. apply andb_true_iff in Eend. destruct Eend as [E1 E2].
    apply is_nil_true in E1. unfold esr_rest. rewrite E1, (Inv E2). cbn.
    repeat split; try reflexivity. + unfold esr_is_end. rewrite E1, E2. reflexivity. + exact Inv.
  - unfold esr_fill.
    set (want := (K - length (e_pend e))%nat). set (got := firstn want (e_rest e)).
    cbn [e_pend e_rest e_eof].
    destruct (negb (negb (is_nil got)) && is_nil (e_pend e ++ got)) eqn:Eb.
    + apply andb_true_iff in Eb. destruct Eb as [B1 B2]. rewrite negb_involutive in B1.
      apply is_nil_true in B1. apply is_nil_true in B2. apply app_eq_nil in B2. destruct B2 as [P _].
      assert (Hw : want = K) by (subst want; rewrite P; cbn; lia).
      assert (Hr : e_rest e = []) by (apply (firstn_nil_inv want); [lia | exact B1]).
      unfold esr_rest, esr_is_end, esr_ok. cbn [e_pend e_rest e_eof]. rewrite P, Hr, B1. cbn.
      rewrite skipn_nil. repeat split; try reflexivity.
      destruct want; [lia|]. apply orb_true_r.
    + cbn [e_pend e_rest e_eof]. split.
      * intros Hnil. apply app_eq_nil in Hnil. destruct Hnil as [P G].
        rewrite P, G in Eb. cbn in Eb. discriminate.
      * unfold esr_rest, esr_ok. cbn [e_pend e_rest e_eof app]. split.
        { rewrite <- app_assoc. subst got. rewrite firstn_skipn. reflexivity. }
        split; [exact I|].
        intros He. apply orb_true_iff in He. destruct He as [He|He].
        { rewrite (Inv He). apply skipn_nil. }
        { apply Nat.ltb_lt in He. subst got. apply skipn_all2. rewrite firstn_length in He. lia. }
Qed.

(* ---------- unescaping in place ---------- *)

(* what is left in the buffer behind the decoded value *)
Definition junk (f : field) : list N := skipn (length f) (quoted f).

Lemma esc_length_ge f : (length f <= length (esc f))%nat.
Proof. induction f as [|c f IH]; [cbn; lia|]. rewrite esc_cons, app_length. cbn [length]. destruct (c =? DQ); cbn; lia. Qed.

Lemma quoted_length f : length (quoted f) = S (S (length (esc f))).
Proof. unfold quoted. cbn [length]. rewrite app_length. cbn. lia. Qed.

Lemma junk_length f : length (f ++ junk f) = length (quoted f).
Proof.
  unfold junk. rewrite app_length, skipn_length. pose proof (esc_length_ge f). rewrite quoted_length. lia.
Qed.

Lemma nth_error_mid {A} (pre : list A) x post : nth_error (pre ++ x :: post) (length pre) = Some x.
Proof. rewrite nth_error_app2 by lia. rewrite Nat.sub_diag. reflexivity. Qed.

Lemma s_unescape_quoted pre f post :
  s_unescape (pre ++ quoted f ++ post) (length pre) (length pre + length (quoted f)) =
  Ok (f, pre ++ (f ++ junk f) ++ post).
Proof.
  unfold s_unescape.
  assert (E0 : nth_error (pre ++ quoted f ++ post) (length pre) = Some DQ).
  { unfold quoted. cbn [app]. apply nth_error_mid. }
  rewrite E0, N.eqb_refl. cbn [negb].
  rewrite quoted_length.
  replace (Nat.ltb (length pre + S (S (length (esc f)))) (length pre + 2)) with false by (symmetry; apply Nat.ltb_ge; lia).
  assert (E1 : nth_error (pre ++ quoted f ++ post) (length pre + S (S (length (esc f))) - 1) = Some DQ).
  { unfold quoted. replace (pre ++ (DQ :: esc f ++ [DQ]) ++ post) with ((pre ++ DQ :: esc f) ++ DQ :: post)
      by (rewrite <- !app_assoc; cbn; rewrite <- app_assoc; reflexivity).
    replace (length pre + S (S (length (esc f))) - 1)%nat with (length (pre ++ DQ :: esc f)) by (rewrite app_length; cbn; lia).
    apply nth_error_mid. }
  rewrite E1, N.eqb_refl. cbn [negb].
  assert (E2 : slice (pre ++ quoted f ++ post) (S (length pre)) (length pre + S (S (length (esc f))) - 1 - S (length pre)) = esc f).
  { unfold quoted. replace (pre ++ (DQ :: esc f ++ [DQ]) ++ post) with ((pre ++ [DQ]) ++ esc f ++ (DQ :: post))
      by (rewrite <- !app_assoc; cbn; rewrite <- app_assoc; reflexivity).
    replace (S (length pre)) with (length (pre ++ [DQ])) by (rewrite app_length; cbn; lia).
    replace (length pre + S (S (length (esc f))) - 1 - length (pre ++ [DQ]))%nat with (length (esc f)) by (rewrite app_length; cbn; lia).
    apply slice_mid. }
  rewrite E2, unescape_loop_esc by reflexivity.
  f_equal. f_equal. rewrite firstn_app_exact.
  rewrite skipn_app, skipn_all2 by lia. replace (length pre + length f - length pre)%nat with (length f) by lia.
  cbn [app]. rewrite skipn_app. pose proof (esc_length_ge f). rewrite (proj2 (Nat.sub_0_le _ _)) by (rewrite quoted_length; lia).
  cbn [skipn]. unfold junk. rewrite <- app_assoc. reflexivity.
Qed.

(* ---------- a parsed row in the buffer: cells ---------- *)

(* the window of a field and its meta: either still as rendered, or (escaped field already read once) the decoded
   value followed by what unescaping left behind, described by a meta without quotes *)
Definition cell_ok (q : bool) (f : field) (off : nat) (m : meta) (c : list N) : Prop :=
  (m = mkMeta off (length (rfield q f)) q /\ c = rfield q f) \/
  (q = true /\ m = mkMeta off (length f) false /\ c = f ++ junk f).

Lemma cell_ok_length q f off m c : cell_ok q f off m c -> length c = length (rfield q f).
Proof. intros [[_ ->]|(-> & _ & ->)]; [reflexivity | apply junk_length]. Qed.

Inductive row_cells (sep : N) : nat -> list bool -> record -> list meta -> list N -> Prop :=
| RC_last p q f m c : cell_ok q f p m c -> row_cells sep p [q] [f] [m] c
| RC_cons p q f m c qs r ms txt : cell_ok q f p m c -> r <> [] ->
    row_cells sep (S (p + length c)) qs r ms txt ->
    row_cells sep p (q :: qs) (f :: r) (m :: ms) (c ++ sep :: txt).

Lemma row_cells_initial sep : forall r qs a p, render_record sep qs r = Some a -> row_cells sep p qs r (rec_metas p qs r) a.
Proof.
  induction r as [|f r IH]; intros qs a p H.
  - rewrite render_record_nil in H. discriminate.
  - apply render_record_inv in H.
    destruct H as (q & qs' & -> & Hq & [(-> & -> & ->)|(Hne & b & Hb & ->)]).
    + cbn [rec_metas]. constructor. left. auto.
    + cbn [rec_metas]. constructor; [left; auto | exact Hne | apply IH; exact Hb].
Qed.

Lemma row_cells_length sep : forall p qs r ms txt, row_cells sep p qs r ms txt ->
  forall a, render_record sep qs r = Some a -> length txt = length a /\ length ms = length r.
Proof.
  induction 1 as [p q f m c Hc | p q f m c qs r ms txt Hc Hne Hrc IH]; intros a Ha.
  - cbn in Ha. apply render_field_inv in Ha. destruct Ha as [-> _]. split; [apply (cell_ok_length _ _ _ _ _ Hc) | reflexivity].
  - apply render_record_inv in Ha.
    destruct Ha as (q' & qs' & Eq & Hq & [(-> & _ & _)|(_ & b & Hb & ->)]); [congruence|]. inversion Eq. subst q' qs'.
    destruct (IH b Hb) as [L1 L2]. rewrite !app_length. cbn [length]. rewrite (cell_ok_length _ _ _ _ _ Hc), L1, L2. auto.
Qed.

(* the value step shared by ReadValue() and ReadValue(key): unescape in place and remember, or take the slice *)
Definition read_meta (buf : list N) (ms : list meta) (i : nat) (m : meta) : outcome (list N * list N * list meta) :=
  if m_esc m then
    match s_unescape buf (m_off m) (m_off m + m_size m) with
    | Ok (v, buf') => Ok (v, buf', set_nth i (mkMeta (m_off m) (length v) false) ms)
    | Err e => Err e | Terminate => Terminate | UB => UB | OutOfFuel => OutOfFuel
    end
  else Ok (slice buf (m_off m) (m_size m), buf, ms).

Lemma read_cell_head q f pre m c post ms i : cell_ok q f (length pre) m c ->
  exists c', read_meta (pre ++ c ++ post) ms i m =
               Ok (f, pre ++ c' ++ post, if m_esc m then set_nth i (mkMeta (length pre) (length f) false) ms else ms) /\
             cell_ok q f (length pre) (if m_esc m then mkMeta (length pre) (length f) false else m) c'.
Proof.
  intros [[-> ->]|(-> & -> & ->)]; unfold read_meta; cbn [m_esc m_off m_size].
  - destruct q; cbn [rfield].
    + rewrite s_unescape_quoted. exists (f ++ junk f). split; [reflexivity|]. right. auto.
    + rewrite slice_mid. exists f. split; [reflexivity|]. left. auto.
  - rewrite <- app_assoc. rewrite slice_mid. exists (f ++ junk f). rewrite <- app_assoc. split; [reflexivity|]. right. auto.
Qed.

Lemma read_cell sep : forall p qs r ms txt, row_cells sep p qs r ms txt ->
  forall j f pre post, nth_error r j = Some f -> length pre = p ->
  exists m txt' ms', nth_error ms j = Some m /\
    read_meta (pre ++ txt ++ post) ms j m = Ok (f, pre ++ txt' ++ post, ms') /\
    row_cells sep p qs r ms' txt'.
Proof.
  induction 1 as [p q f0 m c Hc | p q f0 m c qs r ms txt Hc Hne Hrc IH]; intros j f pre post Hj Hp.
  - destruct j as [|j]; [|destruct j; discriminate]. cbn in Hj. inversion Hj. subst f0 p.
    destruct (read_cell_head q f pre m c post [m] 0 Hc) as (c' & E & Hc').
    exists m, c'. eexists. split; [reflexivity|]. split; [exact E|].
    destruct (m_esc m); cbn [set_nth]; constructor; exact Hc'.
  - destruct j as [|j].
    + cbn in Hj. inversion Hj. subst f0 p.
      rewrite <- app_assoc. cbn [app].
      destruct (read_cell_head q f pre m c (sep :: txt ++ post) (m :: ms) 0 Hc) as (c' & E & Hc').
      exists m, (c' ++ sep :: txt). eexists. split; [reflexivity|].
      split; [rewrite <- app_assoc; exact E|].
      pose proof (cell_ok_length _ _ _ _ _ Hc) as L. pose proof (cell_ok_length _ _ _ _ _ Hc') as L'.
      destruct (m_esc m); cbn [set_nth]; constructor; try assumption; rewrite L', <- L; exact Hrc.
    + cbn [nth_error] in Hj. subst p.
      destruct (IH j f (pre ++ c ++ [sep]) post Hj) as (mj & txt' & ms' & Em & E & Hrc').
      { rewrite !app_length. cbn [length]. lia. }
      exists mj, (c ++ sep :: txt'). cbn [nth_error].
      replace ((pre ++ c ++ [sep]) ++ txt ++ post) with (pre ++ (c ++ sep :: txt) ++ post) in E
        by (rewrite <- !app_assoc; reflexivity).
      replace ((pre ++ c ++ [sep]) ++ txt' ++ post) with (pre ++ (c ++ sep :: txt') ++ post) in E
        by (rewrite <- !app_assoc; reflexivity).
      unfold read_meta in *. destruct (m_esc mj).
      * destruct (s_unescape (pre ++ (c ++ sep :: txt) ++ post) (m_off mj) (m_off mj + m_size mj)) as [[v b']| | | |]; try discriminate.
        inversion E. subst. eexists. split; [exact Em|]. split; [reflexivity|].
        cbn [set_nth]. constructor; assumption.
      * inversion E. subst. eexists. split; [exact Em|]. split; [reflexivity|]. constructor; assumption.
Qed.

(* ---------- the CSV reader over any chunk source that delivers a text ---------- *)
Section SRC.
Variable Src : Type.
Variable rd : Src -> option (list N) * Src.
Variable iend : Src -> bool.
(* what the source is still going to deliver, and when a source state is sound *)
Variable stream_rest : Src -> list N.
Variable esr_inv : Src -> Prop.
Hypothesis rd_spec : forall e, esr_inv e ->
  match rd e with
  | (Some chunk, e') => chunk <> [] /\ chunk ++ stream_rest e' = stream_rest e /\ True /\ esr_inv e'
  | (None, e') => stream_rest e = [] /\ stream_rest e' = [] /\ iend e' = true /\ esr_inv e'
  end.
Hypothesis iend_spec : forall e, esr_inv e -> iend e = true -> stream_rest e = [].

(* the scanner as if the whole remaining text were in the buffer is a_scan (CsvReaderProofs.v), which the memory
   reader's parse_line equals *)

Lemma s_scan_refines sep : forall fuel buf todo e pos start dq cr acc,
  esr_inv e -> (pos + length todo = length buf)%nat ->
  (2 * length (stream_rest e) + length todo < fuel)%nat ->
  exists ext e',
    s_scan rd iend fuel sep buf todo e pos start dq cr acc =
      Ok (fst (a_scan sep (todo ++ stream_rest e) pos start dq cr acc), buf ++ ext, e',
          snd (a_scan sep (todo ++ stream_rest e) pos start dq cr acc)) /\
    ext ++ stream_rest e' = stream_rest e /\ esr_inv e' /\
    (snd (a_scan sep (todo ++ stream_rest e) pos start dq cr acc) <= length (buf ++ ext))%nat.
Proof.
  induction fuel as [|fuel IH]; intros buf todo e pos start dq cr acc Inv Hlen Hfuel; [lia|].
  cbn [s_scan]. destruct todo as [|c t].
  - pose proof (rd_spec e Inv) as Hrc.
    destruct (rd e) as [[chunk|] e1].
    + destruct Hrc as (Hne & Hsr & Hp & Inv1).
      destruct (IH (buf ++ chunk) chunk e1 pos start dq cr acc Inv1) as (ext & e' & E & Hsr' & Inv' & Hpos').
      { rewrite app_length. cbn in Hlen. lia. }
      { rewrite <- Hsr, app_length in Hfuel. destruct chunk; [congruence|]. cbn in *. lia. }
      exists (chunk ++ ext), e'. cbn [app]. rewrite <- Hsr. rewrite E. rewrite <- !app_assoc.
      split; [reflexivity|]. split; [rewrite Hsr'; reflexivity|]. split; [exact Inv'|].
      rewrite <- app_assoc in Hpos'. exact Hpos'.
    + destruct Hrc as (Hsr & Hsr1 & Hend1 & Inv1).
      exists [], e1. cbn [app]. rewrite Hsr, app_nil_r. cbn [a_scan fst snd].
      cbn [length] in Hlen. replace (length buf) with pos by lia.
      split; [reflexivity|].
      split; [rewrite Hsr1; reflexivity|]. split; [exact Inv1|]. lia.
  - cbn [app a_scan]. cbn [length] in Hlen, Hfuel.
    destruct (c =? DQ).
    { destruct (IH buf t e (S pos) start (S dq) cr acc Inv) as (ext & e' & E & R); [lia|lia|]. exists ext, e'. rewrite E. split; [reflexivity | exact R]. }
    destruct ((c =? sep) && Nat.even dq).
    { destruct (IH buf t e (S pos) (S pos) 0%nat None (mk_value start pos dq :: acc) Inv) as (ext & e' & E & R); [lia|lia|].
      exists ext, e'. rewrite E. split; [reflexivity | exact R]. }
    destruct (c =? CR).
    { destruct (IH buf t e (S pos) start dq (Some pos) acc Inv) as (ext & e' & E & R); [lia|lia|]. exists ext, e'. rewrite E. split; [reflexivity | exact R]. }
    destruct ((c =? LF) && Nat.even dq).
    { exists [], e. rewrite app_nil_r. cbn [fst snd]. split; [reflexivity|]. split; [reflexivity|]. split; [exact Inv|]. lia. }
    destruct (is_nil t && iend e) eqn:Elast.
    { apply andb_true_iff in Elast. destruct Elast as [L1 L2]. apply is_nil_true in L1. subst t.
      assert (Hsr : stream_rest e = []) by (apply iend_spec; assumption).
      exists [], e. rewrite Hsr, !app_nil_r. cbn [app a_scan fst snd].
      cbn [length] in Hlen. replace (length buf) with (S pos) by lia.
      split; [reflexivity|]. split; [reflexivity|]. split; [exact Inv|]. lia. }
    destruct (IH buf t e (S pos) start dq cr acc Inv) as (ext & e' & E & R); [lia|lia|]. exists ext, e'. rewrite E. split; [reflexivity | exact R].
Qed.

(* ---------- ParseNextLine on a rendered record ---------- *)

(* the text the reader has not consumed yet *)
Definition remaining (s : sreader Src) : list N := skipn (s_pos s) (s_buf s) ++ stream_rest (s_esr s).

Lemma esr_not_end e : esr_inv e -> stream_rest e <> [] -> iend e = false.
Proof.
  intros Inv H. destruct (iend e) eqn:Ee; [|reflexivity]. exfalso. apply H. apply iend_spec; assumption.
Qed.

Lemma s_not_end s : esr_inv (s_esr s) -> remaining s <> [] -> s_is_end iend s = false.
Proof.
  intros Inv H. unfold s_is_end. destruct (Nat.leb (length (s_buf s)) (s_pos s)) eqn:L; [|reflexivity].
  apply Nat.leb_le in L. unfold remaining in H. rewrite skipn_all2 in H by exact L. cbn in H.
  rewrite (esr_not_end _ Inv H). reflexivity.
Qed.

Lemma app_prefix {A} (X Y P R : list A) : X ++ Y = P ++ R -> (length P <= length X)%nat ->
  exists Q, X = P ++ Q /\ R = Q ++ Y.
Proof.
  revert P. induction X as [|x X IH]; intros P H L.
  - destruct P; [|cbn in L; lia]. exists []. cbn in *. auto.
  - destruct P as [|p P].
    + exists (x :: X). cbn in *. auto.
    + cbn in *. inversion H. subst. destruct (IH P H2) as (Q & -> & ->); [lia|]. exists Q. auto.
Qed.

Definition s_line_result (s : sreader Src) (buf2 : list N) (e2 : Src) (metas : list meta) (pos1 : nat) : sreader Src :=
  mkS buf2 e2 (s_headers s) metas pos1 (S (s_line s)) (s_rowidx s) (s_validx s) (length (s_metas s)).

Lemma s_parse_next_line_record sep : sane_sep sep -> forall s a rest n qs rec fuel,
  esr_inv (s_esr s) -> remaining s = a ++ rest -> render_record sep qs rec = Some a -> line_rest rest n ->
  a ++ rest <> [] -> (2 * length (remaining s) + 1 < fuel)%nat ->
  exists post e2,
    s_parse_next_line rd iend fuel sep s = Ok (true, s_line_result s (a ++ post) e2 (rec_metas 0 qs rec) (length a + n)) /\
    post ++ stream_rest e2 = rest /\ esr_inv e2 /\ (n <= length post)%nat /\
    ((length post <= n)%nat -> iend e2 = true).
Proof.
  intros S s a rest n qs rec fuel Inv Hrem Hrec LR Hne Hfuel.
  unfold s_parse_next_line. rewrite (s_not_end s Inv) by (rewrite Hrem; exact Hne).
  set (buf0 := skipn (s_pos s) (s_buf s)) in *.
  destruct (s_scan_refines sep fuel buf0 buf0 (s_esr s) 0 0 0 None [] Inv) as (ext & e1 & E & Hsr & Inv1 & Hpos).
  { reflexivity. }
  { unfold remaining in Hfuel. fold buf0 in Hfuel. rewrite app_length in Hfuel. lia. }
  unfold remaining in Hrem. fold buf0 in Hrem. rewrite Hrem in E, Hpos.
  rewrite (as_record sep S rec qs a rest n 0 [] Hrec LR) in E, Hpos. cbn [fst snd Nat.add] in E, Hpos.
  rewrite E. rewrite app_nil_r, rev_involutive.
  (* the buffer after the scan holds the record and its line break *)
  assert (Hall : (buf0 ++ ext) ++ stream_rest e1 = a ++ rest).
  { rewrite <- app_assoc, Hsr. exact Hrem. }
  assert (Hla : (length a <= length (buf0 ++ ext))%nat) by lia.
  destruct (app_prefix _ _ _ _ Hall Hla) as (post1 & Ebuf & Erest).
  rewrite Ebuf in *. rewrite app_length in Hpos.
  destruct (Nat.eqb (length a + n) (length (a ++ post1))) eqn:Eq.
  - apply Nat.eqb_eq in Eq. rewrite app_length in Eq.
    pose proof (rd_spec e1 Inv1) as Hrc.
    destruct (rd e1) as [[chunk|] e2].
    + destruct Hrc as (Hcne & Hsr2 & _ & Inv2).
      exists (post1 ++ chunk), e2. rewrite <- app_assoc.
      split; [reflexivity|]. split; [rewrite <- app_assoc, Hsr2; symmetry; exact Erest|]. split; [exact Inv2|].
      rewrite app_length. split; [lia|]. destruct chunk; [congruence|]. cbn. lia.
    + destruct Hrc as (Hsr1 & Hsr2 & Hend2 & Inv2).
      exists post1, e2. split; [reflexivity|]. split; [rewrite Hsr2; rewrite Hsr1 in Erest; symmetry; exact Erest|].
      split; [exact Inv2|]. split; [lia|]. intros _. exact Hend2.
  - apply Nat.eqb_neq in Eq. rewrite app_length in Eq.
    exists post1, e1. split; [reflexivity|]. split; [symmetry; exact Erest|]. split; [exact Inv1|]. split; [lia|]. lia.
Qed.

(* the reader state apart from buffer, metas and column cursor *)
Definition s_same (s s' : sreader Src) : Prop :=
  s_esr s' = s_esr s /\ s_headers s' = s_headers s /\ s_pos s' = s_pos s /\
  s_line s' = s_line s /\ s_rowidx s' = s_rowidx s /\ s_prev s' = s_prev s.

Lemma s_same_refl s : s_same s s.
Proof. unfold s_same. repeat split; reflexivity. Qed.

Lemma s_same_trans s1 s2 s3 : s_same s1 s2 -> s_same s2 s3 -> s_same s1 s3.
Proof. unfold s_same. intros (A1&A2&A3&A4&A5&A6) (B1&B2&B3&B4&B5&B6). repeat split; congruence. Qed.

(* ReadValue() and ReadValue(key) through read_meta *)
Lemma s_read_next_meta (s : sreader Src) m : nth_error (s_metas s) (s_validx s) = Some m ->
  s_read_next s =
    match read_meta (s_buf s) (s_metas s) (s_validx s) m with
    | Ok (v, buf', ms') => Ok (v, mkS buf' (s_esr s) (s_headers s) ms' (s_pos s) (s_line s) (s_rowidx s) (S (s_validx s)) (s_prev s))
    | Err e => Err e | Terminate => Terminate | UB => UB | OutOfFuel => OutOfFuel
    end.
Proof.
  intros Hm. unfold s_read_next, read_meta. rewrite Hm. destruct (m_esc m); [|reflexivity].
  destruct (s_unescape (s_buf s) (m_off m) (m_off m + m_size m)) as [[v b']| | | |]; reflexivity.
Qed.

Lemma s_read_key_meta (s : sreader Src) k idx m : select_column (s_headers s) (s_validx s) k = (idx, true) ->
  nth_error (s_metas s) idx = Some m ->
  s_read_key true s k =
    match read_meta (s_buf s) (s_metas s) idx m with
    | Ok (v, buf', ms') => Ok (Some v, mkS buf' (s_esr s) (s_headers s) ms' (s_pos s) (s_line s) (s_rowidx s) idx (s_prev s))
    | Err e => Err e | Terminate => Terminate | UB => UB | OutOfFuel => OutOfFuel
    end.
Proof.
  intros Hs Hm. unfold s_read_key, read_meta. cbn [negb]. rewrite Hs. cbn [negb]. rewrite Hm. destruct (m_esc m); [|reflexivity].
  destruct (s_unescape (s_buf s) (m_off m) (m_off m + m_size m)) as [[v b']| | | |]; reflexivity.
Qed.

(* ---------- the constructor: header names are read by index, one after the other ---------- *)

Lemma s_read_headers_spec sep qs (r : record) post : forall n s acc txt,
  row_cells sep 0 qs r (s_metas s) txt -> s_buf s = txt ++ post -> (n + s_validx s = length r)%nat ->
  exists s' txt', s_read_headers n s acc = Ok (acc ++ skipn (s_validx s) r, s') /\
    row_cells sep 0 qs r (s_metas s') txt' /\ s_buf s' = txt' ++ post /\ s_same s s'.
Proof.
  induction n as [|n IH]; intros s acc txt RC Hb Hn.
  - exists s, txt. cbn [s_read_headers]. rewrite skipn_all2 by (cbn in Hn; lia). rewrite app_nil_r.
    split; [reflexivity|]. split; [exact RC|]. split; [exact Hb | apply s_same_refl].
  - cbn [s_read_headers].
    destruct (nth_error r (s_validx s)) as [f|] eqn:Ef; [|apply nth_error_None in Ef; lia].
    destruct (read_cell sep 0 qs r (s_metas s) txt RC (s_validx s) f [] post Ef eq_refl) as (m & txt' & ms' & Em & E & RC').
    cbn [app] in E. rewrite <- Hb in E.
    rewrite (s_read_next_meta s m Em), E.
    match goal with |- context [s_read_headers n ?ss _] => set (s1 := ss) end.
    destruct (IH s1 (acc ++ [f]) txt') as (s2 & txt2 & E2 & RC2 & B2 & S2).
    { subst s1. cbn [s_metas]. exact RC'. } { subst s1. reflexivity. } { subst s1. cbn [s_validx]. lia. }
    exists s2, txt2. subst s1. cbn [s_validx] in E2. rewrite (skipn_nth r _ _ Ef), <- app_assoc in *.
    split; [exact E2|]. split; [exact RC2|]. split; [exact B2|].
    eapply s_same_trans; [|exact S2]. unfold s_same. cbn. repeat split; reflexivity.
Qed.

(* ---------- a data row read by name ---------- *)

Lemma s_read_key_gen sep qs (rec : record) post s txt k :
  length rec = length (s_headers s) ->
  row_cells sep 0 qs rec (s_metas s) txt -> s_buf s = txt ++ post ->
  exists s' txt',
    s_read_key true s k =
      Ok ((if snd (select_column (s_headers s) (s_validx s) k)
           then nth_error rec (fst (select_column (s_headers s) (s_validx s) k)) else None), s') /\
    row_cells sep 0 qs rec (s_metas s') txt' /\ s_buf s' = txt' ++ post /\ s_same s s' /\
    s_validx s' = fst (select_column (s_headers s) (s_validx s) k).
Proof.
  intros Hl RC Hb.
  destruct (select_column (s_headers s) (s_validx s) k) as [idx found] eqn:Es. cbn [fst snd].
  destruct found.
  - pose proof (select_column_lt _ _ _ _ Es) as Hlt.
    destruct (nth_error rec idx) as [f|] eqn:Er; [|apply nth_error_None in Er; lia].
    destruct (read_cell sep 0 qs rec (s_metas s) txt RC idx f [] post Er eq_refl) as (m & txt' & ms' & Em & E & RC').
    cbn [app] in E. rewrite <- Hb in E.
    rewrite (s_read_key_meta s k idx m Es Em), E.
    eexists. exists txt'. split; [reflexivity|]. cbn [s_metas s_buf s_validx]. split; [exact RC'|]. split; [reflexivity|].
    split; [unfold s_same; cbn; repeat split; reflexivity | reflexivity].
  - unfold s_read_key. cbn [negb]. rewrite Es. cbn [negb].
    eexists. exists txt. split; [reflexivity|]. cbn [s_with s_metas s_buf s_validx]. split; [exact RC|]. split; [exact Hb|].
    split; [unfold s_same; cbn; repeat split; reflexivity | reflexivity].
Qed.

Lemma s_read_keys_gen sep qs (rec : record) post :
  forall keys s acc txt, length rec = length (s_headers s) ->
  row_cells sep 0 qs rec (s_metas s) txt -> s_buf s = txt ++ post ->
  exists s' txt', s_read_keys s keys acc = Ok (acc ++ read_spec (s_headers s) rec keys (s_validx s), s') /\
    row_cells sep 0 qs rec (s_metas s') txt' /\ s_buf s' = txt' ++ post /\ s_same s s'.
Proof.
  induction keys as [|k ks IH]; intros s acc txt Hl RC Hb.
  - exists s, txt. cbn. rewrite app_nil_r. split; [reflexivity|]. split; [exact RC|]. split; [exact Hb | apply s_same_refl].
  - cbn [s_read_keys read_spec].
    destruct (s_read_key_gen sep qs rec post s txt k Hl RC Hb) as (s1 & txt1 & E1 & RC1 & B1 & S1 & V1).
    rewrite E1. cbv beta iota.
    destruct (select_column (s_headers s) (s_validx s) k) as [idx found] eqn:Es. cbn [fst snd] in *.
    pose proof S1 as (_ & A2 & _).
    destruct (IH s1 (acc ++ [if found then nth_error rec idx else None]) txt1) as (s2 & txt2 & E2 & RC2 & B2 & S2); try assumption.
    { rewrite A2. exact Hl. }
    exists s2, txt2. rewrite A2, V1, <- app_assoc in E2. split; [exact E2|]. split; [exact RC2|]. split; [exact B2|].
    eapply s_same_trans; eassumption.
Qed.

(* ---------- the load loop ---------- *)

Definition loop_inv (hdr : record) (s : sreader Src) : Prop :=
  esr_inv (s_esr s) /\ ((length (s_buf s) <= s_pos s)%nat -> iend (s_esr s) = true) /\ s_headers s = hdr.

Lemma skipn_nil_length {A} (l : list A) n : skipn n l = [] -> (length l <= n)%nat.
Proof. intros H. pose proof (skipn_length n l) as L. rewrite H in L. cbn in L. lia. Qed.

Lemma skipn_past {A} (X Y : list A) n : skipn (length X + n) (X ++ Y) = skipn n Y.
Proof. rewrite skipn_app, skipn_all2 by lia. cbn. f_equal. lia. Qed.

Lemma skipn_app_le {A} (X Y : list A) n : (n <= length X)%nat -> skipn n X ++ Y = skipn n (X ++ Y).
Proof. intros H. rewrite skipn_app. replace (n - length X)%nat with 0%nat by lia. reflexivity. Qed.

Lemma s_load_rows_spec sep keys hdr : sane_sep sep ->
  forall t chs final body fuel fl s acc,
  ((t = [] /\ body = []) \/ render sep chs final t = Some body) ->
  remaining s = body -> loop_inv hdr s ->
  (length body < fuel)%nat -> (2 * length body + 1 < fl)%nat ->
  s_load_rows rd iend fuel fl sep keys s acc =
    if widths_ok hdr t then Ok (acc ++ read_rows hdr keys t) else Err ParsingError.
Proof.
  intros S. induction t as [|rec t IH]; intros chs final body fuel fl s acc Hb Hrem (Inv & Hend & Hhdr) Hfuel Hfl.
  - destruct Hb as [[_ ->]|Hb]; [|rewrite render_nil in Hb; discriminate].
    destruct fuel as [|fuel]; [lia|]. cbn [s_load_rows].
    unfold remaining in Hrem. apply app_eq_nil in Hrem. destruct Hrem as [R1 R2].
    apply skipn_nil_length in R1. unfold s_is_end. rewrite (proj2 (Nat.leb_le _ _) R1), (Hend R1).
    cbn. rewrite app_nil_r. reflexivity.
  - destruct Hb as [[Hb _]|Hb]; [discriminate|].
    pose proof (render_nonempty _ _ _ _ _ Hb) as Hbne.
    destruct (render_shape _ _ _ _ _ _ Hb) as (ch & chs' & a & rest & n & tail & -> & Ha & -> & LR & Hprog & Erest & Hn & Htail).
    destruct fuel as [|fuel]; [lia|]. cbn [s_load_rows].
    rewrite (s_not_end s Inv) by (rewrite Hrem; exact Hbne).
    unfold s_parse_next_row.
    destruct (s_parse_next_line_record sep S s a rest n (ch_quotes ch) rec fl Inv Hrem Ha LR Hbne)
      as (post1 & e2 & E & Hpost & Inv2 & Hnle & Hend2).
    { rewrite Hrem. exact Hfl. }
    rewrite E. unfold s_line_result.
    cbn [s_headers s_metas s_line s_prev s_buf s_esr s_pos s_rowidx andb negb].
    rewrite (rec_metas_length sep rec _ a _ Ha), Hhdr.
    unfold widths_ok. cbn [forallb]. fold (widths_ok hdr t). change (@length field) with (@length (list N)) in *.
    rewrite (Nat.eqb_sym (@length (list N) rec) (@length (list N) hdr)).
    destruct (Nat.eqb (@length (list N) hdr) (@length (list N) rec)) eqn:Ew; cbn [negb andb]; [|reflexivity].
    apply Nat.eqb_eq in Ew.
    match goal with |- context [s_read_keys ?ss keys []] => set (s1 := ss) end.
    destruct (s_read_keys_gen sep (ch_quotes ch) rec post1 keys s1 [] a)
      as (s2 & txt2 & E2 & RC2 & B2 & (A1&A2&A3&A4&A5&A6)).
    { subst s1. cbn [s_headers]. symmetry. exact Ew. }
    { subst s1. cbn [s_metas]. apply row_cells_initial. exact Ha. }
    { subst s1. reflexivity. }
    rewrite E2. cbv beta iota. subst s1. cbn [s_esr s_headers s_metas s_pos s_line s_rowidx s_prev s_validx app] in *.
    destruct (row_cells_length sep _ _ _ _ _ RC2 a Ha) as [El2 _].
    etransitivity.
    { apply (IH chs' final tail fuel fl s2 (acc ++ [read_spec hdr rec keys 0])).
      + exact Htail.
      + unfold remaining. rewrite A1, A3, B2, <- El2, skipn_past.
        rewrite skipn_app_le by exact Hnle. rewrite Hpost. rewrite Erest at 1.
        rewrite <- Hn at 1. apply skipn_app_exact.
      + split; [rewrite A1; exact Inv2|]. split; [|rewrite A2; reflexivity].
        rewrite A1, A3, B2, app_length, El2. intros H. apply Hend2. lia.
      + rewrite app_length in Hfuel. rewrite Erest, app_length, Hn in Hfuel. lia.
      + rewrite app_length in Hfl. rewrite Erest, app_length, Hn in Hfl. lia. }
    destruct (widths_ok hdr t); [|reflexivity].
    unfold read_rows. cbn [map]. rewrite <- app_assoc. reflexivity.
Qed.


(* LoadObject over a sound source that delivers a rendering: the rows, or ParsingError when a record's width differs *)
Theorem csv_load_src_render sep chs final hdr rows payload keys e0 n : allowed sep ->
  esr_inv e0 -> stream_rest e0 = payload -> (length payload <= n)%nat ->
  render sep chs final (hdr :: rows) = Some payload ->
  csv_load_src rd iend n sep keys e0 = load_expect hdr keys rows.
Proof.
  intros A Inv0 Hsr Hpl R. pose proof (allowed_sane sep A) as S.
  unfold csv_load_src. rewrite (allowed_validate sep A). cbn [negb].
  pose proof (render_nonempty _ _ _ _ _ R) as Hne.
  destruct (render_shape _ _ _ _ _ _ R) as (ch & chs' & a & rest & n0 & tail & -> & Ha & Epay & LR & Hprog & Erest & Hn & Htail).
  unfold s_new.
  set (s0 := mkS [] e0 [] [] 0 0 0 0 0).
  assert (Hrem0 : remaining s0 = a ++ rest).
  { unfold remaining, s0. cbn [s_pos s_buf s_esr skipn app]. rewrite Hsr. exact Epay. }
  destruct (s_parse_next_line_record sep S s0 a rest n0 (ch_quotes ch) hdr (2 * n + 4)%nat Inv0 Hrem0 Ha LR)
    as (post1 & e2 & E1 & Hpost & Inv2 & Hnle & Hend2).
  { rewrite <- Epay. exact Hne. }
  { rewrite Hrem0, <- Epay. lia. }
  rewrite E1. unfold s_line_result, s0. cbn [s_headers s_metas s_line s_rowidx s_validx length].
  match goal with |- context [s_read_headers _ ?ss []] => set (s1 := ss) end.
  destruct (s_read_headers_spec sep (ch_quotes ch) hdr post1 (length (rec_metas 0 (ch_quotes ch) hdr)) s1 [] a)
    as (s2 & txt2 & E2 & RC2 & B2 & (A1&A2&A3&A4&A5&A6)).
  { subst s1. cbn [s_metas]. apply row_cells_initial. exact Ha. }
  { subst s1. reflexivity. }
  { subst s1. cbn [s_metas s_validx]. rewrite (rec_metas_length sep hdr _ a 0 Ha). lia. }
  rewrite E2. cbv beta iota. subst s1. cbn [s_esr s_headers s_metas s_pos s_line s_rowidx s_prev s_validx skipn app] in *.
  destruct (row_cells_length sep _ _ _ _ _ RC2 a Ha) as [El2 _].
  unfold load_expect.
  apply (s_load_rows_spec sep keys hdr S rows chs' final tail).
  - exact Htail.
  - unfold remaining. cbn [s_pos s_buf s_esr]. rewrite A1, A3, B2, <- El2, skipn_past.
    rewrite skipn_app_le by exact Hnle. rewrite Hpost. rewrite Erest at 1. rewrite <- Hn at 1. apply skipn_app_exact.
  - unfold loop_inv. cbn [s_pos s_buf s_esr s_headers]. split; [rewrite A1; exact Inv2|]. split; [|reflexivity].
    rewrite A1, A3, B2, app_length, El2. intros H. apply Hend2. lia.
  - assert (length (a ++ rest) <= n)%nat by (rewrite <- Epay; exact Hpl).
    rewrite app_length in H. rewrite Erest, app_length, Hn in H. lia.
  - assert (length (a ++ rest) <= n)%nat by (rewrite <- Epay; exact Hpl).
    rewrite app_length in H. rewrite Erest, app_length, Hn in H. lia.
Qed.

(* ---------- a request program per row (C03) ---------- *)
Lemma s_load_hist_spec sep hdr : sane_sep sep ->
  forall t progs chs final body fuel fl s acc,
  ((t = [] /\ body = []) \/ render sep chs final t = Some body) ->
  remaining s = body -> loop_inv hdr s ->
  (length body < fuel)%nat -> (2 * length body + 1 < fl)%nat ->
  s_load_hist rd iend fuel fl sep progs s acc =
    if widths_ok hdr t then Ok (acc ++ hist_rows hdr progs t) else Err ParsingError.
Proof.
  intros S. induction t as [|rec t IH]; intros progs chs final body fuel fl s acc Hb Hrem (Inv & Hend & Hhdr) Hfuel Hfl.
  - destruct Hb as [[_ ->]|Hb]; [|rewrite render_nil in Hb; discriminate].
    destruct fuel as [|fuel]; [lia|]. cbn [s_load_hist].
    unfold remaining in Hrem. apply app_eq_nil in Hrem. destruct Hrem as [R1 R2].
    apply skipn_nil_length in R1. unfold s_is_end. rewrite (proj2 (Nat.leb_le _ _) R1), (Hend R1).
    cbn. rewrite app_nil_r. reflexivity.
  - destruct Hb as [[Hb _]|Hb]; [discriminate|].
    pose proof (render_nonempty _ _ _ _ _ Hb) as Hbne.
    destruct (render_shape _ _ _ _ _ _ Hb) as (ch & chs' & a & rest & n & tail & -> & Ha & -> & LR & Hprog & Erest & Hn & Htail).
    destruct fuel as [|fuel]; [lia|]. cbn [s_load_hist].
    rewrite (s_not_end s Inv) by (rewrite Hrem; exact Hbne).
    unfold s_parse_next_row.
    destruct (s_parse_next_line_record sep S s a rest n (ch_quotes ch) rec fl Inv Hrem Ha LR Hbne)
      as (post1 & e2 & E & Hpost & Inv2 & Hnle & Hend2).
    { rewrite Hrem. exact Hfl. }
    rewrite E. unfold s_line_result.
    cbn [s_headers s_metas s_line s_prev s_buf s_esr s_pos s_rowidx andb negb].
    rewrite (rec_metas_length sep rec _ a _ Ha), Hhdr.
    unfold widths_ok. cbn [forallb]. fold (widths_ok hdr t). change (@length field) with (@length (list N)) in *.
    rewrite (Nat.eqb_sym (@length (list N) rec) (@length (list N) hdr)).
    destruct (Nat.eqb (@length (list N) hdr) (@length (list N) rec)) eqn:Ew; cbn [negb andb]; [|reflexivity].
    apply Nat.eqb_eq in Ew.
    match goal with |- context [s_read_keys ?ss _ []] => set (s1 := ss) end.
    destruct (s_read_keys_gen sep (ch_quotes ch) rec post1 (hd [] progs) s1 [] a)
      as (s2 & txt2 & E2 & RC2 & B2 & (A1&A2&A3&A4&A5&A6)).
    { subst s1. cbn [s_headers]. symmetry. exact Ew. }
    { subst s1. cbn [s_metas]. apply row_cells_initial. exact Ha. }
    { subst s1. reflexivity. }
    rewrite E2. cbv beta iota. subst s1. cbn [s_esr s_headers s_metas s_pos s_line s_rowidx s_prev s_validx app] in *.
    destruct (row_cells_length sep _ _ _ _ _ RC2 a Ha) as [El2 _].
    etransitivity.
    { apply (IH (tl progs) chs' final tail fuel fl s2 (acc ++ [read_spec hdr rec (hd [] progs) 0])).
      + exact Htail.
      + unfold remaining. rewrite A1, A3, B2, <- El2, skipn_past.
        rewrite skipn_app_le by exact Hnle. rewrite Hpost. rewrite Erest at 1.
        rewrite <- Hn at 1. apply skipn_app_exact.
      + split; [rewrite A1; exact Inv2|]. split; [|rewrite A2; reflexivity].
        rewrite A1, A3, B2, app_length, El2. intros H. apply Hend2. lia.
      + rewrite app_length in Hfuel. rewrite Erest, app_length, Hn in Hfuel. lia.
      + rewrite app_length in Hfl. rewrite Erest, app_length, Hn in Hfl. lia. }
    destruct (widths_ok hdr t); [|reflexivity].
    cbn [hist_rows]. rewrite <- app_assoc. reflexivity.
Qed.

Theorem csv_load_src_hist_render sep chs final hdr rows payload progs e0 n : allowed sep ->
  esr_inv e0 -> stream_rest e0 = payload -> (length payload <= n)%nat ->
  render sep chs final (hdr :: rows) = Some payload ->
  csv_load_src_hist rd iend n sep progs e0 = hist_expect hdr progs rows.
Proof.
  intros A Inv0 Hsr Hpl R. pose proof (allowed_sane sep A) as S.
  unfold csv_load_src_hist. rewrite (allowed_validate sep A). cbn [negb].
  pose proof (render_nonempty _ _ _ _ _ R) as Hne.
  destruct (render_shape _ _ _ _ _ _ R) as (ch & chs' & a & rest & n0 & tail & -> & Ha & Epay & LR & Hprog & Erest & Hn & Htail).
  unfold s_new.
  set (s0 := mkS [] e0 [] [] 0 0 0 0 0).
  assert (Hrem0 : remaining s0 = a ++ rest).
  { unfold remaining, s0. cbn [s_pos s_buf s_esr skipn app]. rewrite Hsr. exact Epay. }
  destruct (s_parse_next_line_record sep S s0 a rest n0 (ch_quotes ch) hdr (2 * n + 4)%nat Inv0 Hrem0 Ha LR)
    as (post1 & e2 & E1 & Hpost & Inv2 & Hnle & Hend2).
  { rewrite <- Epay. exact Hne. }
  { rewrite Hrem0, <- Epay. lia. }
  rewrite E1. unfold s_line_result, s0. cbn [s_headers s_metas s_line s_rowidx s_validx length].
  match goal with |- context [s_read_headers _ ?ss []] => set (s1 := ss) end.
  destruct (s_read_headers_spec sep (ch_quotes ch) hdr post1 (length (rec_metas 0 (ch_quotes ch) hdr)) s1 [] a)
    as (s2 & txt2 & E2 & RC2 & B2 & (A1&A2&A3&A4&A5&A6)).
  { subst s1. cbn [s_metas]. apply row_cells_initial. exact Ha. }
  { subst s1. reflexivity. }
  { subst s1. cbn [s_metas s_validx]. rewrite (rec_metas_length sep hdr _ a 0 Ha). lia. }
  rewrite E2. cbv beta iota. subst s1. cbn [s_esr s_headers s_metas s_pos s_line s_rowidx s_prev s_validx skipn app] in *.
  destruct (row_cells_length sep _ _ _ _ _ RC2 a Ha) as [El2 _].
  unfold hist_expect.
  apply (s_load_hist_spec sep hdr S rows progs chs' final tail).
  - exact Htail.
  - unfold remaining. cbn [s_pos s_buf s_esr]. rewrite A1, A3, B2, <- El2, skipn_past.
    rewrite skipn_app_le by exact Hnle. rewrite Hpost. rewrite Erest at 1. rewrite <- Hn at 1. apply skipn_app_exact.
  - unfold loop_inv. cbn [s_pos s_buf s_esr s_headers]. split; [rewrite A1; exact Inv2|]. split; [|reflexivity].
    rewrite A1, A3, B2, app_length, El2. intros H. apply Hend2. lia.
  - assert (length (a ++ rest) <= n)%nat by (rewrite <- Epay; exact Hpl).
    rewrite app_length in H. rewrite Erest, app_length, Hn in H. lia.
  - assert (length (a ++ rest) <= n)%nat by (rewrite <- Epay; exact Hpl).
    rewrite app_length in H. rewrite Erest, app_length, Hn in H. lia.
Qed.
End SRC.

Arguments remaining {Src} stream_rest s.
Arguments s_same {Src} s s'.
Arguments s_same_refl {Src} s.
Arguments s_same_trans {Src} s1 s2 s3.
Arguments s_read_next_meta {Src} s m.
Arguments s_read_key_meta {Src} s k idx m.
Arguments s_scan_refines {Src} rd iend stream_rest esr_inv rd_spec iend_spec sep.
Arguments csv_load_src_render {Src} rd iend stream_rest esr_inv rd_spec iend_spec.
Arguments csv_load_src_hist_render {Src} rd iend stream_rest esr_inv rd_spec iend_spec.

(* ---------- constructor and LoadObject from a stream ---------- *)

(* what the stream reader hands to the CSV scanner: the text minus a UTF-8 byte order mark found in the first chunk *)
Definition stream_payload (K : nat) (text : list N) : list N :=
  if starts_with_bom (firstn K text) then skipn 3 text else text.

Lemma starts_with_bom_length l : starts_with_bom l = true -> (3 <= length l)%nat.
Proof. destruct l as [|a [|b [|c l]]]; cbn; try discriminate. lia. Qed.

Lemma esr_new_spec K text : (0 < K)%nat ->
  esr_rest (esr_new K text) = stream_payload K text /\ esr_ok (esr_new K text).
Proof.
  intros HK. unfold esr_new, esr_fill, stream_payload. cbn [e_pend e_rest e_eof length app]. rewrite Nat.sub_0_r.
  assert (Inv0 : Nat.ltb (length (firstn K text)) K = true -> skipn K text = []).
  { intros H. apply Nat.ltb_lt in H. rewrite firstn_length in H. apply skipn_all2. lia. }
  destruct (negb (is_nil (firstn K text)) && starts_with_bom (firstn K text)) eqn:Eb.
  - apply andb_true_iff in Eb. destruct Eb as [_ Eb]. rewrite Eb.
    unfold esr_rest, esr_ok. cbn [e_pend e_rest e_eof]. split; [|exact Inv0].
    apply starts_with_bom_length in Eb. rewrite skipn_app_le by exact Eb. rewrite firstn_skipn. reflexivity.
  - unfold esr_rest, esr_ok. cbn [e_pend e_rest e_eof]. split; [|exact Inv0].
    rewrite firstn_skipn.
    destruct (starts_with_bom (firstn K text)) eqn:Es; [|reflexivity].
    rewrite andb_true_r in Eb. apply negb_false_iff in Eb. apply is_nil_true in Eb. rewrite Eb in Es. discriminate.
Qed.

Lemma esr_iend_spec e : esr_ok e -> esr_is_end e = true -> esr_rest e = [].
Proof.
  intros Inv H. unfold esr_is_end in H. apply andb_true_iff in H. destruct H as [H1 H2]. apply is_nil_true in H1.
  unfold esr_rest. rewrite H1, (Inv H2). reflexivity.
Qed.

Lemma stream_payload_length K text : (length (stream_payload K text) <= length text)%nat.
Proof. unfold stream_payload. destruct (starts_with_bom (firstn K text)); [rewrite skipn_length; lia | lia]. Qed.

(* for every chunk size: whatever rendering the stream carries, the stream reader answers exactly as specified *)
Theorem csv_load_stream_render K sep chs final hdr rows text keys : (0 < K)%nat -> allowed sep ->
  render sep chs final (hdr :: rows) = Some (stream_payload K text) ->
  csv_load_stream K sep keys text = load_expect hdr keys rows.
Proof.
  intros HK A R. destruct (esr_new_spec K text HK) as [Hsr Inv0]. unfold csv_load_stream.
  apply (csv_load_src_render (esr_read_chunk K) esr_is_end esr_rest esr_ok
           (fun e Inv => esr_read_chunk_spec K e HK Inv) esr_iend_spec sep chs final hdr rows (stream_payload K text));
    try assumption. apply stream_payload_length.
Qed.

Theorem csv_load_stream_hist_render K sep chs final hdr rows text progs : (0 < K)%nat -> allowed sep ->
  render sep chs final (hdr :: rows) = Some (stream_payload K text) ->
  csv_load_stream_hist K sep progs text = hist_expect hdr progs rows.
Proof.
  intros HK A R. destruct (esr_new_spec K text HK) as [Hsr Inv0]. unfold csv_load_stream_hist.
  apply (csv_load_src_hist_render (esr_read_chunk K) esr_is_end esr_rest esr_ok
           (fun e Inv => esr_read_chunk_spec K e HK Inv) esr_iend_spec sep chs final hdr rows (stream_payload K text));
    try assumption. apply stream_payload_length.
Qed.

Theorem csv_load_stream_rfc K sep chs final hdr rows text keys : (0 < K)%nat -> allowed sep -> NoDup hdr -> uniform hdr rows ->
  render sep chs final (hdr :: rows) = Some (stream_payload K text) ->
  csv_load_stream K sep keys text = Ok (select hdr keys rows).
Proof.
  intros HK A ND U R. rewrite (csv_load_stream_render K sep chs final hdr rows text keys HK A R).
  unfold load_expect. rewrite (widths_ok_uniform _ _ U), (read_rows_select _ _ _ ND U). reflexivity.
Qed.

Theorem csv_load_stream_width K sep chs final hdr recs text keys : (0 < K)%nat -> allowed sep ->
  render sep chs final (hdr :: recs) = Some (stream_payload K text) -> Exists (fun r => length r <> length hdr) recs ->
  csv_load_stream K sep keys text = Err ParsingError.
Proof.
  intros HK A R E. rewrite (csv_load_stream_render K sep chs final hdr recs text keys HK A R).
  unfold load_expect. rewrite (widths_ok_ragged _ _ E). reflexivity.
Qed.

(* memory and stream loading agree on every RFC 4180 text, wherever the chunk boundaries fall *)
Theorem csv_load_stream_eq_mem K sep chs final t text keys : (0 < K)%nat -> allowed sep ->
  render sep chs final t = Some (stream_payload K text) ->
  csv_load_stream K sep keys text = csv_load sep keys (stream_payload K text).
Proof.
  intros HK A R. destruct t as [|hdr rows]; [rewrite render_nil in R; discriminate|].
  rewrite (csv_load_stream_render K sep chs final hdr rows text keys HK A R).
  rewrite (csv_load_render sep chs final hdr rows _ keys A R). reflexivity.
Qed.

Lemma stream_example :
  csv_load_stream chunk_size 59 [[98]; [97]; [122]; [98]]
    [0xEF; 0xBB; 0xBF; 97; 59; 98; 10; 34; 120; 34; 34; 59; 34; 59; 34; 49; 34; 13; 10; 59; 10] =
  Ok [[Some [49]; Some [120; 34; 59]; None; Some [49]]; [Some []; Some []; None; Some []]].
Proof. vm_compute. reflexivity. Qed.
