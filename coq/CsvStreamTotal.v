(* CsvStreamTotal.v — totality of the stream loader on ARBITRARY text, for every chunk size K >= 1: rows, or a
   catchable ParsingError / InvalidOptions; never out of fuel (no hang), never a read outside the decoded buffer
   (the model's UB outcome), never std::out_of_range. *)
From BS Require Import Base CsvSpec CsvSpecProofs CsvModel CsvWriterProofs CsvReaderProofs CsvStreamProofs CsvTotalProofs.
From Coq Require Import ZifyBool ZifyN ZifyNat.
Ltac Zify.zify_post_hook ::= Z.div_mod_to_equations.
Local Open Scope N_scope.

(* a value lies inside the parsed line, and a value with quotes is not empty *)
Definition meta_ok (pos : nat) (m : meta) : Prop :=
  (m_off m + m_size m <= pos)%nat /\ (m_esc m = true -> (1 <= m_size m)%nat).

Lemma meta_ok_mono p p' m : (p <= p')%nat -> meta_ok p m -> meta_ok p' m.
Proof. unfold meta_ok. intros H [A B]. split; [lia | exact B]. Qed.

Lemma lf_end_range cr pos start : (match cr with Some p => (start <= p < pos)%nat | None => True end) -> (start <= pos)%nat ->
  (start <= lf_end cr pos <= pos)%nat /\ (pos - 1 <= lf_end cr pos)%nat.
Proof.
  intros Hcr Hs. unfold lf_end. destruct cr as [p|].
  - destruct (negb (nat_is0 pos) && Nat.eqb p (pos - 1)) eqn:E; [|lia].
    apply andb_true_iff in E. destruct E as [_ E]. apply Nat.eqb_eq in E. lia.
  - destruct (negb (nat_is0 pos) && Nat.eqb pos (pos - 1)) eqn:E; lia.
Qed.

Lemma mk_value_ok start endp dq bound : (start <= endp <= bound)%nat -> (negb (nat_is0 dq) = true -> (start < endp)%nat) ->
  meta_ok bound (mk_value start endp dq).
Proof. intros H1 H2. unfold meta_ok, mk_value. cbn [m_off m_size m_esc]. split; [lia|]. intros E. specialize (H2 E). lia. Qed.

Lemma a_scan_metas_ok sep : forall l pos start dq cr acc,
  (start <= pos)%nat -> (dq <= pos - start)%nat ->
  (match cr with Some p => (start <= p < pos)%nat | None => True end) ->
  Forall (meta_ok pos) acc ->
  Forall (meta_ok (snd (a_scan sep l pos start dq cr acc))) (fst (a_scan sep l pos start dq cr acc)).
Proof.
  induction l as [|c t IH]; intros pos start dq cr acc Hs Hdq Hcr Hacc; cbn [a_scan].
  - cbn [fst snd]. constructor; [|exact Hacc].
    apply mk_value_ok; [lia|]. intros E. destruct dq; [discriminate|]. lia.
  - destruct (c =? DQ).
    { apply IH; [lia | lia | destruct cr; lia | eapply Forall_impl; [|exact Hacc]; intros m; apply meta_ok_mono; lia]. }
    destruct ((c =? sep) && Nat.even dq).
    { apply IH; [lia | lia | exact I |].
      constructor; [apply mk_value_ok; [lia|]; intros E; destruct dq; [discriminate|]; lia|].
      eapply Forall_impl; [|exact Hacc]. intros m. apply meta_ok_mono. lia. }
    destruct (c =? CR).
    { apply IH; [lia | lia | lia | eapply Forall_impl; [|exact Hacc]; intros m; apply meta_ok_mono; lia]. }
    destruct ((c =? LF) && Nat.even dq) eqn:Elf.
    { cbn [fst snd]. pose proof (lf_end_range cr pos start Hcr Hs) as [R1 R2].
      constructor.
      - apply mk_value_ok; [lia|]. intros E. apply andb_true_iff in Elf. destruct Elf as [_ Ev].
        destruct dq as [|[|dq]]; [discriminate | discriminate |]. lia.
      - eapply Forall_impl; [|exact Hacc]. intros m. apply meta_ok_mono. lia. }
    apply IH; [lia | lia | destruct cr; lia | eapply Forall_impl; [|exact Hacc]; intros m; apply meta_ok_mono; lia].
Qed.

Section SRC.
Variable Src : Type.
Variable rd : Src -> option (list N) * Src.
Variable iend : Src -> bool.
Variable stream_rest : Src -> list N.
Variable esr_inv : Src -> Prop.
Hypothesis rd_spec : forall e, esr_inv e ->
  match rd e with
  | (Some chunk, e') => chunk <> [] /\ chunk ++ stream_rest e' = stream_rest e /\ True /\ esr_inv e'
  | (None, e') => stream_rest e = [] /\ stream_rest e' = [] /\ iend e' = true /\ esr_inv e'
  end.
Hypothesis iend_spec : forall e, esr_inv e -> iend e = true -> stream_rest e = [].
Local Notation remaining := (remaining stream_rest).

Definition read_inv (s : sreader Src) : Prop :=
  (s_pos s <= length (s_buf s))%nat /\ Forall (meta_ok (s_pos s)) (s_metas s).

Lemma unescape_loop_length l : forall dq, (length (unescape_loop l dq) <= length l)%nat.
Proof.
  induction l as [|c l IH]; intros dq; cbn [unescape_loop length]; [lia|].
  destruct (c =? DQ).
  - destruct (Nat.even (S dq)); cbn [length]; specialize (IH (S dq)); lia.
  - cbn [length]. specialize (IH dq). lia.
Qed.

Lemma slice_length l off size : (length (slice l off size) <= size)%nat.
Proof. unfold slice. rewrite firstn_length. lia. Qed.

(* outcome of an in-place unescape whose window [b, e) lies inside the buffer *)
Definition unescape_post (buf : list N) (b e : nat) (r : outcome (list N * list N)) : Prop :=
  match r with
  | Ok (v, buf') => length buf' = length buf /\ (forall p, (e <= p)%nat -> skipn p buf' = skipn p buf) /\
                    (length v + 2 <= e - b)%nat
  | Err ParsingError => True
  | _ => False
  end.

Lemma skipn_same_prefix_len {A} (X X' T : list A) p : length X = length X' -> (length X <= p)%nat ->
  skipn p (X ++ T) = skipn p (X' ++ T).
Proof.
  intros HL Hp. rewrite !skipn_app. rewrite (skipn_all2 X) by lia. rewrite (skipn_all2 X') by lia. rewrite HL. reflexivity.
Qed.

Lemma s_unescape_total buf b e : (b < length buf)%nat -> (e <= length buf)%nat -> unescape_post buf b e (s_unescape buf b e).
Proof.
  intros Hb He. unfold s_unescape.
  destruct (nth_error buf b) as [c|] eqn:Eb; [|apply nth_error_None in Eb; lia].
  destruct (negb (c =? DQ)); [exact I|].
  destruct (Nat.ltb e (b + 2)) eqn:El; [exact I|]. apply Nat.ltb_ge in El.
  destruct (nth_error buf (e - 1)) as [c2|] eqn:Ee; [|apply nth_error_None in Ee; lia].
  destruct (negb (c2 =? DQ)); [exact I|].
  set (dec := unescape_loop (slice buf (S b) (e - 1 - S b)) 0).
  assert (Hd : (length dec <= e - 2 - b)%nat).
  { subst dec. pose proof (unescape_loop_length (slice buf (S b) (e - 1 - S b)) 0).
    pose proof (slice_length buf (S b) (e - 1 - S b)). lia. }
  cbn [unescape_post].
  assert (HL : length (firstn b buf ++ dec) = length (firstn (b + length dec) buf)).
  { rewrite app_length, !firstn_length. lia. }
  split; [|split; [|lia]].
  - rewrite app_assoc, app_length, HL. rewrite <- app_length, firstn_skipn. reflexivity.
  - intros p Hp. rewrite app_assoc.
    rewrite <- (firstn_skipn (b + length dec) buf) at 3.
    apply skipn_same_prefix_len; [exact HL|]. rewrite app_length, firstn_length. lia.
Qed.

Lemma Forall_set_nth {A} (P : A -> Prop) x : forall l i, Forall P l -> P x -> Forall P (set_nth i x l).
Proof.
  induction l as [|y l IH]; intros i F Px; [destruct i; cbn; constructor|].
  inversion F. subst. destruct i; cbn; constructor; auto.
Qed.

Lemma set_nth_length {A} (x : A) : forall l i, length (set_nth i x l) = length l.
Proof. induction l as [|y l IH]; intros i; [destruct i; reflexivity|]. destruct i; cbn; [reflexivity | f_equal; apply IH]. Qed.

(* the value step on a meta that is in range *)
Definition read_meta_post (buf : list N) (ms : list meta) (pos : nat) (r : outcome (list N * list N * list meta)) : Prop :=
  match r with
  | Ok (_, buf', ms') => length buf' = length buf /\ skipn pos buf' = skipn pos buf /\
                         Forall (meta_ok pos) ms' /\ length ms' = length ms
  | Err ParsingError => True
  | _ => False
  end.

Lemma read_meta_total buf ms pos i m : (pos <= length buf)%nat -> Forall (meta_ok pos) ms -> meta_ok pos m ->
  read_meta_post buf ms pos (read_meta buf ms i m).
Proof.
  intros Hp F [M1 M2]. unfold read_meta. destruct (m_esc m) eqn:Eesc.
  - specialize (M2 eq_refl).
    pose proof (s_unescape_total buf (m_off m) (m_off m + m_size m)) as T.
    destruct (s_unescape buf (m_off m) (m_off m + m_size m)) as [[v buf']|[]| | |]; cbn [unescape_post] in T;
      try (exfalso; apply T; lia); try exact I.
    destruct T as (T1 & T2 & T3); [lia|lia|]. cbn [read_meta_post].
    split; [exact T1|]. split; [apply T2; lia|]. split; [|apply set_nth_length].
    apply Forall_set_nth; [exact F|]. unfold meta_ok. cbn [m_off m_size m_esc]. split; [lia | discriminate].
  - cbn [read_meta_post]. auto.
Qed.

Definition s_read_post {A} (s : sreader Src) (r : outcome (A * sreader Src)) : Prop :=
  match r with
  | Ok (_, s') => s_same s s' /\ length (s_buf s') = length (s_buf s) /\
                  skipn (s_pos s) (s_buf s') = skipn (s_pos s) (s_buf s) /\
                  Forall (meta_ok (s_pos s)) (s_metas s') /\ length (s_metas s') = length (s_metas s)
  | Err ParsingError => True
  | _ => False
  end.

Lemma s_read_key_total s k : read_inv s -> length (s_headers s) = length (s_metas s) ->
  s_read_post s (s_read_key true s k).
Proof.
  intros [Hpos HM] Hlen.
  destruct (select_column (s_headers s) (s_validx s) k) as [idx found] eqn:Es.
  destruct found.
  - pose proof (select_column_lt _ _ _ _ Es) as Hlt.
    destruct (nth_error (s_metas s) idx) as [m|] eqn:Em; [|apply nth_error_None in Em; lia].
    rewrite (s_read_key_meta s k idx m Es Em).
    assert (Hm : meta_ok (s_pos s) m) by (rewrite Forall_forall in HM; apply HM; eapply nth_error_In; exact Em).
    pose proof (read_meta_total (s_buf s) (s_metas s) (s_pos s) idx m Hpos HM Hm) as T.
    destruct (read_meta (s_buf s) (s_metas s) idx m) as [[[v buf'] ms']|[]| | |]; cbn [read_meta_post] in T; try contradiction; try exact I.
    destruct T as (T1 & T2 & T3 & T4). cbn [s_read_post s_buf s_metas s_pos].
    split; [unfold s_same; cbn; repeat split; reflexivity|]. auto.
  - unfold s_read_key. cbn [negb]. rewrite Es. cbn [negb s_read_post s_with s_buf s_metas s_pos].
    split; [unfold s_same; cbn; repeat split; reflexivity|]. auto.
Qed.

Lemma s_read_keys_total : forall keys s acc, read_inv s -> length (s_headers s) = length (s_metas s) ->
  s_read_post s (s_read_keys s keys acc).
Proof.
  induction keys as [|k ks IH]; intros s acc Inv Hlen.
  - cbn. destruct Inv as [I1 I2]. split; [apply s_same_refl|]. auto.
  - cbn [s_read_keys]. pose proof (s_read_key_total s k Inv Hlen) as T.
    destruct (s_read_key true s k) as [[v s1]|[]| | |]; cbn [s_read_post] in T; try contradiction; try exact I.
    destruct T as (S1 & T2 & T3 & T4 & T5). pose proof S1 as (A1&A2&A3&A4&A5&A6).
    assert (Inv1 : read_inv s1).
    { destruct Inv as [I1 I2]. unfold read_inv. rewrite A3, T2. auto. }
    specialize (IH s1 (acc ++ [v]) Inv1). rewrite A2, T5 in IH. specialize (IH Hlen).
    destruct (s_read_keys s1 ks (acc ++ [v])) as [[cells s2]|[]| | |]; cbn [s_read_post] in *; try contradiction; try exact I.
    destruct IH as (S2 & L2 & K2 & F2 & N2). split; [eapply s_same_trans; eassumption|].
    rewrite A3 in *. repeat split; congruence.
Qed.

Lemma s_read_headers_total : forall n s acc, read_inv s -> (n + s_validx s <= length (s_metas s))%nat ->
  s_read_post s (s_read_headers n s acc).
Proof.
  induction n as [|n IH]; intros s acc Inv Hn; cbn [s_read_headers].
  - destruct Inv as [I1 I2]. split; [apply s_same_refl|]. auto.
  - destruct (nth_error (s_metas s) (s_validx s)) as [m|] eqn:Em; [|apply nth_error_None in Em; lia].
    rewrite (s_read_next_meta s m Em). destruct Inv as [Hpos HM].
    assert (Hm : meta_ok (s_pos s) m) by (rewrite Forall_forall in HM; apply HM; eapply nth_error_In; exact Em).
    pose proof (read_meta_total (s_buf s) (s_metas s) (s_pos s) (s_validx s) m Hpos HM Hm) as T.
    destruct (read_meta (s_buf s) (s_metas s) (s_validx s) m) as [[[v buf'] ms']|[]| | |]; cbn [read_meta_post] in T; try contradiction; try exact I.
    destruct T as (T1 & T2 & T3 & T4).
    match goal with |- context [s_read_headers n ?ss _] => set (s1 := ss) end.
    assert (Inv1 : read_inv s1) by (subst s1; unfold read_inv; cbn; split; [lia | exact T3]).
    specialize (IH s1 (acc ++ [v]) Inv1).
    assert (H1 : (n + s_validx s1 <= length (s_metas s1))%nat) by (subst s1; cbn; lia).
    specialize (IH H1).
    destruct (s_read_headers n s1 (acc ++ [v])) as [[hs s2]|[]| | |]; cbn [s_read_post] in *; try contradiction; try exact I.
    destruct IH as (S2 & L2 & K2 & F2 & N2). subst s1. cbn [s_buf s_pos s_metas] in *.
    split; [eapply s_same_trans; [|exact S2]; unfold s_same; cbn; repeat split; reflexivity|].
    repeat split; congruence.
Qed.

(* ParseNextLine on any remaining text *)
Lemma s_parse_next_line_total sep : forall s fuel,
  esr_inv (s_esr s) -> s_is_end iend s = false -> (2 * length (remaining s) + 1 < fuel)%nat ->
  exists s1, s_parse_next_line rd iend fuel sep s = Ok (true, s1) /\
    esr_inv (s_esr s1) /\ read_inv s1 /\ s_headers s1 = s_headers s /\ s_validx s1 = s_validx s /\
    (length (remaining s1) <= length (remaining s))%nat /\
    (remaining s <> [] -> (length (remaining s1) < length (remaining s))%nat) /\
    ((length (s_buf s1) <= s_pos s1)%nat -> iend (s_esr s1) = true).
Proof.
  intros s fuel Inv He Hfuel.
  unfold s_parse_next_line. rewrite He.
  set (buf0 := skipn (s_pos s) (s_buf s)) in *.
  destruct (s_scan_refines rd iend stream_rest esr_inv rd_spec iend_spec sep fuel buf0 buf0 (s_esr s) 0 0 0 None [] Inv) as (ext & e1 & E & Hsr & Inv1 & Hpos).
  { reflexivity. }
  { unfold CsvStreamProofs.remaining in Hfuel. fold buf0 in Hfuel. rewrite app_length in Hfuel. lia. }
  unfold CsvStreamProofs.remaining in Hfuel |- *. fold buf0 in Hfuel |- *.
  assert (Hprog : buf0 ++ stream_rest (s_esr s) <> [] -> (0 < snd (a_scan sep (buf0 ++ stream_rest (s_esr s)) 0 0 0 None []))%nat).
  { intros Hne. apply a_scan_progress. exact Hne. }
  pose proof (a_scan_metas_ok sep (buf0 ++ stream_rest (s_esr s)) 0 0 0 None [] (le_n _) (le_n _) I (Forall_nil _)) as Hmetas.
  destruct (a_scan sep (buf0 ++ stream_rest (s_esr s)) 0 0 0 None []) as [vals pos1]. cbn [fst snd] in *.
  rewrite E.
  assert (Hall : (buf0 ++ ext) ++ stream_rest e1 = buf0 ++ stream_rest (s_esr s)) by (rewrite <- app_assoc, Hsr; reflexivity).
  assert (Hmr : Forall (meta_ok pos1) (rev vals)) by (apply Forall_rev; exact Hmetas).
  assert (Hlen0 : buf0 ++ stream_rest (s_esr s) <> [] -> (0 < length buf0 + length (stream_rest (s_esr s)))%nat).
  { intros Hne. rewrite <- app_length. destruct (buf0 ++ stream_rest (s_esr s)); [congruence | cbn; lia]. }
  assert (Hlen1 : (pos1 <= length buf0 + length (stream_rest (s_esr s)))%nat).
  { rewrite <- Hsr, app_length. rewrite app_length in Hpos. lia. }
  destruct (Nat.eqb pos1 (length (buf0 ++ ext))) eqn:Eq.
  - apply Nat.eqb_eq in Eq.
    pose proof (rd_spec e1 Inv1) as Hrc.
    destruct (rd e1) as [[chunk|] e2].
    + destruct Hrc as (Hcne & Hsr2 & _ & Inv2).
      eexists. split; [reflexivity|]. cbn [s_esr s_buf s_pos s_metas s_headers s_validx].
      split; [exact Inv2|]. split; [unfold read_inv; cbn; rewrite !app_length in *; split; [lia | exact Hmr]|].
      split; [reflexivity|]. split; [reflexivity|].
      assert (Hr : length (skipn pos1 ((buf0 ++ ext) ++ chunk) ++ stream_rest e2) = (length buf0 + length (stream_rest (s_esr s)) - pos1)%nat).
      { rewrite skipn_app_le by (rewrite !app_length in *; lia).
        rewrite <- app_assoc, Hsr2, Hall, skipn_length, app_length. reflexivity. }
      rewrite Hr, app_length. split; [lia|]. split.
      * intros Hne. specialize (Hprog Hne). specialize (Hlen0 Hne). lia.
      * rewrite !app_length in *. destruct chunk; [congruence|]. cbn [length]. lia.
    + destruct Hrc as (Hsr1 & Hsr2 & Hend2 & Inv2).
      eexists. split; [reflexivity|]. cbn [s_esr s_buf s_pos s_metas s_headers s_validx].
      split; [exact Inv2|]. split; [unfold read_inv; cbn; split; [lia | exact Hmr]|].
      split; [reflexivity|]. split; [reflexivity|].
      assert (Hr : length (skipn pos1 (buf0 ++ ext) ++ stream_rest e2) = (length buf0 + length (stream_rest (s_esr s)) - pos1)%nat).
      { rewrite Hsr2, app_nil_r. rewrite Hsr1, app_nil_r in Hall. rewrite Hall, skipn_length, app_length. reflexivity. }
      rewrite Hr, app_length. split; [lia|]. split.
      * intros Hne. specialize (Hprog Hne). specialize (Hlen0 Hne). lia.
      * intros _. exact Hend2.
  - apply Nat.eqb_neq in Eq.
    eexists. split; [reflexivity|]. cbn [s_esr s_buf s_pos s_metas s_headers s_validx].
    split; [exact Inv1|]. split; [unfold read_inv; cbn; split; [lia | exact Hmr]|].
    split; [reflexivity|]. split; [reflexivity|].
    assert (Hr : length (skipn pos1 (buf0 ++ ext) ++ stream_rest e1) = (length buf0 + length (stream_rest (s_esr s)) - pos1)%nat).
    { rewrite skipn_app_le by lia. rewrite Hall, skipn_length, app_length. reflexivity. }
    rewrite Hr, app_length. split; [lia|]. split.
    + intros Hne. specialize (Hprog Hne). specialize (Hlen0 Hne). lia.
    + lia.
Qed.

Lemma s_load_rows_total sep keys : forall fuel fl s acc,
  esr_inv (s_esr s) -> ((length (s_buf s) <= s_pos s)%nat -> iend (s_esr s) = true) ->
  (length (remaining s) < fuel)%nat -> (2 * length (remaining s) + 1 < fl)%nat ->
  clean (s_load_rows rd iend fuel fl sep keys s acc).
Proof.
  induction fuel as [|fuel IH]; intros fl s acc Inv Hend Hf Hfl; [lia|].
  cbn [s_load_rows]. destruct (s_is_end iend s) eqn:He; [exact I|].
  assert (Hne : remaining s <> []).
  { intros Hnil. unfold CsvStreamProofs.remaining in Hnil. apply app_eq_nil in Hnil. destruct Hnil as [R1 R2].
    apply skipn_nil_length in R1. unfold s_is_end in He. rewrite (proj2 (Nat.leb_le _ _) R1), (Hend R1) in He. discriminate. }
  unfold s_parse_next_row.
  destruct (s_parse_next_line_total sep s fl Inv He Hfl) as (s1 & E & Inv1 & RI1 & Hh1 & Hv1 & _ & Hlt & Hend1).
  specialize (Hlt Hne).
  rewrite E. cbn [andb negb].
  destruct (negb (Nat.eqb (length (s_headers s1)) (length (s_metas s1)))) eqn:Ew; [exact I|].
  apply negb_false_iff, Nat.eqb_eq in Ew.
  match goal with |- context [s_read_keys ?ss keys []] => set (s2 := ss) end.
  assert (RI2 : read_inv s2) by (subst s2; exact RI1).
  assert (HL2 : length (s_headers s2) = length (s_metas s2)) by (subst s2; exact Ew).
  pose proof (s_read_keys_total keys s2 [] RI2 HL2) as T.
  destruct (s_read_keys s2 keys []) as [[cells s3]|[]| | |]; cbn [s_read_post] in T; try contradiction; try exact I.
  destruct T as ((A1&A2&A3&A4&A5&A6) & T2 & T3 & T4 & T5). subst s2. cbn [s_esr s_headers s_pos s_buf s_metas] in *.
  assert (Hrem : remaining s3 = remaining s1) by (unfold CsvStreamProofs.remaining; rewrite A1, A3, T3; reflexivity).
  apply IH.
  - rewrite A1. exact Inv1.
  - rewrite A1, A3, T2. exact Hend1.
  - rewrite Hrem. lia.
  - rewrite Hrem. lia.
Qed.

Lemma s_load_hist_total sep : forall fuel fl progs s acc,
  esr_inv (s_esr s) -> ((length (s_buf s) <= s_pos s)%nat -> iend (s_esr s) = true) ->
  (length (remaining s) < fuel)%nat -> (2 * length (remaining s) + 1 < fl)%nat ->
  clean (s_load_hist rd iend fuel fl sep progs s acc).
Proof.
  induction fuel as [|fuel IH]; intros fl progs s acc Inv Hend Hf Hfl; [lia|].
  cbn [s_load_hist]. destruct (s_is_end iend s) eqn:He; [exact I|].
  assert (Hne : remaining s <> []).
  { intros Hnil. unfold CsvStreamProofs.remaining in Hnil. apply app_eq_nil in Hnil. destruct Hnil as [R1 R2].
    apply skipn_nil_length in R1. unfold s_is_end in He. rewrite (proj2 (Nat.leb_le _ _) R1), (Hend R1) in He. discriminate. }
  unfold s_parse_next_row.
  destruct (s_parse_next_line_total sep s fl Inv He Hfl) as (s1 & E & Inv1 & RI1 & Hh1 & Hv1 & _ & Hlt & Hend1).
  specialize (Hlt Hne).
  rewrite E. cbn [andb negb].
  destruct (negb (Nat.eqb (length (s_headers s1)) (length (s_metas s1)))) eqn:Ew; [exact I|].
  apply negb_false_iff, Nat.eqb_eq in Ew.
  match goal with |- context [s_read_keys ?ss _ []] => set (s2 := ss) end.
  assert (RI2 : read_inv s2) by (subst s2; exact RI1).
  assert (HL2 : length (s_headers s2) = length (s_metas s2)) by (subst s2; exact Ew).
  pose proof (s_read_keys_total (hd [] progs) s2 [] RI2 HL2) as T.
  destruct (s_read_keys s2 (hd [] progs) []) as [[cells s3]|[]| | |]; cbn [s_read_post] in T; try contradiction; try exact I.
  destruct T as ((A1&A2&A3&A4&A5&A6) & T2 & T3 & T4 & T5). subst s2. cbn [s_esr s_headers s_pos s_buf s_metas] in *.
  assert (Hrem : remaining s3 = remaining s1) by (unfold CsvStreamProofs.remaining; rewrite A1, A3, T3; reflexivity).
  apply IH.
  - rewrite A1. exact Inv1.
  - rewrite A1, A3, T2. exact Hend1.
  - rewrite Hrem. lia.
  - rewrite Hrem. lia.
Qed.

Theorem csv_load_src_hist_total sep progs e0 n : esr_inv e0 -> (length (stream_rest e0) <= n)%nat ->
  clean (csv_load_src_hist rd iend n sep progs e0).
Proof.
  intros Inv0 Hpl. unfold csv_load_src_hist. destruct (negb (validate_separator sep)); [exact I|].
  unfold s_new.
  set (s0 := mkS [] e0 [] [] 0 0 0 0 0).
  assert (Hrem0 : remaining s0 = stream_rest e0).
  { unfold CsvStreamProofs.remaining, s0. cbn [s_pos s_buf s_esr skipn app]. reflexivity. }
  destruct (s_is_end iend s0) eqn:He.
  { unfold s_parse_next_line. rewrite He. exact I. }
  destruct (s_parse_next_line_total sep s0 (2 * n + 4)%nat Inv0 He) as (s1 & E & Inv1 & RI1 & Hh1 & Hv1 & Hle & _ & Hend1).
  { rewrite Hrem0. lia. }
  rewrite E.
  pose proof (s_read_headers_total (length (s_metas s1)) s1 [] RI1) as T.
  assert (H1 : (length (s_metas s1) + s_validx s1 <= length (s_metas s1))%nat) by (rewrite Hv1; subst s0; cbn; lia).
  specialize (T H1).
  destruct (s_read_headers (length (s_metas s1)) s1 []) as [[hs s2]|[]| | |]; cbn [s_read_post] in T; try contradiction; try exact I.
  destruct T as ((A1&A2&A3&A4&A5&A6) & T2 & T3 & T4 & T5).
  assert (Hrem : remaining (mkS (s_buf s2) (s_esr s2) hs (s_metas s2) (s_pos s2) (s_line s2) (s_rowidx s2) (s_validx s2) (s_prev s2)) = remaining s1).
  { unfold CsvStreamProofs.remaining. cbn [s_pos s_buf s_esr]. rewrite A1, A3, T3. reflexivity. }
  apply (s_load_hist_total sep).
  - cbn [s_esr]. rewrite A1. exact Inv1.
  - cbn [s_buf s_pos s_esr]. rewrite A1, A3, T2. exact Hend1.
  - rewrite Hrem. rewrite Hrem0 in Hle. lia.
  - rewrite Hrem. rewrite Hrem0 in Hle. lia.
Qed.

(* LoadObject over any sound source that delivers at most n bytes is total *)
Theorem csv_load_src_total sep keys e0 n : esr_inv e0 -> (length (stream_rest e0) <= n)%nat ->
  clean (csv_load_src rd iend n sep keys e0).
Proof.
  intros Inv0 Hpl. unfold csv_load_src. destruct (negb (validate_separator sep)); [exact I|].
  unfold s_new.
  set (s0 := mkS [] e0 [] [] 0 0 0 0 0).
  assert (Hrem0 : remaining s0 = stream_rest e0).
  { unfold CsvStreamProofs.remaining, s0. cbn [s_pos s_buf s_esr skipn app]. reflexivity. }
  destruct (s_is_end iend s0) eqn:He.
  { unfold s_parse_next_line. rewrite He. exact I. }
  destruct (s_parse_next_line_total sep s0 (2 * n + 4)%nat Inv0 He) as (s1 & E & Inv1 & RI1 & Hh1 & Hv1 & Hle & _ & Hend1).
  { rewrite Hrem0. lia. }
  rewrite E.
  pose proof (s_read_headers_total (length (s_metas s1)) s1 [] RI1) as T.
  assert (H1 : (length (s_metas s1) + s_validx s1 <= length (s_metas s1))%nat) by (rewrite Hv1; subst s0; cbn; lia).
  specialize (T H1).
  destruct (s_read_headers (length (s_metas s1)) s1 []) as [[hs s2]|[]| | |]; cbn [s_read_post] in T; try contradiction; try exact I.
  destruct T as ((A1&A2&A3&A4&A5&A6) & T2 & T3 & T4 & T5).
  assert (Hrem : remaining (mkS (s_buf s2) (s_esr s2) hs (s_metas s2) (s_pos s2) (s_line s2) (s_rowidx s2) (s_validx s2) (s_prev s2)) = remaining s1).
  { unfold CsvStreamProofs.remaining. cbn [s_pos s_buf s_esr]. rewrite A1, A3, T3. reflexivity. }
  apply (s_load_rows_total sep keys).
  - cbn [s_esr]. rewrite A1. exact Inv1.
  - cbn [s_buf s_pos s_esr]. rewrite A1, A3, T2. exact Hend1.
  - rewrite Hrem. rewrite Hrem0 in Hle. lia.
  - rewrite Hrem. rewrite Hrem0 in Hle. lia.
Qed.
End SRC.

Arguments csv_load_src_total {Src} rd iend stream_rest esr_inv rd_spec iend_spec.
Arguments csv_load_src_hist_total {Src} rd iend stream_rest esr_inv rd_spec iend_spec.

(* LoadObject<CsvArchive> from a stream is total on every text, for every request and every chunk size *)
Theorem csv_load_stream_total K sep keys text : (0 < K)%nat -> clean (csv_load_stream K sep keys text).
Proof.
  intros HK. destruct (esr_new_spec K text HK) as [Hsr Inv0]. unfold csv_load_stream.
  apply (csv_load_src_total (esr_read_chunk K) esr_is_end esr_rest esr_ok
           (fun e Inv => esr_read_chunk_spec K e HK Inv) esr_iend_spec); [exact Inv0|].
  rewrite Hsr. apply stream_payload_length.
Qed.

Theorem csv_load_stream_hist_total K sep progs text : (0 < K)%nat -> clean (csv_load_stream_hist K sep progs text).
Proof.
  intros HK. destruct (esr_new_spec K text HK) as [Hsr Inv0]. unfold csv_load_stream_hist.
  apply (csv_load_src_hist_total (esr_read_chunk K) esr_is_end esr_rest esr_ok
           (fun e Inv => esr_read_chunk_spec K e HK Inv) esr_iend_spec); [exact Inv0|].
  rewrite Hsr. apply stream_payload_length.
Qed.
