(* CsvStreamTotal.v — the stream reader for ARBITRARY requests: whatever columns are asked for, a read of a parsed
   row answers or throws ParsingError, and it touches the buffer only inside that row.  Consequence: a record of
   another width is rejected by the stream reader at full strength (every failure F23/F25 can cause on the way
   is itself a ParsingError). *)
From BS Require Import Base CsvSpec CsvSpecProofs CsvModel CsvWriterProofs CsvReaderProofs CsvStreamProofs.
From Coq Require Import ZifyBool ZifyN ZifyNat.
Ltac Zify.zify_post_hook ::= Z.div_mod_to_equations.
Local Open Scope N_scope.

(* a value lies inside the parsed line, and a value with quotes is not empty *)
Definition meta_ok (pos : nat) (m : meta) : Prop :=
  (m_off m + m_size m <= pos)%nat /\ (m_esc m = true -> (1 <= m_size m)%nat).

Definition read_inv (s : sreader) : Prop :=
  (s_pos s <= length (s_buf s))%nat /\ Forall (meta_ok (s_pos s)) (s_metas s).

Lemma unescape_loop_length l : forall dq, (length (unescape_loop l dq) <= length l)%nat.
Proof.
  induction l as [|c l IH]; intros dq; cbn [unescape_loop length]; [lia|].
  destruct (c =? DQ).
  - destruct (Nat.even (S dq)); cbn [length]; specialize (IH (S dq)); lia.
  - cbn [length]. specialize (IH dq). lia.
Qed.

Lemma slice_length l off size : (length (slice l off size) <= size)%nat.
Proof. unfold slice. rewrite firstn_length. lia. Qed.

(* outcome of an in-place unescape whose window lies inside the buffer *)
Definition unescape_post (buf : list N) (e : nat) (r : outcome (list N * list N)) : Prop :=
  match r with
  | Ok (_, buf') => length buf' = length buf /\ forall p, (e <= p)%nat -> skipn p buf' = skipn p buf
  | Err ParsingError => True
  | _ => False
  end.

Lemma skipn_same_prefix_len {A} (X X' T : list A) p : length X = length X' -> (length X <= p)%nat ->
  skipn p (X ++ T) = skipn p (X' ++ T).
Proof.
  intros HL Hp. rewrite !skipn_app. rewrite !skipn_all2 by lia. rewrite HL. reflexivity.
Qed.

Lemma s_unescape_total buf b e : (b < length buf)%nat -> (e <= length buf)%nat -> unescape_post buf e (s_unescape buf b e).
Proof.
  intros Hb He. unfold s_unescape.
  destruct (nth_error buf b) as [c|] eqn:Eb; [|apply nth_error_None in Eb; lia].
  destruct (negb (c =? DQ)); [exact I|].
  destruct (Nat.ltb e (b + 2)) eqn:El; [exact I|]. apply Nat.ltb_ge in El.
  destruct (nth_error buf (e - 1)) as [c2|] eqn:Ee; [|apply nth_error_None in Ee; lia].
  destruct (negb (c2 =? DQ)); [exact I|].
  set (dec := unescape_loop (slice buf (S b) (e - 1 - S b)) 0).
  assert (Hd : (length dec <= e - 2 - b)%nat).
  { subst dec. pose proof (unescape_loop_length (slice buf (S b) (e - 1 - S b)) 0).
    pose proof (slice_length buf (S b) (e - 1 - S b)). lia. }
  cbn [unescape_post].
  assert (Hsplit : buf = firstn (b + length dec) buf ++ skipn (b + length dec) buf) by (symmetry; apply firstn_skipn).
  assert (HL : length (firstn b buf ++ dec) = length (firstn (b + length dec) buf)).
  { rewrite app_length, !firstn_length. lia. }
  split.
  - rewrite app_assoc, app_length, HL. rewrite <- app_length, firstn_skipn. reflexivity.
  - intros p Hp. rewrite app_assoc. rewrite Hsplit at 3.
    apply skipn_same_prefix_len; [exact HL|]. rewrite app_length, firstn_length. lia.
Qed.

(* one ReadValue(key) on a parsed row, any key *)
Definition read_post (s : sreader) (r : outcome (option (list N) * sreader)) : Prop :=
  match r with
  | Ok (_, s') => s_same s s' /\ length (s_buf s') = length (s_buf s) /\
                  skipn (s_pos s) (s_buf s') = skipn (s_pos s) (s_buf s)
  | Err ParsingError => True
  | _ => False
  end.

Lemma s_read_key_total s k : read_inv s -> length (s_headers s) = length (s_metas s) ->
  read_post s (s_read_key true s k).
Proof.
  intros [Hpos HM] Hlen. unfold s_read_key. cbn [negb].
  destruct (select_column (s_headers s) (s_validx s) k) as [idx found] eqn:Es.
  destruct found; cbn [negb].
  - apply select_column_lt in Es.
    destruct (nth_error (s_metas s) idx) as [m|] eqn:Em; [|apply nth_error_None in Em; lia].
    rewrite Forall_forall in HM. destruct (HM m (nth_error_In _ _ Em)) as [M1 M2].
    destruct (m_esc m) eqn:Eesc.
    + specialize (M2 eq_refl).
      pose proof (s_unescape_total (s_buf s) (m_off m) (m_size m)) as T.
      destruct (s_unescape (s_buf s) (m_off m) (m_size m)) as [[v buf']| [] | | |]; cbn [unescape_post] in T;
        try (exfalso; apply T; lia); try exact I.
      destruct T as [T1 T2]; [lia|lia|]. cbn [read_post s_with s_buf].
      split; [unfold s_same; cbn; repeat split; reflexivity|]. split; [exact T1|]. apply T2. lia.
    + cbn [read_post s_with s_buf]. split; [unfold s_same; cbn; repeat split; reflexivity|]. auto.
  - cbn [read_post s_with s_buf]. split; [unfold s_same; cbn; repeat split; reflexivity|]. auto.
Qed.

Definition reads_post (s : sreader) (r : outcome (list (option (list N)) * sreader)) : Prop :=
  match r with
  | Ok (_, s') => s_same s s' /\ length (s_buf s') = length (s_buf s) /\
                  skipn (s_pos s) (s_buf s') = skipn (s_pos s) (s_buf s)
  | Err ParsingError => True
  | _ => False
  end.

Lemma s_read_keys_total : forall keys s acc, read_inv s -> length (s_headers s) = length (s_metas s) ->
  reads_post s (s_read_keys s keys acc).
Proof.
  induction keys as [|k ks IH]; intros s acc Inv Hlen.
  - cbn. split; [apply s_same_refl|]. auto.
  - cbn [s_read_keys]. pose proof (s_read_key_total s k Inv Hlen) as T.
    destruct (s_read_key true s k) as [[v s1]| [] | | |]; cbn [read_post] in T; try contradiction; try exact I.
    destruct T as ((A1&A2&A3&A4&A5&A6&A7) & T2 & T3).
    assert (Inv1 : read_inv s1).
    { destruct Inv as [I1 I2]. unfold read_inv. rewrite A4, A3, T2. auto. }
    specialize (IH s1 (acc ++ [v]) Inv1). rewrite A2, A3 in IH. specialize (IH Hlen).
    destruct (s_read_keys s1 ks (acc ++ [v])) as [[cells s2]| [] | | |]; cbn [reads_post] in *; try contradiction; try exact I.
    destruct IH as (S2 & L2 & K2). split; [eapply s_same_trans; [|exact S2]; unfold s_same; repeat split; assumption|].
    split; [congruence|]. rewrite A4 in K2. congruence.
Qed.

(* the metas of a rendered record are in range *)
Lemma rec_metas_ok sep : forall r qs a p bound, render_record sep qs r = Some a -> (p + length a <= bound)%nat ->
  Forall (meta_ok bound) (rec_metas p qs r).
Proof.
  induction r as [|f r IH]; intros qs a p bound H Hb.
  - rewrite render_record_nil in H. discriminate.
  - apply render_record_inv in H.
    destruct H as (q & qs' & -> & Hq & [(-> & -> & ->)|(Hne & b & Hb' & ->)]).
    + cbn [rec_metas]. constructor; [|constructor]. unfold meta_ok. cbn [m_off m_size m_esc].
      split; [lia|]. intros ->. cbn [rfield]. rewrite quoted_length. lia.
    + cbn [rec_metas]. rewrite app_length in Hb. cbn [length] in Hb. constructor.
      * unfold meta_ok. cbn [m_off m_size m_esc]. split; [lia|]. intros ->. cbn [rfield]. rewrite quoted_length. lia.
      * apply (IH qs' b); [exact Hb'|lia].
Qed.

(* ---------- a record of another width is rejected, whatever is requested ---------- *)

Lemma s_load_rows_ragged K sep keys hdr : (0 < K)%nat -> sane_sep sep ->
  forall t chs final body fuel fl s acc,
  render sep chs final t = Some body -> Exists (fun r => length r <> length hdr) t ->
  remaining s = body -> loop_inv hdr s ->
  (length body < fuel)%nat -> (2 * length body + 1 < fl)%nat ->
  s_load_rows fuel fl K sep keys s acc = Err ParsingError.
Proof.
  intros HK S. induction t as [|rec t IH]; intros chs final body fuel fl s acc Hb Hex Hrem (Inv & Hend & Hhdr) Hfuel Hfl.
  - inversion Hex.
  - pose proof (render_nonempty _ _ _ _ _ Hb) as Hbne.
    destruct (render_shape _ _ _ _ _ _ Hb) as (ch & chs' & a & rest & n & tail & -> & Ha & -> & LR & Hprog & Erest & Hn & Htail).
    destruct fuel as [|fuel]; [lia|]. cbn [s_load_rows].
    rewrite (s_not_end s Inv) by (rewrite Hrem; exact Hbne).
    unfold s_parse_next_row.
    destruct (s_parse_next_line_record K sep HK S s a rest n (ch_quotes ch) rec fl Inv Hrem Ha LR Hbne)
      as (post1 & e2 & E & Hpost & Inv2 & Hnle & Hend2).
    { rewrite Hrem. exact Hfl. }
    rewrite E. unfold s_line_result.
    cbn [s_headers s_metas s_line s_prev s_buf s_esr s_pos s_rowidx andb negb].
    rewrite (rec_metas_length sep rec _ a _ Ha), Hhdr.
    change (@length field) with (@length (list N)) in *.
    destruct (Nat.eqb (@length (list N) hdr) (@length (list N) rec)) eqn:Ew; cbn [negb andb]; [|reflexivity].
    apply Nat.eqb_eq in Ew.
    assert (Hex' : Exists (fun r : list (list N) => length r <> length hdr) t).
    { inversion Hex as [? ? H0|? ? H0]; subst; [congruence | exact H0]. }
    match goal with |- context [s_read_keys ?ss keys []] => set (s1 := ss) end.
    assert (RI : read_inv s1).
    { unfold read_inv. subst s1. cbn [s_pos s_buf s_metas]. split; [rewrite app_length; lia|].
      apply (rec_metas_ok sep rec _ a); [exact Ha | lia]. }
    assert (HL : length (s_headers s1) = length (s_metas s1)).
    { subst s1. cbn [s_headers s_metas]. rewrite (rec_metas_length sep rec _ a _ Ha). exact Ew. }
    pose proof (s_read_keys_total keys s1 [] RI HL) as T.
    destruct (s_read_keys s1 keys []) as [[cells s2]| [] | | |]; cbn [reads_post] in T; try contradiction; try reflexivity.
    destruct T as ((A1&A2&A3&A4&A5&A6&A7) & T2 & T3).
    subst s1. cbn [s_esr s_headers s_metas s_pos s_line s_rowidx s_prev s_buf] in *.
    destruct Htail as [[-> _]|Htail]; [inversion Hex'|].
    apply (IH chs' final tail fuel fl s2 (acc ++ [cells]) Htail Hex').
    + unfold remaining. rewrite A1, A4, T3, skipn_past.
      rewrite skipn_app_le by exact Hnle. rewrite Hpost. rewrite Erest at 1. rewrite <- Hn at 1. apply skipn_app_exact.
    + split; [rewrite A1; exact Inv2|]. split; [|rewrite A2; reflexivity].
      rewrite A1, A4, T2, app_length. intros H. apply Hend2. lia.
    + rewrite app_length in Hfuel. rewrite Erest, app_length, Hn in Hfuel. lia.
    + rewrite app_length in Hfl. rewrite Erest, app_length, Hn in Hfl. lia.
Qed.

Theorem csv_load_stream_width K sep chs final hdr recs text keys : (0 < K)%nat -> allowed sep ->
  render sep chs final (hdr :: recs) = Some (stream_payload K text) ->
  Exists (fun r => length r <> length hdr) recs ->
  csv_load_stream K sep keys text = Err ParsingError.
Proof.
  intros HK A R Hex. pose proof (allowed_sane sep A) as S.
  unfold csv_load_stream. rewrite (allowed_validate sep A). cbn [negb].
  pose proof (render_nonempty _ _ _ _ _ R) as Hne.
  destruct (render_shape _ _ _ _ _ _ R) as (ch & chs' & a & rest & n & tail & -> & Ha & Epay & LR & Hprog & Erest & Hn & Htail).
  destruct (esr_new_spec K text HK) as [Hsr Inv0].
  assert (Hpl : (length (stream_payload K text) <= length text)%nat).
  { unfold stream_payload. destruct (starts_with_bom (firstn K text)); [rewrite skipn_length; lia | lia]. }
  unfold s_new.
  set (s0 := mkS [] (esr_new K text) [] [] 0 0 0 0 0).
  assert (Hrem0 : remaining s0 = a ++ rest).
  { unfold remaining, s0. cbn [s_pos s_buf s_esr skipn app]. rewrite Hsr. exact Epay. }
  destruct (s_parse_next_line_record K sep HK S s0 a rest n (ch_quotes ch) hdr (stream_fuel text) Inv0 Hrem0 Ha LR)
    as (post1 & e2 & E & Hpost & Inv2 & Hnle & Hend2).
  { rewrite <- Epay. exact Hne. }
  { rewrite Hrem0, <- Epay. unfold stream_fuel. lia. }
  rewrite E. unfold s_line_result, s0. cbn [s_headers s_metas s_line s_rowidx s_validx length].
  match goal with |- context [s_read_headers _ ?ss []] => set (s1 := ss) end.
  destruct (s_read_headers_spec sep hdr (ch_quotes ch) a [] post1 s1 [] [] Ha) as (a' & s2 & E2 & B2 & L2 & (A1&A2&A3&A4&A5&A6&A7));
    try reflexivity.
  rewrite (rec_metas_length sep hdr _ a 0 Ha). rewrite E2. cbv beta iota. cbn [app] in *.
  subst s1. cbn [s_esr s_headers s_metas s_pos s_line s_rowidx s_prev] in *.
  destruct Htail as [[-> _]|Htail]; [inversion Hex|].
  apply (s_load_rows_ragged K sep keys hdr HK S recs chs' final tail); try assumption.
  - unfold remaining. cbn [s_pos s_buf s_esr]. rewrite A1, A4, B2, <- L2, skipn_past.
    rewrite skipn_app_le by exact Hnle. rewrite Hpost. rewrite Erest at 1. rewrite <- Hn at 1. apply skipn_app_exact.
  - unfold loop_inv. cbn [s_pos s_buf s_esr s_headers]. split; [rewrite A1; exact Inv2|]. split; [|reflexivity].
    rewrite A1, A4, B2, app_length, L2. intros H. apply Hend2. lia.
  - assert (length (a ++ rest) <= length text)%nat by (rewrite <- Epay; exact Hpl).
    rewrite app_length in H. rewrite Erest, app_length, Hn in H. lia.
  - assert (length (a ++ rest) <= length text)%nat by (rewrite <- Epay; exact Hpl).
    rewrite app_length in H. rewrite Erest, app_length, Hn in H. unfold stream_fuel. lia.
Qed.
