(* CsvTotalProofs.v — totality of the memory loader on ARBITRARY text: whatever the bytes and whatever is requested, loading
   answers with rows or with a catchable ParsingError / InvalidOptions; it never runs out of fuel (every line
   consumes at least one byte), never leaves its buffers and never reaches std::vector::at out of range. *)
From BS Require Import Base CsvSpec CsvSpecProofs CsvModel CsvWriterProofs CsvReaderProofs.
From Coq Require Import ZifyBool ZifyN ZifyNat.
Ltac Zify.zify_post_hook ::= Z.div_mod_to_equations.
Local Open Scope N_scope.

Definition clean {A} (o : outcome A) : Prop :=
  match o with
  | Ok _ => True
  | Err ParsingError => True
  | Err InvalidOptions => True
  | _ => False
  end.

Lemma a_scan_progress sep : forall l pos start dq cr acc, l <> [] ->
  (pos < snd (a_scan sep l pos start dq cr acc))%nat.
Proof.
  intros l pos start dq cr acc Hne. destruct l as [|c t]; [congruence|]. cbn [a_scan].
  destruct (c =? DQ); [pose proof (a_scan_pos sep t (S pos) start (S dq) cr acc); lia|].
  destruct ((c =? sep) && Nat.even dq); [pose proof (a_scan_pos sep t (S pos) (S pos) 0%nat None (mk_value start pos dq :: acc)); lia|].
  destruct (c =? CR); [pose proof (a_scan_pos sep t (S pos) start dq (Some pos) acc); lia|].
  destruct ((c =? LF) && Nat.even dq); [cbn; lia|].
  pose proof (a_scan_pos sep t (S pos) start dq cr acc); lia.
Qed.

Lemma m_value_clean r m : match m_value r m with Ok _ => True | Err ParsingError => True | _ => False end.
Proof.
  unfold m_value. destruct (m_esc m); [|exact I]. unfold m_unescape.
  destruct (slice (r_src r) (m_off m) (m_size m)) as [|c v]; [exact I|].
  destruct (negb (c =? DQ)); [exact I|].
  destruct (Nat.ltb (length (c :: v)) 2 || negb (last (c :: v) 0 =? DQ)); exact I.
Qed.

Lemma m_parse_next_line_total sep r : m_is_end r = false ->
  exists r1, m_parse_next_line sep r = (true, r1) /\ r_src r1 = r_src r /\ r_headers r1 = r_headers r /\
             (r_pos r < r_pos r1 <= length (r_src r))%nat /\ r_validx r1 = r_validx r.
Proof.
  intros He. unfold m_parse_next_line. rewrite He. unfold m_is_end in He. apply Nat.leb_gt in He.
  rewrite parse_line_a_scan.
  pose proof (a_scan_pos sep (skipn (r_pos r) (r_src r)) (r_pos r) (r_pos r) 0%nat None []) as P1.
  assert (Hne : skipn (r_pos r) (r_src r) <> []).
  { intros E. pose proof (skipn_length (r_pos r) (r_src r)) as L. rewrite E in L. cbn in L. lia. }
  pose proof (a_scan_progress sep _ (r_pos r) (r_pos r) 0%nat None [] Hne) as P2.
  rewrite skipn_length in P1.
  destruct (a_scan sep (skipn (r_pos r) (r_src r)) (r_pos r) (r_pos r) 0 None []) as [vals pos'].
  cbn [fst snd] in *. eexists. split; [reflexivity|]. cbn. repeat split; lia.
Qed.

Lemma m_read_key_total r k : length (r_headers r) = length (r_metas r) ->
  match m_read_key true r k with
  | Ok (_, r') => same_row r r'
  | Err ParsingError => True
  | _ => False
  end.
Proof.
  intros Hl. unfold m_read_key. cbn [negb].
  destruct (select_column (r_headers r) (r_validx r) k) as [idx found] eqn:Es.
  destruct found; cbn [negb]; [|unfold same_row; cbn; auto].
  apply select_column_lt in Es.
  destruct (nth_error (r_metas r) idx) as [m|] eqn:Em; [|apply nth_error_None in Em; lia].
  pose proof (m_value_clean r m) as C. destruct (m_value r m) as [v|[]| | |]; try contradiction; try exact I.
  unfold same_row. cbn. auto.
Qed.

Lemma m_read_keys_total : forall keys r acc, length (r_headers r) = length (r_metas r) ->
  match m_read_keys r keys acc with
  | Ok (_, r') => same_row r r'
  | Err ParsingError => True
  | _ => False
  end.
Proof.
  induction keys as [|k ks IH]; intros r acc Hl; cbn [m_read_keys]; [apply same_row_refl|].
  pose proof (m_read_key_total r k Hl) as T.
  destruct (m_read_key true r k) as [[v r1]|[]| | |]; try contradiction; try exact I.
  destruct T as (A1 & A2 & A3 & A4).
  specialize (IH r1 (acc ++ [v])). rewrite A2, A3 in IH. specialize (IH Hl).
  destruct (m_read_keys r1 ks (acc ++ [v])) as [[c r2]|[]| | |]; try contradiction; try exact I.
  eapply same_row_trans; [|exact IH]. unfold same_row. auto.
Qed.

Lemma m_load_rows_total sep keys : forall fuel r acc,
  (r_pos r <= length (r_src r))%nat -> (length (r_src r) - r_pos r < fuel)%nat ->
  clean (m_load_rows fuel sep keys r acc).
Proof.
  induction fuel as [|fuel IH]; intros r acc Hp Hf; [lia|].
  cbn [m_load_rows]. destruct (m_is_end r) eqn:He; [exact I|].
  unfold m_parse_next_row.
  destruct (m_parse_next_line_total sep r He) as (r1 & E & B1 & B2 & B3 & B4). rewrite E.
  cbn [andb negb].
  destruct (negb (Nat.eqb (length (r_headers r1)) (length (r_metas r1)))) eqn:Ew; [exact I|].
  apply negb_false_iff, Nat.eqb_eq in Ew.
  match goal with |- context [m_read_keys ?rr keys []] => set (r2 := rr) end.
  pose proof (m_read_keys_total keys r2 []) as T.
  assert (Hl2 : length (r_headers r2) = length (r_metas r2)) by (subst r2; exact Ew).
  specialize (T Hl2).
  destruct (m_read_keys r2 keys []) as [[cells r3]|[]| | |]; try contradiction; try exact I.
  destruct T as (A1 & A2 & A3 & A4). subst r2. cbn [r_src r_pos] in *.
  apply IH; rewrite A1, A4, B1; lia.
Qed.

Lemma m_read_headers_total : forall n r acc, (n + r_validx r <= length (r_metas r))%nat ->
  match m_read_headers n r acc with
  | Ok (_, r') => same_row r r'
  | Err ParsingError => True
  | _ => False
  end.
Proof.
  induction n as [|n IH]; intros r acc Hn; cbn [m_read_headers]; [apply same_row_refl|].
  unfold m_read_next.
  destruct (nth_error (r_metas r) (r_validx r)) as [m|] eqn:Em; [|apply nth_error_None in Em; lia].
  pose proof (m_value_clean r m) as C. destruct (m_value r m) as [v|[]| | |]; try contradiction; try exact I.
  match goal with |- context [m_read_headers n ?rr _] => set (r1 := rr) end.
  specialize (IH r1 (acc ++ [v])). assert (H1 : (n + r_validx r1 <= length (r_metas r1))%nat) by (subst r1; cbn; lia).
  specialize (IH H1).
  destruct (m_read_headers n r1 (acc ++ [v])) as [[hs r2]|[]| | |]; try contradiction; try exact I.
  eapply same_row_trans; [|exact IH]. subst r1. unfold same_row. cbn. auto.
Qed.

(* LoadObject<CsvArchive> from memory is total on every text, for every request *)
Theorem csv_load_total sep keys text : clean (csv_load sep keys text).
Proof.
  unfold csv_load. destruct (negb (validate_separator sep)); [exact I|].
  unfold m_new.
  set (r0 := mkM text [] [] 0 0 0 0 0).
  destruct (m_is_end r0) eqn:He.
  - unfold m_parse_next_line. rewrite He. exact I.
  - destruct (m_parse_next_line_total sep r0 He) as (r1 & E & B1 & B2 & B3 & B4). rewrite E.
    pose proof (m_read_headers_total (length (r_metas r1)) r1 []) as T.
    assert (H1 : (length (r_metas r1) + r_validx r1 <= length (r_metas r1))%nat) by (rewrite B4; subst r0; cbn; lia).
    specialize (T H1).
    destruct (m_read_headers (length (r_metas r1)) r1 []) as [[hs r2]|[]| | |]; try contradiction; try exact I.
    destruct T as (A1 & A2 & A3 & A4).
    apply m_load_rows_total; cbn [r_src r_pos]; rewrite A1, A4, B1; subst r0; cbn [r_src] in *; lia.
Qed.

(* ---------- a request program per row (C03): total on every text ---------- *)
Lemma m_load_hist_total sep : forall fuel progs r acc,
  (r_pos r <= length (r_src r))%nat -> (length (r_src r) - r_pos r < fuel)%nat ->
  clean (m_load_hist fuel sep progs r acc).
Proof.
  induction fuel as [|fuel IH]; intros progs r acc Hp Hf; [lia|].
  cbn [m_load_hist]. destruct (m_is_end r) eqn:He; [exact I|].
  unfold m_parse_next_row.
  destruct (m_parse_next_line_total sep r He) as (r1 & E & B1 & B2 & B3 & B4). rewrite E.
  cbn [andb negb].
  destruct (negb (Nat.eqb (length (r_headers r1)) (length (r_metas r1)))) eqn:Ew; [exact I|].
  apply negb_false_iff, Nat.eqb_eq in Ew.
  match goal with |- context [m_read_keys ?rr _ []] => set (r2 := rr) end.
  pose proof (m_read_keys_total (hd [] progs) r2 []) as T.
  assert (Hl2 : length (r_headers r2) = length (r_metas r2)) by (subst r2; exact Ew).
  specialize (T Hl2).
  destruct (m_read_keys r2 (hd [] progs) []) as [[cells r3]|[]| | |]; try contradiction; try exact I.
  destruct T as (A1 & A2 & A3 & A4). subst r2. cbn [r_src r_pos] in *.
  apply IH; rewrite A1, A4, B1; lia.
Qed.

Theorem csv_load_hist_total sep progs text : clean (csv_load_hist sep progs text).
Proof.
  unfold csv_load_hist. destruct (negb (validate_separator sep)); [exact I|].
  unfold m_new.
  set (r0 := mkM text [] [] 0 0 0 0 0).
  destruct (m_is_end r0) eqn:He.
  - unfold m_parse_next_line. rewrite He. exact I.
  - destruct (m_parse_next_line_total sep r0 He) as (r1 & E & B1 & B2 & B3 & B4). rewrite E.
    pose proof (m_read_headers_total (length (r_metas r1)) r1 []) as T.
    assert (H1 : (length (r_metas r1) + r_validx r1 <= length (r_metas r1))%nat) by (rewrite B4; subst r0; cbn; lia).
    specialize (T H1).
    destruct (m_read_headers (length (r_metas r1)) r1 []) as [[hs r2]|[]| | |]; try contradiction; try exact I.
    destruct T as (A1 & A2 & A3 & A4).
    apply m_load_hist_total; cbn [r_src r_pos]; rewrite A1, A4, B1; subst r0; cbn [r_src] in *; lia.
Qed.
